(* C25 - the driver of short_circuit_struct (control_flow.py): post-order over the successor edges, the if / elif of the four
   merge cases at every conditional block, passes until nothing changes.  Executable; the graph and the merge are those of
   ShortCircuitGraph.v.  Tied to the source by tools/props/c25.py: the merged structure the model computes for a chain is
   compared with the one the real code leaves behind. *)
From Coq Require Import ZArith List Bool.
Require Import V.Lib.Val V.Lib.Result V.Dad.ShortCircuitModel V.Dad.ShortCircuitGraph.
Import ListNotations.
Open Scope Z_scope.

Definition mem (x : Z) (l : list Z) : bool := existsb (Z.eqb x) l.
Definition sucs (g : graph) (i : Z) : list Z := match lookup g i with Some n => if g_live n then g_sucs n else [] | None => [] end.
(* Graph.post_order: depth first over all_sucs, a node after its successors; -> (visited, order) *)
Fixpoint visit (fuel : nat) (g : graph) (n : Z) (visited : list Z) : list Z * list Z :=
  match fuel with
  | O => (visited, [])
  | S f =>
      let '(vis, out) := fold_left (fun (st : list Z * list Z) suc => let '(vis, out) := st in
                                      if mem suc vis then st else let '(vis', o) := visit f g suc vis in (vis', out ++ o))
                                   (sucs g n) (n :: visited, []) in
      (vis, out ++ [n])
  end.
Definition post_order (g : graph) (entry : Z) : list Z := snd (visit (S (length g) * 2) g entry []).

Record dstate := { d_g : graph; d_fresh : Z; d_entry : Z; d_done : list Z; d_changed : bool }.
Definition do_merge (s : dstate) (a : Z) (k : mcase) : option dstate :=
  match plan (d_g s) a k, apply_plan (d_g s) a (d_fresh s) k with
  | Some (b, _, _, _), Some g' =>
      Some {| d_g := g'; d_fresh := d_fresh s + 1; d_entry := if (d_entry s =? a) || (d_entry s =? b) then d_fresh s else d_entry s;
              d_done := a :: b :: d_done s; d_changed := true |}
  | _, _ => None
  end.
Definition add_done (s : dstate) (a : Z) : dstate :=
  {| d_g := d_g s; d_fresh := d_fresh s; d_entry := d_entry s; d_done := a :: d_done s; d_changed := d_changed s |}.
(* the body of the for loop *)
Definition process (s : dstate) (a : Z) : dstate :=
  if mem a (d_done s) then s else
  match lookup (d_g s) a with
  | None => add_done s a                                  (* not a conditional block *)
  | Some na =>
      let thn := g_true na in let els := g_false na in
      if (a =? thn) || (a =? els) then s else              (* continue *)
      match lookup (d_g s) thn with
      | Some nb =>
          if entered_from_one_block (d_g s) thn then
            if points_to nb a then s else                  (* continue *)
            match do_merge s a AndThen with
            | Some s' => add_done s' a
            | None => match do_merge s a OrThen with Some s' => add_done s' a | None => add_done s a end
            end
          else
            match lookup (d_g s) els with
            | Some ne =>
                if entered_from_one_block (d_g s) els then
                  if points_to ne a then s else
                  match do_merge s a AndElse with
                  | Some s' => add_done s' a
                  | None => match do_merge s a OrElse with Some s' => add_done s' a | None => add_done s a end
                  end
                else add_done s a
            | None => add_done s a
            end
      | None =>
          match lookup (d_g s) els with
          | Some ne =>
              if entered_from_one_block (d_g s) els then
                if points_to ne a then s else
                match do_merge s a AndElse with
                | Some s' => add_done s' a
                | None => match do_merge s a OrElse with Some s' => add_done s' a | None => add_done s a end
                end
              else add_done s a
          | None => add_done s a
          end
      end
  end.
Definition one_pass (g : graph) (fresh entry : Z) : dstate :=
  fold_left process (post_order g entry) {| d_g := g; d_fresh := fresh; d_entry := entry; d_done := []; d_changed := false |}.
Fixpoint struct (fuel : nat) (g : graph) (fresh entry : Z) : graph * Z :=
  match fuel with
  | O => (g, entry)
  | S f => let s := one_pass g fresh entry in
           if d_changed s then struct f (d_g s) (d_fresh s) (d_entry s) else (d_g s, d_entry s)
  end.

(* the structure below the entry as a tree (exit k is the identifier -1 - k: below every block, so that new blocks can be numbered upwards) *)
Fixpoint tree_of (fuel : nat) (g : graph) (i : Z) : cfg :=
  match fuel with
  | O => Exit (-1)
  | S f => match lookup g i with None => Exit (-1 - i) | Some n => Node (g_cond n) (tree_of f g (g_true n)) (tree_of f g (g_false n)) end
  end.
(* a chain: per conditional block its true and false targets (a block number, or -1 - k for exit k) and whether it lies in a handler *)
Definition chain_graph (spec : list ((Z * Z) * bool)) : graph :=
  map (fun ik => let '(i, ((t, f), c)) := ik in (i, mk (Leaf i false) t f c)) (combine (map Z.of_nat (seq 0 (length spec))) spec).
Definition obs_struct (x : Z * list ((Z * Z) * bool)) : val :=
  let '(n, spec) := x in
  let g0 := chain_graph spec in
  let '(g, entry) := struct (S (length spec)) g0 (Z.of_nat (length spec)) 0 in
  obs_sc (n, tree_of (S (S (length spec))) g entry).
