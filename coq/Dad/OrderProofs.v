(* C22 - proofs about coq/Dad/OrderModel.v: the result of every modelled walk over a set is the same for every order *)
From Coq Require Import ZArith List Bool Lia ZifyBool Permutation.
Require Import V.Lib.Val V.Dad.OrderModel.
Import ListNotations.
Open Scope Z_scope.

(* ---------------------------------------------------------------- generalities *)
Lemma mem_In l x : mem l x = true <-> In x l.
Proof. unfold mem. rewrite existsb_exists. split; [intros (y & Hy & E); replace x with y by lia; exact Hy | intros H; exists x; split; [exact H | lia]]. Qed.
Lemma mem_perm l l' x : Permutation l l' -> mem l x = mem l' x.
Proof.
  intros P. destruct (mem l x) eqn:E; symmetry.
  - apply mem_In. apply (Permutation_in _ P). now apply mem_In.
  - destruct (mem l' x) eqn:E'; [|reflexivity]. apply mem_In in E'. apply (Permutation_in _ (Permutation_sym P)) in E'. apply mem_In in E'. congruence.
Qed.
Lemma existsb_perm (f : Z -> bool) l l' : Permutation l l' -> existsb f l = existsb f l'.
Proof. induction 1; cbn [existsb]; try congruence. destruct (f x), (f y); reflexivity. Qed.
Lemma forallb_perm (f : Z -> bool) l l' : Permutation l l' -> forallb f l = forallb f l'.
Proof. induction 1; cbn [forallb]; try congruence. destruct (f x), (f y); reflexivity. Qed.

Lemma existsb_ext' (f g : Z -> bool) l : (forall x, f x = g x) -> existsb f l = existsb g l.
Proof. intros H. induction l as [|x l IH]; [reflexivity|]. cbn [existsb]. now rewrite H, IH. Qed.

(* a fold whose steps commute on the states that can occur gives the same result for every order *)
Lemma fold_left_perm_inv {S A : Type} (f : S -> A -> S) (P : S -> Prop) (Q : A -> Prop) :
  (forall s a, P s -> Q a -> P (f s a)) -> (forall s a b, P s -> Q a -> Q b -> f (f s a) b = f (f s b) a) ->
  forall l l', Permutation l l' -> Forall Q l -> forall s, P s -> fold_left f l s = fold_left f l' s.
Proof.
  intros Hp Hc l l' Hperm. induction Hperm as [|x l l' _ IH|x y l|l l' l'' P1 IH1 _ IH2]; intros HQ s Hs; cbn [fold_left].
  - reflexivity.
  - inversion HQ; subst. apply IH; [assumption | now apply Hp].
  - inversion HQ as [|? ? Hy HQ']; subst. inversion HQ' as [|? ? Hx ?]; subst. now rewrite Hc.
  - rewrite IH1 by assumption. apply IH2; [|exact Hs]. rewrite Forall_forall in *. intros z Hz. apply HQ. now apply (Permutation_in _ (Permutation_sym P1)).
Qed.

(* ---------------------------------------------------------------- PerElement *)
Lemma each_not_in g : forall order st y, ~ In y order -> lookup y (each g order st) = lookup y st.
Proof.
  unfold each. induction order as [|x order IH]; intros st y Hy; cbn [fold_left]; [reflexivity|].
  rewrite IH by (intros H; apply Hy; now right). destruct (g x (lookup x st)); [|reflexivity]. cbn [lookup].
  replace (x =? y) with false; [reflexivity|]. symmetry. apply Z.eqb_neq. intros ->. apply Hy. now left.
Qed.
Theorem each_pointwise g : forall order st y, NoDup order ->
  lookup y (each g order st) = if mem order y then (match g y (lookup y st) with Some v => Some v | None => lookup y st end) else lookup y st.
Proof.
  induction order as [|x order IH]; intros st y Hnd; [reflexivity|]. inversion Hnd as [|? ? Hx Hnd']; subst.
  unfold each. cbn [fold_left]. fold (each g order (match g x (lookup x st) with Some v => (x, v) :: st | None => st end)).
  unfold mem. cbn [existsb]. fold (mem order y). destruct (y =? x) eqn:E.
  - replace y with x by lia. cbn [orb]. rewrite each_not_in by exact Hx. destruct (g x (lookup x st)); [|reflexivity]. cbn [lookup]. now rewrite Z.eqb_refl.
  - cbn [orb]. rewrite IH by exact Hnd'.
    assert (L : lookup y (match g x (lookup x st) with Some v => (x, v) :: st | None => st end) = lookup y st).
    { destruct (g x (lookup x st)); [|reflexivity]. cbn [lookup]. replace (x =? y) with false by lia. reflexivity. }
    rewrite L. reflexivity.
Qed.
Theorem each_order_free g order order' st y : NoDup order -> Permutation order order' ->
  lookup y (each g order st) = lookup y (each g order' st).
Proof.
  intros Hnd P. rewrite !each_pointwise by (try exact Hnd; now apply (Permutation_NoDup P)). now rewrite (mem_perm _ _ y P).
Qed.

(* ---------------------------------------------------------------- compute_end *)
Lemma leaves_perm c c' sucs n : Permutation c c' -> leaves c sucs n = leaves c' sucs n.
Proof.
  intros P. unfold leaves. rewrite (mem_perm _ _ n P). f_equal. apply existsb_ext'. intros s. now rewrite (mem_perm _ _ s P).
Qed.
(* after the repair: the walk is the reverse post order of the graph, the set only answers membership questions *)
Theorem compute_end_set_order_free walk c c' sucs head : Permutation c c' -> compute_end walk c sucs head = compute_end walk c' sucs head.
Proof.
  intros P. unfold compute_end. replace (fold_left (fun acc n => if leaves c sucs n then Some n else acc) walk None)
    with (fold_left (fun acc n => if leaves c' sucs n then Some n else acc) walk None); [reflexivity|].
  generalize (@None Z). induction walk as [|n walk IH]; intros acc; cbn [fold_left]; [reflexivity|]. rewrite IH. now rewrite (leaves_perm c c' sucs n P).
Qed.
(* before the repair the walk was the set itself: two nodes that both leave the interval, two orders, two different ends *)
Theorem old_compute_end_refuted : exists c c' sucs head, Permutation c c' /\ compute_end c c sucs head <> compute_end c' c' sucs head.
Proof.
  exists [1; 2; 3], [1; 3; 2], (fun n => if n =? 2 then [7] else if n =? 3 then [8] else [2; 3]), 1. split.
  - apply perm_skip, perm_swap.
  - vm_compute. discriminate.
Qed.

(* ---------------------------------------------------------------- declarations *)
Lemma add_decl_in l v x : In x (add_decl l v) <-> In x l \/ x = v.
Proof.
  unfold add_decl. destruct (mem l v) eqn:E.
  - apply mem_In in E. split; [now left | intros [H | ->]; assumption].
  - rewrite in_app_iff. cbn [In]. intuition.
Qed.
Lemma add_decl_nodup l v : NoDup l -> NoDup (add_decl l v).
Proof.
  intros H. unfold add_decl. destruct (mem l v) eqn:E; [exact H|].
  assert (N : ~ In v l) by (rewrite <- mem_In; congruence).
  clear E. induction H as [|a l Ha Hl IH]; cbn [app]; [repeat constructor; intros []|]. constructor.
  - rewrite in_app_iff. cbn [In]. intros [X | [X | []]]; [contradiction | subst; apply N; now left].
  - apply IH. intros X. apply N. now right.
Qed.
Lemma filter_and (f g : Z -> bool) l : filter f (filter g l) = filter (fun x => g x && f x) l.
Proof. induction l as [|x l IH]; [reflexivity|]. cbn [filter]. destruct (g x); cbn [filter andb]; [destruct (f x); now rewrite IH | exact IH]. Qed.
Lemma mem_app l v y : mem (l ++ [v]) y = mem l y || (y =? v).
Proof. unfold mem. rewrite existsb_app. cbn [existsb]. now rewrite orb_false_r. Qed.
Lemma fold_add_decl_app : forall vs l, fold_left add_decl vs l = l ++ filter (fun y => negb (mem l y)) (firsts vs).
Proof.
  induction vs as [|v vs IH]; intros l; cbn [fold_left firsts filter]; [now rewrite app_nil_r|]. rewrite IH. unfold add_decl. destruct (mem l v) eqn:E; cbn [negb].
  - f_equal. rewrite filter_and. apply filter_ext. intros y. destruct (y =? v) eqn:Ev; [|now destruct (mem l y)]. replace y with v by lia. rewrite E. reflexivity.
  - rewrite <- app_assoc. cbn [app]. f_equal. f_equal. rewrite filter_and. apply filter_ext. intros y. rewrite mem_app. destruct (mem l y), (y =? v); reflexivity.
Qed.
(* the declarations of a block are written in the order in which they were registered, each variable once *)
Theorem decls_are_first_registrations vs : decls vs = firsts vs.
Proof. unfold decls. rewrite fold_add_decl_app. cbn [app]. rewrite <- (filter_ext (fun _ => true)) by reflexivity. induction (firsts vs) as [|x l IH]; [reflexivity|]. cbn [filter]. now rewrite IH. Qed.
Theorem decls_nodup vs : NoDup (decls vs).
Proof. unfold decls. generalize (NoDup_nil Z). generalize (@nil Z). induction vs as [|v vs IH]; intros l H; cbn [fold_left]; [exact H|]. apply IH. now apply add_decl_nodup. Qed.
Theorem decls_in vs x : In x (decls vs) <-> In x vs.
Proof.
  unfold decls. assert (G : forall l, In x (fold_left add_decl vs l) <-> In x l \/ In x vs).
  { induction vs as [|v vs IH]; intros l; cbn [fold_left In]; [tauto|]. rewrite IH, add_decl_in. intuition. }
  rewrite G. cbn [In]. tauto.
Qed.
(* before the repair the block kept a set and the writer walked it: the same variables, in an order chosen by the hashes *)
Theorem old_declaration_order_refuted : exists written written' : list Z, Permutation written written' /\ written <> written'.
Proof. exists [5; 6], [6; 5]. split; [apply perm_swap | discriminate]. Qed.

(* ---------------------------------------------------------------- max(l, key=num) *)
Definition max_step (num : Z -> Z) (acc : option Z) (x : Z) : option Z :=
  match acc with None => Some x | Some m => if num m <? num x then Some x else Some m end.
Theorem max_by_order_free num l l' : (forall x y, In x l -> In y l -> num x = num y -> x = y) -> Permutation l l' -> max_by num l = max_by num l'.
Proof.
  intros Hinj P. unfold max_by. change (fold_left (max_step num) l None = fold_left (max_step num) l' None).
  (* the states that occur: None, or an element of l *)
  assert (G : forall m m', Permutation m m' -> (forall x, In x m -> In x l) -> forall s, (match s with Some a => In a l | None => True end) ->
              fold_left (max_step num) m s = fold_left (max_step num) m' s).
  { intros m m' Pm. induction Pm as [|x m m' _ IH|x y m|m m' m'' Pm1 IH1 Pm2 IH2]; intros Hin s Hs; cbn [fold_left].
    - reflexivity.
    - apply IH; [intros z Hz; apply Hin; now right|]. destruct s as [a|]; cbn [max_step]; [destruct (num a <? num x); [apply Hin; now left | exact Hs] | apply Hin; now left].
    - f_equal. assert (Hx : In x l) by (apply Hin; right; now left). assert (Hy : In y l) by (apply Hin; now left).
      destruct s as [a|]; cbn [max_step].
      + destruct (num a <? num y) eqn:E1, (num a <? num x) eqn:E2; cbn [max_step]; rewrite ?E1, ?E2; try reflexivity.
        * destruct (num y <? num x) eqn:E3, (num x <? num y) eqn:E4; try reflexivity; try lia. f_equal. apply Hinj; auto; lia.
        * replace (num y <? num x) with false by lia. reflexivity.
        * replace (num x <? num y) with false by lia. reflexivity.
      + destruct (num y <? num x) eqn:E3, (num x <? num y) eqn:E4; try reflexivity; try lia. f_equal. apply Hinj; auto; lia.
    - rewrite IH1 by assumption. apply IH2; [intros z Hz; apply Hin; now apply (Permutation_in _ (Permutation_sym Pm1)) | exact Hs]. }
  apply G; [exact P | auto | exact I].
Qed.

(* ---------------------------------------------------------------- loop_follow *)
Section Follow.
  Variables (info : Z -> cnode) (num : Z -> Z).
  (* what a node of the loop offers as the follow node: its branch that leaves the loop *)
  Definition cand (loop : list Z) (n : Z) : option Z :=
    let c := info n in
    if c_cond c then (if negb (mem loop (c_true c)) then Some (c_true c) else if negb (mem loop (c_false c)) then Some (c_false c) else None) else None.
  Definition min_step (st : option Z * option Z) (o : option Z) : option Z * option Z :=
    match o with None => st | Some x => if lt_inf (num x) (snd st) then (Some x, Some (num x)) else st end.
  (* a conditional node of a loop keeps one foot in the loop *)
  Definition one_foot_in (loop : list Z) (n : Z) : Prop :=
    c_cond (info n) = true -> mem loop (c_true (info n)) = true \/ mem loop (c_false (info n)) = true.
  Lemma follow_step_is_min_step loop st n : one_foot_in loop n -> follow_step info num loop st n = min_step st (cand loop n).
  Proof.
    unfold one_foot_in, follow_step, cand, min_step. intros H. destruct (c_cond (info n)); [|reflexivity]. specialize (H eq_refl).
    destruct (mem loop (c_true (info n))) eqn:Et, (mem loop (c_false (info n))) eqn:Ef; cbn [negb andb]; rewrite ?andb_false_r, ?andb_true_r; try reflexivity.
    destruct H; discriminate.
  Qed.
  Lemma fold_follow_is_fold_min loop : forall order st, Forall (one_foot_in loop) order ->
    fold_left (follow_step info num loop) order st = fold_left min_step (map (cand loop) order) st.
  Proof.
    induction order as [|n order IH]; intros st H; [reflexivity|]. inversion H; subst. cbn [fold_left map]. rewrite follow_step_is_min_step by assumption. now apply IH.
  Qed.
  Theorem min_fold_order_free (cands cands' : list (option Z)) :
    (forall x y, In (Some x) cands -> In (Some y) cands -> num x = num y -> x = y) -> Permutation cands cands' ->
    fold_left min_step cands (None, None) = fold_left min_step cands' (None, None).
  Proof.
    intros Hinj P.
    apply (fold_left_perm_inv min_step (fun st => st = (None, None) \/ exists z, In (Some z) cands /\ st = (Some z, Some (num z))) (fun o => In o cands)); try assumption.
    - intros st [x|] Hs Hq; [|exact Hs]. unfold min_step. destruct (lt_inf (num x) (snd st)); [right; exists x; auto | exact Hs].
    - intros st [x|] [y|] Hs Hx Hy; try reflexivity. assert (E : num x = num y -> x = y) by (now apply Hinj).
      destruct Hs as [-> | (z & Hz & ->)]; unfold min_step; cbn [snd lt_inf].
      + destruct (num y <? num x) eqn:E1, (num x <? num y) eqn:E2; try reflexivity; try lia. rewrite E by lia. reflexivity.
      + destruct (num x <? num z) eqn:E1, (num y <? num z) eqn:E2; cbn [snd lt_inf]; rewrite ?E1, ?E2; try reflexivity.
        * destruct (num y <? num x) eqn:E3, (num x <? num y) eqn:E4; try reflexivity; try lia. rewrite E by lia. reflexivity.
        * replace (num y <? num x) with false by lia. reflexivity.
        * replace (num x <? num y) with false by lia. reflexivity.
    - apply Forall_forall. auto.
    - now left.
  Qed.
  (* the scan of the endless-loop case gives the same follow node for every order of the loop's nodes *)
  Theorem follow_scan_order_free loop order order' :
    Forall (one_foot_in loop) order ->
    (forall n m x y, In n order -> In m order -> cand loop n = Some x -> cand loop m = Some y -> num x = num y -> x = y) ->
    Permutation order order' -> follow_scan info num loop order = follow_scan info num loop order'.
  Proof.
    intros H1 Hinj P. unfold follow_scan. f_equal.
    assert (H1' : Forall (one_foot_in loop) order') by (rewrite Forall_forall in *; intros n Hn; apply H1; now apply (Permutation_in _ (Permutation_sym P))).
    rewrite !fold_follow_is_fold_min by assumption. apply min_fold_order_free; [|now apply Permutation_map].
    intros x y Hx Hy. apply in_map_iff in Hx as (n & En & Hn). apply in_map_iff in Hy as (m & Em & Hm). now apply (Hinj n m).
  Qed.
  Lemma follow_step_loop_perm loop loop' st n : Permutation loop loop' -> follow_step info num loop st n = follow_step info num loop' st n.
  Proof. intros P. unfold follow_step. now rewrite !(mem_perm _ _ _ P). Qed.
  Lemma follow_scan_loop_perm loop loop' order : Permutation loop loop' -> follow_scan info num loop order = follow_scan info num loop' order.
  Proof.
    intros P. unfold follow_scan. f_equal. generalize (@None Z, @None Z). induction order as [|n order IH]; intros st; cbn [fold_left]; [reflexivity|].
    rewrite (follow_step_loop_perm loop loop' st n P). apply IH.
  Qed.
  (* loop_follow as a whole: the list of the loop's nodes may come in any order *)
  Theorem loop_follow_order_free pre post start latch order order' :
    Forall (one_foot_in order) order ->
    (forall n m x y, In n order -> In m order -> cand order n = Some x -> cand order m = Some y -> num x = num y -> x = y) ->
    Permutation order order' -> loop_follow info num pre post start latch order = loop_follow info num pre post start latch order'.
  Proof.
    intros H1 Hinj P. unfold loop_follow. rewrite !(mem_perm _ _ _ P). destruct pre; [reflexivity|]. destruct post; [reflexivity|].
    rewrite (follow_scan_order_free order order order' H1 Hinj P). apply follow_scan_loop_perm, P.
  Qed.
  (* without the one-foot-in condition the scan does depend on the order *)
End Follow.
Theorem follow_scan_needs_one_foot_in : exists info num loop order order', Permutation order order' /\ follow_scan info num loop order <> follow_scan info num loop order'.
Proof.
  exists (fun n => if n =? 1 then {| c_cond := true; c_true := 15; c_false := 13 |} else {| c_cond := true; c_true := 14; c_false := 2 |}), (fun n => n), [1; 2], [1; 2], [2; 1].
  split; [apply perm_swap | vm_compute; discriminate].
Qed.

(* ---------------------------------------------------------------- common_dom over a dominator tree *)
Section Dom.
  Variables (up num : Z -> Z) (root : Z).
  Fixpoint iter_up (k : nat) (x : Z) : Z := match k with O => x | S k => iter_up k (up x) end.
  Definition Anc (x y : Z) : Prop := exists k, iter_up k x = y.          (* y is x itself or lies above x *)
  Definition Dn (x : Z) : Prop := Anc x root.                            (* x is a node of the tree *)
  Hypothesis Hroot : up root = root.
  Hypothesis Hdec : forall x, Dn x -> x <> root -> num (up x) < num x.    (* a dominator comes earlier in reverse post order *)
  Hypothesis Hinj : forall x y, Dn x -> Dn y -> num x = num y -> x = y.

  Lemma Anc_refl x : Anc x x.  Proof. now exists O. Qed.
  Lemma iter_up_add : forall j k x, iter_up (j + k) x = iter_up k (iter_up j x).
  Proof. induction j as [|j IH]; intros k x; cbn [iter_up Nat.add]; [reflexivity | apply IH]. Qed.
  Lemma Anc_trans x y z : Anc x y -> Anc y z -> Anc x z.
  Proof. intros [j <-] [k <-]. exists (j + k)%nat. apply iter_up_add. Qed.
  Lemma Anc_up x : Anc x (up x).  Proof. now exists 1%nat. Qed.
  Lemma Anc_step x y : Anc x y -> y = x \/ Anc (up x) y.
  Proof. intros [[|k] <-]; [now left | right; now exists k]. Qed.
  Lemma Dn_up x : Dn x -> Dn (up x).
  Proof. intros H. destruct (Anc_step _ _ H) as [E | H']; [|exact H']. rewrite <- E, Hroot. apply Anc_refl. Qed.
  Lemma Dn_anc x y : Dn x -> Anc x y -> Dn y.
  Proof. intros Hx [k <-]. revert x Hx. induction k as [|k IH]; intros x Hx; cbn [iter_up]; [exact Hx | apply IH, Dn_up, Hx]. Qed.
  Lemma Anc_num x y : Dn x -> Anc x y -> num y <= num x.
  Proof.
    intros Hx [k <-]. revert x Hx. induction k as [|k IH]; intros x Hx; cbn [iter_up]; [lia|].
    destruct (Z.eq_dec x root) as [-> | Hne]; [rewrite Hroot; now apply IH|]. specialize (IH (up x) (Dn_up x Hx)). specialize (Hdec x Hx Hne). lia.
  Qed.
  Lemma Anc_antisym x y : Dn x -> Anc x y -> Anc y x -> x = y.
  Proof. intros Hx H1 H2. assert (Hy : Dn y) by now apply (Dn_anc x). apply Hinj; auto. pose proof (Anc_num x y Hx H1). pose proof (Anc_num y x Hy H2). lia. Qed.
  Lemma root_first x : Dn x -> num root <= num x.
  Proof. intros H. now apply Anc_num. Qed.

  (* common_dom returns the lowest node that lies above both *)
  Theorem common_dom_spec : forall fuel a b, Dn a -> Dn b -> Z.of_nat fuel > (num a - num root) + (num b - num root) ->
    exists c, common_dom fuel up num a b = Some c /\ Anc a c /\ Anc b c /\ (forall d, Anc a d -> Anc b d -> Anc c d).
  Proof.
    induction fuel as [|f IH]; intros a b Ha Hb Hf.
    - pose proof (root_first a Ha). pose proof (root_first b Hb). lia.
    - cbn [common_dom]. destruct (a =? b) eqn:E.
      + assert (a = b) by lia. subst b. exists a. repeat split; auto using Anc_refl.
      + destruct (num a <? num b) eqn:E1; [|destruct (num b <? num a) eqn:E2].
        * assert (Hne : b <> root) by (intros ->; pose proof (root_first a Ha); lia).
          destruct (IH a (up b) Ha (Dn_up b Hb)) as (c & Ec & A1 & A2 & A3); [specialize (Hdec b Hb Hne); lia|].
          exists c. repeat split; auto; [apply (Anc_trans b (up b) c); auto using Anc_up|].
          intros d Hd1 Hd2. destruct (Anc_step _ _ Hd2) as [-> | Hd2']; [pose proof (Anc_num a b Ha Hd1); lia | now apply A3].
        * assert (Hne : a <> root) by (intros ->; pose proof (root_first b Hb); lia).
          destruct (IH (up a) b (Dn_up a Ha) Hb) as (c & Ec & A1 & A2 & A3); [specialize (Hdec a Ha Hne); lia|].
          exists c. repeat split; auto; [apply (Anc_trans a (up a) c); auto using Anc_up|].
          intros d Hd1 Hd2. destruct (Anc_step _ _ Hd1) as [-> | Hd1']; [pose proof (Anc_num b a Hb Hd2); lia | now apply A3].
        * assert (a = b) by (apply Hinj; auto; lia). lia.
  Qed.

  (* the lowest node above all nodes of a list *)
  Definition Lca (l : list Z) (c : Z) : Prop := (forall x, In x l -> Anc x c) /\ (forall d, (forall x, In x l -> Anc x d) -> Anc c d).
  Lemma Lca_unique l c c' : l <> [] -> (forall x, In x l -> Dn x) -> Lca l c -> Lca l c' -> c = c'.
  Proof.
    intros Hne Hd [A1 A2] [B1 B2]. destruct l as [|x l]; [congruence|]. assert (Hc : Dn c) by (apply (Dn_anc x); [apply Hd | apply A1]; now left).
    apply Anc_antisym; auto.
  Qed.
  Lemma fold_common_dom fuel bound : Z.of_nat fuel >= 2 * bound -> forall rest seen c, seen <> [] -> Lca seen c ->
    (forall x, In x (seen ++ rest) -> Dn x /\ num x - num root < bound) ->
    exists c', fold_left (fun acc x => match acc with Some c => common_dom fuel up num c x | None => None end) rest (Some c) = Some c' /\ Lca (seen ++ rest) c'.
  Proof.
    intros Hfuel. induction rest as [|x rest IH]; intros seen c Hne Hl Hall.
    - exists c. rewrite app_nil_r. auto.
    - cbn [fold_left]. destruct seen as [|y0 seen0] eqn:Es; [congruence|]. rewrite <- Es in *.
      assert (Hy0 : In y0 seen) by (rewrite Es; now left).
      destruct (Hall y0) as [Dy0 By0]; [apply in_or_app; now left|]. destruct (Hall x) as [Dx Bx]; [apply in_or_app; right; now left|].
      assert (Dc : Dn c) by (apply (Dn_anc y0); [exact Dy0 | now apply (proj1 Hl)]).
      assert (Nc : num c <= num y0) by (apply Anc_num; [exact Dy0 | now apply (proj1 Hl)]).
      destruct (common_dom_spec fuel c x Dc Dx) as (c2 & E2 & A1 & A2 & A3); [lia|]. rewrite E2.
      destruct (IH (seen ++ [x]) c2) as (c' & Ec' & Hc').
      + destruct seen; discriminate.
      + split.
        * intros z Hz. apply in_app_or in Hz as [Hz | [<- | []]]; [apply (Anc_trans z c c2); [now apply (proj1 Hl) | exact A1] | exact A2].
        * intros d Hd. apply A3; [apply (proj2 Hl); intros z Hz; apply Hd, in_or_app; now left | apply Hd, in_or_app; right; now left].
      + intros z Hz. apply Hall. rewrite <- app_assoc in Hz. exact Hz.
      + exists c'. split; [exact Ec'|]. rewrite <- app_assoc in Hc'. exact Hc'.
  Qed.
  (* place_declarations: whichever node the set hands out first and in whichever order the others follow, the same node results *)
  Theorem common_dom_all_order_free fuel bound order order' :
    Z.of_nat fuel >= 2 * bound -> (forall x, In x order -> Dn x /\ num x - num root < bound) -> Permutation order order' ->
    common_dom_all fuel up num order = common_dom_all fuel up num order'.
  Proof.
    intros Hfuel Hall P.
    assert (G : forall l, l <> [] -> (forall x, In x l -> Dn x /\ num x - num root < bound) -> exists c, common_dom_all fuel up num l = Some c /\ Lca l c).
    { intros [|first rest] Hne H; [congruence|]. unfold common_dom_all.
      destruct (fold_common_dom fuel bound Hfuel rest [first] first) as (c & Ec & Hc); [discriminate | | exact H | exists c; split; [exact Ec | exact Hc]].
      split; [intros x [<- | []]; apply Anc_refl | intros d Hd; apply Hd; now left]. }
    destruct order as [|x0 order0] eqn:Eo.
    - apply Permutation_nil in P. now subst.
    - rewrite <- Eo in *. assert (Hne : order <> []) by (rewrite Eo; discriminate).
      assert (Hne' : order' <> []) by (intros ->; apply Permutation_sym, Permutation_nil in P; congruence).
      assert (Hall' : forall x, In x order' -> Dn x /\ num x - num root < bound) by (intros x Hx; apply Hall; now apply (Permutation_in _ (Permutation_sym P))).
      destruct (G order Hne Hall) as (c & Ec & Hc). destruct (G order' Hne' Hall') as (c' & Ec' & Hc'). rewrite Ec, Ec'. f_equal.
      apply (Lca_unique order); auto; [intros x Hx; now apply Hall|].
      split; [intros x Hx; apply (proj1 Hc'); now apply (Permutation_in _ P) | intros d Hd; apply (proj2 Hc'); intros x Hx; apply Hd; now apply (Permutation_in _ (Permutation_sym P))].
  Qed.
End Dom.
