(* C19 - proofs about the depth-first numbering model. *)
From Coq Require Import List Arith Bool Lia Permutation.
Require Import V.Dad.RpoModel.
Import ListNotations.

Lemma NoDup_app_intro (a b : list nat) :
  NoDup a -> NoDup b -> (forall x, In x a -> In x b -> False) -> NoDup (a ++ b).
Proof.
  induction a as [|h t IH]; intros Ha Hb Hd; simpl; [assumption|].
  inversion Ha; subst. constructor.
  - intro Hin. apply in_app_or in Hin as [Hin|Hin]; [contradiction | apply (Hd h); [left; reflexivity | assumption]].
  - apply IH; auto. intros x Hx. apply Hd. right. assumption.
Qed.
Lemma mem_In x l : mem x l = true <-> In x l.
Proof. unfold mem. destruct (in_dec Nat.eq_dec x l); split; intros; auto; discriminate. Qed.
Lemma mem_nIn x l : mem x l = false <-> ~ In x l.
Proof. unfold mem. destruct (in_dec Nat.eq_dec x l); split; intros; auto; try discriminate; contradiction. Qed.

Section DFS.
Variable sucs : nat -> list nat.
Notation dfs := (dfs sucs).

Inductive reach : nat -> nat -> Prop :=
| reach_refl x : reach x x
| reach_step x y z : reach x y -> In z (sucs y) -> reach x z.
Lemma reach_trans x y z : reach x y -> reach y z -> reach x z.
Proof. intros Hxy Hyz. induction Hyz; eauto using reach. Qed.

(* every edge x->y of a finished node x: y finished before x, or y reaches x *)
Definition good (o : list nat) : Prop :=
  forall a x b, o = a ++ x :: b -> forall y, In y (sucs x) -> In y a \/ reach y x.
(* the successors of finished nodes have all been visited *)
Definition closed (o v : list nat) : Prop :=
  forall x, In x o -> forall y, In y (sucs x) -> In y v.

Definition post (n : nat) (vis ord vis' ord' : list nat) : Prop :=
  exists new, ord' = ord ++ new ++ [n] /\
    (forall x, In x vis' <-> In x vis \/ In x (new ++ [n])) /\
    (forall x, In x (new ++ [n]) -> ~ In x vis) /\
    NoDup (new ++ [n]) /\
    (forall x, In x (new ++ [n]) -> reach n x).

Lemma dfs_unfold f n s : dfs (S f) n s =
  match fold_left (step (dfs f)) (sucs n) (Some (n :: fst s, snd s)) with
  | None => None | Some (vis, ord) => Some (vis, ord ++ [n]) end.
Proof. reflexivity. Qed.
Lemma fold_step_none rec l : fold_left (step rec) l None = None.
Proof. induction l; simpl; auto. Qed.

Lemma good_app_last o n :
  good o -> (forall y, In y (sucs n) -> In y o \/ reach y n) -> good (o ++ [n]).
Proof.
  intros Hg Hn a x b E y Hy.
  destruct b as [|b0 b'] using rev_ind.
  - apply app_inj_tail in E as [-> ->]. auto.
  - clear IHb'. rewrite app_comm_cons, app_assoc in E. apply app_inj_tail in E as [E _].
    eapply Hg; eauto.
Qed.

Definition inv (n : nat) (vis ord : list nat) (s : st) : Prop :=
  let '(v, o) := s in
  exists new, o = ord ++ new /\
    (forall x, In x v <-> In x (n :: vis) \/ In x new) /\
    (forall x, In x new -> ~ In x (n :: vis)) /\
    NoDup new /\ (forall x, In x new -> reach n x) /\ good o /\ closed o v.

Lemma dfs_post : forall fuel n vis ord vis' ord',
  dfs fuel n (vis, ord) = Some (vis', ord') ->
  ~ In n vis -> incl ord vis ->
  (forall g, In g vis -> ~ In g ord -> reach g n) ->
  good ord -> closed ord vis ->
  post n vis ord vis' ord' /\ good ord' /\ closed ord' vis'.
Proof.
  induction fuel as [|f IH]; intros n vis ord vis' ord' Hd Hn Hinc Hgray Hgood Hclosed; [discriminate|].
  rewrite dfs_unfold in Hd. cbn [fst snd] in Hd.
  assert (Hfold : forall l, incl l (sucs n) -> forall s0, inv n vis ord s0 ->
            forall s1, fold_left (step (dfs f)) l (Some s0) = Some s1 ->
            inv n vis ord s1 /\ (forall c, In c l -> In c (fst s1)) /\ (forall x, In x (fst s0) -> In x (fst s1))).
  { induction l as [|c l IHl]; intros Hl [v o] Hinv s1 Hf; simpl in Hf.
    - inversion Hf; subst. split; [assumption|]. split; [intros ? []|auto].
    - assert (Hl' : incl l (sucs n)) by (intros ? ?; apply Hl; right; assumption).
      destruct (mem c v) eqn:Hm.
      + destruct (IHl Hl' (v, o) Hinv s1 Hf) as (I1 & I2 & I3). split; [assumption|]. split; [|assumption].
        intros c' [<-|Hc']; [apply I3; cbn; apply mem_In; assumption | auto].
      + destruct (dfs f c (v, o)) as [[v2 o2]|] eqn:Hc; [|rewrite fold_step_none in Hf; discriminate].
        destruct Hinv as (new & Eo & Hv & Hdisj & Hnd & Hreach & Hgo & Hcl).
        apply mem_nIn in Hm.
        assert (Hcn : reach n c) by (eapply reach_step; [apply reach_refl | apply Hl; left; reflexivity]).
        destruct (IH c v o v2 o2 Hc Hm) as ((new2 & Eo2 & Hv2 & Hdisj2 & Hnd2 & Hreach2) & Hgo2 & Hcl2).
        { subst o. intros x Hx. apply Hv. apply in_app_or in Hx as [Hx|Hx]; [left; right; apply Hinc; assumption | right; assumption]. }
        { intros g Hg Hng. apply Hv in Hg as [[<-|Hg]|Hg].
          - assumption.
          - eapply reach_trans; [apply Hgray; [assumption|] | exact Hcn]. intro; apply Hng; subst o; apply in_or_app; left; assumption.
          - exfalso; apply Hng; subst o; apply in_or_app; right; assumption. }
        { assumption. }
        { assumption. }
        assert (Hinv2 : inv n vis ord (v2, o2)).
        { exists (new ++ new2 ++ [c]). repeat split.
          - subst o o2. rewrite <- app_assoc. reflexivity.
          - intros Hx. apply Hv2 in Hx as [Hx|Hx]; [apply Hv in Hx as [Hx|Hx]; [left; assumption | right; apply in_or_app; left; assumption] | right; apply in_or_app; right; assumption].
          - intros [Hx|Hx]; apply Hv2; [left; apply Hv; left; assumption|].
            apply in_app_or in Hx as [Hx|Hx]; [left; apply Hv; right; assumption | right; assumption].
          - intros x Hx Hx'. apply in_app_or in Hx as [Hx|Hx]; [eapply Hdisj; eauto|].
            apply (Hdisj2 x Hx). apply Hv. left. assumption.
          - apply NoDup_app_intro; [assumption|assumption|]. intros x Hx1 Hx2. apply (Hdisj2 x Hx2). apply Hv. right. assumption.
          - intros x Hx. apply in_app_or in Hx as [Hx|Hx]; [auto|]. eapply reach_trans; [exact Hcn|auto].
          - assumption.
          - assumption. }
        destruct (IHl Hl' (v2, o2) Hinv2 s1 Hf) as (I1 & I2 & I3). split; [assumption|]. split.
        * intros c' [<-|Hc']; [|auto]. apply I3. cbn. apply Hv2. right. apply in_or_app. right. left. reflexivity.
        * intros x Hx. apply I3. cbn in *. apply Hv2. left. assumption. }
  destruct (fold_left (step (dfs f)) (sucs n) (Some (n :: vis, ord))) as [[v o]|] eqn:Hf; [|discriminate].
  inversion Hd; subst vis' ord'. clear Hd.
  destruct (Hfold (sucs n) (incl_refl _) (n :: vis, ord)) with (s1 := (v, o))
    as ((new & Eo & Hv & Hdisj & Hnd & Hreach & Hgo & Hcl) & Hall & _); [|assumption|].
  { exists []. rewrite app_nil_r. repeat split; auto; try (intros [?|[]]; assumption); try (intros ? []).
    - constructor.
    - intros x Hx y Hy. right. eapply Hclosed; eauto. }
  cbn [fst] in Hall.
  assert (Hnn : ~ In n new) by (intro H; apply (Hdisj n H); left; reflexivity).
  split; [|split].
  - exists new. repeat split.
    + subst o. rewrite <- app_assoc. reflexivity.
    + intros Hx. apply Hv in Hx as [[<-|Hx]|Hx]; [right; apply in_or_app; right; left; reflexivity | left; assumption | right; apply in_or_app; left; assumption].
    + intros [Hx|Hx]; apply Hv; [left; right; assumption|]. apply in_app_or in Hx as [Hx|[<-|[]]]; [right; assumption | left; left; reflexivity].
    + intros x Hx Hx'. apply in_app_or in Hx as [Hx|[<-|[]]]; [apply (Hdisj x Hx); right; assumption | contradiction].
    + apply NoDup_app_intro; [assumption | constructor; [intros []|constructor] |]. intros x Hx [<-|[]]. contradiction.
    + intros x Hx. apply in_app_or in Hx as [Hx|[<-|[]]]; [auto | apply reach_refl].
  - apply good_app_last; [assumption|]. intros y Hy. specialize (Hall y Hy). apply Hv in Hall as [[<-|Hyv]|Hyn].
    + right. apply reach_refl.
    + destruct (in_dec Nat.eq_dec y ord) as [Hyo|Hyo]; [left; subst o; apply in_or_app; left; assumption | right; apply Hgray; assumption].
    + left. subst o. apply in_or_app. right. assumption.
  - intros x Hx y Hy. apply in_app_or in Hx as [Hx|[<-|[]]]; [eapply Hcl; eauto | apply Hall; exact Hy].
Qed.

(* a completed run from the entry *)
Theorem post_order_ok fuel entry vis ord :
  dfs fuel entry ([], []) = Some (vis, ord) ->
  good ord /\ NoDup ord /\ (exists new, ord = new ++ [entry]) /\
  (forall x, In x ord <-> reach entry x).
Proof.
  intros H. destruct (dfs_post fuel entry [] [] vis ord H) as ((new & E & Hv & Hd & Hnd & Hr) & Hg & Hc); auto.
  - intros ? [].
  - intros ? [].
  - intros a x b E. destruct a; discriminate.
  - intros ? [].
  - simpl in E. subst ord. split; [assumption|]. split; [assumption|]. split; [exists new; reflexivity|].
    assert (Hcl : forall a b, reach a b -> In a (new ++ [entry]) -> In b (new ++ [entry])).
    { intros a b R. induction R as [|a y z R IH Hz]; intros Ha; [exact Ha|].
      specialize (IH Ha). specialize (Hc _ IH _ Hz). apply Hv in Hc as [[]|Hc]. exact Hc. }
    intros x. split; [apply Hr|]. intros R. apply (Hcl _ _ R). apply in_or_app. right. left. reflexivity.
Qed.

(* ---- termination: |nodes| + 1 nested calls suffice ---- *)
Lemma dfs_mono : forall fuel n vis ord vis' ord',
  dfs fuel n (vis, ord) = Some (vis', ord') -> incl (n :: vis) vis'.
Proof.
  induction fuel as [|f IH]; intros n vis ord vis' ord' Hd; [discriminate|].
  rewrite dfs_unfold in Hd. cbn [fst snd] in Hd.
  assert (Hfold : forall l s0 s1, fold_left (step (dfs f)) l (Some s0) = Some s1 -> incl (fst s0) (fst s1)).
  { induction l as [|c l IHl]; intros [v o] s1 Hf; simpl in Hf.
    - inversion Hf; subst. apply incl_refl.
    - destruct (mem c v); [apply (IHl _ _ Hf)|].
      destruct (dfs f c (v, o)) as [[v2 o2]|] eqn:Hc; [|rewrite fold_step_none in Hf; discriminate].
      apply IHl in Hf. cbn [fst] in *. apply IH in Hc.
      intros x Hx. apply Hf. apply Hc. right. exact Hx. }
  destruct (fold_left (step (dfs f)) (sucs n) (Some (n :: vis, ord))) as [[v o]|] eqn:Hf; [|discriminate].
  inversion Hd; subst. apply (Hfold _ _ _ Hf).
Qed.

Variable nodes : list nat.
Hypothesis nodes_closed : forall x, In x nodes -> forall y, In y (sucs x) -> In y nodes.

Definition unvisited (vis : list nat) : nat := length (filter (fun x => negb (mem x vis)) nodes).

Lemma filter_len_le (p q : nat -> bool) (l : list nat) :
  (forall x, In x l -> p x = true -> q x = true) -> length (filter p l) <= length (filter q l).
Proof.
  induction l as [|a l IH]; intros H; [apply le_n|]. simpl.
  assert (IH' : length (filter p l) <= length (filter q l)) by (apply IH; intros x Hx; apply H; right; exact Hx).
  destruct (p a) eqn:Pa.
  - rewrite (H a (or_introl eq_refl) Pa). simpl. lia.
  - destruct (q a); simpl; lia.
Qed.
Lemma filter_len_lt (p q : nat -> bool) (l : list nat) a :
  (forall x, In x l -> p x = true -> q x = true) -> In a l -> p a = false -> q a = true ->
  length (filter p l) < length (filter q l).
Proof.
  induction l as [|b l IH]; intros H Ha Pa Qa; [destruct Ha|]. simpl.
  assert (Hle : length (filter p l) <= length (filter q l)) by (apply filter_len_le; intros x Hx; apply H; right; exact Hx).
  destruct Ha as [->|Ha].
  - rewrite Pa, Qa. simpl. lia.
  - assert (IH' : length (filter p l) < length (filter q l)) by (apply IH; auto; intros x Hx; apply H; right; exact Hx).
    destruct (p b) eqn:Pb.
    + rewrite (H b (or_introl eq_refl) Pb). simpl. lia.
    + destruct (q b); simpl; lia.
Qed.
Lemma unvisited_mono v1 v2 : incl v1 v2 -> unvisited v2 <= unvisited v1.
Proof.
  intros H. apply filter_len_le. intros x _ Hx. apply negb_true_iff in Hx. apply negb_true_iff.
  apply mem_nIn in Hx. apply mem_nIn. intros Hin. apply Hx. apply H. exact Hin.
Qed.
Lemma unvisited_visit n vis : In n nodes -> ~ In n vis -> unvisited (n :: vis) < unvisited vis.
Proof.
  intros Hn Hv. apply (filter_len_lt _ _ nodes n); auto.
  - intros x _ Hx. apply negb_true_iff in Hx. apply negb_true_iff. apply mem_nIn in Hx. apply mem_nIn.
    intros Hin. apply Hx. right. exact Hin.
  - apply negb_false_iff. apply mem_In. left. reflexivity.
  - apply negb_true_iff. apply mem_nIn. exact Hv.
Qed.

Lemma dfs_terminates : forall fuel n vis ord,
  In n nodes -> ~ In n vis -> unvisited vis <= fuel -> dfs fuel n (vis, ord) <> None.
Proof.
  induction fuel as [|f IH]; intros n vis ord Hn Hv Hu.
  - pose proof (unvisited_visit n vis Hn Hv). lia.
  - rewrite dfs_unfold. cbn [fst snd].
    assert (Hfold : forall l, incl l nodes -> forall s0, incl (n :: vis) (fst s0) ->
              fold_left (step (dfs f)) l (Some s0) <> None).
    { induction l as [|c l IHl]; intros Hl [v o] Hs0; simpl; [discriminate|].
      assert (Hl' : incl l nodes) by (intros ? ?; apply Hl; right; assumption).
      destruct (mem c v) eqn:Hm; [apply IHl; assumption|].
      apply mem_nIn in Hm.
      destruct (dfs f c (v, o)) as [[v2 o2]|] eqn:Hc.
      - apply IHl; [assumption|]. apply dfs_mono in Hc. cbn [fst] in *.
        intros x Hx. apply Hc. right. apply Hs0. exact Hx.
      - exfalso. revert Hc. apply IH; [apply Hl; left; reflexivity | exact Hm |].
        cbn [fst] in Hs0. pose proof (unvisited_mono _ _ Hs0). pose proof (unvisited_visit n vis Hn Hv). lia. }
    specialize (Hfold (sucs n) (fun y Hy => nodes_closed n Hn y Hy) (n :: vis, ord) (incl_refl _)).
    destruct (fold_left (step (dfs f)) (sucs n) (Some (n :: vis, ord))) as [[v o]|]; [discriminate|congruence].
Qed.

Lemma filter_len_all (p : nat -> bool) (l : list nat) : length (filter p l) <= length l.
Proof. induction l as [|a l IH]; simpl; [lia|]. destruct (p a); simpl; lia. Qed.
Lemma unvisited_le vis : unvisited vis <= length nodes.
Proof. apply filter_len_all. Qed.

Theorem post_order_terminates entry : In entry nodes ->
  exists ord, post_order sucs (S (length nodes)) entry = Some ord.
Proof.
  intros He. unfold post_order.
  destruct (dfs (S (length nodes)) entry ([], [])) as [[v o]|] eqn:E; [exists o; reflexivity|].
  exfalso. revert E. apply dfs_terminates; [exact He | intros [] |]. pose proof (unvisited_le []). lia.
Qed.
End DFS.

(* ---- positions in the finishing order ---- *)
Lemma index_from_bounds : forall l k x, In x l ->
  exists p, index_from k x l = Some p /\ k <= p < k + length l.
Proof.
  induction l as [|y t IH]; intros k x Hx; [destruct Hx|]. cbn [index_from length].
  destruct (Nat.eqb_spec x y) as [->|Hne].
  - exists k. split; [reflexivity | lia].
  - destruct Hx as [->|Hx]; [congruence|]. destruct (IH (S k) x Hx) as (p & E & B).
    exists p. split; [exact E | lia].
Qed.
Lemma index_from_inj : forall l k x y p,
  index_from k x l = Some p -> index_from k y l = Some p -> x = y.
Proof.
  induction l as [|z t IH]; intros k x y p Hx Hy; [discriminate|]. cbn [index_from] in *.
  destruct (Nat.eqb_spec x z) as [->|Nx]; destruct (Nat.eqb_spec y z) as [->|Ny].
  - reflexivity.
  - injection Hx as <-. exfalso.
    assert (In y t) by (destruct (in_dec Nat.eq_dec y t) as [I|I]; [exact I|]; exfalso;
      clear -Hy I; revert Hy; generalize (S k); induction t as [|w t IHt]; intros k'; cbn [index_from]; [discriminate|];
      destruct (Nat.eqb_spec y w) as [->|]; [exfalso; apply I; left; reflexivity | apply IHt; intros J; apply I; right; exact J]).
    destruct (index_from_bounds t (S k) y H) as (q & E & B). rewrite E in Hy. injection Hy as ->. lia.
  - injection Hy as <-. exfalso.
    assert (In x t) by (destruct (in_dec Nat.eq_dec x t) as [I|I]; [exact I|]; exfalso;
      clear -Hx I; revert Hx; generalize (S k); induction t as [|w t IHt]; intros k'; cbn [index_from]; [discriminate|];
      destruct (Nat.eqb_spec x w) as [->|]; [exfalso; apply I; left; reflexivity | apply IHt; intros J; apply I; right; exact J]).
    destruct (index_from_bounds t (S k) x H) as (q & E & B). rewrite E in Hx. injection Hx as ->. lia.
  - eapply IH; eauto.
Qed.
Lemma index_from_app_in : forall a r k y, In y a -> index_from k y (a ++ r) = index_from k y a.
Proof.
  induction a as [|z a IH]; intros r k y Hy; [destruct Hy|]. cbn [app index_from].
  destruct (Nat.eqb_spec y z); [reflexivity|]. destruct Hy as [->|Hy]; [congruence|]. apply IH. exact Hy.
Qed.
Lemma index_from_app_at : forall a b k x, ~ In x a -> index_from k x (a ++ x :: b) = Some (k + length a).
Proof.
  induction a as [|z a IH]; intros b k x Hx; cbn [app index_from length].
  - rewrite Nat.eqb_refl. f_equal. lia.
  - destruct (Nat.eqb_spec x z) as [->|_]; [exfalso; apply Hx; left; reflexivity|].
    rewrite IH by (intros J; apply Hx; right; exact J). f_equal. lia.
Qed.
Lemma NoDup_map_on {A B} (f : A -> B) (l : list A) :
  NoDup l -> (forall x y, In x l -> In y l -> f x = f y -> x = y) -> NoDup (map f l).
Proof.
  induction 1 as [|a l Ha Hl IH]; intros Hf; simpl; constructor.
  - intros Hin. apply in_map_iff in Hin. destruct Hin as (y & E & Hy).
    assert (y = a) by (apply Hf; [right; exact Hy | left; reflexivity | exact E]). subst. contradiction.
  - apply IH. intros x y Hx Hy. apply Hf; right; assumption.
Qed.

(* ---- the numbering of a rooted graph ---- *)
Section Numbering.
Variable sucs : nat -> list nat.
Variable nodes : list nat.
Variable entry : nat.
Hypothesis nodes_nodup : NoDup nodes.
Hypothesis nodes_closed : forall x, In x nodes -> forall y, In y (sucs x) -> In y nodes.
Hypothesis entry_in : In entry nodes.
Hypothesis rooted : forall x, In x nodes -> reach sucs entry x.

Theorem rpo_numbering :
  exists ord, post_order sucs (S (length nodes)) entry = Some ord /\
    Permutation ord nodes /\
    num (S (length nodes)) ord entry = 1 /\
    Permutation (map (num (S (length nodes)) ord) nodes) (seq 1 (length nodes)) /\
    (forall x y, In x nodes -> In y (sucs x) ->
       num (S (length nodes)) ord x < num (S (length nodes)) ord y \/ reach sucs y x).
Proof.
  destruct (post_order_terminates sucs nodes nodes_closed entry entry_in) as (ord & Hpo).
  exists ord. split; [exact Hpo|].
  unfold post_order in Hpo.
  destruct (dfs sucs (S (length nodes)) entry ([], [])) as [[vis ord0]|] eqn:Hd; [|discriminate].
  cbn in Hpo. injection Hpo as ->.
  destruct (post_order_ok sucs _ _ _ _ Hd) as (Hgood & Hnd & (new & Enew) & Hreach).
  assert (Hreach_nodes : forall x, reach sucs entry x -> In x nodes).
  { assert (G : forall a b, reach sucs a b -> In a nodes -> In b nodes).
    { intros a b R. induction R as [|a y z R IH Hz]; intros Ha; [exact Ha|].
      eapply nodes_closed; [|exact Hz]. apply IH. exact Ha. }
    intros x R. exact (G _ _ R entry_in). }
  assert (Hsame : forall x, In x ord <-> In x nodes).
  { intros x. rewrite Hreach. split; [apply Hreach_nodes | apply rooted]. }
  assert (Hperm : Permutation ord nodes) by (apply NoDup_Permutation; assumption).
  assert (Hlen : length ord = length nodes) by (apply Permutation_length; exact Hperm).
  set (n := length nodes) in *.
  assert (Hpos : forall x, In x nodes -> exists p, po ord x = Some p /\ 1 <= p <= n).
  { intros x Hx. apply Hsame in Hx. destruct (index_from_bounds ord 1 x Hx) as (p & E & B).
    exists p. split; [exact E | lia]. }
  split; [exact Hperm|]. split; [|split].
  - (* the entry finishes last *)
    unfold num, po. rewrite Enew.
    assert (Hne : ~ In entry new).
    { rewrite Enew in Hnd. apply NoDup_remove_2 in Hnd. rewrite app_nil_r in Hnd. exact Hnd. }
    rewrite index_from_app_at by exact Hne.
    rewrite Enew, app_length in Hlen. cbn [length] in Hlen. lia.
  - apply Permutation_sym. apply NoDup_Permutation_bis.
    + apply seq_NoDup.
    + rewrite map_length, seq_length. apply le_n.
    + intros k Hk. apply in_seq in Hk.
      (* every number 1..n is taken: by counting, via the other inclusion and equal lengths *)
      assert (Hincl : incl (map (num (S n) ord) nodes) (seq 1 n)).
      { intros m Hm. apply in_map_iff in Hm. destruct Hm as (x & <- & Hx).
        destruct (Hpos x Hx) as (p & E & B). unfold num. rewrite E. apply in_seq. lia. }
      assert (Hnd' : NoDup (map (num (S n) ord) nodes)).
      { apply NoDup_map_on; [exact nodes_nodup|]. intros x y Hx Hy E.
        destruct (Hpos x Hx) as (p & Ep & Bp). destruct (Hpos y Hy) as (q & Eq & Bq).
        unfold num in E. rewrite Ep, Eq in E. assert (p = q) by lia. subst q.
        exact (index_from_inj ord 1 x y p Ep Eq). }
      assert (Hp2 : Permutation (map (num (S n) ord) nodes) (seq 1 n)).
      { apply NoDup_Permutation_bis; [exact Hnd' | rewrite map_length, seq_length; apply le_n | exact Hincl]. }
      apply (Permutation_in k (Permutation_sym Hp2)). apply in_seq. lia.
  - intros x y Hx Hy. apply Hsame in Hx. destruct (in_split x ord Hx) as (a & b & Eab).
    destruct (Hgood a x b Eab y Hy) as [Hya|R]; [left | right; exact R].
    assert (Hxa : ~ In x a).
    { rewrite Eab in Hnd. apply NoDup_remove_2 in Hnd. intros J. apply Hnd. apply in_or_app. left. exact J. }
    unfold num, po. rewrite Eab. rewrite index_from_app_at by exact Hxa.
    rewrite index_from_app_in by exact Hya.
    destruct (index_from_bounds a 1 y Hya) as (q & Eq & Bq). rewrite Eq.
    assert (length a < n) by (rewrite <- Hlen, Eab, app_length; cbn [length]; lia). lia.
Qed.

(* Graph.rpo lists the nodes by increasing number: it is the finishing order reversed *)
Lemma rpo_list_rooted ord : Permutation ord nodes -> rpo_list nodes ord = rev ord.
Proof.
  intros Hp. unfold rpo_list.
  assert (E : filter (fun x => negb (mem x ord)) nodes = []).
  { assert (F : forall l, (forall x, In x l -> In x ord) -> filter (fun x => negb (mem x ord)) l = []).
    { induction l as [|a l IH]; intros H; [reflexivity|]. cbn [filter].
      assert (Ha : mem a ord = true) by (apply mem_In; apply H; left; reflexivity). rewrite Ha. cbn [negb].
      apply IH. intros x Hx. apply H. right. exact Hx. }
    apply F. intros x Hx. apply (Permutation_in x (Permutation_sym Hp) Hx). }
  rewrite E. reflexivity.
Qed.
End Numbering.

Lemma rpo_example :
  let sucs := adj_sucs [[1]; [2]; [1; 3]; []] [[]; [3]; []; []] in
  let nodes := [0; 1; 2; 3] in
  NoDup nodes /\ (forall x, In x nodes -> forall y, In y (sucs x) -> In y nodes) /\
  (forall x, In x nodes -> reach sucs 0 x) /\
  post_order sucs 5 0 = Some [3; 2; 1; 0] /\ map (num 5 [3; 2; 1; 0]) nodes = [1; 2; 3; 4].
Proof.
  intros sucs nodes.
  assert (R1 : reach sucs 0 1) by (eapply reach_step; [apply reach_refl | left; reflexivity]).
  assert (R2 : reach sucs 0 2) by (eapply reach_step; [exact R1 | left; reflexivity]).
  assert (R3 : reach sucs 0 3) by (eapply reach_step; [exact R2 | right; left; reflexivity]).
  split; [repeat constructor; simpl; intuition discriminate|]. split; [|split; [|split; reflexivity]].
  - intros x Hx y Hy. simpl in Hx. destruct Hx as [<-|[<-|[<-|[<-|[]]]]]; simpl in Hy; intuition (subst; simpl; auto).
  - intros x Hx. simpl in Hx. destruct Hx as [<-|[<-|[<-|[<-|[]]]]]; [apply reach_refl | exact R1 | exact R2 | exact R3].
Qed.
