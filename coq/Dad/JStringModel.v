(* C23 - hand-written model of androguard/decompiler/writer.py string(): a str is a list of
   code points, the result is the list of characters of the literal.  Tied to the source by the
   correspondence streams of tools/props/c23.py (every BMP code point on every run). *)
From Coq Require Import ZArith List Bool.
Require Import V.Lib.Val.
Import ListNotations.
Open Scope Z_scope.

(* '%x' % n for 0 <= n < 16 *)
Definition hexd (n : Z) : Z := if n <? 10 then 48 + n else 87 + n.
(* the four appends after '\\u' *)
Definition uesc (i : Z) : list Z :=
  [92; 117; hexd (Z.shiftr i 12); hexd (Z.land (Z.shiftr i 8) 15);
   hexd (Z.land (Z.shiftr i 4) 15); hexd (Z.land i 15)].
Definition units (i : Z) : list Z :=
  if 65535 <? i then
    let j := i - 65536 in [Z.lor 55296 (Z.shiftr j 10); Z.lor 56320 (Z.land j 1023)]
  else [i].
Definition tok (c : Z) : list Z :=
  if (32 <=? c) && (c <? 127) then
    if (c =? 39) || (c =? 34) || (c =? 92) then [92; c] else [c]
  else if (c <=? 127) && ((c =? 13) || (c =? 10) || (c =? 9)) then
    (if c =? 13 then [92; 114] else if c =? 10 then [92; 110] else [92; 116])
  else flat_map uesc (units c).
Definition jstring (s : list Z) : list Z := 34 :: flat_map tok s ++ [34].

(* observation: [string(s), text written by Writer.visit_constant(s)] *)
Definition obs_jstring (s : list Z) : val := VList [VStr (jstring s); VStr (jstring s)].
