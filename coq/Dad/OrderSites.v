(* C22 - every walk over a set that tools/tr/setsites_tr.py finds in androguard/decompiler has a class (coq/gen/Gen_SetSites.v
   is regenerated from the source on every run; a walk that is not in the expected inventory has the class Unknown) *)
From Coq Require Import String List Bool.
Require Import V.Dad.OrderModel V.gen.Gen_SetSites.
Lemma all_sites_known : forallb (fun p : string * site_class => known (snd p)) set_sites = true.
Proof. vm_compute. reflexivity. Qed.
