(* C20 - the worklist iteration of BasicReachDef.run always ends: the sets only grow, they are bounded by the definitions of
   the method, and a node is put back on the list only when a set grew *)
From Coq Require Import ZArith List Bool Lia ZifyBool Sorted.
Require Import V.Lib.Val V.Lib.Result V.Dad.ReachDefModel V.Dad.ReachDefProofs.
Import ListNotations.
Open Scope Z_scope.

(* ---------------------------------------------------------------- sets kept as sorted lists have no repetition *)
Definition ssorted (l : list Z) : Prop := StronglySorted Z.lt l.
Lemma ins_sorted_sorted x l : ssorted l -> ssorted (ins_sorted x l).
Proof.
  unfold ssorted. induction 1 as [|y l Hs IH Hall]; cbn [ins_sorted]; [repeat constructor|].
  destruct (x <? y) eqn:E1; [|destruct (x =? y) eqn:E2].
  - constructor; [now constructor|]. constructor; [lia|]. eapply Forall_impl; [|exact Hall]. cbv beta. intros; lia.
  - now constructor.
  - constructor; [exact IH|]. apply Forall_forall. intros z Hz. apply ins_sorted_in in Hz as [->|Hz]; [lia|]. rewrite Forall_forall in Hall. now apply Hall.
Qed.
Lemma set_of_sorted l : ssorted (set_of l).
Proof. induction l as [|x l IH]; cbn [set_of fold_right]; [constructor | now apply ins_sorted_sorted]. Qed.
Lemma ssorted_nodup l : ssorted l -> NoDup l.
Proof. induction 1 as [|y l _ IH Hall]; constructor; [|exact IH]. intros H. rewrite Forall_forall in Hall. specialize (Hall y H). lia. Qed.
Lemma set_of_nodup l : NoDup (set_of l).
Proof. apply ssorted_nodup, set_of_sorted. Qed.
Lemma strict_superset_longer (a b : list Z) : NoDup a -> NoDup b -> incl a b -> ~ incl b a -> (length a < length b)%nat.
Proof.
  intros Na Nb Hab Hba. pose proof (NoDup_incl_length Na Hab). destruct (Nat.eq_dec (length a) (length b)) as [E|E]; [|lia].
  exfalso. apply Hba. apply NoDup_length_incl; [exact Na | lia | exact Hab].
Qed.

(* ---------------------------------------------------------------- how much room is left *)
Definition room (U : nat) (ls : list (list Z)) : nat := list_sum (map (fun l => (U - length l)%nat) ls).
Lemma room_upd U : forall ls i x, (i < length ls)%nat -> (room U (upd ls i x) + (U - length (nth i ls []))%nat = room U ls + (U - length x))%nat.
Proof.
  unfold room. induction ls as [|l ls IH]; intros i x Hi; [cbn [length] in Hi; lia|]. destruct i as [|i]; unfold list_sum in *; cbn [upd map fold_right nth].
  - lia.
  - cbn [length] in Hi. specialize (IH i x ltac:(lia)). lia.
Qed.
Lemma room_updz U ls i x : 0 <= i < Z.of_nat (length ls) -> (length (nthz ls i []) < length x)%nat -> (length x <= U)%nat ->
  (room U (updz ls i x) < room U ls)%nat.
Proof.
  intros Hi Hlt Hx. unfold updz, nthz in *. replace (i <? 0) with false in * by lia.
  pose proof (room_upd U ls (Z.to_nat i) x ltac:(lia)). lia.
Qed.
Definition universe (m : method) : list Z := map snd (all_defs m).
Definition phi (m : method) (s : state) : nat := (room (length (universe m)) (st_R s) + room (length (universe m)) (st_A s))%nat.
Definition deg (m : method) : nat := S (length (concat (g_sucs m))).

Lemma enqueue_length : forall ss w, (length (enqueue w ss) <= length w + length ss)%nat.
Proof.
  induction ss as [|x ss IH]; intros w; cbn [enqueue length]; [lia|]. specialize (IH (if memz x w then w else w ++ [x])).
  destruct (memz x w); [lia | rewrite app_length in IH; cbn [length] in IH; lia].
Qed.
Lemma nth_length_concat (L : list (list Z)) i : (length (nth i L []) <= length (concat L))%nat.
Proof.
  revert i. induction L as [|l L IH]; intros i; [destruct i; cbn; lia|]. cbn [concat]. rewrite app_length. destruct i as [|i]; cbn [nth]; [lia | specialize (IH i); lia].
Qed.
Lemma sucs_length m v : real m v -> (length (sucs m v) < deg m)%nat.
Proof.
  intros H. unfold sucs, deg, dummy, real in *. replace (v =? nnodes m) with false by lia. unfold nthz. replace (v <? 0) with false by lia.
  pose proof (nth_length_concat (g_sucs m) (Z.to_nat v)). lia.
Qed.

(* ---------------------------------------------------------------- the invariant that makes the sets grow *)
Definition mono (m : method) (s : state) : Prop :=
  sized m s /\
  (forall v, incl (getR s v) (inflow m s v)) /\ (forall v, In v (all_nodes m) -> incl (getA s v) (transfer m s v)) /\
  (forall v, NoDup (getR s v) /\ NoDup (getA s v)) /\
  (forall v, incl (getR s v) (universe m) /\ incl (getA s v) (universe m)).
Lemma getR_outside m s v : sized m s -> ~ In v (all_nodes m) -> getR s v = [] /\ getA s v = [].
Proof.
  intros [S1 S2] H. rewrite all_nodes_in in H. pose proof (all_nodes_length m) as L. unfold getR, getA, nthz.
  destruct (v <? 0) eqn:E; [auto|]. split; apply nth_overflow; lia.
Qed.
Lemma DB_universe m v : wf m -> In v (all_nodes m) -> incl (DB m v) (universe m).
Proof.
  intros W Hv loc H. apply (DB_in m v loc W Hv) in H as (reg & Hd & _). unfold universe. apply in_map_iff. exists (reg, loc). split; [reflexivity|].
  eapply node_defs_all; eauto.
Qed.
Lemma transfer_universe m s v : wf m -> In v (all_nodes m) -> incl (getR s v) (universe m) -> incl (transfer m s v) (universe m).
Proof.
  intros W Hv HR loc H. unfold transfer in H. apply in_app_or in H as [H|H]; [apply filter_In in H as [H _]; now apply HR | now apply (DB_universe m v W Hv)].
Qed.
Lemma inflow_mono m s s' v : (forall p, incl (getA s p) (getA s' p)) -> incl (inflow m s v) (inflow m s' v).
Proof. intros H loc Hl. unfold inflow in *. apply in_flat_map in Hl as (p & Hp & Hl). apply in_flat_map. exists p. split; [exact Hp | now apply H]. Qed.
Lemma transfer_mono m s s' v : incl (getR s v) (getR s' v) -> incl (transfer m s v) (transfer m s' v).
Proof.
  intros H loc Hl. unfold transfer in *. apply in_app_or in Hl as [Hl|Hl]; apply in_or_app; [left | now right].
  apply filter_In in Hl as [H1 H2]. apply filter_In. split; [now apply H | exact H2].
Qed.
Lemma not_set_eq_strict a b : set_eqb a b = false -> incl b a -> ~ incl a b.
Proof.
  intros E Hba Hab. unfold set_eqb in E. assert (subsetb a b = true) by (apply subsetb_spec; exact Hab). assert (subsetb b a = true) by (apply subsetb_spec; exact Hba).
  rewrite H, H0 in E. discriminate.
Qed.

Lemma step_mono m node rest s w s' : wf m -> real m node -> mono m s -> step m node rest s = (w, s') ->
  mono m s' /\ (length w + deg m * phi m s' < length (node :: rest) + deg m * phi m s)%nat /\ (forall x, In x w -> In x rest \/ In x (sucs m node)).
Proof.
  intros W Rn (Sz & M1 & M2 & M3 & M4) E.
  assert (An : In node (all_nodes m)) by now apply real_all.
  assert (In0 : 0 <= node < Z.of_nat (length (all_nodes m))) by (rewrite all_nodes_length; unfold real in Rn; lia).
  pose proof (sucs_length m node Rn) as Dg. set (U := length (universe m)) in *.
  unfold step in E. set (newR := set_of (flat_map (getA s) (preds m node))) in E.
  assert (NR : forall loc, In loc newR <-> In loc (inflow m s node)) by (intros; unfold newR; apply set_of_in).
  assert (P1 : exists s1 w1,
     (match newR with [] => (s, rest) | _ :: _ => if set_eqb newR (getR s node) then (s, rest)
        else ({| st_R := updz (st_R s) node newR; st_A := st_A s |}, enqueue rest (sucs m node)) end) = (s1, w1) /\
     st_A s1 = st_A s /\ mono m s1 /\
     ((s1 = s /\ w1 = rest) \/ ((phi m s1 < phi m s)%nat /\ (length w1 <= length rest + length (sucs m node))%nat)) /\
     (forall x, In x w1 -> In x rest \/ In x (sucs m node))).
  { assert (Same : exists s1 w1, (s, rest) = (s1, w1) /\ st_A s1 = st_A s /\ mono m s1 /\
       ((s1 = s /\ w1 = rest) \/ ((phi m s1 < phi m s)%nat /\ (length w1 <= length rest + length (sucs m node))%nat)) /\ (forall x, In x w1 -> In x rest \/ In x (sucs m node))).
    { exists s, rest. split; [reflexivity|]. split; [reflexivity|]. split; [exact (conj Sz (conj M1 (conj M2 (conj M3 M4))))|]. split; [left; auto | intros; now left]. }
    destruct newR as [|x0 nr] eqn:EN; [exact Same|]. destruct (set_eqb (x0 :: nr) (getR s node)) eqn:Eq; [exact Same|]. clear Same.
    set (s1 := {| st_R := updz (st_R s) node (x0 :: nr); st_A := st_A s |}).
    assert (G : getR s1 node = x0 :: nr). { unfold getR, s1. cbn [st_R]. apply nthz_updz_same. destruct Sz as [S1 _]. rewrite S1. exact In0. }
    assert (Go : forall v, v <> node -> getR s1 v = getR s v). { intros v Hv. unfold getR, s1. cbn [st_R]. apply nthz_updz_other. congruence. }
    assert (GA : forall v, getA s1 v = getA s v) by reflexivity.
    assert (IF : forall v, inflow m s1 v = inflow m s v) by reflexivity.
    assert (Inc : incl (getR s node) (x0 :: nr)) by (intros loc H; apply NR; now apply M1).
    exists s1, (enqueue rest (sucs m node)). split; [reflexivity|]. split; [reflexivity|]. split; [|split].
    - split; [destruct Sz as [S1 S2]; split; unfold s1; cbn [st_R st_A]; [now rewrite updz_length | exact S2]|]. split; [|split; [|split]].
      + intros v. rewrite IF. destruct (Z.eq_dec v node) as [->|Hne]; [rewrite G; intros loc H; now apply NR | rewrite Go by exact Hne; apply M1].
      + intros v Hv. rewrite GA. destruct (Z.eq_dec v node) as [->|Hne].
        * intros loc H. apply (transfer_mono m s s1 node); [rewrite G; exact Inc | now apply M2].
        * intros loc H. apply M2 in H; [|exact Hv]. unfold transfer in *. now rewrite Go by exact Hne.
      + intros v. rewrite GA. split; [|apply M3]. destruct (Z.eq_dec v node) as [->|Hne]; [rewrite G, <- EN; apply set_of_nodup | rewrite Go by exact Hne; apply M3].
      + intros v. rewrite GA. split; [|apply M4]. destruct (Z.eq_dec v node) as [->|Hne]; [|rewrite Go by exact Hne; apply M4].
        rewrite G. intros loc H. apply NR in H. unfold inflow in H. apply in_flat_map in H as (p & _ & H). now apply (proj2 (M4 p)).
    - right. split; [|apply enqueue_length]. unfold phi. fold U. cbn [st_R st_A]. apply Nat.add_lt_mono_r. apply room_updz.
      + destruct Sz as [S1 _]. rewrite S1. exact In0.
      + fold (getR s node). apply strict_superset_longer; [apply M3 | rewrite <- EN; apply set_of_nodup | exact Inc | now apply not_set_eq_strict].
      + unfold U. apply NoDup_incl_length; [rewrite <- EN; apply set_of_nodup|]. intros loc H. apply NR in H. unfold inflow in H. apply in_flat_map in H as (p & _ & H). now apply (proj2 (M4 p)).
    - intros x Hx. now apply enqueue_in. }
  destruct P1 as (s1 & w1 & E1 & A1 & (Sz1 & N1 & N2 & N3 & N4) & Prog1 & W1). rewrite E1 in E.
  set (newA := set_of (filter (fun loc => negb (memz loc (flat_map (def_to_loc m) (regs_of m node)))) (getR s1 node) ++ DB m node)) in E.
  assert (NA : forall loc, In loc newA <-> In loc (transfer m s1 node)) by (intros; unfold newA; apply set_of_in).
  destruct (set_eqb newA (getA s1 node)) eqn:EA; injection E as <- <-.
  - split; [exact (conj Sz1 (conj N1 (conj N2 (conj N3 N4))))|]. split; [|exact W1].
    destruct Prog1 as [[-> ->] | [P L]]; cbn [length]; [lia|]. assert (deg m * phi m s1 + deg m <= deg m * phi m s)%nat by nia. lia.
  - set (s2 := {| st_R := st_R s1; st_A := updz (st_A s1) node newA |}).
    assert (GR2 : forall v, getR s2 v = getR s1 v) by reflexivity.
    assert (GA2o : forall v, v <> node -> getA s2 v = getA s1 v). { intros v Hv. unfold getA, s2. cbn [st_A]. apply nthz_updz_other. congruence. }
    assert (GA2 : getA s2 node = newA). { unfold getA, s2. cbn [st_A]. apply nthz_updz_same. destruct Sz1 as [_ S2]. rewrite S2. exact In0. }
    assert (Inc : incl (getA s1 node) newA) by (intros loc H; apply NA; now apply N2).
    assert (Agrow : forall p, incl (getA s1 p) (getA s2 p)). { intros p. destruct (Z.eq_dec p node) as [->|Hne]; [rewrite GA2; exact Inc | rewrite GA2o by exact Hne; apply incl_refl]. }
    assert (TU : incl newA (universe m)). { intros loc H. apply NA in H. apply (transfer_universe m s1 node W An); [apply N4 | exact H]. }
    assert (P2 : (phi m s2 < phi m s1)%nat).
    { unfold phi. fold U. cbn [st_R st_A]. apply Nat.add_lt_mono_l. apply room_updz.
      - destruct Sz1 as [_ S2]. rewrite S2. exact In0.
      - fold (getA s1 node). apply strict_superset_longer; [apply N3 | apply set_of_nodup | exact Inc | now apply not_set_eq_strict].
      - unfold U. apply NoDup_incl_length; [apply set_of_nodup | exact TU]. }
    split; [|split].
    + split; [destruct Sz1 as [S1 S2]; split; unfold s2; cbn [st_R st_A]; [exact S1 | now rewrite updz_length]|]. split; [|split; [|split]].
      * intros v. rewrite GR2. intros loc H. apply (inflow_mono m s1 s2 v Agrow). now apply N1.
      * intros v Hv. destruct (Z.eq_dec v node) as [->|Hne]; [rewrite GA2; intros loc H; now apply NA|]. rewrite GA2o by exact Hne. now apply N2.
      * intros v. rewrite GR2. split; [apply N3|]. destruct (Z.eq_dec v node) as [->|Hne]; [rewrite GA2; apply set_of_nodup | rewrite GA2o by exact Hne; apply N3].
      * intros v. rewrite GR2. split; [apply N4|]. destruct (Z.eq_dec v node) as [->|Hne]; [rewrite GA2; exact TU | rewrite GA2o by exact Hne; apply N4].
    + pose proof (enqueue_length (sucs m node) w1) as L2. cbn [length].
      destruct Prog1 as [[-> ->] | [P L]]; [assert (deg m * phi m s2 + deg m <= deg m * phi m s)%nat by nia; lia|].
      assert (deg m * phi m s2 + 2 * deg m <= deg m * phi m s)%nat by nia. lia.
    + intros x Hx. apply enqueue_in in Hx as [Hx|Hx]; [now apply W1 | now right].
Qed.

(* ---------------------------------------------------------------- the loop *)
Theorem run_ends m : wf m -> forall fuel work s, mono m s -> (forall v, In v work -> real m v) ->
  (length work + deg m * phi m s < fuel)%nat -> run fuel m work s <> None.
Proof.
  intros W. induction fuel as [|f IH]; intros work s Mo Wk Hf; [lia|]. destruct work as [|node rest]; [discriminate|]. cbn [run].
  destruct (step m node rest s) as [w s1] eqn:E. assert (Rn : real m node) by (apply Wk; now left).
  destruct (step_mono m node rest s w s1 W Rn Mo E) as (Mo1 & Dec & Ww). apply IH; [exact Mo1| |lia].
  intros v Hv. destruct (Ww v Hv) as [H|H]; [apply Wk; now right | eapply sucs_real; [exact W | apply real_all; exact Rn | exact H]].
Qed.
Lemma run_more_fuel m : forall fuel work s r, run fuel m work s = Some r -> forall fuel', (fuel <= fuel')%nat -> run fuel' m work s = Some r.
Proof.
  induction fuel as [|f IH]; intros work s r H fuel' Hf.
  - destruct work; [|discriminate]. destruct fuel'; exact H.
  - destruct work as [|node rest]; [destruct fuel'; exact H|]. destruct fuel' as [|f']; [lia|]. cbn [run] in *.
    destruct (step m node rest s) as [w s1]. apply (IH _ _ _ H). lia.
Qed.
Lemma nodup_app_r (a b : list Z) : NoDup (a ++ b) -> NoDup b.
Proof. induction a as [|x a IH]; cbn [app]; [auto|]. intros H. inversion H; subst. now apply IH. Qed.
Lemma nodup_app_l (a b : list Z) : NoDup (a ++ b) -> NoDup a.
Proof. induction a as [|x a IH]; cbn [app]; [constructor|]. intros H. inversion H as [|? ? Hx Hn]; subst. constructor; [|now apply IH]. intros X. apply Hx. apply in_or_app. now left. Qed.
Lemma init_mono m : wf m -> mono m (init_state m).
Proof.
  intros W. unfold init_state. set (blank := map (fun _ => @nil Z) (all_nodes m)). set (s0 := {| st_R := blank; st_A := updz blank (dummy m) (map snd (param_defs m)) |}).
  assert (GR : forall v, getR s0 v = []) by (intros; apply nthz_blank).
  assert (GA : forall v, v <> dummy m -> getA s0 v = []). { intros v Hv. unfold getA, s0. cbn [st_A]. rewrite nthz_updz_other by congruence. apply nthz_blank. }
  assert (GD : getA s0 (dummy m) = map snd (param_defs m)).
  { unfold getA, s0. cbn [st_A]. apply nthz_updz_same. unfold blank. rewrite map_length, all_nodes_length. unfold dummy, nnodes. lia. }
  assert (PU : incl (map snd (param_defs m)) (universe m)).
  { intros loc H. apply in_map_iff in H as ([r l] & <- & H). unfold universe. apply in_map_iff. exists (r, l). split; [reflexivity|].
    apply (node_defs_all m (dummy m)); [apply dummy_all | now rewrite node_defs_dummy]. }
  split; [split; unfold s0; cbn [st_R st_A]; unfold blank; [now rewrite map_length | now rewrite updz_length, map_length]|]. split; [|split; [|split]].
  - intros v. rewrite GR. intros x [].
  - intros v Hv. destruct (Z.eq_dec v (dummy m)) as [->|Hne]; [|rewrite GA by exact Hne; intros x []].
    rewrite GD. intros loc H. unfold transfer. apply in_or_app. right. apply (DB_in m _ loc W (dummy_all m)).
    apply in_map_iff in H as ([r l] & <- & H). exists r. now apply param_last_def.
  - intros v. rewrite GR. split; [constructor|]. destruct (Z.eq_dec v (dummy m)) as [->|Hne]; [|rewrite GA by exact Hne; constructor].
    rewrite GD. pose proof (wf_locs m W) as N. unfold all_defs in N.
    (* the locs of the parameters are a part of all the locs *)
    assert (S : exists a b, all_nodes m = a ++ dummy m :: b) by (apply in_split, dummy_all). destruct S as (a & b & Es). rewrite Es in N.
    rewrite flat_map_app in N. cbn [flat_map] in N. rewrite node_defs_dummy in N. rewrite !map_app in N.
    apply nodup_app_r in N. now apply nodup_app_l in N.
  - intros v. rewrite GR. split; [intros x []|]. destruct (Z.eq_dec v (dummy m)) as [->|Hne]; [rewrite GD; exact PU | rewrite GA by exact Hne; intros x []].
Qed.
(* the bound: every node once, plus (out-degree bound) for every element that can still be added to a set *)
Definition steps_bound (m : method) : nat := S (length (g_rpo m) + deg m * (2 * length (all_nodes m) * length (universe m))).
Lemma room_le U ls : (room U ls <= length ls * U)%nat.
Proof. unfold room, list_sum. induction ls as [|l ls IH]; cbn [map fold_right length]; [lia|]. rewrite Nat.mul_succ_l. lia. Qed.
Theorem analysis_ends m : wf m -> exists s, (forall fuel, (steps_bound m <= fuel)%nat -> run fuel m (g_rpo m) (init_state m) = Some s) /\
  (forall v loc, In v (all_nodes m) -> (In loc (getR s v) <-> exists reg, reach_in m reg loc v)) /\ (analysis m = None \/ analysis m = Some s).
Proof.
  intros W. pose proof (init_mono m W) as Mo.
  assert (B : (length (g_rpo m) + deg m * phi m (init_state m) < steps_bound m)%nat).
  { unfold steps_bound, phi. destruct Mo as ([S1 S2] & _). pose proof (room_le (length (universe m)) (st_R (init_state m))). pose proof (room_le (length (universe m)) (st_A (init_state m))).
    rewrite S1 in H. rewrite S2 in H0. nia. }
  destruct (run (steps_bound m) m (g_rpo m) (init_state m)) as [s|] eqn:E.
  - exists s. split; [intros fuel Hf; now apply (run_more_fuel m _ _ _ _ E)|]. split.
    + destruct (run_inv m W _ _ _ _ E (init_inv m W)) as (_ & [SR SA] & _ & St).
      assert (Stab : forall v, In v (all_nodes m) -> stable m s v) by (intros v Hv; apply St; auto).
      intros v loc Hv. split; [apply SR|]. intros (reg & Hr). clear Hv.
      induction Hr as [a v Ha Hd Hs | u v Hu Hr IH Hn Hs].
      * assert (Hv : In v (all_nodes m)) by (apply real_all; eapply sucs_real; eauto).
        apply (proj1 (Stab v Hv)). unfold inflow. apply in_flat_map. exists a. split; [now apply preds_in|].
        apply (proj2 (Stab a Ha)). unfold transfer. apply in_or_app. right. apply (DB_in m a loc W Ha). eauto.
      * assert (Hv : In v (all_nodes m)) by (apply real_all; eapply sucs_real; eauto).
        apply (proj1 (Stab v Hv)). unfold inflow. apply in_flat_map. exists u. split; [now apply preds_in|].
        apply (proj2 (Stab u Hu)). unfold transfer. apply in_or_app. left. apply filter_In. split; [exact IH|].
        apply negb_true_iff, memz_false. intros K. apply killed_in in K as (reg' & Hd' & Hi). apply Hn.
        assert (reg' = reg) as <- by (eapply def_reg_unique; eauto; eapply reach_in_is_def; eauto). exact Hd'.
    + unfold analysis. destruct (run (FUEL m) m (g_rpo m) (init_state m)) as [s'|] eqn:E'; [right | now left].
      destruct (Nat.le_ge_cases (FUEL m) (steps_bound m)) as [L|L].
      * rewrite (run_more_fuel m _ _ _ _ E' _ L) in E. congruence.
      * rewrite (run_more_fuel m _ _ _ _ E _ L) in E'. congruence.
  - exfalso. revert E. apply (run_ends m W); [exact Mo | apply W | exact B].
Qed.
