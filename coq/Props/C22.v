(* C22 - decompilation output is deterministic.  Statements only; proofs in Dad/OrderProofs.v and Dad/OrderSites.v.
   What is proved: every place of androguard/decompiler where a Python set is walked (inventory regenerated from the source
   on every run: coq/gen/Gen_SetSites.v) belongs to a class, and for the classes PerElement, Membership, FollowScan and
   CommonDominator, and for the three places repaired by fix: commits (Interval.compute_end, BasicBlock.var_to_declare,
   MergeNodes), the modelled result is the same for every order in which the set could hand out its elements.
   What is not proved: that the printed text as a whole is a function of these results only (the decompiler is not modelled
   as a whole) - that is explored by the streams of tools/props/c22.py with controlled hashes and fresh processes. *)
From Coq Require Import ZArith List Bool String Permutation.
Require Import V.Lib.Val V.Dad.OrderModel V.Dad.OrderProofs V.gen.Gen_SetSites V.Dad.OrderSites.
Require V.Dad.DomModel.   (* the stream site-dominators of tools/props/c22.py evaluates C18's specification of immediate dominators *)
Import ListNotations.
Open Scope Z_scope.

Theorem C22_every_walk_over_a_set_is_classified : forallb (fun p : string * site_class => known (snd p)) set_sites = true.
Proof. exact all_sites_known. Qed.
Print Assumptions C22_every_walk_over_a_set_is_classified.

(* `for x in S: <write to x only>`: what is stored for any y afterwards does not depend on the order *)
Theorem C22_per_element_walk_is_order_free : forall g order order' st y, NoDup order -> Permutation order order' ->
  lookup y (each g order st) = lookup y (each g order' st).
Proof. exact each_order_free. Qed.
Print Assumptions C22_per_element_walk_is_order_free.

Theorem C22_any_and_all_are_order_free : forall (f : Z -> bool) l l', Permutation l l' -> existsb f l = existsb f l' /\ forallb f l = forallb f l'.
Proof. exact (fun f l l' P => conj (existsb_perm f l l' P) (forallb_perm f l l' P)). Qed.
Print Assumptions C22_any_and_all_are_order_free.

(* Interval.compute_end after the repair: the set is only asked for membership *)
Theorem C22_interval_end_is_order_free : forall walk c c' sucs head, Permutation c c' -> compute_end walk c sucs head = compute_end walk c' sucs head.
Proof. exact compute_end_set_order_free. Qed.
Print Assumptions C22_interval_end_is_order_free.
(* ... and before the repair it was not *)
Theorem C22_interval_end_before_the_repair_refuted : exists c c' sucs head, Permutation c c' /\ compute_end c c sucs head <> compute_end c' c' sucs head.
Proof. exact old_compute_end_refuted. Qed.
Print Assumptions C22_interval_end_before_the_repair_refuted.

(* the declarations at the head of a block: each variable once, in the order of registration *)
Theorem C22_declarations_follow_registration : forall vs, decls vs = firsts vs /\ NoDup (decls vs) /\ (forall x, In x (decls vs) <-> In x vs).
Proof. exact (fun vs => conj (decls_are_first_registrations vs) (conj (decls_nodup vs) (decls_in vs))). Qed.
Print Assumptions C22_declarations_follow_registration.

(* loop_follow: the nodes of the loop may be listed in any order, provided every conditional node of the loop has a branch
   inside the loop and different candidates have different numbers *)
Theorem C22_loop_follow_is_order_free : forall info num pre post start latch order order',
  Forall (one_foot_in info order) order ->
  (forall n m x y, In n order -> In m order -> cand info order n = Some x -> cand info order m = Some y -> num x = num y -> x = y) ->
  Permutation order order' -> loop_follow info num pre post start latch order = loop_follow info num pre post start latch order'.
Proof. exact loop_follow_order_free. Qed.
Print Assumptions C22_loop_follow_is_order_free.
(* the condition is needed *)
Theorem C22_loop_follow_without_the_condition_refuted :
  exists info num loop order order', Permutation order order' /\ follow_scan info num loop order <> follow_scan info num loop order'.
Proof. exact follow_scan_needs_one_foot_in. Qed.
Print Assumptions C22_loop_follow_without_the_condition_refuted.

(* max(l, key=num) over nodes with different numbers *)
Theorem C22_max_by_number_is_order_free : forall num l l', (forall x y, In x l -> In y l -> num x = num y -> x = y) -> Permutation l l' -> max_by num l = max_by num l'.
Proof. exact max_by_order_free. Qed.
Print Assumptions C22_max_by_number_is_order_free.

(* place_declarations: the common dominator of a set of definition nodes, in a tree whose parents come earlier in reverse
   post order: the same node for every first element and every order of the others *)
Theorem C22_common_dominator_is_order_free : forall up num root, up root = root ->
  (forall x, Dn up root x -> x <> root -> num (up x) < num x) -> (forall x y, Dn up root x -> Dn up root y -> num x = num y -> x = y) ->
  forall fuel bound order order', Z.of_nat fuel >= 2 * bound -> (forall x, In x order -> Dn up root x /\ num x - num root < bound) ->
  Permutation order order' -> common_dom_all fuel up num order = common_dom_all fuel up num order'.
Proof. exact common_dom_all_order_free. Qed.
Print Assumptions C22_common_dominator_is_order_free.

Example C22_nonvacuous :
  (* a loop of three nodes, two of them conditional with one branch leaving: both orders give the follow node 7 *)
  let info := fun n => if n =? 1 then {| c_cond := true; c_true := 2; c_false := 9 |} else if n =? 2 then {| c_cond := true; c_true := 7; c_false := 3 |}
                       else {| c_cond := false; c_true := -1; c_false := -1 |} in
  loop_follow info (fun n => n) false false 1 3 [1; 2; 3] = Some 7 /\ loop_follow info (fun n => n) false false 1 3 [3; 2; 1] = Some 7 /\
  Forall (one_foot_in info [1; 2; 3]) [1; 2; 3] /\
  (* a tree 1 <- 2 <- 4, 1 <- 3: the common dominator of {4, 3, 2} *)
  let up := fun n => if n =? 4 then 2 else 1 in
  common_dom_all 10 up (fun n => n) [4; 3; 2] = Some 1 /\ common_dom_all 10 up (fun n => n) [2; 4; 3] = Some 1 /\ Dn up 1 4 /\
  decls [3; 1; 3; 2; 1] = [3; 1; 2] /\ compute_end [1; 2; 3] [3; 1; 2] (fun n => if n =? 2 then [7] else if n =? 3 then [8] else [2; 3]) 1 = 3.
Proof.
  cbv zeta. repeat split; try (vm_compute; reflexivity).
  - repeat (apply Forall_cons; [unfold one_foot_in; vm_compute; intros H; (discriminate H || auto)|]). apply Forall_nil.
  - exists 2%nat. reflexivity.
Qed.
