(* C38 - cleaned file names are portable.  Property theorems only.
   clean_file_name fuel fs filename unique repl is the model of misc.clean_file_name on a POSIX system;
   fs is the set of paths for which os.path.isfile answers True; okc c says that c is neither one of
   the reserved characters nor a control character U+0000..U+001F; ends_bad s says that s ends with a space or a dot;
   good_repl r says that r is accepted as replacement character; py_split is posixpath.split. *)
From Coq Require Import ZArith List.
Require Import V.Lib.Result V.Misc.CleanNameModel V.Misc.CleanNameProofs.
Import ListNotations.
Open Scope Z_scope.

(* every result the function returns satisfies the five requirements, for every path, every set of
   existing files and every allowed replacement character *)
Theorem C38_cleaned_name_is_portable : forall fuel fs filename unique r res,
  good_repl r -> Z.of_nat fuel <= 2 ^ 200 ->
  clean_file_name fuel fs filename unique [r] = Ok res ->
  exists base, py_split res = (fst (py_split filename), base) /\
    Forall okc base /\ ends_bad base = false /\ zlen base <= 230 /\
    (unique = true -> ~ In res fs).
Proof. exact clean_file_name_spec. Qed.
Print Assumptions C38_cleaned_name_is_portable.

(* and it always returns: the uniqueness loop ends within 2 * |fs| + 3 probes *)
Theorem C38_always_returns : forall fs filename unique r,
  good_repl r -> exists res, clean_file_name (2 * length fs + 3) fs filename unique [r] = Ok res.
Proof. exact clean_file_name_terminates. Qed.
Print Assumptions C38_always_returns.

(* a forbidden replacement string is refused *)
Theorem C38_bad_replacement_refused : forall fuel fs filename unique c t,
  bad_replace_char c = true -> clean_file_name fuel fs filename unique (c :: t) = Err ValueError.
Proof. exact clean_file_name_bad_replace. Qed.
Print Assumptions C38_bad_replacement_refused.

(* "d/a?b. " with "d/a_b._" and "d/a_b.__0" existing -> "d/a_b.__1"   (the final space is replaced, then _0, _1 are tried) *)
Example C38_nonvacuous :
  good_repl 95 /\
  clean_file_name 7 [[100; 47; 97; 95; 98; 46; 95]; [100; 47; 97; 95; 98; 95; 48; 46; 95]]
                  [100; 47; 97; 63; 98; 46; 32] true [95] = Ok [100; 47; 97; 95; 98; 95; 49; 46; 95].
Proof. vm_compute. split; reflexivity. Qed.
