(* C07 - DEX parsing does not depend on the order of the map list.  Statements only; proofs in Dex/MapOrderProofs.v. *)
From Coq Require Import ZArith List Bool Permutation.
Require Import V.Lib.Val V.Lib.Result V.Dex.MapOrderModel V.Dex.MapOrderProofs V.Dex.MapOrderRun V.gen.Gen_MapDeps.
Import ListNotations.
Open Scope Z_scope.

(* the loop of determine_load_order ends for every table (it reports a cycle or returns an order) *)
Theorem C07_load_order_computation_ends : forall t, determine_load_order t <> Err OutOfFuel.
Proof. exact determine_load_order_ends. Qed.
Print Assumptions C07_load_order_computation_ends.

(* on the dependency table of the source (translated on every run): a total order of all section types - no two
   types share a rank, every TypeMapItem member has one - in which every section is loaded after the ones it needs *)
Theorem C07_source_table_gives_a_total_order_respecting_dependencies :
  exists order, determine_load_order dep_table = Ok order /\ respects dep_table order = true /\
                distinct order = true /\ covers order map_types = true /\ covers order (map fst dep_table) = true.
Proof. exact table_order_ok. Qed.
Print Assumptions C07_source_table_gives_a_total_order_respecting_dependencies.

(* MapList: for entries of pairwise distinct types, any permutation of the map list gives the same parse order
   (or the same KeyError), the same lookups by type, hence the same state after parsing, whatever one parse step does *)
Theorem C07_parse_order_ignores_map_order : forall order items items',
  Permutation items items' -> NoDup (map fst items) -> parse_order order items = parse_order order items'.
Proof. exact parse_order_free. Qed.
Print Assumptions C07_parse_order_ignores_map_order.
Theorem C07_lookup_by_type_ignores_map_order : forall items items' ty,
  Permutation items items' -> NoDup (map fst items) -> get_item_type items ty = get_item_type items' ty.
Proof. exact get_item_type_free. Qed.
Print Assumptions C07_lookup_by_type_ignores_map_order.
Theorem C07_loaded_state_ignores_map_order : forall (state : Type) (parse_step : state -> map_item -> state) order items items' s0,
  Permutation items items' -> NoDup (map fst items) ->
  load_all state parse_step order items s0 = load_all state parse_step order items' s0.
Proof. exact load_all_free. Qed.
Print Assumptions C07_loaded_state_ignores_map_order.

Example C07_nonvacuous :
  let items := [(T_CODE_ITEM, 0); (T_STRING_ID_ITEM, 1); (T_HEADER_ITEM, 2); (T_STRING_DATA_ITEM, 3)] in
  Permutation items (rev items) /\ NoDup (map fst items) /\
  obs_parse_order (dep_table, map fst items) = vlistZ [T_HEADER_ITEM; T_STRING_DATA_ITEM; T_STRING_ID_ITEM; T_CODE_ITEM].
Proof.
  cbv zeta. split; [apply Permutation_rev|]. split; [|vm_compute; reflexivity].
  apply distinct_NoDup. vm_compute. reflexivity.
Qed.
