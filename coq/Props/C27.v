(* C27 - resource values are formatted with Android's meaning.  Property theorems only.
   format_value lookup ty data models format_value(_type, _data, lookup_string); a frac (neg, num, den) is the exact
   value (-1)^neg * num / den; fmt_f is '%f'.  aosp_mantissa x is the sign-extended 24-bit mantissa (x >> 8),
   aosp_den the divisor of the radix 23p0, 16p7, 8p15, 0p23 selected by bits 4..5 (radix_of x). *)
From Coq Require Import ZArith List Bool.
Require Import V.Lib.Result V.Lib.Fmt V.Axml.FormatValueModel V.Axml.FormatValueProofs.
Import ListNotations.
Open Scope Z_scope.

(* complexToFloat is the AOSP complex_to_float for every data word: mantissa / divisor, with 256 cancelling *)
Theorem C27_complex_is_aosp : forall x, 0 <= x < 4294967296 ->
  let c := complex_to_float x in
  neg c = (aosp_mantissa x <? 0) /\ num c = Z.abs (aosp_mantissa x) * 256 /\ den c = 256 * aosp_den (radix_of x) /\
  0 < den c.
Proof. exact complex_is_aosp. Qed.
Print Assumptions C27_complex_is_aosp.

(* '%f' prints sign, integer part, point and six digits of the nearest multiple of 10^-6 (ties to even) *)
Theorem C27_six_decimals_correctly_rounded : forall x, 0 <= num x -> 0 < den x ->
  exists m, 0 <= m /\ 2 * Z.abs (m * den x - num x * 1000000) <= den x /\
    fmt_f x = (if neg x then [45] else []) ++ dec (m / 1000000) ++ [46] ++ pad0 6 (dec (m mod 1000000)).
Proof. exact fmt_f_rounds. Qed.
Print Assumptions C27_six_decimals_correctly_rounded.
Theorem C27_decimal_digits_denote : forall k, 0 <= k -> text_value 10 (dec k) = k.
Proof. exact dec_value. Qed.
Print Assumptions C27_decimal_digits_denote.
Theorem C27_six_digits_denote : forall k, 0 <= k < 1000000 ->
  length (pad0 6 (dec k)) = 6%nat /\ text_value 10 (pad0 6 (dec k)) = k.
Proof. exact six_digits. Qed.
Print Assumptions C27_six_digits_denote.

(* dimensions and fractions: the value, then the unit selected by the low four bits *)
Theorem C27_dimension : forall lk data u, nth_error DIMENSION_UNITS (Z.to_nat (Z.land data 15)) = Some u ->
  format_value lk TYPE_DIMENSION data = Ok (fmt_f (complex_to_float data) ++ u).
Proof. exact fv_dimension. Qed.
Print Assumptions C27_dimension.
Theorem C27_fraction : forall lk data u, nth_error FRACTION_UNITS (Z.to_nat (Z.land data 15)) = Some u ->
  format_value lk TYPE_FRACTION data =
  Ok (fmt_f {| neg := neg (complex_to_float data); num := num (complex_to_float data) * 100;
               den := den (complex_to_float data) |} ++ u).
Proof. exact fv_fraction. Qed.
Print Assumptions C27_fraction.

(* decimal integers (every integer type that is not hex, boolean or a colour) are signed 32-bit *)
Theorem C27_int_dec : forall lk ty data, 0 <= data < 4294967296 ->
  16 <= ty <= 27 -> ty <> 17 -> ty <> 18 ->
  format_value lk ty data = Ok (sdec (if data <? 2147483648 then data else data - 4294967296)).
Proof. exact fv_int_dec. Qed.
Print Assumptions C27_int_dec.
Theorem C27_signed_decimal_denotes : forall k,
  (if k <? 0 then match sdec k with 45 :: t => - text_value 10 t | _ => 0 end else text_value 10 (sdec k)) = k.
Proof. exact sdec_value. Qed.
Print Assumptions C27_signed_decimal_denotes.

(* hex integers, colours, references, attributes: eight upper-case hex digits denoting the data word *)
Theorem C27_hex_and_colour : forall lk ty data, (ty = 17 \/ 28 <= ty <= 31) ->
  format_value lk ty data = Ok ((if ty =? 17 then [48; 120] else [35]) ++ hex8 data).
Proof. exact fv_hex_and_colour. Qed.
Print Assumptions C27_hex_and_colour.
Theorem C27_hex_digits_denote : forall k, 0 <= k < 2 ^ 32 -> length (hex8 k) = 8%nat /\ text_value 16 (hex8 k) = k.
Proof. exact fv_hex_digits_denote. Qed.
Print Assumptions C27_hex_digits_denote.
Theorem C27_reference_and_attribute : forall lk data, 0 <= data ->
  format_value lk TYPE_REFERENCE data =
    Ok ([64] ++ (if (16777216 <=? data) && (data <? 33554432) then S_android else []) ++ hex8 data) /\
  format_value lk TYPE_ATTRIBUTE data =
    Ok ([63] ++ (if (16777216 <=? data) && (data <? 33554432) then S_android else []) ++ hex8 data).
Proof. exact fv_reference_and_attribute. Qed.
Print Assumptions C27_reference_and_attribute.
Theorem C27_boolean : forall lk data,
  format_value lk TYPE_INT_BOOLEAN data = Ok (if data =? 0 then [102; 97; 108; 115; 101] else [116; 114; 117; 101]).
Proof. reflexivity. Qed.
Print Assumptions C27_boolean.
(* floats: NaN and the infinities are spelled out, every finite IEEE single is printed by '%f' from its exact value *)
Theorem C27_float : forall lk data,
  format_value lk TYPE_FLOAT data =
  Ok (match float32 data with
      | None => [110; 97; 110]
      | Some x => if den x =? 0 then (if neg x then [45] else []) ++ [105; 110; 102] else fmt_f x
      end).
Proof. reflexivity. Qed.
Print Assumptions C27_float.

(* -5dip = 0xFFFFFB01, -50% = 0xC0000030, 0.5 as a float, #FF00FF00, -1 *)
Example C27_nonvacuous :
  format_value (fun _ => []) 5 4294966017 = Ok [45; 53; 46; 48; 48; 48; 48; 48; 48; 100; 105; 112] /\
  format_value (fun _ => []) 6 3221225520 = Ok [45; 53; 48; 46; 48; 48; 48; 48; 48; 48; 37] /\
  format_value (fun _ => []) 4 1056964608 = Ok [48; 46; 53; 48; 48; 48; 48; 48] /\
  format_value (fun _ => []) 28 4278255360 = Ok [35; 70; 70; 48; 48; 70; 70; 48; 48] /\
  format_value (fun _ => []) 16 4294967295 = Ok [45; 49] /\ aosp_mantissa 4294966017 = -5.
Proof. vm_compute. repeat split; reflexivity. Qed.
