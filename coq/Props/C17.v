(* C17 - renaming changes exactly the renamed item, for any sequence of renames.  Statements only;
   proofs in Dex/RenameProofs.v. *)
From Coq Require Import ZArith List Bool.
Require Import V.Lib.Val V.Lib.Result V.Dex.RenameModel V.Dex.RenameProofs.
Import ListNotations.
Open Scope Z_scope.

(* the full statement - after any sequence of renames, reloads and queries every item reports its most recent name and
   string constants are unchanged (spec_run: a dictionary of current names) - is FALSE of the model and of the code:
   two methods of the same name in two classes share a string index; so does a constant equal to a method's name
   (known finding KF-C17-shared-string-index) *)
Theorem C17_full_statement_refuted : run w_dex (init w_dex) w_ops <> spec_run w_dex (spec_init w_dex) w_ops.
Proof. exact full_statement_refuted. Qed.
Print Assumptions C17_full_statement_refuted.
Theorem C17_refutation_values :
  run w_dex (init w_dex) w_ops = [None; None; Some 100; Some 100] /\ spec_run w_dex (spec_init w_dex) w_ops = [None; None; Some 3; Some 3].
Proof. exact refutation_values. Qed.

(* it holds, for EVERY sequence of operations, on every file in which no two items or constants use the same string
   index *)
Theorem C17_renames_are_exact_when_no_string_is_shared_partial : forall d ops, unshared d ->
  run d (init d) ops = spec_run d (spec_init d) ops.
Proof. exact renames_exact_when_unshared. Qed.
Print Assumptions C17_renames_are_exact_when_no_string_is_shared_partial.

(* one operation keeps the agreement of every cached name with the dictionary *)
Theorem C17_one_operation_keeps_the_agreement : forall d s n o, unshared d -> Inv d s n ->
  snd (step d s o) = snd (spec_step d n o) /\ Inv d (fst (step d s o)) (fst (spec_step d n o)).
Proof. exact step_inv. Qed.

Example C17_nonvacuous :
  let d := {| d_classes := [1; 2]; d_methods := [(0, 3); (1, 4)]; d_fields := [(0, 5)]; d_consts := [6] |} in
  unshared d /\
  run d (init d) [RenM 0 100; RenC 1 101; RenF 0 102; RenM 0 103; ReloadM 1; QueryM 0; QueryM 1; QueryF 0; QueryC 1; QueryC 0; QueryS 0]
    = [None; None; None; None; None; Some 103; Some 4; Some 102; Some 101; Some 1; Some 6].
Proof. cbv zeta. split; [|vm_compute; reflexivity]. unfold unshared, all_idx. cbn. repeat constructor; cbn; intuition discriminate. Qed.
