(* C31 - manifest queries report what the manifest declares.  Statements only; proofs in Apk/ManifestProofs.v. *)
From Coq Require Import ZArith List Bool.
Require Import V.Lib.Val V.Lib.Result V.Axml.PoolModel V.Axml.AxmlModel V.Apk.ManifestModel V.Apk.ManifestProofs.
Require V.Axml.PoolProofs V.Axml.AxmlDocument V.Axml.AxmlAttrs.
Import ListNotations.
Open Scope Z_scope.

(* component names are completed by Android's rule *)
Theorem C31_component_names_follow_androids_rule : forall p0 pr c v,
  format_value (Some (p0 :: pr)) (c :: v) =
  if c =? S_dot then (p0 :: pr) ++ c :: v else if has_dot (c :: v) then c :: v else (p0 :: pr) ++ [S_dot] ++ c :: v.
Proof. exact format_value_rule. Qed.
Print Assumptions C31_component_names_follow_androids_rule.
Theorem C31_names_are_left_alone_without_a_package : forall v, format_value None v = v /\ format_value (Some []) v = v.
Proof. exact format_value_without_package. Qed.
Theorem C31_completed_names_are_not_completed_again : forall p0 pr v, p0 <> S_dot ->
  format_value (Some (p0 :: pr)) (format_value (Some (p0 :: pr)) v) = format_value (Some (p0 :: pr)) v.
Proof. exact format_value_idempotent. Qed.

(* main activities: exactly the enabled activities and aliases with MAIN and LAUNCHER in ONE intent filter *)
Theorem C31_main_activities_are_exactly_the_launcher_activities : forall root n,
  In n (main_activities root) <->
  exists item, In item (findall root [97;99;116;105;118;105;116;121] ++ findall root [97;99;116;105;118;105;116;121;45;97;108;105;97;115]) /\
               get item (ns [101;110;97;98;108;101;100]) <> Some S_false /\ is_main item = true /\ get_or item [110;97;109;101] = Some n.
Proof. exact main_activities_exact. Qed.
Print Assumptions C31_main_activities_are_exactly_the_launcher_activities.
Theorem C31_launcher_means_main_and_launcher_in_one_filter : forall item,
  is_main item = true <->
  exists f, In f (findall item [105;110;116;101;110;116;45;102;105;108;116;101;114]) /\
            has_child_named f [97;99;116;105;111;110] S_MAIN = true /\ has_child_named f [99;97;116;101;103;111;114;121] S_LAUNCHER = true.
Proof. exact is_main_spec. Qed.

(* permissions: every declared name once *)
Theorem C31_permissions_are_the_declared_ones_once : forall root p,
  (In p (dedup (m_permissions (analyse root))) <->
   exists e, In e (find_tags root [117;115;101;115;45;112;101;114;109;105;115;115;105;111;110]) /\ get_or e [110;97;109;101] = Some p) /\
  NoDup (dedup (m_permissions (analyse root))).
Proof. exact (fun root p => conj (permissions_exact root p) (dedup_nodup _)). Qed.
Print Assumptions C31_permissions_are_the_declared_ones_once.

(* effective target SDK: target if given, else min, else 1 *)
Theorem C31_effective_target_sdk : forall root,
  let m := analyse root in
  (forall c r k, m_target m = Some (c :: r) -> parse_int (c :: r) = Some k -> m_effective m = k) /\
  (forall v k, (m_target m = None \/ m_target m = Some []) -> m_min m = Some v -> parse_int v = Some k -> m_effective m = k) /\
  ((m_target m = None \/ m_target m = Some []) -> m_min m = None -> m_effective m = 1).
Proof. exact effective_sdk_cases. Qed.

Example C31_nonvacuous :
  format_value (Some [99; 111; 109; 46; 101; 120]) [46; 65] = [99; 111; 109; 46; 101; 120; 46; 65] /\
  format_value (Some [99; 111; 109; 46; 101; 120]) [65] = [99; 111; 109; 46; 101; 120; 46; 65] /\
  format_value (Some [99; 111; 109; 46; 101; 120]) [111; 46; 65] = [111; 46; 65] /\ parse_int [32; 50; 54] = Some 26.
Proof. repeat split; reflexivity. Qed.

(* from the bytes: for the binary XML of a manifest (C26: header, string pool, resource map, chunks of any element tree with
   attributes and namespaces) the queries are answered on exactly the tree the file encodes - every statement above about
   `root` is a statement about the file *)
Theorem C31_the_queries_see_the_tree_the_file_encodes : forall (utf8_flag : bool) ss padding sysattr ids decls t,
  Forall (PoolProofs.fits utf8_flag) ss -> Z.of_nat (length ss) < NONE -> AxmlAttrs.wf_res ids -> Forall AxmlAttrs.wf_decl decls ->
  AxmlAttrs.wf_atree ss sysattr ids t -> AxmlAttrs.atail t = NONE ->
  28 + 4 * Z.of_nat (length ss) + len (concat (map (if utf8_flag then PoolProofs.entry8 else PoolProofs.entry16) ss)) < 4294967296 ->
  len (AxmlDocument.doc_bytes utf8_flag ss padding (AxmlDocument.IResMap ids :: AxmlAttrs.adoc_items decls t)) < 4294967296 ->
  option_map analyse (match parse_axml sysattr (AxmlDocument.doc_bytes utf8_flag ss padding (AxmlDocument.IResMap ids :: AxmlAttrs.adoc_items decls t)) with Ok r => r | Err _ => None end)
  = Some (analyse (AxmlAttrs.atree_of ss sysattr ids decls t)).
Proof. exact queries_from_bytes. Qed.
Print Assumptions C31_the_queries_see_the_tree_the_file_encodes.
