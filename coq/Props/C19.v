(* C19 - reverse post-order numbering is a valid topological order of forward edges.
   Property theorems only.  sucs is Graph.all_sucs, nodes is Graph.nodes, num nb ord x is Node.num
   after compute_rpo (nb = len(nodes) + 1, ord the order in which post_order yields the nodes),
   reach sucs a b says b is reachable from a. *)
From Coq Require Import List Arith Permutation.
Require Import V.Dad.RpoModel V.Dad.RpoProofs.
Import ListNotations.

(* for every rooted graph: the numbering terminates within len(nodes)+1 nested calls, numbers
   exactly the nodes, gives the entry number 1, uses each of 1..n once, and numbers the source of an
   edge lower than its target unless the target reaches the source (the edge closes a cycle) *)
Theorem C19_rpo_numbering : forall (sucs : nat -> list nat) (nodes : list nat) (entry : nat),
  NoDup nodes ->
  (forall x, In x nodes -> forall y, In y (sucs x) -> In y nodes) ->
  In entry nodes ->
  (forall x, In x nodes -> reach sucs entry x) ->
  exists ord, post_order sucs (S (length nodes)) entry = Some ord /\
    Permutation ord nodes /\
    num (S (length nodes)) ord entry = 1 /\
    Permutation (map (num (S (length nodes)) ord) nodes) (seq 1 (length nodes)) /\
    (forall x y, In x nodes -> In y (sucs x) ->
       num (S (length nodes)) ord x < num (S (length nodes)) ord y \/ reach sucs y x).
Proof. exact rpo_numbering. Qed.
Print Assumptions C19_rpo_numbering.

(* Graph.rpo of a rooted graph is the finishing order reversed, i.e. the nodes by increasing number *)
Theorem C19_rpo_list : forall nodes ord, Permutation ord nodes -> rpo_list nodes ord = rev ord.
Proof. exact rpo_list_rooted. Qed.
Print Assumptions C19_rpo_list.

(* whatever the graph (unreachable nodes allowed), a completed run yields each reachable node once,
   the entry last, and every edge out of a yielded node goes to an earlier-finished node or closes a cycle *)
Theorem C19_post_order : forall sucs fuel entry vis ord,
  dfs sucs fuel entry ([], []) = Some (vis, ord) ->
  good sucs ord /\ NoDup ord /\ (exists new, ord = new ++ [entry]) /\
  (forall x, In x ord <-> reach sucs entry x).
Proof. exact post_order_ok. Qed.
Print Assumptions C19_post_order.

(* a loop 1 <-> 2 with exit 3 and a catch edge 1 -> 3, entry 0 *)
Example C19_nonvacuous :
  let sucs := adj_sucs [[1]; [2]; [1; 3]; []] [[]; [3]; []; []] in
  let nodes := [0; 1; 2; 3] in
  NoDup nodes /\ (forall x, In x nodes -> forall y, In y (sucs x) -> In y nodes) /\
  (forall x, In x nodes -> reach sucs 0 x) /\
  post_order sucs 5 0 = Some [3; 2; 1; 0] /\ map (num 5 [3; 2; 1; 0]) nodes = [1; 2; 3; 4].
Proof. exact rpo_example. Qed.
