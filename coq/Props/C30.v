(* C30 - locale qualifiers round-trip through the configuration encoding.  Property theorems only.
   Strings are lists of code points; code_ok base s says s is a two-character code (ASCII first
   character, no '-') or a three-character code whose characters lie within 32 of the base
   ('a' for languages: a..z and beyond; '0' for regions: digits and A..O). *)
From Coq Require Import ZArith List.
Require Import V.Axml.LocaleModel V.Axml.LocaleProofs.
Import ListNotations.
Open Scope Z_scope.

(* the reported language-and-region string is the one that was encoded *)
Theorem C30_get_set : forall lang region, code_ok 97 lang = true -> region_ok region = true ->
  get_lr (set_lr (render lang region)) = render lang region.
Proof. exact get_set. Qed.
Print Assumptions C30_get_set.

(* encoding the reported string again gives the same configuration, for every locale word whose
   language field holds a code and whose region field holds a code or is empty *)
Theorem C30_set_get : forall l0 l1 r0 r1, field_ok l0 l1 = true ->
  (field_ok r0 r1 = true \/ (r0 = 0 /\ r1 = 0)) ->
  set_lr (get_lr (locale_of l0 l1 r0 r1)) = locale_of l0 l1 r0 r1.
Proof. exact set_get. Qed.
Print Assumptions C30_set_get.

(* a code and its 16-bit field determine each other *)
Theorem C30_code_field : forall base s, base = 97 \/ base = 48 -> code_ok base s = true ->
  unpack (fst (pack s base)) (snd (pack s base)) base = s /\
  field_ok (fst (pack s base)) (snd (pack s base)) = true.
Proof. exact code_roundtrip. Qed.
Print Assumptions C30_code_field.

Theorem C30_field_code : forall base a b, base = 97 \/ base = 48 -> field_ok a b = true ->
  pack (unpack a b base) base = (a, b) /\ code_ok base (unpack a b base) = true.
Proof. exact field_roundtrip. Qed.
Print Assumptions C30_field_code.

Theorem C30_default_locale : get_lr 0 = [0; 0] /\ set_lr [0; 0] = 0.
Proof. exact default_locale. Qed.
Print Assumptions C30_default_locale.

(* "fil-rPH", "es-r419", "en", "zh-rCN": the hypotheses are satisfiable and the values concrete *)
Example C30_nonvacuous :
  code_ok 97 [102; 105; 108] = true /\ region_ok (Some [80; 72]) = true /\
  region_ok (Some [52; 49; 57]) = true /\ code_ok 97 [101; 110] = true /\
  set_lr [102; 105; 108; 45; 114; 80; 72] = 1213203885 /\
  get_lr 1213203885 = [102; 105; 108; 45; 114; 80; 72] /\
  set_lr [101; 115; 45; 114; 52; 49; 57] = 614757221 /\
  get_lr 614757221 = [101; 115; 45; 114; 52; 49; 57] /\
  field_ok 173 5 = true.
Proof. vm_compute. repeat split; reflexivity. Qed.
