(* C40 placeholder *)
From Coq Require Import ZArith List.
Require Import V.Analysis.CfgModel.
Import ListNotations.
Open Scope Z_scope.
Example C40_nonvacuous : length (blocks_of (with_off 0 [{| ilen := 2; ikind := KIf 2 |}; {| ilen := 2; ikind := KPlain |}; {| ilen := 2; ikind := KExit |}]) []) = 3%nat.
Proof. vm_compute. reflexivity. Qed.
