(* C40 - disassembly and analysis agree on instruction offsets.  Property theorems only.
   code = with_off 0 insl lists the instructions with the offsets at which the disassembler reports them. *)
From Coq Require Import ZArith List.
Require Import V.Analysis.CfgModel V.Analysis.CfgProofs.
Import ListNotations.
Open Scope Z_scope.

(* every block starts at an instruction offset and ends at one (or at the end of the code) *)
Theorem C40_block_boundaries_are_instruction_offsets : forall insl excs b,
  let code := with_off 0 insl in
  In b (blocks_of code excs) ->
  In (b_start b) (map fst code) /\ (In (b_end b) (map fst code) \/ b_end b = code_len code).
Proof. exact block_boundaries. Qed.
Print Assumptions C40_block_boundaries_are_instruction_offsets.

(* the instructions a block holds are instructions of the method, at their offsets, inside the block's range *)
Theorem C40_block_instructions_are_the_methods : forall insl excs b q, sized insl ->
  In b (blocks_of (with_off 0 insl) excs) -> In q (b_ins b) ->
  b_start b <= fst q /\ fst q + ilen (snd q) <= b_end b /\ In q (with_off 0 insl).
Proof. exact block_instruction_range. Qed.
Print Assumptions C40_block_instructions_are_the_methods.

(* successor entries are attributed to the offset of the block's last instruction, which ends the block *)
Theorem C40_edges_name_the_branching_instruction : forall insl excs b lidx li, In b (blocks_of (with_off 0 insl) excs) ->
  b_last b = Some (lidx, li) -> lidx + ilen li = b_end b.
Proof. exact last_instruction_ends_block. Qed.
Print Assumptions C40_edges_name_the_branching_instruction.

(* the payload linked to a switch or fill-array-data instruction at offset idx with encoded offset off is the instruction
   that starts at idx + 2 * off (none if no instruction starts there) *)
Theorem C40_linked_payload_is_at_the_encoded_offset : forall code b idx r,
  In (idx, r) (special_ins code b) <->
  exists i off, In (idx, i) (b_ins b) /\ (ikind i = KSwitch off \/ ikind i = KFill off) /\
                r = option_map fst (find (fun q => fst q =? idx + off * 2) code).
Proof. exact special_ins_spec. Qed.
Print Assumptions C40_linked_payload_is_at_the_encoded_offset.

(* fill-array-data +4 ; sparse-switch +6 (payload at a misaligned offset) ; return-void ; nop ; payloads *)
Example C40_nonvacuous :
  let insl := [{| ilen := 6; ikind := KFill 8 |}; {| ilen := 6; ikind := KSwitch 13 |}; {| ilen := 2; ikind := KExit |};
               {| ilen := 2; ikind := KPlain |}; {| ilen := 22; ikind := KFillPayload |}; {| ilen := 12; ikind := KSwitchPayload [1] |}] in
  let code := with_off 0 insl in
  map (special_ins code) (blocks_of code []) = [[(0, Some 16); (6, None)]; []; []] /\
  map (fun b => (b_start b, b_end b)) (blocks_of code []) = [(0, 12); (12, 14); (14, 50)].
Proof. vm_compute. split; reflexivity. Qed.
