(* C08 - try/catch tables are reported exactly.  Property theorems only.
   read_tail insns_size tries_size buf models what DalvikCode.__init__ reads after the instructions.
   bytes_try / bytes_list are the encodings (DEX format): a try item as u32 start, u16 count, u16 handler offset;
   a handler list as uleb128 count and, per handler, sleb128 size, |size| pairs of uleb128 (type, address) and, when
   size <= 0, a uleb128 catch-all address - with ANY well-formed LEB128 byte strings (wf_enc_list), canonical or not.
   denote_list gives the handlers with their offsets relative to the list.  entry hs t is the report for try item t. *)
From Coq Require Import ZArith List Permutation.
Require Import V.Lib.Result V.Analysis.CfgModel V.Dex.TriesModel V.Dex.TriesProofs.
Import ListNotations.
Open Scope Z_scope.

(* the reader returns the encoded try items and handlers, and leaves the rest of the buffer untouched;
   the padding unit is skipped exactly when the instruction count is odd *)
Theorem C08_tail_reader_returns_what_is_encoded : forall insns_size ts l pad r,
  ts <> [] -> Forall wf_try ts -> wf_enc_list l -> length pad = 2%nat ->
  read_tail insns_size (Z.of_nat (length ts))
    ((if insns_size mod 2 =? 1 then pad else []) ++ concat (map bytes_try ts) ++ bytes_list l ++ r)
  = Ok ((ts, denote_list l), r).
Proof. exact read_tail_spec. Qed.
Print Assumptions C08_tail_reader_returns_what_is_encoded.

Theorem C08_no_tries_nothing_read : forall insns_size r, read_tail insns_size 0 r = Ok (([], []), r).
Proof. exact read_tail_no_tries. Qed.
Print Assumptions C08_no_tries_nothing_read.

(* determineException: one entry per try item (a permutation of the try list: every try item exactly once),
   each with start*2, start*2 + count*2 - 1, the typed handlers in order with byte addresses, then the catch-all *)
Theorem C08_every_try_item_reported_once : forall tries hs,
  (forall t, In t tries -> exists h, find (fun h => h_off h =? t_hoff t) hs = Some h) ->
  exists l, determine_exception tries hs = Ok l /\ Permutation (map Some l) (map (entry hs) tries).
Proof. exact determine_exception_exact. Qed.
Print Assumptions C08_every_try_item_reported_once.

(* tries A B A: two try items share the first handler (typed E5 at 3, catch-all at 0), one uses a second handler *)
Example C08_nonvacuous :
  let hs := [{| h_off := 1; h_typed := [(5, 3)]; h_catch_all := Some 0 |}; {| h_off := 5; h_typed := [(7, 9)]; h_catch_all := None |}] in
  let ts := [{| t_start := 0; t_count := 2; t_hoff := 1 |}; {| t_start := 2; t_count := 1; t_hoff := 5 |};
             {| t_start := 4; t_count := 3; t_hoff := 1 |}] in
  determine_exception ts hs =
  Ok [{| e_start := 0; e_end := 3; e_handlers := [(5, 6); (TY_THROWABLE, 0)] |};
      {| e_start := 8; e_end := 13; e_handlers := [(5, 6); (TY_THROWABLE, 0)] |};
      {| e_start := 4; e_end := 5; e_handlers := [(7, 18)] |}] /\
  read_tail 3 1 ([255; 255] ++ bytes_try {| t_start := 0; t_count := 2; t_hoff := 1 |} ++ [1; 127; 5; 3; 0; 42])
  = Ok (([{| t_start := 0; t_count := 2; t_hoff := 1 |}], [{| h_off := 1; h_typed := [(5, 3)]; h_catch_all := Some 0 |}]), [42]).
Proof. vm_compute. split; reflexivity. Qed.
