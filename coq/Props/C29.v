(* C29 - resource resolution terminates on reference cycles.  Property theorems only.
   resolve tbl wanted fuel id models ARSCParser.get_resolved_res_configs(id, wanted) on the table tbl
   (id -> [(configuration, entry)]); universe tbl lists every id occurring in tbl (keys and reference targets);
   values l are the values held by a result;  reach tbl wanted id v:  some entry selected for id holds v, or references
   a non-zero id from which v is reachable. *)
From Coq Require Import ZArith List.
Require Import V.Lib.Result V.Axml.ResolverModel V.Axml.ResolverProofs.
Import ListNotations.
Open Scope Z_scope.

(* termination: on every table - whatever its reference graph, cycles of any length included - and for every
   non-zero id, |universe| + 1 nested calls suffice *)
Theorem C29_resolution_terminates : forall tbl wanted id, id <> 0 ->
  exists l, resolve tbl wanted (S (length (universe tbl))) id = Ok l.
Proof. exact resolve_returns. Qed.
Print Assumptions C29_resolution_terminates.

(* and what it returns are exactly the concrete values reachable from the id *)
Theorem C29_returns_the_reachable_values : forall tbl wanted fuel id l,
  resolve_into tbl wanted fuel [] id = Ok l -> forall v, In v (values l) <-> reach tbl wanted id v.
Proof. exact resolve_exact. Qed.
Print Assumptions C29_returns_the_reachable_values.

(* id 0 is refused (get_res_configs raises ValueError) *)
Theorem C29_id_zero_refused : forall tbl wanted fuel, resolve tbl wanted fuel 0 = Err ValueError.
Proof. reflexivity. Qed.
Print Assumptions C29_id_zero_refused.

(* a 3-cycle of complex entries each holding a value and referencing the next twice, entered through a string *)
Example C29_nonvacuous :
  let tbl := [(1, [(0, EComplex [IVal 10; IRef 2; IRef 2])]); (2, [(0, EComplex [IVal 20; IRef 3; IRef 3])]);
              (3, [(0, EComplex [IVal 30; IRef 1; IRef 1])]); (4, [(0, ESimple (IRef 1))])] in
  option_map values (match resolve tbl None (S (length (universe tbl))) 4 with Ok l => Some l | Err _ => None end)
    = Some [10; 20; 30; 30; 20; 30; 30].
Proof. vm_compute. reflexivity. Qed.
