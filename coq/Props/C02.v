(* C02 - linear-sweep disassembly recovers the instruction stream and always terminates.  Property theorems only.
   get_instructions odex size insn idx models LinearSweepAlgorithm.get_instructions(cm, size, insn, idx): the objects
   yielded with their byte offsets, then how the generator ended (None: normally; Some e: the exception).
   The loop of the model runs on fuel |insn| + 1;  nonneg insn: no byte is negative. *)
From Coq Require Import ZArith List.
Require Import V.Lib.Result V.Dex.SweepModel V.Dex.SweepProofs V.Dex.InsnSpec V.Dex.SweepStream.
Import ListNotations.
Open Scope Z_scope.

(* termination: for arbitrary code bytes, declared size and start offset the fuel |insn| + 1 is never exhausted
   (every yielded object is at least two bytes long and ends inside the code, so the position strictly increases) *)
Theorem C02_sweep_terminates : forall odex size insn idx, nonneg insn -> 0 <= idx ->
  snd (get_instructions odex size insn idx) <> Some OutOfFuel.
Proof. exact get_instructions_terminates. Qed.
Print Assumptions C02_sweep_terminates.

(* every yielded object lies entirely inside the code: inside the buffer and inside the declared size *)
Theorem C02_yielded_objects_lie_inside_the_code : forall odex size insn idx its e, nonneg insn ->
  get_instructions odex size insn idx = (its, e) ->
  Forall (fun p => idx <= fst p /\ fst p + it_len (snd p) <= zlen insn /\ fst p + it_len (snd p) <= size * 2 /\
                   2 <= it_len (snd p)) its.
Proof. exact get_instructions_inside. Qed.
Print Assumptions C02_yielded_objects_lie_inside_the_code.

(* const/4 ; packed-switch-payload with one target ; then a payload header announcing more than there is: rejected *)
(* the assembled stream: chunks (instructions, payloads) whose decoding does not depend on what follows them - see the
   three theorems below for which chunks these are - written one after the other, followed by anything: the sweep over
   exactly the declared size yields every item, in order, at its byte offset, and ends without an error *)
Theorem C02_assembled_stream_is_recovered : forall odex chunks items after,
  Forall2 (self_delimiting odex) chunks items ->
  get_instructions odex (zlen (concat chunks) / 2) (concat chunks ++ after) 0 = (placed 0 chunks items, None) \/ zlen (concat chunks) mod 2 <> 0.
Proof. exact get_instructions_of_stream. Qed.
Print Assumptions C02_assembled_stream_is_recovered.
(* an ordinary instruction: whatever its constructor accepts when given exactly its own bytes is such a chunk
   (every translated constructor reads the first len bytes of the buffer and nothing else) *)
Theorem C02_instructions_are_self_delimiting : forall odex c it,
  2 <= zlen c -> sweep_one odex c (unit0 c) = Ok it -> it_kind it = 0 -> it_len it = zlen c -> self_delimiting odex c it.
Proof. exact ordinary_chunk_self_delimiting. Qed.
Print Assumptions C02_instructions_are_self_delimiting.
(* the three payloads: for every size, key, width and data bytes the payload is read with its true length whatever follows,
   and get_raw gives its bytes back *)
Theorem C02_payloads_are_read_and_written_back :
  (forall s0 s1 k0 k1 k2 k3 body rest, Forall byte [s0; s1; k0; k1; k2; k3] -> Forall byte body -> Z.of_nat (length body) = 4 * (s0 + 256 * s1) ->
     let c := 0 :: 1 :: s0 :: s1 :: k0 :: k1 :: k2 :: k3 :: body in packed_switch (c ++ rest) = Ok {| it_len := zlen c; it_raw := Ok c; it_kind := 1 |}) /\
  (forall s0 s1 keys targets rest, Forall byte [s0; s1] -> Forall byte keys -> Forall byte targets ->
     Z.of_nat (length keys) = 4 * (s0 + 256 * s1) -> Z.of_nat (length targets) = 4 * (s0 + 256 * s1) ->
     let c := 0 :: 2 :: s0 :: s1 :: keys ++ targets in sparse_switch (c ++ rest) = Ok {| it_len := zlen c; it_raw := Ok c; it_kind := 2 |}) /\
  (forall w0 w1 n0 n1 n2 n3 data rest, Forall byte [w0; w1; n0; n1; n2; n3] ->
     let width := w0 + 256 * w1 in let size := n0 + 256 * n1 + 65536 * n2 + 16777216 * n3 in
     zlen data = (if (size * width) mod 2 =? 0 then size * width else size * width + 1) ->
     let c := 0 :: 3 :: w0 :: w1 :: n0 :: n1 :: n2 :: n3 :: data in fill_array_data (c ++ rest) = Ok {| it_len := zlen c; it_raw := Ok c; it_kind := 3 |}).
Proof. exact (conj packed_chunk (conj sparse_chunk fill_chunk)). Qed.
Print Assumptions C02_payloads_are_read_and_written_back.
(* const/4 v0, 1 ; packed-switch v0, +4 ; return-void ; nop ; packed-switch-payload (1 target) *)
Example C02_stream_nonvacuous :
  let chunks := [[18; 16]; [43; 0; 4; 0; 0; 0]; [14; 0]; [0; 0]; [0; 1; 1; 0; 5; 0; 0; 0; 2; 0; 0; 0]] in
  map fst (fst (get_instructions false 12 (concat chunks) 0)) = [0; 2; 8; 10; 12] /\ snd (get_instructions false 12 (concat chunks) 0) = None /\
  map (fun p => it_kind (snd p)) (fst (get_instructions false 12 (concat chunks) 0)) = [0; 0; 0; 0; 1].
Proof. vm_compute. repeat split. Qed.

Example C02_nonvacuous :
  let code := [18; 0; 0; 1; 1; 0; 5; 0; 0; 0; 7; 0; 0; 0; 0; 3; 4; 0; 9; 0; 0; 0; 1; 2] in
  map (fun p => (fst p, it_len (snd p), it_kind (snd p))) (fst (get_instructions false 12 code 0)) = [(0, 2, 0); (2, 12, 1)] /\
  snd (get_instructions false 12 code 0) = Some InvalidInstruction /\
  snd (get_instructions false 7 (firstn 14 code) 0) = None.
Proof. vm_compute. repeat split; reflexivity. Qed.
