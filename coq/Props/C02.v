(* C02 - linear-sweep disassembly recovers the instruction stream and always terminates.  Property theorems only.
   get_instructions odex size insn idx models LinearSweepAlgorithm.get_instructions(cm, size, insn, idx): the objects
   yielded with their byte offsets, then how the generator ended (None: normally; Some e: the exception).
   The loop of the model runs on fuel |insn| + 1;  nonneg insn: no byte is negative. *)
From Coq Require Import ZArith List.
Require Import V.Lib.Result V.Dex.SweepModel V.Dex.SweepProofs.
Import ListNotations.
Open Scope Z_scope.

(* termination: for arbitrary code bytes, declared size and start offset the fuel |insn| + 1 is never exhausted
   (every yielded object is at least two bytes long and ends inside the code, so the position strictly increases) *)
Theorem C02_sweep_terminates : forall odex size insn idx, nonneg insn -> 0 <= idx ->
  snd (get_instructions odex size insn idx) <> Some OutOfFuel.
Proof. exact get_instructions_terminates. Qed.
Print Assumptions C02_sweep_terminates.

(* every yielded object lies entirely inside the code: inside the buffer and inside the declared size *)
Theorem C02_yielded_objects_lie_inside_the_code : forall odex size insn idx its e, nonneg insn ->
  get_instructions odex size insn idx = (its, e) ->
  Forall (fun p => idx <= fst p /\ fst p + it_len (snd p) <= zlen insn /\ fst p + it_len (snd p) <= size * 2 /\
                   2 <= it_len (snd p)) its.
Proof. exact get_instructions_inside. Qed.
Print Assumptions C02_yielded_objects_lie_inside_the_code.

(* const/4 ; packed-switch-payload with one target ; then a payload header announcing more than there is: rejected *)
Example C02_nonvacuous :
  let code := [18; 0; 0; 1; 1; 0; 5; 0; 0; 0; 7; 0; 0; 0; 0; 3; 4; 0; 9; 0; 0; 0; 1; 2] in
  map (fun p => (fst p, it_len (snd p), it_kind (snd p))) (fst (get_instructions false 12 code 0)) = [(0, 2, 0); (2, 12, 1)] /\
  snd (get_instructions false 12 code 0) = Some InvalidInstruction /\
  snd (get_instructions false 7 (firstn 14 code) 0) = None.
Proof. vm_compute. repeat split; reflexivity. Qed.
