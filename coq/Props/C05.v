(* C05 - the parsed DEX object model matches the file's declared structure.  Statements only;
   proofs in Dex/ClassDataProofs.v. *)
From Coq Require Import ZArith List Bool.
Require Import V.Lib.Val V.Lib.Result V.Dex.LebSpec V.Dex.LebModel V.Dex.ClassDataModel V.Dex.ClassDataProofs.
Import ListNotations.
Open Scope Z_scope.

(* class_data_item: the four sizes, then the members, every part in any well-formed LEB128 encoding; what is read is
   exactly the member lists (indices = running sums of the differences), and exactly those bytes are consumed *)
Theorem C05_class_data_item_decodes_to_its_member_lists : forall e rest,
  wf_cd e -> read_class_data (cd_bytes e ++ rest) = Ok (dec_cd e, rest).
Proof. exact read_class_data_exact. Qed.
Print Assumptions C05_class_data_item_decodes_to_its_member_lists.
Theorem C05_member_index_is_the_sum_of_the_differences : forall es prev k e, nth_error es k = Some e ->
  exists f, nth_error (dec_fields prev es) k = Some f /\
            f_idx f = prev + fold_left Z.add (map (fun x => uleb_value (fst x)) (firstn (S k) es)) 0 /\ f_flags f = uleb_value (snd e).
Proof. exact dec_fields_idx. Qed.
Theorem C05_every_value_has_an_encoding : forall v, 0 <= v < 4294967296 -> exists bs, wf_leb bs = true /\ uleb_value bs = v.
Proof. exact canonical_exists. Qed.

(* lookups: the (last) member with exactly that class, name and descriptor, or nothing when there is none *)
Theorem C05_field_lookup_is_exact : forall cs c n d,
  match lookup_field cs c n d with
  | Some m => triple m = (c, n, d) /\
              exists l1 l2, all_fields cs = l1 ++ m :: l2 /\ forall y, In y l2 -> triple y <> (c, n, d)
  | None => forall y, In y (all_fields cs) -> triple y <> (c, n, d)
  end.
Proof. exact lookup_field_exact. Qed.
Print Assumptions C05_field_lookup_is_exact.
Theorem C05_method_lookup_is_exact : forall cs c n d, wf_mkey c n d ->
  (forall m, In m (all_methods cs) -> wf_mkey (mb_class m) (mb_name m) (mb_desc m)) ->
  match lookup_method cs c n d with
  | Some m => triple m = (c, n, d) /\
              exists l1 l2, all_methods cs = l1 ++ m :: l2 /\ forall y, In y l2 -> triple y <> (c, n, d)
  | None => forall y, In y (all_methods cs) -> triple y <> (c, n, d)
  end.
Proof. exact lookup_method_exact. Qed.
Print Assumptions C05_method_lookup_is_exact.
Theorem C05_class_lookup_is_exact : forall cs name,
  match get_class cs name with
  | Some c => In c cs /\ p_name c = name
  | None => forall c, In c cs -> p_name c <> name
  end.
Proof. exact get_class_exact. Qed.

Example C05_nonvacuous :
  let e := {| e_ns := [1]; e_ni := [2]; e_nd := [0]; e_nv := [129; 0];
              e_sf := [([3], [9])]; e_if := [([0], [1]); ([130; 1], [2])]; e_dm := [];
              e_vm := [([5], ([129; 128; 4], [180; 36]))] |} in
  wf_cd e /\
  obs_class_data (cd_bytes e ++ [7; 7]) =
    VList [VList [VList [VZ 3; VZ 9]]; VList [VList [VZ 0; VZ 1]; VList [VZ 130; VZ 2]]; VList [];
           VList [VList [VZ 5; VZ 65537; VZ 4660]]; VZ 2].
Proof.
  cbv zeta. split; [|vm_compute; reflexivity].
  unfold wf_cd. cbn [e_ns e_ni e_nd e_nv e_sf e_if e_dm e_vm].
  repeat split; try (vm_compute; reflexivity); repeat constructor; vm_compute; reflexivity.
Qed.
