(* C37 - decompile output stays inside the output directory.  Property theorems only.
   export_all fs dumped out ms models the loop of export_apps_to_format over the encoded methods
   ms = [(class name, short string of the method)]; it returns the directories (Dir) and files (File) created.
   plain seg: seg is non-empty, contains no '/', and is neither "." nor "..";  rel segs = seg1/seg2/.../segn;
   inside out p: p = posixpath.join(out, rel segs) for a non-empty list of plain components. *)
From Coq Require Import ZArith List.
Require Import V.Lib.Result V.Misc.CleanNameModel V.Misc.CleanNameProofs V.Misc.ExportPathModel V.Misc.ExportPathProofs.
Import ListNotations.
Open Scope Z_scope.

(* whatever the class names and the method short strings are, and whatever files exist already *)
Theorem C37_everything_created_is_inside : forall ms fs dumped out tr e,
  export_all fs dumped out ms = (tr, e) -> Forall (created_inside out) tr.
Proof. exact export_all_inside. Qed.
Print Assumptions C37_everything_created_is_inside.

(* the class directory is always a relative path of plain components *)
Theorem C37_valid_class_name_is_plain : forall c r, valid_class_name c = Ok r ->
  exists segs, segs <> [] /\ Forall plain segs /\ r = rel segs.
Proof. exact valid_class_name_plain. Qed.
Print Assumptions C37_valid_class_name_is_plain.

(* L../../x;  and a method whose short string is  "Cls a/../../../x ()V"  in class LCls; *)
Example C37_nonvacuous :
  valid_class_name [76; 46; 46; 47; 46; 46; 47; 120; 59] = Ok [95; 46; 46; 47; 95; 46; 46; 47; 120] /\
  fst (export_all [] [] [111] [([76; 67; 59], [67; 32; 97; 47; 46; 46; 47; 46; 46; 47; 120])]) =
    [Dir [111; 47; 67]; File [111; 47; 67; 46; 106; 97; 118; 97];
     File [111; 47; 67; 47; 67; 32; 97; 95; 46; 46; 95; 46; 46; 95; 120; 46; 97; 103]].
Proof. vm_compute. split; reflexivity. Qed.
