(* C25 - merged short-circuit conditions route control as the original branches did.  Statements only;
   proofs in Dad/ShortCircuitProofs.v. *)
From Coq Require Import ZArith List Bool.
Require Import V.Lib.Val V.Lib.Result V.Dad.ShortCircuitModel V.Dad.ShortCircuitProofs V.Dad.ShortCircuitGraph.
Require Import V.Dad.ShortCircuitDriver V.Dad.ShortCircuitSound V.Dad.ShortCircuitRoute.   (* the stream chains of tools/props/c25.py evaluates the model of the driver *)
Import ListNotations.
Open Scope Z_scope.

(* Condition.neg on any tree: the printed condition has the complementary truth value; twice is the identity *)
Theorem C25_negation_complements_the_printed_condition : forall env c, eval env (neg c) = negb (eval env c).
Proof. exact eval_neg. Qed.
Print Assumptions C25_negation_complements_the_printed_condition.
Theorem C25_negation_is_an_involution : forall c, neg (neg c) = c.
Proof. exact neg_involutive. Qed.

(* printing as the writer does (negate cond1 in place when isnot is set, then print (cond1) op (cond2)) means what the
   declarative reading says *)
Theorem C25_print_time_negation_means_not : forall env fuel c, (size c <= fuel)%nat -> eval_lit fuel env c = eval env c.
Proof. exact eval_lit_eval. Qed.
Print Assumptions C25_print_time_negation_means_not.

(* the four merge cases, for any operands (merged or not) and any successors, and every combination of outcomes *)
Theorem C25_merge_of_then_branch_routes_alike : forall env g g', merge_step g = Some g' -> route env g' = route env g.
Proof. exact merge_step_route. Qed.
Print Assumptions C25_merge_of_then_branch_routes_alike.
Theorem C25_merge_of_else_branch_routes_alike : forall env g g', merge_step_else g = Some g' -> route env g' = route env g.
Proof. exact merge_step_else_route. Qed.
Print Assumptions C25_merge_of_else_branch_routes_alike.
Theorem C25_merge_inside_a_graph_routes_alike : forall env c t t' f f',
  route env t' = route env t -> route env f' = route env f -> route env (Node c t' f') = route env (Node c t f).
Proof. exact route_congruence. Qed.

(* the writer's own negation: negate and swap *)
Theorem C25_negate_and_swap_routes_alike : forall env g, route env (neg_swap g) = route env g.
Proof. exact neg_swap_route. Qed.
Theorem C25_negating_every_node_routes_alike : forall env g, route env (neg_all g) = route env g.
Proof. exact neg_all_route. Qed.
Print Assumptions C25_negating_every_node_routes_alike.

(* c0 ? (c1 ? X0 : X1) : X1 merges to (c0 && c1); then with c2 in front: !(c2) || ..., negated by the writer *)
Example C25_nonvacuous :
  let g := Node (Leaf 0 false) (Node (Leaf 1 false) (Exit 0) (Exit 1)) (Exit 1) in
  merge_step g = Some (Node (SC (Leaf 0 false) (Leaf 1 false) true false) (Exit 0) (Exit 1)) /\
  neg (SC (SC (Leaf 0 false) (Leaf 1 false) true true) (Leaf 2 true) false false)
    = SC (SC (Leaf 0 true) (Leaf 1 true) false true) (Leaf 2 false) true false.
Proof. split; reflexivity. Qed.

(* ---- the merge itself, on graphs ---- *)
(* one merge of short_circuit_struct on ANY graph of conditional blocks (any shape, loops included; blocks of exception handlers,
   which Graph.preds leaves out; blocks already removed from the graph that others still point at): whichever of the four cases
   applies under the precondition the code tests - the absorbed block is a node of the graph and is entered from one block only,
   hidden predecessors included - every walk from every block ends at the same exit before and after the merge, and the merged
   graph has no other walks *)
Theorem C25_a_merge_keeps_every_walk : forall g a ab k g', edges_ok g -> fresh g ab -> apply_plan g a ab k = Some g' ->
  forall env s, s <> ab ->
  (forall n x, walk n g env s = Some x -> walk n g' env (if s =? a then ab else s) = Some x) /\
  (forall n x, walk n g' env (if s =? a then ab else s) = Some x -> exists m, walk m g env s = Some x).
Proof. exact planned_merge_is_sound. Qed.
Print Assumptions C25_a_merge_keeps_every_walk.
(* with the precondition of the code before the repair db98cb62 (the visible predecessors only) the statement is false: the witness *)
Theorem C25_visible_predecessors_are_not_enough :
  entered_from_one_visible_block w_graph 2 = true /\ entered_from_one_block w_graph 2 = false /\
  walk 5 w_graph (fun _ => true) 0 = Some 102 /\
  walk 5 (merge w_graph 1 2 3 (SC (Leaf 1 false) (Leaf 2 false) true true) 102 100 true [100; 102]) (fun _ => true) 0 = Some 100 /\
  apply_plan w_graph 1 3 AndElse = None.
Proof. exact visible_predecessors_are_not_enough. Qed.

(* ---- the passes of short_circuit_struct as a whole ---- *)
(* the model of the driver (post order, the four cases tried in the order of the code, the merged block given a fresh id, the passes
   repeated until nothing changes; it is run against the real short_circuit_struct by the stream chains) started on ANY graph whose
   edge lists agree with its pointers, with unused ids from m on and an entry no block points at: whatever it merges, in however many
   passes, a walk from the entry of the result ends at an exit exactly when a walk from the entry of the original ends there.
   The invariants (edges_ok, the unused ids, the entry without predecessors) are shown to be kept from one merge to the next. *)
Theorem C25_the_passes_keep_every_walk : forall fuel g m e, edges_ok g -> unused_from g m -> no_pred g e -> e < m ->
  same_walks g e (fst (struct fuel g m e)) (snd (struct fuel g m e)).
Proof. exact struct_keeps_walks. Qed.
Print Assumptions C25_the_passes_keep_every_walk.
(* the graphs of the chains the stream runs meet the first hypothesis, and a chain with a block marked as handler code meets all *)
Theorem C25_chain_graphs_have_their_edges : forall spec, edges_ok (chain_graph spec).
Proof. exact chain_edges_ok. Qed.
(* ... and every chain the stream runs meets the hypotheses: targets are blocks of the chain other than block 0, or exits (negative
   numbers); so for every such chain, of any length and shape (cycles among the later blocks included), what obs_struct observes -
   the graph and entry struct returns, started with the first unused id - has the walks of the chain *)
Theorem C25_the_passes_keep_every_walk_of_a_chain : forall spec fuel, chain_wf spec -> spec <> [] ->
  same_walks (chain_graph spec) 0 (fst (struct fuel (chain_graph spec) (Z.of_nat (length spec)) 0)) (snd (struct fuel (chain_graph spec) (Z.of_nat (length spec)) 0)).
Proof. exact struct_keeps_chain_walks. Qed.
Print Assumptions C25_the_passes_keep_every_walk_of_a_chain.
(* same_walks says more than "the same exits": a walk of the chain that ends within n steps is matched by a walk of the result that
   ends within the same n steps.  So what the stream observes - the result of the passes unfolded into a tree (blocks + 2) deep and
   routed under an assignment of the comparisons - is the exit of the chain, for every chain as above that ends within (blocks + 1)
   steps (every chain without a cycle does; the premise is a computation on the chain alone) *)
Theorem C25_the_observed_route_is_the_chains : forall spec env x, chain_wf spec -> spec <> [] ->
  walk (S (length spec)) (chain_graph spec) env 0 = Some x ->
  let r := struct (S (length spec)) (chain_graph spec) (Z.of_nat (length spec)) 0 in
  route env (tree_of (S (S (length spec))) (fst r) (snd r)) = -1 - x.
Proof. exact observed_route_is_the_chains. Qed.
Print Assumptions C25_the_observed_route_is_the_chains.
Example C25_the_passes_nonvacuous :
  edges_ok (chain_graph d41_spec) /\ unused_from (chain_graph d41_spec) 3 /\ no_pred (chain_graph d41_spec) 0 /\
  snd (struct 4 (chain_graph d41_spec) 3 0) = 4.
Proof. destruct d41_hypotheses as (A & B & C). destruct d41_merged as (_ & D). auto. Qed.
