(* C09 - corrupted or non-DEX input is rejected at the header.  Property theorems only.
   header_check bs models what HeaderItem.__init__ decides about the buffer bs (a list of bytes)
   before any other structure is read; upd i v bs replaces the byte at offset i by v. *)
From Coq Require Import ZArith List.
Require Import V.Lib.Result V.Dex.HeaderModel V.Dex.HeaderProofs.
Import ListNotations.
Open Scope Z_scope.

(* the header is accepted exactly when it is long enough and the endian tag, the structural magic
   bytes, the Adler-32 checksum over everything after the checksum field, the header size and the
   two 16-bit-limited counts are all right; otherwise the check ends in an error *)
Theorem C09_accepted_iff_all_fields_right : forall bs, header_check bs = Ok tt <->
  (112 <= length bs)%nat /\ le32 bs 40 = 305419896 /\ magic_ok bs = true /\
  adler32 (skipn 12 bs) = le32 bs 8 /\ le32 bs 36 = 112 /\ le32 bs 64 <= 65535 /\ le32 bs 72 <= 65535.
Proof. exact header_ok_iff. Qed.
Print Assumptions C09_accepted_iff_all_fields_right.

Theorem C09_rejected_otherwise : forall bs, header_check bs = Ok tt \/ exists e, header_check bs = Err e.
Proof. exact header_result. Qed.
Print Assumptions C09_rejected_otherwise.

(* Adler-32 notices every change of a single byte, in a byte string of any length *)
Theorem C09_adler_single_byte : forall l i v, (i < length l)%nat -> 0 <= nth i l 0 < 256 -> 0 <= v < 256 ->
  v <> nth i l 0 -> adler32 (upd i v l) <> adler32 l.
Proof. exact adler_single_byte. Qed.
Print Assumptions C09_adler_single_byte.

(* changing any single byte after the checksum field of an accepted file makes it rejected *)
Theorem C09_flip_after_checksum_rejected : forall bs i v,
  header_check bs = Ok tt -> (12 <= i < length bs)%nat -> 0 <= nth i bs 0 < 256 -> 0 <= v < 256 ->
  v <> nth i bs 0 -> exists e, header_check (upd i v bs) = Err e.
Proof. exact flip_after_checksum_rejected. Qed.
Print Assumptions C09_flip_after_checksum_rejected.

Example C09_nonvacuous : header_check sample_header = Ok tt /\ length sample_header = 112%nat /\
  Forall (fun x => 0 <= x < 256) sample_header.
Proof. exact sample_accepted. Qed.
