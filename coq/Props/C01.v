(* C01 - Dalvik instruction decoding is faithful for every operand encoding.  Property theorems only.
   dec_InstructionXX / raw_InstructionXX / table_format are GENERATED from the working tree by tools/tr/insn_tr.py
   (coq/gen/Gen_Insn.v): the constructor, get_raw and the opcode table of androguard/core/dex/__init__.py.
   spec_XX b0 b1 ... is the field list the Dalvik format XX defines for the instruction bytes b0 b1 ... (coq/Dex/InsnSpec.v):
   for example 22b "AA|op CC|BB" = [op; AA; BB; sign-extended CC].  byte b: 0 <= b < 256.  sx n v: v sign-extended from n bits.
   For every format: the decoder returns the specified fields whatever follows the instruction, and re-encoding the fields
   gives back exactly the instruction bytes. *)
From Coq Require Import ZArith List.
Require Import V.Lib.Result V.Lib.Struct V.gen.Gen_Insn V.Dex.InsnSpec V.Dex.InsnModel.
Import ListNotations.
Open Scope Z_scope.

(* every opcode 0..255: the table names the class of the opcode's Dalvik format and that class has the format's length *)
Theorem C01_opcode_table_matches_dalvik : forall op, 0 <= op < 256 -> table_row_ok op = true.
Proof. exact opcode_table_matches_dalvik. Qed.
Print Assumptions C01_opcode_table_matches_dalvik.

(* the opcodes the specification marks unused (class Instruction00x) are rejected whatever the bytes *)
Theorem C01_unused_opcodes_rejected : forall bs, dec_of_class cls_Instruction00x bs = Err InvalidInstruction.
Proof. exact unused_opcodes_rejected. Qed.
Print Assumptions C01_unused_opcodes_rejected.

Theorem C01_dec_35c : forall b0 b1 b2 b3 b4 b5 rest, byte b0 -> byte b1 -> byte b2 -> byte b3 -> byte b4 -> byte b5 -> dec_Instruction35c ([b0; b1; b2; b3; b4; b5] ++ rest) = Ok (spec_35c b0 b1 b2 b3 b4 b5).
Proof. exact dec_35c_spec. Qed.
Print Assumptions C01_dec_35c.

Theorem C01_raw_35c : forall b0 b1 b2 b3 b4 b5, byte b0 -> byte b1 -> byte b2 -> byte b3 -> byte b4 -> byte b5 -> raw_Instruction35c (spec_35c b0 b1 b2 b3 b4 b5) = Ok [b0; b1; b2; b3; b4; b5].
Proof. exact raw_35c_spec. Qed.
Print Assumptions C01_raw_35c.

Theorem C01_dec_35mi : forall b0 b1 b2 b3 b4 b5 rest, byte b0 -> byte b1 -> byte b2 -> byte b3 -> byte b4 -> byte b5 -> dec_Instruction35mi ([b0; b1; b2; b3; b4; b5] ++ rest) = Ok (spec_35mi b0 b1 b2 b3 b4 b5).
Proof. exact dec_35mi_spec. Qed.
Print Assumptions C01_dec_35mi.

Theorem C01_raw_35mi : forall b0 b1 b2 b3 b4 b5, byte b0 -> byte b1 -> byte b2 -> byte b3 -> byte b4 -> byte b5 -> raw_Instruction35mi (spec_35mi b0 b1 b2 b3 b4 b5) = Ok [b0; b1; b2; b3; b4; b5].
Proof. exact raw_35mi_spec. Qed.
Print Assumptions C01_raw_35mi.

Theorem C01_dec_35ms : forall b0 b1 b2 b3 b4 b5 rest, byte b0 -> byte b1 -> byte b2 -> byte b3 -> byte b4 -> byte b5 -> dec_Instruction35ms ([b0; b1; b2; b3; b4; b5] ++ rest) = Ok (spec_35ms b0 b1 b2 b3 b4 b5).
Proof. exact dec_35ms_spec. Qed.
Print Assumptions C01_dec_35ms.

Theorem C01_raw_35ms : forall b0 b1 b2 b3 b4 b5, byte b0 -> byte b1 -> byte b2 -> byte b3 -> byte b4 -> byte b5 -> raw_Instruction35ms (spec_35ms b0 b1 b2 b3 b4 b5) = Ok [b0; b1; b2; b3; b4; b5].
Proof. exact raw_35ms_spec. Qed.
Print Assumptions C01_raw_35ms.

Theorem C01_dec_10x : forall b0 b1 rest, byte b0 -> byte b1 -> b1 = 0 -> dec_Instruction10x ([b0; b1] ++ rest) = Ok (spec_10x b0 b1).
Proof. exact dec_10x_spec. Qed.
Print Assumptions C01_dec_10x.

Theorem C01_raw_10x : forall b0 b1, byte b0 -> byte b1 -> b1 = 0 -> raw_Instruction10x (spec_10x b0 b1) = Ok [b0; b1].
Proof. exact raw_10x_spec. Qed.
Print Assumptions C01_raw_10x.

Theorem C01_dec_21h : forall b0 b1 b2 b3 rest, byte b0 -> byte b1 -> byte b2 -> byte b3 -> dec_Instruction21h ([b0; b1; b2; b3] ++ rest) = Ok (spec_21h b0 b1 b2 b3).
Proof. exact dec_21h_spec. Qed.
Print Assumptions C01_dec_21h.

Theorem C01_raw_21h : forall b0 b1 b2 b3, byte b0 -> byte b1 -> byte b2 -> byte b3 -> raw_Instruction21h (spec_21h b0 b1 b2 b3) = Ok [b0; b1; b2; b3].
Proof. exact raw_21h_spec. Qed.
Print Assumptions C01_raw_21h.

Theorem C01_dec_11n : forall b0 b1 rest, byte b0 -> byte b1 -> dec_Instruction11n ([b0; b1] ++ rest) = Ok (spec_11n b0 b1).
Proof. exact dec_11n_spec. Qed.
Print Assumptions C01_dec_11n.

Theorem C01_raw_11n : forall b0 b1, byte b0 -> byte b1 -> raw_Instruction11n (spec_11n b0 b1) = Ok [b0; b1].
Proof. exact raw_11n_spec. Qed.
Print Assumptions C01_raw_11n.

Theorem C01_dec_21c : forall b0 b1 b2 b3 rest, byte b0 -> byte b1 -> byte b2 -> byte b3 -> dec_Instruction21c ([b0; b1; b2; b3] ++ rest) = Ok (spec_21c b0 b1 b2 b3).
Proof. exact dec_21c_spec. Qed.
Print Assumptions C01_dec_21c.

Theorem C01_raw_21c : forall b0 b1 b2 b3, byte b0 -> byte b1 -> byte b2 -> byte b3 -> raw_Instruction21c (spec_21c b0 b1 b2 b3) = Ok [b0; b1; b2; b3].
Proof. exact raw_21c_spec. Qed.
Print Assumptions C01_raw_21c.

Theorem C01_dec_22x : forall b0 b1 b2 b3 rest, byte b0 -> byte b1 -> byte b2 -> byte b3 -> dec_Instruction22x ([b0; b1; b2; b3] ++ rest) = Ok (spec_22x b0 b1 b2 b3).
Proof. exact dec_22x_spec. Qed.
Print Assumptions C01_dec_22x.

Theorem C01_raw_22x : forall b0 b1 b2 b3, byte b0 -> byte b1 -> byte b2 -> byte b3 -> raw_Instruction22x (spec_22x b0 b1 b2 b3) = Ok [b0; b1; b2; b3].
Proof. exact raw_22x_spec. Qed.
Print Assumptions C01_raw_22x.

Theorem C01_dec_20bc : forall b0 b1 b2 b3 rest, byte b0 -> byte b1 -> byte b2 -> byte b3 -> dec_Instruction20bc ([b0; b1; b2; b3] ++ rest) = Ok (spec_20bc b0 b1 b2 b3).
Proof. exact dec_20bc_spec. Qed.
Print Assumptions C01_dec_20bc.

Theorem C01_raw_20bc : forall b0 b1 b2 b3, byte b0 -> byte b1 -> byte b2 -> byte b3 -> raw_Instruction20bc (spec_20bc b0 b1 b2 b3) = Ok [b0; b1; b2; b3].
Proof. exact raw_20bc_spec. Qed.
Print Assumptions C01_raw_20bc.

Theorem C01_dec_21s : forall b0 b1 b2 b3 rest, byte b0 -> byte b1 -> byte b2 -> byte b3 -> dec_Instruction21s ([b0; b1; b2; b3] ++ rest) = Ok (spec_21s b0 b1 b2 b3).
Proof. exact dec_21s_spec. Qed.
Print Assumptions C01_dec_21s.

Theorem C01_raw_21s : forall b0 b1 b2 b3, byte b0 -> byte b1 -> byte b2 -> byte b3 -> raw_Instruction21s (spec_21s b0 b1 b2 b3) = Ok [b0; b1; b2; b3].
Proof. exact raw_21s_spec. Qed.
Print Assumptions C01_raw_21s.

Theorem C01_dec_21t : forall b0 b1 b2 b3 rest, byte b0 -> byte b1 -> byte b2 -> byte b3 -> dec_Instruction21t ([b0; b1; b2; b3] ++ rest) = Ok (spec_21t b0 b1 b2 b3).
Proof. exact dec_21t_spec. Qed.
Print Assumptions C01_dec_21t.

Theorem C01_raw_21t : forall b0 b1 b2 b3, byte b0 -> byte b1 -> byte b2 -> byte b3 -> raw_Instruction21t (spec_21t b0 b1 b2 b3) = Ok [b0; b1; b2; b3].
Proof. exact raw_21t_spec. Qed.
Print Assumptions C01_raw_21t.

Theorem C01_dec_22c : forall b0 b1 b2 b3 rest, byte b0 -> byte b1 -> byte b2 -> byte b3 -> dec_Instruction22c ([b0; b1; b2; b3] ++ rest) = Ok (spec_22c b0 b1 b2 b3).
Proof. exact dec_22c_spec. Qed.
Print Assumptions C01_dec_22c.

Theorem C01_raw_22c : forall b0 b1 b2 b3, byte b0 -> byte b1 -> byte b2 -> byte b3 -> raw_Instruction22c (spec_22c b0 b1 b2 b3) = Ok [b0; b1; b2; b3].
Proof. exact raw_22c_spec. Qed.
Print Assumptions C01_raw_22c.

Theorem C01_dec_22cs : forall b0 b1 b2 b3 rest, byte b0 -> byte b1 -> byte b2 -> byte b3 -> dec_Instruction22cs ([b0; b1; b2; b3] ++ rest) = Ok (spec_22cs b0 b1 b2 b3).
Proof. exact dec_22cs_spec. Qed.
Print Assumptions C01_dec_22cs.

Theorem C01_raw_22cs : forall b0 b1 b2 b3, byte b0 -> byte b1 -> byte b2 -> byte b3 -> raw_Instruction22cs (spec_22cs b0 b1 b2 b3) = Ok [b0; b1; b2; b3].
Proof. exact raw_22cs_spec. Qed.
Print Assumptions C01_raw_22cs.

Theorem C01_dec_22t : forall b0 b1 b2 b3 rest, byte b0 -> byte b1 -> byte b2 -> byte b3 -> dec_Instruction22t ([b0; b1; b2; b3] ++ rest) = Ok (spec_22t b0 b1 b2 b3).
Proof. exact dec_22t_spec. Qed.
Print Assumptions C01_dec_22t.

Theorem C01_raw_22t : forall b0 b1 b2 b3, byte b0 -> byte b1 -> byte b2 -> byte b3 -> raw_Instruction22t (spec_22t b0 b1 b2 b3) = Ok [b0; b1; b2; b3].
Proof. exact raw_22t_spec. Qed.
Print Assumptions C01_raw_22t.

Theorem C01_dec_22s : forall b0 b1 b2 b3 rest, byte b0 -> byte b1 -> byte b2 -> byte b3 -> dec_Instruction22s ([b0; b1; b2; b3] ++ rest) = Ok (spec_22s b0 b1 b2 b3).
Proof. exact dec_22s_spec. Qed.
Print Assumptions C01_dec_22s.

Theorem C01_raw_22s : forall b0 b1 b2 b3, byte b0 -> byte b1 -> byte b2 -> byte b3 -> raw_Instruction22s (spec_22s b0 b1 b2 b3) = Ok [b0; b1; b2; b3].
Proof. exact raw_22s_spec. Qed.
Print Assumptions C01_raw_22s.

Theorem C01_dec_31t : forall b0 b1 b2 b3 b4 b5 rest, byte b0 -> byte b1 -> byte b2 -> byte b3 -> byte b4 -> byte b5 -> dec_Instruction31t ([b0; b1; b2; b3; b4; b5] ++ rest) = Ok (spec_31t b0 b1 b2 b3 b4 b5).
Proof. exact dec_31t_spec. Qed.
Print Assumptions C01_dec_31t.

Theorem C01_raw_31t : forall b0 b1 b2 b3 b4 b5, byte b0 -> byte b1 -> byte b2 -> byte b3 -> byte b4 -> byte b5 -> raw_Instruction31t (spec_31t b0 b1 b2 b3 b4 b5) = Ok [b0; b1; b2; b3; b4; b5].
Proof. exact raw_31t_spec. Qed.
Print Assumptions C01_raw_31t.

Theorem C01_dec_31i : forall b0 b1 b2 b3 b4 b5 rest, byte b0 -> byte b1 -> byte b2 -> byte b3 -> byte b4 -> byte b5 -> dec_Instruction31i ([b0; b1; b2; b3; b4; b5] ++ rest) = Ok (spec_31i b0 b1 b2 b3 b4 b5).
Proof. exact dec_31i_spec. Qed.
Print Assumptions C01_dec_31i.

Theorem C01_raw_31i : forall b0 b1 b2 b3 b4 b5, byte b0 -> byte b1 -> byte b2 -> byte b3 -> byte b4 -> byte b5 -> raw_Instruction31i (spec_31i b0 b1 b2 b3 b4 b5) = Ok [b0; b1; b2; b3; b4; b5].
Proof. exact raw_31i_spec. Qed.
Print Assumptions C01_raw_31i.

Theorem C01_dec_31c : forall b0 b1 b2 b3 b4 b5 rest, byte b0 -> byte b1 -> byte b2 -> byte b3 -> byte b4 -> byte b5 -> dec_Instruction31c ([b0; b1; b2; b3; b4; b5] ++ rest) = Ok (spec_31c b0 b1 b2 b3 b4 b5).
Proof. exact dec_31c_spec. Qed.
Print Assumptions C01_dec_31c.

Theorem C01_raw_31c : forall b0 b1 b2 b3 b4 b5, byte b0 -> byte b1 -> byte b2 -> byte b3 -> byte b4 -> byte b5 -> raw_Instruction31c (spec_31c b0 b1 b2 b3 b4 b5) = Ok [b0; b1; b2; b3; b4; b5].
Proof. exact raw_31c_spec. Qed.
Print Assumptions C01_raw_31c.

Theorem C01_dec_12x : forall b0 b1 rest, byte b0 -> byte b1 -> dec_Instruction12x ([b0; b1] ++ rest) = Ok (spec_12x b0 b1).
Proof. exact dec_12x_spec. Qed.
Print Assumptions C01_dec_12x.

Theorem C01_raw_12x : forall b0 b1, byte b0 -> byte b1 -> raw_Instruction12x (spec_12x b0 b1) = Ok [b0; b1].
Proof. exact raw_12x_spec. Qed.
Print Assumptions C01_raw_12x.

Theorem C01_dec_11x : forall b0 b1 rest, byte b0 -> byte b1 -> dec_Instruction11x ([b0; b1] ++ rest) = Ok (spec_11x b0 b1).
Proof. exact dec_11x_spec. Qed.
Print Assumptions C01_dec_11x.

Theorem C01_raw_11x : forall b0 b1, byte b0 -> byte b1 -> raw_Instruction11x (spec_11x b0 b1) = Ok [b0; b1].
Proof. exact raw_11x_spec. Qed.
Print Assumptions C01_raw_11x.

Theorem C01_dec_10t : forall b0 b1 rest, byte b0 -> byte b1 -> dec_Instruction10t ([b0; b1] ++ rest) = Ok (spec_10t b0 b1).
Proof. exact dec_10t_spec. Qed.
Print Assumptions C01_dec_10t.

Theorem C01_raw_10t : forall b0 b1, byte b0 -> byte b1 -> raw_Instruction10t (spec_10t b0 b1) = Ok [b0; b1].
Proof. exact raw_10t_spec. Qed.
Print Assumptions C01_raw_10t.

Theorem C01_dec_51l : forall b0 b1 b2 b3 b4 b5 b6 b7 b8 b9 rest, byte b0 -> byte b1 -> byte b2 -> byte b3 -> byte b4 -> byte b5 -> byte b6 -> byte b7 -> byte b8 -> byte b9 -> dec_Instruction51l ([b0; b1; b2; b3; b4; b5; b6; b7; b8; b9] ++ rest) = Ok (spec_51l b0 b1 b2 b3 b4 b5 b6 b7 b8 b9).
Proof. exact dec_51l_spec. Qed.
Print Assumptions C01_dec_51l.

Theorem C01_raw_51l : forall b0 b1 b2 b3 b4 b5 b6 b7 b8 b9, byte b0 -> byte b1 -> byte b2 -> byte b3 -> byte b4 -> byte b5 -> byte b6 -> byte b7 -> byte b8 -> byte b9 -> raw_Instruction51l (spec_51l b0 b1 b2 b3 b4 b5 b6 b7 b8 b9) = Ok [b0; b1; b2; b3; b4; b5; b6; b7; b8; b9].
Proof. exact raw_51l_spec. Qed.
Print Assumptions C01_raw_51l.

Theorem C01_dec_23x : forall b0 b1 b2 b3 rest, byte b0 -> byte b1 -> byte b2 -> byte b3 -> dec_Instruction23x ([b0; b1; b2; b3] ++ rest) = Ok (spec_23x b0 b1 b2 b3).
Proof. exact dec_23x_spec. Qed.
Print Assumptions C01_dec_23x.

Theorem C01_raw_23x : forall b0 b1 b2 b3, byte b0 -> byte b1 -> byte b2 -> byte b3 -> raw_Instruction23x (spec_23x b0 b1 b2 b3) = Ok [b0; b1; b2; b3].
Proof. exact raw_23x_spec. Qed.
Print Assumptions C01_raw_23x.

Theorem C01_dec_22b : forall b0 b1 b2 b3 rest, byte b0 -> byte b1 -> byte b2 -> byte b3 -> dec_Instruction22b ([b0; b1; b2; b3] ++ rest) = Ok (spec_22b b0 b1 b2 b3).
Proof. exact dec_22b_spec. Qed.
Print Assumptions C01_dec_22b.

Theorem C01_raw_22b : forall b0 b1 b2 b3, byte b0 -> byte b1 -> byte b2 -> byte b3 -> raw_Instruction22b (spec_22b b0 b1 b2 b3) = Ok [b0; b1; b2; b3].
Proof. exact raw_22b_spec. Qed.
Print Assumptions C01_raw_22b.

Theorem C01_dec_20t : forall b0 b1 b2 b3 rest, byte b0 -> byte b1 -> byte b2 -> byte b3 -> b1 = 0 -> dec_Instruction20t ([b0; b1; b2; b3] ++ rest) = Ok (spec_20t b0 b1 b2 b3).
Proof. exact dec_20t_spec. Qed.
Print Assumptions C01_dec_20t.

Theorem C01_raw_20t : forall b0 b1 b2 b3, byte b0 -> byte b1 -> byte b2 -> byte b3 -> b1 = 0 -> raw_Instruction20t (spec_20t b0 b1 b2 b3) = Ok [b0; b1; b2; b3].
Proof. exact raw_20t_spec. Qed.
Print Assumptions C01_raw_20t.

Theorem C01_dec_30t : forall b0 b1 b2 b3 b4 b5 rest, byte b0 -> byte b1 -> byte b2 -> byte b3 -> byte b4 -> byte b5 -> b1 = 0 -> dec_Instruction30t ([b0; b1; b2; b3; b4; b5] ++ rest) = Ok (spec_30t b0 b1 b2 b3 b4 b5).
Proof. exact dec_30t_spec. Qed.
Print Assumptions C01_dec_30t.

Theorem C01_raw_30t : forall b0 b1 b2 b3 b4 b5, byte b0 -> byte b1 -> byte b2 -> byte b3 -> byte b4 -> byte b5 -> b1 = 0 -> raw_Instruction30t (spec_30t b0 b1 b2 b3 b4 b5) = Ok [b0; b1; b2; b3; b4; b5].
Proof. exact raw_30t_spec. Qed.
Print Assumptions C01_raw_30t.

Theorem C01_dec_3rc : forall b0 b1 b2 b3 b4 b5 rest, byte b0 -> byte b1 -> byte b2 -> byte b3 -> byte b4 -> byte b5 -> dec_Instruction3rc ([b0; b1; b2; b3; b4; b5] ++ rest) = Ok (spec_3rc b0 b1 b2 b3 b4 b5).
Proof. exact dec_3rc_spec. Qed.
Print Assumptions C01_dec_3rc.

Theorem C01_raw_3rc : forall b0 b1 b2 b3 b4 b5, byte b0 -> byte b1 -> byte b2 -> byte b3 -> byte b4 -> byte b5 -> raw_Instruction3rc (spec_3rc b0 b1 b2 b3 b4 b5) = Ok [b0; b1; b2; b3; b4; b5].
Proof. exact raw_3rc_spec. Qed.
Print Assumptions C01_raw_3rc.

Theorem C01_dec_3rmi : forall b0 b1 b2 b3 b4 b5 rest, byte b0 -> byte b1 -> byte b2 -> byte b3 -> byte b4 -> byte b5 -> dec_Instruction3rmi ([b0; b1; b2; b3; b4; b5] ++ rest) = Ok (spec_3rmi b0 b1 b2 b3 b4 b5).
Proof. exact dec_3rmi_spec. Qed.
Print Assumptions C01_dec_3rmi.

Theorem C01_raw_3rmi : forall b0 b1 b2 b3 b4 b5, byte b0 -> byte b1 -> byte b2 -> byte b3 -> byte b4 -> byte b5 -> raw_Instruction3rmi (spec_3rmi b0 b1 b2 b3 b4 b5) = Ok [b0; b1; b2; b3; b4; b5].
Proof. exact raw_3rmi_spec. Qed.
Print Assumptions C01_raw_3rmi.

Theorem C01_dec_3rms : forall b0 b1 b2 b3 b4 b5 rest, byte b0 -> byte b1 -> byte b2 -> byte b3 -> byte b4 -> byte b5 -> dec_Instruction3rms ([b0; b1; b2; b3; b4; b5] ++ rest) = Ok (spec_3rms b0 b1 b2 b3 b4 b5).
Proof. exact dec_3rms_spec. Qed.
Print Assumptions C01_dec_3rms.

Theorem C01_raw_3rms : forall b0 b1 b2 b3 b4 b5, byte b0 -> byte b1 -> byte b2 -> byte b3 -> byte b4 -> byte b5 -> raw_Instruction3rms (spec_3rms b0 b1 b2 b3 b4 b5) = Ok [b0; b1; b2; b3; b4; b5].
Proof. exact raw_3rms_spec. Qed.
Print Assumptions C01_raw_3rms.

Theorem C01_dec_32x : forall b0 b1 b2 b3 b4 b5 rest, byte b0 -> byte b1 -> byte b2 -> byte b3 -> byte b4 -> byte b5 -> b1 = 0 -> dec_Instruction32x ([b0; b1; b2; b3; b4; b5] ++ rest) = Ok (spec_32x b0 b1 b2 b3 b4 b5).
Proof. exact dec_32x_spec. Qed.
Print Assumptions C01_dec_32x.

Theorem C01_raw_32x : forall b0 b1 b2 b3 b4 b5, byte b0 -> byte b1 -> byte b2 -> byte b3 -> byte b4 -> byte b5 -> b1 = 0 -> raw_Instruction32x (spec_32x b0 b1 b2 b3 b4 b5) = Ok [b0; b1; b2; b3; b4; b5].
Proof. exact raw_32x_spec. Qed.
Print Assumptions C01_raw_32x.

Theorem C01_dec_41c : forall b0 b1 b2 b3 b4 b5 b6 b7 rest, byte b0 -> byte b1 -> byte b2 -> byte b3 -> byte b4 -> byte b5 -> byte b6 -> byte b7 -> dec_Instruction41c ([b0; b1; b2; b3; b4; b5; b6; b7] ++ rest) = Ok (spec_41c b0 b1 b2 b3 b4 b5 b6 b7).
Proof. exact dec_41c_spec. Qed.
Print Assumptions C01_dec_41c.

Theorem C01_raw_41c : forall b0 b1 b2 b3 b4 b5 b6 b7, byte b0 -> byte b1 -> byte b2 -> byte b3 -> byte b4 -> byte b5 -> byte b6 -> byte b7 -> raw_Instruction41c (spec_41c b0 b1 b2 b3 b4 b5 b6 b7) = Ok [b0; b1; b2; b3; b4; b5; b6; b7].
Proof. exact raw_41c_spec. Qed.
Print Assumptions C01_raw_41c.

Theorem C01_dec_40sc : forall b0 b1 b2 b3 b4 b5 b6 b7 rest, byte b0 -> byte b1 -> byte b2 -> byte b3 -> byte b4 -> byte b5 -> byte b6 -> byte b7 -> dec_Instruction40sc ([b0; b1; b2; b3; b4; b5; b6; b7] ++ rest) = Ok (spec_40sc b0 b1 b2 b3 b4 b5 b6 b7).
Proof. exact dec_40sc_spec. Qed.
Print Assumptions C01_dec_40sc.

Theorem C01_raw_40sc : forall b0 b1 b2 b3 b4 b5 b6 b7, byte b0 -> byte b1 -> byte b2 -> byte b3 -> byte b4 -> byte b5 -> byte b6 -> byte b7 -> raw_Instruction40sc (spec_40sc b0 b1 b2 b3 b4 b5 b6 b7) = Ok [b0; b1; b2; b3; b4; b5; b6; b7].
Proof. exact raw_40sc_spec. Qed.
Print Assumptions C01_raw_40sc.

Theorem C01_dec_52c : forall b0 b1 b2 b3 b4 b5 b6 b7 b8 b9 rest, byte b0 -> byte b1 -> byte b2 -> byte b3 -> byte b4 -> byte b5 -> byte b6 -> byte b7 -> byte b8 -> byte b9 -> dec_Instruction52c ([b0; b1; b2; b3; b4; b5; b6; b7; b8; b9] ++ rest) = Ok (spec_52c b0 b1 b2 b3 b4 b5 b6 b7 b8 b9).
Proof. exact dec_52c_spec. Qed.
Print Assumptions C01_dec_52c.

Theorem C01_raw_52c : forall b0 b1 b2 b3 b4 b5 b6 b7 b8 b9, byte b0 -> byte b1 -> byte b2 -> byte b3 -> byte b4 -> byte b5 -> byte b6 -> byte b7 -> byte b8 -> byte b9 -> raw_Instruction52c (spec_52c b0 b1 b2 b3 b4 b5 b6 b7 b8 b9) = Ok [b0; b1; b2; b3; b4; b5; b6; b7; b8; b9].
Proof. exact raw_52c_spec. Qed.
Print Assumptions C01_raw_52c.

Theorem C01_dec_5rc : forall b0 b1 b2 b3 b4 b5 b6 b7 b8 b9 rest, byte b0 -> byte b1 -> byte b2 -> byte b3 -> byte b4 -> byte b5 -> byte b6 -> byte b7 -> byte b8 -> byte b9 -> dec_Instruction5rc ([b0; b1; b2; b3; b4; b5; b6; b7; b8; b9] ++ rest) = Ok (spec_5rc b0 b1 b2 b3 b4 b5 b6 b7 b8 b9).
Proof. exact dec_5rc_spec. Qed.
Print Assumptions C01_dec_5rc.

Theorem C01_raw_5rc : forall b0 b1 b2 b3 b4 b5 b6 b7 b8 b9, byte b0 -> byte b1 -> byte b2 -> byte b3 -> byte b4 -> byte b5 -> byte b6 -> byte b7 -> byte b8 -> byte b9 -> raw_Instruction5rc (spec_5rc b0 b1 b2 b3 b4 b5 b6 b7 b8 b9) = Ok [b0; b1; b2; b3; b4; b5; b6; b7; b8; b9].
Proof. exact raw_5rc_spec. Qed.
Print Assumptions C01_raw_5rc.

Theorem C01_dec_45cc : forall b0 b1 b2 b3 b4 b5 b6 b7 rest, byte b0 -> byte b1 -> byte b2 -> byte b3 -> byte b4 -> byte b5 -> byte b6 -> byte b7 -> b1 / 16 <= 5 -> dec_Instruction45cc ([b0; b1; b2; b3; b4; b5; b6; b7] ++ rest) = Ok (spec_45cc b0 b1 b2 b3 b4 b5 b6 b7).
Proof. exact dec_45cc_spec. Qed.
Print Assumptions C01_dec_45cc.

Theorem C01_raw_45cc : forall b0 b1 b2 b3 b4 b5 b6 b7, byte b0 -> byte b1 -> byte b2 -> byte b3 -> byte b4 -> byte b5 -> byte b6 -> byte b7 -> b1 / 16 <= 5 -> raw_Instruction45cc (spec_45cc b0 b1 b2 b3 b4 b5 b6 b7) = Ok [b0; b1; b2; b3; b4; b5; b6; b7].
Proof. exact raw_45cc_spec. Qed.
Print Assumptions C01_raw_45cc.

Theorem C01_dec_4rcc : forall b0 b1 b2 b3 b4 b5 b6 b7 rest, byte b0 -> byte b1 -> byte b2 -> byte b3 -> byte b4 -> byte b5 -> byte b6 -> byte b7 -> dec_Instruction4rcc ([b0; b1; b2; b3; b4; b5; b6; b7] ++ rest) = Ok (spec_4rcc b0 b1 b2 b3 b4 b5 b6 b7).
Proof. exact dec_4rcc_spec. Qed.
Print Assumptions C01_dec_4rcc.

Theorem C01_raw_4rcc : forall b0 b1 b2 b3 b4 b5 b6 b7, byte b0 -> byte b1 -> byte b2 -> byte b3 -> byte b4 -> byte b5 -> byte b6 -> byte b7 -> raw_Instruction4rcc (spec_4rcc b0 b1 b2 b3 b4 b5 b6 b7) = Ok [b0; b1; b2; b3; b4; b5; b6; b7].
Proof. exact raw_4rcc_spec. Qed.
Print Assumptions C01_raw_4rcc.

(* const/4 v1, -1 (12 f1); add-int/lit8 v0, v1, -128 (d8 00 01 80); invoke-virtual/range {v5..v7}, meth@3 (74 03 03 00 05 00) *)
Example C01_nonvacuous :
  dec_Instruction11n [18; 241] = Ok [18; 1; -1] /\ dec_Instruction22b [216; 0; 1; 128; 9] = Ok [216; 0; 1; -128] /\
  dec_Instruction3rc [116; 3; 3; 0; 5; 0] = Ok [116; 3; 3; 5; 7] /\ raw_Instruction22b [216; 0; 1; -128] = Ok [216; 0; 1; 128] /\
  get_instruction table_format 62 [62; 0] = Err InvalidInstruction.
Proof. vm_compute. repeat split; reflexivity. Qed.
