(* C11 - the control-flow graph has exactly the successors the bytecode allows.  Property theorems only.
   childs code bs b are the entries (offset of the last instruction, target, start of the successor block) of block b,
   fathers the entries (target, offset of the branching instruction, start of the predecessor block);
   get_basic_block bs v is the block whose byte range holds v; sized insl: every instruction has at least two bytes. *)
From Coq Require Import ZArith List.
Require Import V.Analysis.CfgModel V.Analysis.CfgProofs.
Import ListNotations.
Open Scope Z_scope.

(* successors by the kind of the last instruction: none after return/throw, the target for goto, the next instruction and
   the target for a conditional, the next instruction and every case target for a switch, the next block otherwise;
   each looked up with get_basic_block (targets outside every block give no entry) *)
Theorem C11_successors_by_kind : forall code bs b lidx li, b_last b = Some (lidx, li) ->
  childs code bs b =
  match ikind li with
  | KExit => []
  | KGoto off => lookup_targets bs lidx [off * 2 + lidx]
  | KIf off => lookup_targets bs lidx [lidx + ilen li; off * 2 + lidx]
  | KSwitch off => lookup_targets bs lidx (determine_next code lidx li)
  | _ => match get_basic_block bs (b_end b + 1) with Some c => [(lidx, b_end b, b_start c)] | None => [] end
  end.
Proof. exact childs_by_kind. Qed.
Print Assumptions C11_successors_by_kind.

Theorem C11_switch_targets : forall code lidx li off, ikind li = KSwitch off ->
  determine_next code lidx li =
  (lidx + ilen li) ::
  match get_ins_off code (off * 2 + lidx + (if (off * 2 + lidx) mod 4 =? 0 then 0 else 4 - (off * 2 + lidx) mod 4)) with
  | Some {| ikind := KSwitchPayload ts |} => map (fun t => t * 2 + lidx) ts
  | _ => []
  end.
Proof. exact switch_targets. Qed.
Print Assumptions C11_switch_targets.

(* the lookup is exact: the block found for an address is the one whose range holds it, and every held address finds it *)
Theorem C11_lookup_finds_the_holding_block : forall insl excs c v, sized insl ->
  let bs := blocks_of (with_off 0 insl) excs in
  (get_basic_block bs v = Some c <-> In c bs /\ b_start c <= v < b_end c).
Proof. exact lookup_exact. Qed.
Print Assumptions C11_lookup_finds_the_holding_block.

(* falling through reaches the next block of the list, the last block has no fall-through successor,
   and the not-taken side of a conditional or switch (lidx + length) is the end of the block *)
Theorem C11_fall_through_is_the_next_block : forall insl excs pre b c post, sized insl ->
  blocks_of (with_off 0 insl) excs = pre ++ b :: c :: post ->
  get_basic_block (blocks_of (with_off 0 insl) excs) (b_end b + 1) = Some c /\
  get_basic_block (blocks_of (with_off 0 insl) excs) (b_end b) = Some c /\ b_start c = b_end b.
Proof. exact next_block_lookup. Qed.
Print Assumptions C11_fall_through_is_the_next_block.
Theorem C11_last_block_falls_nowhere : forall insl excs pre b, sized insl ->
  blocks_of (with_off 0 insl) excs = pre ++ [b] ->
  get_basic_block (blocks_of (with_off 0 insl) excs) (b_end b + 1) = None.
Proof. exact last_block_no_successor. Qed.
Print Assumptions C11_last_block_falls_nowhere.
Theorem C11_last_instruction_ends_block : forall insl excs b lidx li, In b (blocks_of (with_off 0 insl) excs) ->
  b_last b = Some (lidx, li) -> lidx + ilen li = b_end b.
Proof. exact last_instruction_ends_block. Qed.
Print Assumptions C11_last_instruction_ends_block.

(* predecessors are the inverse of the successor relation *)
Theorem C11_predecessors_are_the_inverse : forall code bs b tgt src fs,
  In (tgt, src, fs) (fathers code bs b) <-> exists f, In f bs /\ fs = b_start f /\ In (src, tgt, b_start b) (childs code bs f).
Proof. exact fathers_inverse. Qed.
Print Assumptions C11_predecessors_are_the_inverse.

(* a packed-switch inside a loop whose head is the first instruction, one case jumping back to offset 0 *)
Example C11_nonvacuous :
  let insl := [{| ilen := 2; ikind := KPlain |}; {| ilen := 6; ikind := KSwitch 5 |}; {| ilen := 2; ikind := KPlain |};
               {| ilen := 2; ikind := KExit |}; {| ilen := 12; ikind := KSwitchPayload [-1; 3] |}] in
  let code := with_off 0 insl in let bs := blocks_of code [] in
  map (childs code bs) bs = [[(2, 8, 8); (2, 0, 0); (2, 8, 8)]; []; []] /\
  map (fathers code bs) bs = [[(0, 2, 0)]; [(8, 2, 0); (8, 2, 0)]; []].
Proof. vm_compute. split; reflexivity. Qed.
