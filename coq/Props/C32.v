(* C32 - a v1 certificate is reported only if it verifies the signature file.  Statements only; proofs in
   Apk/V1CertProofs.v.  The cryptographic primitives (RSA / DSA / ECDSA verification, the digests, DER parsing) are not
   modelled: their outcomes enter the model as tables, one entry per SignerInfo and certificate of the bag, which the
   correspondence check fills by calling the `cryptography` package itself. *)
From Coq Require Import ZArith List Bool Lia ZifyBool.
Require Import V.Lib.Val V.Lib.Result V.Apk.V1CertModel V.Apk.V1CertProofs.
Import ListNotations.
Open Scope Z_scope.

(* every reported certificate is the first certificate of the bag that a tried SignerInfo refers to by issuer AND serial
   number, the SignerInfo's digest algorithm is supported, and its signature value verifies with that certificate's key:
   over the .SF when there are no signed attributes; otherwise over the signed attributes, which hold no attribute twice,
   whose messageDigest is the digest of the .SF and (unless max_sdk < 24) whose contentType is that of the signed content *)
Theorem C32_reported_certificate_verifies : forall certs ct mn mx infos d,
  get_certificate_der certs ct mn mx infos = Some d -> exists s, In s (to_try mn infos) /\ accepts certs ct mx s d.
Proof. exact reported_certificate_verifies. Qed.
Print Assumptions C32_reported_certificate_verifies.

(* altered certificate reference: no SignerInfo refers to a certificate of the bag -> nothing is reported *)
Theorem C32_altered_reference_reports_nothing : forall certs ct mn mx infos,
  (forall s c, In s infos -> In c certs -> refers_to s c = false) -> get_certificate_der certs ct mn mx infos = None.
Proof. exact altered_reference_reports_nothing. Qed.
Print Assumptions C32_altered_reference_reports_nothing.

(* altered signature value or (without signed attributes) altered .SF: no key of the bag verifies -> nothing is reported *)
Theorem C32_altered_signature_reports_nothing : forall certs ct mn mx infos,
  (forall s j, In s infos -> (s_attrs s = [] -> nth j (s_vsf s) VErr_ <> VOk) /\ (s_attrs s <> [] -> nth j (s_vattrs s) VErr_ <> VOk)) ->
  get_certificate_der certs ct mn mx infos = None.
Proof. exact altered_signature_reports_nothing. Qed.
Print Assumptions C32_altered_signature_reports_nothing.

(* altered .SF with signed attributes: the messageDigest attribute no longer is the digest of the .SF -> nothing is reported *)
Theorem C32_altered_sf_reports_nothing : forall certs ct mn mx infos,
  (forall s, In s infos -> s_attrs s <> [] /\ assoc OID_MD (s_attrs s) <> Some (s_sf_digest s)) -> get_certificate_der certs ct mn mx infos = None.
Proof. exact altered_sf_reports_nothing. Qed.
Print Assumptions C32_altered_sf_reports_nothing.

(* and the rule is not empty: a single SignerInfo that vouches for a certificate gets it reported *)
Theorem C32_good_signature_is_reported : forall certs ct mn mx s d, accepts certs ct mx s d -> has_dup (s_attrs s) = false ->
  (s_attrs s <> [] -> assoc OID_CT (s_attrs s) = Some ct) -> get_certificate_der certs ct mn mx [s] = Some d.
Proof. exact good_single_signer_is_reported. Qed.
Print Assumptions C32_good_signature_is_reported.

Example C32_nonvacuous :
  let certs := [{| c_issuer := 1; c_serial := 7; c_der := 100; c_is_cert := true |}; {| c_issuer := 2; c_serial := 7; c_der := 101; c_is_cert := true |}] in
  let s := {| s_issuer := 2; s_serial := 7; s_alg_ok := true; s_attrs := [(OID_CT, 0); (OID_MD, 55)]; s_sf_digest := 55;
              s_vsf := [VBad; VBad]; s_vattrs := [VBad; VOk] |} in
  get_certificate_der certs 0 None None [s] = Some 101 /\
  get_certificate_der certs 0 None None [{| s_issuer := 2; s_serial := 8; s_alg_ok := true; s_attrs := s_attrs s; s_sf_digest := 55; s_vsf := s_vsf s; s_vattrs := s_vattrs s |}] = None /\
  get_certificate_der certs 0 None None [{| s_issuer := 2; s_serial := 7; s_alg_ok := true; s_attrs := s_attrs s; s_sf_digest := 56; s_vsf := s_vsf s; s_vattrs := s_vattrs s |}] = None.
Proof. vm_compute. repeat split. Qed.
