(* C18 - the decompiler's dominator tree is the true dominator tree.  Statements only; proofs in Dad/DomProofs.v.
   PARTIAL: the theorems are about the executable specification spec_idom (what immediate_dominators is specified to
   return).  That the Lengauer-Tarjan code returns this function is not a theorem: it is decided graph by graph by the
   correspondence check, which evaluates spec_idom inside Coq on each tested graph and compares with the real output. *)
From Coq Require Import ZArith List Bool.
Require Import V.Lib.Val V.Lib.Result V.Dad.DomModel V.Dad.DomProofs.
Import ListNotations.
Open Scope Z_scope.

(* the closure computes path existence, for every graph, entry and removed node *)
Theorem C18_reachability_closure_is_path_existence : forall g entry d W,
  reach_set g entry d = Some W -> forall v, In v W <-> reach_av g entry d v.
Proof. exact reach_set_spec. Qed.
Print Assumptions C18_reachability_closure_is_path_existence.

(* "every path from the entry to v passes through d" is "v is reachable, and not reachable without d" *)
Theorem C18_dominance_is_unreachability_after_removal : forall g entry d v,
  dominates g entry d v <-> reachable g entry v /\ ~ reach_av g entry (Some d) v.
Proof. exact dominates_by_removal. Qed.
Print Assumptions C18_dominance_is_unreachability_after_removal.

(* the table: exactly the reachable nodes; the entry has no dominator; every other node is mapped to a strict
   dominator that every strict dominator dominates - the standard definition of the immediate dominator *)
Theorem C18_specified_table_meets_the_definition_partial : forall g entry m, spec_idom g entry = Some m ->
  (forall v, (exists i, In (v, i) m) <-> reachable g entry v) /\
  (forall v, In (v, None) m -> v = entry) /\
  (forall v d, In (v, Some d) m -> v <> entry /\ is_idom g entry d v).
Proof. exact spec_idom_sound. Qed.
Print Assumptions C18_specified_table_meets_the_definition_partial.

(* an irreducible loop with two entries, a self loop and an unreachable node *)
Example C18_nonvacuous :
  spec_idom [[1; 2]; [2; 1]; [1; 3]; [3]; [0]] 0 = Some [(0, None); (1, Some 0); (2, Some 0); (3, Some 2)].
Proof. vm_compute. reflexivity. Qed.
