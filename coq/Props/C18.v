(* C18 - the decompiler's dominator tree is the true dominator tree.  Statements only; proofs in Dad/DomProofs.v, Dad/LtSmall.v.
   PARTIAL: the unbounded theorems are about the executable specification spec_idom (what immediate_dominators is specified to
   return).  The Lengauer-Tarjan code is modelled (Dad/LtModel.v) and the model is proved to return the specified table on
   every graph of up to four nodes; beyond that, that dom_lt returns this function is decided graph by graph by the
   correspondence check, which evaluates spec_idom and the model of dom_lt inside Coq on each tested graph and compares both
   with the real output. *)
From Coq Require Import ZArith List Bool.
Require Import V.Lib.Val V.Lib.Result V.Dad.DomModel V.Dad.DomProofs V.Dad.LtModel V.Dad.LtSmall.
Import ListNotations.
Open Scope Z_scope.

(* the closure computes path existence, for every graph, entry and removed node *)
Theorem C18_reachability_closure_is_path_existence : forall g entry d W,
  reach_set g entry d = Some W -> forall v, In v W <-> reach_av g entry d v.
Proof. exact reach_set_spec. Qed.
Print Assumptions C18_reachability_closure_is_path_existence.

(* "every path from the entry to v passes through d" is "v is reachable, and not reachable without d" *)
Theorem C18_dominance_is_unreachability_after_removal : forall g entry d v,
  dominates g entry d v <-> reachable g entry v /\ ~ reach_av g entry (Some d) v.
Proof. exact dominates_by_removal. Qed.
Print Assumptions C18_dominance_is_unreachability_after_removal.

(* the table: exactly the reachable nodes; the entry has no dominator; every other node is mapped to a strict
   dominator that every strict dominator dominates - the standard definition of the immediate dominator *)
Theorem C18_specified_table_meets_the_definition_partial : forall g entry m, spec_idom g entry = Some m ->
  (forall v, (exists i, In (v, i) m) <-> reachable g entry v) /\
  (forall v, In (v, None) m -> v = entry) /\
  (forall v d, In (v, Some d) m -> v <> entry /\ is_idom g entry d v).
Proof. exact spec_idom_sound. Qed.
Print Assumptions C18_specified_table_meets_the_definition_partial.

(* an irreducible loop with two entries, a self loop and an unreachable node *)
Example C18_nonvacuous :
  spec_idom [[1; 2]; [2; 1]; [1; 3]; [3]; [0]] 0 = Some [(0, None); (1, Some 0); (2, Some 0); (3, Some 2)].
Proof. vm_compute. reflexivity. Qed.

(* ---- the algorithm itself ---- *)
(* dom_lt as the code runs it (depth-first numbering with predecessor sets, path compression, semidominators with buckets, the
   final pass), on EVERY graph of one to four nodes - successor lists in increasing order without repetition, every node as the
   entry, loops, irreducible regions and unreachable nodes included (a finite domain, swept by the kernel): the model ends and
   its table gives every reachable node the node the definition of the immediate dominator singles out, the entry none, and
   has no row for an unreachable node.  For larger graphs this is not a theorem (see the header). *)
Theorem C18_dom_lt_meets_the_definition_up_to_four_nodes : forall n g entry,
  (1 <= n <= 4)%nat -> length g = n -> Forall (fun l => subseq l (range n) = true) g -> In entry (range n) ->
  exists m, lt_row g entry = Some (map (row_of m) (map Z.of_nat (seq 0 (length g)))) /\
    (forall v, (exists i, In (v, i) m) <-> reachable g entry v) /\
    (forall v, In (v, None) m -> v = entry) /\
    (forall v d, In (v, Some d) m -> v <> entry /\ is_idom g entry d v).
Proof. exact lt_small_meets_the_definition. Qed.
Print Assumptions C18_dom_lt_meets_the_definition_up_to_four_nodes.
(* the code iterates the sets pred[w] and bucket[v] in an order that depends on memory addresses; with both iterated in the
   opposite order the model returns the same table on every graph of three and four nodes (same finite domain) *)
Theorem C18_the_iteration_order_of_the_sets_does_not_matter_up_to_four_nodes : forall n g entry,
  (3 <= n <= 4)%nat -> length g = n -> Forall (fun l => subseq l (range n) = true) g -> In entry (range n) ->
  lt_row_ord (@rev Z) g entry = lt_row g entry /\ lt_row g entry <> None.
Proof. exact lt_small_any_of_two_orders. Qed.
Print Assumptions C18_the_iteration_order_of_the_sets_does_not_matter_up_to_four_nodes.
(* how a row reads: -2 no entry in the table, -1 the entry, else the dominator *)
Theorem C18_rows_read_the_table : forall m v,
  (row_of m v = -2 /\ forall i, ~ In (v, i) m) \/ (row_of m v = -1 /\ In (v, None) m) \/ In (v, Some (row_of m v)) m.
Proof. exact row_of_meaning. Qed.
Example C18_dom_lt_nonvacuous : obs_lt ([[1; 2]; [2; 1]; [1; 3]; [3]; [0]], 0) = vlistZ [-1; 0; 0; 2; -2].
Proof. exact lt_example. Qed.
