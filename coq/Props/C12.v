(* C12 - every instruction inside a try range carries that range's handlers.  Property theorems only.
   block_exception excs b is get_exception(b.start, b.end - 1): the first entry of the try table overlapping the block.
   wf_excs code excs: every try start is an instruction offset and the ranges are pairwise disjoint (or the same entry). *)
From Coq Require Import ZArith List Lia.
Require Import V.Analysis.CfgModel V.Analysis.CfgProofs.
Import ListNotations.
Open Scope Z_scope.

(* a block reports exactly the range that covers its first instruction (at most one does) *)
Theorem C12_block_reports_the_covering_range : forall insl excs b e,
  let code := with_off 0 insl in
  sized insl -> wf_excs code excs -> In b (blocks_of code excs) ->
  (block_exception excs b = Some e <-> In e excs /\ e_start e <= b_start b <= e_end e).
Proof. exact block_exception_exact. Qed.
Print Assumptions C12_block_reports_the_covering_range.

(* so a block holding any instruction covered by a range reports that range, with that range's handlers ... *)
Theorem C12_covered_instruction_is_reported : forall insl excs b q e,
  let code := with_off 0 insl in
  sized insl -> wf_excs code excs -> In b (blocks_of code excs) -> In q (b_ins b) -> In e excs ->
  e_start e <= fst q <= e_end e -> block_exception excs b = Some e.
Proof. exact covered_instruction_reported. Qed.
Print Assumptions C12_covered_instruction_is_reported.

(* ... and a reported range always covers an instruction of the block: its first one *)
Theorem C12_reported_range_covers_the_block_start : forall insl excs b e,
  let code := with_off 0 insl in
  sized insl -> wf_excs code excs -> In b (blocks_of code excs) -> block_exception excs b = Some e ->
  exists q, hd_error (b_ins b) = Some q /\ e_start e <= fst q <= e_end e.
Proof. exact reported_range_covers. Qed.
Print Assumptions C12_reported_range_covers_the_block_start.

(* a try range must not straddle a block: its start is never strictly inside one *)
Theorem C12_try_start_is_a_block_start : forall insl excs e b,
  let code := with_off 0 insl in
  sized insl -> In e excs -> In (e_start e) (map fst code) -> In b (blocks_of code excs) ->
  b_start b <= e_start e < b_end b -> e_start e = b_start b.
Proof. exact try_start_not_inside. Qed.
Print Assumptions C12_try_start_is_a_block_start.

(* two adjacent ranges in one straight-line run, a third sharing the first one's handler *)
Example C12_nonvacuous :
  let insl := [{| ilen := 2; ikind := KPlain |}; {| ilen := 4; ikind := KPlain |}; {| ilen := 2; ikind := KPlain |};
               {| ilen := 2; ikind := KPlain |}; {| ilen := 6; ikind := KPlain |}; {| ilen := 2; ikind := KExit |}] in
  let excs := [{| e_start := 0; e_end := 5; e_handlers := [(-1, 16)] |}; {| e_start := 10; e_end := 15; e_handlers := [(-1, 16)] |};
               {| e_start := 6; e_end := 9; e_handlers := [(3, 16)] |}] in
  let code := with_off 0 insl in
  wf_excs code excs /\ sized insl /\
  map (fun b => (b_start b, option_map e_start (block_exception excs b))) (blocks_of code excs)
  = [(0, Some 0); (6, Some 6); (10, Some 10); (16, None)].
Proof.
  split; [|split; [repeat constructor; simpl; lia|vm_compute; reflexivity]].
  split.
  - intros e [<-|[<-|[<-|[]]]]; vm_compute; tauto.
  - intros e1 e2 [<-|[<-|[<-|[]]]] [<-|[<-|[<-|[]]]]; cbn; lia || (left; reflexivity).
Qed.
