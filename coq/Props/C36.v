(* C36 - concurrent sessions on one database get distinct identifiers.  Property theorems only.
   run prog n sched: n processes each execute the database operations prog; sched lists which process runs its
   next operation (any list of process numbers, entries for finished or non-existing processes do nothing);
   afterwards every process runs to completion.  PROTOCOL = [InsertAuto] is Session.__init__.
   assigned ps is the list of identifiers the processes hold. *)
From Coq Require Import ZArith List.
Require Import V.Session.SessionModel V.Session.SessionProofs.
Import ListNotations.
Open Scope Z_scope.

(* any number of processes, every schedule: all sessions are created, with pairwise distinct identifiers that are
   keys of table 'session' *)
Theorem C36_all_schedules_ok : forall n sched,
  let s := run PROTOCOL n sched in
  length (snd s) = n /\
  Forall (fun p => st p = Done /\ exists k, sid p = Some k /\ In k (fst s)) (snd s) /\
  NoDup (assigned (snd s)) /\ length (assigned (snd s)) = n.
Proof. exact all_schedules_ok. Qed.
Print Assumptions C36_all_schedules_ok.

(* the model can express the failure: with the protocol of the pinned tree (count the rows, then insert that number
   as key) the schedule  count0 count1 insert0 insert1  makes the second constructor fail *)
Theorem C36_old_protocol_refuted : exists sched,
  existsb (fun p => match st p with Failed => true | _ => false end) (snd (run OLD_PROTOCOL 2 sched)) = true.
Proof. exists [0; 1; 0; 1]%nat. vm_compute. reflexivity. Qed.
Print Assumptions C36_old_protocol_refuted.

Example C36_nonvacuous :
  map sid (snd (run PROTOCOL 3 [2; 0; 2; 1]%nat)) = [Some 2; Some 3; Some 1] /\ fst (run PROTOCOL 3 [2; 0; 2; 1]%nat) = [3; 2; 1].
Proof. vm_compute. split; reflexivity. Qed.
