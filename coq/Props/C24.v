(* C24 - type descriptors are rendered as the right Java type names.  Property theorems only.
   desc dims b is the descriptor with dims array dimensions over base b (a primitive letter or a
   class L<seg>/<seg>/...;  with non-empty '/'-free segments); full_name is the keyword or the
   dotted class name; short_name drops java.lang. exactly for classes [java; lang; x]. *)
From Coq Require Import ZArith List.
Require Import V.Lib.Result V.Dad.TypeNameModel V.Dad.TypeNameProofs.
Import ListNotations.
Open Scope Z_scope.

(* decompiler: androguard/decompiler/util.py get_type *)
Theorem C24_decompiler_get_type : forall dims b, base_ok b = true ->
  get_type_u (desc dims b) = Ok (short_name b ++ brackets dims).
Proof. exact get_type_u_spec. Qed.
Print Assumptions C24_decompiler_get_type.

(* only the java.lang. prefix of direct members of java.lang is ever dropped *)
Theorem C24_only_direct_members_shortened : forall b,
  (exists x, b = Cls [S_java; S_lang; x] /\ short_name b = x) \/ short_name b = full_name b.
Proof. exact short_name_cases. Qed.
Print Assumptions C24_only_direct_members_shortened.

(* androguard/core/dex get_type (used for method information): always the qualified name *)
Theorem C24_dex_get_type : forall dims f b, base_ok b = true -> (dims < f)%nat ->
  get_type_d f (desc dims b) = Ok (full_name b ++ brackets dims).
Proof. exact get_type_d_spec. Qed.
Print Assumptions C24_dex_get_type.

(* [[Ljava/lang/String;  Ljava/lang/annotation/Annotation;  Ljava/language/X;  [I *)
Example C24_nonvacuous :
  let str := Cls [S_java; S_lang; [83; 116; 114; 105; 110; 103]] in
  let ann := Cls [S_java; S_lang; [97; 110; 110]; [65]] in
  let lng := Cls [S_java; [108; 97; 110; 103; 117; 97; 103; 101]; [88]] in
  base_ok str = true /\ base_ok ann = true /\ base_ok lng = true /\ base_ok (Prim 73) = true /\
  get_type_u (desc 2 str) = Ok [83; 116; 114; 105; 110; 103; 91; 93; 91; 93] /\
  get_type_u (desc 0 ann) = Ok [106; 97; 118; 97; 46; 108; 97; 110; 103; 46; 97; 110; 110; 46; 65] /\
  get_type_u (desc 0 lng) = Ok [106; 97; 118; 97; 46; 108; 97; 110; 103; 117; 97; 103; 101; 46; 88] /\
  get_type_u (desc 1 (Prim 73)) = Ok [105; 110; 116; 91; 93] /\
  get_type_d 5 (desc 1 str) = Ok [106; 97; 118; 97; 46; 108; 97; 110; 103; 46; 83; 116; 114; 105; 110; 103; 91; 93].
Proof. vm_compute. repeat split; reflexivity. Qed.
