(* C16 - multi-DEX analysis is independent of how the code is split and ordered.  Statements only. *)
From Coq Require Import ZArith List Bool Permutation.
Require Import V.Lib.Val V.Lib.Result V.Analysis.XrefModel V.Analysis.XrefProofs.
Import ListNotations.
Open Scope Z_scope.

(* any add order: every relation has the same members with the same multiplicities *)
Theorem C16_add_order_is_irrelevant : forall p p', Permutation p p' ->
  Permutation (calls p) (calls p') /\ Permutation (string_refs p) (string_refs p') /\
  Permutation (class_refs p) (class_refs p') /\ Permutation (field_refs p) (field_refs p') /\
  Permutation (external_classes p) (external_classes p') /\ Permutation (all_methods p) (all_methods p') /\
  Permutation (call_edges p) (call_edges p') /\ Permutation (field_objects p) (field_objects p').
Proof.
  exact (fun p p' H => conj (calls_perm p p' H) (conj (string_refs_perm p p' H) (conj (class_refs_perm p p' H)
    (conj (field_refs_perm p p' H) (conj (external_classes_perm p p' H) (conj (all_methods_perm p p' H)
    (conj (call_edges_perm p p' H) (field_objects_perm p p' H)))))))).
Qed.
Print Assumptions C16_add_order_is_irrelevant.

(* one DEX holding all the classes: calls, strings, class usage, classes, methods and call graph are equal *)
Theorem C16_single_dex_is_the_same : forall p,
  calls [concat p] = calls p /\ string_refs [concat p] = string_refs p /\ class_refs [concat p] = class_refs p /\
  external_classes [concat p] = external_classes p /\ all_methods [concat p] = all_methods p /\
  call_edges [concat p] = call_edges p.
Proof.
  exact (fun p => conj (calls_merged p) (conj (string_refs_merged p) (conj (class_refs_merged p)
    (conj (external_classes_merged p) (conj (all_methods_merged p) (call_edges_merged p)))))).
Qed.
Print Assumptions C16_single_dex_is_the_same.

(* fields: equal when no access crosses a DEX boundary; false otherwise (known finding KF-C16-cross-dex-field) *)
Theorem C16_single_dex_fields_partial : forall p, fields_local p ->
  field_refs [concat p] = field_refs p /\ field_objects [concat p] = field_objects p.
Proof. exact (fun p H => conj (field_refs_merged_local p H) (field_objects_merged_local p H)). Qed.
Print Assumptions C16_single_dex_fields_partial.
Theorem C16_fields_refuted : field_refs [concat w_two_dex] <> field_refs w_two_dex.
Proof. exact field_refs_merged_refuted. Qed.
Print Assumptions C16_fields_refuted.

Example C16_nonvacuous :
  Permutation w_two_dex [[w_B]; [w_A]] /\ fields_local w_same_dex /\ calls [concat w_two_dex] = calls w_two_dex.
Proof.
  split; [apply perm_swap|]. split; [|reflexivity].
  intros d k m off op cls name typ Hd. destruct Hd as [<-|[]]. reflexivity.
Qed.
