(* C26 - binary XML is converted to the XML tree it encodes.  Statements only; proofs in Axml/AxmlProofs.v.
   The theorems are about the tree construction and the cleaning of names and values; the byte layers (chunk headers,
   string pool, chunk loop) are part of the model and are compared with the code on every run. *)
From Coq Require Import ZArith List Bool.
Require Import V.Lib.Val V.Lib.Result V.Axml.PoolModel V.Axml.AxmlModel V.Axml.AxmlProofs.
Import ListNotations.
Open Scope Z_scope.

(* the element tree: for EVERY tree (any depth, any number of children, any texts and tails) the events of the tree in
   document order - open, text, every child followed by its tail, close - rebuild exactly that tree *)
Theorem C26_document_order_events_rebuild_the_tree : forall x, tail_of x = [] -> run_events (flatten x) ([], None) = Ok ([], Some x).
Proof. exact tree_is_rebuilt. Qed.
Print Assumptions C26_document_order_events_rebuild_the_tree.
Theorem C26_a_subtree_is_attached_to_its_parent : forall x stk root, (stk <> [] \/ root = None) ->
  run_events (flatten x) (stk, root) = Ok (placed x stk root).
Proof. exact flatten_places. Qed.

(* attribute values: what is printed holds only XML characters, and a value that is already clean is not changed *)
Theorem C26_printed_values_are_xml_text : forall v, forallb xml_char (fix_value v) = true.
Proof. exact fix_value_is_xml. Qed.
Theorem C26_clean_values_are_kept : forall v, forallb xml_char v = true -> fix_value v = v.
Proof. exact fix_value_keeps_clean_values. Qed.
Print Assumptions C26_clean_values_are_kept.
(* names: what is printed consists of name characters only *)
Theorem C26_printed_names_are_names : forall nsmap prefix name p n, fix_name nsmap prefix name = Ok (p, n) -> forallb name_char n = true.
Proof. exact fix_name_is_a_name. Qed.

(* <a>foo<b/>bar<c>in</c>tail</a> *)
Example C26_nonvacuous :
  let b := El [98] [] [] [] [] [98; 97; 114] in
  let c := El [99] [] [] [105; 110] [] [116; 97; 105; 108] in
  let a := El [97] [] [] [102; 111; 111] [b; c] [] in
  run_events (flatten a) ([], None) = Ok ([], Some a) /\
  flatten a = [TStart [97] [] []; TText [102; 111; 111]; TStart [98] [] []; TText []; TEnd; TText [98; 97; 114];
               TStart [99] [] []; TText [105; 110]; TEnd; TText [116; 97; 105; 108]; TEnd].
Proof. split; reflexivity. Qed.
