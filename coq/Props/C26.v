(* C26 - binary XML is converted to the XML tree it encodes.  Statements only; proofs in Axml/AxmlProofs.v (tree,
   names, values), Axml/PoolProofs.v (string pool), Axml/AxmlChunks.v (one chunk), Axml/AxmlDocument.v (sequences of
   chunks, the loop, whole documents). *)
From Coq Require Import ZArith List Bool.
Require Import V.Lib.Val V.Lib.Result V.Axml.PoolModel V.Axml.AxmlModel V.Axml.AxmlProofs V.Axml.PoolProofs V.Axml.AxmlChunks V.Axml.AxmlDocument V.Axml.AxmlAttrs.
Import ListNotations.
Open Scope Z_scope.
Import ListNotations.
Open Scope Z_scope.

(* the element tree: for EVERY tree (any depth, any number of children, any texts and tails) the events of the tree in
   document order - open, text, every child followed by its tail, close - rebuild exactly that tree *)
Theorem C26_document_order_events_rebuild_the_tree : forall x, tail_of x = [] -> run_events (flatten x) ([], None) = Ok ([], Some x).
Proof. exact tree_is_rebuilt. Qed.
Print Assumptions C26_document_order_events_rebuild_the_tree.
Theorem C26_a_subtree_is_attached_to_its_parent : forall x stk root, (stk <> [] \/ root = None) ->
  run_events (flatten x) (stk, root) = Ok (placed x stk root).
Proof. exact flatten_places. Qed.

(* attribute values: what is printed holds only XML characters, and a value that is already clean is not changed *)
Theorem C26_printed_values_are_xml_text : forall v, forallb xml_char (fix_value v) = true.
Proof. exact fix_value_is_xml. Qed.
Theorem C26_clean_values_are_kept : forall v, forallb xml_char v = true -> fix_value v = v.
Proof. exact fix_value_keeps_clean_values. Qed.
Print Assumptions C26_clean_values_are_kept.
(* names: what is printed consists of name characters only *)
Theorem C26_printed_names_are_names : forall nsmap prefix name p n, fix_name nsmap prefix name = Ok (p, n) -> forallb name_char n = true.
Proof. exact fix_name_is_a_name. Qed.

(* the string pool, UTF-16 or UTF-8: for every list of strings of valid code points (supplementary ones as surrogate pairs or
   four-byte sequences; lengths with one- and two-unit prefixes), anything after the last entry and anything after the
   chunk, parsing the chunk and asking for string i gives exactly the i-th string *)
Theorem C26_pool_strings_are_read_back : forall (utf8_flag : bool) ss padding after i s,
  28 + 4 * Z.of_nat (length ss) + len (concat (map (if utf8_flag then entry8 else entry16) ss)) < 4294967296 ->
  Forall (fits utf8_flag) ss -> nthz ss i = Some s ->
  (do p <- parse_pool (pool_bytes utf8_flag ss padding ++ after) (pool_size utf8_flag ss padding); get_string p i) = Ok s.
Proof. exact string_of_parsed_pool. Qed.
Print Assumptions C26_pool_strings_are_read_back.
Example C26_pool_nonvacuous :
  let ss := [[104; 105]; [233; 128512; 8364]; []] in
  Forall (fits true) ss /\ Forall (fits false) ss /\
  (do p <- parse_pool (pool_bytes true ss [0; 0] ++ [7]) (pool_size true ss [0; 0]); get_string p 1) = Ok [233; 128512; 8364] /\
  (do p <- parse_pool (pool_bytes false ss [] ++ [7]) (pool_size false ss []); get_string p 1) = Ok [233; 128512; 8364] /\
  entry8 [233; 128512] = [3; 6; 195; 169; 240; 159; 152; 128; 0].
Proof.
  cbv zeta. assert (V : forall c, (0 <=? c) && (c <? 1114112) && negb ((55296 <=? c) && (c <? 57344)) = true -> valid_cp c).
  { intros c H. unfold valid_cp. apply andb_prop in H as [H1 H2]. apply andb_prop in H1 as [H0 H1]. apply Z.leb_le in H0. apply Z.ltb_lt in H1.
    split; [auto|]. intros [A B]. apply Z.leb_le in A. apply Z.ltb_lt in B. rewrite A, B in H2. discriminate. }
  assert (F : forall b, Forall (fits b) [[104; 105]; [233; 128512; 8364]; []]).
  { intros b. repeat (apply Forall_cons || apply Forall_nil); (split; [repeat (apply Forall_cons || apply Forall_nil); apply V; vm_compute; reflexivity|]);
      destruct b; try split; vm_compute; reflexivity. }
  split; [apply F|]. split; [apply F|]. split; [vm_compute; reflexivity|]. split; vm_compute; reflexivity.
Qed.

(* the chunk decoders: a chunk written at any position of any buffer (the parser standing at it) is decoded to exactly its
   event, and the parser moves to the end of the chunk: element start with any attribute records, element end, text;
   namespace start / end and the resource map change the parser state as encoded and go on with the next chunk *)
Theorem C26_element_start_is_decoded : forall pre rest fs st f, s_pos st = len pre -> len pre <> fs ->
  forall line comment ns name attrs, fits32 line -> fits32 comment -> fits32 ns -> fits32 name -> Forall wf_attr attrs -> Z.of_nat (length attrs) < 65536 ->
  let body := b32 ns ++ b32 name ++ b16 20 ++ b16 20 ++ b32 (Z.of_nat (length attrs)) ++ b32 0 ++ flat_map attr_bytes attrs in
  16 + len body < 4294967296 ->
  do_next (S f) (pre ++ node_chunk 258 line comment body ++ rest) fs st =
  Ok (Some (EStart ns name attrs comment (s_ns st)), {| s_pos := len pre + 16 + len body; s_ns := s_ns st; s_res := s_res st |}).
Proof. exact start_element_chunk. Qed.
Print Assumptions C26_element_start_is_decoded.
Theorem C26_element_end_and_text_are_decoded : forall pre rest fs st f, s_pos st = len pre -> len pre <> fs ->
  (forall line comment ns name, fits32 line -> fits32 comment -> fits32 ns -> fits32 name ->
     do_next (S f) (pre ++ node_chunk 259 line comment (b32 ns ++ b32 name) ++ rest) fs st =
     Ok (Some (EEnd ns name), {| s_pos := len pre + 24; s_ns := s_ns st; s_res := s_res st |})) /\
  (forall line comment name x y, fits32 line -> fits32 comment -> fits32 name -> fits32 x -> fits32 y ->
     do_next (S f) (pre ++ node_chunk 260 line comment (b32 name ++ b32 x ++ b32 y) ++ rest) fs st =
     Ok (Some (EText name), {| s_pos := len pre + 28; s_ns := s_ns st; s_res := s_res st |})).
Proof. exact (fun pre rest fs st f Hp Hf => conj (end_element_chunk pre rest fs st f Hp Hf) (text_chunk pre rest fs st f Hp Hf)). Qed.
Print Assumptions C26_element_end_and_text_are_decoded.
Theorem C26_namespaces_and_resource_map_are_decoded : forall pre rest fs st f, s_pos st = len pre -> len pre <> fs ->
  (forall line comment prefix uri, fits32 line -> fits32 comment -> fits32 prefix -> fits32 uri ->
     do_next (S f) (pre ++ node_chunk 256 line comment (b32 prefix ++ b32 uri) ++ rest) fs st =
     do_next f (pre ++ node_chunk 256 line comment (b32 prefix ++ b32 uri) ++ rest) fs {| s_pos := len pre + 24; s_ns := s_ns st ++ [(prefix, uri)]; s_res := s_res st |}) /\
  (forall line comment prefix uri, fits32 line -> fits32 comment -> fits32 prefix -> fits32 uri ->
     do_next (S f) (pre ++ node_chunk 257 line comment (b32 prefix ++ b32 uri) ++ rest) fs st =
     do_next f (pre ++ node_chunk 257 line comment (b32 prefix ++ b32 uri) ++ rest) fs {| s_pos := len pre + 24; s_ns := remove_first (prefix, uri) (s_ns st); s_res := s_res st |}) /\
  (forall ids, Forall (fun x => 0 <= x < 4294967296) ids -> 8 + 4 * Z.of_nat (length ids) < 4294967296 ->
     let chunk := chunk_header 384 8 (8 + 4 * Z.of_nat (length ids)) ++ flat_map b32 ids in
     do_next (S f) (pre ++ chunk ++ rest) fs st =
     do_next f (pre ++ chunk ++ rest) fs {| s_pos := len pre + 8 + 4 * Z.of_nat (length ids); s_ns := s_ns st; s_res := s_res st ++ ids |}).
Proof. exact (fun pre rest fs st f Hp Hf => conj (start_namespace_chunk pre rest fs st f Hp Hf) (conj (end_namespace_chunk pre rest fs st f Hp Hf) (resource_map_chunk pre rest fs st f Hp Hf))). Qed.
Print Assumptions C26_namespaces_and_resource_map_are_decoded.

(* <a>foo<b/>bar<c>in</c>tail</a> *)
Example C26_nonvacuous :
  let b := El [98] [] [] [] [] [98; 97; 114] in
  let c := El [99] [] [] [105; 110] [] [116; 97; 105; 108] in
  let a := El [97] [] [] [102; 111; 111] [b; c] [] in
  run_events (flatten a) ([], None) = Ok ([], Some a) /\
  flatten a = [TStart [97] [] []; TText [102; 111; 111]; TStart [98] [] []; TText []; TEnd; TText [98; 97; 114];
               TStart [99] [] []; TText [105; 110]; TEnd; TText [116; 97; 105; 108]; TEnd].
Proof. split; reflexivity. Qed.

(* ---- whole documents ---- *)
(* one call of _do_next on ANY sequence of well-formed chunks (namespace starts and ends, resource maps, element starts
   with their attribute records, element ends, texts) standing anywhere in a buffer: it passes over the chunks that only
   change the state, applying each change in order, stops at the first chunk that is an event and returns exactly that
   event, standing at the end of that chunk; behind the last chunk it reports the end of the document *)
Theorem C26_chunk_sequences_are_decoded : forall items pre rest ns res fuel fs,
  Forall wf_item items -> (length items < fuel)%nat -> fs = len pre + len (encode_items items) ->
  do_next fuel (pre ++ encode_items items ++ rest) fs (st_at (len pre) ns res) =
  match next_event items ns res with
  | Some (e, rem, ns', res') => Ok (Some e, st_at (fs - len (encode_items rem)) ns' res')
  | None => Ok (None, st_at fs (fst (final items ns res)) (snd (final items ns res)))
  end.
Proof. exact do_next_items. Qed.
Print Assumptions C26_chunk_sequences_are_decoded.
(* the loop of AXMLPrinter.__init__ over such a body is the fold of its step over the events the chunks stand for, in the
   order of the file, each with the resource map as it is at that chunk *)
Theorem C26_the_loop_folds_over_the_events : forall p sysattr fuel items pre rest ns res t fs,
  Forall wf_item items -> fs = len pre + len (encode_items items) -> (length (events items ns res) < fuel)%nat ->
  run_doc fuel p sysattr (pre ++ encode_items items ++ rest) fs (st_at (len pre) ns res) t = fold_on p sysattr (events items ns res) t.
Proof. exact run_doc_items. Qed.
Print Assumptions C26_the_loop_folds_over_the_events.
(* the complete parser on the bytes of a document - file header, string pool chunk (UTF-16 or UTF-8, any strings), any
   sequence of well-formed chunks: when the events of the chunks, their strings resolved through that pool with the
   namespace list and resource map of that moment, are the document-order events of a tree x, the parser returns x *)
Theorem C26_whole_document_is_parsed : forall (utf8_flag : bool) ss padding items sysattr x,
  Forall wf_item items ->
  28 + 4 * Z.of_nat (length ss) + len (concat (map (if utf8_flag then entry8 else entry16) ss)) < 4294967296 ->
  len (doc_bytes utf8_flag ss padding items) < 4294967296 ->
  tail_of x = [] ->
  Forall2 (fun er te => resolve (pool_of utf8_flag ss padding) sysattr (snd er) (fst er) false = Ok te) (events items [] []) (flatten x) ->
  parse_axml sysattr (doc_bytes utf8_flag ss padding items) = Ok (Some x).
Proof. exact document_is_parsed. Qed.
Print Assumptions C26_whole_document_is_parsed.
(* end to end, without any hypothesis about the model, for a class of documents: every element tree without attributes
   and namespaces - any shape and depth, any texts before, between and after the children, names that are XML names as
   they stand, either pool encoding - written as header, pool and chunks is parsed to exactly that tree *)
Theorem C26_plain_documents_round_trip : forall (utf8_flag : bool) ss padding sysattr,
  Forall (fits utf8_flag) ss -> Z.of_nat (length ss) < NONE -> forall t, wf_ptree ss t -> ptail t = NONE ->
  28 + 4 * Z.of_nat (length ss) + len (concat (map (if utf8_flag then entry8 else entry16) ss)) < 4294967296 ->
  len (doc_bytes utf8_flag ss padding (items_of t)) < 4294967296 ->
  parse_axml sysattr (doc_bytes utf8_flag ss padding (items_of t)) = Ok (Some (tree_of ss t)).
Proof. exact plain_document_round_trip. Qed.
Print Assumptions C26_plain_documents_round_trip.
(* <a>foo<b/>bar</a>, pool ["a"; "b"; "foo"; "bar"] in UTF-8 with two bytes of padding: the hypotheses hold *)
Example C26_plain_nonvacuous :
  wf_ptree ex_ss ex_ptree /\ Forall (fits true) ex_ss /\
  tree_of ex_ss ex_ptree = El [97] [] [] [102; 111; 111] [El [98] [] [] [] [] [98; 97; 114]] [] /\
  parse_axml [] (doc_bytes true ex_ss [0; 0] (items_of ex_ptree)) = Ok (Some (tree_of ex_ss ex_ptree)).
Proof. exact plain_example. Qed.

(* end to end with attributes and namespaces: every element tree whose element and attribute names are XML names as they
   stand - any shape and depth, any texts, any number of attributes per element, each in any namespace (or none) and of any
   value type (string through the pool, integer, hex, boolean, reference, dimension ...: the formatted value of C27, cleaned),
   repeated attribute keys overwriting, any namespace declarations around the root - written as header, string pool
   (either encoding) and chunks is parsed to exactly that tree; with a resource map in front (as aapt writes manifests) the
   name of an attribute the map covers is the system attribute name of its resource id (when the table knows it) *)
Theorem C26_manifests_round_trip : forall (utf8_flag : bool) ss padding sysattr ids decls t,
  Forall (fits utf8_flag) ss -> Z.of_nat (length ss) < NONE -> wf_res ids -> Forall wf_decl decls ->
  wf_atree ss sysattr ids t -> atail t = NONE ->
  28 + 4 * Z.of_nat (length ss) + len (concat (map (if utf8_flag then entry8 else entry16) ss)) < 4294967296 ->
  len (doc_bytes utf8_flag ss padding (IResMap ids :: adoc_items decls t)) < 4294967296 ->
  parse_axml sysattr (doc_bytes utf8_flag ss padding (IResMap ids :: adoc_items decls t)) = Ok (Some (atree_of ss sysattr ids decls t)).
Proof. exact manifest_document_round_trip. Qed.
Print Assumptions C26_manifests_round_trip.
Theorem C26_documents_with_attributes_round_trip : forall (utf8_flag : bool) ss padding sysattr decls t,
  Forall (fits utf8_flag) ss -> Z.of_nat (length ss) < NONE -> Forall wf_decl decls ->
  wf_atree ss sysattr [] t -> atail t = NONE ->
  28 + 4 * Z.of_nat (length ss) + len (concat (map (if utf8_flag then entry8 else entry16) ss)) < 4294967296 ->
  len (doc_bytes utf8_flag ss padding (adoc_items decls t)) < 4294967296 ->
  parse_axml sysattr (doc_bytes utf8_flag ss padding (adoc_items decls t)) = Ok (Some (atree_of ss sysattr [] decls t)).
Proof. exact attribute_document_round_trip. Qed.
Print Assumptions C26_documents_with_attributes_round_trip.
(* <manifest xmlns:android="http://a/res" package="com.x" android:versionCode="7"><application android:name="com.x"/></manifest>
   with a resource map; the name string of versionCode is empty in the pool, the name comes from the system attribute table *)
Example C26_attributes_nonvacuous :
  wf_atree ax_ss ax_sys ax_ids ax_tree /\ atree_of ax_ss ax_sys ax_ids [(2, 3)] ax_tree = ax_xml /\
  parse_axml ax_sys (doc_bytes true ax_ss [] (IResMap ax_ids :: adoc_items [(2, 3)] ax_tree)) = Ok (Some ax_xml).
Proof. exact manifest_example. Qed.
