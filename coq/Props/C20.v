(* C20 - def-use chains equal the reaching-definitions solution.  Statements only; proofs in Dad/ReachDefProofs.v. *)
From Coq Require Import ZArith List Bool.
Require Import V.Lib.Val V.Lib.Result V.Dad.ReachDefModel V.Dad.ReachDefProofs V.Dad.ReachDefTerm.
Import ListNotations.
Open Scope Z_scope.

(* when the worklist iteration of BasicReachDef.run ends, R[v] holds exactly the definitions that reach the entry of v:
   last definition of its register in some node a, and a walk a -> ... -> v whose inner nodes do not define the register
   (reach_in); for every well-formed method, any graph (loops, irreducible regions, self loops, unreachable nodes) *)
Theorem C20_reaching_sets_are_the_path_solution : forall m s, wf m -> analysis m = Some s ->
  forall v loc, In v (all_nodes m) -> (In loc (getR s v) <-> exists reg, reach_in m reg loc v).
Proof. exact analysis_exact. Qed.
Print Assumptions C20_reaching_sets_are_the_path_solution.

(* build_def_use: the definitions linked to the use of reg at instruction i of node v are exactly the reaching ones -
   the nearest earlier definition in the node if there is one, otherwise the definitions reaching the node entry;
   no row at all iff the register is defined nowhere (not even as a parameter) *)
Theorem C20_use_def_rows_are_the_reaching_definitions : forall m s v i reg, wf m -> analysis m = Some s -> real m v ->
  match use_defs m s v i reg with
  | None => forall d, ~ is_def m reg d
  | Some ds => forall d, In d ds <-> reaching_use m v i reg d
  end.
Proof. exact use_defs_exact. Qed.
Print Assumptions C20_use_def_rows_are_the_reaching_definitions.

(* each iteration keeps the two invariants the result rests on: every recorded definition has a witness path, and every
   node outside the worklist is stable *)
(* the iteration always ends: the sets only grow, they hold definitions of the method only, and a node is queued again only
   when a set grew - so, for every well-formed method, running it on any fuel from steps_bound on gives one and the same
   state, in which R[v] is exactly the path solution; the executable analysis (fixed fuel) gives that state or reports that its
   fuel ran out *)
Theorem C20_iteration_ends_with_the_path_solution : forall m, wf m ->
  exists s, (forall fuel, (steps_bound m <= fuel)%nat -> run fuel m (g_rpo m) (init_state m) = Some s) /\
            (forall v loc, In v (all_nodes m) -> (In loc (getR s v) <-> exists reg, reach_in m reg loc v)) /\
            (analysis m = None \/ analysis m = Some s).
Proof. exact analysis_ends. Qed.
Print Assumptions C20_iteration_ends_with_the_path_solution.
(* one pass of the loop body keeps the growth invariant and strictly lowers (queue length + degree * room left in the sets) *)
Theorem C20_every_pass_makes_progress : forall m node rest s w s', wf m -> real m node -> mono m s -> step m node rest s = (w, s') ->
  mono m s' /\ (length w + deg m * phi m s' < length (node :: rest) + deg m * phi m s)%nat /\ (forall x, In x w -> In x rest \/ In x (sucs m node)).
Proof. exact step_mono. Qed.
Print Assumptions C20_every_pass_makes_progress.

Theorem C20_iteration_step_keeps_the_invariants : forall m node rest s w s', wf m ->
  inv m (node :: rest) s -> step m node rest s = (w, s') -> inv m w s'.
Proof. exact step_inv. Qed.
Theorem C20_wellformedness_test_is_sound : forall m, wf_b m = true -> wf m.
Proof. exact wf_b_sound. Qed.

(* a loop whose header and bottom both define register 0, a parameter, a use before the redefinition in a one-block loop *)
Example C20_nonvacuous :
  let m := {| g_sucs := [[1]; [2]; [1; 3]; []]; g_entry := 0;
              g_code := [[(0, (0, []))]; [(1, (-1, [0; 1])); (2, (0, [0]))]; [(3, (0, [0]))]; [(4, (-1, [0; 1]))]];
              g_params := [1]; g_rpo := [0; 1; 2; 3] |} in
  wf_b m = true /\
  obs_defuse m = VList [VList [VList [VZ 0; VZ 1; vlistZ [0; 3]]; VList [VZ 0; VZ 2; vlistZ [0; 3]]; VList [VZ 0; VZ 3; vlistZ [2]];
                               VList [VZ 0; VZ 4; vlistZ [3]]; VList [VZ 1; VZ 1; vlistZ [-1]]; VList [VZ 1; VZ 4; vlistZ [-1]]];
                        VList [VList [VZ 0; VZ 0; vlistZ [1; 2]]; VList [VZ 0; VZ 2; vlistZ [3]]; VList [VZ 0; VZ 3; vlistZ [1; 2; 4]];
                               VList [VZ 1; VZ (-1); vlistZ [1; 4]]];
                        VList [vlistZ [-1]; vlistZ [-1; 0; 3]; vlistZ [-1; 2]; vlistZ [-1; 3]]; VB true].
Proof. cbv zeta. split; vm_compute; reflexivity. Qed.
