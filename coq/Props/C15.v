(* C15 - string and class-usage cross-references are exact.  Statements only. *)
From Coq Require Import ZArith List Bool Permutation.
Require Import V.Lib.Val V.Lib.Result V.Analysis.XrefModel V.Analysis.XrefProofs.
Import ListNotations.
Open Scope Z_scope.

Theorem C15_string_xrefs_are_exactly_the_const_strings : forall p r,
  In r (string_refs p) <->
  exists d k m off str, In d p /\ In k d /\ In m (c_methods k) /\ In (off, XConstString str) (m_code m) /\
    r = [str; c_name k; m_name m; m_desc m; off].
Proof. exact in_string_refs. Qed.
Print Assumptions C15_string_xrefs_are_exactly_the_const_strings.

Theorem C15_class_xrefs_are_exactly_new_instance_and_const_class : forall p r,
  In r (class_refs p) <->
  exists d k m off kind dims base, In d p /\ In k d /\ In m (c_methods k) /\
    ((kind = 34 /\ In (off, XNew dims base) (m_code m)) \/ (kind = 28 /\ In (off, XConstClass dims base) (m_code m))) /\
    0 <= base /\ base <> c_name k /\ r = [kind; base; c_name k; m_name m; m_desc m; off].
Proof. exact in_class_refs. Qed.
Print Assumptions C15_class_xrefs_are_exactly_new_instance_and_const_class.

Example C15_nonvacuous :
  let m := {| m_name := 7; m_desc := 8; m_code := [(0, XConstString 4); (4, XNew 0 2); (8, XConstClass 2 3); (12, XNew 0 1); (16, XConstClass 1 (-1)); (20, XConstString 4)] |} in
  let p := [[{| c_name := 1; c_methods := [m]; c_fields := [] |}]] in
  string_refs p = [[4; 1; 7; 8; 0]; [4; 1; 7; 8; 20]] /\ class_refs p = [[34; 2; 1; 7; 8; 4]; [28; 3; 1; 7; 8; 8]].
Proof. split; reflexivity. Qed.
