(* C35 - parsers terminate on every input.  Statements only; proofs in Misc/TermProofs.v.
   PARTIAL: the theorems cover the four loops the property is anchored in, for every byte string; that the complete
   parsers (DEX, AXMLPrinter, ARSCParser, APK) finish on every input is checked under a time limit on mutated and
   crafted files, not proved. *)
From Coq Require Import ZArith List Bool.
Require Import V.Lib.Val V.Lib.Result V.Dex.LebModel V.Misc.TermModel V.Misc.TermProofs V.Dex.StringsModel.
Require V.Axml.AxmlModel V.Axml.AxmlTerm V.Axml.ArscTableModel V.Axml.ArscTableTerm.
Import ListNotations.
Open Scope Z_scope.

(* each loop runs on a fuel that is linear in the number of bytes (bytes left + 1); it is never exhausted:
   every iteration consumes at least one byte or ends the loop *)
Theorem C35_string_reader_ends : forall rest pos, read_nts rest pos <> Err OutOfFuel.
Proof. exact read_nts_ends. Qed.
Print Assumptions C35_string_reader_ends.
Theorem C35_arsc_header_skip_loop_ends : forall buf start expected, 0 <= start -> arsc_header buf start expected <> Err OutOfFuel.
Proof. exact arsc_header_ends. Qed.
Print Assumptions C35_arsc_header_skip_loop_ends.
Theorem C35_debug_info_loops_end : forall l, debug_info l <> Err OutOfFuel.
Proof. exact debug_info_ends. Qed.
Print Assumptions C35_debug_info_loops_end.
Theorem C35_hidden_api_loops_end : forall l, hidden_api l <> Err OutOfFuel.
Proof. exact hidden_api_ends. Qed.
Print Assumptions C35_hidden_api_loops_end.

(* an accepted chunk header makes the chunk loop of AXMLParser advance: the chunk ends at least 8 bytes after its start *)
(* the whole binary XML parser as modelled (C26: AXMLParser's chunk loop with its resynchronisation, the resource map, the
   namespace stack, attribute records; AXMLPrinter's event loop; every string pool lookup, UTF-8 and UTF-16): for EVERY byte
   string it ends with a tree, no tree, or an error - never by running out of its fuel, which is the length of the input + 1
   for each of the two loops: a chunk whose header is accepted lies at least eight bytes further on *)
Theorem C35_binary_xml_parsing_ends : forall sysattr buf, AxmlModel.parse_axml sysattr buf <> Err OutOfFuel.
Proof. exact AxmlTerm.parse_axml_ends. Qed.
Print Assumptions C35_binary_xml_parsing_ends.

(* the walk of ARSCParser.__init__ over a resource table as modelled (C28: table header, chunks of the table, package headers
   with their two string pools, chunks of each package, type chunks with offset arrays in the three encodings and plain,
   compact and complex entries): it ends for EVERY string of bytes; both chunk loops go on at least eight bytes further on *)
Theorem C35_resource_table_walk_ends : forall buf, Forall (fun b => 0 <= b) buf -> ArscTableModel.parse_table buf <> Err OutOfFuel.
Proof. exact ArscTableTerm.parse_table_ends. Qed.
Print Assumptions C35_resource_table_walk_ends.

Theorem C35_accepted_header_advances_the_chunk_loop : forall buf start expected ty hs sz st pos,
  arsc_header buf start expected = Ok [ty; hs; sz; st; pos] -> st = start /\ start + 8 <= st + sz.
Proof. exact arsc_header_progress. Qed.
Print Assumptions C35_accepted_header_advances_the_chunk_loop.

(* dummy bytes in front of a header; a parameter count of 2^32-1 with three bytes of input; a huge section size *)
Example C35_nonvacuous :
  arsc_header ([0; 0; 0; 0; 0] ++ [2; 1; 16; 0; 24; 0; 0; 0] ++ [0; 0; 0; 0; 0; 0; 0; 0]) 5 0 = Ok [258; 16; 24; 5; 13] /\
  arsc_header [9; 9; 9; 0; 0; 0; 0; 0; 0; 0; 0; 0; 0] 1 0 = Err StructError /\
  debug_info [1; 255; 255; 255; 255; 15; 3; 4; 5] = Err StructError /\
  hidden_api [255; 255; 255; 255; 0; 0; 0; 0; 0; 0; 0; 0; 7] = Err StructError.
Proof. repeat split; vm_compute; reflexivity. Qed.
