(* C35 - parsers terminate on every input.  Statements only; proofs in Misc/TermProofs.v.
   PARTIAL: the theorems cover the four loops the property is anchored in, for every byte string; that the complete
   parsers (DEX, AXMLPrinter, ARSCParser, APK) finish on every input is checked under a time limit on mutated and
   crafted files, not proved. *)
From Coq Require Import ZArith List Bool.
Require Import V.Lib.Val V.Lib.Result V.Dex.LebModel V.Misc.TermModel V.Misc.TermProofs V.Dex.StringsModel.
Require V.Axml.AxmlModel V.Axml.AxmlTerm V.Axml.ArscTableModel V.Axml.ArscTableTerm.
Require V.Dex.ClassDataModel V.Dex.EncodedValueModel V.Dex.DexTerm V.Dex.MapWalkModel V.Dex.MapWalkProofs.
Import ListNotations.
Open Scope Z_scope.

(* each loop runs on a fuel that is linear in the number of bytes (bytes left + 1); it is never exhausted:
   every iteration consumes at least one byte or ends the loop *)
Theorem C35_string_reader_ends : forall rest pos, read_nts rest pos <> Err OutOfFuel.
Proof. exact read_nts_ends. Qed.
Print Assumptions C35_string_reader_ends.
Theorem C35_arsc_header_skip_loop_ends : forall buf start expected, 0 <= start -> arsc_header buf start expected <> Err OutOfFuel.
Proof. exact arsc_header_ends. Qed.
Print Assumptions C35_arsc_header_skip_loop_ends.
Theorem C35_debug_info_loops_end : forall l, debug_info l <> Err OutOfFuel.
Proof. exact debug_info_ends. Qed.
Print Assumptions C35_debug_info_loops_end.
Theorem C35_hidden_api_loops_end : forall l, hidden_api l <> Err OutOfFuel.
Proof. exact hidden_api_ends. Qed.
Print Assumptions C35_hidden_api_loops_end.

(* an accepted chunk header makes the chunk loop of AXMLParser advance: the chunk ends at least 8 bytes after its start *)
(* the whole binary XML parser as modelled (C26: AXMLParser's chunk loop with its resynchronisation, the resource map, the
   namespace stack, attribute records; AXMLPrinter's event loop; every string pool lookup, UTF-8 and UTF-16): for EVERY byte
   string it ends with a tree, no tree, or an error - never by running out of its fuel, which is the length of the input + 1
   for each of the two loops: a chunk whose header is accepted lies at least eight bytes further on *)
Theorem C35_binary_xml_parsing_ends : forall sysattr buf, AxmlModel.parse_axml sysattr buf <> Err OutOfFuel.
Proof. exact AxmlTerm.parse_axml_ends. Qed.
Print Assumptions C35_binary_xml_parsing_ends.

(* the walk of ARSCParser.__init__ over a resource table as modelled (C28: table header, chunks of the table, package headers
   with their two string pools, chunks of each package, type chunks with offset arrays in the three encodings and plain,
   compact and complex entries): it ends for EVERY string of bytes; both chunk loops go on at least eight bytes further on *)
Theorem C35_resource_table_walk_ends : forall buf, Forall (fun b => 0 <= b) buf -> ArscTableModel.parse_table buf <> Err OutOfFuel.
Proof. exact ArscTableTerm.parse_table_ends. Qed.
Print Assumptions C35_resource_table_walk_ends.

Theorem C35_accepted_header_advances_the_chunk_loop : forall buf start expected ty hs sz st pos,
  arsc_header buf start expected = Ok [ty; hs; sz; st; pos] -> st = start /\ start + 8 <= st + sz.
Proof. exact arsc_header_progress. Qed.
Print Assumptions C35_accepted_header_advances_the_chunk_loop.

(* dummy bytes in front of a header; a parameter count of 2^32-1 with three bytes of input; a huge section size *)
Example C35_nonvacuous :
  arsc_header ([0; 0; 0; 0; 0] ++ [2; 1; 16; 0; 24; 0; 0; 0] ++ [0; 0; 0; 0; 0; 0; 0; 0]) 5 0 = Ok [258; 16; 24; 5; 13] /\
  arsc_header [9; 9; 9; 0; 0; 0; 0; 0; 0; 0; 0; 0; 0] 1 0 = Err StructError /\
  debug_info [1; 255; 255; 255; 255; 15; 3; 4; 5] = Err StructError /\
  hidden_api [255; 255; 255; 255; 0; 0; 0; 0; 0; 0; 0; 0; 7] = Err StructError.
Proof. repeat split; vm_compute; reflexivity. Qed.

(* more loops of the DEX parser (models of C04 and C05) *)
(* an encoded value - arrays and annotations nested to any depth, each announcing any number of elements - and the array of
   the static values of a class: the reader returns or raises within (bytes + 1) levels of nesting *)
Theorem C35_encoded_values_end : forall bs,
  EncodedValueModel.parse_value (S (length bs)) bs <> Err OutOfFuel /\ EncodedValueModel.parse_array (S (length bs)) bs <> Err OutOfFuel.
Proof. exact (fun bs => conj (DexTerm.parse_value_ends bs) (DexTerm.parse_array_ends bs)). Qed.
Print Assumptions C35_encoded_values_end.
(* the field and method lists of a class_data_item run on as many passes as there are bytes left; an element takes at least
   two bytes, so whatever count the item announces (2^32 - 1 included) the amount of fuel is never what ends the loop: any
   two amounts that are at least the number of bytes left give the same result *)
Theorem C35_class_data_loops_end : forall f1 f2 cnt prev bs, (length bs <= f1)%nat -> (length bs <= f2)%nat ->
  ClassDataModel.read_fields f1 cnt prev bs = ClassDataModel.read_fields f2 cnt prev bs /\
  ClassDataModel.read_methods f1 cnt prev bs = ClassDataModel.read_methods f2 cnt prev bs.
Proof. exact (fun f1 f2 cnt prev bs H1 H2 => conj (DexTerm.read_fields_fuel f1 f2 cnt prev bs H1 H2) (DexTerm.read_methods_fuel f1 f2 cnt prev bs H1 H2)). Qed.
Print Assumptions C35_class_data_loops_end.

(* ---- the map list of a DEX file and the sections it names ---- *)
(* MapList.__init__ as modelled - the count of map items and every map item read from the file, then for every item its section
   parsed from its own offset: the id tables, type lists, annotation set ref lists, annotation set items, annotations directories,
   each with a count taken from the file - ends on EVERY byte string and every offset within fuel (bytes + 1) per loop: it returns
   the sections or raises.  Every record reader either fails or leaves fewer bytes than it found, so no count - 2^32 - 1 map items,
   2^32 - 1 records, a list that announces 2^32 - 1 entries - can keep a loop going beyond the end of the data. *)
Theorem C35_map_list_and_sections_end : forall buf off, MapWalkModel.map_list (S (length buf)) buf off <> Err OutOfFuel.
Proof. exact MapWalkProofs.map_list_ends. Qed.
Print Assumptions C35_map_list_and_sections_end.
Theorem C35_a_section_ends : forall buf ty count off, MapWalkModel.section (S (length buf)) buf ty count off <> Err OutOfFuel.
Proof. exact MapWalkProofs.section_ends. Qed.
(* ... and a map that is read has at most one item per twelve bytes of the file *)
Theorem C35_map_items_are_bounded_by_the_file : forall fuel buf off l, MapWalkModel.map_list fuel buf off = Ok l -> (12 * length l + 4 <= length buf)%nat.
Proof. exact MapWalkProofs.map_list_size. Qed.
Example C35_map_nonvacuous :
  MapWalkModel.map_list 60 (firstn 36 MapWalkProofs.ex_buf ++ [255;255;255;255] ++ skipn 40 MapWalkProofs.ex_buf) 16 = Err StructError /\
  exists l, MapWalkModel.map_list (S (length MapWalkProofs.ex_buf)) MapWalkProofs.ex_buf 16 = Ok l /\ length l = 3%nat.
Proof. split; [exact MapWalkProofs.map_example_huge | eexists; split; [exact MapWalkProofs.map_example | reflexivity]]. Qed.
