(* C03 - LEB128 integers decode to the value their bytes encode.  Property theorems only. *)
From Coq Require Import ZArith List.
Require Import V.Lib.Result V.Dex.LebModel V.Dex.LebSpec V.Dex.LebProofs.
Import ListNotations.
Open Scope Z_scope.

(* every well-formed unsigned encoding of 1..5 bytes (canonical or padded) decodes to the DEX value,
   and the reader stops exactly after it *)
Theorem C03_read_unsigned : forall bs rest, wf_leb bs = true ->
  read_u (bs ++ rest) = Ok (uleb_value bs, rest) /\ 0 <= uleb_value bs < 4294967296.
Proof. intros bs rest H. split; [exact (read_u_spec bs rest H) | exact (uleb_range bs)]. Qed.
Print Assumptions C03_read_unsigned.

Theorem C03_read_signed : forall bs rest, wf_leb bs = true ->
  read_s (bs ++ rest) = Ok (sleb_value bs, rest) /\ -2147483648 <= sleb_value bs < 2147483648.
Proof. intros bs rest H. split; [exact (read_s_spec bs rest H) | exact (sleb_range bs)]. Qed.
Print Assumptions C03_read_signed.

Theorem C03_read_unsigned_p1 : forall bs rest, wf_leb bs = true ->
  read_up1 (bs ++ rest) = Ok (uleb_value bs - 1, rest).
Proof. exact read_up1_spec. Qed.
Print Assumptions C03_read_unsigned_p1.

Example C03_nonvacuous :
  wf_leb [128; 127] = true /\ wf_leb [255; 255; 255; 255; 127] = true /\
  uleb_value [229; 142; 38] = 624485 /\ sleb_value [192; 187; 120] = -123456 /\
  uleb_value [255; 255; 255; 255; 127] = 4294967295 /\ sleb_value [128; 128; 128; 128; 120] = -2147483648.
Proof. exact wf_examples. Qed.

(* the writers: every 32-bit value is written as a well-formed encoding of that value ... *)
Require Import V.Dex.LebWrite.
Theorem C03_write_unsigned : forall v, 0 <= v < 4294967296 ->
  exists bs, write_u v = Ok bs /\ wf_leb bs = true /\ uleb_value bs = v.
Proof. exact write_u_spec. Qed.
Print Assumptions C03_write_unsigned.

Theorem C03_write_signed : forall v, -2147483648 <= v < 2147483648 ->
  exists bs, write_s v = Ok bs /\ wf_leb bs = true /\ sleb_value bs = v.
Proof. exact write_s_spec. Qed.
Print Assumptions C03_write_signed.

(* ... so encoding then decoding returns the value, whatever follows in the buffer (uleb128p1 included) *)
Theorem C03_roundtrip_unsigned : forall v r, 0 <= v < 4294967296 ->
  exists bs, write_u v = Ok bs /\ read_u (bs ++ r) = Ok (v, r).
Proof. exact write_read_u. Qed.
Print Assumptions C03_roundtrip_unsigned.

Theorem C03_roundtrip_unsigned_p1 : forall v r, -1 <= v < 4294967295 ->
  exists bs, write_u (v + 1) = Ok bs /\ read_up1 (bs ++ r) = Ok (v, r).
Proof. exact write_read_up1. Qed.
Print Assumptions C03_roundtrip_unsigned_p1.

Theorem C03_roundtrip_signed : forall v r, -2147483648 <= v < 2147483648 ->
  exists bs, write_s v = Ok bs /\ read_s (bs ++ r) = Ok (v, r).
Proof. exact write_read_s. Qed.
Print Assumptions C03_roundtrip_signed.

(* the tie: the syntax tree serialised from the working tree, run by PyLite, is the model *)
Require Import V.Lib.PyLite V.gen.Gen_Leb V.Dex.LebTie.
Theorem C03_source_is_model_read_unsigned : forall bs, py_read src_readuleb128 bs = read_u bs.
Proof. exact tie_read_u. Qed.
Print Assumptions C03_source_is_model_read_unsigned.
