(* C04 - encoded constant values keep their declared width and signedness.  Property theorems only.
   parse_value fuel buf models EncodedValue(buf); le_u / le_s are the unsigned / sign-extended little-endian value of a
   byte string; enc_leaf e bs: bs is header byte (type + 32 * value_arg) followed by value_arg + 1 payload bytes (or the
   one byte of VALUE_BYTE, nothing for null and boolean) and e the value the DEX format defines for it;
   encodes d e bs extends this to arrays and annotations nested at most d deep, with any well-formed LEB128 counts. *)
From Coq Require Import ZArith List Lia.
Require Import V.Lib.Result V.Lib.Fmt V.Dex.LebSpec V.Dex.EncodedValueModel V.Dex.EncodedValueProofs.
Import ListNotations.
Open Scope Z_scope.

(* every scalar: short, int, long sign-extended from the encoded width; char, float, double and the index types
   zero-extended; byte signed; boolean from value_arg; null - and exactly the encoded bytes are consumed *)
Theorem C04_scalar_values : forall e bs, enc_leaf e bs -> forall f rest, parse_value (S f) (bs ++ rest) = Ok (e, rest).
Proof. exact parse_leaf. Qed.
Print Assumptions C04_scalar_values.

(* arrays and annotations of any nesting depth return their elements in order *)
Theorem C04_nested_values : forall d e bs, encodes d e bs -> forall rest, parse_value (S d) (bs ++ rest) = Ok (e, rest).
Proof. exact parse_encoded. Qed.
Print Assumptions C04_nested_values.

(* the integer payload: a value written in any sufficient number of bytes is read back *)
Theorem C04_signed_payload_roundtrip : forall n v, (0 < n)%nat -> - 2 ^ (8 * Z.of_nat n - 1) <= v < 2 ^ (8 * Z.of_nat n - 1) ->
  le_s (le_bytes n (v mod 2 ^ (8 * Z.of_nat n))) = v.
Proof. exact signed_roundtrip. Qed.
Print Assumptions C04_signed_payload_roundtrip.
Theorem C04_unsigned_payload_roundtrip : forall n x, 0 <= x < 2 ^ (8 * Z.of_nat n) -> le_u (le_bytes n x) = x.
Proof. exact unsigned_roundtrip. Qed.
Print Assumptions C04_unsigned_payload_roundtrip.

(* static values are bound to the static fields in order *)
Theorem C04_static_values_bound_in_order : forall n vs k, (length vs <= n)%nat -> (k < n)%nat ->
  nth k (bind_static n vs) None = nth_error vs k.
Proof. exact bind_static_in_order. Qed.
Print Assumptions C04_static_values_bound_in_order.

(* the initialiser printed for a short, char, int or long field denotes the value read *)
Theorem C04_printed_initialiser_denotes_the_value : forall proto v, proto <> 66 ->
  (if v <? 0 then match print_int_init proto v with 45 :: t => - text_value 10 t | _ => 0 end
   else text_value 10 (print_int_init proto v)) = v.
Proof. exact printed_int_denotes. Qed.
Print Assumptions C04_printed_initialiser_denotes_the_value.

(* VALUE_INT in one byte ff = -1; VALUE_LONG in two bytes 00 80 = -32768; VALUE_CHAR ff ff = 65535;
   an array [int -32768; boolean true] *)
Example C04_nonvacuous :
  parse_value 2 [4; 255] = Ok (EInt 4 (-1), []) /\ parse_value 2 [38; 0; 128; 7] = Ok (EInt 6 (-32768), [7]) /\
  parse_value 2 [35; 255; 255] = Ok (EInt 3 65535, []) /\
  parse_value 2 [28; 2; 36; 0; 128; 63] = Ok (EArr [EInt 4 (-32768); EBool true], []) /\
  enc_leaf (EInt 4 (-1)) [4 + 32 * 0; 255].
Proof.
  repeat split; try (vm_compute; reflexivity).
  apply (L_int 4 0 [255]); [lia|lia|reflexivity|repeat constructor; lia].
Qed.
