(* C21 - decompiled integer code computes what the bytecode computes.  Statements only; proofs in Dad/OpProofs.v.
   PARTIAL: the theorems are about the translation of single arithmetic instructions - the table generated on every run
   from androguard/decompiler/opcode_ins.py.  Register propagation, dead code elimination, structuring and printing of
   whole methods are not modelled: they are decided by compiling the decompiler's output with javac and running it
   against an independent interpreter of the bytecode. *)
From Coq Require Import ZArith List Bool.
Require Import V.Lib.Val V.Lib.Result V.Dad.OpSemantics V.Dad.OpProofs V.gen.Gen_OpTable V.gen.Gen_CondTable.
Import ListNotations.
Open Scope Z_scope.

(* for every arithmetic, bitwise, shift, negation and cast instruction on int and long (three-register, 2addr, lit16 and
   lit8 forms, rsub and the sign flip of add-int/lit8 included) and ALL operand values: the Java expression the decompiler
   prints evaluates to what the instruction computes, and fails with an exception exactly when the instruction does *)
Theorem C21_every_operator_translation_is_exact : Forall entry_ok op_table.
Proof. exact op_table_correct. Qed.
Print Assumptions C21_every_operator_translation_is_exact.
Theorem C21_the_table_covers_all_arithmetic_opcodes : map fst op_table = arith_opcodes.
Proof. exact op_table_covers. Qed.
Print Assumptions C21_the_table_covers_all_arithmetic_opcodes.

(* the conditional branches 0x32-0x3d: the comparison that is printed (a OP b, a OP 0) is true exactly when the
   instruction branches, for all operand values; the table covers the twelve opcodes *)
Theorem C21_every_branch_condition_is_exact : Forall centry_ok cond_table /\ map fst cond_table = map (fun k => 50 + Z.of_nat k) (seq 0 12).
Proof. exact (conj cond_table_correct cond_table_covers). Qed.
Print Assumptions C21_every_branch_condition_is_exact.
(* the table CONDS with which the decompiler negates a comparison (Condition.neg, loop and if structuring, C25): every
   operator is mapped to the operator with the complementary truth value for all operands, and every operator a branch is
   printed with has an entry *)
Theorem C21_negated_comparisons_are_complements : Forall complement_ok conds /\
  forallb (fun p => existsb (fun q => str_eqb (fst q) (match snd p with Cond op | CondZ op => op end)) conds) cond_table = true.
Proof. exact (conj conds_are_complements conds_cover_the_branch_operators). Qed.
Print Assumptions C21_negated_comparisons_are_complements.

Example C21_nonvacuous :
  dalvik 147 (-7) 2 = Ok (-3) /\ dalvik 148 (-7) 2 = Ok (-1) /\ dalvik 147 5 0 = Err OtherError /\ dalvik 154 (-1) 28 = Ok 15 /\
  dalvik 216 2147483647 1 = Ok (-2147483648) /\ dalvik 165 (-1) 60 = Ok 15 /\ dalvik 141 200 0 = Ok (-56).
Proof. repeat split; vm_compute; reflexivity. Qed.
