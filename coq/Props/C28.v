(* C28 - resource tables resolve to the values they contain.  Statements only; proofs in Axml/ArscTypeProofs.v.
   PARTIAL: the theorems cover the reading of one RES_TABLE_TYPE chunk - the entry-offset array in its three encodings and
   the plain and compact entry records.  The walk over the enclosing chunks and the listings built from the entries are
   checked by the oracle on generated tables; reference resolution is C29, locales are C30. *)
From Coq Require Import ZArith List Bool.
Require Import V.Lib.Val V.Lib.Result V.Lib.Struct V.Axml.PoolModel V.Axml.ArscTypeModel V.Axml.ArscTypeProofs V.Axml.ArscComplex.
Require V.Axml.ArscTableModel.   (* the stream table-walk of tools/props/c28.py evaluates the model of the walk over the table *)
Import ListNotations.
Open Scope Z_scope.

(* whichever way the offsets are written, the entries that exist are found, each with its own index, and the holes are
   skipped: 32-bit offsets (0xffffffff = none), 16-bit offsets in units of four bytes (0xffff = none), sparse pairs *)
Theorem C28_dense_offsets_give_the_existing_entries : forall slots fuel i base rest, Forall ok32 slots -> (length slots <= fuel)%nat ->
  read_offsets fuel 0 i (i + Z.of_nat (length slots)) base (flat_map enc32 slots ++ rest) = Ok (present base i slots).
Proof. exact dense_offsets_exact. Qed.
Print Assumptions C28_dense_offsets_give_the_existing_entries.
Theorem C28_sixteen_bit_offsets_give_the_existing_entries : forall slots fuel i base rest, Forall ok16 slots -> (length slots <= fuel)%nat ->
  read_offsets fuel 2 i (i + Z.of_nat (length slots)) base (flat_map enc16 slots ++ rest) = Ok (present base i slots).
Proof. exact offset16_offsets_exact. Qed.
Print Assumptions C28_sixteen_bit_offsets_give_the_existing_entries.
Theorem C28_sparse_offsets_give_the_listed_entries : forall items fuel i base rest, Forall ok_sparse items -> (length items <= fuel)%nat ->
  read_offsets fuel 1 i (i + Z.of_nat (length items)) base (flat_map enc_sparse items ++ rest) = Ok (map (fun p => (snd p, base + fst p)) items).
Proof. exact sparse_offsets_exact. Qed.
Print Assumptions C28_sparse_offsets_give_the_listed_entries.

(* entry records at any position of any file *)
Theorem C28_plain_entry_is_read_as_stored : forall pre flags index ty data rest endp rid,
  0 <= flags < 65536 -> Z.land flags 1 = 0 -> Z.land flags 8 = 0 -> 0 <= index < 4294967296 -> 0 <= data < 4294967296 ->
  parse_entry (pre ++ b16 8 ++ b16 flags ++ b32 index ++ value_bytes ty data ++ rest) (len pre) endp rid =
  Ok {| e_id := rid; e_size := 8; e_flags := flags; e_index := index; e_payload := Plain ty data |}.
Proof. exact plain_entry_exact. Qed.
Theorem C28_compact_entry_is_read_as_stored : forall pre key ty data rest endp rid,
  0 <= key < 65536 -> 0 <= ty < 256 -> 0 <= data < 4294967296 ->
  parse_entry (pre ++ b16 key ++ b16 (8 + 256 * ty) ++ b32 data ++ rest) (len pre) endp rid =
  Ok {| e_id := rid; e_size := key; e_flags := 8 + 256 * ty; e_index := data; e_payload := Compact key data ty |}.
Proof. exact compact_entry_exact. Qed.
Print Assumptions C28_compact_entry_is_read_as_stored.

(* a complex entry (style, array, plurals ...: parent, count, then name / Res_value pairs) at any position of any file *)
Theorem C28_complex_entries_are_read_back : forall pre size flags index parent items rest endp rid,
  0 <= size < 65536 -> 0 <= flags < 65536 -> Z.land flags 1 = 1 -> 0 <= index < 4294967296 -> 0 <= parent < 4294967296 ->
  Forall wf_item items -> Z.of_nat (length items) < 4294967296 -> len pre + 16 + 12 * Z.of_nat (length items) <= endp ->
  parse_entry (pre ++ b16 size ++ b16 flags ++ b32 index ++ b32 parent ++ b32 (Z.of_nat (length items)) ++ flat_map item_bytes items ++ rest) (len pre) endp rid =
  Ok {| e_id := rid; e_size := size; e_flags := flags; e_index := index; e_payload := Complex parent (Z.of_nat (length items)) items |}.
Proof. exact complex_entry_exact. Qed.
Print Assumptions C28_complex_entries_are_read_back.

Example C28_nonvacuous :
  present 2130771968 0 [Some 0; None; Some 16] = [(0, 2130771968); (16, 2130771970)] /\
  read_offsets 3 2 0 3 2130771968 (flat_map enc16 [Some 0; None; Some 16]) = Ok [(0, 2130771968); (16, 2130771970)] /\
  Forall ok16 [Some 0; None; Some 16].
Proof. repeat split; try reflexivity. repeat constructor; cbn; try reflexivity; try discriminate. Qed.
