(* C28 - resource tables resolve to the values they contain.  Statements only; proofs in Axml/ArscTypeProofs.v.
   PARTIAL: the theorems cover the reading of one RES_TABLE_TYPE chunk - the entry-offset array in its three encodings and
   the plain and compact entry records.  The walk over the enclosing chunks and the listings built from the entries are
   checked by the oracle on generated tables; reference resolution is C29, locales are C30. *)
From Coq Require Import ZArith List Bool.
Require Import V.Lib.Val V.Lib.Result V.Lib.Struct V.Axml.PoolModel V.Axml.ArscTypeModel V.Axml.ArscTypeProofs V.Axml.ArscComplex V.Axml.PoolProofs V.Axml.ArscTypeChunk V.Axml.ArscTypeChunkEnc V.Axml.ArscTableModel V.Axml.ArscTableProofs V.Axml.ArscTablesMulti.
Require V.Axml.ArscTableModel.   (* the stream table-walk of tools/props/c28.py evaluates the model of the walk over the table *)
Import ListNotations.
Open Scope Z_scope.

(* whichever way the offsets are written, the entries that exist are found, each with its own index, and the holes are
   skipped: 32-bit offsets (0xffffffff = none), 16-bit offsets in units of four bytes (0xffff = none), sparse pairs *)
Theorem C28_dense_offsets_give_the_existing_entries : forall slots fuel i base rest, Forall ok32 slots -> (length slots <= fuel)%nat ->
  read_offsets fuel 0 i (i + Z.of_nat (length slots)) base (flat_map enc32 slots ++ rest) = Ok (present base i slots).
Proof. exact dense_offsets_exact. Qed.
Print Assumptions C28_dense_offsets_give_the_existing_entries.
Theorem C28_sixteen_bit_offsets_give_the_existing_entries : forall slots fuel i base rest, Forall ok16 slots -> (length slots <= fuel)%nat ->
  read_offsets fuel 2 i (i + Z.of_nat (length slots)) base (flat_map enc16 slots ++ rest) = Ok (present base i slots).
Proof. exact offset16_offsets_exact. Qed.
Print Assumptions C28_sixteen_bit_offsets_give_the_existing_entries.
Theorem C28_sparse_offsets_give_the_listed_entries : forall items fuel i base rest, Forall ok_sparse items -> (length items <= fuel)%nat ->
  read_offsets fuel 1 i (i + Z.of_nat (length items)) base (flat_map enc_sparse items ++ rest) = Ok (map (fun p => (snd p, base + fst p)) items).
Proof. exact sparse_offsets_exact. Qed.
Print Assumptions C28_sparse_offsets_give_the_listed_entries.

(* entry records at any position of any file *)
Theorem C28_plain_entry_is_read_as_stored : forall pre flags index ty data rest endp rid,
  0 <= flags < 65536 -> Z.land flags 1 = 0 -> Z.land flags 8 = 0 -> 0 <= index < 4294967296 -> 0 <= data < 4294967296 ->
  parse_entry (pre ++ b16 8 ++ b16 flags ++ b32 index ++ value_bytes ty data ++ rest) (len pre) endp rid =
  Ok {| e_id := rid; e_size := 8; e_flags := flags; e_index := index; e_payload := Plain ty data |}.
Proof. exact plain_entry_exact. Qed.
Theorem C28_compact_entry_is_read_as_stored : forall pre key ty data rest endp rid,
  0 <= key < 65536 -> 0 <= ty < 256 -> 0 <= data < 4294967296 ->
  parse_entry (pre ++ b16 key ++ b16 (8 + 256 * ty) ++ b32 data ++ rest) (len pre) endp rid =
  Ok {| e_id := rid; e_size := key; e_flags := 8 + 256 * ty; e_index := data; e_payload := Compact key data ty |}.
Proof. exact compact_entry_exact. Qed.
Print Assumptions C28_compact_entry_is_read_as_stored.

(* a complex entry (style, array, plurals ...: parent, count, then name / Res_value pairs) at any position of any file *)
Theorem C28_complex_entries_are_read_back : forall pre size flags index parent items rest endp rid,
  0 <= size < 65536 -> 0 <= flags < 65536 -> Z.land flags 1 = 1 -> 0 <= index < 4294967296 -> 0 <= parent < 4294967296 ->
  Forall wf_item items -> Z.of_nat (length items) < 4294967296 -> len pre + 16 + 12 * Z.of_nat (length items) <= endp ->
  parse_entry (pre ++ b16 size ++ b16 flags ++ b32 index ++ b32 parent ++ b32 (Z.of_nat (length items)) ++ flat_map item_bytes items ++ rest) (len pre) endp rid =
  Ok {| e_id := rid; e_size := size; e_flags := flags; e_index := index; e_payload := Complex parent (Z.of_nat (length items)) items |}.
Proof. exact complex_entry_exact. Qed.
Print Assumptions C28_complex_entries_are_read_back.

Example C28_nonvacuous :
  present 2130771968 0 [Some 0; None; Some 16] = [(0, 2130771968); (16, 2130771970)] /\
  read_offsets 3 2 0 3 2130771968 (flat_map enc16 [Some 0; None; Some 16]) = Ok [(0, 2130771968); (16, 2130771970)] /\
  Forall ok16 [Some 0; None; Some 16].
Proof. repeat split; try reflexivity. repeat constructor; cbn; try reflexivity; try discriminate. Qed.

(* ---- whole chunks, packages, tables ---- *)
(* a whole type chunk - header, configuration of 52 bytes or more, dense offset array, the records of the existing entries
   (plain, compact, complex) one after the other - standing anywhere in a file is read back as its id, its entry count and
   exactly its entries, each with the resource id package << 24 | type << 16 | index *)
Theorem C28_type_chunk_is_read_back : forall pre tid S tail slots rest pkg,
  52 <= S < 65516 -> len tail = S - 4 -> Forall wf_slot slots -> type_chunk_size (b32 S ++ tail) slots < 4294967295 ->
  parse_type_chunk (pre ++ type_chunk_bytes tid (b32 S ++ tail) slots ++ rest) (len pre) pkg =
  Ok {| t_id := tid; t_flags := 0; t_count := Z.of_nat (length slots); t_entries := expected (pkg * 16777216 + tid * 65536) 0 slots |}.
Proof. exact type_chunk_exact. Qed.
Print Assumptions C28_type_chunk_is_read_back.
(* the chunks of a package - any sequence of type specs and types - are walked in order and deliver exactly the types *)
Theorem C28_package_chunks_are_walked : forall tpool pkg cs pre rest acc fuel,
  Forall (wf_pchunk tpool) cs -> (length cs < fuel)%nat ->
  package_chunks fuel (pre ++ chunks_bytes cs ++ rest) tpool (len pre) (len pre + len (chunks_bytes cs)) pkg acc = Ok (acc ++ types_of pkg cs).
Proof. exact package_chunks_exact. Qed.
Print Assumptions C28_package_chunks_are_walked.
(* the whole file: table header, package count, main string pool, a package with its header, its type and key string pools
   (any strings, either encoding) and any sequence of type specs and types: parse_table returns that package, its name, and
   exactly the encoded types with exactly the encoded entries *)
Theorem C28_table_is_read_back : forall mu mss mpad d,
  wf_pkg d -> pool_bound mu mss -> 12 + pool_size mu mss mpad + pkg_size d < 4294967296 ->
  parse_table (table_bytes mu mss mpad d) =
  Ok [{| pk_id := d_id d; pk_name := name_units (d_name d); pk_types := types_of (d_id d mod 256) (d_chunks d) |}].
Proof. exact table_exact. Qed.
Print Assumptions C28_table_is_read_back.
Example C28_table_nonvacuous :
  wf_pkg ex_desc /\
  parse_table (table_bytes true [[104; 101; 108; 108; 111]] [0; 0] ex_desc) =
  Ok [{| pk_id := 127; pk_name := [97; 98];
         pk_types := [{| t_id := 1; t_flags := 0; t_count := 2;
                         t_entries := [{| e_id := 2130771968; e_size := 8; e_flags := 0; e_index := 0; e_payload := Plain 3 0 |}] |}] |}].
Proof. exact table_example. Qed.

(* ---- the three encodings of the offset array; any number of packages ---- *)
(* 16-bit offsets (FLAG_OFFSET16) and sparse type chunks (FLAG_SPARSE), anywhere in a file, are read back as exactly the
   entries of their slots *)
Theorem C28_type_chunk_with_16_bit_offsets_is_read_back : forall pre tid S tail slots rest pkg,
  52 <= S < 65516 -> len tail = S - 4 -> Forall wf_slot slots -> len (body_bytes slots) < 4 * 65535 -> 20 + S + 2 * Z.of_nat (length slots) + len (body_bytes slots) < 4294967295 ->
  parse_type_chunk (pre ++ type_chunk_bytes_gen tid 2 (Z.of_nat (length slots)) (b32 S ++ tail) (flat_map enc16 (slot_offsets 0 slots)) slots ++ rest) (len pre) pkg =
  Ok {| t_id := tid; t_flags := 2; t_count := Z.of_nat (length slots); t_entries := expected (pkg * 16777216 + tid * 65536) 0 slots |}.
Proof. exact type_chunk_offset16. Qed.
Print Assumptions C28_type_chunk_with_16_bit_offsets_is_read_back.
Theorem C28_sparse_type_chunk_is_read_back : forall pre tid S tail slots rest pkg,
  52 <= S < 65516 -> len tail = S - 4 -> Forall wf_slot slots -> len (body_bytes slots) < 4 * 65536 -> Z.of_nat (length slots) <= 65536 ->
  let items := sparse_items 0 0 slots in
  parse_type_chunk (pre ++ type_chunk_bytes_gen tid 1 (Z.of_nat (length items)) (b32 S ++ tail) (flat_map enc_sparse items) slots ++ rest) (len pre) pkg =
  Ok {| t_id := tid; t_flags := 1; t_count := Z.of_nat (length items); t_entries := expected (pkg * 16777216 + tid * 65536) 0 slots |}.
Proof. exact type_chunk_sparse. Qed.
Print Assumptions C28_sparse_type_chunk_is_read_back.
(* a table with ANY number of packages, each with any sequence of type specs and types in any of the three encodings: parse_table
   returns the packages in file order (packages of one name merged into one list, as ARSCParser keeps them) with exactly the
   encoded types and entries *)
Theorem C28_tables_are_read_back : forall mu mss mpad ds,
  Forall wf_pkg ds -> pool_bound mu mss -> 12 + pool_size mu mss mpad + len (pkgs_bytes ds) < 4294967296 ->
  parse_table (table_bytes_multi mu mss mpad ds) = Ok (collect ds []).
Proof. exact tables_exact. Qed.
Print Assumptions C28_tables_are_read_back.
Theorem C28_type_chunks_of_either_other_encoding_are_chunks_of_the_walk : forall tpool tid cz tail slots,
  52 <= cz < 65516 -> len tail = cz - 4 -> Forall wf_slot slots -> (exists s, get_string tpool (tid - 1) = Ok s) ->
  (len (body_bytes slots) < 4 * 65535 -> 20 + cz + 2 * Z.of_nat (length slots) + len (body_bytes slots) < 4294967295 ->
   wf_pchunk tpool (PTypeG tid 2 (Z.of_nat (length slots)) cz tail (flat_map enc16 (slot_offsets 0 slots)) slots)) /\
  (len (body_bytes slots) < 4 * 65536 -> Z.of_nat (length slots) <= 65536 ->
   wf_pchunk tpool (PTypeG tid 1 (Z.of_nat (length (sparse_items 0 0 slots))) cz tail (flat_map enc_sparse (sparse_items 0 0 slots)) slots)).
Proof. exact (fun tpool tid cz tail slots H1 H2 H3 H6 => conj (fun H4 H5 => wf_ptype_offset16 tpool tid cz tail slots H1 H2 H3 H4 H5 H6)
                                                              (fun H4 H5 => wf_ptype_sparse tpool tid cz tail slots H1 H2 H3 H4 H5 H6)). Qed.
