(* C13 - method cross-references are exact and symmetric.  Statements only; proofs in Analysis/XrefProofs.v. *)
From Coq Require Import ZArith List Bool Permutation.
Require Import V.Lib.Val V.Lib.Result V.Analysis.XrefModel V.Analysis.XrefProofs.
Import ListNotations.
Open Scope Z_scope.

(* exactness: a row (caller, callee, offset, external?) is reported iff the caller has, at that offset, an invoke on a
   class type or an array of a class type; the callee is (element class, name, descriptor) *)
Theorem C13_callees_are_exactly_the_invokes : forall p r,
  In r (calls p) <->
  exists d k m off op dims base name desc,
    In d p /\ In k d /\ In m (c_methods k) /\ In (off, XInvoke op dims base name desc) (m_code m) /\ 0 <= base /\
    r = [c_name k; m_name m; m_desc m; base; name; desc; off; if internal_method p (base, name, desc) then 0 else 1].
Proof. exact in_calls. Qed.
Print Assumptions C13_callees_are_exactly_the_invokes.

(* resolution: the callee is the analysed method iff some analysed class of that name defines (name, descriptor);
   otherwise it is the external stub keyed by the same triple (one row key, hence one stub) *)
Theorem C13_resolved_to_analysed_method_when_one_exists : forall p c n ds,
  internal_method p (c, n, ds) = true <->
  exists d k m, In d p /\ In k d /\ In m (c_methods k) /\ c_name k = c /\ m_name m = n /\ m_desc m = ds.
Proof. exact internal_method_spec. Qed.
Print Assumptions C13_resolved_to_analysed_method_when_one_exists.

(* symmetry: a row is in the caller's callee list iff it is in the callee's caller list; both are parts of calls *)
Theorem C13_callee_and_caller_lists_mirror : forall p a b c d e f off x,
  In [a; b; c; d; e; f; off; x] (callees_of p (a, b, c)) <-> In [a; b; c; d; e; f; off; x] (callers_of p (d, e, f)).
Proof. exact calls_mirror. Qed.
Print Assumptions C13_callee_and_caller_lists_mirror.
Theorem C13_callee_list_holds_only_calls : forall p key r, In r (callees_of p key) -> In r (calls p).
Proof. exact callees_of_sound. Qed.
Theorem C13_caller_list_holds_only_calls : forall p key r, In r (callers_of p key) -> In r (calls p).
Proof. exact callers_of_sound. Qed.

(* call graph: an edge exactly where a callee is reported *)
Theorem C13_call_graph_edge_iff_callee : forall p a b c d e f,
  In [a; b; c; d; e; f] (call_edges p) <-> exists off x, In [a; b; c; d; e; f; off; x] (calls p).
Proof. exact in_call_edges. Qed.
Print Assumptions C13_call_graph_edge_iff_callee.
Theorem C13_call_graph_edges_are_pairs : forall p r, In r (call_edges p) -> exists a b c d e f, r = [a; b; c; d; e; f].
Proof. exact call_edges_shape. Qed.

Example C13_nonvacuous :
  let m := {| m_name := 7; m_desc := 8; m_code := [(0, XInvoke 110 0 1 7 8); (6, XInvoke 113 1 3 9 8); (12, XInvoke 113 1 (-1) 9 8)] |} in
  let p := [[{| c_name := 1; c_methods := [m]; c_fields := [] |}]] in
  calls p = [[1; 7; 8; 1; 7; 8; 0; 0]; [1; 7; 8; 3; 9; 8; 6; 1]] /\ call_edges p = [[1; 7; 8; 1; 7; 8]; [1; 7; 8; 3; 9; 8]].
Proof. split; reflexivity. Qed.
