(* C39 - API-level resources follow the documented fallback rule.  Property theorems only.
   [levels] is the set of N for which permissions_N.json exists; a load is observed as the level
   whose file is opened.  [chosen levels api l]: l is available; it is api when api is available;
   otherwise the highest available level below api when there is one, else the lowest available. *)
From Coq Require Import ZArith List.
Require Import V.Lib.Result V.Conf.ApiLevelModel V.Conf.ApiLevelProofs.
Import ListNotations.
Open Scope Z_scope.

Theorem C39_load_permissions : forall f levels api, levels <> [] ->
  exists l, load_perm (S (S f)) levels api = Ok (Some l) /\ chosen levels api l.
Proof. exact load_perm_spec. Qed.
Print Assumptions C39_load_permissions.

(* the rule determines the level: no other answer satisfies it *)
Theorem C39_rule_is_deterministic : forall levels api l1 l2,
  chosen levels api l1 -> chosen levels api l2 -> l1 = l2.
Proof. exact chosen_unique. Qed.
Print Assumptions C39_rule_is_deterministic.

(* through load_api_specific_resource_module: an explicit level, given as int or str (0 included),
   is the level requested; None and '' stand for the default level *)
Theorem C39_module_permissions : forall f levels default a, levels <> [] ->
  exists l, load_module (load_perm (S (S f)) levels) default a = Ok (Some l) /\
            chosen levels (if not_given a then default else arg_value default a) l.
Proof. exact module_perm_spec. Qed.
Print Assumptions C39_module_permissions.

(* permission mappings: the requested level if its file exists, the default level otherwise *)
Theorem C39_module_mappings : forall mlevels default a, In default mlevels ->
  let api := if not_given a then default else arg_value default a in
  load_module (load_map mlevels) default a = Ok (Some (if has mlevels api then api else default)).
Proof. exact module_map_spec. Qed.
Print Assumptions C39_module_mappings.

Example C39_nonvacuous :
  let levels := [10; 13; 4; 5; 36; 7] in
  load_perm FUEL levels 8 = Ok (Some 7) /\ load_perm FUEL levels 100 = Ok (Some 36) /\
  load_perm FUEL levels (-5) = Ok (Some 4) /\ load_perm FUEL levels 13 = Ok (Some 13) /\
  load_module (load_perm FUEL levels) 16 (AInt 0) = Ok (Some 4) /\
  load_module (load_perm FUEL levels) 16 ANone = Ok (Some 13) /\
  load_module (load_map [16; 17; 25]) 16 (AStr 23) = Ok (Some 16) /\
  load_module (load_map [16; 17; 25]) 16 (AInt 25) = Ok (Some 25).
Proof. vm_compute. repeat split; reflexivity. Qed.
