(* C14 - field cross-references are recorded on the field that is accessed.  Statements only. *)
From Coq Require Import ZArith List Bool Permutation.
Require Import V.Lib.Val V.Lib.Result V.Analysis.XrefModel V.Analysis.XrefProofs.
Import ListNotations.
Open Scope Z_scope.

(* the full statement: every access to a field defined in some analysed DEX is listed on the FieldAnalysis held by the
   field's own class, and each field has FieldAnalysis objects only there.  It is FALSE of the model (and of the code:
   known finding KF-C14-cross-class); the witnesses are evaluated by the kernel. *)
Theorem C14_full_statement_refuted : ~ field_xrefs_on_owner w_same_dex /\ ~ one_object_per_field w_same_dex.
Proof. exact (conj field_xrefs_on_owner_refuted one_object_per_field_refuted). Qed.
Print Assumptions C14_full_statement_refuted.
Theorem C14_cross_dex_access_dropped : field_refs w_two_dex = [] /\ field_defined (concat w_two_dex) 1 5 6 = true.
Proof. exact cross_dex_access_dropped. Qed.

(* what is listed: exactly the field instructions whose field is defined in the DEX of the instruction, under the
   accessing class, as a read for iget*/sget* and a write otherwise *)
Theorem C14_listed_accesses_exact_partial : forall p r,
  In r (field_refs p) <->
  exists d k m off op cls name typ, In d p /\ In k d /\ In m (c_methods k) /\ In (off, XField op cls name typ) (m_code m) /\
    field_defined d cls name typ = true /\
    r = [if is_read op then 0 else 1; c_name k; cls; name; typ; m_name m; m_desc m; off].
Proof. exact in_field_refs. Qed.
Print Assumptions C14_listed_accesses_exact_partial.

(* the part of the statement that holds: accesses from inside the defining class *)
Theorem C14_own_class_access_listed_partial : forall p d k m off op name typ,
  In d p -> In k d -> In m (c_methods k) -> In (off, XField op (c_name k) name typ) (m_code m) -> In (name, typ) (c_fields k) ->
  In [if is_read op then 0 else 1; c_name k; c_name k; name; typ; m_name m; m_desc m; off] (field_refs p).
Proof. exact own_class_access_listed. Qed.
Print Assumptions C14_own_class_access_listed_partial.
Theorem C14_one_object_per_field_partial : forall p,
  (forall d k m off op cls name typ, In d p -> In k d -> In m (c_methods k) -> In (off, XField op cls name typ) (m_code m) ->
     field_defined d cls name typ = true -> cls = c_name k) ->
  forall holder cls name typ, In [holder; cls; name; typ] (field_objects p) -> holder = cls.
Proof. exact one_object_per_field_partial. Qed.
Print Assumptions C14_one_object_per_field_partial.
Theorem C14_field_objects_exact : forall p r,
  In r (field_objects p) <->
  (exists d k name typ, In d p /\ In k d /\ In (name, typ) (c_fields k) /\ r = [c_name k; c_name k; name; typ]) \/
  (exists rw holder cls name typ mn md off, In [rw; holder; cls; name; typ; mn; md; off] (field_refs p) /\ r = [holder; cls; name; typ]).
Proof. exact in_field_objects. Qed.

Example C14_nonvacuous :
  let m := {| m_name := 7; m_desc := 8; m_code := [(0, XField 82 1 5 6); (4, XField 89 1 5 6); (8, XField 96 1 5 9)] |} in
  let p := [[{| c_name := 1; c_methods := [m]; c_fields := [(5, 6)] |}]] in
  field_refs p = [[0; 1; 1; 5; 6; 7; 8; 0]; [1; 1; 1; 5; 6; 7; 8; 4]].
Proof. reflexivity. Qed.
