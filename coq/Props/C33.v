(* C33 - APK Signing Block contents are reported as encoded.  Statements only; proofs in Apk/SigBlockProofs.v.
   The search for the block (end of central directory, central directory, magic, the two size fields: locate) is part
   of the model and of the correspondence check, not of these theorems. *)
From Coq Require Import ZArith List Bool Lia ZifyBool.
Require Import V.Lib.Val V.Lib.Result V.Apk.SigBlockModel V.Apk.SigBlockProofs V.Apk.SigBlockLocate.
Import ListNotations.
Open Scope Z_scope.

(* the id-value pairs: any pairs (any ids, any values, repeated ids), followed by anything, are read back in order,
   each flagged iff its id occurred earlier *)
Theorem C33_pairs_are_read_back : forall kvs fuel rest, Forall wf_kv kvs -> (length kvs <= fuel)%nat ->
  parse_pairs fuel (len (flat_map kv_bytes kvs)) (flat_map kv_bytes kvs ++ rest) [] = Ok (tag [] kvs).
Proof. exact (fun kvs fuel rest => parse_pairs_enc kvs fuel [] rest). Qed.
Print Assumptions C33_pairs_are_read_back.

(* the presence flag of an id is true exactly when a pair with that id is present, and the block that is parsed for it
   is the value of the FIRST pair with that id *)
Theorem C33_flag_iff_present_and_first_block_is_used : forall kvs id,
  has_id (tag [] kvs) id = existsb (fun p : kv => fst p =? id) kvs /\
  first_with (tag [] kvs) id = option_map snd (find (fun p : kv => fst p =? id) kvs).
Proof. exact flags_and_selection. Qed.
Print Assumptions C33_flag_iff_present_and_first_block_is_used.

(* has_duplicate_apk_signature_ids is false exactly when all ids are different *)
Theorem C33_duplicate_ids_are_flagged : forall kvs, existsb p_dup (tag [] kvs) = false <-> NoDup (map fst kvs).
Proof. exact duplicates_flagged. Qed.
Print Assumptions C33_duplicate_ids_are_flagged.

(* a v2 (v3 = false) or v3 / v3.1 (v3 = true) block: any signers - any digests, certificates, SDK bounds, attributes,
   signatures and public key, all lengths below 2^32 - are reported exactly as encoded *)
Theorem C33_signers_are_reported_as_encoded : forall v3 gs,
  Forall (wf_signer v3) gs -> fits32 (len (flat_map (signer_bytes v3) gs)) ->
  parse_block v3 (block_bytes v3 gs) = Ok (map (signer_val v3) gs).
Proof. exact parse_block_enc. Qed.
Print Assumptions C33_signers_are_reported_as_encoded.

(* the search: for every file  prefix ++ signing block ++ central directory ++ end-of-central-directory record  (any pairs, any
   prefix and central directory, any comment) in which no later position looks like an end record, the block is found through
   the end record, the central directory offset, the magic and the two size fields, and its pairs are the ones encoded *)
Theorem C33_block_is_located : forall pre kvs cdrest e0 e1 e2 e3 e4 e5 e6 e7 cdsize comment_part,
  let B := sig_block kvs in let off := len pre + len B in
  let file := pre ++ B ++ (PK_CD ++ cdrest) ++ eocd [e0; e1; e2; e3; e4; e5; e6; e7] cdsize off comment_part in
  Forall wf_kv kvs -> len (flat_map kv_bytes kvs) + 24 < 18446744073709551616 -> off < 4294967296 -> 0 <= cdsize < 4294967296 -> 2 <= len comment_part ->
  (forall q, len pre + len B + len (PK_CD ++ cdrest) < q <= len file - 22 -> bytes_eqb (slice file q 4) PK_EOCD = false) ->
  locate file = Ok (Pairs (tag [] kvs)).
Proof. exact locate_finds_the_block. Qed.
Print Assumptions C33_block_is_located.
Example C33_locate_nonvacuous :
  let kvs := [(ID_V2, [1; 2; 3]); (7, [])] in
  locate ([9; 9; 9] ++ sig_block kvs ++ (PK_CD ++ [5; 5]) ++ eocd [0; 0; 0; 0; 1; 0; 1; 0] 6 (3 + len (sig_block kvs)) [0; 0]) = Ok (Pairs (tag [] kvs)).
Proof. vm_compute. reflexivity. Qed.

Example C33_nonvacuous :
  let g := {| ge_skip := 77; ge_digests := [{| se_skip := 9; se_alg := 259; se_data := [1; 2] |}]; ge_certs := [[5; 6; 7]; []];
              ge_sd_sdk := (24, 30); ge_attrs := [8]; ge_sdk := (24, 30); ge_sigs := []; ge_pk := [9; 9] |} in
  let kvs := [(ID_V31, block_bytes true [g]); (7, [1]); (ID_V31, [])] in
  wf_signer true g /\ Forall wf_kv kvs /\
  has_id (tag [] kvs) ID_V3 = false /\ has_id (tag [] kvs) ID_V31 = true /\ existsb p_dup (tag [] kvs) = true /\
  option_map (parse_block true) (first_with (tag [] kvs) ID_V31) = Some (Ok [signer_val true g]).
Proof.
  cbv zeta.
  assert (F : forall x, (0 <=? x) && (x <? 4294967296) = true -> fits32 x) by (unfold fits32; intros x H; lia).
  split; [|split; [|repeat split; vm_compute; reflexivity]].
  - unfold wf_signer. cbn [ge_skip ge_digests ge_certs ge_sd_sdk ge_attrs ge_sdk ge_sigs ge_pk fst snd].
    repeat split; try (apply F; vm_compute; reflexivity); repeat constructor; try (apply F; vm_compute; reflexivity).
  - repeat constructor; cbn [fst snd]; try (apply F; vm_compute; reflexivity); vm_compute; reflexivity.
Qed.
