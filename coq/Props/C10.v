(* C10 - basic blocks partition each method at every control-flow boundary.  Property theorems only.
   A method is the list insl of its instructions (byte length, kind); code = with_off 0 insl pairs each with its offset;
   excs is the try table as determineException delivers it.  chain s bs e: the blocks bs are non-empty, each is a
   contiguous run of instructions starting at its b_start, the first starts at s, each next one where the previous ends,
   the last ends at e.  determine_next is determineNext; is_branch: the opcode is in BasicOPCODES. *)
From Coq Require Import ZArith List.
Require Import V.Analysis.CfgModel V.Analysis.CfgProofs.
Import ListNotations.
Open Scope Z_scope.

(* contiguous, non-overlapping, covering every instruction exactly once, in order *)
Theorem C10_blocks_partition_the_method : forall insl excs,
  let code := with_off 0 insl in
  chain 0 (blocks_of code excs) (code_len code) /\ concat (map b_ins (blocks_of code excs)) = code.
Proof. exact blocks_partition. Qed.
Print Assumptions C10_blocks_partition_the_method.

(* every branch target, instruction after a conditional or switch, and switch case target that is an instruction begins a block *)
Theorem C10_branch_targets_begin_blocks : forall insl excs o i v j,
  let code := with_off 0 insl in
  In (o, i) code -> is_branch (ikind i) = true -> In v (determine_next code o i) -> In (v, j) code ->
  exists b, In b (blocks_of code excs) /\ b_start b = v /\ hd_error (b_ins b) = Some (v, j).
Proof. exact branch_targets_begin_blocks. Qed.
Print Assumptions C10_branch_targets_begin_blocks.

(* every try start and handler address that is an instruction begins a block *)
Theorem C10_try_addresses_begin_blocks : forall insl excs e v j,
  let code := with_off 0 insl in
  In e excs -> (v = e_start e \/ In v (map snd (e_handlers e))) -> In (v, j) code ->
  exists b, In b (blocks_of code excs) /\ b_start b = v /\ hd_error (b_ins b) = Some (v, j).
Proof. exact try_addresses_begin_blocks. Qed.
Print Assumptions C10_try_addresses_begin_blocks.

(* only the last instruction of a block can branch, switch, return or throw *)
Theorem C10_only_the_last_instruction_branches : forall code excs b q,
  In b (blocks_of code excs) -> In q (removelast (b_ins b)) -> is_branch (ikind (snd q)) = true -> In q code -> False.
Proof. exact blocks_branch_last. Qed.
Print Assumptions C10_only_the_last_instruction_branches.

(* if-eqz +3 ; nop ; goto -2 ; return-void   with a try over the nop whose handler is the return *)
Example C10_nonvacuous :
  let insl := [{| ilen := 4; ikind := KIf 3 |}; {| ilen := 2; ikind := KPlain |}; {| ilen := 2; ikind := KGoto (-2) |};
               {| ilen := 2; ikind := KExit |}] in
  map (fun b => (b_start b, b_end b)) (blocks_of (with_off 0 insl) [{| e_start := 4; e_end := 5; e_handlers := [(1, 8)] |}])
  = [(0, 4); (4, 6); (6, 8); (8, 10)].
Proof. vm_compute. reflexivity. Qed.
