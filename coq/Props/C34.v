(* C34 - APK file access returns the archive's entries.  Property theorems only.
   An archive is the list of (entry name, uncompressed content) the zip reader delivers, in order.
   is_dex_name n: n = "classes" ++ ds ++ ".dex" for a (possibly empty) list ds of ASCII digits. *)
From Coq Require Import ZArith List.
Require Import V.Lib.Result V.Apk.FilesModel V.Apk.FilesProofs.
Import ListNotations.
Open Scope Z_scope.

Theorem C34_listed_names_are_the_entries : forall a : archive, get_files a = map fst a.
Proof. reflexivity. Qed.
Print Assumptions C34_listed_names_are_the_entries.

Theorem C34_get_file_present : forall a n c, NoDup (map fst a) -> In (n, c) a -> get_file a n = Ok c.
Proof. exact get_file_present. Qed.
Print Assumptions C34_get_file_present.

Theorem C34_get_file_missing : forall a n, ~ In n (map fst a) -> get_file a n = Err FileNotPresent.
Proof. exact get_file_missing. Qed.
Print Assumptions C34_get_file_missing.

(* the DEX listing: exactly the entries named classes<ASCII digits>.dex, nothing before or after *)
Theorem C34_dex_names_exact : forall a n, In n (get_dex_names a) <-> In n (get_files a) /\ is_dex_name n.
Proof. exact get_dex_names_spec. Qed.
Print Assumptions C34_dex_names_exact.

Theorem C34_dex_name_pattern : forall n, dex_match n = true <-> is_dex_name n.
Proof. exact dex_match_spec. Qed.
Print Assumptions C34_dex_name_pattern.

Theorem C34_all_dex_contents : forall a, NoDup (map fst a) ->
  get_all_dex a = map (fun e => Ok (snd e)) (filter (fun e => dex_match (fst e)) a).
Proof. exact get_all_dex_spec. Qed.
Print Assumptions C34_all_dex_contents.

(* the two patterns (listing and multidex test) accept the same names, so: *)
Theorem C34_multidex_iff_two : forall a, is_multidex a = true <-> (2 <= length (get_dex_names a))%nat.
Proof. exact is_multidex_spec. Qed.
Print Assumptions C34_multidex_iff_two.

(* classes.dex, assets/classes2.dex, classes2xdex, classes12.dex *)
Example C34_nonvacuous :
  let a := [(S_CLASSES ++ S_DOTDEX, [1]); ([97; 47] ++ S_CLASSES ++ [50] ++ S_DOTDEX, [2]);
            (S_CLASSES ++ [50; 120; 100; 101; 120], [3]); (S_CLASSES ++ [49; 50] ++ S_DOTDEX, [4])] in
  NoDup (map fst a) /\ get_dex_names a = [S_CLASSES ++ S_DOTDEX; S_CLASSES ++ [49; 50] ++ S_DOTDEX] /\
  is_multidex a = true /\ get_all_dex a = [Ok [1]; Ok [4]].
Proof.
  split; [|vm_compute; repeat split; reflexivity].
  repeat constructor; simpl; intuition discriminate.
Qed.
