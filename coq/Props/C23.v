(* C23 - Java string literals denote exactly the original string.  Property theorems only.
   jstring is the model of writer.string(); java_lex is Java's reading of a source text that
   is one string literal (JLS 3.3 then 3.10.5); to_utf16 is the UTF-16 encoding of a str. *)
From Coq Require Import ZArith List.
Require Import V.Dad.JavaLex V.Dad.JStringModel V.Dad.JStringProofs.
Import ListNotations.
Open Scope Z_scope.

(* every str (code points 0..0x10FFFF, unpaired surrogates included) *)
Theorem C23_literal_denotes_string : forall s, Forall (fun c => 0 <= c < 1114112) s ->
  java_lex (jstring s) = Some (to_utf16 s).
Proof. exact jstring_denotes. Qed.
Print Assumptions C23_literal_denotes_string.

(* the literal consists of printable ASCII only: no source-file encoding can change its meaning *)
Theorem C23_literal_is_ascii : forall s, Forall (fun c => 0 <= c < 1114112) s ->
  forallb (fun c => (32 <=? c) && (c <? 127))%bool (jstring s) = true.
Proof. exact jstring_ascii. Qed.
Print Assumptions C23_literal_is_ascii.

(* supplementary characters are denoted by their surrogate pair *)
Theorem C23_supplementary_units : forall c, 65536 <= c < 1114112 ->
  exists hi lo, to_utf16 [c] = [hi; lo] /\ 55296 <= hi < 56320 /\ 56320 <= lo < 57344 /\
                c = 65536 + (hi - 55296) * 1024 + (lo - 56320).
Proof. exact supp_units. Qed.
Print Assumptions C23_supplementary_units.

(* h, quote, backslash, the six characters of an escape as text, newline, e-acute, NUL, U+1F600, a lone surrogate, U+FFFF *)
Example C23_nonvacuous :
  java_lex (jstring [104; 34; 92; 92; 117; 48; 48; 52; 49; 10; 233; 0; 128512; 55357; 65535])
  = Some [104; 34; 92; 92; 117; 48; 48; 52; 49; 10; 233; 0; 55357; 56832; 55357; 65535] /\
  jstring [97; 128512; 39] = [34; 97; 92; 117; 100; 56; 51; 100; 92; 117; 100; 101; 48; 48; 92; 39; 34] /\
  java_lex [34; 92; 51; 55; 55; 92; 49; 56; 34] = Some [255; 1; 56] /\
  java_lex [34; 92; 117; 48; 48; 48; 97; 34] = None.
Proof. vm_compute. repeat split; reflexivity. Qed.
