(* C06 - DEX strings decode to exactly the UTF-16 text their MUTF-8 bytes encode.  Statements only;
   proofs in Dex/StringsProofs.v. *)
From Coq Require Import ZArith List Bool Lia.
Require Import V.Lib.Val V.Lib.Result V.Dex.StringsModel V.Dex.StringsProofs.
Import ListNotations.
Open Scope Z_scope.

(* the chunked stream reader: bytes up to the first NUL, position just after it; failure when there is none *)
Theorem C06_reader_returns_the_bytes_before_the_first_nul : forall rest pos,
  read_nts rest pos =
  if has0 rest then Ok (before0 rest, pos + Z.of_nat (length (before0 rest)) + 1) else Err ValueError.
Proof. exact read_nts_spec. Qed.
Print Assumptions C06_reader_returns_the_bytes_before_the_first_nul.
Theorem C06_reader_result_is_the_prefix_before_a_nul : forall z, has0 z = true ->
  z = before0 z ++ 0 :: after0 z /\ has0 (before0 z) = false.
Proof. exact (fun z H => conj (split0 z H) (before0_no0 z)). Qed.

(* the decoder on the MUTF-8 form of ANY sequence of UTF-16 code units: the str whose UTF-16 form is that sequence.
   enc_unit is the DEX format's encoding (U+0000 as c0 80, one to three bytes per unit, surrogates as units) *)
Theorem C06_decoded_text_is_the_encoded_code_units : forall us, Forall u16 us ->
  decode (encode_units us) = Ok (join_pairs us) /\ to_utf16 (join_pairs us) = us.
Proof. exact (fun us H => conj (decode_encode us H) (to_utf16_join us H)). Qed.
Print Assumptions C06_decoded_text_is_the_encoded_code_units.

(* the pool: any strings, laid out as a string_data section anywhere in any file; every parsed item and every
   get_raw_string of an id that points at an item is the text of that string *)
Theorem C06_pool_strings_are_the_encoded_texts : forall l pre post ids idx k it,
  Forall ok_item l -> nth_error l k = Some it ->
  exists items item,
    read_items (length l) (skipn (length pre) (pre ++ section l ++ post)) (Z.of_nat (length pre)) = Ok items /\
    length items = length l /\
    nth_error items k = Some item /\ s_size item = uleb_value (fst it) /\
    item_text item = Ok (join_pairs (snd it)) /\ to_utf16 (join_pairs (snd it)) = snd it /\
    (nth_error ids idx = Some (s_off item) -> get_raw_string ids items idx = Ok (join_pairs (snd it))).
Proof. exact pool_strings_exact. Qed.
Print Assumptions C06_pool_strings_are_the_encoded_texts.

Example C06_nonvacuous :
  let us := [65279; 55357; 56832; 0; 55296; 56320; 56320; 233] in
  let l := [([8], us); ([128; 1], [97])] in
  Forall ok_item l /\ join_pairs us = [65279; 128512; 0; 65536; 56320; 233] /\
  obs_pool (([1; 2] ++ section l ++ [9], (2, 2)), [2; 26]) =
    VList [VList [VList [VZ 2; VZ 8; vlistZ [65279; 128512; 0; 65536; 56320; 233]]; VList [VZ 26; VZ 128; vlistZ [97]]];
           VList [vlistZ [65279; 128512; 0; 65536; 56320; 233]; vlistZ [97]]].
Proof.
  cbv zeta. split; [|split; vm_compute; reflexivity].
  repeat (apply Forall_cons || apply Forall_nil || (split; [reflexivity|])); cbn [snd];
    repeat (apply Forall_cons || apply Forall_nil); unfold u16; lia.
Qed.
