(* C07 - entry points of the correspondence check that use the translated table *)
From Coq Require Import ZArith List.
Require Import V.Lib.Val V.Lib.Result V.Dex.MapOrderModel V.gen.Gen_MapDeps.
Import ListNotations.
Open Scope Z_scope.
(* None = the table of the source; Some t = a table given by the harness *)
Definition obs_order_opt (t : option table) : val := obs_order (match t with Some t => t | None => dep_table end).
Definition obs_parse_orders (ls : list (list Z)) : val := VList (map (fun l => obs_parse_order (dep_table, l)) ls).
