(* C07 - hand-written model of TypeMapItem.determine_load_order (dex_types.py) and of the ordering step of
   MapList.__init__ (sorted(map_item, key = load_order[type]), then parse in that order; get_item_type scans the
   list in file order).  The dependency table itself is translated from the source (coq/gen/Gen_MapDeps.v).
   Tied to the source by tools/props/c07.py. *)
From Coq Require Import ZArith List Bool.
Require Import V.Lib.Val V.Lib.Result.
Import ListNotations.
Open Scope Z_scope.

Definition table := list (Z * list Z).          (* an OrderedDict type -> set of types, keys distinct *)

(* for type_name, unloaded in dependencies.items(): if not unloaded: ... break *)
Fixpoint first_ready (t : table) : option Z :=
  match t with
  | [] => None
  | (k, ds) :: r => match ds with [] => Some k | _ => first_ready r end
  end.
Definition pop_key (k : Z) (t : table) : table := filter (fun e => negb (fst e =? k)) t.
Definition discard (k : Z) (t : table) : table := map (fun e => (fst e, filter (fun d => negb (d =? k)) (snd e))) t.
Fixpoint order_loop (fuel : nat) (t : table) (acc : list Z) : result (list Z) :=
  match t with
  | [] => Ok (rev acc)
  | _ => match fuel with
         | O => Err OutOfFuel
         | S f => match first_ready t with
                  | None => Err OtherError                   (* Exception('recursive loading dependency') *)
                  | Some k => order_loop f (discard k (pop_key k t)) (k :: acc)
                  end
         end
  end.
(* the types in loading order; load_order[type] is the position in this list *)
Definition determine_load_order (t : table) : result (list Z) := order_loop (length t) t [].

Fixpoint index_of (x : Z) (l : list Z) : option Z :=
  match l with [] => None | y :: r => if x =? y then Some 0 else option_map Z.succ (index_of x r) end.

(* sorted(items, key): stable; items are (type, payload) *)
Section Sort.
  Variable A : Type.
  Variable key : A -> Z.
  Fixpoint insert (x : A) (l : list A) : list A :=
    match l with
    | [] => [x]
    | y :: r => if key x <=? key y then x :: l else y :: insert x r
    end.
  Definition isort (l : list A) : list A := fold_right insert [] l.
End Sort.
Arguments insert {A}. Arguments isort {A}.

(* MapList.__init__ after reading the entries: KeyError for a type the table does not know *)
Definition map_item := (Z * Z)%type.             (* (type, position in the file's map list or any payload) *)
Definition rank (order : list Z) (mi : map_item) : Z := match index_of (fst mi) order with Some i => i | None => -1 end.
Definition parse_order (order : list Z) (items : list map_item) : result (list map_item) :=
  if forallb (fun mi => match index_of (fst mi) order with Some _ => true | None => false end) items
  then Ok (isort (rank order) items) else Err KeyError.
(* get_item_type: first entry of that type in FILE order *)
Definition get_item_type (items : list map_item) (ty : Z) : option map_item := find (fun mi => fst mi =? ty) items.

Definition obs_order (t : table) : val := vres vlistZ (determine_load_order t).
Definition obs_parse_order (x : table * list Z) : val :=
  let '(t, types) := x in
  match determine_load_order t with
  | Err e => VErr (err_code e)
  | Ok order => vres (fun l => vlistZ (map fst l)) (parse_order order (combine types (map Z.of_nat (seq 0 (length types)))))
  end.
