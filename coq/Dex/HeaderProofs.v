(* C09 - proofs about the header model and Adler-32. *)
From Coq Require Import ZArith List Bool Lia.
Require Import V.Lib.Val V.Lib.Result V.Dex.HeaderModel.
Import ListNotations.
Open Scope Z_scope.
Ltac Zify.zify_post_hook ::= Z.to_euclidean_division_equations.

Definition sumz (l : list Z) : Z := fold_right Z.add 0 l.

(* ---- Adler-32: the low half is 1 + the byte sum, modulo 65521 ---- *)
Lemma adler_fst : forall l a b, fst (fold_left adler_step l (a, b)) = (a + sumz l) mod 65521 \/ l = [] .
Proof.
  induction l as [|d l IH]; intros a b; [right; reflexivity|]. left.
  change (fold_left adler_step (d :: l) (a, b))
    with (fold_left adler_step l ((a + d) mod 65521, (b + (a + d) mod 65521) mod 65521)).
  change (sumz (d :: l)) with (d + sumz l).
  destruct (IH ((a + d) mod 65521) ((b + (a + d) mod 65521) mod 65521)) as [E| ->].
  - rewrite E. rewrite Zplus_mod_idemp_l. f_equal. lia.
  - change (sumz []) with 0. cbn [fold_left fst]. rewrite Z.add_0_r. reflexivity.
Qed.
Lemma adler_low l : fst (adler_state l) = (1 + sumz l) mod 65521.
Proof.
  unfold adler_state. destruct (adler_fst l 1 0) as [E| ->]; [exact E|]. reflexivity.
Qed.
Lemma adler_snd_range : forall l a b, 0 <= b < 65521 -> 0 <= snd (fold_left adler_step l (a, b)) < 65521.
Proof.
  induction l as [|d l IH]; intros a b Hb; [exact Hb|]. cbn [fold_left adler_step fst snd].
  apply IH. apply Z.mod_pos_bound. lia.
Qed.
Lemma adler32_low l1 l2 : adler32 l1 = adler32 l2 -> (1 + sumz l1) mod 65521 = (1 + sumz l2) mod 65521.
Proof.
  intros E. rewrite <- !adler_low. unfold adler32 in E.
  pose proof (adler_low l1) as A1. pose proof (adler_low l2) as A2.
  destruct (adler_state l1) as [a1 b1]. destruct (adler_state l2) as [a2 b2]. cbn [fst] in *.
  assert (0 <= a1 < 65521) by (rewrite A1; apply Z.mod_pos_bound; lia).
  assert (0 <= a2 < 65521) by (rewrite A2; apply Z.mod_pos_bound; lia).
  lia.
Qed.

Lemma upd_length : forall l i v, length (upd i v l) = length l.
Proof. induction l as [|x l IH]; intros [|i] v; simpl; auto. Qed.
Lemma nth_upd_same : forall l i v, (i < length l)%nat -> nth i (upd i v l) 0 = v.
Proof.
  induction l as [|x l IH]; intros i v H; [simpl in H; lia|].
  destruct i as [|i]; [reflexivity|]. simpl. apply IH. simpl in H. lia.
Qed.
Lemma nth_upd_other : forall l i j v, i <> j -> nth j (upd i v l) 0 = nth j l 0.
Proof.
  induction l as [|x l IH]; intros i j v H; [destruct i, j; reflexivity|].
  destruct i as [|i], j as [|j]; simpl; try reflexivity; try congruence. apply IH. congruence.
Qed.
Lemma sumz_upd : forall l i v, (i < length l)%nat -> sumz (upd i v l) = sumz l - nth i l 0 + v.
Proof.
  induction l as [|x l IH]; intros i v H; [simpl in H; lia|].
  destruct i as [|i]; cbn [upd sumz fold_right nth]; [lia|]. fold (sumz l). fold (sumz (upd i v l)).
  rewrite IH by (simpl in H; lia). lia.
Qed.
Lemma upd_nil i v : upd i v [] = [].
Proof. destruct i; reflexivity. Qed.
Lemma skipn_upd : forall k l i v, (k <= i)%nat -> skipn k (upd i v l) = upd (i - k) v (skipn k l).
Proof.
  induction k as [|k IH]; intros l i v H; [rewrite Nat.sub_0_r; reflexivity|].
  destruct l as [|x l]; [rewrite upd_nil; cbn [skipn]; rewrite upd_nil; reflexivity|].
  destruct i as [|i]; [lia|]. simpl. apply IH. lia.
Qed.
Lemma nth_skipn : forall k (l : list Z) i, nth i (skipn k l) 0 = nth (k + i) l 0.
Proof.
  induction k as [|k IH]; intros l i; [reflexivity|]. destruct l as [|x l]; [destruct i; reflexivity|]. simpl. apply IH.
Qed.

Theorem adler_single_byte l i v : (i < length l)%nat -> is_byte (nth i l 0) -> is_byte v ->
  v <> nth i l 0 -> adler32 (upd i v l) <> adler32 l.
Proof.
  intros Hi Hb Hv Hne E. apply adler32_low in E. rewrite sumz_upd in E by exact Hi.
  unfold is_byte in *. lia.
Qed.

(* ---- the header ---- *)
Definition magic_ok (bs : list Z) : bool :=
  (byte_at bs 0 =? 100) && (byte_at bs 1 =? 101) && ((byte_at bs 2 =? 120) || (byte_at bs 2 =? 121))
  && (byte_at bs 3 =? 10) && (byte_at bs 7 =? 0).

Theorem header_ok_iff bs : header_check bs = Ok tt <->
  (112 <= length bs)%nat /\ le32 bs 40 = 305419896 /\ magic_ok bs = true /\
  adler32 (skipn 12 bs) = le32 bs 8 /\ le32 bs 36 = 112 /\ le32 bs 64 <= 65535 /\ le32 bs 72 <= 65535.
Proof.
  unfold header_check, HEADER_SIZE. fold (magic_ok bs).
  destruct (Nat.ltb_spec (length bs) 112); [split; [discriminate | lia]|].
  destruct (Z.eqb_spec (le32 bs 40) 2018915346) as [E|_]; [split; [discriminate | rewrite E; lia]|].
  destruct (Z.eqb_spec (le32 bs 40) 305419896); cbn [negb]; [|split; [discriminate | tauto]].
  destruct (magic_ok bs); cbn [negb]; [|split; [discriminate | intuition discriminate]].
  destruct (Z.eqb_spec (adler32 (skipn 12 bs)) (le32 bs 8)); cbn [negb]; [|split; [discriminate | tauto]].
  destruct (Z.eqb_spec (le32 bs 36) 112); cbn [negb]; [|split; [discriminate | tauto]].
  destruct (Z.ltb_spec 65535 (le32 bs 64)); [split; [discriminate | lia]|].
  destruct (Z.ltb_spec 65535 (le32 bs 72)); [split; [discriminate | lia]|].
  split; [intros _; repeat split; auto | reflexivity].
Qed.

Lemma header_result bs : header_check bs = Ok tt \/ exists e, header_check bs = Err e.
Proof. destruct (header_check bs) as [[]|e]; [left; reflexivity | right; exists e; reflexivity]. Qed.

Lemma le32_upd_other bs i v k : (i < k \/ k + 3 < i)%nat -> le32 (upd i v bs) k = le32 bs k.
Proof. intros H. unfold le32, byte_at. rewrite !nth_upd_other by lia. reflexivity. Qed.

Theorem flip_after_checksum_rejected bs i v :
  header_check bs = Ok tt -> (12 <= i < length bs)%nat -> is_byte (nth i bs 0) -> is_byte v ->
  v <> nth i bs 0 -> exists e, header_check (upd i v bs) = Err e.
Proof.
  intros Hok Hi Hb Hv Hne. destruct (header_result (upd i v bs)) as [Hok'|He]; [|exact He]. exfalso.
  apply header_ok_iff in Hok. apply header_ok_iff in Hok'.
  destruct Hok as (_ & _ & _ & Hsum & _). destruct Hok' as (_ & _ & _ & Hsum' & _).
  rewrite le32_upd_other in Hsum' by lia. rewrite skipn_upd in Hsum' by lia.
  rewrite <- Hsum in Hsum'. revert Hsum'. apply adler_single_byte.
  - rewrite skipn_length. lia.
  - rewrite nth_skipn. replace (12 + (i - 12))%nat with i by lia. exact Hb.
  - exact Hv.
  - rewrite nth_skipn. replace (12 + (i - 12))%nat with i by lia. exact Hne.
Qed.

(* a concrete accepted header: dex\n035\0, 0x70 header bytes and nothing else *)
Definition sample_rest : list Z :=
  repeat 0 20 ++ [112; 0; 0; 0; 112; 0; 0; 0; 120; 86; 52; 18] ++ repeat 0 68.
Definition sample_header : list Z :=
  [100; 101; 120; 10; 48; 51; 53; 0] ++
  [adler32 sample_rest mod 256; adler32 sample_rest / 256 mod 256; adler32 sample_rest / 65536 mod 256;
   adler32 sample_rest / 16777216] ++ sample_rest.
Lemma sample_accepted : header_check sample_header = Ok tt /\ length sample_header = 112%nat /\
  Forall (fun x => 0 <= x < 256) sample_header.
Proof. split; [vm_compute; reflexivity|]. split; [reflexivity|]. vm_compute. repeat constructor; discriminate. Qed.
