(* C17 - proofs about coq/Dex/RenameModel.v: the full statement is false of the model (string indices are shared);
   it holds for every operation sequence when no two items or constants use the same string index *)
From Coq Require Import ZArith List Bool Lia ZifyBool.
Require Import V.Lib.Val V.Lib.Result V.Dex.RenameModel.
Import ListNotations.
Open Scope Z_scope.

(* ---------------------------------------------------------------- indexed access *)
Lemma upd_length {A} (l : list A) i x : length (upd l i x) = length l.
Proof. revert i; induction l as [|y l IH]; intros [|i]; cbn [upd length]; auto. Qed.
Lemma updz_length {A} (l : list A) i x : length (updz l i x) = length l.
Proof. unfold updz. destruct (i <? 0); [reflexivity | apply upd_length]. Qed.
Lemma nth_upd_same {A} (l : list A) i x d : (i < length l)%nat -> nth i (upd l i x) d = x.
Proof. revert i; induction l as [|y l IH]; intros [|i] H; cbn [length] in H; try lia; cbn [upd nth]; [reflexivity | apply IH; lia]. Qed.
Lemma nth_upd_other {A} (l : list A) i j x d : i <> j -> nth j (upd l i x) d = nth j l d.
Proof. revert i j; induction l as [|y l IH]; intros [|i] [|j] H; cbn [upd nth]; try reflexivity; try lia. apply IH. lia. Qed.
Lemma nthz_updz_same {A} (l : list A) i x d : valid l i = true -> nthz (updz l i x) i d = x.
Proof. unfold valid, nthz, updz. intros H. replace (i <? 0) with false by lia. apply nth_upd_same. lia. Qed.
Lemma nthz_updz_other {A} (l : list A) i j x d : i <> j -> nthz (updz l i x) j d = nthz l j d.
Proof.
  intros H. unfold nthz, updz. destruct (i <? 0) eqn:Ei; [reflexivity|]. destruct (j <? 0) eqn:Ej; [reflexivity|].
  apply nth_upd_other. lia.
Qed.
Lemma nthz_map_indices {A B} (l : list A) (f : Z -> B) k d : valid l k = true -> nthz (map f (indices l)) k d = f k.
Proof.
  unfold valid, nthz, indices. intros H. replace (k <? 0) with false by lia. rewrite map_map.
  rewrite nth_indep with (d' := f (Z.of_nat (Z.to_nat k))) by (rewrite map_length, seq_length; lia).
  rewrite (map_nth (fun x => f (Z.of_nat x)) (seq 0 (length l)) (Z.to_nat k)). rewrite seq_nth by lia. f_equal. lia.
Qed.
Lemma valid_same_length {A B} (l : list A) (l' : list B) k : length l = length l' -> valid l k = valid l' k.
Proof. unfold valid. now intros ->. Qed.
Lemma nthz_map {A B} (f : A -> B) (l : list A) k d : valid l k = true -> nthz (map f l) k (f d) = f (nthz l k d).
Proof. unfold valid, nthz. intros H. replace (k <? 0) with false by lia. apply map_nth. Qed.

(* ---------------------------------------------------------------- hooks *)
Lemma assoc_hook i v h j : assoc j ((i, v) :: h) = if i =? j then Some v else assoc j h.
Proof. reflexivity. Qed.

(* ---------------------------------------------------------------- the refutation *)
(* two methods called alike (string index 3) in two classes; rename the first, rename a class, look at the second;
   and a constant whose text is a renamed method's name *)
Definition w_dex : dexfile := {| d_classes := [1; 2]; d_methods := [(0, 3); (1, 3)]; d_fields := []; d_consts := [3] |}.
Definition w_ops : list op := [RenM 0 100; RenC 1 101; QueryM 1; QueryS 0].
Lemma full_statement_refuted : run w_dex (init w_dex) w_ops <> spec_run w_dex (spec_init w_dex) w_ops.
Proof. vm_compute. discriminate. Qed.
Lemma refutation_values :
  run w_dex (init w_dex) w_ops = [None; None; Some 100; Some 100] /\ spec_run w_dex (spec_init w_dex) w_ops = [None; None; Some 3; Some 3].
Proof. split; vm_compute; reflexivity. Qed.

(* ---------------------------------------------------------------- no sharing: every string index has one user *)
Definition all_idx (d : dexfile) : list Z := map snd (d_methods d) ++ map snd (d_fields d) ++ d_classes d ++ d_consts d.
Definition unshared (d : dexfile) : Prop := NoDup (all_idx d).
Definition pos_m (d : dexfile) (k : Z) : nat := Z.to_nat k.
Definition pos_f (d : dexfile) (k : Z) : nat := (length (d_methods d) + Z.to_nat k)%nat.
Definition pos_c (d : dexfile) (k : Z) : nat := (length (d_methods d) + length (d_fields d) + Z.to_nat k)%nat.
Definition pos_s (d : dexfile) (k : Z) : nat := (length (d_methods d) + length (d_fields d) + length (d_classes d) + Z.to_nat k)%nat.
Lemma nthz_nth {A} (l : list A) k d : valid l k = true -> nthz l k d = nth (Z.to_nat k) l d.
Proof. unfold valid, nthz. intros H. now replace (k <? 0) with false by lia. Qed.
Lemma at_m d k : valid (d_methods d) k = true -> nth (pos_m d k) (all_idx d) (-9) = m_name_idx d k /\ (pos_m d k < length (all_idx d))%nat.
Proof.
  intros H. unfold all_idx, pos_m, m_name_idx. pose proof H as H'. unfold valid in H'. split.
  - rewrite app_nth1 by (rewrite map_length; lia). rewrite nthz_nth by exact H.
    rewrite nth_indep with (d' := snd (0, -1)) by (rewrite map_length; lia). apply map_nth.
  - rewrite app_length, map_length. lia.
Qed.
Lemma at_f d k : valid (d_fields d) k = true -> nth (pos_f d k) (all_idx d) (-9) = f_name_idx d k /\ (pos_f d k < length (all_idx d))%nat.
Proof.
  intros H. unfold all_idx, pos_f, f_name_idx. pose proof H as H'. unfold valid in H'. split.
  - rewrite app_nth2 by (rewrite map_length; lia). rewrite map_length. replace (length (d_methods d) + Z.to_nat k - length (d_methods d))%nat with (Z.to_nat k) by lia.
    rewrite app_nth1 by (rewrite map_length; lia). rewrite nthz_nth by exact H.
    rewrite nth_indep with (d' := snd (0, -1)) by (rewrite map_length; lia). apply map_nth.
  - rewrite !app_length, !map_length. lia.
Qed.
Lemma at_c d k : valid (d_classes d) k = true -> nth (pos_c d k) (all_idx d) (-9) = c_desc_idx d k /\ (pos_c d k < length (all_idx d))%nat.
Proof.
  intros H. unfold all_idx, pos_c, c_desc_idx. pose proof H as H'. unfold valid in H'. split.
  - rewrite app_nth2 by (rewrite map_length; lia). rewrite map_length.
    rewrite app_nth2 by (rewrite map_length; lia). rewrite map_length.
    replace (length (d_methods d) + length (d_fields d) + Z.to_nat k - length (d_methods d) - length (d_fields d))%nat with (Z.to_nat k) by lia.
    rewrite app_nth1 by lia. rewrite nthz_nth by exact H. apply nth_indep. lia.
  - rewrite !app_length, !map_length. lia.
Qed.
Lemma at_s d k : valid (d_consts d) k = true -> nth (pos_s d k) (all_idx d) (-9) = nthz (d_consts d) k (-1) /\ (pos_s d k < length (all_idx d))%nat.
Proof.
  intros H. unfold all_idx, pos_s. pose proof H as H'. unfold valid in H'. split.
  - rewrite app_nth2 by (rewrite map_length; lia). rewrite map_length.
    rewrite app_nth2 by (rewrite map_length; lia). rewrite map_length.
    rewrite app_nth2 by lia.
    replace (length (d_methods d) + length (d_fields d) + length (d_classes d) + Z.to_nat k - length (d_methods d) - length (d_fields d) - length (d_classes d))%nat with (Z.to_nat k) by lia.
    rewrite nthz_nth by exact H. apply nth_indep. lia.
  - rewrite !app_length, !map_length. lia.
Qed.
Lemma distinct_positions d p q a b : unshared d -> nth p (all_idx d) (-9) = a -> (p < length (all_idx d))%nat ->
  nth q (all_idx d) (-9) = b -> (q < length (all_idx d))%nat -> p <> q -> a <> b.
Proof. intros U <- Hp <- Hq Hne E. apply Hne. eapply (proj1 (NoDup_nth (all_idx d) (-9))); eauto. Qed.

Lemma get_string_hooked s1 s i v j : hooks s1 = (i, v) :: hooks s -> get_string s1 j = if i =? j then v else get_string s j.
Proof. intros H. unfold get_string. rewrite H. cbn [assoc]. destruct (i =? j); reflexivity. Qed.
Lemma nthz_invalid {A} (l : list A) k d : valid l k = false -> nthz l k d = d.
Proof.
  unfold valid, nthz. intros H. destruct (k <? 0) eqn:E; [reflexivity|]. apply nth_overflow. lia.
Qed.

(* ---------------------------------------------------------------- the invariant *)
Record Inv (d : dexfile) (s : state) (n : names) : Prop := {
  L1 : length (mid_name s) = length (d_methods d); L2 : length (em_name s) = length (d_methods d);
  L3 : length (fid_name s) = length (d_fields d); L4 : length (ef_name s) = length (d_fields d);
  L5 : length (cls_name s) = length (d_classes d);
  L6 : length (n_m n) = length (d_methods d); L7 : length (n_f n) = length (d_fields d); L8 : length (n_c n) = length (d_classes d);
  IM : forall k, valid (d_methods d) k = true ->
       nthz (mid_name s) k (-1) = nthz (n_m n) k (-1) /\ nthz (em_name s) k (-1) = nthz (n_m n) k (-1) /\
       get_string s (m_name_idx d k) = nthz (n_m n) k (-1);
  IFl : forall k, valid (d_fields d) k = true ->
       nthz (fid_name s) k (-1) = nthz (n_f n) k (-1) /\ nthz (ef_name s) k (-1) = nthz (n_f n) k (-1) /\
       get_string s (f_name_idx d k) = nthz (n_f n) k (-1);
  IC : forall c, valid (d_classes d) c = true ->
       nthz (cls_name s) c (-1) = nthz (n_c n) c (-1) /\ get_string s (c_desc_idx d c) = nthz (n_c n) c (-1);
  IS : forall j, valid (d_consts d) j = true -> get_string s (nthz (d_consts d) j (-1)) = nthz (d_consts d) j (-1) }.

Lemma init_inv d : Inv d (init d) (spec_init d).
Proof.
  constructor; cbn [init spec_init mid_name em_name fid_name ef_name cls_name n_m n_f n_c].
  1-8: first [now rewrite map_length | reflexivity].
  - intros k H. unfold get_string, m_name_idx. cbn [init hooks assoc]. split; [reflexivity|]. split; [reflexivity|].
    symmetry. exact (nthz_map snd (d_methods d) k (0, -1) H).
  - intros k H. unfold get_string, f_name_idx. cbn [init hooks assoc]. split; [reflexivity|]. split; [reflexivity|].
    symmetry. exact (nthz_map snd (d_fields d) k (0, -1) H).
  - intros c H. unfold get_string, c_desc_idx. cbn [init hooks assoc]. split; reflexivity.
  - intros j H. reflexivity.
Qed.

Ltac vl := match goal with V : valid ?m ?k = true |- valid ?l ?k = true => rewrite (valid_same_length l m k) by congruence; exact V end.

Lemma step_inv d s n o : unshared d -> Inv d s n ->
  snd (step d s o) = snd (spec_step d n o) /\ Inv d (fst (step d s o)) (fst (spec_step d n o)).
Proof.
  intros U I. destruct I as [l1 l2 l3 l4 l5 l6 l7 l8 im ifl ic is_]. unfold get_string in im, ifl, ic, is_.
  destruct o as [k v|k v|c v|k|k|k|k|c|j]; unfold step, spec_step.
  - (* RenM *)
    destruct (valid (d_methods d) k) eqn:V; cbn [negb fst snd]; [|split; [reflexivity | constructor; assumption]].
    split; [reflexivity|]. destruct (at_m d k V) as [Pk Pk'].
    set (i := m_name_idx d k) in *.
    constructor; cbn [hooks mid_name em_name fid_name ef_name cls_name n_m n_f n_c]; try (rewrite ?updz_length; assumption).
    + intros k' V'. destruct (Z.eq_dec k' k) as [->|Hne].
      * fold i. unfold get_string, hook; cbn [hooks assoc]; rewrite ?Z.eqb_refl.
        rewrite (nthz_updz_same (mid_name s) k v (-1)) by vl. rewrite (nthz_updz_same (em_name s) k v (-1)) by vl.
        rewrite (nthz_updz_same (n_m n) k v (-1)) by vl. auto.
      * destruct (at_m d k' V') as [Q Q']. destruct (im k' V') as (A & B & C).
        assert (i <> m_name_idx d k') by (eapply (distinct_positions d (pos_m d k) (pos_m d k')); eauto; unfold pos_m, valid in *; lia).
        unfold get_string, hook; cbn [hooks assoc]; rewrite ?Z.eqb_refl. rewrite !nthz_updz_other by congruence. replace (i =? m_name_idx d k') with false by lia. auto.
    + intros k' V'. destruct (at_f d k' V') as [Q Q']. destruct (ifl k' V') as (A & B & C).
      assert (i <> f_name_idx d k') by (eapply (distinct_positions d (pos_m d k) (pos_f d k')); eauto; unfold pos_m, pos_f, valid in *; lia).
      unfold get_string, hook; cbn [hooks assoc]; rewrite ?Z.eqb_refl. replace (i =? f_name_idx d k') with false by lia. auto.
    + intros c V'. destruct (at_c d c V') as [Q Q']. destruct (ic c V') as (A & B).
      assert (i <> c_desc_idx d c) by (eapply (distinct_positions d (pos_m d k) (pos_c d c)); eauto; unfold pos_m, pos_c, valid in *; lia).
      unfold get_string, hook; cbn [hooks assoc]; rewrite ?Z.eqb_refl. replace (i =? c_desc_idx d c) with false by lia. auto.
    + intros j V'. destruct (at_s d j V') as [Q Q'].
      assert (i <> nthz (d_consts d) j (-1)) by (eapply (distinct_positions d (pos_m d k) (pos_s d j)); eauto; unfold pos_m, pos_s, valid in *; lia).
      unfold get_string, hook; cbn [hooks assoc]; rewrite ?Z.eqb_refl. replace (i =? nthz (d_consts d) j (-1)) with false by lia. auto.
  - (* RenF *)
    destruct (valid (d_fields d) k) eqn:V; cbn [negb fst snd]; [|split; [reflexivity | constructor; assumption]].
    split; [reflexivity|]. destruct (at_f d k V) as [Pk Pk'].
    set (i := f_name_idx d k) in *.
    constructor; cbn [hooks mid_name em_name fid_name ef_name cls_name n_m n_f n_c]; try (rewrite ?updz_length; assumption).
    + intros k' V'. destruct (at_m d k' V') as [Q Q']. destruct (im k' V') as (A & B & C).
      assert (i <> m_name_idx d k') by (eapply (distinct_positions d (pos_f d k) (pos_m d k')); eauto; unfold pos_m, pos_f, valid in *; lia).
      unfold get_string, hook; cbn [hooks assoc]; rewrite ?Z.eqb_refl. replace (i =? m_name_idx d k') with false by lia. auto.
    + intros k' V'. destruct (Z.eq_dec k' k) as [->|Hne].
      * fold i. unfold get_string, hook; cbn [hooks assoc]; rewrite ?Z.eqb_refl.
        rewrite (nthz_updz_same (fid_name s) k v (-1)) by vl. rewrite (nthz_updz_same (ef_name s) k v (-1)) by vl.
        rewrite (nthz_updz_same (n_f n) k v (-1)) by vl. auto.
      * destruct (at_f d k' V') as [Q Q']. destruct (ifl k' V') as (A & B & C).
        assert (i <> f_name_idx d k') by (eapply (distinct_positions d (pos_f d k) (pos_f d k')); eauto; unfold pos_f, valid in *; lia).
        unfold get_string, hook; cbn [hooks assoc]; rewrite ?Z.eqb_refl. rewrite !nthz_updz_other by congruence. replace (i =? f_name_idx d k') with false by lia. auto.
    + intros c V'. destruct (at_c d c V') as [Q Q']. destruct (ic c V') as (A & B).
      assert (i <> c_desc_idx d c) by (eapply (distinct_positions d (pos_f d k) (pos_c d c)); eauto; unfold pos_f, pos_c, valid in *; lia).
      unfold get_string, hook; cbn [hooks assoc]; rewrite ?Z.eqb_refl. replace (i =? c_desc_idx d c) with false by lia. auto.
    + intros j V'. destruct (at_s d j V') as [Q Q'].
      assert (i <> nthz (d_consts d) j (-1)) by (eapply (distinct_positions d (pos_f d k) (pos_s d j)); eauto; unfold pos_f, pos_s, valid in *; lia).
      unfold get_string, hook; cbn [hooks assoc]; rewrite ?Z.eqb_refl. replace (i =? nthz (d_consts d) j (-1)) with false by lia. auto.
  - (* RenC *)
    destruct (valid (d_classes d) c) eqn:V; cbn [negb fst snd]; [|split; [reflexivity | constructor; assumption]].
    split; [reflexivity|]. destruct (at_c d c V) as [Pk Pk'].
    set (i := c_desc_idx d c) in *.
    constructor; cbn [hooks mid_name em_name fid_name ef_name cls_name n_m n_f n_c];
      try (rewrite ?updz_length; assumption); try (unfold indices; now rewrite map_length, map_length, seq_length).
    + intros k' V'. destruct (at_m d k' V') as [Q Q']. destruct (im k' V') as (A & B & C).
      assert (i <> m_name_idx d k') by (eapply (distinct_positions d (pos_c d c) (pos_m d k')); eauto; unfold pos_m, pos_c, valid in *; lia).
      rewrite !nthz_map_indices by exact V'. rewrite ?nthz_map_indices by exact V'.
      unfold get_string, hook; cbn [hooks assoc]; rewrite ?Z.eqb_refl. replace (i =? m_name_idx d k') with false by lia.
      split; [exact C|]. split; [|exact C]. destruct (fst (nthz (d_methods d) k' (0, -1)) =? c); [exact C | exact B].
    + intros k' V'. destruct (at_f d k' V') as [Q Q']. destruct (ifl k' V') as (A & B & C).
      assert (i <> f_name_idx d k') by (eapply (distinct_positions d (pos_c d c) (pos_f d k')); eauto; unfold pos_f, pos_c, valid in *; lia).
      rewrite !nthz_map_indices by exact V'. unfold get_string, hook; cbn [hooks assoc]; rewrite ?Z.eqb_refl. replace (i =? f_name_idx d k') with false by lia.
      split; [exact A|]. split; [|exact C]. destruct (fst (nthz (d_fields d) k' (0, -1)) =? c); [exact A | exact B].
    + intros c' V'. destruct (Z.eq_dec c' c) as [->|Hne].
      * fold i. unfold get_string, hook; cbn [hooks assoc]; rewrite ?Z.eqb_refl.
        rewrite (nthz_updz_same (cls_name s) c v (-1)) by vl. rewrite (nthz_updz_same (n_c n) c v (-1)) by vl. auto.
      * destruct (at_c d c' V') as [Q Q']. destruct (ic c' V') as (A & B).
        assert (i <> c_desc_idx d c') by (eapply (distinct_positions d (pos_c d c) (pos_c d c')); eauto; unfold pos_c, valid in *; lia).
        unfold get_string, hook; cbn [hooks assoc]; rewrite ?Z.eqb_refl. rewrite !nthz_updz_other by congruence. replace (i =? c_desc_idx d c') with false by lia. auto.
    + intros j V'. destruct (at_s d j V') as [Q Q'].
      assert (i <> nthz (d_consts d) j (-1)) by (eapply (distinct_positions d (pos_c d c) (pos_s d j)); eauto; unfold pos_c, pos_s, valid in *; lia).
      unfold get_string, hook; cbn [hooks assoc]; rewrite ?Z.eqb_refl. replace (i =? nthz (d_consts d) j (-1)) with false by lia. auto.
  - (* ReloadM *)
    destruct (valid (d_methods d) k) eqn:V; cbn [negb fst snd]; (split; [reflexivity|]); [|constructor; assumption].
    constructor; cbn [hooks mid_name em_name fid_name ef_name cls_name]; try (rewrite ?updz_length; assumption).
    intros k' V'. destruct (im k' V') as (A & B & C). split; [exact A|]. split; [|exact C].
    destruct (Z.eq_dec k' k) as [->|Hne]; [rewrite nthz_updz_same by vl; exact A | rewrite nthz_updz_other by congruence; exact B].
  - (* ReloadF *)
    destruct (valid (d_fields d) k) eqn:V; cbn [negb fst snd]; (split; [reflexivity|]); [|constructor; assumption].
    constructor; cbn [hooks mid_name em_name fid_name ef_name cls_name]; try (rewrite ?updz_length; assumption).
    intros k' V'. destruct (ifl k' V') as (A & B & C). split; [exact A|]. split; [|exact C].
    destruct (Z.eq_dec k' k) as [->|Hne]; [rewrite nthz_updz_same by vl; exact A | rewrite nthz_updz_other by congruence; exact B].
  - (* QueryM *)
    destruct (valid (d_methods d) k) eqn:V; cbn [negb].
    2:{ cbn [fst snd]. split; [|constructor; assumption]. f_equal. symmetry. apply nthz_invalid.
        erewrite valid_same_length; [exact V | congruence]. }
    destruct (im k V) as (A & B & C).
    destruct (nthz (em_loaded s) k false); cbn [fst snd]; [split; [f_equal; exact B | constructor; assumption]|].
    split; [f_equal; exact A|].
    constructor; cbn [hooks mid_name em_name fid_name ef_name cls_name]; try (rewrite ?updz_length; assumption).
    intros k' V'. destruct (im k' V') as (A' & B' & C'). split; [exact A'|]. split; [|exact C'].
    destruct (Z.eq_dec k' k) as [->|Hne]; [rewrite nthz_updz_same by vl; exact A' | rewrite nthz_updz_other by congruence; exact B'].
  - (* QueryF *)
    destruct (valid (d_fields d) k) eqn:V; cbn [negb].
    2:{ cbn [fst snd]. split; [|constructor; assumption]. f_equal. symmetry. apply nthz_invalid.
        erewrite valid_same_length; [exact V | congruence]. }
    destruct (ifl k V) as (A & B & C).
    destruct (nthz (ef_loaded s) k false); cbn [fst snd]; [split; [f_equal; exact B | constructor; assumption]|].
    split; [f_equal; exact A|].
    constructor; cbn [hooks mid_name em_name fid_name ef_name cls_name]; try (rewrite ?updz_length; assumption).
    intros k' V'. destruct (ifl k' V') as (A' & B' & C'). split; [exact A'|]. split; [|exact C'].
    destruct (Z.eq_dec k' k) as [->|Hne]; [rewrite nthz_updz_same by vl; exact A' | rewrite nthz_updz_other by congruence; exact B'].
  - cbn [fst snd]. split; [|constructor; assumption]. f_equal. destruct (valid (d_classes d) c) eqn:V; [apply ic, V|].
    rewrite !nthz_invalid; [reflexivity | |]; (erewrite valid_same_length; [exact V | congruence]).
  - cbn [fst snd]. split; [|constructor; assumption]. f_equal. destruct (valid (d_consts d) j) eqn:V; [apply is_, V|].
    now rewrite nthz_invalid.
Qed.

Theorem unshared_runs_agree d : unshared d -> forall ops s n, Inv d s n -> run d s ops = spec_run d n ops.
Proof.
  intros U. induction ops as [|o ops IH]; intros s n I; [reflexivity|]. cbn [run spec_run].
  destruct (step_inv d s n o U I) as [E I']. destruct (step d s o) as [s' out]. destruct (spec_step d n o) as [n' out'].
  cbn [fst snd] in *. subst out'. f_equal. now apply IH.
Qed.
Theorem renames_exact_when_unshared d ops : unshared d -> run d (init d) ops = spec_run d (spec_init d) ops.
Proof. intros U. apply unshared_runs_agree; [exact U | apply init_inv]. Qed.
