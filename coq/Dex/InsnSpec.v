(* C01 - the Dalvik instruction formats, transcribed from the "Dalvik executable instruction formats" document,
   and the proof that the translated Instruction* classes (coq/gen/Gen_Insn.v) decode every operand encoding to
   the fields the format defines and re-encode to the same bytes.
   A code unit is a 16-bit number; unit u is stored as the bytes u mod 256, u / 256. *)
From Coq Require Import ZArith List Bool Lia ZifyBool.
Require Import V.Lib.Val V.Lib.Result V.Lib.Struct V.Lib.Bits V.gen.Gen_Insn.
Import ListNotations.
Open Scope Z_scope.
Ltac Zify.zify_post_hook ::= Z.to_euclidean_division_equations.

Definition unit_ok (u : Z) : Prop := 0 <= u < 65536.
Definition ub (u : Z) : list Z := [u mod 256; u / 256].                    (* the two bytes of a unit *)
Definition lo8 (u : Z) : Z := u mod 256.
Definition hi8 (u : Z) : Z := u / 256.
Definition nibA (u : Z) : Z := (u / 256) mod 16.                           (* bits 8..11 *)
Definition nibB (u : Z) : Z := u / 4096.                                   (* bits 12..15 *)
Definition sx (bits v : Z) : Z := if 2 ^ (bits - 1) <=? v then v - 2 ^ bits else v.
Definition w32 (u1 u2 : Z) : Z := u1 + 65536 * u2.
Definition w64 (u1 u2 u3 u4 : Z) : Z := u1 + 65536 * u2 + 4294967296 * u3 + 281474976710656 * u4.

(* ---- bit operations as arithmetic ---- *)
Lemma land255 : forall x, Z.land x 255 = x mod 256. Proof. intros. change 255 with (Z.ones 8). now rewrite Z.land_ones by lia. Qed.
Lemma land15 : forall x, Z.land x 15 = x mod 16. Proof. intros. change 15 with (Z.ones 4). now rewrite Z.land_ones by lia. Qed.
Lemma shr4 : forall x, Z.shiftr x 4 = x / 16. Proof. intros. now rewrite Z.shiftr_div_pow2 by lia. Qed.
Lemma shr8 : forall x, Z.shiftr x 8 = x / 256. Proof. intros. now rewrite Z.shiftr_div_pow2 by lia. Qed.
Lemma shr12 : forall x, Z.shiftr x 12 = x / 4096. Proof. intros. now rewrite Z.shiftr_div_pow2 by lia. Qed.
Lemma shl4 : forall x, Z.shiftl x 4 = x * 16. Proof. intros. now rewrite Z.shiftl_mul_pow2 by lia. Qed.
Lemma shl8 : forall x, Z.shiftl x 8 = x * 256. Proof. intros. now rewrite Z.shiftl_mul_pow2 by lia. Qed.
Lemma shl12 : forall x, Z.shiftl x 12 = x * 4096. Proof. intros. now rewrite Z.shiftl_mul_pow2 by lia. Qed.
Lemma shl16 : forall x, Z.shiftl x 16 = x * 65536. Proof. intros. now rewrite Z.shiftl_mul_pow2 by lia. Qed.
Lemma shl48 : forall x, Z.shiftl x 48 = x * 281474976710656. Proof. intros. now rewrite Z.shiftl_mul_pow2 by lia. Qed.
(* hi | lo where lo fits below the multiple *)
Lemma lor_add_l : forall a b k p, p = 2 ^ k -> 0 <= k -> 0 <= a < p -> Z.lor (b * p) a = a + b * p.
Proof. intros a b k p -> Hk Ha. rewrite Z.lor_comm. apply lor_mul_add; assumption. Qed.
Lemma lor_add_r : forall a b k p, p = 2 ^ k -> 0 <= k -> 0 <= a < p -> Z.lor a (b * p) = a + b * p.
Proof. intros a b k p -> Hk Ha. apply lor_mul_add; assumption. Qed.

Ltac bits :=
  repeat first [rewrite land255 | rewrite land15 | rewrite shr4 | rewrite shr8 | rewrite shr12
               | rewrite shl4 | rewrite shl8 | rewrite shl12 | rewrite shl16 | rewrite shl48].
(* rewrite every  (b * 2^k) | a  (either order) into a sum, innermost first, given the ranges in the context *)
Lemma lor_low : forall x a k p, p = 2 ^ k -> 0 <= k -> x mod p = 0 -> 0 <= a < p -> Z.lor x a = x + a.
Proof.
  intros x a k p -> Hk Hx Ha. assert (0 < 2 ^ k) by (apply Z.pow_pos_nonneg; lia).
  replace x with ((x / 2 ^ k) * 2 ^ k) at 1 by (pose proof (Z.div_mod x (2 ^ k)); lia).
  rewrite Z.lor_comm, lor_mul_add by assumption. pose proof (Z.div_mod x (2 ^ k)). lia.
Qed.
(* rewrite every  hi | lo  whose low part fits below the granularity of the high part into a sum, innermost first *)
Ltac ors :=
  repeat match goal with
  | |- context [Z.lor ?x ?a] =>
      first [ rewrite (lor_low x a 4 16 eq_refl) by lia | rewrite (lor_low x a 8 256 eq_refl) by lia
            | rewrite (lor_low x a 12 4096 eq_refl) by lia
            | rewrite (Z.lor_comm x a); first [ rewrite (lor_low a x 4 16 eq_refl) by lia | rewrite (lor_low a x 8 256 eq_refl) by lia
                                              | rewrite (lor_low a x 12 4096 eq_refl) by lia ] ]
  end.

(* ---- pack of one value as little-endian bytes, spelled out ---- *)
Lemma pack_FU1 : forall v, 0 <= v < 256 -> pack_field (FU 1) v = Ok [v].
Proof. intros v H. unfold pack_field. cbn [in_range fsize]. change (2 ^ width 1) with 256.
  replace ((0 <=? v) && (v <? 256)) with true by lia. cbn [lbytes]. f_equal. f_equal. lia. Qed.
Lemma pack_FU2 : forall v, 0 <= v < 65536 -> pack_field (FU 2) v = Ok [v mod 256; v / 256].
Proof. intros v H. unfold pack_field. cbn [in_range fsize]. change (2 ^ width 2) with 65536.
  replace ((0 <=? v) && (v <? 65536)) with true by lia. cbn [lbytes]. f_equal. f_equal; [lia|f_equal; lia]. Qed.

(* ---- unpack of 1, 2, 4, 8 bytes ---- *)
Lemma lu_1 : forall a, lu [a] = a. Proof. intros. cbn [lu]. lia. Qed.
Lemma lu_2 : forall a b, lu [a; b] = a + 256 * b. Proof. intros. cbn [lu]. lia. Qed.
Lemma lu_4 : forall a b c d, lu [a; b; c; d] = a + 256 * b + 65536 * c + 16777216 * d. Proof. intros. cbn [lu]. lia. Qed.
Lemma lu_8 : forall a b c d e f g h, lu [a; b; c; d; e; f; g; h] =
  a + 256 * b + 65536 * c + 16777216 * d + 4294967296 * e + 1099511627776 * f + 281474976710656 * g + 72057594037927936 * h.
Proof. intros. cbn [lu]. lia. Qed.
Lemma ls_1 : forall a, ls [a] = sx 8 a.
Proof. intros. unfold ls, sx. rewrite lu_1. cbn [length]. change (2 ^ (width 1 - 1)) with (2 ^ (8 - 1)). change (2 ^ width 1) with (2 ^ 8). reflexivity. Qed.
Lemma ls_2 : forall a b, ls [a; b] = sx 16 (a + 256 * b).
Proof. intros. unfold ls, sx. rewrite lu_2. cbn [length]. change (2 ^ (width 2 - 1)) with (2 ^ (16 - 1)). change (2 ^ width 2) with (2 ^ 16). reflexivity. Qed.
Lemma ls_4 : forall a b c d, ls [a; b; c; d] = sx 32 (a + 256 * b + 65536 * c + 16777216 * d).
Proof. intros. unfold ls, sx. rewrite lu_4. cbn [length]. change (2 ^ (width 4 - 1)) with (2 ^ (32 - 1)). change (2 ^ width 4) with (2 ^ 32). reflexivity. Qed.
Lemma ls_8 : forall a b c d e f g h, ls [a; b; c; d; e; f; g; h] =
  sx 64 (a + 256 * b + 65536 * c + 16777216 * d + 4294967296 * e + 1099511627776 * f + 281474976710656 * g + 72057594037927936 * h).
Proof. intros. unfold ls, sx. rewrite lu_8. cbn [length]. change (2 ^ (width 8 - 1)) with (2 ^ (64 - 1)). change (2 ^ width 8) with (2 ^ 64). reflexivity. Qed.

Ltac decode C :=
  unfold C, ub; cbn [app firstn]; unfold unpack;
  cbn [unpack_go fsize length Nat.ltb Nat.leb skipn firstn unpack_field];
  rewrite ?lu_1, ?lu_2, ?lu_4, ?lu_8, ?ls_1, ?ls_2, ?ls_4, ?ls_8.

Definition byte (b : Z) : Prop := 0 <= b < 256.
Lemma pack_FS1 : forall v, -128 <= v < 128 -> pack_field (FS 1) v = Ok [v mod 256].
Proof. intros v H. unfold pack_field. cbn [in_range fsize]. change (2 ^ (width 1 - 1)) with 128. change (2 ^ width 1) with 256.
  replace ((- (128) <=? v) && (v <? 128)) with true by lia. cbn [lbytes]. f_equal. f_equal. lia. Qed.
Lemma pack_FS2 : forall v, -32768 <= v < 32768 -> pack_field (FS 2) v = Ok [v mod 256; (v / 256) mod 256].
Proof. intros v H. unfold pack_field. cbn [in_range fsize]. change (2 ^ (width 2 - 1)) with 32768. change (2 ^ width 2) with 65536.
  replace ((- (32768) <=? v) && (v <? 32768)) with true by lia. cbn [lbytes]. f_equal. f_equal; [lia|f_equal; lia]. Qed.
(* a field that passes through unchanged *)
Lemma pack_same : forall s bs, Forall byte bs -> length bs = fsize s -> (0 < fsize s)%nat -> pack_field s (unpack_field s bs) = Ok bs.
Proof. intros. apply pack_unpack_field; assumption. Qed.

Lemma sx8_range : forall b, byte b -> -128 <= sx 8 b < 128.
Proof. intros b H. unfold byte in H. unfold sx. change (2 ^ (8 - 1)) with 128. change (2 ^ 8) with 256. destruct (128 <=? b) eqn:E; lia. Qed.

Lemma pack_ls4 : forall a b c d, byte a -> byte b -> byte c -> byte d -> pack_field (FS 4) (ls [a; b; c; d]) = Ok [a; b; c; d].
Proof. intros. apply (pack_same (FS 4) [a; b; c; d]); [repeat (apply Forall_cons; [assumption|]); apply Forall_nil|reflexivity|cbn; lia]. Qed.
Lemma pack_lu4 : forall a b c d, byte a -> byte b -> byte c -> byte d -> pack_field (FU 4) (lu [a; b; c; d]) = Ok [a; b; c; d].
Proof. intros. apply (pack_same (FU 4) [a; b; c; d]); [repeat (apply Forall_cons; [assumption|]); apply Forall_nil|reflexivity|cbn; lia]. Qed.
Lemma pack_ls8 : forall a b c d e f g h, byte a -> byte b -> byte c -> byte d -> byte e -> byte f -> byte g -> byte h ->
  pack_field (FS 8) (ls [a; b; c; d; e; f; g; h]) = Ok [a; b; c; d; e; f; g; h].
Proof. intros. apply (pack_same (FS 8) [a; b; c; d; e; f; g; h]); [repeat (apply Forall_cons; [assumption|]); apply Forall_nil|reflexivity|cbn; lia]. Qed.

(* x & 0xF0, 0xF00, 0xF000 *)
Lemma land_nib : forall x k, 0 <= k -> Z.land x (Z.shiftl 15 k) = Z.shiftl (Z.land (Z.shiftr x k) 15) k.
Proof.
  intros x k Hk. apply Z.bits_inj'. intros i Hi. rewrite Z.land_spec. destruct (Z.ltb_spec i k).
  - rewrite !Z.shiftl_spec_low by lia. apply andb_false_r.
  - rewrite !Z.shiftl_spec by lia. rewrite Z.land_spec, Z.shiftr_spec by lia. replace (i - k + k) with i by lia. reflexivity.
Qed.
Lemma land240 : forall x, Z.land x 240 = ((x / 16) mod 16) * 16.
Proof. intros. change 240 with (Z.shiftl 15 4). rewrite land_nib by lia. rewrite land15, shr4, shl4. reflexivity. Qed.
Lemma land3840 : forall x, Z.land x 3840 = ((x / 256) mod 16) * 256.
Proof. intros. change 3840 with (Z.shiftl 15 8). rewrite land_nib by lia. rewrite land15, shr8, shl8. reflexivity. Qed.
Lemma land61440 : forall x, Z.land x 61440 = ((x / 4096) mod 16) * 4096.
Proof. intros. change 61440 with (Z.shiftl 15 12). rewrite land_nib by lia. rewrite land15, shr12, shl12. reflexivity. Qed.

Ltac consts :=
  change (2 ^ (4 - 1)) with 8 in *; change (2 ^ 4) with 16 in *; change (2 ^ (8 - 1)) with 128 in *; change (2 ^ 8) with 256 in *;
  change (2 ^ (16 - 1)) with 32768 in *; change (2 ^ 16) with 65536 in *; change (2 ^ (32 - 1)) with 2147483648 in *;
  change (2 ^ 32) with 4294967296 in *; change (2 ^ (64 - 1)) with 9223372036854775808 in *;
  change (2 ^ 64) with 18446744073709551616 in *.
Ltac split_ifs := repeat match goal with |- context [if ?c then _ else _] => destruct c eqn:? end.
Ltac list_eq :=
  try (match goal with |- Ok _ = Ok _ => apply f_equal end);
  repeat (match goal with |- _ :: _ = _ :: _ => apply (f_equal2 (@cons Z)); [lia|] end); try reflexivity.
Ltac fin_dec :=
  rewrite ?land240, ?land3840, ?land61440; bits; unfold sx; consts; split_ifs; try (exfalso; lia); try discriminate; list_eq.
Ltac fin_raw :=
  rewrite <- ?ls_8, <- ?ls_4, <- ?lu_4;
  rewrite ?pack_ls8, ?pack_ls4, ?pack_lu4 by (unfold byte; lia);
  bits; unfold sx; consts; split_ifs; ors;
  rewrite ?pack_FU1, ?pack_FU2, ?pack_FS1, ?pack_FS2 by lia; cbn [app]; list_eq.

Definition spec_35c (b0 b1 b2 b3 b4 b5 : Z) : list Z := [(b2 + 256 * b3); b0; b1 mod 16; b1 / 16; b4 mod 16; b4 / 16; b5 mod 16; b5 / 16].
Theorem dec_35c_spec : forall b0 b1 b2 b3 b4 b5 rest, byte b0 -> byte b1 -> byte b2 -> byte b3 -> byte b4 -> byte b5 ->
  dec_Instruction35c ([b0; b1; b2; b3; b4; b5] ++ rest) = Ok (spec_35c b0 b1 b2 b3 b4 b5).
Proof. intros b0 b1 b2 b3 b4 b5 rest H0 H1 H2 H3 H4 H5. unfold byte in *. decode dec_Instruction35c. unfold spec_35c. fin_dec. Qed.
Theorem raw_35c_spec : forall b0 b1 b2 b3 b4 b5, byte b0 -> byte b1 -> byte b2 -> byte b3 -> byte b4 -> byte b5 ->
  raw_Instruction35c (spec_35c b0 b1 b2 b3 b4 b5) = Ok [b0; b1; b2; b3; b4; b5].
Proof. intros b0 b1 b2 b3 b4 b5 H0 H1 H2 H3 H4 H5. unfold byte in *. unfold raw_Instruction35c, spec_35c. cbn [pack]. fin_raw. Qed.

Definition spec_35mi (b0 b1 b2 b3 b4 b5 : Z) : list Z := [(b2 + 256 * b3); b0; b1 mod 16; b1 / 16; b4 mod 16; b4 / 16; b5 mod 16; b5 / 16].
Theorem dec_35mi_spec : forall b0 b1 b2 b3 b4 b5 rest, byte b0 -> byte b1 -> byte b2 -> byte b3 -> byte b4 -> byte b5 ->
  dec_Instruction35mi ([b0; b1; b2; b3; b4; b5] ++ rest) = Ok (spec_35mi b0 b1 b2 b3 b4 b5).
Proof. intros b0 b1 b2 b3 b4 b5 rest H0 H1 H2 H3 H4 H5. unfold byte in *. decode dec_Instruction35mi. unfold spec_35mi. fin_dec. Qed.
Theorem raw_35mi_spec : forall b0 b1 b2 b3 b4 b5, byte b0 -> byte b1 -> byte b2 -> byte b3 -> byte b4 -> byte b5 ->
  raw_Instruction35mi (spec_35mi b0 b1 b2 b3 b4 b5) = Ok [b0; b1; b2; b3; b4; b5].
Proof. intros b0 b1 b2 b3 b4 b5 H0 H1 H2 H3 H4 H5. unfold byte in *. unfold raw_Instruction35mi, spec_35mi. cbn [pack]. fin_raw. Qed.

Definition spec_35ms (b0 b1 b2 b3 b4 b5 : Z) : list Z := [(b2 + 256 * b3); b0; b1 mod 16; b1 / 16; b4 mod 16; b4 / 16; b5 mod 16; b5 / 16].
Theorem dec_35ms_spec : forall b0 b1 b2 b3 b4 b5 rest, byte b0 -> byte b1 -> byte b2 -> byte b3 -> byte b4 -> byte b5 ->
  dec_Instruction35ms ([b0; b1; b2; b3; b4; b5] ++ rest) = Ok (spec_35ms b0 b1 b2 b3 b4 b5).
Proof. intros b0 b1 b2 b3 b4 b5 rest H0 H1 H2 H3 H4 H5. unfold byte in *. decode dec_Instruction35ms. unfold spec_35ms. fin_dec. Qed.
Theorem raw_35ms_spec : forall b0 b1 b2 b3 b4 b5, byte b0 -> byte b1 -> byte b2 -> byte b3 -> byte b4 -> byte b5 ->
  raw_Instruction35ms (spec_35ms b0 b1 b2 b3 b4 b5) = Ok [b0; b1; b2; b3; b4; b5].
Proof. intros b0 b1 b2 b3 b4 b5 H0 H1 H2 H3 H4 H5. unfold byte in *. unfold raw_Instruction35ms, spec_35ms. cbn [pack]. fin_raw. Qed.

Definition spec_10x (b0 b1 : Z) : list Z := [b0].
Theorem dec_10x_spec : forall b0 b1 rest, byte b0 -> byte b1 -> b1 = 0 ->
  dec_Instruction10x ([b0; b1] ++ rest) = Ok (spec_10x b0 b1).
Proof. intros b0 b1 rest H0 H1 Hg. unfold byte in *. decode dec_Instruction10x. unfold spec_10x. fin_dec. Qed.
Theorem raw_10x_spec : forall b0 b1, byte b0 -> byte b1 -> b1 = 0 ->
  raw_Instruction10x (spec_10x b0 b1) = Ok [b0; b1].
Proof. intros b0 b1 H0 H1 Hg. unfold byte in *. unfold raw_Instruction10x, spec_10x. cbn [pack]. fin_raw. Qed.

Definition spec_21h (b0 b1 b2 b3 : Z) : list Z := [b0; b1; sx 16 (b2 + 256 * b3); (if b0 =? 21 then sx 16 (b2 + 256 * b3) * 65536 else if b0 =? 25 then sx 16 (b2 + 256 * b3) * 281474976710656 else sx 16 (b2 + 256 * b3))].
Theorem dec_21h_spec : forall b0 b1 b2 b3 rest, byte b0 -> byte b1 -> byte b2 -> byte b3 ->
  dec_Instruction21h ([b0; b1; b2; b3] ++ rest) = Ok (spec_21h b0 b1 b2 b3).
Proof. intros b0 b1 b2 b3 rest H0 H1 H2 H3. unfold byte in *. decode dec_Instruction21h. unfold spec_21h. fin_dec. Qed.
Theorem raw_21h_spec : forall b0 b1 b2 b3, byte b0 -> byte b1 -> byte b2 -> byte b3 ->
  raw_Instruction21h (spec_21h b0 b1 b2 b3) = Ok [b0; b1; b2; b3].
Proof. intros b0 b1 b2 b3 H0 H1 H2 H3. unfold byte in *. unfold raw_Instruction21h, spec_21h. cbn [pack]. fin_raw. Qed.

Definition spec_11n (b0 b1 : Z) : list Z := [b0; b1 mod 16; sx 4 (b1 / 16)].
Theorem dec_11n_spec : forall b0 b1 rest, byte b0 -> byte b1 ->
  dec_Instruction11n ([b0; b1] ++ rest) = Ok (spec_11n b0 b1).
Proof. intros b0 b1 rest H0 H1. unfold byte in *. decode dec_Instruction11n. unfold spec_11n. fin_dec. Qed.
Theorem raw_11n_spec : forall b0 b1, byte b0 -> byte b1 ->
  raw_Instruction11n (spec_11n b0 b1) = Ok [b0; b1].
Proof. intros b0 b1 H0 H1. unfold byte in *. unfold raw_Instruction11n, spec_11n. cbn [pack]. fin_raw. Qed.

Definition spec_21c (b0 b1 b2 b3 : Z) : list Z := [b0; b1; (b2 + 256 * b3)].
Theorem dec_21c_spec : forall b0 b1 b2 b3 rest, byte b0 -> byte b1 -> byte b2 -> byte b3 ->
  dec_Instruction21c ([b0; b1; b2; b3] ++ rest) = Ok (spec_21c b0 b1 b2 b3).
Proof. intros b0 b1 b2 b3 rest H0 H1 H2 H3. unfold byte in *. decode dec_Instruction21c. unfold spec_21c. fin_dec. Qed.
Theorem raw_21c_spec : forall b0 b1 b2 b3, byte b0 -> byte b1 -> byte b2 -> byte b3 ->
  raw_Instruction21c (spec_21c b0 b1 b2 b3) = Ok [b0; b1; b2; b3].
Proof. intros b0 b1 b2 b3 H0 H1 H2 H3. unfold byte in *. unfold raw_Instruction21c, spec_21c. cbn [pack]. fin_raw. Qed.

Definition spec_22x (b0 b1 b2 b3 : Z) : list Z := [b0; b1; (b2 + 256 * b3)].
Theorem dec_22x_spec : forall b0 b1 b2 b3 rest, byte b0 -> byte b1 -> byte b2 -> byte b3 ->
  dec_Instruction22x ([b0; b1; b2; b3] ++ rest) = Ok (spec_22x b0 b1 b2 b3).
Proof. intros b0 b1 b2 b3 rest H0 H1 H2 H3. unfold byte in *. decode dec_Instruction22x. unfold spec_22x. fin_dec. Qed.
Theorem raw_22x_spec : forall b0 b1 b2 b3, byte b0 -> byte b1 -> byte b2 -> byte b3 ->
  raw_Instruction22x (spec_22x b0 b1 b2 b3) = Ok [b0; b1; b2; b3].
Proof. intros b0 b1 b2 b3 H0 H1 H2 H3. unfold byte in *. unfold raw_Instruction22x, spec_22x. cbn [pack]. fin_raw. Qed.

Definition spec_20bc (b0 b1 b2 b3 : Z) : list Z := [b0; b1; (b2 + 256 * b3)].
Theorem dec_20bc_spec : forall b0 b1 b2 b3 rest, byte b0 -> byte b1 -> byte b2 -> byte b3 ->
  dec_Instruction20bc ([b0; b1; b2; b3] ++ rest) = Ok (spec_20bc b0 b1 b2 b3).
Proof. intros b0 b1 b2 b3 rest H0 H1 H2 H3. unfold byte in *. decode dec_Instruction20bc. unfold spec_20bc. fin_dec. Qed.
Theorem raw_20bc_spec : forall b0 b1 b2 b3, byte b0 -> byte b1 -> byte b2 -> byte b3 ->
  raw_Instruction20bc (spec_20bc b0 b1 b2 b3) = Ok [b0; b1; b2; b3].
Proof. intros b0 b1 b2 b3 H0 H1 H2 H3. unfold byte in *. unfold raw_Instruction20bc, spec_20bc. cbn [pack]. fin_raw. Qed.

Definition spec_21s (b0 b1 b2 b3 : Z) : list Z := [b0; b1; sx 16 (b2 + 256 * b3)].
Theorem dec_21s_spec : forall b0 b1 b2 b3 rest, byte b0 -> byte b1 -> byte b2 -> byte b3 ->
  dec_Instruction21s ([b0; b1; b2; b3] ++ rest) = Ok (spec_21s b0 b1 b2 b3).
Proof. intros b0 b1 b2 b3 rest H0 H1 H2 H3. unfold byte in *. decode dec_Instruction21s. unfold spec_21s. fin_dec. Qed.
Theorem raw_21s_spec : forall b0 b1 b2 b3, byte b0 -> byte b1 -> byte b2 -> byte b3 ->
  raw_Instruction21s (spec_21s b0 b1 b2 b3) = Ok [b0; b1; b2; b3].
Proof. intros b0 b1 b2 b3 H0 H1 H2 H3. unfold byte in *. unfold raw_Instruction21s, spec_21s. cbn [pack]. fin_raw. Qed.

Definition spec_21t (b0 b1 b2 b3 : Z) : list Z := [b0; b1; sx 16 (b2 + 256 * b3)].
Theorem dec_21t_spec : forall b0 b1 b2 b3 rest, byte b0 -> byte b1 -> byte b2 -> byte b3 ->
  dec_Instruction21t ([b0; b1; b2; b3] ++ rest) = Ok (spec_21t b0 b1 b2 b3).
Proof. intros b0 b1 b2 b3 rest H0 H1 H2 H3. unfold byte in *. decode dec_Instruction21t. unfold spec_21t. fin_dec. Qed.
Theorem raw_21t_spec : forall b0 b1 b2 b3, byte b0 -> byte b1 -> byte b2 -> byte b3 ->
  raw_Instruction21t (spec_21t b0 b1 b2 b3) = Ok [b0; b1; b2; b3].
Proof. intros b0 b1 b2 b3 H0 H1 H2 H3. unfold byte in *. unfold raw_Instruction21t, spec_21t. cbn [pack]. fin_raw. Qed.

Definition spec_22c (b0 b1 b2 b3 : Z) : list Z := [(b2 + 256 * b3); b0; b1 mod 16; b1 / 16].
Theorem dec_22c_spec : forall b0 b1 b2 b3 rest, byte b0 -> byte b1 -> byte b2 -> byte b3 ->
  dec_Instruction22c ([b0; b1; b2; b3] ++ rest) = Ok (spec_22c b0 b1 b2 b3).
Proof. intros b0 b1 b2 b3 rest H0 H1 H2 H3. unfold byte in *. decode dec_Instruction22c. unfold spec_22c. fin_dec. Qed.
Theorem raw_22c_spec : forall b0 b1 b2 b3, byte b0 -> byte b1 -> byte b2 -> byte b3 ->
  raw_Instruction22c (spec_22c b0 b1 b2 b3) = Ok [b0; b1; b2; b3].
Proof. intros b0 b1 b2 b3 H0 H1 H2 H3. unfold byte in *. unfold raw_Instruction22c, spec_22c. cbn [pack]. fin_raw. Qed.

Definition spec_22cs (b0 b1 b2 b3 : Z) : list Z := [(b2 + 256 * b3); b0; b1 mod 16; b1 / 16].
Theorem dec_22cs_spec : forall b0 b1 b2 b3 rest, byte b0 -> byte b1 -> byte b2 -> byte b3 ->
  dec_Instruction22cs ([b0; b1; b2; b3] ++ rest) = Ok (spec_22cs b0 b1 b2 b3).
Proof. intros b0 b1 b2 b3 rest H0 H1 H2 H3. unfold byte in *. decode dec_Instruction22cs. unfold spec_22cs. fin_dec. Qed.
Theorem raw_22cs_spec : forall b0 b1 b2 b3, byte b0 -> byte b1 -> byte b2 -> byte b3 ->
  raw_Instruction22cs (spec_22cs b0 b1 b2 b3) = Ok [b0; b1; b2; b3].
Proof. intros b0 b1 b2 b3 H0 H1 H2 H3. unfold byte in *. unfold raw_Instruction22cs, spec_22cs. cbn [pack]. fin_raw. Qed.

Definition spec_22t (b0 b1 b2 b3 : Z) : list Z := [sx 16 (b2 + 256 * b3); b0; b1 mod 16; b1 / 16].
Theorem dec_22t_spec : forall b0 b1 b2 b3 rest, byte b0 -> byte b1 -> byte b2 -> byte b3 ->
  dec_Instruction22t ([b0; b1; b2; b3] ++ rest) = Ok (spec_22t b0 b1 b2 b3).
Proof. intros b0 b1 b2 b3 rest H0 H1 H2 H3. unfold byte in *. decode dec_Instruction22t. unfold spec_22t. fin_dec. Qed.
Theorem raw_22t_spec : forall b0 b1 b2 b3, byte b0 -> byte b1 -> byte b2 -> byte b3 ->
  raw_Instruction22t (spec_22t b0 b1 b2 b3) = Ok [b0; b1; b2; b3].
Proof. intros b0 b1 b2 b3 H0 H1 H2 H3. unfold byte in *. unfold raw_Instruction22t, spec_22t. cbn [pack]. fin_raw. Qed.

Definition spec_22s (b0 b1 b2 b3 : Z) : list Z := [sx 16 (b2 + 256 * b3); b0; b1 mod 16; b1 / 16].
Theorem dec_22s_spec : forall b0 b1 b2 b3 rest, byte b0 -> byte b1 -> byte b2 -> byte b3 ->
  dec_Instruction22s ([b0; b1; b2; b3] ++ rest) = Ok (spec_22s b0 b1 b2 b3).
Proof. intros b0 b1 b2 b3 rest H0 H1 H2 H3. unfold byte in *. decode dec_Instruction22s. unfold spec_22s. fin_dec. Qed.
Theorem raw_22s_spec : forall b0 b1 b2 b3, byte b0 -> byte b1 -> byte b2 -> byte b3 ->
  raw_Instruction22s (spec_22s b0 b1 b2 b3) = Ok [b0; b1; b2; b3].
Proof. intros b0 b1 b2 b3 H0 H1 H2 H3. unfold byte in *. unfold raw_Instruction22s, spec_22s. cbn [pack]. fin_raw. Qed.

Definition spec_31t (b0 b1 b2 b3 b4 b5 : Z) : list Z := [b0; b1; sx 32 (b2 + 256 * b3 + 65536 * b4 + 16777216 * b5)].
Theorem dec_31t_spec : forall b0 b1 b2 b3 b4 b5 rest, byte b0 -> byte b1 -> byte b2 -> byte b3 -> byte b4 -> byte b5 ->
  dec_Instruction31t ([b0; b1; b2; b3; b4; b5] ++ rest) = Ok (spec_31t b0 b1 b2 b3 b4 b5).
Proof. intros b0 b1 b2 b3 b4 b5 rest H0 H1 H2 H3 H4 H5. unfold byte in *. decode dec_Instruction31t. unfold spec_31t. fin_dec. Qed.
Theorem raw_31t_spec : forall b0 b1 b2 b3 b4 b5, byte b0 -> byte b1 -> byte b2 -> byte b3 -> byte b4 -> byte b5 ->
  raw_Instruction31t (spec_31t b0 b1 b2 b3 b4 b5) = Ok [b0; b1; b2; b3; b4; b5].
Proof. intros b0 b1 b2 b3 b4 b5 H0 H1 H2 H3 H4 H5. unfold byte in *. unfold raw_Instruction31t, spec_31t. cbn [pack]. fin_raw. Qed.

Definition spec_31i (b0 b1 b2 b3 b4 b5 : Z) : list Z := [b0; b1; sx 32 (b2 + 256 * b3 + 65536 * b4 + 16777216 * b5)].
Theorem dec_31i_spec : forall b0 b1 b2 b3 b4 b5 rest, byte b0 -> byte b1 -> byte b2 -> byte b3 -> byte b4 -> byte b5 ->
  dec_Instruction31i ([b0; b1; b2; b3; b4; b5] ++ rest) = Ok (spec_31i b0 b1 b2 b3 b4 b5).
Proof. intros b0 b1 b2 b3 b4 b5 rest H0 H1 H2 H3 H4 H5. unfold byte in *. decode dec_Instruction31i. unfold spec_31i. fin_dec. Qed.
Theorem raw_31i_spec : forall b0 b1 b2 b3 b4 b5, byte b0 -> byte b1 -> byte b2 -> byte b3 -> byte b4 -> byte b5 ->
  raw_Instruction31i (spec_31i b0 b1 b2 b3 b4 b5) = Ok [b0; b1; b2; b3; b4; b5].
Proof. intros b0 b1 b2 b3 b4 b5 H0 H1 H2 H3 H4 H5. unfold byte in *. unfold raw_Instruction31i, spec_31i. cbn [pack]. fin_raw. Qed.

Definition spec_31c (b0 b1 b2 b3 b4 b5 : Z) : list Z := [b0; b1; (b2 + 256 * b3 + 65536 * b4 + 16777216 * b5)].
Theorem dec_31c_spec : forall b0 b1 b2 b3 b4 b5 rest, byte b0 -> byte b1 -> byte b2 -> byte b3 -> byte b4 -> byte b5 ->
  dec_Instruction31c ([b0; b1; b2; b3; b4; b5] ++ rest) = Ok (spec_31c b0 b1 b2 b3 b4 b5).
Proof. intros b0 b1 b2 b3 b4 b5 rest H0 H1 H2 H3 H4 H5. unfold byte in *. decode dec_Instruction31c. unfold spec_31c. fin_dec. Qed.
Theorem raw_31c_spec : forall b0 b1 b2 b3 b4 b5, byte b0 -> byte b1 -> byte b2 -> byte b3 -> byte b4 -> byte b5 ->
  raw_Instruction31c (spec_31c b0 b1 b2 b3 b4 b5) = Ok [b0; b1; b2; b3; b4; b5].
Proof. intros b0 b1 b2 b3 b4 b5 H0 H1 H2 H3 H4 H5. unfold byte in *. unfold raw_Instruction31c, spec_31c. cbn [pack]. fin_raw. Qed.

Definition spec_12x (b0 b1 : Z) : list Z := [b0; b1 mod 16; b1 / 16].
Theorem dec_12x_spec : forall b0 b1 rest, byte b0 -> byte b1 ->
  dec_Instruction12x ([b0; b1] ++ rest) = Ok (spec_12x b0 b1).
Proof. intros b0 b1 rest H0 H1. unfold byte in *. decode dec_Instruction12x. unfold spec_12x. fin_dec. Qed.
Theorem raw_12x_spec : forall b0 b1, byte b0 -> byte b1 ->
  raw_Instruction12x (spec_12x b0 b1) = Ok [b0; b1].
Proof. intros b0 b1 H0 H1. unfold byte in *. unfold raw_Instruction12x, spec_12x. cbn [pack]. fin_raw. Qed.

Definition spec_11x (b0 b1 : Z) : list Z := [b0; b1].
Theorem dec_11x_spec : forall b0 b1 rest, byte b0 -> byte b1 ->
  dec_Instruction11x ([b0; b1] ++ rest) = Ok (spec_11x b0 b1).
Proof. intros b0 b1 rest H0 H1. unfold byte in *. decode dec_Instruction11x. unfold spec_11x. fin_dec. Qed.
Theorem raw_11x_spec : forall b0 b1, byte b0 -> byte b1 ->
  raw_Instruction11x (spec_11x b0 b1) = Ok [b0; b1].
Proof. intros b0 b1 H0 H1. unfold byte in *. unfold raw_Instruction11x, spec_11x. cbn [pack]. fin_raw. Qed.

Definition spec_10t (b0 b1 : Z) : list Z := [b0; sx 8 b1].
Theorem dec_10t_spec : forall b0 b1 rest, byte b0 -> byte b1 ->
  dec_Instruction10t ([b0; b1] ++ rest) = Ok (spec_10t b0 b1).
Proof. intros b0 b1 rest H0 H1. unfold byte in *. decode dec_Instruction10t. unfold spec_10t. fin_dec. Qed.
Theorem raw_10t_spec : forall b0 b1, byte b0 -> byte b1 ->
  raw_Instruction10t (spec_10t b0 b1) = Ok [b0; b1].
Proof. intros b0 b1 H0 H1. unfold byte in *. unfold raw_Instruction10t, spec_10t. cbn [pack]. fin_raw. Qed.

Definition spec_51l (b0 b1 b2 b3 b4 b5 b6 b7 b8 b9 : Z) : list Z := [b0; b1; sx 64 (b2 + 256 * b3 + 65536 * b4 + 16777216 * b5 + 4294967296 * b6 + 1099511627776 * b7 + 281474976710656 * b8 + 72057594037927936 * b9)].
Theorem dec_51l_spec : forall b0 b1 b2 b3 b4 b5 b6 b7 b8 b9 rest, byte b0 -> byte b1 -> byte b2 -> byte b3 -> byte b4 -> byte b5 -> byte b6 -> byte b7 -> byte b8 -> byte b9 ->
  dec_Instruction51l ([b0; b1; b2; b3; b4; b5; b6; b7; b8; b9] ++ rest) = Ok (spec_51l b0 b1 b2 b3 b4 b5 b6 b7 b8 b9).
Proof. intros b0 b1 b2 b3 b4 b5 b6 b7 b8 b9 rest H0 H1 H2 H3 H4 H5 H6 H7 H8 H9. unfold byte in *. decode dec_Instruction51l. unfold spec_51l. fin_dec. Qed.
Theorem raw_51l_spec : forall b0 b1 b2 b3 b4 b5 b6 b7 b8 b9, byte b0 -> byte b1 -> byte b2 -> byte b3 -> byte b4 -> byte b5 -> byte b6 -> byte b7 -> byte b8 -> byte b9 ->
  raw_Instruction51l (spec_51l b0 b1 b2 b3 b4 b5 b6 b7 b8 b9) = Ok [b0; b1; b2; b3; b4; b5; b6; b7; b8; b9].
Proof. intros b0 b1 b2 b3 b4 b5 b6 b7 b8 b9 H0 H1 H2 H3 H4 H5 H6 H7 H8 H9. unfold byte in *. unfold raw_Instruction51l, spec_51l. cbn [pack]. fin_raw. Qed.

Definition spec_23x (b0 b1 b2 b3 : Z) : list Z := [b0; b1; b2; b3].
Theorem dec_23x_spec : forall b0 b1 b2 b3 rest, byte b0 -> byte b1 -> byte b2 -> byte b3 ->
  dec_Instruction23x ([b0; b1; b2; b3] ++ rest) = Ok (spec_23x b0 b1 b2 b3).
Proof. intros b0 b1 b2 b3 rest H0 H1 H2 H3. unfold byte in *. decode dec_Instruction23x. unfold spec_23x. fin_dec. Qed.
Theorem raw_23x_spec : forall b0 b1 b2 b3, byte b0 -> byte b1 -> byte b2 -> byte b3 ->
  raw_Instruction23x (spec_23x b0 b1 b2 b3) = Ok [b0; b1; b2; b3].
Proof. intros b0 b1 b2 b3 H0 H1 H2 H3. unfold byte in *. unfold raw_Instruction23x, spec_23x. cbn [pack]. fin_raw. Qed.

Definition spec_22b (b0 b1 b2 b3 : Z) : list Z := [b0; b1; b2; sx 8 b3].
Theorem dec_22b_spec : forall b0 b1 b2 b3 rest, byte b0 -> byte b1 -> byte b2 -> byte b3 ->
  dec_Instruction22b ([b0; b1; b2; b3] ++ rest) = Ok (spec_22b b0 b1 b2 b3).
Proof. intros b0 b1 b2 b3 rest H0 H1 H2 H3. unfold byte in *. decode dec_Instruction22b. unfold spec_22b. fin_dec. Qed.
Theorem raw_22b_spec : forall b0 b1 b2 b3, byte b0 -> byte b1 -> byte b2 -> byte b3 ->
  raw_Instruction22b (spec_22b b0 b1 b2 b3) = Ok [b0; b1; b2; b3].
Proof. intros b0 b1 b2 b3 H0 H1 H2 H3. unfold byte in *. unfold raw_Instruction22b, spec_22b. cbn [pack]. fin_raw. Qed.

Definition spec_20t (b0 b1 b2 b3 : Z) : list Z := [b0; sx 16 (b2 + 256 * b3)].
Theorem dec_20t_spec : forall b0 b1 b2 b3 rest, byte b0 -> byte b1 -> byte b2 -> byte b3 -> b1 = 0 ->
  dec_Instruction20t ([b0; b1; b2; b3] ++ rest) = Ok (spec_20t b0 b1 b2 b3).
Proof. intros b0 b1 b2 b3 rest H0 H1 H2 H3 Hg. unfold byte in *. decode dec_Instruction20t. unfold spec_20t. fin_dec. Qed.
Theorem raw_20t_spec : forall b0 b1 b2 b3, byte b0 -> byte b1 -> byte b2 -> byte b3 -> b1 = 0 ->
  raw_Instruction20t (spec_20t b0 b1 b2 b3) = Ok [b0; b1; b2; b3].
Proof. intros b0 b1 b2 b3 H0 H1 H2 H3 Hg. unfold byte in *. unfold raw_Instruction20t, spec_20t. cbn [pack]. fin_raw. Qed.

Definition spec_30t (b0 b1 b2 b3 b4 b5 : Z) : list Z := [b0; sx 32 (b2 + 256 * b3 + 65536 * b4 + 16777216 * b5)].
Theorem dec_30t_spec : forall b0 b1 b2 b3 b4 b5 rest, byte b0 -> byte b1 -> byte b2 -> byte b3 -> byte b4 -> byte b5 -> b1 = 0 ->
  dec_Instruction30t ([b0; b1; b2; b3; b4; b5] ++ rest) = Ok (spec_30t b0 b1 b2 b3 b4 b5).
Proof. intros b0 b1 b2 b3 b4 b5 rest H0 H1 H2 H3 H4 H5 Hg. unfold byte in *. decode dec_Instruction30t. unfold spec_30t. fin_dec. Qed.
Theorem raw_30t_spec : forall b0 b1 b2 b3 b4 b5, byte b0 -> byte b1 -> byte b2 -> byte b3 -> byte b4 -> byte b5 -> b1 = 0 ->
  raw_Instruction30t (spec_30t b0 b1 b2 b3 b4 b5) = Ok [b0; b1; b2; b3; b4; b5].
Proof. intros b0 b1 b2 b3 b4 b5 H0 H1 H2 H3 H4 H5 Hg. unfold byte in *. unfold raw_Instruction30t, spec_30t. cbn [pack]. fin_raw. Qed.

Definition spec_3rc (b0 b1 b2 b3 b4 b5 : Z) : list Z := [b0; b1; (b2 + 256 * b3); (b4 + 256 * b5); (b4 + 256 * b5) + b1 - 1].
Theorem dec_3rc_spec : forall b0 b1 b2 b3 b4 b5 rest, byte b0 -> byte b1 -> byte b2 -> byte b3 -> byte b4 -> byte b5 ->
  dec_Instruction3rc ([b0; b1; b2; b3; b4; b5] ++ rest) = Ok (spec_3rc b0 b1 b2 b3 b4 b5).
Proof. intros b0 b1 b2 b3 b4 b5 rest H0 H1 H2 H3 H4 H5. unfold byte in *. decode dec_Instruction3rc. unfold spec_3rc. fin_dec. Qed.
Theorem raw_3rc_spec : forall b0 b1 b2 b3 b4 b5, byte b0 -> byte b1 -> byte b2 -> byte b3 -> byte b4 -> byte b5 ->
  raw_Instruction3rc (spec_3rc b0 b1 b2 b3 b4 b5) = Ok [b0; b1; b2; b3; b4; b5].
Proof. intros b0 b1 b2 b3 b4 b5 H0 H1 H2 H3 H4 H5. unfold byte in *. unfold raw_Instruction3rc, spec_3rc. cbn [pack]. fin_raw. Qed.

Definition spec_3rmi (b0 b1 b2 b3 b4 b5 : Z) : list Z := [b0; b1; (b2 + 256 * b3); (b4 + 256 * b5); (b4 + 256 * b5) + b1 - 1].
Theorem dec_3rmi_spec : forall b0 b1 b2 b3 b4 b5 rest, byte b0 -> byte b1 -> byte b2 -> byte b3 -> byte b4 -> byte b5 ->
  dec_Instruction3rmi ([b0; b1; b2; b3; b4; b5] ++ rest) = Ok (spec_3rmi b0 b1 b2 b3 b4 b5).
Proof. intros b0 b1 b2 b3 b4 b5 rest H0 H1 H2 H3 H4 H5. unfold byte in *. decode dec_Instruction3rmi. unfold spec_3rmi. fin_dec. Qed.
Theorem raw_3rmi_spec : forall b0 b1 b2 b3 b4 b5, byte b0 -> byte b1 -> byte b2 -> byte b3 -> byte b4 -> byte b5 ->
  raw_Instruction3rmi (spec_3rmi b0 b1 b2 b3 b4 b5) = Ok [b0; b1; b2; b3; b4; b5].
Proof. intros b0 b1 b2 b3 b4 b5 H0 H1 H2 H3 H4 H5. unfold byte in *. unfold raw_Instruction3rmi, spec_3rmi. cbn [pack]. fin_raw. Qed.

Definition spec_3rms (b0 b1 b2 b3 b4 b5 : Z) : list Z := [b0; b1; (b2 + 256 * b3); (b4 + 256 * b5); (b4 + 256 * b5) + b1 - 1].
Theorem dec_3rms_spec : forall b0 b1 b2 b3 b4 b5 rest, byte b0 -> byte b1 -> byte b2 -> byte b3 -> byte b4 -> byte b5 ->
  dec_Instruction3rms ([b0; b1; b2; b3; b4; b5] ++ rest) = Ok (spec_3rms b0 b1 b2 b3 b4 b5).
Proof. intros b0 b1 b2 b3 b4 b5 rest H0 H1 H2 H3 H4 H5. unfold byte in *. decode dec_Instruction3rms. unfold spec_3rms. fin_dec. Qed.
Theorem raw_3rms_spec : forall b0 b1 b2 b3 b4 b5, byte b0 -> byte b1 -> byte b2 -> byte b3 -> byte b4 -> byte b5 ->
  raw_Instruction3rms (spec_3rms b0 b1 b2 b3 b4 b5) = Ok [b0; b1; b2; b3; b4; b5].
Proof. intros b0 b1 b2 b3 b4 b5 H0 H1 H2 H3 H4 H5. unfold byte in *. unfold raw_Instruction3rms, spec_3rms. cbn [pack]. fin_raw. Qed.

Definition spec_32x (b0 b1 b2 b3 b4 b5 : Z) : list Z := [b0; (b2 + 256 * b3); (b4 + 256 * b5)].
Theorem dec_32x_spec : forall b0 b1 b2 b3 b4 b5 rest, byte b0 -> byte b1 -> byte b2 -> byte b3 -> byte b4 -> byte b5 -> b1 = 0 ->
  dec_Instruction32x ([b0; b1; b2; b3; b4; b5] ++ rest) = Ok (spec_32x b0 b1 b2 b3 b4 b5).
Proof. intros b0 b1 b2 b3 b4 b5 rest H0 H1 H2 H3 H4 H5 Hg. unfold byte in *. decode dec_Instruction32x. unfold spec_32x. fin_dec. Qed.
Theorem raw_32x_spec : forall b0 b1 b2 b3 b4 b5, byte b0 -> byte b1 -> byte b2 -> byte b3 -> byte b4 -> byte b5 -> b1 = 0 ->
  raw_Instruction32x (spec_32x b0 b1 b2 b3 b4 b5) = Ok [b0; b1; b2; b3; b4; b5].
Proof. intros b0 b1 b2 b3 b4 b5 H0 H1 H2 H3 H4 H5 Hg. unfold byte in *. unfold raw_Instruction32x, spec_32x. cbn [pack]. fin_raw. Qed.

Definition spec_41c (b0 b1 b2 b3 b4 b5 b6 b7 : Z) : list Z := [(b0 + 256 * b1); (b2 + 256 * b3 + 65536 * b4 + 16777216 * b5); (b6 + 256 * b7)].
Theorem dec_41c_spec : forall b0 b1 b2 b3 b4 b5 b6 b7 rest, byte b0 -> byte b1 -> byte b2 -> byte b3 -> byte b4 -> byte b5 -> byte b6 -> byte b7 ->
  dec_Instruction41c ([b0; b1; b2; b3; b4; b5; b6; b7] ++ rest) = Ok (spec_41c b0 b1 b2 b3 b4 b5 b6 b7).
Proof. intros b0 b1 b2 b3 b4 b5 b6 b7 rest H0 H1 H2 H3 H4 H5 H6 H7. unfold byte in *. decode dec_Instruction41c. unfold spec_41c. fin_dec. Qed.
Theorem raw_41c_spec : forall b0 b1 b2 b3 b4 b5 b6 b7, byte b0 -> byte b1 -> byte b2 -> byte b3 -> byte b4 -> byte b5 -> byte b6 -> byte b7 ->
  raw_Instruction41c (spec_41c b0 b1 b2 b3 b4 b5 b6 b7) = Ok [b0; b1; b2; b3; b4; b5; b6; b7].
Proof. intros b0 b1 b2 b3 b4 b5 b6 b7 H0 H1 H2 H3 H4 H5 H6 H7. unfold byte in *. unfold raw_Instruction41c, spec_41c. cbn [pack]. fin_raw. Qed.

Definition spec_40sc (b0 b1 b2 b3 b4 b5 b6 b7 : Z) : list Z := [(b0 + 256 * b1); (b2 + 256 * b3 + 65536 * b4 + 16777216 * b5); (b6 + 256 * b7)].
Theorem dec_40sc_spec : forall b0 b1 b2 b3 b4 b5 b6 b7 rest, byte b0 -> byte b1 -> byte b2 -> byte b3 -> byte b4 -> byte b5 -> byte b6 -> byte b7 ->
  dec_Instruction40sc ([b0; b1; b2; b3; b4; b5; b6; b7] ++ rest) = Ok (spec_40sc b0 b1 b2 b3 b4 b5 b6 b7).
Proof. intros b0 b1 b2 b3 b4 b5 b6 b7 rest H0 H1 H2 H3 H4 H5 H6 H7. unfold byte in *. decode dec_Instruction40sc. unfold spec_40sc. fin_dec. Qed.
Theorem raw_40sc_spec : forall b0 b1 b2 b3 b4 b5 b6 b7, byte b0 -> byte b1 -> byte b2 -> byte b3 -> byte b4 -> byte b5 -> byte b6 -> byte b7 ->
  raw_Instruction40sc (spec_40sc b0 b1 b2 b3 b4 b5 b6 b7) = Ok [b0; b1; b2; b3; b4; b5; b6; b7].
Proof. intros b0 b1 b2 b3 b4 b5 b6 b7 H0 H1 H2 H3 H4 H5 H6 H7. unfold byte in *. unfold raw_Instruction40sc, spec_40sc. cbn [pack]. fin_raw. Qed.

Definition spec_52c (b0 b1 b2 b3 b4 b5 b6 b7 b8 b9 : Z) : list Z := [(b0 + 256 * b1); (b2 + 256 * b3 + 65536 * b4 + 16777216 * b5); (b6 + 256 * b7); (b8 + 256 * b9)].
Theorem dec_52c_spec : forall b0 b1 b2 b3 b4 b5 b6 b7 b8 b9 rest, byte b0 -> byte b1 -> byte b2 -> byte b3 -> byte b4 -> byte b5 -> byte b6 -> byte b7 -> byte b8 -> byte b9 ->
  dec_Instruction52c ([b0; b1; b2; b3; b4; b5; b6; b7; b8; b9] ++ rest) = Ok (spec_52c b0 b1 b2 b3 b4 b5 b6 b7 b8 b9).
Proof. intros b0 b1 b2 b3 b4 b5 b6 b7 b8 b9 rest H0 H1 H2 H3 H4 H5 H6 H7 H8 H9. unfold byte in *. decode dec_Instruction52c. unfold spec_52c. fin_dec. Qed.
Theorem raw_52c_spec : forall b0 b1 b2 b3 b4 b5 b6 b7 b8 b9, byte b0 -> byte b1 -> byte b2 -> byte b3 -> byte b4 -> byte b5 -> byte b6 -> byte b7 -> byte b8 -> byte b9 ->
  raw_Instruction52c (spec_52c b0 b1 b2 b3 b4 b5 b6 b7 b8 b9) = Ok [b0; b1; b2; b3; b4; b5; b6; b7; b8; b9].
Proof. intros b0 b1 b2 b3 b4 b5 b6 b7 b8 b9 H0 H1 H2 H3 H4 H5 H6 H7 H8 H9. unfold byte in *. unfold raw_Instruction52c, spec_52c. cbn [pack]. fin_raw. Qed.

Definition spec_5rc (b0 b1 b2 b3 b4 b5 b6 b7 b8 b9 : Z) : list Z := [(b0 + 256 * b1); (b2 + 256 * b3 + 65536 * b4 + 16777216 * b5); (b6 + 256 * b7); (b8 + 256 * b9); (b8 + 256 * b9) + (b6 + 256 * b7) - 1].
Theorem dec_5rc_spec : forall b0 b1 b2 b3 b4 b5 b6 b7 b8 b9 rest, byte b0 -> byte b1 -> byte b2 -> byte b3 -> byte b4 -> byte b5 -> byte b6 -> byte b7 -> byte b8 -> byte b9 ->
  dec_Instruction5rc ([b0; b1; b2; b3; b4; b5; b6; b7; b8; b9] ++ rest) = Ok (spec_5rc b0 b1 b2 b3 b4 b5 b6 b7 b8 b9).
Proof. intros b0 b1 b2 b3 b4 b5 b6 b7 b8 b9 rest H0 H1 H2 H3 H4 H5 H6 H7 H8 H9. unfold byte in *. decode dec_Instruction5rc. unfold spec_5rc. fin_dec. Qed.
Theorem raw_5rc_spec : forall b0 b1 b2 b3 b4 b5 b6 b7 b8 b9, byte b0 -> byte b1 -> byte b2 -> byte b3 -> byte b4 -> byte b5 -> byte b6 -> byte b7 -> byte b8 -> byte b9 ->
  raw_Instruction5rc (spec_5rc b0 b1 b2 b3 b4 b5 b6 b7 b8 b9) = Ok [b0; b1; b2; b3; b4; b5; b6; b7; b8; b9].
Proof. intros b0 b1 b2 b3 b4 b5 b6 b7 b8 b9 H0 H1 H2 H3 H4 H5 H6 H7 H8 H9. unfold byte in *. unfold raw_Instruction5rc, spec_5rc. cbn [pack]. fin_raw. Qed.

Definition spec_45cc (b0 b1 b2 b3 b4 b5 b6 b7 : Z) : list Z := [b0; (b2 + 256 * b3); (b6 + 256 * b7); b1 / 16; b1 mod 16; b4 / 16; b4 mod 16; b5 / 16; b5 mod 16].
Theorem dec_45cc_spec : forall b0 b1 b2 b3 b4 b5 b6 b7 rest, byte b0 -> byte b1 -> byte b2 -> byte b3 -> byte b4 -> byte b5 -> byte b6 -> byte b7 -> b1 / 16 <= 5 ->
  dec_Instruction45cc ([b0; b1; b2; b3; b4; b5; b6; b7] ++ rest) = Ok (spec_45cc b0 b1 b2 b3 b4 b5 b6 b7).
Proof. intros b0 b1 b2 b3 b4 b5 b6 b7 rest H0 H1 H2 H3 H4 H5 H6 H7 Hg. unfold byte in *. decode dec_Instruction45cc. unfold spec_45cc. fin_dec. Qed.
Theorem raw_45cc_spec : forall b0 b1 b2 b3 b4 b5 b6 b7, byte b0 -> byte b1 -> byte b2 -> byte b3 -> byte b4 -> byte b5 -> byte b6 -> byte b7 -> b1 / 16 <= 5 ->
  raw_Instruction45cc (spec_45cc b0 b1 b2 b3 b4 b5 b6 b7) = Ok [b0; b1; b2; b3; b4; b5; b6; b7].
Proof. intros b0 b1 b2 b3 b4 b5 b6 b7 H0 H1 H2 H3 H4 H5 H6 H7 Hg. unfold byte in *. unfold raw_Instruction45cc, spec_45cc. cbn [pack]. fin_raw. Qed.

Definition spec_4rcc (b0 b1 b2 b3 b4 b5 b6 b7 : Z) : list Z := [b0; b1; (b2 + 256 * b3); (b4 + 256 * b5); (b6 + 256 * b7); b1 + (b4 + 256 * b5) - 1].
Theorem dec_4rcc_spec : forall b0 b1 b2 b3 b4 b5 b6 b7 rest, byte b0 -> byte b1 -> byte b2 -> byte b3 -> byte b4 -> byte b5 -> byte b6 -> byte b7 ->
  dec_Instruction4rcc ([b0; b1; b2; b3; b4; b5; b6; b7] ++ rest) = Ok (spec_4rcc b0 b1 b2 b3 b4 b5 b6 b7).
Proof. intros b0 b1 b2 b3 b4 b5 b6 b7 rest H0 H1 H2 H3 H4 H5 H6 H7. unfold byte in *. decode dec_Instruction4rcc. unfold spec_4rcc. fin_dec. Qed.
Theorem raw_4rcc_spec : forall b0 b1 b2 b3 b4 b5 b6 b7, byte b0 -> byte b1 -> byte b2 -> byte b3 -> byte b4 -> byte b5 -> byte b6 -> byte b7 ->
  raw_Instruction4rcc (spec_4rcc b0 b1 b2 b3 b4 b5 b6 b7) = Ok [b0; b1; b2; b3; b4; b5; b6; b7].
Proof. intros b0 b1 b2 b3 b4 b5 b6 b7 H0 H1 H2 H3 H4 H5 H6 H7. unfold byte in *. unfold raw_Instruction4rcc, spec_4rcc. cbn [pack]. fin_raw. Qed.

(* ---- the opcode table of the Dalvik bytecode document: opcode -> format (as the class that implements it) ---- *)
Definition between (lo hi x : Z) : bool := (lo <=? x) && (x <=? hi).
Definition spec_class (op : Z) : Z :=
  if (op =? 0) || (op =? 14) then cls_Instruction10x
  else if (op =? 1) || (op =? 4) || (op =? 7) || (op =? 33) || between 123 143 op || between 176 207 op then cls_Instruction12x
  else if (op =? 2) || (op =? 5) || (op =? 8) then cls_Instruction22x
  else if (op =? 3) || (op =? 6) || (op =? 9) then cls_Instruction32x
  else if between 10 13 op || between 15 17 op || between 29 30 op || (op =? 39) then cls_Instruction11x
  else if op =? 18 then cls_Instruction11n
  else if (op =? 19) || (op =? 22) then cls_Instruction21s
  else if (op =? 20) || (op =? 23) then cls_Instruction31i
  else if (op =? 21) || (op =? 25) then cls_Instruction21h
  else if op =? 24 then cls_Instruction51l
  else if (op =? 26) || (op =? 28) || (op =? 31) || (op =? 34) || between 96 109 op || between 254 255 op then cls_Instruction21c
  else if op =? 27 then cls_Instruction31c
  else if (op =? 32) || (op =? 35) || between 82 95 op then cls_Instruction22c
  else if (op =? 36) || between 110 114 op || (op =? 252) then cls_Instruction35c
  else if (op =? 37) || between 116 120 op || (op =? 253) then cls_Instruction3rc
  else if (op =? 38) || between 43 44 op then cls_Instruction31t
  else if op =? 40 then cls_Instruction10t
  else if op =? 41 then cls_Instruction20t
  else if op =? 42 then cls_Instruction30t
  else if between 45 49 op || between 68 81 op || between 144 175 op then cls_Instruction23x
  else if between 50 55 op then cls_Instruction22t
  else if between 56 61 op then cls_Instruction21t
  else if between 208 215 op then cls_Instruction22s
  else if between 216 226 op then cls_Instruction22b
  else if op =? 250 then cls_Instruction45cc
  else if op =? 251 then cls_Instruction4rcc
  else cls_Instruction00x.        (* unused: 3e..43, 73, 79, 7a, e3..f9 *)
(* code units of each format *)
Definition spec_units (c : Z) : Z :=
  if (c =? cls_Instruction10x) || (c =? cls_Instruction12x) || (c =? cls_Instruction11n) || (c =? cls_Instruction11x) ||
     (c =? cls_Instruction10t) then 1
  else if (c =? cls_Instruction20t) || (c =? cls_Instruction22x) || (c =? cls_Instruction21t) || (c =? cls_Instruction21s) ||
          (c =? cls_Instruction21h) || (c =? cls_Instruction21c) || (c =? cls_Instruction23x) || (c =? cls_Instruction22b) ||
          (c =? cls_Instruction22t) || (c =? cls_Instruction22s) || (c =? cls_Instruction22c) then 2
  else if (c =? cls_Instruction30t) || (c =? cls_Instruction32x) || (c =? cls_Instruction31i) || (c =? cls_Instruction31t) ||
          (c =? cls_Instruction31c) || (c =? cls_Instruction35c) || (c =? cls_Instruction3rc) then 3
  else if (c =? cls_Instruction45cc) || (c =? cls_Instruction4rcc) then 4
  else if c =? cls_Instruction51l then 5 else 0.

Definition table_row_ok (op : Z) : bool :=
  match find (fun r => fst r =? op) table_format with
  | Some (_, (c, _)) => (c =? spec_class op) && (len_of_class c =? 2 * spec_units c)
  | None => false
  end.
Theorem opcode_table_matches_dalvik : forall op, 0 <= op < 256 -> table_row_ok op = true.
Proof.
  assert (A : V.Lib.Sweep.all8 table_row_ok = true) by (vm_compute; reflexivity).
  intros op H. exact (V.Lib.Sweep.all8_spec _ A op H).
Qed.
Theorem unused_opcodes_rejected : forall bs, dec_of_class cls_Instruction00x bs = Err InvalidInstruction.
Proof. reflexivity. Qed.
