(* Hand-written model of the LEB128 readers and writers of androguard/core/dex/__init__.py
   (readuleb128, readuleb128p1, readsleb128, writeuleb128, writesleb128), statement by statement.
   A buffer is the list of bytes from the current position on; reading returns the rest.
   Tied to the source by coq/Dex/LebTie.v (regenerated syntax tree run by the PyLite interpreter)
   and by the correspondence stream of tools/props/c03.py. *)
From Coq Require Import ZArith List Bool.
Require Import V.Lib.Val V.Lib.Result.
Import ListNotations.
Open Scope Z_scope.

(* get_byte: struct "B" unpack of buff.read(1); an empty read raises struct.error *)
Definition get_byte (bs : list Z) : result (Z * list Z) :=
  match bs with b :: t => Ok (b, t) | [] => Err StructError end.

Definition read_u (bs : list Z) : result (Z * list Z) :=
  do '(res, bs) <- get_byte bs;
  if res >? 127 then
    do '(cur, bs) <- get_byte bs;
    let res := Z.lor (Z.land res 127) (Z.shiftl (Z.land cur 127) 7) in
    if cur >? 127 then
      do '(cur, bs) <- get_byte bs;
      let res := Z.lor res (Z.shiftl (Z.land cur 127) 14) in
      if cur >? 127 then
        do '(cur, bs) <- get_byte bs;
        let res := Z.lor res (Z.shiftl (Z.land cur 127) 21) in
        if cur >? 127 then
          do '(cur, bs) <- get_byte bs;
          Ok (Z.lor res (Z.shiftl (Z.land cur 15) 28), bs)
        else Ok (res, bs)
      else Ok (res, bs)
    else Ok (res, bs)
  else Ok (res, bs).

Definition read_up1 (bs : list Z) : result (Z * list Z) :=
  do '(v, bs) <- read_u bs; Ok (v - 1, bs).

(* for x in range(0, 5): ... break *)
Fixpoint read_s_loop (n : nat) (res shift : Z) (bs : list Z) : result (Z * list Z) :=
  match n with
  | O => Ok (res, bs)
  | S n' =>
      do '(cur, bs) <- get_byte bs;
      let res := Z.lor res (Z.shiftl (Z.land cur 127) shift) in
      let shift := shift + 7 in
      if Z.land cur 128 =? 0 then
        let bit_left := Z.max (32 - shift) 0 in
        let res := Z.land (Z.shiftl res bit_left) 4294967295 in
        let res := if res >? 2147483647 then Z.land 2147483647 res - 2147483648 else res in
        Ok (Z.shiftr res bit_left, bs)
      else read_s_loop n' res shift bs
  end.
Definition read_s (bs : list Z) : result (Z * list Z) := read_s_loop 5 0 0 bs.

(* cm.packer["B"].pack(x): struct.error outside 0..255 *)
Definition pack_B (x : Z) : result (list Z) :=
  if (0 <=? x) && (x <=? 255) then Ok [x] else Err StructError.

(* while remaining > 0: ...   (fuel: one iteration per 7 bits of the value) *)
Fixpoint write_u_loop (fuel : nat) (value remaining : Z) (buff : list Z) : result (list Z) :=
  match fuel with
  | O => Err OutOfFuel
  | S f =>
      if remaining >? 0 then
        do b <- pack_B (Z.lor (Z.land value 127) 128);
        write_u_loop f remaining (Z.shiftr remaining 7) (buff ++ b)
      else
        do b <- pack_B (Z.land value 127); Ok (buff ++ b)
  end.
Definition write_u_fuel (fuel : nat) (value : Z) : result (list Z) :=
  if value <? 0 then Err ValueError else write_u_loop fuel value (Z.shiftr value 7) [].
Definition write_u := write_u_fuel 40.

Fixpoint write_s_loop (fuel : nat) (value remaining end_ : Z) (buff : list Z) : result (list Z) :=
  match fuel with
  | O => Err OutOfFuel
  | S f =>
      let hasMore := negb (remaining =? end_)
                     || negb (Z.land remaining 1 =? Z.land (Z.shiftr value 6) 1) in
      let tmp := if hasMore then 128 else 0 in
      do b <- pack_B (Z.lor (Z.land value 127) tmp);
      if hasMore then write_s_loop f remaining (Z.shiftr remaining 7) end_ (buff ++ b)
      else Ok (buff ++ b)
  end.
Definition write_s_fuel (fuel : nat) (value : Z) : result (list Z) :=
  let end_ := if Z.land value (- 9223372036854775807 - 1) =? 0 then 0 else -1 in
  write_s_loop fuel value (Z.shiftr value 7) end_ [].
Definition write_s := write_s_fuel 40.

(* observations for the correspondence check *)
Definition vread (r : result (Z * list Z)) : val :=
  vres (fun '(v, rest) => VList [VZ v; VZ (Z.of_nat (length rest))]) r.
Definition obs_leb (c : Z * Z * list Z) : val :=
  let '(which, v, bs) := c in
  if which =? 0 then vread (read_u bs)
  else if which =? 1 then vread (read_up1 bs)
  else if which =? 2 then vread (read_s bs)
  else if which =? 3 then vres VStr (write_u v)
  else vres VStr (write_s v).
