(* C02 - hand-written model of LinearSweepAlgorithm.get_instructions and of the three payload
   pseudo-instructions PackedSwitch, SparseSwitch, FillArrayData (constructor, get_length, get_raw)
   of androguard/core/dex/__init__.py.  Ordinary instructions are the generated classes of
   coq/gen/Gen_Insn.v (translated from the source on every run), reached through InsnModel.get_instruction.
   A buffer is a list of bytes; offsets are bytes.  The while loop runs on fuel.
   Tied to the source by tools/props/c02.py. *)
From Coq Require Import ZArith List Bool.
Require Import V.Lib.Val V.Lib.Result V.Lib.Struct V.gen.Gen_Insn V.Dex.InsnModel.
Import ListNotations.
Open Scope Z_scope.

Definition zlen (l : list Z) : Z := Z.of_nat (length l).
(* bs[a:b] for 0 <= a; the bounds come from the file and can be huge, so the recursion is on the list *)
Fixpoint take (l : list Z) (n : Z) : list Z :=
  match l with [] => [] | x :: t => if n <=? 0 then [] else x :: take t (n - 1) end.
Fixpoint drop (l : list Z) (n : Z) : list Z :=
  match l with [] => [] | x :: t => if n <=? 0 then l else drop t (n - 1) end.
Definition slice (bs : list Z) (a b : Z) : list Z := take (drop bs a) (b - a).
(* struct.error inside a payload constructor becomes InvalidInstruction (get_instruction_payload) *)
Definition unpack1 (s : fspec) (bs : list Z) : result Z :=
  match unpack [s] bs with Ok [v] => Ok v | Ok _ => Err OtherError | Err _ => Err InvalidInstruction end.
Definition pack_or_invalid (specs : list fspec) (vs : list Z) : result (list Z) := pack specs vs.

(* cm.packer["l"].unpack(buff[idx:idx+4]) n times *)
Fixpoint read_s32s (n : nat) (bs : list Z) (idx : Z) : result (list Z) :=
  match n with
  | O => Ok []
  | S n' => match unpack1 (FS 4) (slice bs idx (idx + 4)) with
            | Err e => Err e
            | Ok v => match read_s32s n' bs (idx + 4) with Ok vs => Ok (v :: vs) | Err e => Err e end
            end
  end.
Fixpoint pack_s32s (vs : list Z) : result (list Z) :=
  match vs with
  | [] => Ok []
  | v :: t => match pack [FS 4] [v] with
              | Err e => Err e
              | Ok b => match pack_s32s t with Ok bs => Ok (b ++ bs) | Err e => Err e end
              end
  end.

(* an object the sweep yields: its get_length() and get_raw() *)
Record item := { it_len : Z; it_raw : result (list Z); it_kind : Z }.   (* kind: 0 instruction, 1 packed, 2 sparse, 3 fill *)

(* PackedSwitch(cm, buff) *)
Definition packed_switch (buff : list Z) : result item :=
  match unpack [FU 2; FU 2; FS 4] (slice buff 0 8) with
  | Ok [ident; size; first_key] =>
      let max_size := if zlen buff <? size * 4 then zlen buff - 8 - 8 else size in
      match read_s32s (Z.to_nat max_size) buff 8 with
      | Err e => Err e
      | Ok targets =>
          Ok {| it_len := 8 + size * 4;
                it_raw := match pack [FU 2; FU 2; FS 4] [ident; size; first_key], pack_s32s targets with
                          | Ok h, Ok t => Ok (h ++ t) | Err e, _ => Err e | _, Err e => Err e end;
                it_kind := 1 |}
      end
  | Ok _ => Err OtherError
  | Err _ => Err InvalidInstruction
  end.
(* SparseSwitch(cm, buff) *)
Definition sparse_switch (buff : list Z) : result item :=
  match unpack [FU 2; FU 2] (slice buff 0 4) with
  | Ok [ident; size] =>
      match read_s32s (Z.to_nat size) buff 4 with
      | Err e => Err e
      | Ok keys =>
          match read_s32s (Z.to_nat size) buff (4 + 4 * size) with
          | Err e => Err e
          | Ok targets =>
              Ok {| it_len := 4 + size * 4 * 2;
                    it_raw := match pack [FU 2; FU 2] [ident; size], pack_s32s keys, pack_s32s targets with
                              | Ok h, Ok k, Ok t => Ok (h ++ k ++ t) | Err e, _, _ => Err e | _, Err e, _ => Err e | _, _, Err e => Err e end;
                    it_kind := 2 |}
          end
      end
  | Ok _ => Err OtherError
  | Err _ => Err InvalidInstruction
  end.
(* FillArrayData(cm, buff) *)
Definition fill_array_data (buff : list Z) : result item :=
  match unpack [FU 2; FU 2; FU 4] (slice buff 0 8) with
  | Ok [ident; width; size] =>
      let buf_len := size * width in
      let buf_len := if buf_len mod 2 =? 0 then buf_len else buf_len + 1 in
      let data := slice buff 8 (8 + buf_len) in
      Ok {| it_len := ((size * width + 1) / 2 + 4) * 2;
            it_raw := match pack [FU 2; FU 2; FU 4] [ident; width; size] with Ok h => Ok (h ++ data) | Err e => Err e end;
            it_kind := 3 |}
  | Ok _ => Err OtherError
  | Err _ => Err InvalidInstruction
  end.

Definition ordinary (tbl : list (Z * (Z * list Z))) (op : Z) (buff : list Z) : result item :=
  match get_instruction tbl op buff with
  | Err e => Err e
  | Ok (c, _, f) => Ok {| it_len := len_of_class c; it_raw := raw_of_class c f; it_kind := 0 |}
  end.

(* the body of the loop: which constructor gets insn[idx:] *)
Definition sweep_one (odex : bool) (buff : list Z) (op_value : Z) : result item :=
  let low := Z.land op_value 255 in
  if (255 <? op_value) && ((low =? 0) || (low =? 255)) then
    if op_value =? 256 then packed_switch buff
    else if op_value =? 512 then sparse_switch buff
    else if op_value =? 768 then fill_array_data buff
    else if odex && existsb (fun r => fst r =? op_value) table_optimized then ordinary table_optimized op_value buff
    else if low =? 255 then ordinary table_format 255 buff
    else Err InvalidInstruction
  else ordinary table_format low buff.

(* get_instructions(cm, size, insn, idx): the items yielded with their offsets, then how the generator ended *)
Fixpoint sweep (fuel : nat) (odex : bool) (insn : list Z) (max_idx idx : Z) : list (Z * item) * option err :=
  match fuel with
  | O => ([], Some OutOfFuel)
  | S f =>
      if idx <? max_idx then
        match unpack [FU 2] (slice insn idx (idx + 2)) with
        | Ok [op_value] =>
            match sweep_one odex (skipn (Z.to_nat idx) insn) op_value with
            | Err OutOfFuel => ([], Some OtherError)      (* no constructor runs on fuel; keeps OutOfFuel for the loop itself *)
            | Err e => ([], Some e)
            | Ok it =>
                if max_idx <? idx + it_len it then ([], Some InvalidInstruction)
                else let '(rest, e) := sweep f odex insn max_idx (idx + it_len it) in ((idx, it) :: rest, e)
            end
        | _ => ([], Some InvalidInstruction)   (* a single byte left: max_idx - idx < 2 *)
        end
      else ([], None)
  end.
Definition get_instructions (odex : bool) (size : Z) (insn : list Z) (idx : Z) : list (Z * item) * option err :=
  let max_idx := if zlen insn <? size * 2 then zlen insn else size * 2 in
  sweep (S (length insn)) odex insn max_idx idx.

(* observation: (odex, size, bytes) -> [(offset, kind, length, raw)], end *)
Definition obs_sweep (i : (bool * Z) * list Z) : val :=
  let '((odex, size), insn) := i in
  let '(its, e) := get_instructions odex size insn 0 in
  VList [VList (map (fun p => VList [VZ (fst p); VZ (it_kind (snd p)); VZ (it_len (snd p)); vres VStr (it_raw (snd p))]) its);
         match e with None => VNone | Some x => VErr (err_code x) end].
