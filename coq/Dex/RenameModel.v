(* C17 - hand-written model of renaming through string hooks: ClassManager.set_hook_class_name / set_hook_method_name /
   set_hook_field_name / set_hook_string / get_string, MethodIdItem/FieldIdItem.reload, EncodedMethod/EncodedField
   .set_name and .reload, ClassDefItem.set_name and .reload (androguard/core/dex/__init__.py).
   A text is a number: the original text of string index i is i itself, new names are the numbers given to the
   rename operations.  A hook is attached to a STRING INDEX, not to an item.  Tied to the source by tools/props/c17.py. *)
From Coq Require Import ZArith List Bool.
Require Import V.Lib.Val V.Lib.Result.
Import ListNotations.
Open Scope Z_scope.

(* the file: per class its descriptor's string index; per method / field (class number, name string index);
   per const-string instruction its string index *)
Record dexfile := { d_classes : list Z; d_methods : list (Z * Z); d_fields : list (Z * Z); d_consts : list Z }.

Record state := {
  hooks : list (Z * Z);                 (* hook_strings, newest first *)
  mid_name : list Z;                    (* MethodIdItem.name_idx_value, per method *)
  fid_name : list Z;                    (* FieldIdItem.name_idx_value *)
  em_name : list Z;                     (* EncodedMethod.name *)
  ef_name : list Z;                     (* EncodedField.name *)
  cls_name : list Z;                    (* ClassDefItem.name *)
  em_loaded : list bool;                (* EncodedMethod.loaded: the name is fetched at the first get_name(), not when the file is parsed *)
  ef_loaded : list bool }.              (* EncodedField.loaded *)

Inductive op :=
| RenM (k v : Z) | RenF (k v : Z) | RenC (c v : Z)       (* set_name on the k-th method / field, the c-th class *)
| ReloadM (k : Z) | ReloadF (k : Z)                        (* EncodedMethod.reload / EncodedField.reload *)
| QueryM (k : Z) | QueryF (k : Z) | QueryC (c : Z) | QueryS (j : Z).   (* get_name; the operand text of the j-th const-string *)

Definition nthz {A} (l : list A) (i : Z) (d : A) : A := if i <? 0 then d else nth (Z.to_nat i) l d.
Fixpoint upd {A} (l : list A) (i : nat) (x : A) : list A :=
  match l, i with [], _ => [] | _ :: r, O => x :: r | y :: r, S k => y :: upd r k x end.
Definition updz {A} (l : list A) (i : Z) (x : A) : list A := if i <? 0 then l else upd l (Z.to_nat i) x.
Fixpoint assoc (i : Z) (h : list (Z * Z)) : option Z :=
  match h with [] => None | (k, v) :: r => if k =? i then Some v else assoc i r end.
(* ClassManager.get_string: the hook if there is one, else the string of the file *)
Definition get_string (s : state) (i : Z) : Z := match assoc i (hooks s) with Some v => v | None => i end.
Definition hook (s : state) (i v : Z) : list (Z * Z) := (i, v) :: hooks s.

Definition m_name_idx (d : dexfile) (k : Z) : Z := snd (nthz (d_methods d) k (0, -1)).
Definition f_name_idx (d : dexfile) (k : Z) : Z := snd (nthz (d_fields d) k (0, -1)).
Definition c_desc_idx (d : dexfile) (c : Z) : Z := nthz (d_classes d) c (-1).
Definition indices {A} (l : list A) : list Z := map Z.of_nat (seq 0 (length l)).
Definition valid {A} (l : list A) (k : Z) : bool := (0 <=? k) && (k <? Z.of_nat (length l)).

Definition init (d : dexfile) : state :=
  {| hooks := []; mid_name := map snd (d_methods d); fid_name := map snd (d_fields d);
     em_name := map snd (d_methods d); ef_name := map snd (d_fields d); cls_name := d_classes d;
     em_loaded := map (fun _ => false) (d_methods d); ef_loaded := map (fun _ => false) (d_fields d) |}.

Definition step (d : dexfile) (s : state) (o : op) : state * option Z :=
  match o with
  | RenM k v =>
      if negb (valid (d_methods d) k) then (s, None) else
      let h := hook s (m_name_idx d k) v in
      (* set_hook_string; encoded_method.get_name() for the Python export (which loads the item: its old name, overwritten
         below); method.reload(); then EncodedMethod.reload() *)
      let s1 := {| hooks := h; mid_name := mid_name s; fid_name := fid_name s; em_name := em_name s; ef_name := ef_name s; cls_name := cls_name s; em_loaded := em_loaded s; ef_loaded := ef_loaded s |} in
      let mn := updz (mid_name s) k (get_string s1 (m_name_idx d k)) in
      ({| hooks := h; mid_name := mn; fid_name := fid_name s; em_name := updz (em_name s) k (nthz mn k (-1)); ef_name := ef_name s;
          cls_name := cls_name s; em_loaded := updz (em_loaded s) k true; ef_loaded := ef_loaded s |}, None)
  | RenF k v =>
      if negb (valid (d_fields d) k) then (s, None) else
      let h := hook s (f_name_idx d k) v in
      let s1 := {| hooks := h; mid_name := mid_name s; fid_name := fid_name s; em_name := em_name s; ef_name := ef_name s; cls_name := cls_name s; em_loaded := em_loaded s; ef_loaded := ef_loaded s |} in
      let fn := updz (fid_name s) k (get_string s1 (f_name_idx d k)) in
      ({| hooks := h; mid_name := mid_name s; fid_name := fn; em_name := em_name s; ef_name := updz (ef_name s) k (nthz fn k (-1));
          cls_name := cls_name s; em_loaded := em_loaded s; ef_loaded := updz (ef_loaded s) k true |}, None)
  | RenC c v =>
      if negb (valid (d_classes d) c) then (s, None) else
      let h := hook s (c_desc_idx d c) v in
      let s1 := {| hooks := h; mid_name := mid_name s; fid_name := fid_name s; em_name := em_name s; ef_name := ef_name s; cls_name := cls_name s; em_loaded := em_loaded s; ef_loaded := ef_loaded s |} in
      (* class_def.reload(); every MethodIdItem reloaded; the methods and fields of the class reloaded *)
      let mn := map (fun k => get_string s1 (m_name_idx d k)) (indices (d_methods d)) in
      let em := map (fun k => if fst (nthz (d_methods d) k (0, -1)) =? c then nthz mn k (-1) else nthz (em_name s) k (-1)) (indices (d_methods d)) in
      let ef := map (fun k => if fst (nthz (d_fields d) k (0, -1)) =? c then nthz (fid_name s) k (-1) else nthz (ef_name s) k (-1)) (indices (d_fields d)) in
      ({| hooks := h; mid_name := mn; fid_name := fid_name s; em_name := em; ef_name := ef;
          cls_name := updz (cls_name s) c (get_string s1 (c_desc_idx d c));
          em_loaded := em_loaded s; ef_loaded := ef_loaded s |}, None)
  | ReloadM k =>
      if negb (valid (d_methods d) k) then (s, None) else
      ({| hooks := hooks s; mid_name := mid_name s; fid_name := fid_name s; em_name := updz (em_name s) k (nthz (mid_name s) k (-1));
          ef_name := ef_name s; cls_name := cls_name s; em_loaded := em_loaded s; ef_loaded := ef_loaded s |}, None)
  | ReloadF k =>
      if negb (valid (d_fields d) k) then (s, None) else
      ({| hooks := hooks s; mid_name := mid_name s; fid_name := fid_name s; em_name := em_name s;
          ef_name := updz (ef_name s) k (nthz (fid_name s) k (-1)); cls_name := cls_name s; em_loaded := em_loaded s; ef_loaded := ef_loaded s |}, None)
  (* get_name: an item not loaded yet takes its name from the id item now (load), and is loaded from then on *)
  | QueryM k =>
      if negb (valid (d_methods d) k) then (s, Some (-1)) else
      if nthz (em_loaded s) k false then (s, Some (nthz (em_name s) k (-1))) else
      let nm := nthz (mid_name s) k (-1) in
      ({| hooks := hooks s; mid_name := mid_name s; fid_name := fid_name s; em_name := updz (em_name s) k nm; ef_name := ef_name s;
          cls_name := cls_name s; em_loaded := updz (em_loaded s) k true; ef_loaded := ef_loaded s |}, Some nm)
  | QueryF k =>
      if negb (valid (d_fields d) k) then (s, Some (-1)) else
      if nthz (ef_loaded s) k false then (s, Some (nthz (ef_name s) k (-1))) else
      let nm := nthz (fid_name s) k (-1) in
      ({| hooks := hooks s; mid_name := mid_name s; fid_name := fid_name s; em_name := em_name s; ef_name := updz (ef_name s) k nm;
          cls_name := cls_name s; em_loaded := em_loaded s; ef_loaded := updz (ef_loaded s) k true |}, Some nm)
  | QueryC c => (s, Some (nthz (cls_name s) c (-1)))
  | QueryS j => (s, Some (if valid (d_consts d) j then get_string s (nthz (d_consts d) j (-1)) else -1))
  end.
Fixpoint run (d : dexfile) (s : state) (ops : list op) : list (option Z) :=
  match ops with [] => [] | o :: r => let '(s', out) := step d s o in out :: run d s' r end.

(* ---- the specification: a dictionary of current names per item; string constants never change ---- *)
Record names := { n_m : list Z; n_f : list Z; n_c : list Z }.
Definition spec_init (d : dexfile) : names := {| n_m := map snd (d_methods d); n_f := map snd (d_fields d); n_c := d_classes d |}.
Definition spec_step (d : dexfile) (n : names) (o : op) : names * option Z :=
  match o with
  | RenM k v => if valid (d_methods d) k then ({| n_m := updz (n_m n) k v; n_f := n_f n; n_c := n_c n |}, None) else (n, None)
  | RenF k v => if valid (d_fields d) k then ({| n_m := n_m n; n_f := updz (n_f n) k v; n_c := n_c n |}, None) else (n, None)
  | RenC c v => if valid (d_classes d) c then ({| n_m := n_m n; n_f := n_f n; n_c := updz (n_c n) c v |}, None) else (n, None)
  | ReloadM _ | ReloadF _ => (n, None)
  | QueryM k => (n, Some (nthz (n_m n) k (-1)))
  | QueryF k => (n, Some (nthz (n_f n) k (-1)))
  | QueryC c => (n, Some (nthz (n_c n) c (-1)))
  | QueryS j => (n, Some (nthz (d_consts d) j (-1)))
  end.
Fixpoint spec_run (d : dexfile) (n : names) (ops : list op) : list (option Z) :=
  match ops with [] => [] | o :: r => let '(n', out) := spec_step d n o in out :: spec_run d n' r end.

Definition vout (l : list (option Z)) : val := VList (map (fun o => match o with Some x => VZ x | None => VNone end) l).
Definition obs_rename (x : dexfile * list op) : val := let '(d, ops) := x in vout (run d (init d) ops).
