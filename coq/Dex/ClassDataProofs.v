(* C05 - proofs about coq/Dex/ClassDataModel.v *)
From Coq Require Import ZArith List Bool Lia.
Require Import V.Lib.Val V.Lib.Result V.Dex.LebSpec V.Dex.LebModel V.Dex.LebProofs V.Dex.LebWrite V.Dex.ClassDataModel.
Import ListNotations.
Open Scope Z_scope.

(* ================================================================ 1. class_data_item *)
(* an element as it lies in the file: any well-formed LEB128 encodings (canonical or padded) of its parts *)
Definition fenc := (list Z * list Z)%type.                    (* index difference, access flags *)
Definition menc := (list Z * (list Z * list Z))%type.         (* index difference, access flags, code offset *)
Definition wf_f (e : fenc) : Prop := wf_leb (fst e) = true /\ wf_leb (snd e) = true.
Definition wf_m (e : menc) : Prop := wf_leb (fst e) = true /\ wf_leb (fst (snd e)) = true /\ wf_leb (snd (snd e)) = true.
Definition f_bytes (e : fenc) : list Z := fst e ++ snd e.
Definition m_bytes (e : menc) : list Z := fst e ++ fst (snd e) ++ snd (snd e).
Fixpoint dec_fields (prev : Z) (es : list fenc) : list efield :=
  match es with
  | [] => []
  | e :: r => let idx := prev + uleb_value (fst e) in {| f_idx := idx; f_flags := uleb_value (snd e) |} :: dec_fields idx r
  end.
Fixpoint dec_methods (prev : Z) (es : list menc) : list emethod :=
  match es with
  | [] => []
  | e :: r => let idx := prev + uleb_value (fst e) in
              {| m_idx := idx; m_flags := uleb_value (fst (snd e)); m_code := uleb_value (snd (snd e)) |} :: dec_methods idx r
  end.

Lemma read_fields_done fuel prev bs : read_fields fuel 0 prev bs = Ok ([], bs).
Proof. destruct fuel; reflexivity. Qed.
Lemma read_methods_done fuel prev bs : read_methods fuel 0 prev bs = Ok ([], bs).
Proof. destruct fuel; reflexivity. Qed.

Lemma read_fields_exact : forall es fuel prev rest, Forall wf_f es -> (length es <= fuel)%nat ->
  read_fields fuel (Z.of_nat (length es)) prev (flat_map f_bytes es ++ rest) = Ok (dec_fields prev es, rest).
Proof.
  induction es as [|e es IH]; intros fuel prev rest Hwf Hf; [apply read_fields_done|].
  inversion Hwf as [|? ? [W1 W2] Hwf']; subst. destruct fuel as [|f]; [cbn [length] in Hf; lia|].
  cbn [read_fields length flat_map dec_fields]. replace (Z.of_nat (S (length es)) <=? 0) with false by lia.
  unfold f_bytes at 1. rewrite <- !app_assoc. rewrite (read_u_spec _ _ W1). cbn [bind]. rewrite (read_u_spec _ _ W2). cbn [bind].
  replace (Z.of_nat (S (length es)) - 1) with (Z.of_nat (length es)) by lia.
  rewrite IH; [reflexivity | assumption | cbn [length] in Hf; lia].
Qed.
Lemma read_methods_exact : forall es fuel prev rest, Forall wf_m es -> (length es <= fuel)%nat ->
  read_methods fuel (Z.of_nat (length es)) prev (flat_map m_bytes es ++ rest) = Ok (dec_methods prev es, rest).
Proof.
  induction es as [|e es IH]; intros fuel prev rest Hwf Hf; [apply read_methods_done|].
  inversion Hwf as [|? ? (W1 & W2 & W3) Hwf']; subst. destruct fuel as [|f]; [cbn [length] in Hf; lia|].
  cbn [read_methods length flat_map dec_methods]. replace (Z.of_nat (S (length es)) <=? 0) with false by lia.
  unfold m_bytes at 1. rewrite <- !app_assoc. rewrite (read_u_spec _ _ W1). cbn [bind]. rewrite (read_u_spec _ _ W2). cbn [bind].
  rewrite (read_u_spec _ _ W3). cbn [bind].
  replace (Z.of_nat (S (length es)) - 1) with (Z.of_nat (length es)) by lia.
  rewrite IH; [reflexivity | assumption | cbn [length] in Hf; lia].
Qed.

Lemma wf_leb_nonempty bs : wf_leb bs = true -> (1 <= length bs)%nat.
Proof. destruct bs; [discriminate | cbn [length]; lia]. Qed.
Lemma f_bytes_len es : Forall wf_f es -> (length es <= length (flat_map f_bytes es))%nat.
Proof.
  induction 1 as [|e es [W1 W2] H IH]; [reflexivity|]. cbn [flat_map length]. unfold f_bytes at 1. rewrite !app_length.
  apply wf_leb_nonempty in W1. lia.
Qed.
Lemma m_bytes_len es : Forall wf_m es -> (length es <= length (flat_map m_bytes es))%nat.
Proof.
  induction 1 as [|e es (W1 & W2 & W3) H IH]; [reflexivity|]. cbn [flat_map length]. unfold m_bytes at 1. rewrite !app_length.
  apply wf_leb_nonempty in W1. lia.
Qed.

Record cd_enc := { e_ns : list Z; e_ni : list Z; e_nd : list Z; e_nv : list Z;
                   e_sf : list fenc; e_if : list fenc; e_dm : list menc; e_vm : list menc }.
Definition cd_bytes (e : cd_enc) : list Z :=
  e_ns e ++ e_ni e ++ e_nd e ++ e_nv e ++ flat_map f_bytes (e_sf e) ++ flat_map f_bytes (e_if e) ++
  flat_map m_bytes (e_dm e) ++ flat_map m_bytes (e_vm e).
Definition wf_cd (e : cd_enc) : Prop :=
  wf_leb (e_ns e) = true /\ wf_leb (e_ni e) = true /\ wf_leb (e_nd e) = true /\ wf_leb (e_nv e) = true /\
  uleb_value (e_ns e) = Z.of_nat (length (e_sf e)) /\ uleb_value (e_ni e) = Z.of_nat (length (e_if e)) /\
  uleb_value (e_nd e) = Z.of_nat (length (e_dm e)) /\ uleb_value (e_nv e) = Z.of_nat (length (e_vm e)) /\
  Forall wf_f (e_sf e) /\ Forall wf_f (e_if e) /\ Forall wf_m (e_dm e) /\ Forall wf_m (e_vm e).
Definition dec_cd (e : cd_enc) : class_data :=
  {| cd_sfields := dec_fields 0 (e_sf e); cd_ifields := dec_fields 0 (e_if e);
     cd_dmethods := dec_methods 0 (e_dm e); cd_vmethods := dec_methods 0 (e_vm e) |}.

Theorem read_class_data_exact e rest : wf_cd e -> read_class_data (cd_bytes e ++ rest) = Ok (dec_cd e, rest).
Proof.
  intros (W1 & W2 & W3 & W4 & N1 & N2 & N3 & N4 & F1 & F2 & F3 & F4).
  unfold read_class_data, cd_bytes. rewrite <- !app_assoc.
  rewrite (read_u_spec _ _ W1). cbn [bind]. rewrite (read_u_spec _ _ W2). cbn [bind].
  rewrite (read_u_spec _ _ W3). cbn [bind]. rewrite (read_u_spec _ _ W4). cbn [bind].
  rewrite N1, N2, N3, N4.
  rewrite read_fields_exact; [|assumption | rewrite app_length; pose proof (f_bytes_len _ F1); lia]. cbn [bind].
  rewrite read_fields_exact; [|assumption | rewrite app_length; pose proof (f_bytes_len _ F2); lia]. cbn [bind].
  rewrite read_methods_exact; [|assumption | rewrite app_length; pose proof (m_bytes_len _ F3); lia]. cbn [bind].
  rewrite read_methods_exact; [|assumption | rewrite app_length; pose proof (m_bytes_len _ F4); lia]. cbn [bind].
  reflexivity.
Qed.

(* the index of the k-th element is the sum of the first k+1 differences: what "index-diff encoded" means *)
Lemma dec_fields_idx : forall es prev k e, nth_error es k = Some e ->
  exists f, nth_error (dec_fields prev es) k = Some f /\
            f_idx f = prev + fold_left Z.add (map (fun x => uleb_value (fst x)) (firstn (S k) es)) 0 /\ f_flags f = uleb_value (snd e).
Proof.
  induction es as [|x es IH]; intros prev k e H; [destruct k; discriminate|]. destruct k as [|k].
  - injection H as ->. eexists. split; [reflexivity|]. cbn. split; [lia | reflexivity].
  - cbn [nth_error] in H. destruct (IH (prev + uleb_value (fst x)) k e H) as (f & Hn & Hi & Hf).
    exists f. split; [exact Hn|]. split; [|exact Hf]. rewrite Hi. cbn [firstn map fold_left].
    assert (G : forall l a, fold_left Z.add l a = a + fold_left Z.add l 0).
    { induction l as [|y l IHl]; intros a; cbn [fold_left]; [lia|]. rewrite (IHl (a + y)), (IHl (0 + y)). lia. }
    rewrite (G _ (0 + uleb_value (fst x))). lia.
Qed.

(* every list of in-range values has such an encoding: the one write_u produces *)
Lemma canonical_exists v : 0 <= v < 4294967296 -> exists bs, wf_leb bs = true /\ uleb_value bs = v.
Proof. intros H. destruct (write_u_spec v H) as (bs & _ & W & V). eauto. Qed.

(* ================================================================ 2. lookups *)
Lemma str_eqb_eq a b : str_eqb a b = true <-> a = b.
Proof.
  unfold str_eqb. revert b; induction a as [|x a IH]; intros [|y b]; cbn [list_eqb]; try (split; [discriminate|discriminate]); [tauto|].
  rewrite andb_true_iff, Z.eqb_eq, IH. split; [intros [-> ->]; reflexivity | intros E; injection E as -> ->; auto].
Qed.
Lemma find_last_some {A} (f : A -> bool) l x : find_last f l = Some x ->
  exists l1 l2, l = l1 ++ x :: l2 /\ f x = true /\ forall y, In y l2 -> f y = false.
Proof.
  revert x. induction l as [|a l IH]; intros x H; [discriminate|]. cbn [find_last] in H.
  destruct (find_last f l) as [y|] eqn:E.
  - injection H as ->. destruct (IH x eq_refl) as (l1 & l2 & -> & Hx & Hl2). exists (a :: l1), l2. auto.
  - destruct (f a) eqn:Ea; [|discriminate]. injection H as ->. exists [], l. split; [reflexivity|]. split; [exact Ea|].
    clear - E. induction l as [|b l IH]; intros y Hy; [contradiction|]. cbn [find_last] in E.
    destruct (find_last f l); [discriminate|]. destruct (f b) eqn:Eb; [discriminate|]. destruct Hy as [<-|Hy]; auto.
Qed.
Lemma find_last_none {A} (f : A -> bool) l : find_last f l = None -> forall y, In y l -> f y = false.
Proof.
  induction l as [|a l IH]; intros H y Hy; [contradiction|]. cbn [find_last] in H.
  destruct (find_last f l); [discriminate|]. destruct (f a) eqn:Ea; [discriminate|]. destruct Hy as [<-|Hy]; auto.
Qed.

Definition triple (m : member) : str * str * str := (mb_class m, mb_name m, mb_desc m).
Lemma field_pred_spec m c n d :
  str_eqb (mb_class m) c && str_eqb (mb_name m) n && str_eqb (mb_desc m) d = true <-> triple m = (c, n, d).
Proof.
  unfold triple. rewrite !andb_true_iff, !str_eqb_eq. split; [intros [[-> ->] ->]; reflexivity | intros E; injection E as -> -> ->; auto].
Qed.

Theorem lookup_field_exact cs c n d :
  match lookup_field cs c n d with
  | Some m => triple m = (c, n, d) /\
              exists l1 l2, all_fields cs = l1 ++ m :: l2 /\ forall y, In y l2 -> triple y <> (c, n, d)
  | None => forall y, In y (all_fields cs) -> triple y <> (c, n, d)
  end.
Proof.
  unfold lookup_field. destruct (find_last _ (all_fields cs)) as [m|] eqn:E.
  - apply find_last_some in E as (l1 & l2 & El & Hm & Hl2). split; [now apply field_pred_spec|].
    exists l1, l2. split; [exact El|]. intros y Hy Ht. apply field_pred_spec in Ht. rewrite (Hl2 y Hy) in Ht. discriminate.
  - intros y Hy Ht. apply field_pred_spec in Ht. rewrite (find_last_none _ _ E y Hy) in Ht. discriminate.
Qed.

(* the method cache concatenates: that is the triple whenever the class name ends at its first ';' and the
   descriptor starts at the first '(' after it *)
Definition wf_mkey (c n d : str) : Prop := exists body dr, c = body ++ [59] /\ ~ In 59 body /\ ~ In 40 n /\ d = 40 :: dr.
Lemma split_first (x : Z) : forall a a' r r', ~ In x a -> ~ In x a' -> a ++ x :: r = a' ++ x :: r' -> a = a' /\ r = r'.
Proof.
  induction a as [|y a IH]; intros [|y' a'] r r' H H' E; cbn [app] in E.
  - injection E as ->. auto.
  - injection E as -> _. exfalso. apply H'. now left.
  - injection E as -> _. exfalso. apply H. now left.
  - injection E as -> E. destruct (IH a' r r') as [-> ->]; auto; intros X; [apply H | apply H']; now right.
Qed.
Lemma concat_key_injective c n d c' n' d' : wf_mkey c n d -> wf_mkey c' n' d' -> c ++ n ++ d = c' ++ n' ++ d' -> (c, n, d) = (c', n', d').
Proof.
  intros (b & dr & -> & Hb & Hn & ->) (b' & dr' & -> & Hb' & Hn' & ->) E. rewrite <- !app_assoc in E. cbn [app] in E.
  apply split_first in E as [-> E]; auto. apply split_first in E as [-> ->]; auto.
Qed.
Theorem lookup_method_exact cs c n d : wf_mkey c n d ->
  (forall m, In m (all_methods cs) -> wf_mkey (mb_class m) (mb_name m) (mb_desc m)) ->
  match lookup_method cs c n d with
  | Some m => triple m = (c, n, d) /\
              exists l1 l2, all_methods cs = l1 ++ m :: l2 /\ forall y, In y l2 -> triple y <> (c, n, d)
  | None => forall y, In y (all_methods cs) -> triple y <> (c, n, d)
  end.
Proof.
  intros Hq Hall. unfold lookup_method. destruct (find_last _ (all_methods cs)) as [m|] eqn:E.
  - apply find_last_some in E as (l1 & l2 & El & Hm & Hl2). apply str_eqb_eq in Hm.
    assert (Hin : In m (all_methods cs)) by (rewrite El; apply in_or_app; right; now left).
    split; [unfold triple; apply concat_key_injective; auto|].
    exists l1, l2. split; [exact El|]. intros y Hy Ht. unfold triple in Ht. injection Ht as E1 E2 E3.
    assert (X : str_eqb (mb_class y ++ mb_name y ++ mb_desc y) (c ++ n ++ d) = true) by (apply str_eqb_eq; congruence).
    rewrite (Hl2 y Hy) in X. discriminate.
  - intros y Hy Ht. unfold triple in Ht. injection Ht as E1 E2 E3.
    assert (X : str_eqb (mb_class y ++ mb_name y ++ mb_desc y) (c ++ n ++ d) = true) by (apply str_eqb_eq; congruence).
    rewrite (find_last_none _ _ E y Hy) in X. discriminate.
Qed.

Theorem get_class_exact cs name :
  match get_class cs name with
  | Some c => In c cs /\ p_name c = name
  | None => forall c, In c cs -> p_name c <> name
  end.
Proof.
  unfold get_class. destruct (find _ cs) as [c|] eqn:E.
  - apply find_some in E as [H1 H2]. apply str_eqb_eq in H2. auto.
  - intros c Hc Hn. pose proof (find_none _ _ E c Hc) as X. cbn beta in X. apply str_eqb_eq in Hn. congruence.
Qed.
