(* C08 - the reader of the code-item tail returns what is encoded; determineException keeps every try item once. *)
From Coq Require Import ZArith List Bool Lia Permutation.
Require Import V.Lib.Val V.Lib.Result V.Dex.LebModel V.Dex.LebSpec V.Dex.LebProofs V.Analysis.CfgModel V.Dex.TriesModel.
Import ListNotations.
Open Scope Z_scope.
Ltac Zify.zify_post_hook ::= Z.to_euclidean_division_equations.

(* ---- the encoding, with the LEB128 byte strings chosen freely among the well-formed ones ---- *)
Definition le16 (v : Z) : list Z := [v mod 256; (v / 256) mod 256].
Definition le32 (v : Z) : list Z := [v mod 256; (v / 256) mod 256; (v / 65536) mod 256; (v / 16777216) mod 256].
Lemma u16_le16 : forall v r, 0 <= v < 65536 -> u16 (le16 v ++ r) = Ok (v, r).
Proof. intros v r H. unfold u16, le16. cbn [app]. f_equal. f_equal. lia. Qed.
Lemma u32_le32 : forall v r, 0 <= v < 4294967296 -> u32 (le32 v ++ r) = Ok (v, r).
Proof. intros v r H. unfold u32, le32. cbn [app]. f_equal. f_equal. lia. Qed.

Definition wf_try (t : try_item) : Prop := 0 <= t_start t < 4294967296 /\ 0 <= t_count t < 65536 /\ 0 <= t_hoff t < 65536.
Definition bytes_try (t : try_item) : list Z := le32 (t_start t) ++ le16 (t_count t) ++ le16 (t_hoff t).

Lemma read_try_spec : forall t r, wf_try t -> read_try (bytes_try t ++ r) = Ok (t, r).
Proof.
  intros [s c h] r [H1 [H2 H3]]. cbn [t_start t_count t_hoff] in *. unfold read_try, bytes_try. cbn [t_start t_count t_hoff].
  replace (length ((le32 s ++ le16 c ++ le16 h) ++ r) <? 8)%nat with false
    by (symmetry; apply Nat.ltb_ge; rewrite app_length; cbn; lia).
  rewrite <- !app_assoc. rewrite u32_le32 by exact H1. cbn [bind]. rewrite u16_le16 by exact H2. cbn [bind].
  rewrite u16_le16 by exact H3. reflexivity.
Qed.
Lemma read_tries_spec : forall ts r, Forall wf_try ts ->
  read_tries (length ts) (concat (map bytes_try ts) ++ r) = Ok (ts, r).
Proof.
  induction ts as [|t ts IH]; intros r H; [reflexivity|]. inversion H; subst. cbn [length read_tries map concat].
  rewrite <- app_assoc. rewrite read_try_spec by assumption. cbn [bind]. rewrite IH by assumption. reflexivity.
Qed.

Record enc_handler := { eh_size : list Z; eh_pairs : list (list Z * list Z); eh_ca : option (list Z) }.
Definition wf_enc_handler (h : enc_handler) : Prop :=
  wf_leb (eh_size h) = true /\
  sleb_value (eh_size h) = (match eh_ca h with Some _ => - Z.of_nat (length (eh_pairs h)) | None => Z.of_nat (length (eh_pairs h)) end) /\
  (eh_ca h = None -> eh_pairs h <> []) /\
  Forall (fun p => wf_leb (fst p) = true /\ wf_leb (snd p) = true) (eh_pairs h) /\
  (forall b, eh_ca h = Some b -> wf_leb b = true).
Definition bytes_handler (h : enc_handler) : list Z :=
  eh_size h ++ concat (map (fun p => fst p ++ snd p) (eh_pairs h)) ++ match eh_ca h with Some b => b | None => [] end.
Definition denote_handler (off : Z) (h : enc_handler) : handler :=
  {| h_off := off; h_typed := map (fun p => (uleb_value (fst p), uleb_value (snd p))) (eh_pairs h);
     h_catch_all := option_map uleb_value (eh_ca h) |}.

Lemma read_pairs_spec : forall ps r, Forall (fun p => wf_leb (fst p) = true /\ wf_leb (snd p) = true) ps ->
  read_pairs (length ps) (concat (map (fun p => fst p ++ snd p) ps) ++ r) =
  Ok (map (fun p => (uleb_value (fst p), uleb_value (snd p))) ps, r).
Proof.
  induction ps as [|[a b] ps IH]; intros r H; [reflexivity|]. inversion H as [|? ? [Ha Hb] Hps]; subst. cbn [fst snd] in *.
  cbn [length read_pairs map concat fst snd]. rewrite <- !app_assoc. rewrite read_u_spec by exact Ha. cbn [bind].
  rewrite read_u_spec by exact Hb. cbn [bind]. rewrite IH by exact Hps. reflexivity.
Qed.

Lemma read_handler_spec : forall off h r, wf_enc_handler h ->
  read_handler off (bytes_handler h ++ r) = Ok (denote_handler off h, r).
Proof.
  intros off [sz ps ca] r [H1 [H2 [H3 [H4 H5]]]]. cbn [eh_size eh_pairs eh_ca] in *.
  unfold read_handler, bytes_handler, denote_handler. cbn [eh_size eh_pairs eh_ca]. rewrite <- !app_assoc.
  rewrite read_s_spec by exact H1. cbn [bind]. rewrite H2. destruct ca as [b|].
  - replace (Z.to_nat (Z.abs (- Z.of_nat (length ps)))) with (length ps) by lia.
    rewrite read_pairs_spec by exact H4. cbn [bind].
    replace (- Z.of_nat (length ps) <=? 0) with true by (symmetry; apply Z.leb_le; lia).
    rewrite read_u_spec by (apply H5; reflexivity). reflexivity.
  - replace (Z.to_nat (Z.abs (Z.of_nat (length ps)))) with (length ps) by lia.
    rewrite app_nil_l. rewrite read_pairs_spec by exact H4. cbn [bind].
    assert (ps <> []) by (apply H3; reflexivity). destruct ps; [congruence|].
    replace (Z.of_nat (length (p :: ps)) <=? 0) with false by (symmetry; apply Z.leb_gt; cbn [length]; lia). reflexivity.
Qed.

Fixpoint denote_from (off : Z) (hs : list enc_handler) : list handler :=
  match hs with
  | [] => []
  | h :: t => denote_handler off h :: denote_from (off + Z.of_nat (length (bytes_handler h))) t
  end.
Lemma read_handlers_spec : forall hs total r, Forall wf_enc_handler hs ->
  read_handlers (length hs) total (concat (map bytes_handler hs) ++ r) =
  Ok (denote_from (total - Z.of_nat (length (concat (map bytes_handler hs) ++ r))) hs, r).
Proof.
  induction hs as [|h hs IH]; intros total r H; [reflexivity|]. inversion H; subst.
  cbn [length read_handlers map concat denote_from]. rewrite <- app_assoc. rewrite read_handler_spec by assumption. cbn [bind].
  rewrite IH by assumption. cbn [bind]. f_equal. f_equal. f_equal. f_equal. rewrite !app_length. lia.
Qed.

Record enc_list := { el_size : list Z; el_handlers : list enc_handler }.
Definition wf_enc_list (l : enc_list) : Prop :=
  wf_leb (el_size l) = true /\ uleb_value (el_size l) = Z.of_nat (length (el_handlers l)) /\ Forall wf_enc_handler (el_handlers l).
Definition bytes_list (l : enc_list) : list Z := el_size l ++ concat (map bytes_handler (el_handlers l)).
Definition denote_list (l : enc_list) : list handler := denote_from (Z.of_nat (length (el_size l))) (el_handlers l).

Lemma read_handler_list_spec : forall l r, wf_enc_list l -> read_handler_list (bytes_list l ++ r) = Ok (denote_list l, r).
Proof.
  intros [sz hs] r [H1 [H2 H3]]. cbn [el_size el_handlers] in *. unfold read_handler_list, bytes_list, denote_list.
  cbn [el_size el_handlers]. rewrite <- app_assoc. rewrite read_u_spec by exact H1. cbn [bind]. rewrite H2, Nat2Z.id.
  rewrite read_handlers_spec by exact H3. f_equal. f_equal. f_equal. rewrite !app_length. lia.
Qed.

(* the whole tail: optional padding unit, the try items, the handler list *)
Theorem read_tail_spec : forall insns_size ts l pad r,
  ts <> [] -> Forall wf_try ts -> wf_enc_list l -> length pad = 2%nat ->
  read_tail insns_size (Z.of_nat (length ts))
    ((if insns_size mod 2 =? 1 then pad else []) ++ concat (map bytes_try ts) ++ bytes_list l ++ r)
  = Ok ((ts, denote_list l), r).
Proof.
  intros n ts l pad r Hne Hts Hl Hpad. unfold read_tail.
  assert (Hpos : (0 <? Z.of_nat (length ts)) = true) by (apply Z.ltb_lt; destruct ts; [congruence|cbn [length]; lia]).
  rewrite Hpos, andb_true_r.
  destruct (n mod 2 =? 1).
  - destruct pad as [|a [|b [|c pad]]]; try discriminate. cbn [app u16 bind].
    rewrite Nat2Z.id. rewrite read_tries_spec by exact Hts. cbn [bind]. rewrite read_handler_list_spec by exact Hl. reflexivity.
  - cbn [app bind].
    rewrite Nat2Z.id. rewrite read_tries_spec by exact Hts. cbn [bind]. rewrite read_handler_list_spec by exact Hl. reflexivity.
Qed.
Theorem read_tail_no_tries : forall insns_size r, read_tail insns_size 0 r = Ok (([], []), r).
Proof. intros. unfold read_tail. cbn. rewrite andb_false_r. reflexivity. Qed.

(* ---- determineException ---- *)
Definition entry (hs : list handler) (t : try_item) : option exc :=
  match find (fun h => h_off h =? t_hoff t) hs with
  | None => None
  | Some h => Some {| e_start := t_start t * 2; e_end := t_start t * 2 + t_count t * 2 - 1;
                      e_handlers := map (fun p => (fst p, snd p * 2)) (h_typed h) ++
                                    match h_catch_all h with Some a => [(TY_THROWABLE, a * 2)] | None => [] end |}
  end.

Definition flat (g : list (Z * list try_item)) : list (Z * try_item) := flat_map (fun x => map (fun t => (fst x, t)) (snd x)) g.
Lemma flat_cons : forall k ts g, flat ((k, ts) :: g) = map (fun t => (k, t)) ts ++ flat g.
Proof. reflexivity. Qed.
Lemma map_snd_pair : forall (k : Z) (ts : list try_item), map snd (map (fun t => (k, t)) ts) = ts.
Proof. intros. rewrite map_map. cbn [snd]. apply map_id. Qed.
Lemma flat_group_add : forall g k t, Permutation (map snd (flat (group_add g k t))) (map snd (flat g) ++ [t]) /\
  (forall kt, In kt (flat (group_add g k t)) -> In kt (flat g) \/ kt = (k, t)).
Proof.
  induction g as [|[k' ts] g IH]; intros k t; cbn [group_add].
  - cbn. split; [apply Permutation_refl|]. intros kt [<-|[]]. right. reflexivity.
  - destruct (k' =? k) eqn:E.
    + apply Z.eqb_eq in E. subst k'. rewrite !flat_cons, !map_app, !map_snd_pair. split.
      * rewrite <- !app_assoc. apply Permutation_app_head. apply Permutation_app_comm.
      * intros kt H. apply in_app_or in H. destruct H as [H|H]; [|left; apply in_or_app; right; exact H].
        apply in_app_or in H. destruct H as [H|[<-|[]]]; [left; apply in_or_app; left; exact H|right; reflexivity].
    + destruct (IH k t) as [P1 P2]. rewrite !flat_cons, !map_app. split.
      * rewrite <- app_assoc. apply Permutation_app_head. exact P1.
      * intros kt H. apply in_app_or in H. destruct H as [H|H]; [left; apply in_or_app; left; exact H|].
        destruct (P2 kt H) as [H'|H']; [left; apply in_or_app; right; exact H'|right; exact H'].
Qed.
Lemma flat_group_tries : forall tries g,
  (forall kt, In kt (flat g) -> fst kt = t_hoff (snd kt)) ->
  let g' := fold_left (fun g t => group_add g (t_hoff t) t) tries g in
  Permutation (map snd (flat g')) (map snd (flat g) ++ tries) /\ (forall kt, In kt (flat g') -> fst kt = t_hoff (snd kt)).
Proof.
  induction tries as [|t tries IH]; intros g Hg; cbn [fold_left].
  - rewrite app_nil_r. split; [apply Permutation_refl|exact Hg].
  - destruct (flat_group_add g (t_hoff t) t) as [P1 P2].
    destruct (IH (group_add g (t_hoff t) t)) as [Q1 Q2].
    { intros kt H. destruct (P2 kt H) as [H'|E']; [apply Hg, H'|subst kt; reflexivity]. }
    split; [|exact Q2]. eapply Permutation_trans; [exact Q1|].
    replace (map snd (flat g) ++ t :: tries) with ((map snd (flat g) ++ [t]) ++ tries) by (rewrite <- app_assoc; reflexivity).
    apply Permutation_app_tail. exact P1.
Qed.

Theorem determine_exception_exact : forall tries hs,
  (forall t, In t tries -> exists h, find (fun h => h_off h =? t_hoff t) hs = Some h) ->
  exists l, determine_exception tries hs = Ok l /\
            Permutation (map Some l) (map (entry hs) tries).
Proof.
  intros tries hs Hall. unfold determine_exception. fold (flat (group_tries tries)).
  destruct (flat_group_tries tries []) as [P K]; [intros kt []|]. cbn [flat flat_map map app] in P. fold (group_tries tries) in P, K.
  set (fl := flat (group_tries tries)) in *.
  assert (Hin : forall kt, In kt fl -> In (snd kt) tries).
  { intros kt H. eapply Permutation_in; [exact P|]. apply in_map, H. }
  assert (G : exists l, fold_right (exc_step hs) (Ok []) fl = Ok l /\ map Some l = map (fun kt => entry hs (snd kt)) fl).
  { clear P. induction fl as [|kt fl IHf]; [exists []; split; reflexivity|].
    destruct IHf as [l [E1 E2]]; [intros x Hx; apply K; right; exact Hx|intros x Hx; apply Hin; right; exact Hx|].
    cbn [fold_right]. rewrite E1. unfold exc_step. pose proof (K kt (or_introl eq_refl)) as Hk.
    destruct (Hall (snd kt) (Hin kt (or_introl eq_refl))) as [h Hh]. rewrite Hk, Hh.
    eexists. split; [reflexivity|]. cbn [map]. rewrite E2. f_equal. unfold entry. rewrite Hh. reflexivity. }
  destruct G as [l [E1 E2]]. exists l. split; [exact E1|]. rewrite E2.
  rewrite <- (map_map snd (entry hs)). apply Permutation_map. exact P.
Qed.
