From Coq Require Import ZArith List Bool Lia ZifyBool.
Require Import V.Lib.Val V.Lib.Result V.Lib.Bits V.Dex.LebModel V.Dex.LebSpec.
Import ListNotations.
Open Scope Z_scope.
Ltac Zify.zify_post_hook ::= Z.to_euclidean_division_equations.

Arguments Z.land : simpl never. Arguments Z.lor : simpl never. Arguments Z.shiftl : simpl never.
Arguments Z.shiftr : simpl never. Arguments Z.add : simpl never. Arguments Z.sub : simpl never.
Arguments Z.mul : simpl never. Arguments Z.pow : simpl never. Arguments Z.div : simpl never.
Arguments Z.modulo : simpl never. Arguments Z.max : simpl never. Arguments Z.opp : simpl never.
Arguments Z.ltb : simpl never. Arguments Z.gtb : simpl never. Arguments Z.leb : simpl never.
Arguments Z.geb : simpl never. Arguments Z.eqb : simpl never.

(* shape of a well-formed encoding *)
Lemma wf_cases bs : wf_leb bs = true ->
  (exists b0, bs = [b0] /\ 0 <= b0 < 128) \/
  (exists b0 b1, bs = [b0; b1] /\ 128 <= b0 < 256 /\ 0 <= b1 < 128) \/
  (exists b0 b1 b2, bs = [b0; b1; b2] /\ 128 <= b0 < 256 /\ 128 <= b1 < 256 /\ 0 <= b2 < 128) \/
  (exists b0 b1 b2 b3, bs = [b0; b1; b2; b3] /\ 128 <= b0 < 256 /\ 128 <= b1 < 256 /\ 128 <= b2 < 256 /\ 0 <= b3 < 128) \/
  (exists b0 b1 b2 b3 b4, bs = [b0; b1; b2; b3; b4] /\ 128 <= b0 < 256 /\ 128 <= b1 < 256 /\ 128 <= b2 < 256 /\ 128 <= b3 < 256 /\ 0 <= b4 < 128).
Proof.
  unfold wf_leb, nbytes. intros H. apply andb_prop in H as [T L].
  destruct bs as [|b0 [|b1 [|b2 [|b3 [|b4 [|b5 t]]]]]]; cbn [terminated length] in *; try discriminate.
  - left. exists b0. split; [reflexivity|lia].
  - right; left. exists b0, b1. split; [reflexivity|lia].
  - right; right; left. exists b0, b1, b2. split; [reflexivity|lia].
  - right; right; right; left. exists b0, b1, b2, b3. split; [reflexivity|lia].
  - right; right; right; right. exists b0, b1, b2, b3, b4. split; [reflexivity|lia].
  - exfalso. cbn in L. lia.
Qed.

Ltac bits :=
  rewrite ?land127, ?land15, ?land_u32, ?land_u31;
  try lorc 7 128; try lorc 14 16384; try lorc 21 2097152; try lorc 28 268435456.

Theorem read_u_spec : forall bs r, wf_leb bs = true -> read_u (bs ++ r) = Ok (uleb_value bs, r).
Proof.
  intros bs r H. apply wf_cases in H.
  destruct H as [(b0 & -> & H0) | [(b0 & b1 & -> & H0 & H1) | [(b0 & b1 & b2 & -> & H0 & H1 & H2) |
    [(b0 & b1 & b2 & b3 & -> & H0 & H1 & H2 & H3) | (b0 & b1 & b2 & b3 & b4 & -> & H0 & H1 & H2 & H3 & H4)]]]];
  unfold read_u, uleb_value; cbn [app get_byte bind leb_raw].
  - destruct (b0 >? 127) eqn:E; [lia|]. f_equal. f_equal. lia.
  - destruct (b0 >? 127) eqn:E0; [|lia]. destruct (b1 >? 127) eqn:E1; [lia|].
    f_equal. f_equal. bits. lia.
  - destruct (b0 >? 127) eqn:E0; [|lia]. destruct (b1 >? 127) eqn:E1; [|lia].
    destruct (b2 >? 127) eqn:E2; [lia|].
    f_equal. f_equal. bits. lia.
  - destruct (b0 >? 127) eqn:E0; [|lia]. destruct (b1 >? 127) eqn:E1; [|lia].
    destruct (b2 >? 127) eqn:E2; [|lia]. destruct (b3 >? 127) eqn:E3; [lia|].
    f_equal. f_equal. bits. lia.
  - destruct (b0 >? 127) eqn:E0; [|lia]. destruct (b1 >? 127) eqn:E1; [|lia].
    destruct (b2 >? 127) eqn:E2; [|lia]. destruct (b3 >? 127) eqn:E3; [|lia].
    f_equal. f_equal. bits. lia.
Qed.

Lemma pow_consts :
  2 ^ (7 * Z.of_nat 1 - 1) = 64 /\ 2 ^ (7 * Z.of_nat 1) = 128 /\
  2 ^ (7 * Z.of_nat 2 - 1) = 8192 /\ 2 ^ (7 * Z.of_nat 2) = 16384 /\
  2 ^ (7 * Z.of_nat 3 - 1) = 1048576 /\ 2 ^ (7 * Z.of_nat 3) = 2097152 /\
  2 ^ (7 * Z.of_nat 4 - 1) = 134217728 /\ 2 ^ (7 * Z.of_nat 4) = 268435456 /\
  2 ^ (7 * Z.of_nat 5 - 1) = 17179869184 /\ 2 ^ (7 * Z.of_nat 5) = 34359738368.
Proof. repeat split; reflexivity. Qed.

Ltac split_ifs := repeat match goal with |- context[if ?c then _ else _] => destruct c eqn:? end.
Ltac s_prep := unfold read_s, sleb_value, nbytes; cbn [app read_s_loop get_byte bind leb_raw length];
  rewrite !land128 by lia.
Ltac cont E := match goal with |- context[if (if ?b <? 128 then 0 else 128) =? 0 then _ else _] =>
  destruct (b <? 128) eqn:E; [exfalso; lia|]; change (128 =? 0) with false; cbv iota end.
Ltac last_ E := match goal with |- context[if (if ?b <? 128 then 0 else 128) =? 0 then _ else _] =>
  destruct (b <? 128) eqn:E; [|exfalso; lia]; change (0 =? 0) with true; cbv iota end.

Theorem read_s_spec : forall bs r, wf_leb bs = true -> read_s (bs ++ r) = Ok (sleb_value bs, r).
Proof.
  intros bs r H. apply wf_cases in H.
  destruct pow_consts as (P1 & P2 & P3 & P4 & P5 & P6 & P7 & P8 & P9 & P10).
  destruct H as [(b0 & -> & H0) | [(b0 & b1 & -> & H0 & H1) | [(b0 & b1 & b2 & -> & H0 & H1 & H2) |
    [(b0 & b1 & b2 & b3 & -> & H0 & H1 & H2 & H3) | (b0 & b1 & b2 & b3 & b4 & -> & H0 & H1 & H2 & H3 & H4)]]]];
  s_prep.
  -  last_ E0.
    change (0 + 7) with 7; change (7 + 7) with 14; change (14 + 7) with 21; change (21 + 7) with 28; change (28 + 7) with 35.
    change (Z.max (32 - 7) 0) with 25. rewrite ?P1, ?P2, ?P3, ?P4, ?P5, ?P6, ?P7, ?P8, ?P9, ?P10.
    rewrite !Z.shiftl_0_r, Z.lor_0_l, !land127. try lorc 7 128; try lorc 14 16384; try lorc 21 2097152; try lorc 28 268435456.
    shlc 25 33554432. rewrite !land_u32, ?land_u31. shrc 25 33554432.
    unfold wrap32. f_equal. f_equal. split_ifs; lia.
  - cont E0. last_ E1.
    change (0 + 7) with 7; change (7 + 7) with 14; change (14 + 7) with 21; change (21 + 7) with 28; change (28 + 7) with 35.
    change (Z.max (32 - 14) 0) with 18. rewrite ?P1, ?P2, ?P3, ?P4, ?P5, ?P6, ?P7, ?P8, ?P9, ?P10.
    rewrite !Z.shiftl_0_r, Z.lor_0_l, !land127. try lorc 7 128; try lorc 14 16384; try lorc 21 2097152; try lorc 28 268435456.
    shlc 18 262144. rewrite !land_u32, ?land_u31. shrc 18 262144.
    unfold wrap32. f_equal. f_equal. split_ifs; lia.
  - cont E0. cont E1. last_ E2.
    change (0 + 7) with 7; change (7 + 7) with 14; change (14 + 7) with 21; change (21 + 7) with 28; change (28 + 7) with 35.
    change (Z.max (32 - 21) 0) with 11. rewrite ?P1, ?P2, ?P3, ?P4, ?P5, ?P6, ?P7, ?P8, ?P9, ?P10.
    rewrite !Z.shiftl_0_r, Z.lor_0_l, !land127. try lorc 7 128; try lorc 14 16384; try lorc 21 2097152; try lorc 28 268435456.
    shlc 11 2048. rewrite !land_u32, ?land_u31. shrc 11 2048.
    unfold wrap32. f_equal. f_equal. split_ifs; lia.
  - cont E0. cont E1. cont E2. last_ E3.
    change (0 + 7) with 7; change (7 + 7) with 14; change (14 + 7) with 21; change (21 + 7) with 28; change (28 + 7) with 35.
    change (Z.max (32 - 28) 0) with 4. rewrite ?P1, ?P2, ?P3, ?P4, ?P5, ?P6, ?P7, ?P8, ?P9, ?P10.
    rewrite !Z.shiftl_0_r, Z.lor_0_l, !land127. try lorc 7 128; try lorc 14 16384; try lorc 21 2097152; try lorc 28 268435456.
    shlc 4 16. rewrite !land_u32, ?land_u31. shrc 4 16.
    unfold wrap32. f_equal. f_equal. split_ifs; lia.
  - cont E0. cont E1. cont E2. cont E3. last_ E4.
    change (0 + 7) with 7; change (7 + 7) with 14; change (14 + 7) with 21; change (21 + 7) with 28; change (28 + 7) with 35.
    change (Z.max (32 - 35) 0) with 0. rewrite ?P1, ?P2, ?P3, ?P4, ?P5, ?P6, ?P7, ?P8, ?P9, ?P10.
    rewrite !Z.shiftl_0_r, Z.lor_0_l, !land127. try lorc 7 128; try lorc 14 16384; try lorc 21 2097152; try lorc 28 268435456.
    rewrite !land_u32, ?land_u31, Z.shiftr_0_r.
    replace (b0 mod 128 + 128 * (b1 mod 128 + 128 * (b2 mod 128 + 128 * (b3 mod 128 + 128 * (b4 mod 128 + 128 * 0)))))
      with (b0 mod 128 + b1 mod 128 * 128 + b2 mod 128 * 16384 + b3 mod 128 * 2097152 + b4 mod 128 * 268435456) by lia.
    remember (b0 mod 128 + b1 mod 128 * 128 + b2 mod 128 * 16384 + b3 mod 128 * 2097152 + b4 mod 128 * 268435456) as raw eqn:Hraw.
    assert (Hb : 0 <= raw < 34359738368) by lia. clear Hraw.
    unfold wrap32. f_equal. f_equal. split_ifs; lia.
Qed.

Lemma uleb_range bs : 0 <= uleb_value bs < 4294967296.
Proof. unfold uleb_value. lia. Qed.
Lemma sleb_range bs : -2147483648 <= sleb_value bs < 2147483648.
Proof. unfold sleb_value, wrap32. cbv zeta. split_ifs; lia. Qed.
Theorem read_up1_spec : forall bs r, wf_leb bs = true -> read_up1 (bs ++ r) = Ok (ulebp1_value bs, r).
Proof. intros bs r H. unfold read_up1. rewrite read_u_spec by exact H. reflexivity. Qed.

(* non-vacuity: concrete well-formed encodings, including a padded one and a negative one *)
Example wf_examples :
  wf_leb [128; 127] = true /\ wf_leb [255; 255; 255; 255; 127] = true /\
  uleb_value [229; 142; 38] = 624485 /\ sleb_value [192; 187; 120] = -123456 /\
  uleb_value [255; 255; 255; 255; 127] = 4294967295 /\ sleb_value [128; 128; 128; 128; 120] = -2147483648.
Proof. repeat split; reflexivity. Qed.
