(* C02 - the sweep recovers an assembled stream: chunks whose decoding does not depend on what follows them are yielded
   one by one, in order, at their byte offsets, and the declared size is consumed exactly *)
From Coq Require Import ZArith List Bool Lia ZifyBool.
Require Import V.Lib.Val V.Lib.Result V.Lib.Struct V.gen.Gen_Insn V.Dex.InsnModel V.Dex.SweepModel V.Dex.SweepProofs.
Import ListNotations.
Open Scope Z_scope.

(* ---------------------------------------------------------------- lists *)
Lemma zlen_app (a b : list Z) : zlen (a ++ b) = zlen a + zlen b.
Proof. unfold zlen. rewrite app_length. lia. Qed.
Lemma zlen_nonneg (a : list Z) : 0 <= zlen a.  Proof. unfold zlen. lia. Qed.
Lemma drop_app pre l : drop (pre ++ l) (zlen pre) = l.
Proof.
  induction pre as [|x pre IH]; cbn [app].
  - destruct l; reflexivity.
  - cbn [drop]. replace (zlen (x :: pre) <=? 0) with false by (unfold zlen; cbn [length]; lia).
    replace (zlen (x :: pre) - 1) with (zlen pre) by (unfold zlen; cbn [length]; lia). exact IH.
Qed.
Lemma take_app a l : take (a ++ l) (zlen a) = a.
Proof.
  induction a as [|x a IH]; cbn [app].
  - destruct l; reflexivity.
  - cbn [take]. replace (zlen (x :: a) <=? 0) with false by (unfold zlen; cbn [length]; lia).
    replace (zlen (x :: a) - 1) with (zlen a) by (unfold zlen; cbn [length]; lia). now rewrite IH.
Qed.
Lemma skipn_app_exact pre (l : list Z) : skipn (Z.to_nat (zlen pre)) (pre ++ l) = l.
Proof. unfold zlen. rewrite Nat2Z.id. rewrite skipn_app, skipn_all, Nat.sub_diag. reflexivity. Qed.

(* the first 16-bit unit of a chunk *)
Definition unit0 (c : list Z) : Z := match c with a :: b :: _ => a + 256 * b | _ => 0 end.
Lemma take2 a b l : take (a :: b :: l) 2 = [a; b].  Proof. destruct l; reflexivity. Qed.
Lemma unpack_u16 a b : unpack [FU 2] [a; b] = Ok [a + 256 * b].
Proof. cbv [unpack unpack_go fsize length Nat.ltb Nat.leb skipn firstn unpack_field lu]. f_equal. f_equal. lia. Qed.
Lemma unpack_unit0 pre a b c rest : unpack [FU 2] (slice (pre ++ (a :: b :: c) ++ rest) (zlen pre) (zlen pre + 2)) = Ok [unit0 (a :: b :: c)].
Proof. unfold slice. rewrite drop_app. replace (zlen pre + 2 - zlen pre) with 2 by lia. cbn [app]. rewrite take2. apply unpack_u16. Qed.

(* a chunk is self-delimiting when the constructor chosen for its first unit yields the same item whatever follows, and
   the item is as long as the chunk *)
Definition self_delimiting (odex : bool) (c : list Z) (it : item) : Prop :=
  2 <= zlen c /\ it_len it = zlen c /\ forall rest, sweep_one odex (c ++ rest) (unit0 c) = Ok it.

Fixpoint placed (at_ : Z) (chunks : list (list Z)) (items : list item) : list (Z * item) :=
  match chunks, items with
  | c :: cs, it :: its => (at_, it) :: placed (at_ + zlen c) cs its
  | _, _ => []
  end.

Theorem sweep_stream odex : forall chunks items pre after fuel,
  Forall2 (self_delimiting odex) chunks items -> (length chunks < fuel)%nat ->
  sweep fuel odex (pre ++ concat chunks ++ after) (zlen pre + zlen (concat chunks)) (zlen pre) = (placed (zlen pre) chunks items, None).
Proof.
  induction chunks as [|c chunks IH]; intros items pre after fuel H Hf; inversion H as [|? it ? its (Hc2 & Hlen & Hdec) Hrest]; subst.
  - destruct fuel; [cbn [length] in Hf; lia|]. cbn [sweep concat placed]. change (zlen []) with 0.
    replace (zlen pre <? zlen pre + 0) with false by lia. reflexivity.
  - destruct fuel as [|f]; [cbn [length] in Hf; lia|]. cbn [sweep concat placed]. rewrite zlen_app. pose proof (zlen_nonneg (concat chunks)).
    replace (zlen pre <? zlen pre + (zlen c + zlen (concat chunks))) with true by lia.
    destruct c as [|a [|b c']]; try (unfold zlen in Hc2; cbn [length] in Hc2; lia).
    rewrite <- app_assoc. rewrite unpack_unit0. rewrite skipn_app_exact. rewrite Hdec. rewrite Hlen.
    replace (zlen pre + (zlen (a :: b :: c') + zlen (concat chunks)) <? zlen pre + zlen (a :: b :: c')) with false by lia.
    replace (pre ++ (a :: b :: c') ++ concat chunks ++ after) with ((pre ++ a :: b :: c') ++ concat chunks ++ after) by (rewrite <- app_assoc; reflexivity).
    replace (zlen pre + zlen (a :: b :: c')) with (zlen (pre ++ a :: b :: c')) by apply zlen_app.
    replace (zlen pre + (zlen (a :: b :: c') + zlen (concat chunks))) with (zlen (pre ++ a :: b :: c') + zlen (concat chunks)) by (rewrite zlen_app; lia).
    rewrite (IH its (pre ++ a :: b :: c') after f Hrest) by (cbn [length] in Hf; lia). rewrite zlen_app. reflexivity.
Qed.
(* get_instructions on a code item that is exactly the assembled stream: every item, in order, at its offset; no error;
   the last item ends at the declared size *)
Theorem get_instructions_of_stream odex chunks items after :
  Forall2 (self_delimiting odex) chunks items ->
  get_instructions odex (zlen (concat chunks) / 2) (concat chunks ++ after) 0 = (placed 0 chunks items, None) \/ zlen (concat chunks) mod 2 <> 0.
Proof.
  intros H. destruct (Z.eq_dec (zlen (concat chunks) mod 2) 0) as [E|E]; [left | right; exact E].
  unfold get_instructions. pose proof (zlen_nonneg after).
  replace (zlen (concat chunks) / 2 * 2) with (zlen (concat chunks)) by lia. rewrite zlen_app.
  replace (zlen (concat chunks) + zlen after <? zlen (concat chunks)) with false by lia.
  apply (sweep_stream odex chunks items [] after); [exact H|]. rewrite app_length.
  assert (L : (length chunks <= length (concat chunks))%nat).
  { clear E. induction H as [|c it cs its (Hc & _) _ IH]; cbn [concat length]; [lia|]. rewrite app_length. unfold zlen in Hc. lia. }
  lia.
Qed.

(* ---------------------------------------------------------------- ordinary instructions *)
(* every translated constructor reads the first len bytes of its buffer and nothing else *)
Lemma dec_prefix c bs rest : Z.of_nat (length bs) = len_of_class c -> dec_of_class c (bs ++ rest) = dec_of_class c bs.
Proof.
  unfold dec_of_class, len_of_class. intros H.
  repeat match type of H with
  | _ = (if ?b then _ else _) => destruct b;
      [ match goal with |- ?f _ = _ => unfold f end; match type of H with _ = ?l => unfold l in H end;
        rewrite firstn_app; match goal with |- context [firstn (?n - length bs) rest] => replace (n - length bs)%nat with 0%nat by lia end;
        cbn [firstn]; rewrite app_nil_r; reflexivity | ]
  end.
  destruct (c =? 36); reflexivity.
Qed.
Lemma ordinary_prefix tbl op c rest it : ordinary tbl op c = Ok it -> it_len it = zlen c -> ordinary tbl op (c ++ rest) = Ok it.
Proof.
  unfold ordinary, get_instruction. destruct (lookup_op tbl op) as [[cl name]|]; [|discriminate]. intros H Hl.
  assert (E : dec_of_class cl (c ++ rest) = dec_of_class cl c).
  { apply dec_prefix. destruct (dec_of_class cl c) as [f|e]; [injection H as <-; cbn [it_len] in Hl; unfold zlen in Hl; lia | destruct e; discriminate]. }
  rewrite E. exact H.
Qed.
Ltac break_match H := repeat match type of H with context [match ?x with _ => _ end] => destruct x end; try discriminate.
Lemma packed_kind buff it : packed_switch buff = Ok it -> it_kind it = 1.
Proof. unfold packed_switch. intros H. break_match H; injection H as <-; reflexivity. Qed.
Lemma sparse_kind buff it : sparse_switch buff = Ok it -> it_kind it = 2.
Proof. unfold sparse_switch. intros H. break_match H; injection H as <-; reflexivity. Qed.
Lemma fill_kind buff it : fill_array_data buff = Ok it -> it_kind it = 3.
Proof. unfold fill_array_data. intros H. break_match H; injection H as <-; reflexivity. Qed.
Theorem ordinary_chunk_self_delimiting odex c it :
  2 <= zlen c -> sweep_one odex c (unit0 c) = Ok it -> it_kind it = 0 -> it_len it = zlen c -> self_delimiting odex c it.
Proof.
  intros H2 Hd Hk Hl. split; [exact H2|]. split; [exact Hl|]. intros rest. revert Hd. unfold sweep_one.
  set (op := unit0 c). destruct ((255 <? op) && ((Z.land op 255 =? 0) || (Z.land op 255 =? 255))); [|intros Hd; now apply ordinary_prefix].
  destruct (op =? 256); [intros Hd; apply packed_kind in Hd; lia|].
  destruct (op =? 512); [intros Hd; apply sparse_kind in Hd; lia|].
  destruct (op =? 768); [intros Hd; apply fill_kind in Hd; lia|].
  destruct (odex && existsb (fun r => fst r =? op) table_optimized); [intros Hd; now apply ordinary_prefix|].
  destruct (Z.land op 255 =? 255); [intros Hd; now apply ordinary_prefix | discriminate].
Qed.

(* ---------------------------------------------------------------- payloads *)
Require Import V.Dex.InsnSpec.
Lemma take4 a b c d l : take (a :: b :: c :: d :: l) 4 = [a; b; c; d].  Proof. destruct l; reflexivity. Qed.
Lemma take8 a b c d e f g h l : take (a :: b :: c :: d :: e :: f :: g :: h :: l) 8 = [a; b; c; d; e; f; g; h].  Proof. destruct l; reflexivity. Qed.
Lemma unpack1_s32 a b c d : unpack1 (FS 4) [a; b; c; d] = Ok (ls [a; b; c; d]).
Proof. reflexivity. Qed.
(* n little-endian 32-bit words anywhere in a buffer: read back, and packed again they are the same bytes *)
Lemma read_s32s_words : forall n body pre rest, length body = (4 * n)%nat -> Forall byte body ->
  exists vals, read_s32s n (pre ++ body ++ rest) (zlen pre) = Ok vals /\ pack_s32s vals = Ok body /\ length vals = n.
Proof.
  induction n as [|n IH]; intros body pre rest Hl Hb.
  - destruct body; [|discriminate]. exists []. repeat split.
  - destruct body as [|a [|b [|c [|d body]]]]; try (cbn [length] in Hl; lia).
    inversion Hb as [|? ? Ha Hb1]; subst. inversion Hb1 as [|? ? Hbb Hb2]; subst. inversion Hb2 as [|? ? Hc Hb3]; subst. inversion Hb3 as [|? ? Hd Hb4]; subst.
    destruct (IH body (pre ++ [a; b; c; d]) rest) as (vals & Er & Ep & Ln); [cbn [length] in Hl; lia | exact Hb4|].
    exists (ls [a; b; c; d] :: vals). cbn [read_s32s]. unfold slice at 1. rewrite drop_app. replace (zlen pre + 4 - zlen pre) with 4 by lia.
    cbn [app]. rewrite take4, unpack1_s32.
    replace (pre ++ a :: b :: c :: d :: body ++ rest) with ((pre ++ [a; b; c; d]) ++ body ++ rest) by (rewrite <- app_assoc; reflexivity).
    replace (zlen pre + 4) with (zlen (pre ++ [a; b; c; d])) by (rewrite zlen_app; reflexivity). rewrite Er. split; [reflexivity|]. split; [|cbn [length]; lia].
    cbn [pack_s32s pack]. rewrite (pack_ls4 a b c d Ha Hbb Hc Hd). cbn [app]. rewrite Ep. reflexivity.
Qed.
Lemma slice0 a l n : n = zlen a -> slice (a ++ l) 0 n = a.
Proof. intros ->. unfold slice. replace (drop (a ++ l) 0) with (a ++ l) by (destruct (a ++ l); reflexivity). replace (zlen a - 0) with (zlen a) by lia. apply take_app. Qed.

(* packed-switch-payload: ident 0x0100, size, first_key, size targets *)
Theorem packed_chunk s0 s1 k0 k1 k2 k3 body rest :
  Forall byte [s0; s1; k0; k1; k2; k3] -> Forall byte body -> Z.of_nat (length body) = 4 * (s0 + 256 * s1) ->
  let c := 0 :: 1 :: s0 :: s1 :: k0 :: k1 :: k2 :: k3 :: body in
  packed_switch (c ++ rest) = Ok {| it_len := zlen c; it_raw := Ok c; it_kind := 1 |}.
Proof.
  intros Hh Hb Hl c. unfold packed_switch, c. cbn [app].
  change (0 :: 1 :: s0 :: s1 :: k0 :: k1 :: k2 :: k3 :: body ++ rest) with ([0; 1; s0; s1; k0; k1; k2; k3] ++ body ++ rest).
  rewrite (slice0 [0; 1; s0; s1; k0; k1; k2; k3] (body ++ rest) 8 eq_refl).
  cbv [unpack unpack_go fsize length Nat.ltb Nat.leb skipn firstn unpack_field]. 
  repeat match goal with H : Forall byte (_ :: _) |- _ => inversion H; clear H; subst end. unfold byte in *.
  set (size := lu [s0; s1]). assert (Es : size = s0 + 256 * s1) by (unfold size; cbn [lu]; lia).
  assert (Hz : zlen ([0; 1; s0; s1; k0; k1; k2; k3] ++ body ++ rest) = 8 + 4 * size + zlen rest).
  { rewrite !zlen_app. unfold zlen at 1 2. cbn [length]. lia. }
  rewrite Hz. pose proof (zlen_nonneg rest). replace (8 + 4 * size + zlen rest <? size * 4) with false by lia.
  destruct (read_s32s_words (Z.to_nat size) body [0; 1; s0; s1; k0; k1; k2; k3] rest) as (vals & Er & Ep & Ln); [lia | assumption|].
  change (zlen [0; 1; s0; s1; k0; k1; k2; k3]) with 8 in Er. rewrite Er. f_equal. 
  assert (P1 : pack_field (FU 2) (lu [0; 1]) = Ok [0; 1]) by (apply (pack_same (FU 2) [0; 1]); [repeat constructor; unfold byte; lia | reflexivity | cbn; lia]).
  assert (P2 : pack_field (FU 2) size = Ok [s0; s1]) by (apply (pack_same (FU 2) [s0; s1]); [repeat constructor; unfold byte; lia | reflexivity | cbn; lia]).
  assert (P3 : pack_field (FS 4) (ls [k0; k1; k2; k3]) = Ok [k0; k1; k2; k3]) by (apply pack_ls4; unfold byte; lia).
  cbn [pack]. rewrite P1, P2, P3, Ep. cbn [app]. f_equal. unfold zlen. cbn [length]. lia.
Qed.

(* sparse-switch-payload: ident 0x0200, size, size keys, size targets *)
Theorem sparse_chunk s0 s1 keys targets rest :
  Forall byte [s0; s1] -> Forall byte keys -> Forall byte targets ->
  Z.of_nat (length keys) = 4 * (s0 + 256 * s1) -> Z.of_nat (length targets) = 4 * (s0 + 256 * s1) ->
  let c := 0 :: 2 :: s0 :: s1 :: keys ++ targets in
  sparse_switch (c ++ rest) = Ok {| it_len := zlen c; it_raw := Ok c; it_kind := 2 |}.
Proof.
  intros Hh Hk Ht Lk Lt c. unfold sparse_switch, c. cbn [app]. rewrite <- app_assoc.
  change (0 :: 2 :: s0 :: s1 :: keys ++ targets ++ rest) with ([0; 2; s0; s1] ++ keys ++ targets ++ rest).
  rewrite (slice0 [0; 2; s0; s1] (keys ++ targets ++ rest) 4 eq_refl).
  cbv [unpack unpack_go fsize length Nat.ltb Nat.leb skipn firstn unpack_field].
  repeat match goal with H : Forall byte (_ :: _) |- _ => inversion H; clear H; subst end. unfold byte in *.
  set (size := lu [s0; s1]). assert (Es : size = s0 + 256 * s1) by (unfold size; cbn [lu]; lia).
  destruct (read_s32s_words (Z.to_nat size) keys [0; 2; s0; s1] (targets ++ rest)) as (kv & Er1 & Ep1 & Ln1); [lia | assumption|].
  change (zlen [0; 2; s0; s1]) with 4 in Er1. rewrite Er1.
  destruct (read_s32s_words (Z.to_nat size) targets ([0; 2; s0; s1] ++ keys) rest) as (tv & Er2 & Ep2 & Ln2); [lia | assumption|].
  rewrite <- app_assoc in Er2. replace (zlen ([0; 2; s0; s1] ++ keys)) with (4 + 4 * size) in Er2 by (rewrite zlen_app; unfold zlen; cbn [length]; lia).
  rewrite Er2. f_equal.
  assert (P1 : pack_field (FU 2) (lu [0; 2]) = Ok [0; 2]) by (apply (pack_same (FU 2) [0; 2]); [repeat constructor; unfold byte; lia | reflexivity | cbn; lia]).
  assert (P2 : pack_field (FU 2) size = Ok [s0; s1]) by (apply (pack_same (FU 2) [s0; s1]); [repeat constructor; unfold byte; lia | reflexivity | cbn; lia]).
  cbn [pack]. rewrite P1, P2, Ep1, Ep2. cbn [app]. f_equal. unfold zlen. cbn [length]. rewrite app_length. lia.
Qed.
(* fill-array-data-payload: ident 0x0300, element width, element count, the data padded to an even number of bytes *)
Theorem fill_chunk w0 w1 n0 n1 n2 n3 data rest :
  Forall byte [w0; w1; n0; n1; n2; n3] ->
  let width := w0 + 256 * w1 in let size := n0 + 256 * n1 + 65536 * n2 + 16777216 * n3 in
  zlen data = (if (size * width) mod 2 =? 0 then size * width else size * width + 1) ->
  let c := 0 :: 3 :: w0 :: w1 :: n0 :: n1 :: n2 :: n3 :: data in
  fill_array_data (c ++ rest) = Ok {| it_len := zlen c; it_raw := Ok c; it_kind := 3 |}.
Proof.
  intros Hh width size Ld c. unfold fill_array_data, c. cbn [app].
  change (0 :: 3 :: w0 :: w1 :: n0 :: n1 :: n2 :: n3 :: data ++ rest) with ([0; 3; w0; w1; n0; n1; n2; n3] ++ data ++ rest).
  rewrite (slice0 [0; 3; w0; w1; n0; n1; n2; n3] (data ++ rest) 8 eq_refl).
  cbv [unpack unpack_go fsize length Nat.ltb Nat.leb skipn firstn unpack_field].
  repeat match goal with H : Forall byte (_ :: _) |- _ => inversion H; clear H; subst end. unfold byte in *.
  assert (Ew : lu [w0; w1] = width) by (unfold width; cbn [lu]; lia). assert (En : lu [n0; n1; n2; n3] = size) by (unfold size; cbn [lu]; lia).
  rewrite Ew, En. cbv zeta. rewrite <- Ld.
  assert (Sd : slice ([0; 3; w0; w1; n0; n1; n2; n3] ++ data ++ rest) 8 (8 + zlen data) = data).
  { unfold slice. change 8 with (zlen [0; 3; w0; w1; n0; n1; n2; n3]) at 1. rewrite drop_app. replace (8 + zlen data - 8) with (zlen data) by lia. apply take_app. }
  rewrite Sd. f_equal.
  assert (P1 : pack_field (FU 2) (lu [0; 3]) = Ok [0; 3]) by (apply (pack_same (FU 2) [0; 3]); [repeat constructor; unfold byte; lia | reflexivity | cbn; lia]).
  assert (P2 : pack_field (FU 2) width = Ok [w0; w1]) by (rewrite <- Ew; apply (pack_same (FU 2) [w0; w1]); [repeat constructor; unfold byte; lia | reflexivity | cbn; lia]).
  assert (P3 : pack_field (FU 4) size = Ok [n0; n1; n2; n3]) by (rewrite <- En; apply pack_lu4; unfold byte; lia).
  cbn [pack]. rewrite P1, P2, P3. cbn [app]. f_equal. unfold zlen in *. cbn [length]. destruct ((size * width) mod 2 =? 0) eqn:E; lia.
Qed.

(* the three payload kinds as chunks of a stream *)
Lemma payload_self_delimiting odex c it op : unit0 c = op -> (op = 256 \/ op = 512 \/ op = 768) -> 2 <= zlen c -> it_len it = zlen c ->
  (forall rest, (if op =? 256 then packed_switch (c ++ rest) else if op =? 512 then sparse_switch (c ++ rest) else fill_array_data (c ++ rest)) = Ok it) ->
  self_delimiting odex c it.
Proof.
  intros Eu Hop H2 Hl Hd. split; [exact H2|]. split; [exact Hl|]. intros rest. specialize (Hd rest). unfold sweep_one. rewrite Eu.
  destruct Hop as [-> | [-> | ->]]; exact Hd.
Qed.
