(* C02 - the sweep terminates, and everything it yields lies inside the code and is at least one code unit long. *)
From Coq Require Import ZArith List Bool Lia ZifyBool.
Require Import V.Lib.Val V.Lib.Result V.Lib.Struct V.gen.Gen_Insn V.Dex.InsnModel V.Dex.SweepModel.
Import ListNotations.
Open Scope Z_scope.
Ltac Zify.zify_post_hook ::= Z.to_euclidean_division_equations.

Definition nonneg (l : list Z) : Prop := Forall (fun b => 0 <= b) l.

Lemma In_firstn_ : forall (n : nat) (l : list Z) x, In x (firstn n l) -> In x l.
Proof. induction n as [|n IH]; intros [|a l] x H; simpl in H; try contradiction. destruct H as [<-|H]; [left; reflexivity|right; apply IH, H]. Qed.
Lemma In_skipn_ : forall (n : nat) (l : list Z) x, In x (skipn n l) -> In x l.
Proof. induction n as [|n IH]; intros [|a l] x H; simpl in H; try contradiction; try assumption. right. apply IH, H. Qed.
Lemma lu_nonneg : forall l, nonneg l -> 0 <= lu l.
Proof. induction 1 as [|b l Hb Hl IH]; cbn [lu]; lia. Qed.
Lemma nonneg_firstn : forall n l, nonneg l -> nonneg (firstn n l).
Proof. intros n l H. unfold nonneg in *. apply Forall_forall. intros x Hx. rewrite Forall_forall in H. apply H. eapply In_firstn_; exact Hx. Qed.
Lemma nonneg_skipn : forall n l, nonneg l -> nonneg (skipn n l).
Proof. intros n l H. unfold nonneg in *. apply Forall_forall. intros x Hx. rewrite Forall_forall in H. apply H. eapply In_skipn_; exact Hx. Qed.
Lemma nonneg_take : forall l n, nonneg l -> nonneg (take l n).
Proof.
  intros l n H. revert n. induction H as [|b l Hb Hl IH]; intros n; cbn [take]; [constructor|].
  destruct (n <=? 0); [constructor|constructor; [exact Hb|apply IH]].
Qed.
Lemma nonneg_drop : forall l n, nonneg l -> nonneg (drop l n).
Proof.
  intros l n H. revert n. induction H as [|b l Hb Hl IH]; intros n; cbn [drop]; [constructor|].
  destruct (n <=? 0); [constructor; assumption|apply IH].
Qed.
Lemma nonneg_slice : forall l a b, nonneg l -> nonneg (slice l a b).
Proof. intros. unfold slice. apply nonneg_take, nonneg_drop. assumption. Qed.

(* the second field of a header read with two leading unsigned 16-bit fields is not negative *)
Lemma second_u16_nonneg : forall rest bs a b t, nonneg bs -> unpack (FU 2 :: FU 2 :: rest) bs = Ok (a :: b :: t) -> 0 <= b.
Proof.
  intros rest bs a b t Hb H. unfold unpack in H. cbn [unpack_go fsize] in H.
  destruct (length bs <? 2)%nat; [discriminate|].
  destruct (length (skipn 2 bs) <? 2)%nat; [discriminate|].
  destruct (unpack_go rest (skipn 2 (skipn 2 bs))) as [vs|e]; [|discriminate].
  assert (E : b = unpack_field (FU 2) (firstn 2 (skipn 2 bs))) by congruence. rewrite E.
  cbn [unpack_field]. apply lu_nonneg, nonneg_firstn, nonneg_skipn, Hb.
Qed.
Lemma third_u32_nonneg : forall bs a b c, nonneg bs -> unpack [FU 2; FU 2; FU 4] bs = Ok [a; b; c] -> 0 <= b /\ 0 <= c.
Proof.
  intros bs a b c Hb H. split; [eapply second_u16_nonneg; eassumption|].
  unfold unpack in H. cbn [unpack_go fsize] in H.
  destruct (length bs <? 2)%nat; [discriminate|]. destruct (length (skipn 2 bs) <? 2)%nat; [discriminate|].
  destruct (length (skipn 2 (skipn 2 bs)) <? 4)%nat; [discriminate|].
  destruct (skipn 4 (skipn 2 (skipn 2 bs))); [|discriminate].
  assert (E : c = unpack_field (FU 4) (firstn 4 (skipn 2 (skipn 2 bs)))) by congruence. rewrite E.
  cbn [unpack_field]. apply lu_nonneg, nonneg_firstn, nonneg_skipn, nonneg_skipn, Hb.
Qed.

(* ---- every object the loop body can produce is at least two bytes long ---- *)
Definition row_len_ok (r : Z * (Z * list Z)) : bool := (fst (snd r) =? cls_Instruction00x) || (2 <=? len_of_class (fst (snd r))).
Lemma tables_len_ok : forallb row_len_ok table_format = true /\ forallb row_len_ok table_optimized = true.
Proof. split; vm_compute; reflexivity. Qed.

Lemma ordinary_len : forall tbl op buff it, forallb row_len_ok tbl = true -> ordinary tbl op buff = Ok it -> 2 <= it_len it.
Proof.
  intros tbl op buff it Ht H. unfold ordinary, get_instruction, lookup_op in H.
  destruct (find (fun r => fst r =? op) tbl) as [[o [c name]]|] eqn:Ef; cbn [option_map snd] in H; [|discriminate].
  apply find_some in Ef. destruct Ef as [Hin _]. rewrite forallb_forall in Ht. specialize (Ht _ Hin). unfold row_len_ok in Ht. cbn [fst snd] in Ht.
  destruct (dec_of_class c buff) as [f|e] eqn:Ed; [|destruct e; discriminate].
  assert (E : it_len it = len_of_class c) by (injection H as <-; reflexivity). rewrite E.
  apply orb_true_iff in Ht. destruct Ht as [Hc|Hl]; [|apply Z.leb_le in Hl; exact Hl].
  apply Z.eqb_eq in Hc. subst c. change (dec_of_class cls_Instruction00x buff) with (dec_Instruction00x buff) in Ed. discriminate.
Qed.

Lemma packed_len : forall buff it, nonneg buff -> packed_switch buff = Ok it -> 2 <= it_len it.
Proof.
  intros buff it Hb H. unfold packed_switch in H.
  destruct (unpack [FU 2; FU 2; FS 4] (slice buff 0 8)) as [[|ident [|size [|fk [|? ?]]]]|e] eqn:Eu; try discriminate.
  pose proof (second_u16_nonneg _ _ _ _ _ (nonneg_slice buff 0 8 Hb) Eu).
  destruct (read_s32s _ buff 8); [|discriminate].
  assert (E : it_len it = 8 + size * 4) by (injection H as <-; reflexivity). rewrite E. lia.
Qed.
Lemma sparse_len : forall buff it, nonneg buff -> sparse_switch buff = Ok it -> 2 <= it_len it.
Proof.
  intros buff it Hb H. unfold sparse_switch in H.
  destruct (unpack [FU 2; FU 2] (slice buff 0 4)) as [[|ident [|size [|? ?]]]|e] eqn:Eu; try discriminate.
  pose proof (second_u16_nonneg _ _ _ _ _ (nonneg_slice buff 0 4 Hb) Eu).
  destruct (read_s32s _ buff 4); [|discriminate]. destruct (read_s32s _ buff _); [|discriminate].
  assert (E : it_len it = 4 + size * 4 * 2) by (injection H as <-; reflexivity). rewrite E. lia.
Qed.
Lemma fill_len : forall buff it, nonneg buff -> fill_array_data buff = Ok it -> 2 <= it_len it.
Proof.
  intros buff it Hb H. unfold fill_array_data in H.
  destruct (unpack [FU 2; FU 2; FU 4] (slice buff 0 8)) as [[|ident [|width [|size [|? ?]]]]|e] eqn:Eu; try discriminate.
  destruct (third_u32_nonneg _ _ _ _ (nonneg_slice buff 0 8 Hb) Eu) as [Hw Hs].
  assert (E : it_len it = ((size * width + 1) / 2 + 4) * 2) by (injection H as <-; reflexivity). rewrite E.
  assert (0 <= size * width) by nia. lia.
Qed.

Lemma sweep_one_len : forall odex buff op it, nonneg buff -> sweep_one odex buff op = Ok it -> 2 <= it_len it.
Proof.
  intros odex buff op it Hb H. destruct tables_len_ok as [T1 T2]. unfold sweep_one in H.
  destruct ((255 <? op) && ((Z.land op 255 =? 0) || (Z.land op 255 =? 255))); cbv beta iota in H.
  - destruct (op =? 256); cbv beta iota in H; [exact (packed_len _ _ Hb H)|].
    destruct (op =? 512); cbv beta iota in H; [exact (sparse_len _ _ Hb H)|].
    destruct (op =? 768); cbv beta iota in H; [exact (fill_len _ _ Hb H)|].
    destruct (odex && existsb (fun r => fst r =? op) table_optimized); cbv beta iota in H; [exact (ordinary_len _ _ _ _ T2 H)|].
    destruct (Z.land op 255 =? 255); cbv beta iota in H; [exact (ordinary_len _ _ _ _ T1 H)|discriminate].
  - exact (ordinary_len _ _ _ _ T1 H).
Qed.

(* ---- the loop ---- *)
Theorem sweep_inside : forall fuel odex insn max_idx idx its e, nonneg insn ->
  sweep fuel odex insn max_idx idx = (its, e) ->
  Forall (fun p => idx <= fst p /\ fst p + it_len (snd p) <= max_idx /\ 2 <= it_len (snd p)) its.
Proof.
  induction fuel as [|f IH]; intros odex insn max_idx idx its e Hb H; cbn [sweep] in H; [inversion H; constructor|].
  destruct (idx <? max_idx); [|inversion H; constructor].
  destruct (unpack [FU 2] (slice insn idx (idx + 2))) as [[|op [|? ?]]|x]; try (inversion H; constructor; fail).
  destruct (sweep_one odex (skipn (Z.to_nat idx) insn) op) as [it|x] eqn:Eo; [|destruct x; inversion H; constructor].
  pose proof (sweep_one_len _ _ _ _ (nonneg_skipn _ _ Hb) Eo) as Hl.
  destruct (max_idx <? idx + it_len it) eqn:Eg; [inversion H; constructor|].
  destruct (sweep f odex insn max_idx (idx + it_len it)) as [rest e2] eqn:Er. inversion H; subst.
  constructor; [cbn [fst snd]; lia|]. specialize (IH _ _ _ _ _ _ Hb Er).
  eapply Forall_impl; [|exact IH]. intros p Hp. cbn beta in *. lia.
Qed.

Theorem sweep_fuel_suffices : forall fuel odex insn max_idx idx its e, nonneg insn ->
  0 <= max_idx - idx < 2 * Z.of_nat fuel -> sweep fuel odex insn max_idx idx = (its, e) -> e <> Some OutOfFuel.
Proof.
  induction fuel as [|f IH]; intros odex insn max_idx idx its e Hb Hf H; [lia|]. cbn [sweep] in H.
  destruct (idx <? max_idx) eqn:Ei; [|inversion H; discriminate].
  destruct (unpack [FU 2] (slice insn idx (idx + 2))) as [[|op [|? ?]]|x]; try (inversion H; discriminate).
  destruct (sweep_one odex (skipn (Z.to_nat idx) insn) op) as [it|x] eqn:Eo.
  - pose proof (sweep_one_len _ _ _ _ (nonneg_skipn _ _ Hb) Eo) as Hl.
    destruct (max_idx <? idx + it_len it) eqn:Eg; [inversion H; discriminate|].
    destruct (sweep f odex insn max_idx (idx + it_len it)) as [rest e2] eqn:Er. inversion H; subst.
    eapply IH; [exact Hb| |exact Er]. lia.
  - destruct x; inversion H; subst; discriminate.
Qed.

Theorem get_instructions_terminates : forall odex size insn idx, nonneg insn -> 0 <= idx ->
  snd (get_instructions odex size insn idx) <> Some OutOfFuel.
Proof.
  intros odex size insn idx Hb Hi. unfold get_instructions.
  set (max_idx := if zlen insn <? size * 2 then zlen insn else size * 2).
  destruct (sweep (S (length insn)) odex insn max_idx idx) as [its e] eqn:E. cbn [snd].
  destruct (Z_lt_dec idx max_idx) as [Hlt|Hge].
  - eapply sweep_fuel_suffices; [exact Hb| |exact E].
    assert (max_idx <= zlen insn) by (unfold max_idx; destruct (zlen insn <? size * 2) eqn:Q; lia). unfold zlen in *. lia.
  - cbn [sweep] in E. replace (idx <? max_idx) with false in E by lia. inversion E. discriminate.
Qed.

Theorem get_instructions_inside : forall odex size insn idx its e, nonneg insn ->
  get_instructions odex size insn idx = (its, e) ->
  Forall (fun p => idx <= fst p /\ fst p + it_len (snd p) <= zlen insn /\ fst p + it_len (snd p) <= size * 2 /\
                   2 <= it_len (snd p)) its.
Proof.
  intros odex size insn idx its e Hb H. unfold get_instructions in H.
  set (max_idx := if zlen insn <? size * 2 then zlen insn else size * 2) in H.
  pose proof (sweep_inside _ _ _ _ _ _ _ Hb H) as G.
  assert (max_idx <= zlen insn /\ max_idx <= size * 2) by (unfold max_idx; destruct (zlen insn <? size * 2) eqn:Q; lia).
  eapply Forall_impl; [|exact G]. intros p Hp. cbn beta in *. lia.
Qed.
