(* C06 - hand-written model of the DEX string pool: read_null_terminated_string (128-byte chunks on a stream),
   readuleb128, StringDataItem, the sequential parse of the string_data section (MapItem), ClassManager.get_raw_string
   and the MUTF-8 decoder behind androguard.core.mutf8.decode (the loop of the mutf8 package: one-, two- and
   three-byte forms, a high+low surrogate pair of three-byte forms joined into one supplementary code point;
   bytes 0x80-0xBF and 0xF0-0xFF in lead position are outside the model).  A str is the list of its code points.
   Tied to the source by tools/props/c06.py. *)
From Coq Require Import ZArith List Bool.
Require Import V.Lib.Val V.Lib.Result.
Import ListNotations.
Open Scope Z_scope.

(* ---- read_null_terminated_string: z = f.read(128); split at the first NUL; seek back over what follows it ---- *)
Definition has0 (z : list Z) : bool := existsb (Z.eqb 0) z.
Fixpoint before0 (z : list Z) : list Z := match z with [] => [] | b :: t => if b =? 0 then [] else b :: before0 t end.
Fixpoint after0 (z : list Z) : list Z := match z with [] => [] | b :: t => if b =? 0 then t else after0 t end.
Definition CHUNK : nat := 128.
Fixpoint nts_loop (fuel : nat) (rest : list Z) (pos : Z) (acc : list Z) : result (list Z * Z) :=
  match fuel with
  | O => Err OutOfFuel
  | S f =>
      let z := firstn CHUNK rest in
      match z with
      | [] => Err ValueError                                   (* Unterminated string: reached end of file *)
      | _ => if has0 z
             then Ok (acc ++ before0 z, pos + Z.of_nat (length z) - Z.of_nat (length (after0 z)))
             else nts_loop f (skipn CHUNK rest) (pos + Z.of_nat (length z)) (acc ++ z)
      end
  end.
(* rest = the file from the current position on; returns the bytes and the new position *)
Definition read_nts (rest : list Z) (pos : Z) : result (list Z * Z) := nts_loop (S (length rest)) rest pos [].

(* ---- readuleb128 (at most five bytes, the fifth masked to four bits) ---- *)
Definition read_uleb (rest : list Z) : result (Z * list Z) :=
  match rest with
  | [] => Err StructError
  | b0 :: r0 =>
    if b0 <=? 127 then Ok (b0, r0) else
    match r0 with [] => Err StructError | b1 :: r1 =>
    let v1 := Z.lor (Z.land b0 127) (Z.shiftl (Z.land b1 127) 7) in
    if b1 <=? 127 then Ok (v1, r1) else
    match r1 with [] => Err StructError | b2 :: r2 =>
    let v2 := Z.lor v1 (Z.shiftl (Z.land b2 127) 14) in
    if b2 <=? 127 then Ok (v2, r2) else
    match r2 with [] => Err StructError | b3 :: r3 =>
    let v3 := Z.lor v2 (Z.shiftl (Z.land b3 127) 21) in
    if b3 <=? 127 then Ok (v3, r3) else
    match r3 with [] => Err StructError | b4 :: r4 => Ok (Z.lor v3 (Z.shiftl (Z.land b4 15) 28), r4) end end end end
  end.

(* ---- StringDataItem: (offset, utf16_size, data) and the position after it; the section is size items in a row ---- *)
Record sitem := { s_off : Z; s_size : Z; s_data : list Z }.
Definition read_item (rest : list Z) (pos : Z) : result (sitem * (list Z * Z)) :=
  do ' (sz, r1) <- read_uleb rest;
  let p1 := pos + (Z.of_nat (length rest) - Z.of_nat (length r1)) in
  do ' (data, p2) <- read_nts r1 p1;
  Ok ({| s_off := pos; s_size := sz; s_data := data |}, (skipn (Z.to_nat (p2 - p1)) r1, p2)).
Fixpoint read_items (n : nat) (rest : list Z) (pos : Z) : result (list sitem) :=
  match n with
  | O => Ok []
  | S n' => do ' (it, (rest', pos')) <- read_item rest pos; do its <- read_items n' rest' pos'; Ok (it :: its)
  end.

(* ---- the decoder ---- *)
Definition cont (b : Z) : Z := Z.land b 63.
Fixpoint decode (s : list Z) : result (list Z) :=
  match s with
  | [] => Ok []
  | b1 :: t =>
    if b1 =? 0 then Err UnicodeError
    else if b1 <? 128 then do r <- decode t; Ok (b1 :: r)
    else if Z.land b1 224 =? 192 then
      match t with
      | [] => Err UnicodeError
      | b2 :: t' => do r <- decode t'; Ok (Z.lor (Z.shiftl (Z.land b1 31) 6) (cont b2) :: r)
      end
    else if Z.land b1 240 =? 224 then
      match t with
      | b2 :: b3 :: t' =>
        match t' with
        | b4 :: b5 :: b6 :: t'' =>
          if (b1 =? 237) && (Z.land b2 240 =? 160) && (b4 =? 237) && (Z.land b5 240 =? 176)
          then do r <- decode t'';
               Ok (65536 + Z.lor (Z.lor (Z.lor (Z.shiftl (Z.land b2 15) 16) (Z.shiftl (cont b3) 10)) (Z.shiftl (Z.land b5 15) 6)) (cont b6) :: r)
          else do r <- decode t'; Ok (Z.lor (Z.lor (Z.shiftl (Z.land b1 15) 12) (Z.shiftl (cont b2) 6)) (cont b3) :: r)
        | _ => do r <- decode t'; Ok (Z.lor (Z.lor (Z.shiftl (Z.land b1 15) 12) (Z.shiftl (cont b2) 6)) (cont b3) :: r)
        end
      | _ => Err UnicodeError
      end
    else Err OtherError
  end.

(* StringDataItem.get: the decoded text, or the ANDROGUARD[INVALID_STRING] fallback *)
Definition item_text (it : sitem) : result (list Z) := decode (s_data it).
(* ClassManager.get_raw_string: string_ids[idx] -> offset -> the item parsed at exactly that offset *)
Definition get_raw_string (ids : list Z) (items : list sitem) (idx : nat) : result (list Z) :=
  match nth_error ids idx with
  | None => Err IndexError
  | Some off =>
      match find (fun it => s_off it =? off) (rev items) with
      | None => Err KeyError
      | Some it => item_text it
      end
  end.

(* ---- the specification side: UTF-16 code units, their MUTF-8 encoding, and Python's str for them ---- *)
Definition enc_unit (u : Z) : list Z :=
  if (u =? 0) then [192; 128]
  else if u <? 128 then [u]
  else if u <? 2048 then [192 + u / 64; 128 + u mod 64]
  else [224 + u / 4096; 128 + (u / 64) mod 64; 128 + u mod 64].
Definition encode_units (us : list Z) : list Z := flat_map enc_unit us.
Definition is_hi (u : Z) : bool := (55296 <=? u) && (u <? 56320).
Definition is_lo (u : Z) : bool := (56320 <=? u) && (u <? 57344).
Fixpoint join_pairs (us : list Z) : list Z :=
  match us with
  | h :: r => match r with
              | l :: t => if is_hi h && is_lo l then (65536 + (h - 55296) * 1024 + (l - 56320)) :: join_pairs t
                          else h :: join_pairs r
              | [] => [h]
              end
  | [] => []
  end.
Definition to_utf16 (cps : list Z) : list Z :=
  flat_map (fun c => if c <? 65536 then [c] else [55296 + (c - 65536) / 1024; 56320 + (c - 65536) mod 1024]) cps.

(* ---- observation: file bytes, offset and size of the string_data section, the string_ids offsets ---- *)
Definition vtext (r : result (list Z)) : val := vres vlistZ r.
Definition obs_pool (x : (list Z * (Z * Z)) * list Z) : val :=
  let '((buf, (off, n)), ids) := x in
  match read_items (Z.to_nat n) (skipn (Z.to_nat off) buf) off with
  | Err e => VErr (err_code e)
  | Ok items =>
      VList [VList (map (fun it => VList [VZ (s_off it); VZ (s_size it); vtext (item_text it)]) items);
             VList (map (fun k => vtext (get_raw_string ids items k)) (seq 0 (length ids)))]
  end.
Definition obs_decode (s : list Z) : val := vtext (decode s).
Definition obs_nts (x : list Z * Z) : val :=
  let '(buf, pos) := x in
  vres (fun r => VList [vlistZ (fst r); VZ (snd r)]) (read_nts (skipn (Z.to_nat pos) buf) pos).
