(* C07 - proofs about coq/Dex/MapOrderModel.v and the translated table coq/gen/Gen_MapDeps.v *)
From Coq Require Import ZArith List Bool Lia Permutation Sorted.
Require Import V.Lib.Val V.Lib.Result V.Dex.MapOrderModel V.gen.Gen_MapDeps.
Import ListNotations.
Open Scope Z_scope.

(* ================================================================ 1. the loop always ends *)
Lemma first_ready_in t k : first_ready t = Some k -> In (k, []) t.
Proof.
  induction t as [|[k' ds] t IH]; [discriminate|]. cbn [first_ready]. destruct ds.
  - intros E. injection E as ->. now left.
  - intros E. right. now apply IH.
Qed.
Lemma filter_len_le {A} (f : A -> bool) l : (length (filter f l) <= length l)%nat.
Proof. induction l as [|y l IH]; [reflexivity|]. cbn [filter]. destruct (f y); cbn [length]; lia. Qed.
Lemma filter_length_lt {A} (f : A -> bool) l x : In x l -> f x = false -> (length (filter f l) < length l)%nat.
Proof.
  induction l as [|y l IH]; [contradiction|]. intros [->|Hin] Hf; cbn [filter length].
  - rewrite Hf. pose proof (filter_len_le f l). lia.
  - specialize (IH Hin Hf). destruct (f y); cbn [length]; lia.
Qed.
Lemma pop_key_shrinks t k ds : In (k, ds) t -> (length (pop_key k t) < length t)%nat.
Proof. intros H. unfold pop_key. apply (filter_length_lt _ _ _ H). cbn [fst]. now rewrite Z.eqb_refl. Qed.
Lemma discard_length k t : length (discard k t) = length t.
Proof. unfold discard. apply map_length. Qed.

Lemma order_loop_fuel : forall fuel t acc, (length t <= fuel)%nat -> order_loop fuel t acc <> Err OutOfFuel.
Proof.
  induction fuel as [|f IH]; intros t acc Hl.
  - destruct t; [discriminate | cbn [length] in Hl; lia].
  - destruct t as [|e t]; [discriminate|]. cbn [order_loop]. destruct (first_ready (e :: t)) as [k|] eqn:E; [|discriminate].
    apply IH. rewrite discard_length. apply first_ready_in in E. apply pop_key_shrinks in E. lia.
Qed.
Lemma determine_load_order_ends t : determine_load_order t <> Err OutOfFuel.
Proof. apply order_loop_fuel. lia. Qed.

(* ================================================================ 2. the table of the source *)
Definition before (order : list Z) (a b : Z) : bool :=
  match index_of a order, index_of b order with Some i, Some j => i <? j | _, _ => false end.
Definition respects (t : table) (order : list Z) : bool :=
  forallb (fun e => forallb (fun d => before order d (fst e)) (snd e)) t.
Fixpoint distinct (l : list Z) : bool :=
  match l with [] => true | x :: r => negb (existsb (Z.eqb x) r) && distinct r end.
Definition covers (order types : list Z) : bool := forallb (fun ty => existsb (Z.eqb ty) order) types.

Lemma table_order_ok :
  exists order, determine_load_order dep_table = Ok order /\ respects dep_table order = true /\
                distinct order = true /\ covers order map_types = true /\ covers order (map fst dep_table) = true.
Proof. eexists. split; [vm_compute; reflexivity|]. repeat split; vm_compute; reflexivity. Qed.

Lemma distinct_NoDup l : distinct l = true -> NoDup l.
Proof.
  induction l as [|x l IH]; [constructor|]. cbn [distinct]. intros H. apply andb_true_iff in H as [H1 H2]. constructor; [|auto].
  intros Hin. apply negb_true_iff in H1. assert (X : existsb (Z.eqb x) l = true) by (apply existsb_exists; exists x; split; [auto | apply Z.eqb_refl]).
  congruence.
Qed.

(* ================================================================ 3. sorting distinct keys forgets the input order *)
Section SortFacts.
  Variable A : Type.
  Variable key : A -> Z.
  Definition le_key (a b : A) : Prop := key a <= key b.
  Lemma insert_perm x l : Permutation (insert key x l) (x :: l).
  Proof.
    induction l as [|y l IH]; [reflexivity|]. cbn [insert]. destruct (key x <=? key y); [reflexivity|].
    rewrite IH. apply perm_swap.
  Qed.
  Lemma isort_perm l : Permutation (isort key l) l.
  Proof. induction l as [|x l IH]; [reflexivity|]. cbn [isort fold_right]. fold (isort key l). rewrite insert_perm. now constructor. Qed.
  Lemma insert_sorted x l : StronglySorted le_key l -> StronglySorted le_key (insert key x l).
  Proof.
    induction 1 as [|y l Hs IH Hall]; [repeat constructor|]. cbn [insert]. destruct (key x <=? key y) eqn:E.
    - apply Z.leb_le in E. constructor; [constructor; assumption|]. constructor; [exact E|].
      rewrite Forall_forall in *. intros z Hz. specialize (Hall z Hz). unfold le_key in *. lia.
    - apply Z.leb_gt in E. constructor; [exact IH|]. rewrite Forall_forall in *. intros z Hz.
      apply (Permutation_in _ (insert_perm x l)) in Hz. destruct Hz as [<-|Hz]; [unfold le_key; lia | auto].
  Qed.
  Lemma isort_sorted l : StronglySorted le_key (isort key l).
  Proof. induction l as [|x l IH]; [constructor|]. cbn [isort fold_right]. now apply insert_sorted. Qed.

  Lemma nodup_map_inj (l : list A) x y : NoDup (map key l) -> In x l -> In y l -> key x = key y -> x = y.
  Proof.
    induction l as [|z l IH]; [contradiction|]. cbn [map]. intros Hnd Hx Hy E. inversion Hnd as [|? ? Hn Hnd']; subst.
    destruct Hx as [->|Hx], Hy as [->|Hy]; auto.
    - exfalso. apply Hn. rewrite E. now apply in_map.
    - exfalso. apply Hn. rewrite <- E. now apply in_map.
  Qed.
  Lemma sorted_perm_unique : forall l l', StronglySorted le_key l -> StronglySorted le_key l' -> Permutation l l' ->
    NoDup (map key l) -> l = l'.
  Proof.
    induction l as [|a l IH]; intros l' Hs Hs' Hp Hnd.
    - apply Permutation_nil in Hp. now subst.
    - destruct l' as [|b l']; [apply Permutation_sym, Permutation_nil in Hp; discriminate|].
      inversion Hs as [|? ? Hsl Hal]; subst. inversion Hs' as [|? ? Hsl' Hal']; subst.
      assert (Hb : In b (a :: l)) by (apply (Permutation_in _ (Permutation_sym Hp)); now left).
      assert (Ha : In a (b :: l')) by (apply (Permutation_in _ Hp); now left).
      assert (E : key a = key b).
      { rewrite Forall_forall in Hal, Hal'. unfold le_key in *.
        destruct Hb as [->|Hb]; [reflexivity|]. destruct Ha as [->|Ha]; [reflexivity|]. specialize (Hal _ Hb). specialize (Hal' _ Ha). lia. }
      assert (a = b) by (apply (nodup_map_inj (a :: l)); auto; now left). subst b.
      f_equal. apply IH; auto.
      + now apply Permutation_cons_inv in Hp.
      + cbn [map] in Hnd. now inversion Hnd.
  Qed.
  Theorem isort_order_free l l' : Permutation l l' -> NoDup (map key l) -> isort key l = isort key l'.
  Proof.
    intros Hp Hnd. apply sorted_perm_unique; try apply isort_sorted.
    - rewrite isort_perm, isort_perm. exact Hp.
    - apply (Permutation_NoDup (l := map key l)); [|exact Hnd]. apply Permutation_map, Permutation_sym, isort_perm.
  Qed.
End SortFacts.

(* ================================================================ 4. MapList: the parse order and the lookups *)
Lemma index_of_nonneg x : forall order i, index_of x order = Some i -> 0 <= i.
Proof.
  induction order as [|z order IH]; intros i; [discriminate|]. cbn [index_of]. destruct (x =? z).
  - intros E. injection E as <-. lia.
  - destruct (index_of x order) as [j|]; [|discriminate]. cbn. intros E. injection E as <-. specialize (IH j eq_refl). lia.
Qed.
Lemma index_of_inj order x y i : index_of x order = Some i -> index_of y order = Some i -> x = y.
Proof.
  revert i. induction order as [|z order IH]; intros i; [discriminate|]. cbn [index_of].
  destruct (x =? z) eqn:Ex, (y =? z) eqn:Ey.
  - intros _ _. apply Z.eqb_eq in Ex, Ey. congruence.
  - intros E1 E2. injection E1 as <-. destruct (index_of y order) as [j|] eqn:Ej; [|discriminate]. cbn in E2. injection E2 as E2.
    apply index_of_nonneg in Ej. lia.
  - intros E1 E2. injection E2 as <-. destruct (index_of x order) as [j|] eqn:Ej; [|discriminate]. cbn in E1. injection E1 as E1.
    apply index_of_nonneg in Ej. lia.
  - destruct (index_of x order) as [j|] eqn:Ex'; [|discriminate]. destruct (index_of y order) as [j'|] eqn:Ey'; [|discriminate].
    cbn. intros E1 E2. injection E1 as E1. injection E2 as E2. apply (IH j); [reflexivity | f_equal; lia].
Qed.

Lemma known_perm order (items items' : list map_item) : Permutation items items' ->
  forallb (fun mi => match index_of (fst mi) order with Some _ => true | None => false end) items =
  forallb (fun mi => match index_of (fst mi) order with Some _ => true | None => false end) items'.
Proof.
  induction 1 as [|x l l' H IH|x y l|l l' l'' H1 IH1 H2 IH2]; cbn [forallb]; try congruence.
  - now rewrite !andb_assoc, (andb_comm (match index_of (fst y) order with Some _ => true | None => false end)).
Qed.

(* any order of the entries in the map list gives the same parse order (entries of pairwise distinct types) *)
Theorem parse_order_free order items items' : Permutation items items' -> NoDup (map fst items) ->
  parse_order order items = parse_order order items'.
Proof.
  intros Hp Hnd. unfold parse_order. rewrite <- (known_perm order _ _ Hp).
  destruct (forallb _ items) eqn:Hk; [|reflexivity]. f_equal. apply isort_order_free; [exact Hp|].
  rewrite forallb_forall in Hk. clear Hp.
  induction items as [|a items IH]; [constructor|]. cbn [map] in *. inversion Hnd as [|? ? Hn Hnd']; subst. constructor.
  - intros Hin. apply in_map_iff in Hin as (b & E & Hb). apply Hn. apply in_map_iff. exists b. split; [|exact Hb].
    unfold rank in E. pose proof (Hk a (or_introl eq_refl)) as Ka. pose proof (Hk b (or_intror Hb)) as Kb.
    destruct (index_of (fst a) order) as [i|] eqn:Ea; [|discriminate]. destruct (index_of (fst b) order) as [j|] eqn:Eb; [|discriminate].
    subst j. symmetry. eapply index_of_inj; eauto.
  - apply IH; auto. intros x Hx. apply Hk. now right.
Qed.

Lemma find_type_free (f : map_item -> bool) (items items' : list map_item) :
  (forall a b, f a = true -> f b = true -> fst a = fst b) ->
  Permutation items items' -> NoDup (map fst items) -> find f items = find f items'.
Proof.
  intros Hf Hp Hnd.
  assert (Hnd' : NoDup (map fst items')) by (eapply Permutation_NoDup; [apply Permutation_map, Hp | exact Hnd]).
  destruct (find f items) as [mi|] eqn:E1; destruct (find f items') as [mi'|] eqn:E2; try reflexivity.
  - apply find_some in E1 as [H1 K1], E2 as [H2 K2]. f_equal.
    apply (nodup_map_inj _ fst items'); auto. eapply Permutation_in; eauto.
  - apply find_some in E1 as [H1 K1]. pose proof (find_none _ _ E2 mi (Permutation_in _ Hp H1)) as X. congruence.
  - apply find_some in E2 as [H2 K2]. pose proof (find_none _ _ E1 mi' (Permutation_in _ (Permutation_sym Hp) H2)) as X. congruence.
Qed.
Theorem get_item_type_free (items items' : list map_item) ty : Permutation items items' -> NoDup (map fst items) ->
  get_item_type items ty = get_item_type items' ty.
Proof.
  intros Hp Hnd. unfold get_item_type. apply find_type_free; auto.
  intros a b Ha Hb. apply Z.eqb_eq in Ha, Hb. congruence.
Qed.

(* whatever parsing one entry does to the class manager: the state after all entries is the same *)
Section Parse.
  Variable state : Type.
  Variable parse_step : state -> map_item -> state.
  Definition load_all (order : list Z) (items : list map_item) (s0 : state) : result state :=
    match parse_order order items with Ok l => Ok (fold_left parse_step l s0) | Err e => Err e end.
  Theorem load_all_free order items items' s0 : Permutation items items' -> NoDup (map fst items) ->
    load_all order items s0 = load_all order items' s0.
  Proof. intros Hp Hnd. unfold load_all. now rewrite (parse_order_free order items items' Hp Hnd). Qed.
End Parse.
