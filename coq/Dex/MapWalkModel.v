(* C35 - MapList.__init__ and MapItem.parse (androguard/core/dex/__init__.py): the map list is read (a count from the file, then one
   12-byte map_item per count), and every item's section is parsed from its own offset - a count from the file, one record per count.
   Modelled section kinds: the id tables (string, type, proto, field ids: records of 4, 4, 12, 8 bytes), string data, code items, encoded arrays, annotation items, class data, type lists,
   annotation set ref lists, annotation set items (a 32-bit count, then records of 2, 4, 4 bytes; a type list of odd length is
   followed by two bytes of padding, read without a check), annotations directories (four words, then three lists of 8-byte records)
   and the map list itself (not parsed again).  Method ids are records of 8 bytes, but MethodIdItem resolves its prototype while it is read: the
   model has no cross references and is compared with the code on empty method id tables only.  The other kinds (header, class
   definitions, debug info, hidden API data) have models of their own or none: a map that
   names one is outside this model (OtherError).  A value that is no TypeMapItem raises ValueError while the list is read.
   The file is the list of its bytes; a BytesIO positioned at p is (skipn p buf); reading k bytes from fewer raises struct.error. *)
From Coq Require Import ZArith List Bool Lia.
Require Import V.Lib.Val V.Lib.Result V.Dex.LebModel V.Dex.StringsModel V.Dex.MapOrderModel V.gen.Gen_MapDeps.
Require V.Dex.EncodedValueModel V.Dex.ClassDataModel.
Import ListNotations.
Open Scope Z_scope.

Definition bytes := list Z.
Definition take_n (k : nat) (bs : bytes) : result (bytes * bytes) :=
  if (k <=? length bs)%nat then Ok (firstn k bs, skipn k bs) else Err StructError.
Fixpoint le (bs : bytes) : Z := match bs with [] => 0 | b :: r => b + 256 * le r end.
Definition u16 (bs : bytes) : result (Z * bytes) := do '(x, r) <- take_n 2 bs; Ok (le x, r).
Definition u32 (bs : bytes) : result (Z * bytes) := do '(x, r) <- take_n 4 bs; Ok (le x, r).
(* buff.seek(p): any position is allowed, reads behind the end return nothing *)
Definition seek (buf : bytes) (p : Z) : bytes := if p <? 0 then buf else skipn (Z.to_nat (Z.min p (Z.of_nat (length buf)))) buf.

(* [Item(buff) for _ in range(count)]: the generic loop; rd reads one record *)
Section Loop.
  Variable A : Type.
  Variable rd : bytes -> result (A * bytes).
  Fixpoint read_n (fuel : nat) (count : Z) (bs : bytes) (acc : list A) : result (list A * bytes) :=
    match fuel with
    | O => Err OutOfFuel
    | S f => if count <=? 0 then Ok (rev acc, bs) else
             match rd bs with
             | Err e => Err e
             | Ok (x, rest) => read_n f (count - 1) rest (x :: acc)
             end
    end.
End Loop.
Arguments read_n {A}.

(* the position in the file at which a record starts (item.offset = buff.tell() in every item class): L is the length of the file *)
Definition with_pos {A} (L : nat) (rd : bytes -> result (A * bytes)) (bs : bytes) : result ((Z * A) * bytes) :=
  do '(x, r) <- rd bs; Ok ((Z.of_nat L - Z.of_nat (length bs), x), r).

Definition rd_fixed (k : nat) (bs : bytes) : result (bytes * bytes) := take_n k bs.
(* a 32-bit count, then count records of k bytes; the number of records read *)
Definition rd_sized (k : nat) (pad_odd : bool) (fuel : nat) (bs : bytes) : result (Z * bytes) :=
  do '(n, r) <- u32 bs;
  do '(xs, r1) <- read_n (rd_fixed k) fuel n r [];
  Ok (Z.of_nat (length xs), if pad_odd && Z.odd n then skipn 2 r1 else r1).
(* annotations_directory_item *)
Definition rd_anndir (fuel : nat) (bs : bytes) : result (Z * bytes) :=
  do '(_, r0) <- u32 bs;
  do '(nf, r1) <- u32 r0;
  do '(nm, r2) <- u32 r1;
  do '(np, r3) <- u32 r2;
  do '(fs, r4) <- read_n (rd_fixed 8) fuel nf r3 [];
  do '(ms, r5) <- read_n (rd_fixed 8) fuel nm r4 [];
  do '(ps, r6) <- read_n (rd_fixed 8) fuel np r5 [];
  Ok (Z.of_nat (length fs + length ms + length ps), r6).

(* string_data_item: the length in UTF-16 units (readuleb128), then the bytes up to the first NUL (read_null_terminated_string -
   coq/Dex/StringsModel.v has the reader with its 128-byte chunks and the theorem that it stops behind the first NUL; here only
   what it leaves behind matters); no NUL before the end of the file raises ValueError *)
Definition rd_strdata (bs : bytes) : result (Z * bytes) :=
  do '(n, r) <- read_u bs;
  if has0 r then Ok (n, after0 r) else Err ValueError.

(* code_item (DalvikCode.__init__): 16 bytes of header; the instructions taken in one read (a short read is not an error: they are
   decoded later, C02); two bytes of padding when there are try items and an odd number of code units; the try items; the list of
   handler lists (EncodedCatchHandlerList, EncodedCatchHandler, EncodedTypeAddrPair).  CodeItem.__init__ aligns every item to
   four bytes: L is the length of the file, so that (L - bytes left) is the position *)
Definition rd_pair (bs : bytes) : result (unit * bytes) :=
  do '(_, r) <- read_u bs; do '(_, r2) <- read_u r; Ok (tt, r2).
Definition rd_handler (fuel : nat) (bs : bytes) : result (Z * bytes) :=
  do '(size, r) <- read_s bs;
  do '(ps, r1) <- read_n rd_pair fuel (Z.abs size) r [];
  if size <=? 0 then do '(_, r2) <- read_u r1; Ok (Z.of_nat (length ps), r2) else Ok (Z.of_nat (length ps), r1).
Definition rd_code (L : nat) (fuel : nat) (bs : bytes) : result ((Z * (Z * Z)) * bytes) :=
  let pos := Z.of_nat L - Z.of_nat (length bs) in
  let bs0 := skipn (Z.to_nat ((4 - pos mod 4) mod 4)) bs in
  let at0 := Z.of_nat L - Z.of_nat (length bs0) in
  do '(h, r) <- take_n 16 bs0;
  let tries := le (firstn 2 (skipn 6 h)) in
  let insns := le (skipn 12 h) in
  let r1 := skipn (Z.to_nat (Z.min (2 * insns) (Z.of_nat (length r)))) r in
  do r2 <- (if Z.odd insns && (0 <? tries) then do '(_, x) <- u16 r1; Ok x else Ok r1);
  if 0 <? tries then
    do '(ts, r3) <- read_n (rd_fixed 8) fuel tries r2 [];
    do '(hs, r4) <- read_u r3;
    do '(hl, r5) <- read_n (rd_handler fuel) fuel hs r4 [];
    Ok ((at0, (Z.of_nat (length ts), Z.of_nat (length hl))), r5)
  else Ok ((at0, (0, 0)), r2).

(* encoded_array_item (EncodedArray: a count and that many encoded values) and annotation_item (a visibility byte, then an
   EncodedAnnotation - the reader behind a value of type VALUE_ANNOTATION): the model of C04, nested to any depth *)
(* (the fuel is the nesting depth the value reader may use; it is never less than the bytes left + 1 where these are called) *)
Definition rd_encarray (fuel : nat) (bs : bytes) : result (Z * bytes) :=
  if (fuel <=? length bs)%nat then Err OutOfFuel else
  do '(vs, r) <- EncodedValueModel.parse_array fuel bs; Ok (Z.of_nat (length vs), r).
Definition rd_annotation (fuel : nat) (bs : bytes) : result (Z * bytes) :=
  if (fuel <=? length bs)%nat then Err OutOfFuel else
  do '(vis, r) <- get_byte bs;
  do '(_, r2) <- EncodedValueModel.parse_step (EncodedValueModel.parse_value fuel) EncodedValueModel.VALUE_ANNOTATION r;
  Ok (vis, r2).

(* class_data_item: the model of C05 (four sizes, then the index-diff encoded fields and methods); the number of its members *)
Definition rd_classdata (bs : bytes) : result (Z * bytes) :=
  do '(cd, r) <- ClassDataModel.read_class_data bs;
  Ok (Z.of_nat (length (ClassDataModel.cd_sfields cd) + length (ClassDataModel.cd_ifields cd) +
                length (ClassDataModel.cd_dmethods cd) + length (ClassDataModel.cd_vmethods cd)), r).

Inductive kind := KFixed (k : nat) | KSized (k : nat) (pad_odd : bool) | KAnnDir | KSelf | KOutside | KStrData | KCode | KNothing | KEncArray | KAnnotation | KClassData.
(* TypeMapItem(value): None when the value is no member of the enum *)
Definition kind_of (ty : Z) : option kind :=
  if ty =? 1 then Some (KFixed 4) else if ty =? 2 then Some (KFixed 4) else if ty =? 3 then Some (KFixed 12)
  else if ty =? 4 then Some (KFixed 8) else if ty =? 5 then Some (KFixed 8)
  else if ty =? 4097 then Some (KSized 2 true) else if ty =? 4098 then Some (KSized 4 false) else if ty =? 4099 then Some (KSized 4 false)
  else if ty =? 8198 then Some KAnnDir else if ty =? 4096 then Some KSelf
  else if ty =? 8194 then Some KStrData else if ty =? 8193 then Some KCode
  else if ty =? 8197 then Some KEncArray else if ty =? 8196 then Some KAnnotation else if ty =? 8192 then Some KClassData
  else if (ty =? 7) || (ty =? 8) then Some KNothing          (* call sites, method handles: members of the enum MapItem.parse has no branch for *)
  else if (ty =? 0) || (ty =? 6) || (ty =? 8195) || (ty =? 61440) then Some KOutside
  else None.
(* where MapItem.parse seeks to: the string ids at their offset, the others at offset + offset % 4 *)
Definition start_of (ty off : Z) : Z := if (ty =? 1) || (ty =? 8194) || (ty =? 8196) || (ty =? 8197) || (ty =? 8192) then off else off + off mod 4.

(* MapItem.parse: where each object of the section starts (item.offset), in order; for a list of sized records: each list *)
Definition section (fuel : nat) (buf : bytes) (ty count off : Z) : result (list Z) :=
  let bs := seek buf (start_of ty off) in
  let L := length buf in
  match kind_of ty with
  | None => Err ValueError
  | Some KOutside => Err OtherError
  | Some KSelf => Ok []
  | Some KNothing => Ok []
  | Some KStrData => do '(xs, _) <- read_n (with_pos L rd_strdata) fuel count bs []; Ok (map fst xs)
  | Some KCode => do '(xs, _) <- read_n (rd_code L fuel) fuel count bs []; Ok (map fst xs)
  | Some KEncArray => do '(xs, _) <- read_n (with_pos L (rd_encarray fuel)) fuel count bs []; Ok (map fst xs)
  | Some KAnnotation => do '(xs, _) <- read_n (with_pos L (rd_annotation fuel)) fuel count bs []; Ok (map fst xs)
  | Some KClassData => do '(xs, _) <- read_n (with_pos L rd_classdata) fuel count bs []; Ok (map fst xs)
  | Some (KFixed k) => do '(xs, _) <- read_n (with_pos L (rd_fixed k)) fuel count bs []; Ok (map fst xs)
  | Some (KSized k p) => do '(xs, _) <- read_n (with_pos L (rd_sized k p fuel)) fuel count bs []; Ok (map fst xs)
  | Some KAnnDir => do '(xs, _) <- read_n (with_pos L (rd_anndir fuel)) fuel count bs []; Ok (map fst xs)
  end.

(* MapItem.__init__ *)
Record mitem := { m_type : Z; m_count : Z; m_off : Z }.
(* the enum conversion happens between the two reads, so a bad value wins over a short second read *)
Definition rd_mitem (bs : bytes) : result (mitem * bytes) :=
  do '(ty, r0) <- u16 bs;
  match kind_of ty with
  | None => Err ValueError
  | Some _ => do '(rest, r1) <- take_n 10 r0;
              Ok ({| m_type := ty; m_count := le (firstn 4 (skipn 2 rest)); m_off := le (skipn 6 rest) |}, r1)
  end.

Fixpoint sections (fuel : nat) (buf : bytes) (items : list mitem) : result (list (list Z)) :=
  match items with
  | [] => Ok []
  | it :: r => do n <- section fuel buf (m_type it) (m_count it) (m_off it);
               do ns <- sections fuel buf r;
               Ok (n :: ns)
  end.
(* the order in which MapList.__init__ parses the sections: sorted by the load order of C07 (computed by the model of
   determine_load_order from the dependency table that is regenerated from dex_types.py on every run); stable *)
Definition load_order : list Z := match determine_load_order dep_table with Ok l => l | Err _ => [] end.
Definition load_rank (it : mitem) : Z := match index_of (m_type it) load_order with Some i => i | None => -1 end.
(* MapList.__init__(cm, off, buff): the items in file order, each with the positions at which the objects of its section start.  The sections are parsed in
   load order, so that is the order in which an error shows (a short read raises struct.error, string data without its NUL
   ValueError); the numbers do not depend on the order - every section seeks to its own offset. *)
Definition map_list (fuel : nat) (buf : bytes) (off : Z) : result (list (mitem * list Z)) :=
  do '(n, r) <- u32 (seek buf off);
  do '(items, _) <- read_n rd_mitem fuel n r [];
  do _ <- sections fuel buf (isort load_rank items);
  do ns <- sections fuel buf items;
  Ok (combine items ns).

Definition obs_map (x : bytes * Z) : val :=
  let '(buf, off) := x in
  vres (fun l => VList (map (fun p => VList [VZ (m_type (fst p)); VZ (m_count (fst p)); VZ (m_off (fst p)); vlistZ (snd p)]) l))
       (map_list (S (length buf)) buf off).
