(* C01 - glue around the translated instruction classes (coq/gen/Gen_Insn.v): get_instruction /
   get_optimized_instruction (table lookup, struct.error turned into InvalidInstruction) and the
   observation compared with the real objects.  Hand-written; the classes and tables are generated. *)
From Coq Require Import ZArith List Bool.
Require Import V.Lib.Val V.Lib.Result V.Lib.Struct V.gen.Gen_Insn.
Import ListNotations.
Open Scope Z_scope.

Definition lookup_op (tbl : list (Z * (Z * list Z))) (op : Z) : option (Z * list Z) :=
  option_map snd (find (fun r => fst r =? op) tbl).

(* get_instruction(cm, op_value, buff) / get_optimized_instruction: (class tag, mnemonic, fields) *)
Definition get_instruction (tbl : list (Z * (Z * list Z))) (op : Z) (bs : list Z) : result (Z * list Z * list Z) :=
  match lookup_op tbl op with
  | None => Err KeyError
  | Some (c, name) =>
      match dec_of_class c bs with
      | Ok f => Ok (c, name, f)
      | Err StructError => Err InvalidInstruction
      | Err e => Err e
      end
  end.

(* (optimized table?, op value, bytes) -> name, length, raw, literals, ref_off, ref_kind *)
Definition obs_insn (i : (bool * Z) * list Z) : val :=
  let '((opt, op), bs) := i in
  match get_instruction (if opt then table_optimized else table_format) op bs with
  | Err e => VErr (err_code e)
  | Ok (c, name, f) =>
      VList [VStr name; VZ (len_of_class c); vres VStr (raw_of_class c f); vlistZ (lits_of_class c f);
             vopt VZ (refoff_of_class c f); vopt VZ (refkind_of_class c f)]
  end.
