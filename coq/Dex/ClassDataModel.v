(* C05 - hand-written model of the DEX object model: class_data_item (ClassDataItem.__init__/_load_elements: four
   sizes, then index-diff encoded fields and methods), the resolution of type/proto/field/method indices through the id
   tables (ClassManager.get_string/get_type/get_type_list/get_proto/get_field/get_method, ClassDefItem.reload,
   EncodedField.reload, EncodedMethod.reload) and the descriptor-based lookups of DEX (get_class,
   get_encoded_method_descriptor, get_encoded_field_descriptor).  Strings are lists of code points (C06 covers their
   decoding); the id tables are given as lists (fixed-width records, read by the harness straight from the file).
   Tied to the source by tools/props/c05.py. *)
From Coq Require Import ZArith List Bool.
Require Import V.Lib.Val V.Lib.Result V.Dex.LebModel.
Import ListNotations.
Open Scope Z_scope.

(* ---------------------------------------------------------------- class_data_item *)
Record efield := { f_idx : Z; f_flags : Z }.
Record emethod := { m_idx : Z; m_flags : Z; m_code : Z }.
Record class_data := { cd_sfields : list efield; cd_ifields : list efield; cd_dmethods : list emethod; cd_vmethods : list emethod }.

(* size elements, each index = previous index + the encoded difference (the first is relative to 0);
   the fuel is the number of bytes left - every element takes at least two *)
Fixpoint read_fields (fuel : nat) (cnt prev : Z) (bs : list Z) : result (list efield * list Z) :=
  if cnt <=? 0 then Ok ([], bs) else
  match fuel with
  | O => Err StructError
  | S f =>
      do ' (d, r1) <- read_u bs;
      do ' (fl, r2) <- read_u r1;
      let idx := prev + d in
      do ' (rest, r3) <- read_fields f (cnt - 1) idx r2;
      Ok ({| f_idx := idx; f_flags := fl |} :: rest, r3)
  end.
Fixpoint read_methods (fuel : nat) (cnt prev : Z) (bs : list Z) : result (list emethod * list Z) :=
  if cnt <=? 0 then Ok ([], bs) else
  match fuel with
  | O => Err StructError
  | S f =>
      do ' (d, r1) <- read_u bs;
      do ' (fl, r2) <- read_u r1;
      do ' (co, r3) <- read_u r2;
      let idx := prev + d in
      do ' (rest, r4) <- read_methods f (cnt - 1) idx r3;
      Ok ({| m_idx := idx; m_flags := fl; m_code := co |} :: rest, r4)
  end.
Definition read_class_data (bs : list Z) : result (class_data * list Z) :=
  do ' (ns, r1) <- read_u bs;
  do ' (ni, r2) <- read_u r1;
  do ' (nd, r3) <- read_u r2;
  do ' (nv, r4) <- read_u r3;
  do ' (sf, r5) <- read_fields (length r4) ns 0 r4;
  do ' (inf, r6) <- read_fields (length r5) ni 0 r5;
  do ' (dm, r7) <- read_methods (length r6) nd 0 r6;
  do ' (vm, r8) <- read_methods (length r7) nv 0 r7;
  Ok ({| cd_sfields := sf; cd_ifields := inf; cd_dmethods := dm; cd_vmethods := vm |}, r8).

(* ---------------------------------------------------------------- id tables and resolution *)
Definition str := list Z.
Record tables := {
  t_strings : list str;
  t_types : list Z;                       (* descriptor_idx *)
  t_protos : list (Z * (Z * list Z));     (* shorty_idx, return_type_idx, parameter type indices (the type_list) *)
  t_fields : list (Z * (Z * Z));          (* class_idx, type_idx, name_idx *)
  t_methods : list (Z * (Z * Z)) }.       (* class_idx, proto_idx, name_idx *)

Definition INVALID_STRING : str := [65; 71; 58; 73; 83; 58; 32; 105; 110; 118; 97; 108; 105; 100; 32; 115; 116; 114; 105; 110; 103].
Definition INVALID_TYPE : str := [65; 71; 58; 73; 84; 73; 58; 32; 105; 110; 118; 97; 108; 105; 100; 32; 116; 121; 112; 101].
(* the bound is tested before the conversion: an index such as NO_INDEX = 0xffffffff must not become a unary number *)
Definition nth_z {A} (l : list A) (i : Z) : option A :=
  if (i <? 0) || (Z.of_nat (length l) <=? i) then None else nth_error l (Z.to_nat i).
Definition get_string (t : tables) (i : Z) : str := match nth_z (t_strings t) i with Some s => s | None => INVALID_STRING end.
Definition get_type (t : tables) (i : Z) : str := match nth_z (t_types t) i with Some s => get_string t s | None => INVALID_TYPE end.
Fixpoint join_sp (l : list str) : str := match l with [] => [] | [x] => x | x :: r => x ++ [32] ++ join_sp r end.
(* ''.join(get_proto(idx)) = '(' + ' '.join(parameter types) + ')' + return type *)
Definition get_descriptor (t : tables) (pidx : Z) : result str :=
  match nth_z (t_protos t) pidx with
  | Some (_, (ret, params)) => Ok ([40] ++ join_sp (map (get_type t) params) ++ [41] ++ get_type t ret)
  | None => Err IndexError
  end.
(* (class name, name, type descriptor) / (class name, name, method descriptor) *)
Definition resolve_field (t : tables) (i : Z) : result (str * (str * str))%type :=
  match nth_z (t_fields t) i with
  | Some (c, (ty, n)) => Ok (get_type t c, (get_string t n, get_type t ty))
  | None => Err IndexError
  end.
Definition resolve_method (t : tables) (i : Z) : result (str * (str * str))%type :=
  match nth_z (t_methods t) i with
  | Some (c, (p, n)) => do d <- get_descriptor t p; Ok (get_type t c, (get_string t n, d))
  | None => Err IndexError
  end.

(* ---------------------------------------------------------------- classes *)
Record classdef := { c_class : Z; c_access : Z; c_super : Z; c_ifaces : list Z; c_source : Z; c_data : option (list Z) }.
Record member := { mb_class : str; mb_name : str; mb_desc : str; mb_flags : Z; mb_code : Z }.   (* code offset; -1 for fields *)
Record pclass := { p_name : str; p_super : str; p_ifaces : list str; p_access : Z; p_source : Z;
                   p_fields : list member; p_methods : list member }.

Fixpoint map_res {A B} (f : A -> result B) (l : list A) : result (list B) :=
  match l with [] => Ok [] | x :: r => do y <- f x; do ys <- map_res f r; Ok (y :: ys) end.
Definition field_member (t : tables) (f : efield) : result member :=
  do ' (c, (n, d)) <- resolve_field t (f_idx f);
  Ok {| mb_class := c; mb_name := n; mb_desc := d; mb_flags := f_flags f; mb_code := -1 |}.
Definition method_member (t : tables) (m : emethod) : result member :=
  do ' (c, (n, d)) <- resolve_method t (m_idx m);
  Ok {| mb_class := c; mb_name := n; mb_desc := d; mb_flags := m_flags m; mb_code := m_code m |}.
Definition parse_class (t : tables) (c : classdef) : result pclass :=
  do cd <- match c_data c with
           | None => Ok {| cd_sfields := []; cd_ifields := []; cd_dmethods := []; cd_vmethods := [] |}
           | Some bs => do ' (cd, _) <- read_class_data bs; Ok cd
           end;
  do fs <- map_res (field_member t) (cd_sfields cd ++ cd_ifields cd);
  do ms <- map_res (method_member t) (cd_dmethods cd ++ cd_vmethods cd);
  Ok {| p_name := get_type t (c_class c); p_super := get_type t (c_super c); p_ifaces := map (get_type t) (c_ifaces c);
        p_access := c_access c; p_source := c_source c; p_fields := fs; p_methods := ms |}.
Definition parse_classes (t : tables) (cs : list classdef) : result (list pclass) := map_res (parse_class t) cs.

(* ---------------------------------------------------------------- lookups *)
Definition str_eqb (a b : str) : bool := list_eqb Z.eqb a b.
(* get_class: the first class of that name *)
Definition get_class (cs : list pclass) (name : str) : option pclass := find (fun c => str_eqb (p_name c) name) cs.
(* the caches are dictionaries filled in class order, member order: a later member with the same key replaces an earlier
   one; the key is the triple (class name, name, descriptor) for fields, the concatenation of the three for methods *)
Fixpoint find_last {A} (f : A -> bool) (l : list A) : option A :=
  match l with [] => None | x :: r => match find_last f r with Some y => Some y | None => if f x then Some x else None end end.
Definition all_fields (cs : list pclass) : list member := flat_map p_fields cs.
Definition all_methods (cs : list pclass) : list member := flat_map p_methods cs.
Definition lookup_field (cs : list pclass) (c n d : str) : option member :=
  find_last (fun m => str_eqb (mb_class m) c && str_eqb (mb_name m) n && str_eqb (mb_desc m) d) (all_fields cs).
Definition lookup_method (cs : list pclass) (c n d : str) : option member :=
  find_last (fun m => str_eqb (mb_class m ++ mb_name m ++ mb_desc m) (c ++ n ++ d)) (all_methods cs).

(* ---------------------------------------------------------------- observation *)
Definition vstr (s : str) : val := vlistZ s.
Definition vmember (m : member) : val := VList [vstr (mb_class m); vstr (mb_name m); vstr (mb_desc m); VZ (mb_flags m); VZ (mb_code m)].
Definition vclass (c : pclass) : val :=
  VList [vstr (p_name c); vstr (p_super c); VList (map vstr (p_ifaces c)); VZ (p_access c); VZ (p_source c);
         VList (map vmember (p_fields c)); VList (map vmember (p_methods c))].
Definition vopt (o : option member) : val := match o with Some m => vmember m | None => VNone end.
Definition query := ((bool * str) * (str * str))%type.
Definition obs_dex (x : (tables * list classdef) * list query) : val :=
  let '((t, cs), queries) := x in
  match parse_classes t cs with
  | Err e => VErr (err_code e)
  | Ok pcs =>
      VList [VList (map vclass pcs);
             VList (map (fun q : query => let '((isf, c), (n, d)) := q in vopt (if isf : bool then lookup_field pcs c n d else lookup_method pcs c n d)) queries)]
  end.
Definition obs_class_data (bs : list Z) : val :=
  vres (fun r => VList [VList (map (fun f => VList [VZ (f_idx f); VZ (f_flags f)]) (cd_sfields (fst r)));
                        VList (map (fun f => VList [VZ (f_idx f); VZ (f_flags f)]) (cd_ifields (fst r)));
                        VList (map (fun m => VList [VZ (m_idx m); VZ (m_flags m); VZ (m_code m)]) (cd_dmethods (fst r)));
                        VList (map (fun m => VList [VZ (m_idx m); VZ (m_flags m); VZ (m_code m)]) (cd_vmethods (fst r)));
                        VZ (Z.of_nat (length (snd r)))]) (read_class_data bs).
