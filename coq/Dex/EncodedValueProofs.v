(* C04 - the reader of encoded values returns what the DEX format defines. *)
From Coq Require Import ZArith List Bool Lia.
Require Import V.Lib.Val V.Lib.Result V.Lib.Fmt V.Lib.Bits V.Dex.LebModel V.Dex.LebSpec V.Dex.LebProofs V.Dex.EncodedValueModel.
Import ListNotations.
Open Scope Z_scope.
Ltac Zify.zify_post_hook ::= Z.to_euclidean_division_equations.

Definition is_bytes (l : list Z) : Prop := Forall (fun b => 0 <= b < 256) l.
(* little-endian value of a byte string, unsigned and signed *)
Fixpoint le_u (l : list Z) : Z := match l with [] => 0 | b :: t => b + 256 * le_u t end.
Definition nbits (l : list Z) : Z := 8 * Z.of_nat (length l).
Definition le_s (l : list Z) : Z :=
  if (nbits l =? 0) then 0 else if 2 ^ (nbits l - 1) <=? le_u l then le_u l - 2 ^ nbits l else le_u l.

Lemma le_u_range : forall l, is_bytes l -> 0 <= le_u l < 2 ^ nbits l.
Proof.
  induction 1 as [|b l Hb Hl IH]; unfold nbits in *; cbn [le_u length]; [simpl; lia|].
  replace (8 * Z.of_nat (S (length l))) with (8 + 8 * Z.of_nat (length l)) by lia.
  rewrite Z.pow_add_r by lia. change (2 ^ 8) with 256. lia.
Qed.

(* _getintvalue accumulates with or/shift; the fields never overlap, so it is the little-endian sum *)
Lemma getint_fold : forall l ret k, is_bytes l -> 0 <= k -> 0 <= ret < 2 ^ k ->
  fst (fold_left (fun '(ret, shift) b => (Z.lor ret (Z.shiftl b shift), shift + 8)) l (ret, k)) = ret + 2 ^ k * le_u l.
Proof.
  induction l as [|b l IH]; intros ret k Hl Hk Hr; cbn [fold_left le_u]; [cbn [fst]; lia|].
  inversion Hl as [|? ? Hb Hl']; subst. rewrite IH; try assumption; try lia.
  - rewrite lor_shl_add by lia. replace (k + 8) with (8 + k) by lia. rewrite Z.pow_add_r by lia. change (2 ^ 8) with 256. lia.
  - rewrite lor_shl_add by lia. replace (k + 8) with (8 + k) by lia. rewrite Z.pow_add_r by lia. change (2 ^ 8) with 256.
    assert (0 < 2 ^ k) by (apply Z.pow_pos_nonneg; lia). nia.
Qed.
Lemma getintvalue_le : forall l, is_bytes l -> getintvalue l = le_u l.
Proof. intros l H. unfold getintvalue. rewrite getint_fold by (try assumption; simpl; lia). simpl. lia. Qed.

(* the header byte *)
Lemma header_split : forall ty arg, 0 <= ty < 32 -> 0 <= arg < 8 ->
  Z.shiftr (ty + 32 * arg) 5 = arg /\ Z.land (ty + 32 * arg) 31 = ty.
Proof.
  intros ty arg Ht Ha. rewrite Z.shiftr_div_pow2 by lia. change 31 with (Z.ones 5). rewrite Z.land_ones by lia.
  change (2 ^ 5) with 32. lia.
Qed.

Lemma read_n_app : forall raw rest, read_n (Z.of_nat (length raw)) (raw ++ rest) = (raw, rest).
Proof.
  intros. unfold read_n. rewrite Nat2Z.id. rewrite firstn_app, skipn_app, Nat.sub_diag, firstn_all, skipn_all. simpl.
  now rewrite app_nil_r.
Qed.

(* ---- the leaves ---- *)
Definition signed_type (ty : Z) : bool := (ty =? VALUE_SHORT) || (ty =? VALUE_INT) || (ty =? VALUE_LONG).
Inductive enc_leaf : ev -> list Z -> Prop :=
| L_int : forall ty arg raw, 2 <= ty < 23 -> 0 <= arg < 8 -> Z.of_nat (length raw) = arg + 1 -> is_bytes raw ->
    enc_leaf (EInt ty (if signed_type ty then le_s raw else le_u raw)) ((ty + 32 * arg) :: raw)
| L_ref : forall ty arg raw, 23 <= ty <= 27 -> 0 <= arg < 8 -> Z.of_nat (length raw) = arg + 1 -> is_bytes raw ->
    enc_leaf (ERef ty (le_u raw)) ((ty + 32 * arg) :: raw)
| L_byte : forall arg b, 0 <= arg < 8 -> 0 <= b < 256 -> enc_leaf (EByte (if 127 <? b then b - 256 else b)) [0 + 32 * arg; b]
| L_null : forall arg, 0 <= arg < 8 -> enc_leaf ENull [30 + 32 * arg]
| L_bool : forall arg, 0 <= arg < 8 -> enc_leaf (EBool (negb (arg =? 0))) [31 + 32 * arg].

Lemma parse_leaf : forall e bs, enc_leaf e bs -> forall f rest, parse_value (S f) (bs ++ rest) = Ok (e, rest).
Proof.
  intros e bs H f rest. destruct H as [ty arg raw Ht Ha Hl Hb | ty arg raw Ht Ha Hl Hb | arg b Ha Hb | arg Ha | arg Ha];
    cbn [parse_value app get_byte bind]; unfold parse_step.
  - destruct (header_split ty arg ltac:(lia) Ha) as [E1 E2]; rewrite E1, E2.
    replace ((VALUE_SHORT <=? ty) && (ty <? VALUE_STRING)) with true
      by (symmetry; apply andb_true_iff; unfold VALUE_SHORT, VALUE_STRING; split; [apply Z.leb_le|apply Z.ltb_lt]; lia).
    rewrite <- Hl, read_n_app. rewrite getintvalue_le by exact Hb. unfold signed_type, le_s, nbits.
    destruct ((ty =? VALUE_SHORT) || (ty =? VALUE_INT) || (ty =? VALUE_LONG)); cbn [andb]; [|reflexivity].
    destruct (8 * Z.of_nat (length raw) =? 0) eqn:E0; cbn [negb andb]; [apply Z.eqb_eq in E0; lia|reflexivity].
  - destruct (header_split ty arg ltac:(lia) Ha) as [E1 E2]; rewrite E1, E2.
    replace ((VALUE_SHORT <=? ty) && (ty <? VALUE_STRING)) with false
      by (symmetry; apply andb_false_iff; right; unfold VALUE_STRING; apply Z.ltb_ge; lia).
    replace ((VALUE_STRING <=? ty) && (ty <=? VALUE_ENUM)) with true
      by (symmetry; apply andb_true_iff; unfold VALUE_STRING, VALUE_ENUM; split; apply Z.leb_le; lia).
    rewrite <- Hl, read_n_app. rewrite getintvalue_le by exact Hb. reflexivity.
  - destruct (header_split 0 arg ltac:(lia) Ha) as [E1 E2]; rewrite E1, E2. cbn. reflexivity.
  - destruct (header_split 30 arg ltac:(lia) Ha) as [E1 E2]; rewrite E1, E2. cbn. reflexivity.
  - destruct (header_split 31 arg ltac:(lia) Ha) as [E1 E2]; rewrite E1, E2. cbn. reflexivity.
Qed.

(* ---- values of any nesting depth ---- *)
Inductive encodes : nat -> ev -> list Z -> Prop :=
| enc_of_leaf : forall d e bs, enc_leaf e bs -> encodes d e bs
| enc_arr : forall d arg es bss sz, 0 <= arg < 8 -> wf_leb sz = true -> uleb_value sz = Z.of_nat (length es) ->
    Forall2 (encodes d) es bss -> encodes (S d) (EArr es) ((28 + 32 * arg) :: sz ++ concat bss)
| enc_ann : forall d arg ty tybs names vs bss sz, 0 <= arg < 8 -> wf_leb tybs = true -> uleb_value tybs = ty ->
    wf_leb sz = true -> uleb_value sz = Z.of_nat (length vs) ->
    Forall (fun nb => wf_leb nb = true) names -> length names = length vs -> Forall2 (encodes d) vs bss ->
    encodes (S d) (EAnn ty (combine (map uleb_value names) vs))
            ((29 + 32 * arg) :: tybs ++ sz ++ concat (map (fun p => fst p ++ snd p) (combine names bss))).

Lemma encodes_nonempty : forall d e bs, encodes d e bs -> (0 < length bs)%nat.
Proof. intros d e bs H. destruct H as [d e bs H| |]; [destruct H|..]; cbn [length]; lia. Qed.
Lemma values_length : forall d es bss, Forall2 (encodes d) es bss -> (length es <= length (concat bss))%nat.
Proof.
  intros d es bss H. induction H as [|e bs es bss He Hes IH]; [cbn; lia|]. cbn [length concat]. rewrite app_length.
  pose proof (encodes_nonempty _ _ _ He). lia.
Qed.
Lemma cnt_exact : forall n bs rest, (n <= length bs)%nat -> cnt (Z.of_nat n) (bs ++ rest) = n.
Proof. intros n bs rest H. unfold cnt. rewrite app_length. rewrite Z.min_l by lia. apply Nat2Z.id. Qed.
Lemma elements_length : forall d vs bss (names : list (list Z)), Forall2 (encodes d) vs bss -> length names = length vs ->
  (length vs <= length (concat (map (fun p => fst p ++ snd p) (combine names bss))))%nat.
Proof.
  intros d vs bss names H. revert names. induction H as [|e bs vs bss He Hes IH]; intros names Hl; [cbn; lia|].
  destruct names as [|nb names]; [discriminate|]. cbn [length combine map concat fst snd]. rewrite !app_length.
  pose proof (encodes_nonempty _ _ _ He). specialize (IH names ltac:(cbn [length] in Hl; lia)). lia.
Qed.
Lemma parse_values_spec : forall (rec : list Z -> result (ev * list Z)) d es bss rest,
  (forall e bs r, encodes d e bs -> rec (bs ++ r) = Ok (e, r)) -> Forall2 (encodes d) es bss ->
  parse_values rec (length es) (concat bss ++ rest) = Ok (es, rest).
Proof.
  intros rec d es bss rest Hrec H. induction H as [|e bs es bss He Hes IH]; [reflexivity|].
  cbn [length parse_values concat]. rewrite <- app_assoc. rewrite (Hrec e bs _ He). cbn [bind]. rewrite IH. reflexivity.
Qed.
Lemma parse_elements_spec : forall (rec : list Z -> result (ev * list Z)) d vs bss names rest,
  (forall e bs r, encodes d e bs -> rec (bs ++ r) = Ok (e, r)) -> Forall2 (encodes d) vs bss ->
  Forall (fun nb => wf_leb nb = true) names -> length names = length vs ->
  parse_elements rec (length vs) (concat (map (fun p => fst p ++ snd p) (combine names bss)) ++ rest)
  = Ok (combine (map uleb_value names) vs, rest).
Proof.
  intros rec d vs bss names rest Hrec H. revert names. induction H as [|e bs vs bss He Hes IH]; intros names Hn Hl.
  - destruct names; [reflexivity|discriminate].
  - destruct names as [|nb names]; [discriminate|]. inversion Hn; subst. cbn [length] in Hl.
    cbn [length parse_elements combine map concat fst snd]. rewrite <- !app_assoc. rewrite read_u_spec by assumption. cbn [bind].
    rewrite (Hrec e bs _ He). cbn [bind]. rewrite IH by (try assumption; lia). reflexivity.
Qed.

Lemma parse_value_S : forall f bs, parse_value (S f) bs = (do '(val, bs) <- get_byte bs; parse_step (parse_value f) val bs).
Proof. reflexivity. Qed.
Lemma parse_step_arr : forall rec arg bs, 0 <= arg < 8 ->
  parse_step rec (28 + 32 * arg) bs =
  (do '(size, bs) <- read_u bs; do '(vs, bs) <- parse_values rec (cnt size bs) bs; Ok (EArr vs, bs)).
Proof. intros rec arg bs Ha. unfold parse_step. destruct (header_split 28 arg ltac:(lia) Ha) as [E1 E2]. rewrite E1, E2. reflexivity. Qed.
Lemma parse_step_ann : forall rec arg bs, 0 <= arg < 8 ->
  parse_step rec (29 + 32 * arg) bs =
  (do '(ty, bs) <- read_u bs; do '(size, bs) <- read_u bs;
   do '(es, bs) <- parse_elements rec (cnt size bs) bs; Ok (EAnn ty es, bs)).
Proof. intros rec arg bs Ha. unfold parse_step. destruct (header_split 29 arg ltac:(lia) Ha) as [E1 E2]. rewrite E1, E2. reflexivity. Qed.

Theorem parse_encoded : forall d e bs, encodes d e bs -> forall rest, parse_value (S d) (bs ++ rest) = Ok (e, rest).
Proof.
  induction d as [|d IH]; intros e bs H rest.
  - inversion H; subst. apply parse_leaf. assumption.
  - inversion H as [d0 e0 bs0 Hl | d0 arg es bss sz Ha Hw Hv Hf | d0 arg ty tybs names vs bss sz Ha Hw1 Hv1 Hw2 Hv2 Hn Hlen Hf]; subst.
    + apply parse_leaf. assumption.
    + rewrite parse_value_S. cbn [app get_byte bind]. rewrite (parse_step_arr _ arg) by exact Ha.
      rewrite <- app_assoc. rewrite read_u_spec by exact Hw. cbn [bind]. rewrite Hv, (cnt_exact _ _ _ (values_length _ _ _ Hf)).
      rewrite (parse_values_spec (parse_value (S d)) d es bss rest); [reflexivity| |exact Hf].
      intros e0 bs0 r0 He0. apply IH. exact He0.
    + rewrite parse_value_S. cbn [app get_byte bind]. rewrite (parse_step_ann _ arg) by exact Ha.
      rewrite <- !app_assoc. rewrite read_u_spec by exact Hw1. cbn [bind]. rewrite read_u_spec by exact Hw2. cbn [bind].
      rewrite Hv2, (cnt_exact _ _ _ (elements_length _ _ _ names Hf Hlen)).
      rewrite (parse_elements_spec (parse_value (S d)) d vs bss names rest); [reflexivity| |exact Hf|exact Hn|exact Hlen].
      intros e0 bs0 r0 He0. apply IH. exact He0.
Qed.

(* ---- round trip of the integer payload: any sufficient width ---- *)
Fixpoint le_bytes (n : nat) (x : Z) : list Z := match n with O => [] | S n' => x mod 256 :: le_bytes n' (x / 256) end.
Lemma le_bytes_ok : forall n x, is_bytes (le_bytes n x) /\ length (le_bytes n x) = n.
Proof. induction n as [|n IH]; intros x; cbn [le_bytes]; [split; [constructor|reflexivity]|].
  destruct (IH (x / 256)) as [H1 H2]. split; [constructor; [lia|exact H1]|cbn [length]; now rewrite H2]. Qed.
Lemma le_u_le_bytes : forall n x, 0 <= x < 2 ^ (8 * Z.of_nat n) -> le_u (le_bytes n x) = x.
Proof.
  induction n as [|n IH]; intros x Hx; cbn [le_bytes le_u]; [simpl in Hx; lia|].
  rewrite IH; [lia|]. replace (8 * Z.of_nat (S n)) with (8 + 8 * Z.of_nat n) in Hx by lia. rewrite Z.pow_add_r in Hx by lia.
  change (2 ^ 8) with 256 in Hx. lia.
Qed.
Theorem signed_roundtrip : forall n v, (0 < n)%nat -> - 2 ^ (8 * Z.of_nat n - 1) <= v < 2 ^ (8 * Z.of_nat n - 1) ->
  le_s (le_bytes n (v mod 2 ^ (8 * Z.of_nat n))) = v.
Proof.
  intros n v Hn Hv. destruct (le_bytes_ok n (v mod 2 ^ (8 * Z.of_nat n))) as [_ Hlen].
  unfold le_s, nbits. rewrite Hlen. set (N := 8 * Z.of_nat n) in *. assert (HN : 8 <= N) by (unfold N; lia).
  assert (Hp : 2 ^ N = 2 * 2 ^ (N - 1)) by (replace N with (1 + (N - 1)) at 1 by lia; rewrite Z.pow_add_r by lia; reflexivity).
  assert (Hpos : 0 < 2 ^ (N - 1)) by (apply Z.pow_pos_nonneg; lia).
  rewrite le_u_le_bytes by (apply Z.mod_pos_bound; lia).
  replace (N =? 0) with false by (symmetry; apply Z.eqb_neq; lia).
  destruct (Z_lt_dec v 0) as [Hneg|Hnn].
  - assert (E : v mod 2 ^ N = v + 2 ^ N).
    { symmetry. apply (Z.mod_unique_pos _ _ (-1)); lia. }
    rewrite E. replace (2 ^ (N - 1) <=? v + 2 ^ N) with true by (symmetry; apply Z.leb_le; lia). lia.
  - rewrite Z.mod_small by lia. replace (2 ^ (N - 1) <=? v) with false by (symmetry; apply Z.leb_gt; lia). reflexivity.
Qed.
Theorem unsigned_roundtrip : forall n x, 0 <= x < 2 ^ (8 * Z.of_nat n) -> le_u (le_bytes n x) = x.
Proof. exact le_u_le_bytes. Qed.

(* ---- static fields and the printed initialiser ---- *)
Lemma nth_repeat_ : forall {A} (x d : A) n k, (k < n)%nat -> nth k (repeat x n) d = x.
Proof. intros A x d n. induction n as [|n IH]; intros k H; [lia|]. destruct k; [reflexivity|]. simpl. apply IH. lia. Qed.

Theorem bind_static_in_order : forall n vs k, (length vs <= n)%nat -> (k < n)%nat ->
  nth k (bind_static n vs) None = nth_error vs k.
Proof.
  intros n vs k Hl Hk. unfold bind_static. replace (length vs <=? n)%nat with true by (symmetry; apply Nat.leb_le; exact Hl).
  destruct (Nat.lt_ge_cases k (length vs)) as [H|H].
  - rewrite app_nth1 by (rewrite map_length; exact H). clear - H. revert k H. induction vs as [|v vs IH]; intros [|k] H; simpl in *; try lia; [reflexivity|apply IH; lia].
  - rewrite app_nth2 by (rewrite map_length; exact H). rewrite map_length. rewrite nth_repeat_ by lia.
    symmetry. apply nth_error_None. exact H.
Qed.

Theorem printed_int_denotes : forall proto v, proto <> 66 ->
  (if v <? 0 then match print_int_init proto v with 45 :: t => - text_value 10 t | _ => 0 end
   else text_value 10 (print_int_init proto v)) = v.
Proof. intros proto v Hp. unfold print_int_init. replace (proto =? 66) with false by (symmetry; apply Z.eqb_neq; exact Hp). apply sdec_value. Qed.
