(* C03 - the writers: every 32-bit value is written as a well-formed encoding of that value. *)
From Coq Require Import ZArith List Bool Lia.
Require Import V.Lib.Bits V.Lib.Result V.Dex.LebModel V.Dex.LebSpec V.Dex.LebProofs.
Import ListNotations.
Open Scope Z_scope.
Ltac Zify.zify_post_hook ::= Z.to_euclidean_division_equations.

Lemma lor128 x : 0 <= x < 128 -> Z.lor x 128 = x + 128.
Proof. intros H. change 128 with (1 * 2 ^ 7) at 1. rewrite lor_mul_add by (change (2 ^ 7) with 128; lia). reflexivity. Qed.

Lemma pack_B_ok x : 0 <= x <= 255 -> pack_B x = Ok [x].
Proof. intros H. unfold pack_B. destruct (Z.leb_spec 0 x); [|lia]. destruct (Z.leb_spec x 255); [|lia]. reflexivity. Qed.

Lemma wul_more f value rem buff : 0 < rem ->
  write_u_loop (S f) value rem buff = write_u_loop f rem (rem / 128) (buff ++ [value mod 128 + 128]).
Proof.
  intros H. cbn [write_u_loop]. destruct (Z.gtb_spec rem 0); [|lia].
  rewrite land127, lor128 by (apply Z.mod_pos_bound; lia).
  rewrite pack_B_ok by (pose proof (Z.mod_pos_bound value 128); lia). cbn [bind]. rewrite shr7. reflexivity.
Qed.
Lemma wul_last f value rem buff : rem <= 0 ->
  write_u_loop (S f) value rem buff = Ok (buff ++ [value mod 128]).
Proof.
  intros H. cbn [write_u_loop]. destruct (Z.gtb_spec rem 0); [lia|].
  rewrite land127. rewrite pack_B_ok by (pose proof (Z.mod_pos_bound value 128); lia). reflexivity.
Qed.

Theorem write_u_spec : forall v, 0 <= v < 4294967296 ->
  exists bs, write_u v = Ok bs /\ wf_leb bs = true /\ uleb_value bs = v.
Proof.
  intros v H. unfold write_u, write_u_fuel. destruct (Z.ltb_spec v 0); [lia|]. rewrite shr7.
  destruct (Z_lt_dec v 128) as [C1|C1].
  { rewrite wul_last by lia. eexists. split; [reflexivity|]. cbn [app].
    split; [unfold wf_leb, nbytes; cbn; lia | unfold uleb_value; cbn [leb_raw]; lia]. }
  rewrite wul_more by lia.
  destruct (Z_lt_dec v 16384) as [C2|C2].
  { rewrite wul_last by lia. eexists. split; [reflexivity|]. cbn [app].
    split; [unfold wf_leb, nbytes; cbn; lia | unfold uleb_value; cbn [leb_raw]; lia]. }
  rewrite wul_more by lia.
  destruct (Z_lt_dec v 2097152) as [C3|C3].
  { rewrite wul_last by lia. eexists. split; [reflexivity|]. cbn [app].
    split; [unfold wf_leb, nbytes; cbn; lia | unfold uleb_value; cbn [leb_raw]; lia]. }
  rewrite wul_more by lia.
  destruct (Z_lt_dec v 268435456) as [C4|C4].
  { rewrite wul_last by lia. eexists. split; [reflexivity|]. cbn [app].
    split; [unfold wf_leb, nbytes; cbn; lia | unfold uleb_value; cbn [leb_raw]; lia]. }
  rewrite wul_more by lia.
  rewrite wul_last by lia. eexists. split; [reflexivity|]. cbn [app].
  split; [unfold wf_leb, nbytes; cbn; lia | unfold uleb_value; cbn [leb_raw]; lia].
Qed.

Theorem write_read_u : forall v r, 0 <= v < 4294967296 ->
  exists bs, write_u v = Ok bs /\ read_u (bs ++ r) = Ok (v, r).
Proof.
  intros v r H. destruct (write_u_spec v H) as (bs & E & W & V). exists bs. split; [exact E|].
  rewrite read_u_spec by exact W. rewrite V. reflexivity.
Qed.
Theorem write_read_up1 : forall v r, -1 <= v < 4294967295 ->
  exists bs, write_u (v + 1) = Ok bs /\ read_up1 (bs ++ r) = Ok (v, r).
Proof.
  intros v r H. destruct (write_u_spec (v + 1)) as (bs & E & W & V); [lia|]. exists bs. split; [exact E|].
  rewrite read_up1_spec by exact W. unfold ulebp1_value. rewrite V. f_equal. f_equal. lia.
Qed.

(* ---- signed ---- *)
Lemma land1 x : Z.land x 1 = x mod 2.
Proof. change 1 with (Z.ones 1). rewrite Z.land_ones by lia. reflexivity. Qed.
Lemma shr6 x : Z.shiftr x 6 = x / 64.
Proof. rewrite Z.shiftr_div_pow2 by lia. reflexivity. Qed.
Lemma land_min64 v : Z.land v (- 9223372036854775807 - 1) = (v / 9223372036854775808) * 9223372036854775808.
Proof.
  change (- 9223372036854775807 - 1) with (Z.lnot (Z.ones 63)).
  rewrite <- Z.ldiff_land, Z.ldiff_ones_r by lia.
  rewrite Z.shiftr_div_pow2, Z.shiftl_mul_pow2 by lia. reflexivity.
Qed.

Lemma wsl_more f value rem e buff :
  (rem <> e \/ rem mod 2 <> (value / 64) mod 2) ->
  write_s_loop (S f) value rem e buff = write_s_loop f rem (rem / 128) e (buff ++ [value mod 128 + 128]).
Proof.
  intros H. cbn [write_s_loop]. rewrite !land1, shr6.
  assert (E : negb (rem =? e) || negb (rem mod 2 =? (value / 64) mod 2) = true).
  { destruct (Z.eqb_spec rem e); destruct (Z.eqb_spec (rem mod 2) ((value / 64) mod 2)); cbn; try reflexivity. tauto. }
  rewrite E. rewrite land127, lor128 by (apply Z.mod_pos_bound; lia).
  rewrite pack_B_ok by (pose proof (Z.mod_pos_bound value 128); lia). cbn [bind]. rewrite shr7. reflexivity.
Qed.
Lemma wsl_last f value rem e buff :
  rem = e -> rem mod 2 = (value / 64) mod 2 ->
  write_s_loop (S f) value rem e buff = Ok (buff ++ [value mod 128]).
Proof.
  intros H1 H2. cbn [write_s_loop]. rewrite !land1, shr6.
  assert (E : negb (rem =? e) || negb (rem mod 2 =? (value / 64) mod 2) = false).
  { rewrite (proj2 (Z.eqb_eq _ _) H1), (proj2 (Z.eqb_eq _ _) H2). reflexivity. }
  rewrite E. rewrite land127. rewrite Z.lor_0_r.
  rewrite pack_B_ok by (pose proof (Z.mod_pos_bound value 128); lia). reflexivity.
Qed.

Ltac sleb_fin p h :=
  eexists; split; [reflexivity|]; cbn [app]; split;
  [ unfold wf_leb, nbytes; cbn; lia
  | unfold sleb_value, nbytes; cbn [length leb_raw Z.of_nat Pos.of_succ_nat Pos.succ];
    match goal with |- context [2 ^ ?a] => change (2 ^ a) with p end;
    match goal with |- context [2 ^ ?a] => change (2 ^ a) with h end;
    unfold wrap32;
    match goal with |- context [?x >=? ?y] => destruct (Z.geb_spec x y) end;
    match goal with |- context [?x >=? ?y] => destruct (Z.geb_spec x y) end; lia ].

Theorem write_s_spec : forall v, -2147483648 <= v < 2147483648 ->
  exists bs, write_s v = Ok bs /\ wf_leb bs = true /\ sleb_value bs = v.
Proof.
  intros v H. unfold write_s, write_s_fuel. rewrite land_min64, shr7.
  destruct (Z_le_dec 0 v) as [Hs|Hs].
  - (* non-negative: end = 0 *)
    destruct (Z.eqb_spec (v / 9223372036854775808 * 9223372036854775808) 0) as [_|N]; [|lia].
    destruct (Z_lt_dec v 64). { rewrite wsl_last by lia. sleb_fin 64 128. }
    rewrite wsl_more by lia.
    destruct (Z_lt_dec v 8192). { rewrite wsl_last by lia. sleb_fin 8192 16384. }
    rewrite wsl_more by lia.
    destruct (Z_lt_dec v 1048576). { rewrite wsl_last by lia. sleb_fin 1048576 2097152. }
    rewrite wsl_more by lia.
    destruct (Z_lt_dec v 134217728). { rewrite wsl_last by lia. sleb_fin 134217728 268435456. }
    rewrite wsl_more by lia.
    rewrite wsl_last by lia. sleb_fin 17179869184 34359738368.
  - (* negative: end = -1 *)
    destruct (Z.eqb_spec (v / 9223372036854775808 * 9223372036854775808) 0) as [N|_]; [lia|].
    destruct (Z_le_dec (-64) v). { rewrite wsl_last by lia. sleb_fin 64 128. }
    rewrite wsl_more by lia.
    destruct (Z_le_dec (-8192) v). { rewrite wsl_last by lia. sleb_fin 8192 16384. }
    rewrite wsl_more by lia.
    destruct (Z_le_dec (-1048576) v). { rewrite wsl_last by lia. sleb_fin 1048576 2097152. }
    rewrite wsl_more by lia.
    destruct (Z_le_dec (-134217728) v). { rewrite wsl_last by lia. sleb_fin 134217728 268435456. }
    rewrite wsl_more by lia.
    rewrite wsl_last by lia. sleb_fin 17179869184 34359738368.
Qed.

Theorem write_read_s : forall v r, -2147483648 <= v < 2147483648 ->
  exists bs, write_s v = Ok bs /\ read_s (bs ++ r) = Ok (v, r).
Proof.
  intros v r H. destruct (write_s_spec v H) as (bs & E & W & V). exists bs. split; [exact E|].
  rewrite read_s_spec by exact W. rewrite V. reflexivity.
Qed.
