(* C04 - hand-written model of EncodedValue / EncodedArray / EncodedAnnotation / AnnotationElement
   (androguard/core/dex/__init__.py), of ClassDataItem.set_static_fields, and of the field initialiser
   printed by DvClass.get_source (androguard/decompiler/decompile.py).  A buffer is the list of bytes
   from the current position on.  Index-typed values (string, type, field, method, enum) are reported
   as the index; the harness resolves both sides through the pools.  Nested values run on fuel.
   Tied to the source by tools/props/c04.py. *)
From Coq Require Import ZArith List Bool.
Require Import V.Lib.Val V.Lib.Result V.Lib.Fmt V.Dex.LebModel.
Import ListNotations.
Open Scope Z_scope.

Definition VALUE_BYTE := 0.   Definition VALUE_SHORT := 2.  Definition VALUE_CHAR := 3.   Definition VALUE_INT := 4.
Definition VALUE_LONG := 6.   Definition VALUE_STRING := 23. Definition VALUE_TYPE := 24.  Definition VALUE_FIELD := 25.
Definition VALUE_METHOD := 26. Definition VALUE_ENUM := 27.  Definition VALUE_ARRAY := 28. Definition VALUE_ANNOTATION := 29.
Definition VALUE_NULL := 30.  Definition VALUE_BOOLEAN := 31.

Inductive ev :=
| EInt (ty v : Z)                 (* value types 2..22: the integer read (sign-extended for short, int, long) *)
| EByte (v : Z)                   (* VALUE_BYTE: a signed byte *)
| ERef (ty id : Z)                (* string, type, field, method, enum: the index into the pool *)
| EArr (l : list ev)
| EAnn (type_idx : Z) (els : list (Z * ev))
| ENull
| EBool (b : bool)
| EUnknown (ty : Z).              (* value types the code only warns about *)

(* _getintvalue: ret |= b << shift for the bytes read *)
Definition getintvalue (bs : list Z) : Z :=
  fst (fold_left (fun '(ret, shift) b => (Z.lor ret (Z.shiftl b shift), shift + 8)) bs (0, 0)).
Definition read_n (n : Z) (bs : list Z) : list Z * list Z := (firstn (Z.to_nat n) bs, skipn (Z.to_nat n) bs).
(* "for _ in range(size)" over readers that each take at least one byte or raise: no more than (bytes left + 1) iterations can
   happen - the last of them raises at the end of the data -, so the count is capped there (a count of 2^32 - 1 as a unary
   number would not fit into memory, and is not what bounds the loop) *)
Definition cnt (size : Z) (bs : list Z) : nat := Z.to_nat (Z.min size (Z.of_nat (length bs) + 1)).

Section Values.
Variable rec : list Z -> result (ev * list Z).     (* EncodedValue at one level deeper *)

Fixpoint parse_values (n : nat) (bs : list Z) : result (list ev * list Z) :=
  match n with
  | O => Ok ([], bs)
  | S n' => do '(v, bs) <- rec bs; do '(vs, bs) <- parse_values n' bs; Ok (v :: vs, bs)
  end.
Fixpoint parse_elements (n : nat) (bs : list Z) : result (list (Z * ev) * list Z) :=
  match n with
  | O => Ok ([], bs)
  | S n' => do '(name, bs) <- read_u bs; do '(v, bs) <- rec bs; do '(es, bs) <- parse_elements n' bs; Ok ((name, v) :: es, bs)
  end.
End Values.

(* EncodedValue.__init__ after the header byte val has been read; rec reads a nested EncodedValue *)
Definition parse_step (rec : list Z -> result (ev * list Z)) (val : Z) (bs : list Z) : result (ev * list Z) :=
  let value_arg := Z.shiftr val 5 in
  let value_type := Z.land val 31 in
  if (VALUE_SHORT <=? value_type) && (value_type <? VALUE_STRING) then
    let '(raw, bs) := read_n (value_arg + 1) bs in
    let v := getintvalue raw in
    let nbits := 8 * Z.of_nat (length raw) in
    let v := if ((value_type =? VALUE_SHORT) || (value_type =? VALUE_INT) || (value_type =? VALUE_LONG)) &&
                negb (nbits =? 0) && (2 ^ (nbits - 1) <=? v) then v - 2 ^ nbits else v in
    Ok (EInt value_type v, bs)
  else if (VALUE_STRING <=? value_type) && (value_type <=? VALUE_ENUM) then
    let '(raw, bs) := read_n (value_arg + 1) bs in Ok (ERef value_type (getintvalue raw), bs)
  else if value_type =? VALUE_ARRAY then
    do '(size, bs) <- read_u bs; do '(vs, bs) <- parse_values rec (cnt size bs) bs; Ok (EArr vs, bs)
  else if value_type =? VALUE_ANNOTATION then
    do '(ty, bs) <- read_u bs; do '(size, bs) <- read_u bs;
    do '(es, bs) <- parse_elements rec (cnt size bs) bs; Ok (EAnn ty es, bs)
  else if value_type =? VALUE_BYTE then
    do '(b, bs) <- get_byte bs; Ok (EByte (if 127 <? b then b - 256 else b), bs)
  else if value_type =? VALUE_NULL then Ok (ENull, bs)
  else if value_type =? VALUE_BOOLEAN then Ok (EBool (negb (value_arg =? 0)), bs)
  else Ok (EUnknown value_type, bs).

Fixpoint parse_value (fuel : nat) (bs : list Z) : result (ev * list Z) :=
  match fuel with
  | O => Err OutOfFuel
  | S f => do '(val, bs) <- get_byte bs; parse_step (parse_value f) val bs
  end.

(* EncodedArray (the static values of a class) *)
Definition parse_array (fuel : nat) (bs : list Z) : result (list ev * list Z) :=
  do '(size, bs) <- read_u bs; parse_values (parse_value fuel) (cnt size bs) bs.

(* set_static_fields: the values are bound to the static fields in order, unless there are more values than fields *)
Definition bind_static (nfields : nat) (values : list ev) : list (option ev) :=
  if (length values <=? nfields)%nat then map Some values ++ repeat None (nfields - length values) else repeat None nfields.

(* the initialiser DvClass.get_source prints for a non-String field of primitive descriptor proto ('B' is 66);
   None when the value is not an integer, boolean or null (outside this model) *)
Definition print_int_init (proto : Z) (v : Z) : list Z :=
  if proto =? 66 then
    let s := (if 127 <? v mod 256 then v mod 256 - 256 else v mod 256) in      (* struct.unpack("b", struct.pack("B", value & 0xFF)) *)
    (if s <? 0 then [45] else []) ++ [48; 120] ++ map (fun c => if (65 <=? c) && (c <=? 70) then c + 32 else c) (hexU (Z.abs s))
  else sdec v.
Definition print_init (proto : Z) (e : ev) : option (list Z) :=
  match e with
  | EInt _ v => Some (print_int_init proto v)
  | EByte v => Some (print_int_init proto v)
  | EBool true => Some [84; 114; 117; 101]            (* str(True) *)
  | EBool false => Some [70; 97; 108; 115; 101]
  | ENull => Some [78; 111; 110; 101]                 (* str(None) *)
  | _ => None
  end.

(* ---- observation ---- *)
Fixpoint vev (e : ev) : val :=
  match e with
  | EInt ty v => VList [VZ ty; VZ v]
  | EByte v => VList [VZ 0; VZ v]
  | ERef ty id => VList [VZ ty; VZ id]
  | EArr l => VList [VZ 28; VList (map vev l)]
  | EAnn ty es => VList [VZ 29; VZ ty; VList (map (fun p => VList [VZ (fst p); vev (snd p)]) es)]
  | ENull => VList [VZ 30]
  | EBool b => VList [VZ 31; VB b]
  | EUnknown ty => VList [VZ ty]
  end.
(* (static value bytes, descriptors' first letters of the static fields, 0 for String fields whose initialiser is
   printed by another branch) -> per field: value and printed initialiser *)
Definition obs_static (i : list Z * list Z) : val :=
  let '(bs, protos) := i in
  match parse_array 20 bs with
  | Err e => VErr (err_code e)
  | Ok (vs, _) =>
      VList (map (fun pe => match snd pe with
                            | None => VNone
                            | Some e => VList [vev e; if fst pe =? 0 then VNone else vopt VStr (print_init (fst pe) e)]
                            end) (combine protos (bind_static (length protos) vs)))
  end.
Definition obs_value (bs : list Z) : val := vres (fun p => VList [vev (fst p); VStr (snd p)]) (parse_value 20 bs).
