(* The tie between the source and the model: the syntax trees in gen/Gen_Leb.v are re-serialised
   from /repo on every run; run by the PyLite interpreter they compute exactly the hand model. *)
From Coq Require Import ZArith List String Bool Lia ZifyBool.
Require Import V.Lib.Result V.Lib.PyLite V.Lib.Bits V.gen.Gen_Leb V.Dex.LebModel.
Import ListNotations.
Open Scope Z_scope. Open Scope string_scope.
Ltac Zify.zify_post_hook ::= Z.to_euclidean_division_equations.

(* closed arithmetic computes during [cbn]; anything with a variable operand stays folded *)
Arguments Z.land !a !b. Arguments Z.lor !a !b. Arguments Z.shiftl !a !n. Arguments Z.shiftr !a !n.
Arguments Z.add !x !y. Arguments Z.sub !m !n. Arguments Z.ltb !x !y. Arguments Z.gtb !x !y. Arguments Z.leb !x !y.
Arguments Z.geb !x !y. Arguments Z.eqb !x !y. Arguments Z.max !n !m. Arguments Z.mul !x !y. Arguments Z.opp !x.
Arguments Z.pow : simpl never. Arguments Z.div : simpl never. Arguments Z.modulo : simpl never.

Definition py_read (body : list stmt) (bs : list Z) : result (Z * list Z) :=
  match run body [("buff", VBytes bs)] with
  | Ok (VInt z, r) => match lookup "buff" r with Ok (VBytes t) => Ok (z, t) | _ => Err TypeError end
  | Ok _ => Err TypeError
  | Err e => Err e
  end.
Definition py_write (body : list stmt) (v : Z) : result (list Z) :=
  match run body [("value", VInt v)] with
  | Ok (VBytes b, _) => Ok b | Ok _ => Err TypeError | Err e => Err e end.

Ltac head_if t := lazymatch t with
  | context[if ?c then _ else _] => lazymatch c with context[if _ then _ else _] => head_if c | _ => c end end.
Ltac step := match goal with |- ?G => let c := head_if G in
    let v := eval vm_compute in c in
    lazymatch v with
    | true => change c with true; cbv iota
    | false => change c with false; cbv iota
    | _ => destruct c eqn:?
    end end; cbn; try reflexivity.

Theorem tie_read_u : forall bs, py_read src_readuleb128 bs = read_u bs.
Proof.
  intros bs. unfold py_read, read_u, run, runf, src_readuleb128.
  destruct bs as [|b0 [|b1 [|b2 [|b3 [|b4 r]]]]]; cbn; try reflexivity; repeat step.
Qed.

(* readsleb128 and the two writers are tied by the correspondence stream only: symbolic execution
   of their loops through the interpreter was measured at more than five minutes per function. *)
