(* C35 - the map list and its modelled sections end on every byte string, whatever counts the file announces. *)
From Coq Require Import ZArith List Bool Lia.
Require Import V.Lib.Val V.Lib.Result V.Dex.LebModel V.Dex.StringsModel V.Dex.MapWalkModel.
Require V.Misc.TermProofs V.Dex.EncodedValueModel V.Dex.DexTerm V.Dex.ClassDataModel.
Import ListNotations.
Open Scope Z_scope.

Definition noo {A} (r : result A) : Prop := r <> Err OutOfFuel.

Lemma take_n_spec k bs x r : take_n k bs = Ok (x, r) -> (length r + k = length bs)%nat.
Proof.
  unfold take_n. destruct (k <=? length bs)%nat eqn:E; [|discriminate]. intros H. injection H as <- <-. apply Nat.leb_le in E.
  rewrite skipn_length. lia.
Qed.
Lemma take_n_noo k bs : noo (take_n k bs).
Proof. unfold take_n, noo. destruct (k <=? length bs)%nat; discriminate. Qed.
Lemma u32_spec bs x r : u32 bs = Ok (x, r) -> (length r + 4 = length bs)%nat.
Proof. unfold u32. destruct (take_n 4 bs) as [[a b]|e] eqn:T; cbn; [|discriminate]. intros H. injection H as <- <-. exact (take_n_spec _ _ _ _ T). Qed.
Lemma u32_noo bs : noo (u32 bs).
Proof. unfold u32, noo. destruct (take_n 4 bs) as [[a b]|e] eqn:T; cbn; [discriminate|]. intros H. injection H as ->. exact (take_n_noo _ _ T). Qed.
Lemma u16_spec bs x r : u16 bs = Ok (x, r) -> (length r + 2 = length bs)%nat.
Proof. unfold u16. destruct (take_n 2 bs) as [[a b]|e] eqn:T; cbn; [|discriminate]. intros H. injection H as <- <-. exact (take_n_spec _ _ _ _ T). Qed.
Lemma u16_noo bs : noo (u16 bs).
Proof. unfold u16, noo. destruct (take_n 2 bs) as [[a b]|e] eqn:T; cbn; [discriminate|]. intros H. injection H as ->. exact (take_n_noo _ _ T). Qed.

(* the generic loop: a reader that never runs out of fuel itself and, when it succeeds, leaves fewer bytes than it found, is
   called at most (bytes + 1) times, whatever the count says *)
Section Loop.
  Variable A : Type.
  Variable rd : bytes -> result (A * bytes).
  Variable bound : nat.                      (* the readers of nested loops are given this much fuel: enough below this length *)
  Hypothesis rd_noo : forall bs, (length bs < bound)%nat -> noo (rd bs).
  Hypothesis rd_progress : forall bs x r, rd bs = Ok (x, r) -> (length r < length bs)%nat.
  Lemma read_n_ends : forall fuel count bs acc, (length bs < fuel)%nat -> (length bs < bound)%nat -> noo (read_n rd fuel count bs acc).
  Proof.
    induction fuel as [|f IH]; intros count bs acc Hf Hb; [lia|]. cbn [read_n]. destruct (count <=? 0); [discriminate|].
    destruct (rd bs) as [[x r]|e] eqn:R.
    - pose proof (rd_progress _ _ _ R). apply IH; lia.
    - intros H. injection H as ->. exact (rd_noo bs Hb R).
  Qed.
  Lemma read_n_rest : forall fuel count bs acc xs r, read_n rd fuel count bs acc = Ok (xs, r) -> (length r <= length bs)%nat.
  Proof using rd_progress.
    clear rd_noo bound.
    induction fuel as [|f IH]; intros count bs acc xs r H; [discriminate|]. cbn [read_n] in H. destruct (count <=? 0); [injection H as _ <-; lia|].
    destruct (rd bs) as [[x r']|e] eqn:R; [|discriminate]. pose proof (rd_progress _ _ _ R). apply IH in H. lia.
  Qed.
  (* ... and the number of records is bounded by the bytes *)
  Lemma read_n_count : forall fuel count bs acc xs r, read_n rd fuel count bs acc = Ok (xs, r) -> (length xs + length r <= length acc + length bs)%nat.
  Proof using rd_progress.
    clear rd_noo bound.
    induction fuel as [|f IH]; intros count bs acc xs r H; [discriminate|]. cbn [read_n] in H. destruct (count <=? 0); [injection H as <- <-; rewrite rev_length; lia|].
    destruct (rd bs) as [[x r']|e] eqn:R; [|discriminate]. pose proof (rd_progress _ _ _ R). apply IH in H. cbn [length] in H. lia.
  Qed.
End Loop.

Lemma with_pos_noo {A} L (rd : bytes -> result (A * bytes)) bs : noo (rd bs) -> noo (with_pos L rd bs).
Proof. unfold with_pos, noo. destruct (rd bs) as [[x r]|e]; cbn [bind]; [discriminate | congruence]. Qed.
Lemma with_pos_progress {A} L (rd : bytes -> result (A * bytes)) bs x r :
  (forall y r', rd bs = Ok (y, r') -> (length r' < length bs)%nat) -> with_pos L rd bs = Ok (x, r) -> (length r < length bs)%nat.
Proof. unfold with_pos. destruct (rd bs) as [[y r']|e]; cbn [bind]; [|discriminate]. intros P H. injection H as _ <-. exact (P y r' eq_refl). Qed.
(* a loop over records with their positions ends *)
Lemma loop_ok {A} L (rd : bytes -> result (A * bytes)) (bound : nat) :
  (forall b, (length b < bound)%nat -> noo (rd b)) -> (forall b x r, rd b = Ok (x, r) -> (length r < length b)%nat) ->
  forall fuel count bs, (length bs < fuel)%nat -> (length bs < bound)%nat -> noo (read_n (with_pos L rd) fuel count bs []).
Proof.
  intros N P fuel count bs Hf Hb. apply (read_n_ends _ (with_pos L rd) bound); try assumption.
  - intros b Hb'. apply with_pos_noo. apply N. exact Hb'.
  - intros b x r. apply with_pos_progress. intros y r'. apply P.
Qed.

Lemma fixed_noo k bs : noo (rd_fixed k bs).  Proof. apply take_n_noo. Qed.
Lemma fixed_progress k : (0 < k)%nat -> forall bs x r, rd_fixed k bs = Ok (x, r) -> (length r < length bs)%nat.
Proof. intros K bs x r H. apply take_n_spec in H. lia. Qed.

Lemma sized_noo k p fuel bs : (0 < k)%nat -> (length bs < fuel)%nat -> noo (rd_sized k p fuel bs).
Proof.
  intros K Hf. unfold rd_sized. destruct (u32 bs) as [[n r]|e] eqn:U; cbn [bind]; [|intros H; injection H as ->; exact (u32_noo _ U)].
  pose proof (u32_spec _ _ _ U). destruct (read_n (rd_fixed k) fuel n r []) as [[xs r1]|e] eqn:R; cbn [bind]; [discriminate|].
  intros H0. injection H0 as ->. revert R. apply (read_n_ends _ (rd_fixed k) (S (length r))); try lia; [intros; apply fixed_noo | apply fixed_progress; exact K].
Qed.
Lemma sized_progress k p fuel bs x r : (0 < k)%nat -> rd_sized k p fuel bs = Ok (x, r) -> (length r < length bs)%nat.
Proof.
  intros K. unfold rd_sized. destruct (u32 bs) as [[n r0]|e] eqn:U; cbn [bind]; [|discriminate]. pose proof (u32_spec _ _ _ U).
  destruct (read_n (rd_fixed k) fuel n r0 []) as [[xs r1]|e] eqn:R; cbn [bind]; [|discriminate]. intros H0. injection H0 as _ <-.
  apply read_n_rest in R; [|apply fixed_progress; exact K]. destruct (p && Z.odd n); [destruct r1 as [|? [|? ?]]; cbn [length] in *; lia | lia].
Qed.

Lemma anndir_noo fuel bs : (length bs < fuel)%nat -> noo (rd_anndir fuel bs).
Proof.
  intros Hf. unfold rd_anndir.
  destruct (u32 bs) as [[a r0]|e] eqn:U0; cbn [bind]; [|intros H; injection H as ->; exact (u32_noo _ U0)]. pose proof (u32_spec _ _ _ U0).
  destruct (u32 r0) as [[nf r1]|e] eqn:U1; cbn [bind]; [|intros H'; injection H' as ->; exact (u32_noo _ U1)]. pose proof (u32_spec _ _ _ U1).
  destruct (u32 r1) as [[nm r2]|e] eqn:U2; cbn [bind]; [|intros H'; injection H' as ->; exact (u32_noo _ U2)]. pose proof (u32_spec _ _ _ U2).
  destruct (u32 r2) as [[np r3]|e] eqn:U3; cbn [bind]; [|intros H'; injection H' as ->; exact (u32_noo _ U3)]. pose proof (u32_spec _ _ _ U3).
  assert (P8 := fixed_progress 8 ltac:(lia)).
  destruct (read_n (rd_fixed 8) fuel nf r3 []) as [[fs r4]|e] eqn:R1; cbn [bind].
  2:{ intros H'; injection H' as ->. revert R1. apply (read_n_ends _ (rd_fixed 8) (S (length r3))); try lia; [intros; apply fixed_noo | exact P8]. }
  pose proof (read_n_rest _ _ P8 _ _ _ _ _ _ R1).
  destruct (read_n (rd_fixed 8) fuel nm r4 []) as [[ms r5]|e] eqn:R2; cbn [bind].
  2:{ intros H'; injection H' as ->. revert R2. apply (read_n_ends _ (rd_fixed 8) (S (length r4))); try lia; [intros; apply fixed_noo | exact P8]. }
  pose proof (read_n_rest _ _ P8 _ _ _ _ _ _ R2).
  destruct (read_n (rd_fixed 8) fuel np r5 []) as [[ps r6]|e] eqn:R3; cbn [bind]; [discriminate|].
  intros H'; injection H' as ->. revert R3. apply (read_n_ends _ (rd_fixed 8) (S (length r5))); try lia; [intros; apply fixed_noo | exact P8].
Qed.
Lemma anndir_progress fuel bs x r : rd_anndir fuel bs = Ok (x, r) -> (length r < length bs)%nat.
Proof.
  unfold rd_anndir.
  destruct (u32 bs) as [[a r0]|e] eqn:U0; cbn [bind]; [|discriminate]. pose proof (u32_spec _ _ _ U0).
  destruct (u32 r0) as [[nf r1]|e] eqn:U1; cbn [bind]; [|discriminate]. pose proof (u32_spec _ _ _ U1).
  destruct (u32 r1) as [[nm r2]|e] eqn:U2; cbn [bind]; [|discriminate]. pose proof (u32_spec _ _ _ U2).
  destruct (u32 r2) as [[np r3]|e] eqn:U3; cbn [bind]; [|discriminate]. pose proof (u32_spec _ _ _ U3).
  assert (P8 := fixed_progress 8 ltac:(lia)).
  destruct (read_n (rd_fixed 8) fuel nf r3 []) as [[fs r4]|e] eqn:R1; cbn [bind]; [|discriminate]. pose proof (read_n_rest _ _ P8 _ _ _ _ _ _ R1).
  destruct (read_n (rd_fixed 8) fuel nm r4 []) as [[ms r5]|e] eqn:R2; cbn [bind]; [|discriminate]. pose proof (read_n_rest _ _ P8 _ _ _ _ _ _ R2).
  destruct (read_n (rd_fixed 8) fuel np r5 []) as [[ps r6]|e] eqn:R3; cbn [bind]; [|discriminate]. pose proof (read_n_rest _ _ P8 _ _ _ _ _ _ R3).
  intros H'. injection H' as _ <-. lia.
Qed.

(* string data and code items *)
Lemma read_u_noo bs : noo (read_u bs).  Proof. exact (TermProofs.read_u_no_oof bs). Qed.
Lemma read_u_progress bs v r : read_u bs = Ok (v, r) -> (length r < length bs)%nat.  Proof. exact (TermProofs.read_u_consumes bs v r). Qed.
Lemma read_s_noo bs : noo (read_s bs).  Proof. exact (TermProofs.read_s_no_oof bs). Qed.
Lemma read_s_progress bs v r : read_s bs = Ok (v, r) -> (length r < length bs)%nat.  Proof. exact (TermProofs.read_s_consumes bs v r). Qed.
Lemma after0_length : forall z, (length (after0 z) <= length z)%nat.
Proof. induction z as [|b t IH]; cbn [after0 length]; [lia|]. destruct (b =? 0); lia. Qed.
Lemma strdata_noo bs : noo (rd_strdata bs).
Proof.
  unfold rd_strdata. destruct (read_u bs) as [[n r]|e] eqn:U; cbn [bind]; [|intros H; injection H as ->; exact (read_u_noo _ U)].
  destruct (has0 r); discriminate.
Qed.
Lemma strdata_progress bs x r : rd_strdata bs = Ok (x, r) -> (length r < length bs)%nat.
Proof.
  unfold rd_strdata. destruct (read_u bs) as [[n r0]|e] eqn:U; cbn [bind]; [|discriminate]. pose proof (read_u_progress _ _ _ U).
  destruct (has0 r0); [|discriminate]. intros H'. injection H' as _ <-. pose proof (after0_length r0). lia.
Qed.
Lemma pair_noo bs : noo (rd_pair bs).
Proof.
  unfold rd_pair. destruct (read_u bs) as [[a r]|e] eqn:U; cbn [bind]; [|intros H; injection H as ->; exact (read_u_noo _ U)].
  destruct (read_u r) as [[b r2]|e] eqn:U2; cbn [bind]; [discriminate|]. intros H; injection H as ->; exact (read_u_noo _ U2).
Qed.
Lemma pair_progress bs x r : rd_pair bs = Ok (x, r) -> (length r < length bs)%nat.
Proof.
  unfold rd_pair. destruct (read_u bs) as [[a r0]|e] eqn:U; cbn [bind]; [|discriminate]. pose proof (read_u_progress _ _ _ U).
  destruct (read_u r0) as [[b r2]|e] eqn:U2; cbn [bind]; [|discriminate]. pose proof (read_u_progress _ _ _ U2). intros H'. injection H' as _ <-. lia.
Qed.
Lemma handler_noo fuel bs : (length bs < fuel)%nat -> noo (rd_handler fuel bs).
Proof.
  intros Hf. unfold rd_handler. destruct (read_s bs) as [[size r]|e] eqn:U; cbn [bind]; [|intros H; injection H as ->; exact (read_s_noo _ U)].
  pose proof (read_s_progress _ _ _ U). destruct (read_n rd_pair fuel (Z.abs size) r []) as [[ps r1]|e] eqn:R; cbn [bind].
  - destruct (size <=? 0); [|discriminate]. destruct (read_u r1) as [[c r2]|e] eqn:U2; cbn [bind]; [discriminate|]. intros H0; injection H0 as ->; exact (read_u_noo _ U2).
  - intros H0. injection H0 as ->. revert R. apply (read_n_ends _ rd_pair (S (length r))); try lia; [intros; apply pair_noo | apply pair_progress].
Qed.
Lemma handler_progress fuel bs x r : rd_handler fuel bs = Ok (x, r) -> (length r < length bs)%nat.
Proof.
  unfold rd_handler. destruct (read_s bs) as [[size r0]|e] eqn:U; cbn [bind]; [|discriminate]. pose proof (read_s_progress _ _ _ U).
  destruct (read_n rd_pair fuel (Z.abs size) r0 []) as [[ps r1]|e] eqn:R; cbn [bind]; [|discriminate]. pose proof (read_n_rest _ _ pair_progress _ _ _ _ _ _ R).
  destruct (size <=? 0).
  - destruct (read_u r1) as [[c r2]|e] eqn:U2; cbn [bind]; [|discriminate]. pose proof (read_u_progress _ _ _ U2). intros H'. injection H' as _ <-. lia.
  - intros H'. injection H' as _ <-. lia.
Qed.
Lemma code_noo L fuel bs : (length bs < fuel)%nat -> noo (rd_code L fuel bs).
Proof.
  intros Hf. unfold rd_code. set (bs0 := skipn _ bs). assert (B0 : (length bs0 <= length bs)%nat) by (unfold bs0; rewrite skipn_length; lia).
  set (at0 := Z.of_nat L - Z.of_nat (length bs0)).
  destruct (take_n 16 bs0) as [[h r]|e] eqn:T; cbn [bind]; [|intros H; injection H as ->; exact (take_n_noo _ _ T)]. pose proof (take_n_spec _ _ _ _ T).
  set (tries := le (firstn 2 (skipn 6 h))). set (insns := le (skipn 12 h)). set (r1 := skipn _ r).
  assert (B1 : (length r1 <= length r)%nat) by (unfold r1; rewrite skipn_length; lia).
  assert (Q : forall r2, (length r2 <= length r1)%nat -> noo (if 0 <? tries
        then do '(ts, r3) <- read_n (rd_fixed 8) fuel tries r2 []; do '(hs, r4) <- read_u r3; do '(hl, r5) <- read_n (rd_handler fuel) fuel hs r4 []; Ok ((at0, (Z.of_nat (length ts), Z.of_nat (length hl))), r5)
        else Ok ((at0, (0, 0)), r2))).
  { intros r2 B2. destruct (0 <? tries); [|discriminate]. assert (P8 := fixed_progress 8 ltac:(lia)).
    destruct (read_n (rd_fixed 8) fuel tries r2 []) as [[ts r3]|e] eqn:R1; cbn [bind].
    2:{ intros H'; injection H' as ->. revert R1. apply (read_n_ends _ (rd_fixed 8) (S (length r2))); try lia; [intros; apply fixed_noo | exact P8]. }
    pose proof (read_n_rest _ _ P8 _ _ _ _ _ _ R1).
    destruct (read_u r3) as [[hs r4]|e] eqn:U; cbn [bind]; [|intros H'; injection H' as ->; exact (read_u_noo _ U)]. pose proof (read_u_progress _ _ _ U).
    destruct (read_n (rd_handler fuel) fuel hs r4 []) as [[hl r5]|e] eqn:R2; cbn [bind]; [discriminate|].
    intros H'; injection H' as ->. revert R2. apply (read_n_ends _ (rd_handler fuel) fuel); try lia; [intros b Hb; apply handler_noo; exact Hb | apply handler_progress]. }
  destruct (Z.odd insns && (0 <? tries)).
  - destruct (u16 r1) as [[p x]|e] eqn:U; cbn [bind]; [|intros H'; injection H' as ->; exact (u16_noo _ U)]. pose proof (u16_spec _ _ _ U). apply Q. lia.
  - cbn [bind]. apply Q. lia.
Qed.
Lemma code_progress L fuel bs x r : rd_code L fuel bs = Ok (x, r) -> (length r < length bs)%nat.
Proof.
  unfold rd_code. set (bs0 := skipn _ bs). assert (B0 : (length bs0 <= length bs)%nat) by (unfold bs0; rewrite skipn_length; lia).
  set (at0 := Z.of_nat L - Z.of_nat (length bs0)).
  destruct (take_n 16 bs0) as [[h r0]|e] eqn:T; cbn [bind]; [|discriminate]. pose proof (take_n_spec _ _ _ _ T).
  set (tries := le (firstn 2 (skipn 6 h))). set (insns := le (skipn 12 h)). set (r1 := skipn _ r0).
  assert (B1 : (length r1 <= length r0)%nat) by (unfold r1; rewrite skipn_length; lia).
  assert (Q : forall r2, (length r2 <= length r1)%nat -> (if 0 <? tries
        then do '(ts, r3) <- read_n (rd_fixed 8) fuel tries r2 []; do '(hs, r4) <- read_u r3; do '(hl, r5) <- read_n (rd_handler fuel) fuel hs r4 []; Ok ((at0, (Z.of_nat (length ts), Z.of_nat (length hl))), r5)
        else Ok ((at0, (0, 0)), r2)) = Ok (x, r) -> (length r <= length r2)%nat).
  { intros r2 B2. destruct (0 <? tries); [|intros H'; injection H' as _ <-; lia]. assert (P8 := fixed_progress 8 ltac:(lia)).
    destruct (read_n (rd_fixed 8) fuel tries r2 []) as [[ts r3]|e] eqn:R1; cbn [bind]; [|discriminate]. pose proof (read_n_rest _ _ P8 _ _ _ _ _ _ R1).
    destruct (read_u r3) as [[hs r4]|e] eqn:U; cbn [bind]; [|discriminate]. pose proof (read_u_progress _ _ _ U).
    destruct (read_n (rd_handler fuel) fuel hs r4 []) as [[hl r5]|e] eqn:R2; cbn [bind]; [|discriminate].
    pose proof (read_n_rest _ _ (handler_progress fuel) _ _ _ _ _ _ R2). intros H'. injection H' as _ <-. lia. }
  destruct (Z.odd insns && (0 <? tries)).
  - destruct (u16 r1) as [[p y]|e] eqn:U; cbn [bind]; [|discriminate]. pose proof (u16_spec _ _ _ U). intros H'. apply Q in H'; lia.
  - cbn [bind]. intros H'. apply Q in H'; lia.
Qed.

(* encoded arrays and annotation items: the theorems of the encoded-value reader (Dex/DexTerm.v) *)
Lemma encarray_facts fuel bs : (length bs < fuel)%nat ->
  noo (rd_encarray fuel bs) /\ forall x r, rd_encarray fuel bs = Ok (x, r) -> (length r < length bs)%nat.
Proof.
  intros Hf. unfold rd_encarray, EncodedValueModel.parse_array. destruct (Nat.leb_spec fuel (length bs)) as [Q|_]; [lia|].
  destruct (read_u bs) as [[size r0]|e] eqn:U; cbn [bind].
  2:{ split; [intros H; injection H as ->; exact (read_u_noo _ U) | discriminate]. }
  pose proof (read_u_progress _ _ _ U).
  destruct (DexTerm.parse_values_ends (EncodedValueModel.parse_value fuel) fuel (DexTerm.parse_value_level fuel) (EncodedValueModel.cnt size r0) r0 ltac:(lia)) as [N S].
  destruct (EncodedValueModel.parse_values (EncodedValueModel.parse_value fuel) (EncodedValueModel.cnt size r0) r0) as [[vs r1]|e] eqn:P; cbn [bind].
  - split; [discriminate|]. intros x r H'. injection H' as _ <-. specialize (S vs r1 eq_refl). lia.
  - split; [|discriminate]. intros H'. injection H' as ->. exact (N eq_refl).
Qed.
Lemma encarray_progress fuel bs x r : rd_encarray fuel bs = Ok (x, r) -> (length r < length bs)%nat.
Proof.
  destruct (Nat.lt_ge_cases (length bs) fuel) as [Lt|Ge]; [exact (proj2 (encarray_facts fuel bs Lt) x r)|].
  unfold rd_encarray. destruct (Nat.leb_spec fuel (length bs)); [discriminate | lia].
Qed.
Lemma annotation_facts fuel bs : (length bs < fuel)%nat ->
  noo (rd_annotation fuel bs) /\ forall x r, rd_annotation fuel bs = Ok (x, r) -> (length r < length bs)%nat.
Proof.
  intros Hf. unfold rd_annotation. destruct (Nat.leb_spec fuel (length bs)) as [Q|_]; [lia|].
  destruct bs as [|b r0]; cbn [get_byte bind]; [split; discriminate|]. cbn [length] in Hf.
  destruct (DexTerm.parse_step_ends (EncodedValueModel.parse_value fuel) fuel EncodedValueModel.VALUE_ANNOTATION r0 (DexTerm.parse_value_level fuel) ltac:(lia)) as [N S].
  destruct (EncodedValueModel.parse_step (EncodedValueModel.parse_value fuel) EncodedValueModel.VALUE_ANNOTATION r0) as [[v r2]|e] eqn:P; cbn [bind].
  - split; [discriminate|]. intros x r H'. injection H' as _ <-. specialize (S v r2 eq_refl). cbn [length]. lia.
  - split; [|discriminate]. intros H'. injection H' as ->. exact (N eq_refl).
Qed.
Lemma annotation_progress fuel bs x r : rd_annotation fuel bs = Ok (x, r) -> (length r < length bs)%nat.
Proof.
  destruct (Nat.lt_ge_cases (length bs) fuel) as [Lt|Ge]; [exact (proj2 (annotation_facts fuel bs Lt) x r)|].
  unfold rd_annotation. destruct (Nat.leb_spec fuel (length bs)); [discriminate | lia].
Qed.

(* class data *)
Lemma read_fields_facts : forall fuel cnt prev bs,
  noo (ClassDataModel.read_fields fuel cnt prev bs) /\ forall x r, ClassDataModel.read_fields fuel cnt prev bs = Ok (x, r) -> (length r <= length bs)%nat.
Proof.
  induction fuel as [|f IH]; intros cnt prev bs; cbn [ClassDataModel.read_fields]; destruct (cnt <=? 0).
  - split; [discriminate|]. intros x r H. injection H as _ <-. lia.
  - split; discriminate.
  - split; [discriminate|]. intros x r H. injection H as _ <-. lia.
  - destruct (read_u bs) as [[d r1]|e] eqn:U1; cbn [bind]; [|split; [intros H; injection H as ->; exact (read_u_noo _ U1) | discriminate]].
    pose proof (read_u_progress _ _ _ U1).
    destruct (read_u r1) as [[fl r2]|e] eqn:U2; cbn [bind]; [|split; [intros H'; injection H' as ->; exact (read_u_noo _ U2) | discriminate]].
    pose proof (read_u_progress _ _ _ U2). destruct (IH (cnt - 1) (prev + d) r2) as [N S].
    destruct (ClassDataModel.read_fields f (cnt - 1) (prev + d) r2) as [[rest r3]|e] eqn:R; cbn [bind].
    + split; [discriminate|]. intros x r H'. injection H' as _ <-. specialize (S rest r3 eq_refl). lia.
    + split; [|discriminate]. intros H'. injection H' as ->. exact (N eq_refl).
Qed.
Lemma read_methods_facts : forall fuel cnt prev bs,
  noo (ClassDataModel.read_methods fuel cnt prev bs) /\ forall x r, ClassDataModel.read_methods fuel cnt prev bs = Ok (x, r) -> (length r <= length bs)%nat.
Proof.
  induction fuel as [|f IH]; intros cnt prev bs; cbn [ClassDataModel.read_methods]; destruct (cnt <=? 0).
  - split; [discriminate|]. intros x r H. injection H as _ <-. lia.
  - split; discriminate.
  - split; [discriminate|]. intros x r H. injection H as _ <-. lia.
  - destruct (read_u bs) as [[d r1]|e] eqn:U1; cbn [bind]; [|split; [intros H; injection H as ->; exact (read_u_noo _ U1) | discriminate]].
    pose proof (read_u_progress _ _ _ U1).
    destruct (read_u r1) as [[fl r2]|e] eqn:U2; cbn [bind]; [|split; [intros H'; injection H' as ->; exact (read_u_noo _ U2) | discriminate]].
    pose proof (read_u_progress _ _ _ U2).
    destruct (read_u r2) as [[co r3]|e] eqn:U3; cbn [bind]; [|split; [intros H'; injection H' as ->; exact (read_u_noo _ U3) | discriminate]].
    pose proof (read_u_progress _ _ _ U3). destruct (IH (cnt - 1) (prev + d) r3) as [N S].
    destruct (ClassDataModel.read_methods f (cnt - 1) (prev + d) r3) as [[rest r4]|e] eqn:R; cbn [bind].
    + split; [discriminate|]. intros x r H'. injection H' as _ <-. specialize (S rest r4 eq_refl). lia.
    + split; [|discriminate]. intros H'. injection H' as ->. exact (N eq_refl).
Qed.
Lemma classdata_facts bs : noo (rd_classdata bs) /\ forall x r, rd_classdata bs = Ok (x, r) -> (length r < length bs)%nat.
Proof.
  unfold rd_classdata, ClassDataModel.read_class_data.
  destruct (read_u bs) as [[ns r1]|e] eqn:U1; cbn [bind]; [|split; [intros H; injection H as ->; exact (read_u_noo _ U1) | discriminate]]. pose proof (read_u_progress _ _ _ U1).
  destruct (read_u r1) as [[ni r2]|e] eqn:U2; cbn [bind]; [|split; [intros H'; injection H' as ->; exact (read_u_noo _ U2) | discriminate]]. pose proof (read_u_progress _ _ _ U2).
  destruct (read_u r2) as [[nd r3]|e] eqn:U3; cbn [bind]; [|split; [intros H'; injection H' as ->; exact (read_u_noo _ U3) | discriminate]]. pose proof (read_u_progress _ _ _ U3).
  destruct (read_u r3) as [[nv r4]|e] eqn:U4; cbn [bind]; [|split; [intros H'; injection H' as ->; exact (read_u_noo _ U4) | discriminate]]. pose proof (read_u_progress _ _ _ U4).
  destruct (read_fields_facts (length r4) ns 0 r4) as [N1 S1].
  destruct (ClassDataModel.read_fields (length r4) ns 0 r4) as [[sf r5]|e] eqn:R1; cbn [bind]; [|split; [intros H'; injection H' as ->; exact (N1 eq_refl) | discriminate]]. specialize (S1 sf r5 eq_refl).
  destruct (read_fields_facts (length r5) ni 0 r5) as [N2 S2].
  destruct (ClassDataModel.read_fields (length r5) ni 0 r5) as [[inf r6]|e] eqn:R2; cbn [bind]; [|split; [intros H'; injection H' as ->; exact (N2 eq_refl) | discriminate]]. specialize (S2 inf r6 eq_refl).
  destruct (read_methods_facts (length r6) nd 0 r6) as [N3 S3].
  destruct (ClassDataModel.read_methods (length r6) nd 0 r6) as [[dm r7]|e] eqn:R3; cbn [bind]; [|split; [intros H'; injection H' as ->; exact (N3 eq_refl) | discriminate]]. specialize (S3 dm r7 eq_refl).
  destruct (read_methods_facts (length r7) nv 0 r7) as [N4 S4].
  destruct (ClassDataModel.read_methods (length r7) nv 0 r7) as [[vm r8]|e] eqn:R4; cbn [bind]; [|split; [intros H'; injection H' as ->; exact (N4 eq_refl) | discriminate]]. specialize (S4 vm r8 eq_refl).
  split; [discriminate|]. intros x r H'. injection H' as _ <-. lia.
Qed.

Lemma seek_length buf p : (length (seek buf p) <= length buf)%nat.
Proof. unfold seek. destruct (p <? 0); [lia|]. rewrite skipn_length. lia. Qed.

(* every record size of the table is positive *)
Lemma kind_fixed_pos ty k : kind_of ty = Some (KFixed k) -> (0 < k)%nat.
Proof.
  unfold kind_of. repeat match goal with |- context [if ?c then _ else _] => destruct c end; intros H; try discriminate; injection H as <-; lia.
Qed.
Lemma kind_sized_pos ty k p : kind_of ty = Some (KSized k p) -> (0 < k)%nat.
Proof.
  unfold kind_of. repeat match goal with |- context [if ?c then _ else _] => destruct c end; intros H; try discriminate; injection H as <- _; lia.
Qed.

(* a section ends *)
Theorem section_ends : forall buf ty count off, noo (section (S (length buf)) buf ty count off).
Proof.
  intros buf ty count off. unfold section. pose proof (seek_length buf (start_of ty off)) as SL. set (bs := seek buf (start_of ty off)) in *.
  set (F := S (length buf)).
  assert (W : forall A (rd : bytes -> result (A * bytes)), (forall b, (length b < F)%nat -> noo (rd b)) -> (forall b x r, rd b = Ok (x, r) -> (length r < length b)%nat) ->
              noo (do '(xs, _) <- read_n (with_pos (length buf) rd) F count bs []; Ok (map fst xs))).
  { intros A rd N P. destruct (read_n (with_pos (length buf) rd) F count bs []) as [[xs r]|e] eqn:R; cbn [bind]; [discriminate|]. intros H. injection H as ->.
    revert R. apply (loop_ok (length buf) rd F N P); unfold F; lia. }
  destruct (kind_of ty) as [[k|k p| | | | | | | | |]|] eqn:K; try discriminate.
  - apply W; [intros; apply fixed_noo | apply fixed_progress; exact (kind_fixed_pos _ _ K)].
  - pose proof (kind_sized_pos _ _ _ K) as KP. apply W; [intros b Hb; apply sized_noo; [exact KP | exact Hb] | intros b x r; apply sized_progress; exact KP].
  - apply W; [intros b Hb; apply anndir_noo; exact Hb | intros b x r; apply anndir_progress].
  - apply W; [intros; apply strdata_noo | apply strdata_progress].
  - destruct (read_n (rd_code (length buf) F) F count bs []) as [[xs r]|e] eqn:R; cbn [bind]; [discriminate|]. intros H. injection H as ->.
    revert R. apply (read_n_ends _ (rd_code (length buf) F) F); unfold F; try lia.
    + intros b Hb. apply code_noo. exact Hb.
    + intros b x r. apply code_progress.
  - apply W; [intros b Hb; apply encarray_facts; exact Hb | intros b x r; apply encarray_progress].
  - apply W; [intros b Hb; apply annotation_facts; exact Hb | intros b x r; apply annotation_progress].
  - apply W; [intros b _; exact (proj1 (classdata_facts b)) | intros b x r; exact (proj2 (classdata_facts b) x r)].
Qed.

Lemma sections_end buf : forall items, noo (sections (S (length buf)) buf items).
Proof.
  induction items as [|it r IH]; cbn [sections]; [discriminate|].
  destruct (section (S (length buf)) buf (m_type it) (m_count it) (m_off it)) as [n|e] eqn:S1; cbn [bind].
  - destruct (sections (S (length buf)) buf r) as [ns|e] eqn:S2; cbn [bind]; [discriminate|]. intros H. injection H as ->. exact (IH eq_refl).
  - intros H. injection H as ->. exact (section_ends _ _ _ _ S1).
Qed.

Lemma mitem_noo bs : noo (rd_mitem bs).
Proof.
  unfold rd_mitem. destruct (u16 bs) as [[ty r0]|e] eqn:U; cbn [bind]; [|intros H; injection H as ->; exact (u16_noo _ U)].
  destruct (kind_of ty); [|discriminate]. destruct (take_n 10 r0) as [[a b]|e] eqn:T; cbn [bind]; [discriminate|]. intros H. injection H as ->. exact (take_n_noo _ _ T).
Qed.
Lemma mitem_progress bs x r : rd_mitem bs = Ok (x, r) -> (length r + 12 = length bs)%nat.
Proof.
  unfold rd_mitem. destruct (u16 bs) as [[ty r0]|e] eqn:U; cbn [bind]; [|discriminate]. pose proof (u16_spec _ _ _ U).
  destruct (kind_of ty); [|discriminate]. destruct (take_n 10 r0) as [[a b]|e] eqn:T; cbn [bind]; [|discriminate]. pose proof (take_n_spec _ _ _ _ T).
  intros H'. injection H' as _ <-. lia.
Qed.

(* MapList.__init__ ends on every byte string and every offset *)
Theorem map_list_ends : forall buf off, noo (map_list (S (length buf)) buf off).
Proof.
  intros buf off. unfold map_list. pose proof (seek_length buf off) as SL.
  destruct (u32 (seek buf off)) as [[n r]|e] eqn:U; cbn [bind]; [|intros H; injection H as ->; exact (u32_noo _ U)]. pose proof (u32_spec _ _ _ U).
  destruct (read_n rd_mitem (S (length buf)) n r []) as [[items r1]|e] eqn:R; cbn [bind].
  - destruct (sections (S (length buf)) buf (MapOrderModel.isort load_rank items)) as [ns0|e] eqn:S0; cbn [bind]; [|intros H'; injection H' as ->; exact (sections_end buf _ S0)].
    destruct (sections (S (length buf)) buf items) as [ns|e] eqn:S1; cbn [bind]; [discriminate|]. intros H'. injection H' as ->. exact (sections_end buf items S1).
  - intros H'. injection H' as ->. revert R. apply (read_n_ends _ rd_mitem (S (length buf))); try lia; [intros; apply mitem_noo|].
    intros b x r' Hr. apply mitem_progress in Hr. lia.
Qed.
(* the number of map items is bounded by the bytes: at most one per twelve *)
Lemma read_mitems_count : forall fuel count bs acc xs r, read_n rd_mitem fuel count bs acc = Ok (xs, r) -> (12 * length xs + length r <= 12 * length acc + length bs)%nat.
Proof.
  induction fuel as [|f IH]; intros count bs acc xs r H; [discriminate|]. cbn [read_n] in H. destruct (count <=? 0); [injection H as <- <-; rewrite rev_length; lia|].
  destruct (rd_mitem bs) as [[x r']|e] eqn:R; [|discriminate]. pose proof (mitem_progress _ _ _ R). apply IH in H. cbn [length] in H. lia.
Qed.
Theorem map_list_size : forall fuel buf off l, map_list fuel buf off = Ok l -> (12 * length l + 4 <= length buf)%nat.
Proof.
  intros fuel buf off l. unfold map_list. pose proof (seek_length buf off) as SL.
  destruct (u32 (seek buf off)) as [[n r]|e] eqn:U; cbn [bind]; [|discriminate]. pose proof (u32_spec _ _ _ U).
  destruct (read_n rd_mitem fuel n r []) as [[items r1]|e] eqn:R; cbn [bind]; [|discriminate]. apply read_mitems_count in R. cbn [length] in R.
  destruct (sections fuel buf (MapOrderModel.isort load_rank items)) as [ns0|e]; cbn [bind]; [|discriminate].
  destruct (sections fuel buf items) as [ns|e]; cbn [bind]; [|discriminate]. intros H'. injection H' as <-. rewrite combine_length. lia.
Qed.
Print Assumptions map_list_ends.

(* a map with a type list of three types, two string ids and the map itself; the announced count of string ids is 2^32-1 *)
Definition ex_buf : bytes :=
  [3;0;0;0; 1;0; 2;0; 3;0; 0;0; 9;9;9;9] ++
  [3;0;0;0; 1;16;0;0; 1;0;0;0; 0;0;0;0;  1;0;0;0; 2;0;0;0; 0;0;0;0;  0;16;0;0; 1;0;0;0; 16;0;0;0].
Example map_example : map_list (S (length ex_buf)) ex_buf 16 =
  Ok [({| m_type := 4097; m_count := 1; m_off := 0 |}, [0]); ({| m_type := 1; m_count := 2; m_off := 0 |}, [0; 4]); ({| m_type := 4096; m_count := 1; m_off := 16 |}, [])].
Proof. vm_compute. reflexivity. Qed.
Example map_example_huge : map_list 60 (firstn 36 ex_buf ++ [255;255;255;255] ++ skipn 40 ex_buf) 16 = Err StructError.
Proof. vm_compute. reflexivity. Qed.

(* the order the sections are parsed in is the one C07's model computes from the dependency table of the source *)
Example load_order_is : load_order = [0; 4096; 8194; 1; 2; 4; 4097; 3; 5; 8; 7; 8192; 8195; 8193; 8196; 4099; 4098; 8197; 8198; 6; 61440].
Proof. vm_compute. reflexivity. Qed.
