(* C09 - hand-written model of the checks HeaderItem.__init__ / DalvikPacker.__init__ perform on
   a buffer before anything else of a DEX file is parsed (androguard/core/dex/__init__.py), and
   of zlib.adler32 (RFC 1950).  A buffer is a list of byte values. *)
From Coq Require Import ZArith List Bool.
Require Import V.Lib.Val V.Lib.Result.
Import ListNotations.
Open Scope Z_scope.

Definition byte_at (bs : list Z) (i : nat) : Z := nth i bs 0.
Definition le32 (bs : list Z) (i : nat) : Z :=
  byte_at bs i + byte_at bs (i + 1) * 256 + byte_at bs (i + 2) * 65536 + byte_at bs (i + 3) * 16777216.

(* zlib.adler32(data): a starts at 1, b at 0, both modulo 65521; the value is b * 65536 + a *)
Definition adler_step (st : Z * Z) (d : Z) : Z * Z :=
  let a := (fst st + d) mod 65521 in (a, (snd st + a) mod 65521).
Definition adler_state (bs : list Z) : Z * Z := fold_left adler_step bs (1, 0).
Definition adler32 (bs : list Z) : Z := let '(a, b) := adler_state bs in b * 65536 + a.

Definition HEADER_SIZE : nat := 112.       (* 0x70 *)

Definition header_check (bs : list Z) : result unit :=
  if (length bs <? HEADER_SIZE)%nat then Err ValueError                (* "Header too small" *)
  else
    let endian := le32 bs 40 in
    if endian =? 2018915346 then Err OtherError                         (* 0x78563412: NotImplementedError *)
    else if negb (endian =? 305419896) then Err ValueError              (* 0x12345678 *)
    else if negb ((byte_at bs 0 =? 100) && (byte_at bs 1 =? 101)
                  && ((byte_at bs 2 =? 120) || (byte_at bs 2 =? 121))
                  && (byte_at bs 3 =? 10) && (byte_at bs 7 =? 0)) then Err ValueError   (* magic *)
    else if negb (adler32 (skipn 12 bs) =? le32 bs 8) then Err ValueError                (* checksum *)
    else if negb (le32 bs 36 =? 112) then Err ValueError                                 (* header size *)
    else if 65535 <? le32 bs 64 then Err ValueError                                      (* type ids *)
    else if 65535 <? le32 bs 72 then Err ValueError                                      (* proto ids *)
    else Ok tt.

(* replace the byte at index i *)
Fixpoint upd (i : nat) (v : Z) (l : list Z) : list Z :=
  match l, i with
  | [], _ => []
  | _ :: t, O => v :: t
  | x :: t, S j => x :: upd j v t
  end.

Definition is_byte (x : Z) : Prop := 0 <= x < 256.

(* observation: 1 when parsing goes on past the header, the exception class otherwise *)
Definition obs_header (bs : list Z) : val :=
  match header_check bs with Ok _ => VZ 1 | Err e => VErr (err_code e) end.
Definition obs_adler (bs : list Z) : val := VZ (adler32 bs).
