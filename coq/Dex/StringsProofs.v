(* C06 - proofs about coq/Dex/StringsModel.v *)
From Coq Require Import ZArith List Bool Lia ZifyBool.
Require Import V.Lib.Val V.Lib.Result V.Lib.Sweep V.Lib.Bits V.Dex.StringsModel.
Import ListNotations.
Open Scope Z_scope.
Ltac Zify.zify_post_hook ::= Z.to_euclidean_division_equations.

(* ================================================================ 1. the chunked reader *)
Lemma has0_app a b : has0 (a ++ b) = has0 a || has0 b.
Proof. apply existsb_app. Qed.
Lemma before0_app a b : before0 (a ++ b) = if has0 a then before0 a else a ++ before0 b.
Proof.
  induction a as [|x a IH]; [reflexivity|]. cbn [app before0 has0 existsb]. fold (has0 a).
  destruct (x =? 0) eqn:E.
  - apply Z.eqb_eq in E. subst x. reflexivity.
  - replace (0 =? x) with false by lia. cbn [orb]. rewrite IH. destruct (has0 a); reflexivity.
Qed.
Lemma len_split z : has0 z = true ->
  Z.of_nat (length z) - Z.of_nat (length (after0 z)) = Z.of_nat (length (before0 z)) + 1.
Proof.
  induction z as [|x z IH]; [discriminate|]. cbn [has0 existsb before0 after0 length]. fold (has0 z).
  destruct (x =? 0) eqn:E.
  - intros _. cbn [length]. lia.
  - replace (0 =? x) with false by lia. cbn [orb length]. intros H. specialize (IH H). lia.
Qed.
Lemma chunk_pos : (0 < CHUNK)%nat. Proof. unfold CHUNK. lia. Qed.
Lemma firstn_nil_inv {A} n (l : list A) : (0 < n)%nat -> firstn n l = [] -> l = [].
Proof. destruct n; [lia|]. destruct l; [reflexivity | discriminate]. Qed.

Definition nts_spec (rest : list Z) (pos : Z) : result (list Z * Z) :=
  if has0 rest then Ok (before0 rest, pos + Z.of_nat (length (before0 rest)) + 1) else Err ValueError.

Lemma nts_loop_spec : forall fuel rest pos acc, (length rest < fuel)%nat ->
  nts_loop fuel rest pos acc =
  if has0 rest then Ok (acc ++ before0 rest, pos + Z.of_nat (length (before0 rest)) + 1) else Err ValueError.
Proof.
  induction fuel as [|f IH]; intros rest pos acc Hf; [lia|].
  cbn [nts_loop]. pose proof (firstn_skipn CHUNK rest) as Hsplit.
  remember (skipn CHUNK rest) as tl eqn:Et. clear Et.
  destruct (firstn CHUNK rest) as [|b z'] eqn:Ez.
  - apply firstn_nil_inv in Ez; [|apply chunk_pos]. subst rest. reflexivity.
  - clear Ez. set (z := b :: z') in *. subst rest. rewrite has0_app, before0_app.
    destruct (has0 z) eqn:Hz.
    + cbn [orb]. pose proof (len_split z Hz). f_equal. f_equal. lia.
    + cbn [orb]. rewrite IH.
      * rewrite app_length, <- app_assoc. destruct (has0 tl); [|reflexivity]. f_equal. f_equal. lia.
      * rewrite app_length in Hf. unfold z in Hf. cbn [length] in Hf. lia.
Qed.
Lemma read_nts_spec rest pos : read_nts rest pos = nts_spec rest pos.
Proof. unfold read_nts, nts_spec. rewrite nts_loop_spec by lia. reflexivity. Qed.

(* the bytes returned hold no NUL, the byte at the returned position - 1 is the NUL *)
Lemma before0_no0 z : has0 (before0 z) = false.
Proof.
  induction z as [|x z IH]; [reflexivity|]. cbn [before0]. destruct (x =? 0) eqn:E; [reflexivity|].
  cbn [has0 existsb]. fold (has0 (before0 z)). rewrite IH. lia.
Qed.
Lemma split0 z : has0 z = true -> z = before0 z ++ 0 :: after0 z.
Proof.
  induction z as [|x z IH]; [discriminate|]. cbn [has0 existsb before0 after0]. fold (has0 z).
  destruct (x =? 0) eqn:E.
  - intros _. apply Z.eqb_eq in E. now subst.
  - replace (0 =? x) with false by lia. cbn [orb app]. intros H. now rewrite <- IH.
Qed.

(* ================================================================ 2. the decoder on encoded code units *)
Definition u16 (u : Z) : Prop := 0 <= u < 65536.
Definition dec3 (b1 b2 b3 : Z) : Z := Z.lor (Z.lor (Z.shiftl (Z.land b1 15) 12) (Z.shiftl (cont b2) 6)) (cont b3).
Definition nz (b : Z) : bool := negb (b =? 0).

(* everything the proof needs to know about the encoding of one unit, decided for all 65536 units by evaluation *)
Definition unit_facts (u : Z) : bool :=
  match enc_unit u with
  | [b1] => nz b1 && (b1 <? 128) && (b1 =? u) && negb (is_hi u) && negb (is_lo u)
  | [b1; b2] => nz b1 && nz b2 && negb (b1 <? 128) && (Z.land b1 224 =? 192) && negb (b1 =? 237)
                && (Z.lor (Z.shiftl (Z.land b1 31) 6) (cont b2) =? u) && negb (is_hi u) && negb (is_lo u)
  | [b1; b2; b3] => nz b1 && nz b2 && nz b3 && negb (b1 <? 128) && negb (Z.land b1 224 =? 192) && (Z.land b1 240 =? 224)
                && (dec3 b1 b2 b3 =? u)
                && Bool.eqb ((b1 =? 237) && (Z.land b2 240 =? 160)) (is_hi u)
                && Bool.eqb ((b1 =? 237) && (Z.land b2 240 =? 176)) (is_lo u)
                && (if is_hi u then Z.lor (Z.shiftl (Z.land b2 15) 16) (Z.shiftl (cont b3) 10) =? (u - 55296) * 1024 else true)
                && (if is_lo u then Z.lor (Z.shiftl (Z.land b2 15) 6) (cont b3) =? u - 56320 else true)
  | _ => false
  end.
Lemma unit_facts_all : all16 unit_facts = true.
Proof. vm_compute. reflexivity. Qed.
Lemma unit_facts_of u : u16 u -> unit_facts u = true.
Proof. intros H. apply (all16_spec _ unit_facts_all). exact H. Qed.

Definition starts_lo (rest : list Z) : bool :=
  match rest with b4 :: b5 :: _ :: _ => (b4 =? 237) && (Z.land b5 240 =? 176) | _ => false end.
Definition cons_ok (c : Z) (r : result (list Z)) : result (list Z) := do x <- r; Ok (c :: x).

Lemma decode_1 b1 rest : nz b1 = true -> b1 <? 128 = true -> decode (b1 :: rest) = cons_ok b1 (decode rest).
Proof. unfold nz. intros H1 H2. cbn [decode]. apply negb_true_iff in H1. now rewrite H1, H2. Qed.
Lemma decode_2 b1 b2 rest : nz b1 = true -> b1 <? 128 = false -> Z.land b1 224 =? 192 = true ->
  decode (b1 :: b2 :: rest) = cons_ok (Z.lor (Z.shiftl (Z.land b1 31) 6) (cont b2)) (decode rest).
Proof. unfold nz. intros H1 H2 H3. cbn [decode]. apply negb_true_iff in H1. now rewrite H1, H2, H3. Qed.
Lemma decode_3_plain b1 b2 b3 rest :
  nz b1 = true -> b1 <? 128 = false -> Z.land b1 224 =? 192 = false -> Z.land b1 240 =? 224 = true ->
  (b1 =? 237) && (Z.land b2 240 =? 160) && starts_lo rest = false ->
  decode (b1 :: b2 :: b3 :: rest) = cons_ok (dec3 b1 b2 b3) (decode rest).
Proof.
  unfold nz. intros H1 H2 H3 H4 H5. apply negb_true_iff in H1. cbn [decode]. rewrite H1, H2, H3, H4.
  destruct rest as [|b4 [|b5 [|b6 t]]]; try reflexivity.
  cbn [starts_lo] in H5. rewrite andb_assoc in H5. rewrite H5. reflexivity.
Qed.
Lemma decode_3_pair b2 b3 b5 b6 rest :
  Z.land b2 240 =? 160 = true -> Z.land b5 240 =? 176 = true ->
  decode (237 :: b2 :: b3 :: 237 :: b5 :: b6 :: rest) =
  cons_ok (65536 + Z.lor (Z.lor (Z.lor (Z.shiftl (Z.land b2 15) 16) (Z.shiftl (cont b3) 10)) (Z.shiftl (Z.land b5 15) 6)) (cont b6))
          (decode rest).
Proof.
  intros H1 H2. cbn [decode]. change (237 =? 0) with false. change (237 <? 128) with false.
  change (Z.land 237 224 =? 192) with false. change (Z.land 237 240 =? 224) with true. change (237 =? 237) with true.
  cbn [andb]. rewrite H1, H2. reflexivity.
Qed.

Ltac facts H :=
  repeat match type of H with
         | (_ && _) = true => let H' := fresh "F" in apply andb_true_iff in H as [H H']
         end;
  repeat match goal with
         | X : negb _ = true |- _ => apply negb_true_iff in X
         | X : Bool.eqb _ _ = true |- _ => apply eqb_prop in X
         end.

(* one unit that is not the first half of a pair in this context *)
Lemma decode_unit_plain u rest : u16 u -> is_hi u && starts_lo rest = false ->
  decode (enc_unit u ++ rest) = cons_ok u (decode rest).
Proof.
  intros Hu Hp. pose proof (unit_facts_of u Hu) as F. unfold unit_facts, nz in F.
  destruct (enc_unit u) as [|b1 [|b2 [|b3 [|]]]]; try discriminate; facts F; cbn [app].
  - assert (E : b1 = u) by lia. subst b1. apply decode_1; unfold nz; lia.
  - match goal with X : (Z.lor _ _ =? u) = true |- _ => apply Z.eqb_eq in X; rewrite <- X end.
    apply decode_2; unfold nz; auto. lia.
  - match goal with X : (dec3 _ _ _ =? u) = true |- _ => apply Z.eqb_eq in X; rewrite <- X end.
    apply decode_3_plain; unfold nz; auto; try lia.
    match goal with X : _ = is_hi u |- _ => rewrite X end. exact Hp.
Qed.

Lemma enc_hi h : u16 h -> is_hi h = true ->
  exists b2 b3, enc_unit h = [237; b2; b3] /\ Z.land b2 240 =? 160 = true /\
                Z.lor (Z.shiftl (Z.land b2 15) 16) (Z.shiftl (cont b3) 10) = (h - 55296) * 1024.
Proof.
  intros Hu Hh. pose proof (unit_facts_of h Hu) as F. unfold unit_facts, nz in F. rewrite Hh in F.
  destruct (enc_unit h) as [|b1 [|b2 [|b3 [|]]]]; try discriminate; facts F; try discriminate.
  match goal with X : _ = true |- _ => apply andb_true_iff in X as [X1 X2]; apply Z.eqb_eq in X1; subst b1 end.
  exists b2, b3. repeat split; auto. lia.
Qed.
Lemma enc_lo l : u16 l -> is_lo l = true ->
  exists b5 b6, enc_unit l = [237; b5; b6] /\ Z.land b5 240 =? 176 = true /\
                Z.lor (Z.shiftl (Z.land b5 15) 6) (cont b6) = l - 56320.
Proof.
  intros Hu Hl. pose proof (unit_facts_of l Hu) as F. unfold unit_facts, nz in F. rewrite Hl in F.
  destruct (enc_unit l) as [|b1 [|b2 [|b3 [|]]]]; try discriminate; facts F; try discriminate.
  match goal with X : (_ =? 237) && (_ =? 176) = true |- _ => apply andb_true_iff in X as [X1 X2]; apply Z.eqb_eq in X1; subst b1 end.
  exists b2, b3. repeat split; auto. lia.
Qed.
Lemma starts_lo_enc l rest : u16 l -> starts_lo (enc_unit l ++ rest) = is_lo l.
Proof.
  intros Hu. pose proof (unit_facts_of l Hu) as F. unfold unit_facts, nz in F.
  destruct (enc_unit l) as [|b1 [|b2 [|b3 [|]]]]; try discriminate; facts F; cbn [app starts_lo].
  - destruct rest as [|x [|y r]]; cbn [starts_lo]; try congruence. replace (b1 =? 237) with false by lia. cbn [andb]. congruence.
  - destruct rest as [|x r]; cbn [starts_lo]; try congruence.
    match goal with X : (b1 =? 237) = false |- _ => rewrite X end. cbn [andb]. congruence.
  - congruence.
Qed.

Lemma decode_pair h l rest : u16 h -> u16 l -> is_hi h = true -> is_lo l = true ->
  decode (enc_unit h ++ enc_unit l ++ rest) = cons_ok (65536 + (h - 55296) * 1024 + (l - 56320)) (decode rest).
Proof.
  intros Hh Hl Ih Il. destruct (enc_hi h Hh Ih) as (b2 & b3 & -> & E2 & V1). destruct (enc_lo l Hl Il) as (b5 & b6 & -> & E5 & V2).
  cbn [app]. rewrite (decode_3_pair b2 b3 b5 b6 rest E2 E5). f_equal.
  rewrite <- !Z.lor_assoc. rewrite V2. rewrite Z.lor_assoc, V1.
  unfold is_lo in Il. rewrite Z.lor_comm. change 1024 with (2 ^ 10). rewrite lor_mul_add; lia.
Qed.

Lemma join_pairs_cons h r :
  join_pairs (h :: r) =
  match r with
  | l :: t => if is_hi h && is_lo l then (65536 + (h - 55296) * 1024 + (l - 56320)) :: join_pairs t else h :: join_pairs r
  | [] => [h]
  end.
Proof. destruct r; reflexivity. Qed.

Lemma decode_encode_aux : forall n us, (length us <= n)%nat -> Forall u16 us -> decode (encode_units us) = Ok (join_pairs us).
Proof.
  induction n as [|n IH]; intros us Hn Hus.
  - destruct us; [reflexivity | cbn [length] in Hn; lia].
  - destruct us as [|h r]; [reflexivity|]. inversion Hus as [|? ? Hh Hr]; subst. cbn [length] in Hn.
    rewrite join_pairs_cons. unfold encode_units. cbn [flat_map]. fold (encode_units r).
    destruct r as [|l t].
    + rewrite decode_unit_plain; auto. destruct (is_hi h); reflexivity.
    + inversion Hr as [|? ? Hl Ht]; subst. destruct (is_hi h && is_lo l) eqn:E.
      * apply andb_true_iff in E as [E1 E2]. unfold encode_units. cbn [flat_map]. fold (encode_units t).
        rewrite decode_pair; auto. rewrite IH; auto. cbn [length] in Hn. lia.
      * rewrite decode_unit_plain; auto.
        -- rewrite IH; auto. lia.
        -- unfold encode_units. cbn [flat_map]. now rewrite starts_lo_enc.
Qed.
Lemma decode_encode us : Forall u16 us -> decode (encode_units us) = Ok (join_pairs us).
Proof. apply (decode_encode_aux (length us)). lia. Qed.

Lemma to_utf16_join_aux : forall n us, (length us <= n)%nat -> Forall u16 us -> to_utf16 (join_pairs us) = us.
Proof.
  induction n as [|n IH]; intros us Hn Hus.
  - destruct us; [reflexivity | cbn [length] in Hn; lia].
  - destruct us as [|h r]; [reflexivity|]. inversion Hus as [|? ? Hh Hr]; subst. cbn [length] in Hn.
    rewrite join_pairs_cons. unfold u16 in Hh. destruct r as [|l t].
    + unfold to_utf16. cbn [flat_map]. replace (h <? 65536) with true by lia. reflexivity.
    + inversion Hr as [|? ? Hl Ht]; subst. unfold u16 in Hl. destruct (is_hi h && is_lo l) eqn:E.
      * unfold is_hi, is_lo in E. unfold to_utf16. cbn [flat_map]. fold (to_utf16 (join_pairs t)).
        replace (65536 + (h - 55296) * 1024 + (l - 56320) <? 65536) with false by lia.
        rewrite IH; auto; [|cbn [length] in Hn; lia]. cbn [app]. f_equal; [lia|]. f_equal. lia.
      * unfold to_utf16. cbn [flat_map]. fold (to_utf16 (join_pairs (l :: t))). replace (h <? 65536) with true by lia.
        rewrite IH; auto. lia.
Qed.
Lemma to_utf16_join us : Forall u16 us -> to_utf16 (join_pairs us) = us.
Proof. apply (to_utf16_join_aux (length us)). lia. Qed.

(* ================================================================ 3. the string_data section *)
Lemma enc_unit_no0 u : u16 u -> has0 (enc_unit u) = false.
Proof.
  intros Hu. pose proof (unit_facts_of u Hu) as F. unfold unit_facts, nz in F.
  destruct (enc_unit u) as [|b1 [|b2 [|b3 [|]]]]; try discriminate; facts F; cbn [has0 existsb]; lia.
Qed.
Lemma encode_units_no0 us : Forall u16 us -> has0 (encode_units us) = false.
Proof.
  induction 1 as [|u us Hu Hus IH]; [reflexivity|]. unfold encode_units. cbn [flat_map]. fold (encode_units us).
  now rewrite has0_app, enc_unit_no0, IH.
Qed.
Lemma before0_exact a rest : has0 a = false -> before0 (a ++ 0 :: rest) = a /\ has0 (a ++ 0 :: rest) = true.
Proof.
  intros H. rewrite before0_app, has0_app, H. cbn [before0 has0 existsb orb]. change (0 =? 0) with true.
  cbn [orb]. now rewrite app_nil_r.
Qed.

(* a size prefix the reader consumes exactly: one to five bytes, all but the last above 127 (the fifth may be anything) *)
Definition uleb_prefix (sz : list Z) : bool :=
  match sz with
  | [b0] => b0 <=? 127
  | [b0; b1] => negb (b0 <=? 127) && (b1 <=? 127)
  | [b0; b1; b2] => negb (b0 <=? 127) && negb (b1 <=? 127) && (b2 <=? 127)
  | [b0; b1; b2; b3] => negb (b0 <=? 127) && negb (b1 <=? 127) && negb (b2 <=? 127) && (b3 <=? 127)
  | [b0; b1; b2; b3; _] => negb (b0 <=? 127) && negb (b1 <=? 127) && negb (b2 <=? 127) && negb (b3 <=? 127)
  | _ => false
  end.
Definition uleb_value (sz : list Z) : Z := match read_uleb sz with Ok (v, _) => v | Err _ => 0 end.
Lemma read_uleb_prefix sz rest : uleb_prefix sz = true -> read_uleb (sz ++ rest) = Ok (uleb_value sz, rest).
Proof.
  intros H. unfold uleb_value.
  destruct sz as [|b0 [|b1 [|b2 [|b3 [|b4 [|]]]]]]; try discriminate; cbn [uleb_prefix] in H;
    repeat match type of H with (_ && _) = true => let H' := fresh "G" in apply andb_true_iff in H as [H H'] end;
    repeat match goal with X : negb _ = true |- _ => apply negb_true_iff in X end;
    cbn [app read_uleb];
    repeat match goal with X : (_ <=? 127) = _ |- _ => rewrite X; clear X end; reflexivity.
Qed.

Definition item_bytes (it : list Z * list Z) : list Z := fst it ++ encode_units (snd it) ++ [0].
Definition ok_item (it : list Z * list Z) : Prop := uleb_prefix (fst it) = true /\ Forall u16 (snd it).
Definition section (l : list (list Z * list Z)) : list Z := flat_map item_bytes l.
Fixpoint items_at (pos : Z) (l : list (list Z * list Z)) : list sitem :=
  match l with
  | [] => []
  | it :: l' => {| s_off := pos; s_size := uleb_value (fst it); s_data := encode_units (snd it) |}
                :: items_at (pos + Z.of_nat (length (item_bytes it))) l'
  end.

Lemma skipn_app_exact {A} (a b : list A) : skipn (length a) (a ++ b) = b.
Proof. induction a; [reflexivity | exact IHa]. Qed.

Lemma read_item_exact it rest pos : ok_item it ->
  read_item (item_bytes it ++ rest) pos =
  Ok ({| s_off := pos; s_size := uleb_value (fst it); s_data := encode_units (snd it) |},
      (rest, pos + Z.of_nat (length (item_bytes it)))).
Proof.
  intros [Hsz Hus]. destruct it as [sz us]. cbn [fst snd] in *. unfold item_bytes. cbn [fst snd].
  unfold read_item. rewrite <- !app_assoc. rewrite (read_uleb_prefix sz _ Hsz). cbn [bind].
  rewrite read_nts_spec. unfold nts_spec. cbn [app].
  destruct (before0_exact (encode_units us) rest (encode_units_no0 us Hus)) as [B H0]. rewrite H0, B. cbn [bind].
  f_equal. f_equal. f_equal.
  - rewrite !app_length. cbn [length].
    replace (Z.to_nat _) with (length (encode_units us ++ [0])) by (rewrite !app_length; cbn [length]; lia).
    change (encode_units us ++ 0 :: rest) with (encode_units us ++ [0] ++ rest). rewrite app_assoc. apply skipn_app_exact.
  - rewrite !app_length. cbn [length]. lia.
Qed.

Lemma read_items_exact : forall l rest pos, Forall ok_item l ->
  read_items (length l) (section l ++ rest) pos = Ok (items_at pos l).
Proof.
  induction l as [|it l IH]; intros rest pos H; [reflexivity|]. inversion H as [|? ? Hit Hl]; subst.
  cbn [length read_items section flat_map items_at]. fold (section l). rewrite <- app_assoc.
  rewrite read_item_exact by assumption. cbn [bind]. rewrite IH by assumption. reflexivity.
Qed.

(* offsets grow strictly, so an id addresses exactly one item *)
Lemma item_bytes_len it : (2 <= length (item_bytes it))%nat \/ fst it = [].
Proof. unfold item_bytes. rewrite !app_length. cbn [length]. destruct (fst it); [now right | left; cbn [length]; lia]. Qed.
Lemma items_at_offsets_ge : forall l pos it, Forall ok_item l -> In it (items_at pos l) -> pos <= s_off it.
Proof.
  induction l as [|x l IH]; intros pos it H Hin; [contradiction|]. inversion H; subst. destruct Hin as [<-|Hin]; [cbn; lia|].
  apply IH in Hin; auto. lia.
Qed.
Lemma items_at_nodup : forall l pos, Forall ok_item l -> NoDup (map s_off (items_at pos l)).
Proof.
  induction l as [|x l IH]; intros pos H; [constructor|]. inversion H as [|? ? Hx Hl]; subst. cbn [items_at map]. constructor; [|now apply IH].
  intros Hin. apply in_map_iff in Hin as (it & E & Hin). apply items_at_offsets_ge in Hin; auto. cbn [s_off] in E.
  destruct Hx as [Hp _]. destruct (item_bytes_len x) as [L|L]; [lia|]. rewrite L in Hp. discriminate.
Qed.
Lemma find_unique (items : list sitem) it :
  NoDup (map s_off items) -> In it items -> find (fun x => s_off x =? s_off it) (rev items) = Some it.
Proof.
  intros Hnd Hin. destruct (find _ (rev items)) as [x|] eqn:E.
  - apply find_some in E as [Hx Ex]. apply in_rev in Hx. apply Z.eqb_eq in Ex. f_equal.
    clear - Hnd Hin Hx Ex. induction items as [|y items IH]; [contradiction|]. cbn [map] in Hnd. inversion Hnd as [|? ? Hn Hnd']; subst.
    destruct Hin as [->|Hin], Hx as [->|Hx]; auto.
    + exfalso. apply Hn. apply in_map_iff. exists x. auto.
    + exfalso. apply Hn. apply in_map_iff. exists it. auto.
  - exfalso. assert (Hr : In it (rev items)) by (apply -> in_rev; exact Hin).
    pose proof (find_none _ _ E it Hr) as X. cbn beta in X. rewrite Z.eqb_refl in X. discriminate.
Qed.

Lemma nth_items_at : forall l pos k it, nth_error l k = Some it ->
  exists off, nth_error (items_at pos l) k = Some {| s_off := off; s_size := uleb_value (fst it); s_data := encode_units (snd it) |}.
Proof.
  induction l as [|x l IH]; intros pos k it H; [destruct k; discriminate|]. destruct k as [|k].
  - injection H as ->. eexists. reflexivity.
  - cbn [nth_error items_at] in *. apply IH. exact H.
Qed.

(* the whole statement: a file that holds, at any offset, the section made of any strings (any code units), followed
   by anything; string ids that point at item offsets *)
Theorem pool_strings_exact l pre post ids idx k it :
  Forall ok_item l -> nth_error l k = Some it ->
  exists items item,
    read_items (length l) (skipn (length pre) (pre ++ section l ++ post)) (Z.of_nat (length pre)) = Ok items /\
    length items = length l /\
    nth_error items k = Some item /\ s_size item = uleb_value (fst it) /\
    item_text item = Ok (join_pairs (snd it)) /\ to_utf16 (join_pairs (snd it)) = snd it /\
    (nth_error ids idx = Some (s_off item) -> get_raw_string ids items idx = Ok (join_pairs (snd it))).
Proof.
  intros Hl Hk. rewrite skipn_app_exact. rewrite read_items_exact by assumption.
  destruct (nth_items_at l (Z.of_nat (length pre)) k it Hk) as (off & Hn).
  assert (Hus : Forall u16 (snd it)).
  { apply nth_error_In in Hk. rewrite Forall_forall in Hl. apply Hl in Hk. apply Hk. }
  eexists. eexists. split; [reflexivity|]. split.
  { clear. generalize (Z.of_nat (length pre)). induction l; intros; cbn [items_at length]; [reflexivity | now rewrite IHl]. }
  split; [exact Hn|]. split; [reflexivity|]. unfold item_text. cbn [s_data]. split; [now apply decode_encode|].
  split; [now apply to_utf16_join|]. intros Hid. unfold get_raw_string. rewrite Hid.
  pose proof (find_unique (items_at (Z.of_nat (length pre)) l) _ (items_at_nodup l _ Hl) (nth_error_In _ _ Hn)) as F.
  cbn [s_off] in F. cbn [s_off]. rewrite F. unfold item_text. cbn [s_data]. now apply decode_encode.
Qed.
