(* C35 - more loops of the DEX parser end on every input: the field and method lists of a class_data_item (their
   announced counts do not matter) and nested encoded values (arrays and annotations of any announced size and depth) *)
From Coq Require Import ZArith List Bool Lia.
Require Import V.Lib.Val V.Lib.Result V.Dex.LebModel V.Dex.ClassDataModel V.Dex.EncodedValueModel V.Misc.TermProofs.
Import ListNotations.
Open Scope Z_scope.

(* ---------------------------------------------------------------- class_data_item *)
(* the loops run on fuel = the number of bytes left; an element takes at least two bytes, so the fuel is never what ends a
   loop: any two amounts of fuel that are at least the number of bytes left give the same result - whatever count the
   item announces, the loop ends within (bytes left + 1) passes *)
Theorem read_fields_fuel : forall f1 f2 cnt prev bs, (length bs <= f1)%nat -> (length bs <= f2)%nat ->
  read_fields f1 cnt prev bs = read_fields f2 cnt prev bs.
Proof.
  induction f1 as [|f1 IH]; intros f2 cnt prev bs H1 H2.
  - destruct bs; [|cbn [length] in H1; lia]. destruct f2; cbn [read_fields]; destruct (cnt <=? 0); try reflexivity.
  - destruct f2 as [|f2].
    + destruct bs; [|cbn [length] in H2; lia]. cbn [read_fields]. destruct (cnt <=? 0); reflexivity.
    + cbn [read_fields]. destruct (cnt <=? 0); [reflexivity|].
      destruct (read_u bs) as [[d r1]|e] eqn:E1; cbn [bind]; [|reflexivity]. pose proof (read_u_consumes _ _ _ E1) as S1.
      destruct (read_u r1) as [[fl r2]|e] eqn:E2; cbn [bind]; [|reflexivity]. pose proof (read_u_consumes _ _ _ E2) as S2.
      unfold shorter in *. rewrite (IH f2 (cnt - 1) (prev + d) r2) by lia. reflexivity.
Qed.
Theorem read_methods_fuel : forall f1 f2 cnt prev bs, (length bs <= f1)%nat -> (length bs <= f2)%nat ->
  read_methods f1 cnt prev bs = read_methods f2 cnt prev bs.
Proof.
  induction f1 as [|f1 IH]; intros f2 cnt prev bs H1 H2.
  - destruct bs; [|cbn [length] in H1; lia]. destruct f2; cbn [read_methods]; destruct (cnt <=? 0); try reflexivity.
  - destruct f2 as [|f2].
    + destruct bs; [|cbn [length] in H2; lia]. cbn [read_methods]. destruct (cnt <=? 0); reflexivity.
    + cbn [read_methods]. destruct (cnt <=? 0); [reflexivity|].
      destruct (read_u bs) as [[d r1]|e] eqn:E1; cbn [bind]; [|reflexivity]. pose proof (read_u_consumes _ _ _ E1) as S1.
      destruct (read_u r1) as [[fl r2]|e] eqn:E2; cbn [bind]; [|reflexivity]. pose proof (read_u_consumes _ _ _ E2) as S2.
      destruct (read_u r2) as [[co r3]|e] eqn:E3; cbn [bind]; [|reflexivity]. pose proof (read_u_consumes _ _ _ E3) as S3.
      unfold shorter in *. rewrite (IH f2 (cnt - 1) (prev + d) r3) by lia. reflexivity.
Qed.

(* ---------------------------------------------------------------- encoded values *)
Definition noo {A} (r : result A) : Prop := r <> Err OutOfFuel.
Lemma get_byte_noo bs : noo (get_byte bs).  Proof. destruct bs; discriminate. Qed.
Lemma read_u_noo bs : noo (read_u bs).
Proof.
  unfold read_u, noo. destruct bs as [|b0 l]; [discriminate|]. cbn [get_byte bind]. destruct (b0 >? 127); [|discriminate].
  destruct l as [|b1 l]; [discriminate|]. cbn [get_byte bind]. destruct (b1 >? 127); [|discriminate].
  destruct l as [|b2 l]; [discriminate|]. cbn [get_byte bind]. destruct (b2 >? 127); [|discriminate].
  destruct l as [|b3 l]; [discriminate|]. cbn [get_byte bind]. destruct (b3 >? 127); [|discriminate].
  destruct l as [|b4 l]; [discriminate|]. cbn [get_byte bind]. discriminate.
Qed.

(* what one level needs of the level below: on every buffer shorter than f it does not run out of fuel and, when it
   returns a value, it has consumed at least one byte *)
Definition level_ok (rec : list Z -> result (ev * list Z)) (f : nat) : Prop :=
  forall bs, (length bs < f)%nat -> noo (rec bs) /\ forall v r, rec bs = Ok (v, r) -> (length r < length bs)%nat.

Lemma parse_values_ends rec f : level_ok rec f -> forall n bs, (length bs < f)%nat ->
  noo (parse_values rec n bs) /\ forall vs r, parse_values rec n bs = Ok (vs, r) -> (length r <= length bs)%nat.
Proof.
  intros L. induction n as [|n IH]; intros bs Hb; cbn [parse_values].
  - split; [discriminate|]. intros vs r H. injection H as _ <-. lia.
  - destruct (L bs Hb) as [N S]. destruct (rec bs) as [[v r1]|e] eqn:E; cbn [bind].
    + specialize (S v r1 eq_refl). assert (Hr : (length r1 < f)%nat) by lia. destruct (IH r1 Hr) as [N2 S2].
      destruct (parse_values rec n r1) as [[vs r2]|e2] eqn:E2; cbn [bind].
      * split; [discriminate|]. intros vs' r H. injection H as _ <-. specialize (S2 vs r2 eq_refl). lia.
      * split; [unfold noo in *; congruence | discriminate].
    + split; [unfold noo in *; congruence | discriminate].
Qed.
Lemma parse_elements_ends rec f : level_ok rec f -> forall n bs, (length bs < f)%nat ->
  noo (parse_elements rec n bs) /\ forall vs r, parse_elements rec n bs = Ok (vs, r) -> (length r <= length bs)%nat.
Proof.
  intros L. induction n as [|n IH]; intros bs Hb; cbn [parse_elements].
  - split; [discriminate|]. intros vs r H. injection H as _ <-. lia.
  - pose proof (read_u_noo bs) as Nu. destruct (read_u bs) as [[nm r0]|e0] eqn:E0; cbn [bind]; [|split; [unfold noo in *; congruence | discriminate]].
    pose proof (read_u_consumes _ _ _ E0) as S0. unfold shorter in S0. assert (Hb0 : (length r0 < f)%nat) by lia.
    destruct (L r0 Hb0) as [N S]. destruct (rec r0) as [[v r1]|e] eqn:E; cbn [bind].
    + specialize (S v r1 eq_refl). assert (Hr : (length r1 < f)%nat) by lia. destruct (IH r1 Hr) as [N2 S2].
      destruct (parse_elements rec n r1) as [[vs r2]|e2] eqn:E2; cbn [bind].
      * split; [discriminate|]. intros vs' r H. injection H as _ <-. specialize (S2 vs r2 eq_refl). lia.
      * split; [unfold noo in *; congruence | discriminate].
    + split; [unfold noo in *; congruence | discriminate].
Qed.

Lemma parse_step_ends rec f val bs : level_ok rec f -> (length bs < f)%nat ->
  noo (parse_step rec val bs) /\ forall v r, parse_step rec val bs = Ok (v, r) -> (length r <= length bs)%nat.
Proof.
  intros L Hb. unfold parse_step.
  destruct ((VALUE_SHORT <=? Z.land val 31) && (Z.land val 31 <? VALUE_STRING)).
  { unfold read_n. split; [discriminate|]. intros v r H. injection H as _ <-. rewrite skipn_length. lia. }
  destruct ((VALUE_STRING <=? Z.land val 31) && (Z.land val 31 <=? VALUE_ENUM)).
  { unfold read_n. split; [discriminate|]. intros v r H. injection H as _ <-. rewrite skipn_length. lia. }
  destruct (Z.land val 31 =? VALUE_ARRAY).
  { pose proof (read_u_noo bs) as Nu. destruct (read_u bs) as [[size r0]|e0] eqn:E0; cbn [bind]; [|split; [unfold noo in *; congruence | discriminate]].
    pose proof (read_u_consumes _ _ _ E0) as S0. unfold shorter in S0. assert (Hb0 : (length r0 < f)%nat) by lia.
    destruct (parse_values_ends rec f L (cnt size r0) r0 Hb0) as [N S].
    destruct (parse_values rec (cnt size r0) r0) as [[vs r1]|e1] eqn:E1; cbn [bind].
    - split; [discriminate|]. intros v r H. injection H as _ <-. specialize (S vs r1 eq_refl). lia.
    - split; [unfold noo in *; congruence | discriminate]. }
  destruct (Z.land val 31 =? VALUE_ANNOTATION).
  { pose proof (read_u_noo bs) as Nu. destruct (read_u bs) as [[ty r0]|e0] eqn:E0; cbn [bind]; [|split; [unfold noo in *; congruence | discriminate]].
    pose proof (read_u_consumes _ _ _ E0) as S0. unfold shorter in S0.
    pose proof (read_u_noo r0) as Nu1. destruct (read_u r0) as [[size r00]|e00] eqn:E00; cbn [bind]; [|split; [unfold noo in *; congruence | discriminate]].
    pose proof (read_u_consumes _ _ _ E00) as S00. unfold shorter in S00. assert (Hb0 : (length r00 < f)%nat) by lia.
    destruct (parse_elements_ends rec f L (cnt size r00) r00 Hb0) as [N S].
    destruct (parse_elements rec (cnt size r00) r00) as [[vs r1]|e1] eqn:E1; cbn [bind].
    - split; [discriminate|]. intros v r H. injection H as _ <-. specialize (S vs r1 eq_refl). lia.
    - split; [unfold noo in *; congruence | discriminate]. }
  destruct (Z.land val 31 =? VALUE_BYTE).
  { destruct bs as [|b r0]; cbn [get_byte bind]; [split; discriminate|]. split; [discriminate|]. intros v r H. injection H as _ <-. cbn [length]. lia. }
  destruct (Z.land val 31 =? VALUE_NULL); [split; [discriminate|]; intros v r H; injection H as _ <-; lia|].
  destruct (Z.land val 31 =? VALUE_BOOLEAN); split; try discriminate; intros v r H; injection H as _ <-; lia.
Qed.

(* an encoded value - arrays and annotations nested to any depth, announcing any number of elements - is read within
   (bytes + 1) levels: the reader returns a value or raises, it does not go on for ever *)
Theorem parse_value_level : forall fuel, level_ok (parse_value fuel) fuel.
Proof.
  induction fuel as [|f IH]; intros bs Hb; [lia|]. cbn [parse_value].
  destruct bs as [|b bs1]; cbn [get_byte bind]; [split; discriminate|]. cbn [length] in Hb.
  assert (Hb1 : (length bs1 < f)%nat) by lia. destruct (parse_step_ends (parse_value f) f b bs1 IH Hb1) as [N S].
  split; [exact N|]. intros v r H. specialize (S v r H). cbn [length]. lia.
Qed.
Theorem parse_value_ends bs : parse_value (S (length bs)) bs <> Err OutOfFuel.
Proof. apply (parse_value_level (S (length bs)) bs). lia. Qed.
Print Assumptions parse_value_ends.
Theorem parse_array_ends bs : parse_array (S (length bs)) bs <> Err OutOfFuel.
Proof.
  unfold parse_array. pose proof (read_u_noo bs) as Nu. destruct (read_u bs) as [[size r0]|e0] eqn:E0; cbn [bind]; [|unfold noo in *; congruence].
  pose proof (read_u_consumes _ _ _ E0) as S0. unfold shorter in S0.
  apply (parse_values_ends (parse_value (S (length bs))) (S (length bs)) (parse_value_level _) (cnt size r0) r0). lia.
Qed.
