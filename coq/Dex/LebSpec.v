(* The DEX format's definition of LEB128 ("Dalvik executable format", LEB128 section),
   written independently of the implementation. *)
From Coq Require Import ZArith List Bool.
Import ListNotations.
Open Scope Z_scope.

(* payload bits, little endian groups of seven *)
Fixpoint leb_raw (bs : list Z) : Z :=
  match bs with [] => 0 | b :: t => b mod 128 + 128 * leb_raw t end.

Definition nbytes (bs : list Z) : Z := Z.of_nat (length bs).

(* a well-formed encoding: 1..5 bytes, continuation bit set on all but the last *)
Fixpoint terminated (bs : list Z) : bool :=
  match bs with
  | [] => false
  | [b] => (0 <=? b) && (b <? 128)
  | b :: t => (128 <=? b) && (b <? 256) && terminated t
  end.
Definition wf_leb (bs : list Z) : bool := terminated bs && (nbytes bs <=? 5).

Definition wrap32 (x : Z) : Z := let y := x mod 4294967296 in if y >=? 2147483648 then y - 4294967296 else y.

(* unsigned: the payload, as a 32-bit quantity *)
Definition uleb_value (bs : list Z) : Z := leb_raw bs mod 4294967296.
(* signed: sign-extended from the last payload bit, as a 32-bit quantity *)
Definition sleb_value (bs : list Z) : Z :=
  let n := nbytes bs in
  let raw := leb_raw bs in
  wrap32 (if raw >=? 2 ^ (7 * n - 1) then raw - 2 ^ (7 * n) else raw).
Definition ulebp1_value (bs : list Z) : Z := uleb_value bs - 1.
