(* C08 - hand-written model of the tail of a code_item as DalvikCode.__init__ reads it
   (androguard/core/dex/__init__.py): the padding unit, TryItem, EncodedCatchHandlerList,
   EncodedCatchHandler, EncodedTypeAddrPair; determineException is the one of coq/Analysis/CfgModel.v.
   A buffer is the list of bytes from the current position on.  Handler offsets are relative to the
   start of the handler list, as try_item.handler_off is.  Tied to the source by tools/props/c08.py. *)
From Coq Require Import ZArith List Bool.
Require Import V.Lib.Val V.Lib.Result V.Dex.LebModel V.Analysis.CfgModel.
Import ListNotations.
Open Scope Z_scope.

(* struct unpack of little-endian unsigned fields; a short read raises struct.error *)
Definition u16 (bs : list Z) : result (Z * list Z) :=
  match bs with a :: b :: t => Ok (a + 256 * b, t) | _ => Err StructError end.
Definition u32 (bs : list Z) : result (Z * list Z) :=
  match bs with a :: b :: c :: d :: t => Ok (a + 256 * b + 65536 * c + 16777216 * d, t) | _ => Err StructError end.

(* TryItem: unpack("I2H") of 8 bytes: all 8 bytes are read before unpacking *)
Definition read_try (bs : list Z) : result (try_item * list Z) :=
  if (length bs <? 8)%nat then Err StructError else
  do '(s, bs) <- u32 bs; do '(c, bs) <- u16 bs; do '(h, bs) <- u16 bs;
  Ok ({| t_start := s; t_count := c; t_hoff := h |}, bs).
Fixpoint read_tries (n : nat) (bs : list Z) : result (list try_item * list Z) :=
  match n with
  | O => Ok ([], bs)
  | S n' => do '(t, bs) <- read_try bs; do '(ts, bs) <- read_tries n' bs; Ok (t :: ts, bs)
  end.

(* EncodedTypeAddrPair, |size| of them *)
Fixpoint read_pairs (n : nat) (bs : list Z) : result (list (Z * Z) * list Z) :=
  match n with
  | O => Ok ([], bs)
  | S n' => do '(ty, bs) <- read_u bs; do '(ad, bs) <- read_u bs; do '(ps, bs) <- read_pairs n' bs; Ok ((ty, ad) :: ps, bs)
  end.
(* EncodedCatchHandler at relative offset off *)
Definition read_handler (off : Z) (bs : list Z) : result (handler * list Z) :=
  do '(size, bs) <- read_s bs;
  do '(ps, bs) <- read_pairs (Z.to_nat (Z.abs size)) bs;
  if size <=? 0 then do '(ca, bs) <- read_u bs; Ok ({| h_off := off; h_typed := ps; h_catch_all := Some ca |}, bs)
  else Ok ({| h_off := off; h_typed := ps; h_catch_all := None |}, bs).
Fixpoint read_handlers (n : nat) (total : Z) (bs : list Z) : result (list handler * list Z) :=
  match n with
  | O => Ok ([], bs)
  | S n' =>
      do '(h, bs') <- read_handler (total - Z.of_nat (length bs)) bs;
      do '(hs, bs'') <- read_handlers n' total bs'; Ok (h :: hs, bs'')
  end.
(* EncodedCatchHandlerList *)
Definition read_handler_list (bs : list Z) : result (list handler * list Z) :=
  do '(size, bs') <- read_u bs; read_handlers (Z.to_nat size) (Z.of_nat (length bs)) bs'.

(* what follows the instructions of a code item with insns_size units and tries_size try items *)
Definition read_tail (insns_size tries_size : Z) (bs : list Z) : result ((list try_item * list handler) * list Z) :=
  do '(_, bs) <- (if (insns_size mod 2 =? 1) && (0 <? tries_size) then u16 bs else Ok (0, bs));
  if 0 <? tries_size then
    do '(ts, bs) <- read_tries (Z.to_nat tries_size) bs;
    do '(hs, bs) <- read_handler_list bs; Ok ((ts, hs), bs)
  else Ok (([], []), bs).

(* ---- observation: tries, handlers, determineException ---- *)
Definition vtry (t : try_item) : val := VList [VZ (t_start t); VZ (t_count t); VZ (t_hoff t)].
Definition vhandler (h : handler) : val :=
  VList [VZ (h_off h); VList (map (fun p => VList [VZ (fst p); VZ (snd p)]) (h_typed h)); vopt VZ (h_catch_all h)].
Definition vexc_plain (e : exc) : val :=
  VList [VZ (e_start e); VZ (e_end e); VList (map (fun p => VList [VZ (fst p); VZ (snd p)]) (e_handlers e))].
Definition obs_tail (i : (Z * Z) * list Z) : val :=
  let '((insns_size, tries_size), bs) := i in
  match read_tail insns_size tries_size bs with
  | Err e => VErr (err_code e)
  | Ok ((ts, hs), _) =>
      VList [VList (map vtry ts); VList (map vhandler hs);
             if 0 <? tries_size then vres (fun l => VList (map vexc_plain l)) (determine_exception ts hs) else VList []]
  end.
