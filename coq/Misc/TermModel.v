(* C35 - hand-written models of the loops whose termination is at stake: ARSCHeader.__init__ (the dummy-data skip loop,
   androguard/core/axml/__init__.py), DebugInfoItem.__init__ and HiddenApiClassDataItem.__init__
   (androguard/core/dex/__init__.py); read_null_terminated_string is in coq/Dex/StringsModel.v.  Every loop runs on
   explicit fuel; the theorems show that a fuel linear in the number of bytes is never exhausted.
   Tied to the source by tools/props/c35.py. *)
From Coq Require Import ZArith List Bool.
Require Import V.Lib.Val V.Lib.Result V.Dex.LebModel.
Import ListNotations.
Open Scope Z_scope.

Fixpoint dropz (n : Z) (l : list Z) : list Z :=
  match l with [] => [] | x :: r => if n <=? 0 then l else dropz (n - 1) r end.
Definition len (l : list Z) : Z := Z.of_nat (length l).

(* ---------------------------------------------------------------- ARSCHeader *)
(* unpack('<HHL', buff.read(8)): struct.error when fewer than eight bytes are left *)
Definition hdr (l : list Z) : option (Z * Z * Z) :=
  match l with
  | a :: b :: c :: d :: e :: f :: g :: h :: _ => Some (a + 256 * b, c + 256 * d, e + 256 * f + 65536 * g + 16777216 * h)
  | _ => None
  end.
(* while True: read the header at cur; stop when it is plausible or cur = 0, else go on one byte further *)
Fixpoint arsc_loop (fuel : nat) (buf : list Z) (cur : Z) : result (Z * Z * Z * Z) :=
  match fuel with
  | O => Err OutOfFuel
  | S f =>
      match hdr (dropz cur buf) with
      | None => Err StructError
      | Some (ty, hs, sz) =>
          let sz' := if (sz <? 8) && (len buf =? cur + hs + 4 + 4) then 24 else sz in
          let ok := (8 <=? hs) && (hs <=? sz') in
          if ok || (cur =? 0) then Ok (ty, hs, sz', cur) else arsc_loop f buf (cur + 1)
      end
  end.
Definition arsc_fuel (buf : list Z) (start : Z) : nat := S (Z.to_nat (len buf - start)).
(* (type, header size, size, start, position after the header) *)
Definition arsc_header (buf : list Z) (start : Z) (expected : Z) : result (list Z) :=
  if len buf <? start + 8 then Err ResParserError else
  do ' (ty, hs, sz, cur) <- arsc_loop (arsc_fuel buf start) buf start;
  if negb (expected =? 0) && negb (ty =? expected) then Err ResParserError else
  if hs <? 8 then Err ResParserError else
  if sz <? 8 then Err ResParserError else
  if sz <? hs then Err ResParserError else
  Ok [ty; hs; sz; start; cur + 8].

(* ---------------------------------------------------------------- DebugInfoItem *)
Fixpoint params (fuel : nat) (n : Z) (l : list Z) : result (list Z * list Z) :=
  if n <=? 0 then Ok ([], l) else
  match fuel with
  | O => Err OutOfFuel
  | S f => do ' (v, r) <- read_up1 l; do ' (vs, r') <- params f (n - 1) r; Ok (v :: vs, r')
  end.
(* the operands of one opcode *)
Definition dbg_args (op : Z) (l : list Z) : result (list Z * list Z) :=
  if (op =? 1) || (op =? 5) || (op =? 6) then do ' (a, r) <- read_u l; Ok ([a], r)
  else if op =? 2 then do ' (a, r) <- read_s l; Ok ([a], r)
  else if op =? 3 then do ' (a, r1) <- read_u l; do ' (b, r2) <- read_up1 r1; do ' (c, r3) <- read_up1 r2; Ok ([a; b; c], r3)
  else if op =? 4 then do ' (a, r1) <- read_u l; do ' (b, r2) <- read_up1 r1; do ' (c, r3) <- read_up1 r2; do ' (d, r4) <- read_up1 r3;
                       Ok ([a; b; c; d], r4)
  else if op =? 9 then do ' (a, r) <- read_up1 l; Ok ([a], r)
  else Ok ([], l).
Fixpoint dbg_loop (fuel : nat) (op : Z) (l : list Z) : result (list (Z * list Z) * list Z) :=
  if op =? 0 then Ok ([(0, [])], l) else
  match fuel with
  | O => Err OutOfFuel
  | S f => do ' (args, r1) <- dbg_args op l; do ' (op', r2) <- get_byte r1; do ' (rest, r3) <- dbg_loop f op' r2; Ok ((op, args) :: rest, r3)
  end.
Definition debug_info (l : list Z) : result (Z * list Z * list (Z * list Z) * Z) :=
  do ' (line, r1) <- read_u l; do ' (np, r2) <- read_u r1;
  do ' (ps, r3) <- params (S (length r2)) np r2;
  do ' (op, r4) <- get_byte r3;
  do ' (codes, r5) <- dbg_loop (S (length r4)) op r4;
  Ok (line, ps, codes, len r5).

(* ---------------------------------------------------------------- HiddenApiClassDataItem *)
Definition u32 (l : list Z) : result (Z * list Z) :=
  match l with a :: b :: c :: d :: r => Ok (a + 256 * b + 65536 * c + 16777216 * d, r) | _ => Err StructError end.
(* while tell - offset < section_size: i entries have been read, tell - offset = 4 + 4 i *)
Fixpoint offsets_loop (fuel : nat) (section i osize : Z) (l : list Z) : result (Z * list Z) :=
  if negb (4 + 4 * i <? section) then Ok (osize, l) else
  if negb (osize =? 0) && (osize <=? i) then Ok (osize, l) else
  match fuel with
  | O => Err OutOfFuel
  | S f => do ' (off, r) <- u32 l;
           offsets_loop f section (i + 1) (if negb (off =? 0) && (osize =? 0) then (off - 4) / 4 else osize) r
  end.
Fixpoint flags_loop (fuel : nat) (n : Z) (l : list Z) : result (list (Z * Z) * list Z) :=
  if n <=? 0 then Ok ([], l) else
  match fuel with
  | O => Err OutOfFuel
  | S f => do ' (fl, r) <- read_u l;
           if (6 <? Z.land fl 7) || (2 <? Z.shiftr fl 3) then Err ValueError else
           do ' (rest, r') <- flags_loop f (n - 1) r; Ok ((Z.land fl 7, Z.shiftr fl 3) :: rest, r')
  end.
Definition hidden_api (l : list Z) : result (Z * list (Z * Z) * Z) :=
  do ' (section, r1) <- u32 l;
  do ' (osize, r2) <- offsets_loop (S (length r1)) section 0 0 r1;
  do ' (fl, r3) <- flags_loop (S (length r2)) osize r2;
  Ok (section, fl, len r3).

(* ---------------------------------------------------------------- observation *)
Definition obs_arsc (x : list Z * (Z * Z)) : val := let '(buf, (start, expected)) := x in vres vlistZ (arsc_header buf start expected).
Definition obs_debug (l : list Z) : val :=
  vres (fun r => let '(line, ps, codes, remaining) := r in
                 VList [VZ line; vlistZ ps; VList (map (fun c => VList [VZ (fst c); vlistZ (snd c)]) codes); VZ remaining]) (debug_info l).
Definition obs_hidden (l : list Z) : val :=
  vres (fun r => let '(section, fl, remaining) := r in
                 VList [VZ section; VList (map (fun p => VList [VZ (fst p); VZ (snd p)]) fl); VZ remaining]) (hidden_api l).
