(* C37 - lemmas about the export path model. *)
From Coq Require Import ZArith List Bool Lia.
Require Import V.Lib.Val V.Lib.Result V.Misc.CleanNameModel V.Misc.CleanNameProofs V.Misc.ExportPathModel.
Import ListNotations.
Open Scope Z_scope.

(* a path component that cannot leave its directory *)
Definition plain (seg : list Z) : Prop :=
  seg <> [] /\ noslash seg /\ seg <> S_DOT /\ seg <> S_DOTDOT.
(* seg1/seg2/.../segn *)
Definition rel (segs : list (list Z)) : list Z :=
  match segs with [] => [] | p :: ps => fold_left (fun acc x => acc ++ [SLASH] ++ x) ps p end.
Definition inside (out p : list Z) : Prop :=
  exists segs, segs <> [] /\ Forall plain segs /\ p = py_join out (rel segs).

Lemma str_eqb_eq : forall a b, str_eqb a b = true <-> a = b.
Proof.
  unfold str_eqb. induction a as [|x a IH]; intros [|y b]; simpl; split; intro H; try discriminate; try reflexivity.
  - apply andb_true_iff in H. destruct H as [H1 H2]. apply Z.eqb_eq in H1. apply IH in H2. subst. reflexivity.
  - inversion H; subst. rewrite Z.eqb_refl. simpl. apply IH. reflexivity.
Qed.

Lemma split_on_noslash : forall s, Forall noslash (split_on SLASH s).
Proof.
  induction s as [|c t IH]; simpl; [repeat constructor|].
  destruct (c =? SLASH) eqn:E; [constructor; [constructor|exact IH]|].
  destruct (split_on SLASH t) as [|h r]; [repeat constructor; unfold is_slash; now rewrite E|].
  inversion IH; subst. constructor; [|assumption]. constructor; [unfold is_slash; now rewrite E|assumption].
Qed.

Lemma fix_part_plain : forall p, p <> [] -> noslash p -> plain (fix_part p).
Proof.
  intros p Hne Hns. unfold fix_part. destruct (str_eqb p S_DOT || str_eqb p S_DOTDOT) eqn:E.
  - repeat split; try discriminate. constructor; [reflexivity|exact Hns].
  - apply orb_false_iff in E. destruct E as [E1 E2]. repeat split; try assumption.
    + intro H. apply str_eqb_eq in H. congruence.
    + intro H. apply str_eqb_eq in H. congruence.
Qed.

Lemma parts_plain : forall c, Forall plain (map fix_part (filter (fun p => negb (is_nil p)) (split_on SLASH c))).
Proof.
  intros c. pose proof (split_on_noslash c) as H. induction H as [|p l Hp Hl IH]; simpl; [constructor|].
  destruct p as [|x p]; simpl; [exact IH|]. constructor; [apply fix_part_plain; [discriminate|exact Hp]|exact IH].
Qed.

(* joining plain components one after the other is seg1/seg2/... *)
Definition ends_noslash (a : list Z) : Prop := a <> [] /\ is_slash (last a 0) = false.
Lemma plain_ends_noslash : forall p, plain p -> ends_noslash p.
Proof.
  intros p [Hne [Hns _]]. split; [exact Hne|]. destruct (exists_last Hne) as [q [c ->]]. rewrite last_last.
  unfold noslash in Hns. apply Forall_app in Hns. destruct Hns as [_ H]. inversion H; subst.
  destruct (is_slash c); [discriminate|reflexivity].
Qed.
Lemma ends_noslash_app : forall a b, ends_noslash b -> ends_noslash (a ++ b).
Proof.
  intros a b [Hne H]. split; [intro E; apply app_eq_nil in E; tauto|].
  destruct (exists_last Hne) as [q [c ->]]. rewrite last_last in H. rewrite app_assoc, last_last. exact H.
Qed.
Lemma py_join_plain : forall a p, ends_noslash a -> plain p -> py_join a p = a ++ [SLASH] ++ p.
Proof.
  intros a p [Hne Hl] [_ [Hns _]]. rewrite py_join_noslash by assumption. rewrite Hl. reflexivity.
Qed.
Lemma fold_join_rel : forall ps p, plain p -> Forall plain ps -> fold_left py_join ps p = rel (p :: ps).
Proof.
  intros ps p Hp Hps. unfold rel. assert (Ha : ends_noslash p) by (apply plain_ends_noslash, Hp).
  clear Hp. revert p Ha. induction Hps as [|x ps Hx Hps IH]; intros p Ha; cbn [fold_left]; [reflexivity|].
  rewrite py_join_plain by assumption. apply IH.
  replace (p ++ [SLASH] ++ x) with ((p ++ [SLASH]) ++ x) by (now rewrite <- app_assoc).
  apply ends_noslash_app, plain_ends_noslash, Hx.
Qed.

Lemma rel_ends_noslash : forall segs, segs <> [] -> Forall plain segs -> ends_noslash (rel segs).
Proof.
  intros [|p ps] Hne H; [congruence|]. inversion H; subst. unfold rel.
  assert (Ha : ends_noslash p) by (apply plain_ends_noslash; assumption).
  clear - Ha H3. revert p Ha. induction H3 as [|x ps Hx Hps IH]; intros p Ha; cbn [fold_left]; [exact Ha|].
  apply IH. replace (p ++ [SLASH] ++ x) with ((p ++ [SLASH]) ++ x) by (now rewrite <- app_assoc).
  apply ends_noslash_app, plain_ends_noslash, Hx.
Qed.
Lemma rel_snoc : forall segs x, segs <> [] -> rel (segs ++ [x]) = rel segs ++ [SLASH] ++ x.
Proof. intros [|p ps] x H; [congruence|]. unfold rel. simpl. rewrite fold_left_app. reflexivity. Qed.

Lemma valid_class_name_rel : forall c r, valid_class_name c = Ok r ->
  exists segs, segs <> [] /\ Forall plain segs /\ r = rel segs.
Proof.
  intros c r H. unfold valid_class_name in H. destruct c as [|c0 c]; [discriminate|].
  set (c' := if last (c0 :: c) 0 =? 59 then removelast (tl (c0 :: c)) else c0 :: c) in H.
  pose proof (parts_plain c') as Hp.
  destruct (map fix_part (filter (fun p => negb (is_nil p)) (split_on SLASH c'))) as [|p ps].
  - inversion H; subst. exists [[USCORE]]. split; [discriminate|]. split; [|reflexivity].
    constructor; [|constructor]. repeat split; try discriminate. repeat constructor.
  - inversion H; subst. inversion Hp; subst. exists (p :: ps). split; [discriminate|]. split; [exact Hp|].
    apply fold_join_rel; assumption.
Qed.

(* appending to the last component *)
Lemma plain_app : forall p x, plain p -> noslash x -> x <> [] -> (forall q, p ++ x <> q ++ [46] \/ True) ->
  last (p ++ x) 0 <> 46 -> plain (p ++ x).
Proof.
  intros p x [Hne [Hns _]] Hx Hxne _ Hl. repeat split.
  - intro E. apply app_eq_nil in E. tauto.
  - apply Forall_app. split; assumption.
  - intro E. rewrite E in Hl. apply Hl. reflexivity.
  - intro E. rewrite E in Hl. apply Hl. reflexivity.
Qed.

Lemma rel_last_app : forall segs x, segs <> [] -> exists init l, segs = init ++ [l] /\ rel segs ++ x = rel (init ++ [l ++ x]).
Proof.
  intros segs x Hne. destruct (exists_last Hne) as [init [l ->]]. exists init, l. split; [reflexivity|].
  destruct init as [|p ps]; [reflexivity|].
  rewrite !rel_snoc by discriminate. rewrite <- !app_assoc. reflexivity.
Qed.

Lemma inside_append : forall out segs x, segs <> [] -> Forall plain segs -> noslash x -> x <> [] -> last x 0 <> 46 ->
  inside out (py_join out (rel segs ++ x)).
Proof.
  intros out segs x Hne Hp Hx Hxne Hl. destruct (rel_last_app segs x Hne) as [init [l [-> E]]]. rewrite E.
  exists (init ++ [l ++ x]). split; [intro H; apply app_eq_nil in H; destruct H; discriminate|]. split; [|reflexivity].
  apply Forall_app in Hp. destruct Hp as [Hi Hlp]. inversion Hlp; subst. apply Forall_app. split; [exact Hi|].
  constructor; [|constructor]. apply plain_app; try assumption; [intros; right; exact I|].
  destruct (exists_last Hxne) as [q [c ->]]. rewrite last_last in Hl. rewrite app_assoc, last_last. exact Hl.
Qed.

Lemma py_join_ends : forall a b, ends_noslash b -> ends_noslash (py_join a b).
Proof.
  intros a b Hb. unfold py_join. destruct b as [|c t]; [destruct Hb; congruence|].
  destruct (is_slash c); [exact Hb|]. destruct a as [|a0 a]; [exact Hb|].
  destruct (is_slash (last (a0 :: a) 0)); [apply ends_noslash_app, Hb|].
  replace ((a0 :: a) ++ [SLASH] ++ c :: t) with (((a0 :: a) ++ [SLASH]) ++ c :: t) by (now rewrite <- app_assoc).
  apply ends_noslash_app, Hb.
Qed.
Lemma ends_noslash_normdir : forall d, ends_noslash d -> normdir d.
Proof.
  intros d [Hne Hl]. right; right. destruct (exists_last Hne) as [q [c ->]]. rewrite last_last in Hl. exists q, c. tauto.
Qed.
Lemma py_join_app : forall a b z, b <> [] -> py_join a (b ++ z) = py_join a b ++ z.
Proof.
  intros a [|c t] z H; [congruence|]. unfold py_join. cbn [app]. destruct (is_slash c); [reflexivity|].
  destruct a as [|a0 a]; [reflexivity|]. destruct (is_slash (last (a0 :: a) 0)).
  - rewrite <- app_assoc. reflexivity.
  - rewrite <- !app_assoc. reflexivity.
Qed.
Lemma rel_nonempty : forall segs, segs <> [] -> Forall plain segs -> rel segs <> [].
Proof. intros segs H1 H2. apply (rel_ends_noslash segs H1 H2). Qed.

(* what clean_file_name (unique) returns: the directory of its argument joined with a clean base name *)
Lemma clean_file_name_shape : forall fuel fs filename r res, good_repl r ->
  clean_file_name fuel fs filename true [r] = Ok res ->
  exists base, res = py_join (fst (py_split filename)) base /\ Forall okc base.
Proof.
  intros fuel fs filename r res Hr H. unfold clean_file_name in H. unfold good_repl in Hr. rewrite Hr in H.
  destruct (py_split filename) as [path fname]. cbn [fst].
  destruct (uniq_loop fuel fs path (clean_base [r] fname) (clean_base [r] fname) 0) as [f|e] eqn:El; [|discriminate].
  inversion H; subst res. exists f. split; [reflexivity|].
  apply uniq_loop_result in El; [|lia]. destruct El as [_ [-> | [j [Hj ->]]]].
  - apply clean_base_ok, Hr.
  - apply candidate_ok; [apply clean_base_ok, Hr|lia].
Qed.

Lemma unslash_noslash : forall s, noslash (unslash s).
Proof.
  intros s. unfold noslash, unslash. apply Forall_forall. intros c Hc. apply in_map_iff in Hc.
  destruct Hc as [x [<- _]]. unfold is_slash. destruct (x =? SLASH) eqn:E; [reflexivity|now rewrite E].
Qed.

Definition created_inside (out : list Z) (c : created) : Prop :=
  match c with Dir p => inside out p | File p => inside out p end.

Theorem export_method_inside : forall fs dumped out cls short tr fs' d',
  export_method fs dumped out cls short = Ok (tr, fs', d') -> Forall (created_inside out) tr.
Proof.
  intros fs dumped out cls short tr fs' d' H. unfold export_method in H.
  destruct (valid_class_name cls) as [r|e] eqn:Ev; [|discriminate].
  destruct (valid_class_name_rel cls r Ev) as [segs [Hne [Hp ->]]].
  set (dir := py_join out (rel segs)) in *.
  assert (Hdir : ends_noslash dir) by (apply py_join_ends, rel_ends_noslash; assumption).
  destruct (clean_file_name _ fs (py_join dir (unslash short)) true [USCORE]) as [filename|e] eqn:Ec; [|discriminate].
  apply clean_file_name_shape in Ec; [|reflexivity]. destruct Ec as [base [Hres Hbase]].
  rewrite py_split_join in Hres by (try apply ends_noslash_normdir; try apply unslash_noslash; assumption).
  cbn [fst] in Hres.
  assert (Hdirin : inside out dir) by (exists segs; repeat split; assumption).
  assert (Hag : inside out (filename ++ EXT_AG)).
  { subst filename. pose proof (okc_noslash base Hbase) as Hns.
    assert (E : py_join dir base ++ EXT_AG = dir ++ [SLASH] ++ (base ++ EXT_AG)).
    { destruct Hdir as [Hd1 Hd2]. rewrite py_join_noslash by assumption. rewrite Hd2. rewrite <- !app_assoc. reflexivity. }
    rewrite E. unfold dir. rewrite <- py_join_app by (apply rel_nonempty; assumption).
    rewrite <- rel_snoc by assumption.
    exists (segs ++ [base ++ EXT_AG]). split; [intro X; apply app_eq_nil in X; destruct X; discriminate|].
    split; [|reflexivity]. apply Forall_app. split; [exact Hp|]. constructor; [|constructor].
    repeat split.
    - intro X. apply app_eq_nil in X. destruct X; discriminate.
    - apply Forall_app. split; [exact Hns|repeat constructor].
    - intro X. apply (f_equal (fun l => last l 0)) in X. unfold EXT_AG in X.
      change [46; 97; 103] with ([46; 97] ++ [103]) in X. rewrite app_assoc, last_last in X. discriminate.
    - intro X. apply (f_equal (fun l => last l 0)) in X. unfold EXT_AG in X.
      change [46; 97; 103] with ([46; 97] ++ [103]) in X. rewrite app_assoc, last_last in X. discriminate. }
  assert (Hjava : inside out (py_join out (rel segs ++ EXT_JAVA))).
  { apply inside_append; try assumption; [repeat constructor|discriminate|discriminate]. }
  destruct (existsb (str_eqb cls) dumped); inversion H; subst; repeat constructor; assumption.
Qed.

Theorem export_all_inside : forall ms fs dumped out tr e,
  export_all fs dumped out ms = (tr, e) -> Forall (created_inside out) tr.
Proof.
  induction ms as [|[cls short] rest IH]; intros fs dumped out tr e H; cbn [export_all] in H.
  - inversion H; constructor.
  - destruct (export_method fs dumped out cls short) as [[[tr1 fs'] d']|x] eqn:Em.
    + destruct (export_all fs' d' out rest) as [tr2 e2] eqn:Er. inversion H; subst.
      apply Forall_app. split; [eapply export_method_inside; exact Em|eapply IH; exact Er].
    + inversion H; constructor.
Qed.

(* a path made of plain components below [out] contains no '.', '..' or empty component after [out] *)
Theorem valid_class_name_plain : forall c r, valid_class_name c = Ok r ->
  exists segs, segs <> [] /\ Forall plain segs /\ r = rel segs.
Proof. exact valid_class_name_rel. Qed.
