(* C37 - hand-written model of the paths the decompile export creates:
   androguard/cli/main.py valid_class_name, create_directory and the three places of
   export_apps_to_format that create something (the class directory, <class>.java, <method>.ag),
   on a POSIX system.  A str is a list of code points; [fs] is the list of existing files;
   the short string of a method (EncodedMethod.get_short_string) is an input.
   Tied to the source by tools/props/c37.py. *)
From Coq Require Import ZArith List Bool.
Require Import V.Lib.Val V.Lib.Result V.Misc.CleanNameModel.
Import ListNotations.
Open Scope Z_scope.

(* str.split('/') *)
Fixpoint split_on (sep : Z) (s : list Z) : list (list Z) :=
  match s with
  | [] => [[]]
  | c :: t => if c =? sep then [] :: split_on sep t
              else match split_on sep t with h :: r => (c :: h) :: r | [] => [[c]] end
  end.

Definition S_DOT := [46].
Definition S_DOTDOT := [46; 46].
Definition is_nil (s : list Z) : bool := match s with [] => true | _ => false end.
Definition fix_part (p : list Z) : list Z :=
  if str_eqb p S_DOT || str_eqb p S_DOTDOT then USCORE :: p else p.

(* valid_class_name(class_name) *)
Definition valid_class_name (c : list Z) : result (list Z) :=
  match c with
  | [] => Err IndexError                                       (* class_name[-1] of '' *)
  | _ =>
      let c := if last c 0 =? 59 then removelast (tl c) else c in   (* class_name[1:-1] *)
      let parts := map fix_part (filter (fun p => negb (is_nil p)) (split_on SLASH c)) in
      Ok (match parts with [] => [USCORE] | p :: ps => fold_left py_join ps p end)
  end.

Definition EXT_JAVA := [46; 106; 97; 118; 97].
Definition EXT_AG := [46; 97; 103].
Definition unslash (s : list Z) : list Z := map (fun c => if c =? SLASH then USCORE else c) s.

Inductive created := Dir (p : list Z) | File (p : list Z).

(* one iteration of the loop over the encoded methods; state = (existing files, dumped classes) *)
Definition export_method (fs dumped : list (list Z)) (out cls short : list Z)
  : result (list created * list (list Z) * list (list Z)) :=
  match valid_class_name cls with
  | Err e => Err e
  | Ok rel =>
      let dir := py_join out rel in
      match clean_file_name (2 * length fs + 3) fs (py_join dir (unslash short)) true [USCORE] with
      | Err e => Err e
      | Ok filename =>
          let ag := filename ++ EXT_AG in
          if existsb (str_eqb cls) dumped
          then Ok ([Dir dir; File ag], ag :: fs, dumped)
          else let java := py_join out (rel ++ EXT_JAVA) in
               Ok ([Dir dir; File java; File ag], ag :: java :: fs, cls :: dumped)
      end
  end.

Fixpoint export_all (fs dumped : list (list Z)) (out : list Z) (ms : list (list Z * list Z))
  : list created * option err :=
  match ms with
  | [] => ([], None)
  | (cls, short) :: rest =>
      match export_method fs dumped out cls short with
      | Err e => ([], Some e)
      | Ok (tr, fs', dumped') =>
          let '(tr2, e) := export_all fs' dumped' out rest in (tr ++ tr2, e)
      end
  end.

Definition vcreated (c : created) : val :=
  match c with Dir p => VList [VZ 0; VStr p] | File p => VList [VZ 1; VStr p] end.

(* observation: ((out, limit), methods): the first [limit] creations (all when limit < 0), then the error if any *)
Definition obs_export (i : (list Z * Z) * list (list Z * list Z)) : val :=
  let '((out, limit), ms) := i in
  let '(tr, e) := export_all [] [] out ms in
  if limit <? 0 then VList (map vcreated tr ++ match e with Some x => [VErr (err_code x)] | None => [] end)
  else VList (map vcreated (firstn (Z.to_nat limit) tr)).
Definition obs_vcn (c : list Z) : val := vres VStr (valid_class_name c).
