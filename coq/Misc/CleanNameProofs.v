(* C38 - lemmas about the clean_file_name model. *)
From Coq Require Import ZArith List Bool Lia FinFun.
Require Import V.Lib.Val V.Lib.Result V.Misc.CleanNameModel.
Import ListNotations.
Open Scope Z_scope.
Ltac Zify.zify_post_hook ::= Z.to_euclidean_division_equations.

(* ---- generic list facts ---- *)
Lemma take_drop_while : forall p s, take_while p s ++ drop_while p s = s.
Proof. induction s as [|c t IH]; simpl; [reflexivity|]. destruct (p c); simpl; [now rewrite IH|reflexivity]. Qed.

Lemma Forall_take_while : forall (P : Z -> Prop) p s, Forall P s -> Forall P (take_while p s).
Proof. induction 1 as [|c t Hc Ht IH]; simpl; [constructor|]. destruct (p c); [constructor; assumption|constructor]. Qed.
Lemma Forall_drop_while : forall (P : Z -> Prop) p s, Forall P s -> Forall P (drop_while p s).
Proof. induction 1 as [|c t Hc Ht IH]; simpl; [constructor|]. destruct (p c); [assumption|constructor; assumption]. Qed.
Lemma Forall_tl : forall (P : Z -> Prop) s, Forall P s -> Forall P (tl s).
Proof. intros P s H. destruct H; simpl; [constructor|assumption]. Qed.
Lemma Forall_firstn : forall (P : Z -> Prop) n s, Forall P s -> Forall P (firstn n s).
Proof. intros P n s H. revert n. induction H as [|c t Hc Ht IH]; intros [|n]; simpl; constructor; auto. Qed.
Lemma Forall_take_while_p : forall p s, Forall (fun c => p c = true) (take_while p s).
Proof. induction s as [|c t IH]; simpl; [constructor|]. destruct (p c) eqn:E; constructor; assumption. Qed.
Lemma take_while_all : forall p s, Forall (fun c => p c = true) s -> take_while p s = s.
Proof. induction 1 as [|c t Hc Ht IH]; simpl; [reflexivity|]. rewrite Hc, IH. reflexivity. Qed.
Lemma take_while_app_stop : forall p a c b, Forall (fun x => p x = true) a -> p c = false ->
  take_while p (a ++ c :: b) = a.
Proof. induction 1 as [|x t Hx Ht IH]; intros Hc; simpl; [now rewrite Hc|]. rewrite Hx, IH by assumption. reflexivity. Qed.
Lemma drop_while_app_stop : forall p a c b, Forall (fun x => p x = true) a -> p c = false ->
  drop_while p (a ++ c :: b) = c :: b.
Proof. induction 1 as [|x t Hx Ht IH]; intros Hc; simpl; [now rewrite Hc|]. rewrite Hx. apply IH, Hc. Qed.
Lemma drop_while_all : forall p s, Forall (fun c => p c = true) s -> drop_while p s = [].
Proof. induction 1 as [|c t Hc Ht IH]; simpl; [reflexivity|]. now rewrite Hc. Qed.

Lemma zlen_app : forall a b, zlen (a ++ b) = zlen a + zlen b.
Proof. intros. unfold zlen. rewrite app_length. lia. Qed.
Lemma zlen_nonneg : forall a, 0 <= zlen a.
Proof. intros. unfold zlen. lia. Qed.
Lemma zlen_rev : forall a, zlen (rev a) = zlen a.
Proof. intros. unfold zlen. now rewrite rev_length. Qed.
Lemma zlen_firstn_le : forall n s, zlen (firstn n s) <= Z.of_nat n.
Proof. intros. unfold zlen. pose proof (firstn_le_length n s). lia. Qed.
Lemma zlen_firstn_le2 : forall n s, zlen (firstn n s) <= zlen s.
Proof. intros. unfold zlen. rewrite firstn_length. lia. Qed.

Lemma slice_to_len : forall n s, 0 <= n -> zlen (slice_to n s) <= n.
Proof.
  intros n s Hn. unfold slice_to. destruct (0 <=? n) eqn:E; [|lia].
  pose proof (zlen_firstn_le (Z.to_nat n) s). lia.
Qed.
Lemma slice_to_len2 : forall n s, zlen (slice_to n s) <= zlen s.
Proof. intros n s. unfold slice_to. destruct (0 <=? n); apply zlen_firstn_le2. Qed.
Lemma Forall_slice_to : forall (P : Z -> Prop) n s, Forall P s -> Forall P (slice_to n s).
Proof. intros P n s H. unfold slice_to. destruct (0 <=? n); apply Forall_firstn, H. Qed.

(* ---- posixpath.split / join ---- *)
Definition normdir (p : list Z) : Prop :=
  p = [] \/ (p <> [] /\ forallb is_slash p = true) \/ (exists q c, p = q ++ [c] /\ is_slash c = false).

Lemma rev_drop_while_norm : forall h, forallb is_slash h = false ->
  exists q c, rev (drop_while is_slash (rev h)) = q ++ [c] /\ is_slash c = false.
Proof.
  intros h Hh.
  assert (H : forallb is_slash (rev h) = false).
  { destruct (forallb is_slash (rev h)) eqn:E; [|reflexivity].
    rewrite forallb_forall in E. assert (forallb is_slash h = true); [|congruence].
    apply forallb_forall. intros x Hx. apply E. now apply -> in_rev. }
  clear Hh. induction (rev h) as [|c t IH]; simpl in *; [discriminate|].
  destruct (is_slash c) eqn:Ec; simpl in H.
  - apply IH, H.
  - exists (rev t), c. simpl. split; [reflexivity|assumption].
Qed.

Lemma py_split_norm : forall s, normdir (fst (py_split s)).
Proof.
  intros s. unfold py_split. simpl. destruct (forallb is_slash (split_head_raw s)) eqn:E.
  - destruct (split_head_raw s) eqn:Eh; [left; reflexivity|]. right; left. split; [discriminate|assumption].
  - right; right. apply rev_drop_while_norm, E.
Qed.

Definition noslash (b : list Z) : Prop := Forall (fun c => negb (is_slash c) = true) b.

Lemma split_of_app : forall h b, noslash b -> (h = [] \/ exists q, h = q ++ [SLASH]) ->
  split_tail (h ++ b) = b /\ split_head_raw (h ++ b) = h.
Proof.
  intros h b Hb Hh. unfold split_tail, split_head_raw. rewrite rev_app_distr.
  assert (Hrb : Forall (fun c => negb (is_slash c) = true) (rev b)) by (apply Forall_rev, Hb).
  destruct Hh as [-> | [q ->]].
  - simpl. rewrite app_nil_r. rewrite take_while_all, drop_while_all by assumption.
    rewrite rev_involutive. split; reflexivity.
  - rewrite rev_app_distr. simpl.
    rewrite take_while_app_stop, drop_while_app_stop by (try assumption; reflexivity).
    rewrite rev_involutive. simpl. rewrite rev_involutive. split; reflexivity.
Qed.

Lemma last_app_single : forall (q : list Z) c d, last (q ++ [c]) d = c.
Proof. intros. apply last_last. Qed.

Lemma forallb_slash_last : forall p d, p <> [] -> forallb is_slash p = true -> is_slash (last p d) = true.
Proof.
  intros p d Hp H. destruct (exists_last Hp) as [q [c ->]]. rewrite last_last.
  rewrite forallb_app in H. apply andb_true_iff in H. simpl in H. destruct H as [_ H].
  now rewrite andb_true_r in H.
Qed.

Lemma py_join_noslash : forall a b, noslash b -> a <> [] ->
  py_join a b = if is_slash (last a 0) then a ++ b else a ++ [SLASH] ++ b.
Proof.
  intros a b Hb Ha. unfold py_join. destruct b as [|c t].
  - destruct a; [congruence|reflexivity].
  - inversion Hb as [|? ? Hc _]; subst. destruct (is_slash c); [discriminate|].
    destruct a; [congruence|reflexivity].
Qed.

Lemma py_split_join : forall p b, normdir p -> noslash b -> py_split (py_join p b) = (p, b).
Proof.
  intros p b Hp Hb. destruct Hp as [-> | [[Hne Hall] | [q [c [-> Hc]]]]].
  - assert (py_join [] b = b) as ->.
    { unfold py_join. destruct b as [|c t]; [reflexivity|]. inversion Hb as [|? ? Hc _]; subst.
      destruct (is_slash c); [discriminate|reflexivity]. }
    unfold py_split. destruct (split_of_app [] b Hb (or_introl eq_refl)) as [Ht Hh]. simpl in Ht, Hh.
    rewrite Ht, Hh. reflexivity.
  - rewrite py_join_noslash by assumption. rewrite (forallb_slash_last p 0 Hne Hall).
    destruct (exists_last Hne) as [q [c Eq]].
    assert (c = SLASH).
    { subst p. rewrite forallb_app in Hall. apply andb_true_iff in Hall. destruct Hall as [_ H]. simpl in H.
      rewrite andb_true_r in H. unfold is_slash in H. apply Z.eqb_eq in H. exact H. }
    subst c. destruct (split_of_app p b Hb) as [Ht Hh]; [right; exists q; exact Eq|].
    unfold py_split. rewrite Ht, Hh, Hall. reflexivity.
  - rewrite py_join_noslash; [|assumption|intro H; destruct q; discriminate].
    rewrite last_last, Hc.
    replace ((q ++ [c]) ++ [SLASH] ++ b) with (((q ++ [c]) ++ [SLASH]) ++ b) by (now rewrite <- !app_assoc).
    destruct (split_of_app ((q ++ [c]) ++ [SLASH]) b Hb) as [Ht Hh]; [right; eexists; reflexivity|].
    unfold py_split. rewrite Ht, Hh.
    assert (forallb is_slash ((q ++ [c]) ++ [SLASH]) = false) as ->.
    { rewrite !forallb_app. simpl. rewrite Hc. rewrite andb_false_r. reflexivity. }
    rewrite !rev_app_distr. simpl. rewrite Hc. simpl. rewrite rev_involutive. reflexivity.
Qed.

(* ---- the cleaned base name ---- *)
Definition okc (c : Z) : Prop := reserved c = false.
Definition ends_bad (s : list Z) : bool :=
  match rev s with c :: _ => (c =? SPACE) || (c =? DOT) | [] => false end.
Definition good_repl (r : Z) : Prop := bad_replace_char r = false.

Lemma good_repl_okc : forall r, good_repl r -> okc r.
Proof. unfold good_repl, okc, bad_replace_char. intros r H. apply orb_false_iff in H. destruct H as [H _].
  apply orb_false_iff in H. tauto. Qed.
Lemma okc_dot : okc DOT. Proof. reflexivity. Qed.
Lemma okc_noslash : forall s, Forall okc s -> noslash s.
Proof.
  intros s H. unfold noslash. eapply Forall_impl; [|exact H]. intros c Hc. unfold okc, reserved in Hc.
  unfold is_slash, SLASH. destruct (c =? 47) eqn:E; [|reflexivity].
  rewrite !orb_false_iff in Hc. simpl in Hc. intuition congruence.
Qed.

Lemma sub_reserved_ok : forall r s, okc r -> Forall okc (sub_reserved [r] s).
Proof.
  intros r s Hr. unfold sub_reserved. induction s as [|c t IH]; simpl; [constructor|].
  destruct (reserved c) eqn:E; simpl; constructor; assumption.
Qed.

Lemma Forall_rpart_ext : forall (P : Z -> Prop) s, Forall P s -> Forall P (rpart_ext s).
Proof. intros P s H. unfold rpart_ext. apply Forall_rev, Forall_take_while, Forall_rev, H. Qed.
Lemma Forall_rpart_f : forall (P : Z -> Prop) s, Forall P s -> Forall P (rpart_f s).
Proof. intros P s H. unfold rpart_f. apply Forall_rev, Forall_tl, Forall_drop_while, Forall_rev, H. Qed.

Lemma truncate_ok : forall s, Forall okc s -> Forall okc (truncate s).
Proof.
  intros s H. unfold truncate. destruct (PATH_MAX_LENGTH <? zlen s); [|exact H].
  destruct (has_dot s && (zlen (rpart_ext s) + 1 <? PATH_MAX_LENGTH)).
  - apply Forall_app. split; [apply Forall_slice_to, Forall_rpart_f, H|].
    apply Forall_app. split; [constructor; [exact okc_dot|constructor]|apply Forall_rpart_ext, H].
  - apply Forall_slice_to, H.
Qed.

Lemma truncate_len : forall s, zlen (truncate s) <= PATH_MAX_LENGTH.
Proof.
  intros s. unfold truncate. destruct (PATH_MAX_LENGTH <? zlen s) eqn:E; [|lia].
  destruct (has_dot s && (zlen (rpart_ext s) + 1 <? PATH_MAX_LENGTH)) eqn:E2.
  - apply andb_true_iff in E2. destruct E2 as [_ E2]. rewrite !zlen_app.
    pose proof (slice_to_len (PATH_MAX_LENGTH - (zlen (rpart_ext s) + 1)) (rpart_f s)).
    change (zlen [DOT]) with 1. lia.
  - apply slice_to_len. unfold PATH_MAX_LENGTH. lia.
Qed.

Lemma sub_tail_ok : forall r s, okc r -> Forall okc s -> Forall okc (sub_tail [r] s).
Proof.
  intros r s Hr H. unfold sub_tail. destruct (rev s) as [|c t] eqn:E; [exact H|].
  destruct ((c =? SPACE) || (c =? DOT)); [|exact H].
  apply Forall_app. split; [|constructor; [exact Hr|constructor]].
  apply Forall_rev. apply Forall_rev in H. rewrite E in H. inversion H; assumption.
Qed.
Lemma sub_tail_len : forall r s, zlen (sub_tail [r] s) = zlen s.
Proof.
  intros r s. unfold sub_tail. destruct (rev s) as [|c t] eqn:E; [reflexivity|].
  destruct ((c =? SPACE) || (c =? DOT)); [|reflexivity].
  rewrite zlen_app, zlen_rev. rewrite <- (zlen_rev s), E. unfold zlen. simpl length. lia.
Qed.
Lemma sub_tail_ends : forall r s, good_repl r -> ends_bad (sub_tail [r] s) = false.
Proof.
  intros r s Hr. unfold sub_tail. destruct (rev s) as [|c t] eqn:E.
  - unfold ends_bad. now rewrite E.
  - destruct ((c =? SPACE) || (c =? DOT)) eqn:Ec.
    + unfold ends_bad. rewrite rev_app_distr. simpl. unfold good_repl, bad_replace_char in Hr.
      rewrite !orb_false_iff in Hr. rewrite !orb_false_iff. tauto.
    + unfold ends_bad. rewrite E. exact Ec.
Qed.

Lemma clean_base_ok : forall r s, good_repl r -> Forall okc (clean_base [r] s).
Proof.
  intros r s Hr. unfold clean_base. apply sub_tail_ok; [apply good_repl_okc, Hr|].
  apply truncate_ok, sub_reserved_ok, good_repl_okc, Hr.
Qed.
Lemma clean_base_len : forall r s, zlen (clean_base [r] s) <= PATH_MAX_LENGTH.
Proof. intros. unfold clean_base. rewrite sub_tail_len. apply truncate_len. Qed.
Lemma clean_base_ends : forall r s, good_repl r -> ends_bad (clean_base [r] s) = false.
Proof. intros. unfold clean_base. apply sub_tail_ends. assumption. Qed.

(* ---- the decimal suffix ---- *)
Definition is_digit (c : Z) : Prop := 48 <= c <= 57.
Lemma dec_aux_digits : forall f k, 0 <= k -> Forall is_digit (dec_aux f k).
Proof.
  induction f as [|f IH]; intros k Hk; cbn [dec_aux].
  - constructor; [|constructor]. unfold is_digit. lia.
  - destruct (k <? 10) eqn:E.
    + constructor; [|constructor]. unfold is_digit. lia.
    + apply Forall_app. split; [apply IH; lia|].
      constructor; [|constructor]. unfold is_digit. lia.
Qed.
Lemma dec_aux_len : forall f k, zlen (dec_aux f k) <= Z.of_nat f + 1.
Proof.
  induction f as [|f IH]; intros k; cbn [dec_aux].
  - unfold zlen. simpl length. lia.
  - destruct (k <? 10); [unfold zlen; simpl length; lia|]. rewrite zlen_app. specialize (IH (k / 10)).
    change (zlen [48 + k mod 10]) with 1. lia.
Qed.
Lemma dec_aux_last : forall f k, 0 <= k -> exists q, dec_aux f k = q ++ [48 + k mod 10].
Proof.
  destruct f as [|f]; intros k Hk; cbn [dec_aux].
  - exists []. reflexivity.
  - destruct (k <? 10) eqn:E.
    + exists []. cbn [app]. f_equal. lia.
    + eexists. reflexivity.
Qed.
Lemma dec_len : forall k, 0 <= k < 2 ^ 200 -> zlen (dec k) <= 201.
Proof.
  intros k Hk. unfold dec. pose proof (dec_aux_len (Z.to_nat (Z.log2 k)) k).
  assert (Z.log2 k < 200).
  { destruct (Z.eq_dec k 0) as [->|]; [reflexivity|]. apply Z.log2_lt_pow2; lia. }
  pose proof (Z.log2_nonneg k). lia.
Qed.

Lemma digit_okc : forall c, is_digit c -> okc c.
Proof.
  intros c [H1 H2]. unfold okc, reserved.
  repeat (apply orb_false_iff; split); try (apply Z.eqb_neq; lia). apply andb_false_iff. right. apply Z.leb_gt. lia.
Qed.
Lemma dec_digits : forall k, 0 <= k -> Forall is_digit (dec k).
Proof. intros. apply dec_aux_digits. assumption. Qed.

Lemma ends_bad_app : forall x y, y <> [] -> ends_bad (x ++ y) = ends_bad y.
Proof.
  intros x y Hy. unfold ends_bad. rewrite rev_app_distr. destruct (rev y) as [|c t] eqn:E; [|reflexivity].
  apply (f_equal (@rev Z)) in E. rewrite rev_involutive in E. contradiction.
Qed.

Lemma has_dot_nonempty : forall s, has_dot s = true -> s <> [].
Proof. intros [|c t] H; [discriminate|discriminate]. Qed.

Lemma rpart_ext_ends : forall s, has_dot s = true -> ends_bad s = false ->
  rpart_ext s <> [] /\ ends_bad (rpart_ext s) = false.
Proof.
  intros s Hd He. unfold rpart_ext, ends_bad in *. rewrite rev_involutive.
  destruct (rev s) as [|c t] eqn:E.
  - apply (f_equal (@rev Z)) in E. rewrite rev_involutive in E. simpl in E. subst s. discriminate.
  - pose proof He as He2. apply orb_false_iff in He2. destruct He2 as [_ He2]. cbn [take_while]. rewrite He2.
    cbn [negb]. split; [|exact He].
    cbn [rev]. intro H. apply app_eq_nil in H. destruct H as [_ H]. discriminate.
Qed.

Lemma candidate_ok : forall s k, Forall okc s -> 0 <= k -> Forall okc (candidate s k).
Proof.
  intros s k Hs Hk. unfold candidate.
  assert (Hsuf : Forall okc (USCORE :: dec k)).
  { constructor; [reflexivity|]. eapply Forall_impl; [|apply dec_digits, Hk]. apply digit_okc. }
  destruct (has_dot s && _).
  - apply Forall_app. split; [apply Forall_slice_to, Forall_rpart_f, Hs|].
    apply Forall_app. split; [exact Hsuf|].
    apply Forall_app. split; [constructor; [exact okc_dot|constructor]|apply Forall_rpart_ext, Hs].
  - apply Forall_app. split; [apply Forall_slice_to, Hs|exact Hsuf].
Qed.

Lemma candidate_len : forall s k, 0 <= k < 2 ^ 200 -> zlen (candidate s k) <= PATH_MAX_LENGTH.
Proof.
  intros s k Hk. unfold candidate.
  assert (Hsuf : 0 <= zlen (USCORE :: dec k) <= 202).
  { pose proof (dec_len k Hk). unfold zlen in *. simpl length. lia. }
  destruct (has_dot s && _) eqn:E.
  - apply andb_true_iff in E. destruct E as [_ E]. rewrite !zlen_app. change (zlen [DOT]) with 1.
    pose proof (slice_to_len (PATH_MAX_LENGTH - (zlen (rpart_ext s) + 1 + zlen (USCORE :: dec k))) (rpart_f s)).
    lia.
  - rewrite zlen_app.
    pose proof (slice_to_len (PATH_MAX_LENGTH - zlen (USCORE :: dec k)) s). unfold PATH_MAX_LENGTH in *. lia.
Qed.

Lemma candidate_ends : forall s k, ends_bad s = false -> 0 <= k -> ends_bad (candidate s k) = false.
Proof.
  intros s k Hs Hk. unfold candidate. destruct (has_dot s && _) eqn:E.
  - apply andb_true_iff in E. destruct E as [Hd _]. destruct (rpart_ext_ends s Hd Hs) as [Hne He].
    rewrite !app_assoc. rewrite ends_bad_app by exact Hne. exact He.
  - destruct (dec_aux_last (Z.to_nat (Z.log2 k)) k Hk) as [q Hq]. unfold dec. rewrite Hq.
    change (USCORE :: q ++ [48 + k mod 10]) with ((USCORE :: q) ++ [48 + k mod 10]).
    rewrite !app_assoc. rewrite ends_bad_app by discriminate.
    unfold ends_bad. cbn [rev app]. apply orb_false_iff. unfold SPACE, DOT. split; apply Z.eqb_neq; lia.
Qed.

(* ---- the uniqueness loop ---- *)
Lemma isfile_In : forall fs p, isfile fs p = true <-> In p fs.
Proof.
  intros fs p. unfold isfile. rewrite existsb_exists. split.
  - intros [x [Hx He]]. unfold str_eqb in He.
    assert (p = x); [|subst; assumption].
    clear Hx. revert x He. induction p as [|a p IH]; intros [|b x] He; simpl in He; try discriminate; [reflexivity|].
    apply andb_true_iff in He. destruct He as [H1 H2]. apply Z.eqb_eq in H1. subst. f_equal. apply IH, H2.
  - intros H. exists p. split; [exact H|]. unfold str_eqb. clear H. induction p as [|a p IH]; simpl; [reflexivity|].
    rewrite Z.eqb_refl, IH. reflexivity.
Qed.

Lemma uniq_loop_result : forall fuel fs path orig fname k res,
  uniq_loop fuel fs path orig fname k = Ok res -> 0 <= k ->
  isfile fs (py_join path res) = false /\
  (res = fname \/ exists j, k <= j < k + Z.of_nat fuel /\ res = candidate orig j).
Proof.
  induction fuel as [|f IH]; intros fs path orig fname k res H Hk; [discriminate|].
  cbn [uniq_loop] in H. destruct (isfile fs (py_join path fname)) eqn:E.
  - apply IH in H; [|lia]. destruct H as [H1 H2]. split; [exact H1|]. right.
    destruct H2 as [-> | [j [Hj ->]]]; [exists k; split; [lia|reflexivity]|exists j; split; [lia|reflexivity]].
  - inversion H; subst. split; [exact E|left; reflexivity].
Qed.

(* ---- the whole function ---- *)
Theorem clean_file_name_spec : forall fuel fs filename unique r res,
  good_repl r -> Z.of_nat fuel <= 2 ^ 200 ->
  clean_file_name fuel fs filename unique [r] = Ok res ->
  exists base, py_split res = (fst (py_split filename), base) /\
    Forall okc base /\ ends_bad base = false /\ zlen base <= PATH_MAX_LENGTH /\
    (unique = true -> ~ In res fs).
Proof.
  intros fuel fs filename unique r res Hr Hfuel H. unfold clean_file_name in H.
  unfold good_repl in Hr. rewrite Hr in H.
  pose proof (py_split_norm filename) as Hnorm.
  destruct (py_split filename) as [path fname] eqn:Es. cbn [fst] in *.
  pose proof (clean_base_ok r fname Hr) as Hok.
  pose proof (clean_base_len r fname) as Hlen.
  pose proof (clean_base_ends r fname Hr) as Hends.
  destruct unique.
  - destruct (uniq_loop fuel fs path (clean_base [r] fname) (clean_base [r] fname) 0) as [f|e] eqn:El; [|discriminate].
    inversion H; subst res. clear H.
    apply uniq_loop_result in El; [|lia]. destruct El as [Hnot Hwhich].
    assert (Hf : Forall okc f /\ ends_bad f = false /\ zlen f <= PATH_MAX_LENGTH).
    { destruct Hwhich as [-> | [j [Hj ->]]]; [tauto|].
      split; [apply candidate_ok; [assumption|lia]|]. split; [apply candidate_ends; [assumption|lia]|].
      apply candidate_len. lia. }
    destruct Hf as [H1 [H2 H3]]. exists f. split; [apply py_split_join; [assumption|apply okc_noslash, H1]|].
    repeat split; try assumption. intros _ Hin. apply isfile_In in Hin. congruence.
  - inversion H; subst res. exists (clean_base [r] fname).
    split; [apply py_split_join; [assumption|apply okc_noslash, Hok]|].
    repeat split; try assumption. discriminate.
Qed.

Theorem clean_file_name_bad_replace : forall fuel fs filename unique c t,
  bad_replace_char c = true -> clean_file_name fuel fs filename unique (c :: t) = Err ValueError.
Proof. intros. unfold clean_file_name. rewrite H. reflexivity. Qed.

(* ---- termination of the uniqueness loop: 2 * |fs| + 3 probes always suffice ---- *)
Definition dvalue (l : list Z) : Z := fold_left (fun a c => a * 10 + (c - 48)) l 0.
Lemma dvalue_snoc : forall q d, dvalue (q ++ [d]) = dvalue q * 10 + (d - 48).
Proof. intros. unfold dvalue. rewrite fold_left_app. reflexivity. Qed.
Lemma dec_aux_val : forall f k, 0 <= k < 10 ^ (Z.of_nat f + 1) -> dvalue (dec_aux f k) = k.
Proof.
  induction f as [|f IH]; intros k Hk; cbn [dec_aux].
  - change (10 ^ (Z.of_nat 0 + 1)) with 10 in Hk. unfold dvalue. cbn [fold_left]. lia.
  - destruct (k <? 10) eqn:E; [unfold dvalue; cbn [fold_left]; lia|].
    rewrite dvalue_snoc, IH; [lia|].
    replace (Z.of_nat (S f) + 1) with (Z.succ (Z.of_nat f + 1)) in Hk by lia.
    rewrite Z.pow_succ_r in Hk by lia. lia.
Qed.
Lemma dec_val : forall k, 0 <= k -> dvalue (dec k) = k.
Proof.
  intros k Hk. unfold dec. apply dec_aux_val. split; [assumption|].
  destruct (Z.eq_dec k 0) as [->|Hn]; [reflexivity|].
  rewrite Z2Nat.id by apply Z.log2_nonneg.
  pose proof (Z.log2_spec k ltac:(lia)) as [_ H]. eapply Z.lt_le_trans; [exact H|].
  replace (Z.succ (Z.log2 k)) with (Z.log2 k + 1) by lia.
  apply Z.pow_le_mono_l. pose proof (Z.log2_nonneg k). lia.
Qed.
Lemma dec_inj : forall k k', 0 <= k -> 0 <= k' -> dec k = dec k' -> k = k'.
Proof. intros k k' H H' E. rewrite <- (dec_val k H), <- (dec_val k' H'), E. reflexivity. Qed.

Definition is_digit_b (c : Z) : bool := (48 <=? c) && (c <=? 57).
Lemma suffix_inj : forall X X' D D', Forall is_digit D -> Forall is_digit D' ->
  X ++ USCORE :: D = X' ++ USCORE :: D' -> D = D'.
Proof.
  intros X X' D D' HD HD' E. apply (f_equal (@rev Z)) in E. rewrite !rev_app_distr in E. cbn [rev] in E.
  rewrite <- !app_assoc in E. cbn [app] in E.
  assert (Hd : forall L, Forall is_digit L -> Forall (fun x => is_digit_b x = true) (rev L)).
  { intros L HL. apply Forall_rev. eapply Forall_impl; [|exact HL]. intros c [H1 H2]. unfold is_digit_b.
    apply andb_true_iff. split; apply Z.leb_le; assumption. }
  apply (f_equal (take_while is_digit_b)) in E.
  rewrite !take_while_app_stop in E by (auto; reflexivity).
  apply (f_equal (@rev Z)) in E. rewrite !rev_involutive in E. exact E.
Qed.

Definition branch1 (orig : list Z) (k : Z) : bool :=
  has_dot orig && (zlen (rpart_ext orig) + 1 + zlen (USCORE :: dec k) <? PATH_MAX_LENGTH).

Lemma candidate_inj : forall orig k k', 0 <= k -> 0 <= k' -> branch1 orig k = branch1 orig k' ->
  candidate orig k = candidate orig k' -> k = k'.
Proof.
  intros orig k k' Hk Hk' Hb E. unfold candidate in E. fold (branch1 orig k) in E. fold (branch1 orig k') in E.
  rewrite <- Hb in E. apply dec_inj; try assumption.
  destruct (branch1 orig k).
  - rewrite !app_assoc in E. apply app_inv_tail in E. apply app_inv_tail in E.
    eapply suffix_inj; [apply dec_digits, Hk|apply dec_digits, Hk'|exact E].
  - eapply suffix_inj; [apply dec_digits, Hk|apply dec_digits, Hk'|exact E].
Qed.

Lemma py_join_inj : forall p b b', noslash b -> noslash b' -> py_join p b = py_join p b' -> b = b'.
Proof.
  intros p b b' Hb Hb' E. destruct p as [|c p].
  - assert (H : forall x, noslash x -> py_join [] x = x).
    { intros [|y x] Hx; [reflexivity|]. unfold py_join. inversion Hx as [|? ? Hy _]; subst.
      destruct (is_slash y); [discriminate|reflexivity]. }
    rewrite !H in E by assumption. exact E.
  - rewrite !py_join_noslash in E by (try assumption; discriminate).
    destruct (is_slash (last (c :: p) 0)); [apply app_inv_head in E; exact E|].
    apply app_inv_head in E. apply app_inv_head in E. exact E.
Qed.

Lemma uniq_loop_err : forall fuel fs path orig fname k e,
  uniq_loop fuel fs path orig fname k = Err e ->
  forall j, k <= j < k + Z.of_nat fuel - 1 -> In (py_join path (candidate orig j)) fs.
Proof.
  induction fuel as [|f IH]; intros fs path orig fname k e H j Hj; [lia|].
  cbn [uniq_loop] in H. destruct (isfile fs (py_join path fname)) eqn:E; [|discriminate].
  destruct (Z.eq_dec j k) as [->|Hne].
  - destruct f as [|f]; [lia|]. cbn [uniq_loop] in H.
    destruct (isfile fs (py_join path (candidate orig k))) eqn:E2; [|discriminate]. apply isfile_In, E2.
  - eapply IH; [exact H|lia].
Qed.

Lemma filter_split_length : forall (p : Z -> bool) l,
  (length (filter p l) + length (filter (fun x => negb (p x)) l) = length l)%nat.
Proof. induction l as [|a l IH]; simpl; [reflexivity|]. destruct (p a); simpl; lia. Qed.

Lemma NoDup_map_on : forall (g : Z -> list Z) l, NoDup l ->
  (forall a b, In a l -> In b l -> g a = g b -> a = b) -> NoDup (map g l).
Proof.
  intros g l H. induction H as [|a l Ha Hl IH]; intros Hinj; simpl; [constructor|].
  constructor.
  - intro Hin. apply in_map_iff in Hin. destruct Hin as [b [Hb1 Hb2]].
    assert (b = a) by (apply Hinj; [right; assumption|left; reflexivity|assumption]). subst. contradiction.
  - apply IH. intros x y Hx Hy. apply Hinj; right; assumption.
Qed.

Lemma class_bound : forall fs path orig (p : Z -> bool) n,
  Forall okc orig ->
  (forall j, 0 <= j < Z.of_nat n -> In (py_join path (candidate orig j)) fs) ->
  (forall a b, p a = true -> p b = true -> branch1 orig a = branch1 orig b) ->
  (length (filter p (map Z.of_nat (seq 0 n))) <= length fs)%nat.
Proof.
  intros fs path orig p n Hok Hin Hsame.
  set (L := filter p (map Z.of_nat (seq 0 n))).
  assert (HL : forall a, In a L -> 0 <= a < Z.of_nat n /\ p a = true).
  { intros a Ha. apply filter_In in Ha. destruct Ha as [Ha Hp]. split; [|exact Hp].
    apply in_map_iff in Ha. destruct Ha as [x [<- Hx]]. apply in_seq in Hx. lia. }
  assert (HN : NoDup L).
  { apply NoDup_filter. apply FinFun.Injective_map_NoDup; [intros x y; lia|apply seq_NoDup]. }
  rewrite <- (map_length (fun j => py_join path (candidate orig j)) L).
  apply NoDup_incl_length.
  - apply NoDup_map_on; [exact HN|]. intros a b Ha Hb E.
    destruct (HL a Ha) as [Ha1 Ha2]. destruct (HL b Hb) as [Hb1 Hb2].
    apply py_join_inj in E; try (apply okc_noslash, candidate_ok; [assumption|lia]).
    apply candidate_inj in E; try lia. apply Hsame; assumption.
  - intros x Hx. apply in_map_iff in Hx. destruct Hx as [j [<- Hj]]. apply Hin. apply (HL j Hj).
Qed.

Theorem uniq_loop_terminates : forall fs path orig,
  Forall okc orig ->
  exists res, uniq_loop (2 * length fs + 3) fs path orig orig 0 = Ok res.
Proof.
  intros fs path orig Hok.
  destruct (uniq_loop (2 * length fs + 3) fs path orig orig 0) as [res|e] eqn:E; [eexists; reflexivity|].
  exfalso.
  assert (Hin : forall j, 0 <= j < Z.of_nat (2 * length fs + 2) -> In (py_join path (candidate orig j)) fs).
  { intros j Hj. eapply uniq_loop_err; [exact E|lia]. }
  pose proof (class_bound fs path orig (branch1 orig) _ Hok Hin) as H1.
  pose proof (class_bound fs path orig (fun x => negb (branch1 orig x)) _ Hok Hin) as H2.
  pose proof (filter_split_length (branch1 orig) (map Z.of_nat (seq 0 (2 * length fs + 2)))) as H3.
  rewrite map_length, seq_length in H3.
  assert (length (filter (branch1 orig) (map Z.of_nat (seq 0 (2 * length fs + 2)))) <= length fs)%nat.
  { apply H1. intros a b Ha Hb. congruence. }
  assert (length (filter (fun x => negb (branch1 orig x)) (map Z.of_nat (seq 0 (2 * length fs + 2)))) <= length fs)%nat.
  { apply H2. intros a b Ha Hb. apply negb_true_iff in Ha, Hb. congruence. }
  lia.
Qed.

Theorem clean_file_name_terminates : forall fs filename unique r,
  good_repl r -> exists res, clean_file_name (2 * length fs + 3) fs filename unique [r] = Ok res.
Proof.
  intros fs filename unique r Hr. unfold clean_file_name. unfold good_repl in Hr. rewrite Hr.
  destruct (py_split filename) as [path fname]. destruct unique; [|eexists; reflexivity].
  destruct (uniq_loop_terminates fs path (clean_base [r] fname) (clean_base_ok r fname Hr)) as [res ->].
  eexists; reflexivity.
Qed.
