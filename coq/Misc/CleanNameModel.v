(* C38 - hand-written model of androguard/misc.py clean_file_name (force_nt=False on a POSIX
   system: os.path is posixpath).  A str is a list of code points.  The file system is the list
   [fs] of paths for which os.path.isfile answers True.  The uniqueness loop runs on fuel.
   Tied to the source by tools/props/c38.py. *)
From Coq Require Import ZArith List Bool.
Require Import V.Lib.Val V.Lib.Result.
Import ListNotations.
Open Scope Z_scope.

Definition SLASH := 47.
Definition DOT := 46.
Definition SPACE := 32.
Definition USCORE := 95.
Definition PATH_MAX_LENGTH := 230.

Definition is_slash (c : Z) : bool := c =? SLASH.
Definition str_eqb (a b : list Z) : bool := list_eqb Z.eqb a b.

(* the class of reserved characters: < > : dquote / backslash | ? * and U+0000..U+001F *)
Definition reserved (c : Z) : bool :=
  (c =? 60) || (c =? 62) || (c =? 58) || (c =? 34) || (c =? 47) || (c =? 92) || (c =? 124) ||
  (c =? 63) || (c =? 42) || ((0 <=? c) && (c <=? 31)).
(* the same class plus space and dot (the test applied to the replacement string) *)
Definition bad_replace_char (c : Z) : bool := reserved c || (c =? SPACE) || (c =? DOT).

Fixpoint take_while (p : Z -> bool) (s : list Z) : list Z :=
  match s with c :: t => if p c then c :: take_while p t else [] | [] => [] end.
Fixpoint drop_while (p : Z -> bool) (s : list Z) : list Z :=
  match s with c :: t => if p c then drop_while p t else s | [] => [] end.

(* posixpath.split *)
Definition split_tail (s : list Z) : list Z := rev (take_while (fun c => negb (is_slash c)) (rev s)).
Definition split_head_raw (s : list Z) : list Z := rev (drop_while (fun c => negb (is_slash c)) (rev s)).
Definition py_split (s : list Z) : list Z * list Z :=
  let h := split_head_raw s in
  (if forallb is_slash h then h else rev (drop_while is_slash (rev h)), split_tail s).

(* posixpath.join(a, b) *)
Definition py_join (a b : list Z) : list Z :=
  match b with
  | c :: _ => if is_slash c then b else
      match a with [] => b | _ => if is_slash (last a 0) then a ++ b else a ++ [SLASH] ++ b end
  | [] => match a with [] => b | _ => if is_slash (last a 0) then a ++ b else a ++ [SLASH] ++ b end
  end.

Fixpoint starts_with (p s : list Z) : bool :=
  match p, s with
  | [], _ => true
  | a :: p', b :: s' => (a =? b) && starts_with p' s'
  | _ :: _, [] => false
  end.
(* re.match(r'(CON|PRN|AUX|NUL|COM[1-9]|LPT[1-9])', fname) *)
Definition digit19 (c : Z) : bool := (49 <=? c) && (c <=? 57).
Definition reserved_name (s : list Z) : bool :=
  starts_with [67; 79; 78] s || starts_with [80; 82; 78] s || starts_with [65; 85; 88] s ||
  starts_with [78; 85; 76] s ||
  (starts_with [67; 79; 77] s && match skipn 3 s with c :: _ => digit19 c | [] => false end) ||
  (starts_with [76; 80; 84] s && match skipn 3 s with c :: _ => digit19 c | [] => false end).

(* re.sub(reserved class, replace, fname) *)
Definition sub_reserved (repl s : list Z) : list Z :=
  flat_map (fun c => if reserved c then repl else [c]) s.

(* str.rpartition('.') : (before, found, after) *)
Definition has_dot (s : list Z) : bool := existsb (Z.eqb DOT) s.
Definition rpart_ext (s : list Z) : list Z := rev (take_while (fun c => negb (c =? DOT)) (rev s)).
Definition rpart_f (s : list Z) : list Z := rev (tl (drop_while (fun c => negb (c =? DOT)) (rev s))).

(* s[:n] with Python's meaning of a negative bound *)
Definition zlen (s : list Z) : Z := Z.of_nat (length s).
Definition slice_to (n : Z) (s : list Z) : list Z :=
  if 0 <=? n then firstn (Z.to_nat n) s else firstn (Z.to_nat (zlen s + n)) s.

Definition truncate (fname : list Z) : list Z :=
  if PATH_MAX_LENGTH <? zlen fname then
    let ext := rpart_ext fname in
    if has_dot fname && (zlen ext + 1 <? PATH_MAX_LENGTH)
    then slice_to (PATH_MAX_LENGTH - (zlen ext + 1)) (rpart_f fname) ++ [DOT] ++ ext
    else slice_to PATH_MAX_LENGTH fname
  else fname.

(* re.sub(r'[ .]\Z', replace, fname) *)
Definition sub_tail (repl s : list Z) : list Z :=
  match rev s with
  | c :: r => if (c =? SPACE) || (c =? DOT) then rev r ++ repl else s
  | [] => s
  end.

(* str(counter) for counter >= 0 *)
Fixpoint dec_aux (fuel : nat) (k : Z) : list Z :=
  match fuel with
  | O => [48 + k mod 10]
  | S f => if k <? 10 then [48 + k] else dec_aux f (k / 10) ++ [48 + k mod 10]
  end.
Definition dec (k : Z) : list Z := dec_aux (Z.to_nat (Z.log2 k)) k.

Definition candidate (origname : list Z) (counter : Z) : list Z :=
  let suffix := USCORE :: dec counter in
  let ext := rpart_ext origname in
  if has_dot origname && (zlen ext + 1 + zlen suffix <? PATH_MAX_LENGTH)
  then slice_to (PATH_MAX_LENGTH - (zlen ext + 1 + zlen suffix)) (rpart_f origname) ++ suffix ++ [DOT] ++ ext
  else slice_to (PATH_MAX_LENGTH - zlen suffix) origname ++ suffix.

Definition isfile (fs : list (list Z)) (p : list Z) : bool := existsb (str_eqb p) fs.

Fixpoint uniq_loop (fuel : nat) (fs : list (list Z)) (path origname fname : list Z) (counter : Z)
  : result (list Z) :=
  match fuel with
  | O => Err OutOfFuel
  | S f =>
      if isfile fs (py_join path fname)
      then uniq_loop f fs path origname (candidate origname counter) (counter + 1)
      else Ok fname
  end.

(* the cleaned base name, before the final join *)
Definition clean_base (repl fname : list Z) : list Z :=
  let fname := if reserved_name fname then fname ++ repl else fname in
  let fname := sub_reserved repl fname in
  let fname := truncate fname in
  sub_tail repl fname.

Definition clean_file_name (fuel : nat) (fs : list (list Z)) (filename : list Z) (unique : bool)
  (repl : list Z) : result (list Z) :=
  match repl with
  | c :: _ => if bad_replace_char c then Err ValueError else
      let '(path, fname) := py_split filename in
      let fname := clean_base repl fname in
      if unique then
        match uniq_loop fuel fs path fname fname 0 with
        | Ok f => Ok (py_join path f)
        | Err e => Err e
        end
      else Ok (py_join path fname)
  | [] =>
      let '(path, fname) := py_split filename in
      let fname := clean_base repl fname in
      if unique then
        match uniq_loop fuel fs path fname fname 0 with
        | Ok f => Ok (py_join path f)
        | Err e => Err e
        end
      else Ok (py_join path fname)
  end.

(* observation for the correspondence check: ((fs, filename), (unique, replace)) *)
Definition obs_clean (i : (list (list Z) * list Z) * (bool * list Z)) : val :=
  let '((fs, filename), (unique, repl)) := i in
  vres VStr (clean_file_name (2 * length fs + 3) fs filename unique repl).
Definition obs_split (s : list Z) : val :=
  let '(a, b) := py_split s in VList [VStr a; VStr b].
Definition obs_join (i : list Z * list Z) : val := VStr (py_join (fst i) (snd i)).
