(* C35 - the loops of coq/Misc/TermModel.v (and the string reader of coq/Dex/StringsModel.v) end within a number of
   iterations that is linear in the number of bytes: the fuel they are given is never exhausted *)
From Coq Require Import ZArith List Bool Lia ZifyBool.
Require Import V.Lib.Val V.Lib.Result V.Dex.LebModel V.Misc.TermModel V.Dex.StringsModel V.Dex.StringsProofs.
Import ListNotations.
Open Scope Z_scope.

(* ---------------------------------------------------------------- every read consumes at least one byte *)
Definition shorter (r l : list Z) : Prop := (length r < length l)%nat.
Lemma get_byte_consumes l b r : get_byte l = Ok (b, r) -> shorter r l.
Proof. destruct l as [|x l]; [discriminate|]. intros H. injection H as <- <-. unfold shorter. cbn [length]. lia. Qed.
Lemma read_u_consumes l v r : read_u l = Ok (v, r) -> shorter r l.
Proof.
  unfold read_u, shorter. destruct l as [|b0 l]; [discriminate|]. cbn [get_byte bind]. destruct (b0 >? 127); [|intros H; injection H as _ <-; cbn [length]; lia].
  destruct l as [|b1 l]; [discriminate|]. cbn [get_byte bind]. destruct (b1 >? 127); [|intros H; injection H as _ <-; cbn [length]; lia].
  destruct l as [|b2 l]; [discriminate|]. cbn [get_byte bind]. destruct (b2 >? 127); [|intros H; injection H as _ <-; cbn [length]; lia].
  destruct l as [|b3 l]; [discriminate|]. cbn [get_byte bind]. destruct (b3 >? 127); [|intros H; injection H as _ <-; cbn [length]; lia].
  destruct l as [|b4 l]; [discriminate|]. cbn [get_byte bind]. intros H; injection H as _ <-; cbn [length]; lia.
Qed.
Lemma read_up1_consumes l v r : read_up1 l = Ok (v, r) -> shorter r l.
Proof. unfold read_up1. destruct (read_u l) as [[v' r']|] eqn:E; [|discriminate]. cbn [bind]. intros H. injection H as _ <-. eapply read_u_consumes; eauto. Qed.

Definition rest_of (x : result (Z * list Z)) : list Z := match x with Ok p => snd p | Err _ => [] end.
Lemma read_s_loop_consumes : forall n res sh l v r, (0 < n)%nat -> read_s_loop n res sh l = Ok (v, r) -> shorter r l.
Proof.
  induction n as [|n IH]; intros res sh l v r Hn H; [clear H; lia|].
  destruct l as [|b l]; [discriminate|].
  cbn [read_s_loop get_byte bind] in H.
  destruct (Z.land b 128 =? 0).
  - assert (E : l = r) by exact (f_equal rest_of H). subst r. clear. unfold shorter. cbn [length]. lia.
  - destruct n as [|n'].
    + cbn [read_s_loop] in H. assert (E : l = r) by exact (f_equal rest_of H). subst r. clear. unfold shorter; cbn [length]. lia.
    + apply IH in H; [|clear; lia]. unfold shorter in *. cbn [length]. lia.
Qed.

Lemma read_s_consumes l v r : read_s l = Ok (v, r) -> shorter r l.
Proof. apply read_s_loop_consumes. lia. Qed.
Lemma u32_consumes l v r : u32 l = Ok (v, r) -> shorter r l.
Proof. unfold u32. destruct l as [|a [|b [|c [|d l]]]]; try discriminate. intros H. assert (E : l = r) by exact (f_equal rest_of H). subst r. unfold shorter. cbn [length]. lia. Qed.

Definition rest2 {A} (x : result (A * list Z)) : list Z := match x with Ok p => snd p | Err _ => [] end.
Ltac step_read H :=
  match type of H with
  | bind (read_u ?x) _ = _ => let E := fresh "E" in destruct (read_u x) as [[? ?]|] eqn:E; [apply read_u_consumes in E; cbn [bind] in H | discriminate]
  | bind (read_up1 ?x) _ = _ => let E := fresh "E" in destruct (read_up1 x) as [[? ?]|] eqn:E; [apply read_up1_consumes in E; cbn [bind] in H | discriminate]
  | bind (read_s ?x) _ = _ => let E := fresh "E" in destruct (read_s x) as [[? ?]|] eqn:E; [apply read_s_consumes in E; cbn [bind] in H | discriminate]
  end.
Lemma dbg_args_not_longer op l a r : dbg_args op l = Ok (a, r) -> (length r <= length l)%nat.
Proof.
  unfold dbg_args. intros H.
  destruct ((op =? 1) || (op =? 5) || (op =? 6)).
  { step_read H. assert (X : l0 = r) by exact (f_equal rest2 H). subst. unfold shorter in *. lia. }
  destruct (op =? 2).
  { step_read H. assert (X : l0 = r) by exact (f_equal rest2 H). subst. unfold shorter in *. lia. }
  destruct (op =? 3).
  { do 3 step_read H. assert (X : l2 = r) by exact (f_equal rest2 H). subst. unfold shorter in *. lia. }
  destruct (op =? 4).
  { do 4 step_read H. assert (X : l3 = r) by exact (f_equal rest2 H). subst. unfold shorter in *. lia. }
  destruct (op =? 9).
  { step_read H. assert (X : l0 = r) by exact (f_equal rest2 H). subst. unfold shorter in *. lia. }
  assert (X : l = r) by exact (f_equal rest2 H). subst. lia.
Qed.

(* the straight-line readers never report exhausted fuel: they have none *)
Lemma get_byte_no_oof l : get_byte l <> Err OutOfFuel.
Proof. destruct l; discriminate. Qed.
Lemma read_u_no_oof l : read_u l <> Err OutOfFuel.
Proof.
  unfold read_u. destruct l as [|b0 l]; [discriminate|]. cbn [get_byte bind]. destruct (b0 >? 127); [|discriminate].
  destruct l as [|b1 l]; [discriminate|]. cbn [get_byte bind]. destruct (b1 >? 127); [|discriminate].
  destruct l as [|b2 l]; [discriminate|]. cbn [get_byte bind]. destruct (b2 >? 127); [|discriminate].
  destruct l as [|b3 l]; [discriminate|]. cbn [get_byte bind]. destruct (b3 >? 127); [|discriminate].
  destruct l as [|b4 l]; discriminate.
Qed.
Lemma read_up1_no_oof l : read_up1 l <> Err OutOfFuel.
Proof. unfold read_up1. pose proof (read_u_no_oof l). destruct (read_u l) as [[? ?]|e]; cbn [bind]; congruence. Qed.
Lemma read_s_loop_no_oof : forall n res sh l, read_s_loop n res sh l <> Err OutOfFuel.
Proof.
  induction n as [|n IH]; intros res sh l; [discriminate|]. destruct l as [|b l]; [discriminate|]. cbn [read_s_loop get_byte bind].
  destruct (Z.land b 128 =? 0); [discriminate | apply IH].
Qed.
Lemma read_s_no_oof l : read_s l <> Err OutOfFuel.
Proof. apply read_s_loop_no_oof. Qed.
Lemma u32_no_oof l : u32 l <> Err OutOfFuel.
Proof. unfold u32. destruct l as [|a [|b [|c [|d l]]]]; discriminate. Qed.
Ltac no_oof_step :=
  match goal with
  | |- bind (read_u ?x) _ <> _ => let E := fresh "E" in pose proof (read_u_no_oof x); destruct (read_u x) as [[? ?]|?] eqn:E; cbn [bind]; [|congruence]
  | |- bind (read_up1 ?x) _ <> _ => let E := fresh "E" in pose proof (read_up1_no_oof x); destruct (read_up1 x) as [[? ?]|?] eqn:E; cbn [bind]; [|congruence]
  | |- bind (read_s ?x) _ <> _ => let E := fresh "E" in pose proof (read_s_no_oof x); destruct (read_s x) as [[? ?]|?] eqn:E; cbn [bind]; [|congruence]
  end.
Lemma dbg_args_no_oof op l : dbg_args op l <> Err OutOfFuel.
Proof.
  unfold dbg_args.
  destruct ((op =? 1) || (op =? 5) || (op =? 6)); [no_oof_step; discriminate|].
  destruct (op =? 2); [no_oof_step; discriminate|].
  destruct (op =? 3); [do 3 no_oof_step; discriminate|].
  destruct (op =? 4); [do 4 no_oof_step; discriminate|].
  destruct (op =? 9); [no_oof_step; discriminate|]. discriminate.
Qed.

(* ---------------------------------------------------------------- DebugInfoItem *)
Lemma params_fuel : forall fuel n l, (length l < fuel)%nat -> params fuel n l <> Err OutOfFuel.
Proof.
  induction fuel as [|f IH]; intros n l Hf; [lia|]. cbn [params]. destruct (n <=? 0); [discriminate|].
  pose proof (read_up1_no_oof l) as N. destruct (read_up1 l) as [[v r]|e] eqn:E; cbn [bind]; [|congruence].
  apply read_up1_consumes in E. unfold shorter in E. specialize (IH (n - 1) r).
  destruct (params f (n - 1) r) as [[vs r']|e'] eqn:E2; cbn [bind]; [discriminate|].
  intros X. apply IH; [lia | congruence].
Qed.
Lemma dbg_loop_fuel : forall fuel op l, (length l < fuel)%nat -> dbg_loop fuel op l <> Err OutOfFuel.
Proof.
  induction fuel as [|f IH]; intros op l Hf; [lia|]. cbn [dbg_loop]. destruct (op =? 0); [discriminate|].
  pose proof (dbg_args_no_oof op l) as N. destruct (dbg_args op l) as [[a r1]|e] eqn:E1; cbn [bind]; [|congruence].
  apply dbg_args_not_longer in E1.
  pose proof (get_byte_no_oof r1) as N2. destruct (get_byte r1) as [[op' r2]|e] eqn:E2; cbn [bind]; [|congruence].
  apply get_byte_consumes in E2. unfold shorter in E2.
  specialize (IH op' r2). destruct (dbg_loop f op' r2) as [[rest r3]|e] eqn:E3; cbn [bind]; [discriminate|].
  intros X. apply IH; [lia | congruence].
Qed.
Theorem debug_info_ends l : debug_info l <> Err OutOfFuel.
Proof.
  unfold debug_info.
  pose proof (read_u_no_oof l) as N1. destruct (read_u l) as [[line r1]|e]; cbn [bind]; [|congruence].
  pose proof (read_u_no_oof r1) as N2. destruct (read_u r1) as [[np r2]|e]; cbn [bind]; [|congruence].
  pose proof (params_fuel (S (length r2)) np r2 (Nat.lt_succ_diag_r _)) as N3.
  destruct (params (S (length r2)) np r2) as [[ps r3]|e]; cbn [bind]; [|congruence].
  pose proof (get_byte_no_oof r3) as N4. destruct (get_byte r3) as [[op r4]|e]; cbn [bind]; [|congruence].
  pose proof (dbg_loop_fuel (S (length r4)) op r4 (Nat.lt_succ_diag_r _)) as N5.
  destruct (dbg_loop (S (length r4)) op r4) as [[codes r5]|e]; cbn [bind]; [discriminate | congruence].
Qed.

(* ---------------------------------------------------------------- HiddenApiClassDataItem *)
Lemma offsets_loop_fuel : forall fuel section i osize l, (length l < fuel)%nat -> offsets_loop fuel section i osize l <> Err OutOfFuel.
Proof.
  induction fuel as [|f IH]; intros section i osize l Hf; [lia|]. cbn [offsets_loop].
  destruct (negb (4 + 4 * i <? section)); [discriminate|]. destruct (negb (osize =? 0) && (osize <=? i)); [discriminate|].
  pose proof (u32_no_oof l) as N. destruct (u32 l) as [[off r]|e] eqn:E; cbn [bind]; [|congruence].
  apply u32_consumes in E. unfold shorter in E. apply IH. lia.
Qed.
Lemma flags_loop_fuel : forall fuel n l, (length l < fuel)%nat -> flags_loop fuel n l <> Err OutOfFuel.
Proof.
  induction fuel as [|f IH]; intros n l Hf; [lia|]. cbn [flags_loop]. destruct (n <=? 0); [discriminate|].
  pose proof (read_u_no_oof l) as N. destruct (read_u l) as [[fl r]|e] eqn:E; cbn [bind]; [|congruence].
  apply read_u_consumes in E. unfold shorter in E.
  destruct ((6 <? Z.land fl 7) || (2 <? Z.shiftr fl 3)); [discriminate|].
  specialize (IH (n - 1) r). destruct (flags_loop f (n - 1) r) as [[rest r']|e] eqn:E2; cbn [bind]; [discriminate|].
  intros X. apply IH; [lia | congruence].
Qed.
Theorem hidden_api_ends l : hidden_api l <> Err OutOfFuel.
Proof.
  unfold hidden_api.
  pose proof (u32_no_oof l) as N1. destruct (u32 l) as [[section r1]|e]; cbn [bind]; [|congruence].
  pose proof (offsets_loop_fuel (S (length r1)) section 0 0 r1 (Nat.lt_succ_diag_r _)) as N2.
  destruct (offsets_loop (S (length r1)) section 0 0 r1) as [[osize r2]|e]; cbn [bind]; [|congruence].
  pose proof (flags_loop_fuel (S (length r2)) osize r2 (Nat.lt_succ_diag_r _)) as N3.
  destruct (flags_loop (S (length r2)) osize r2) as [[fl r3]|e]; cbn [bind]; [discriminate | congruence].
Qed.

(* ---------------------------------------------------------------- ARSCHeader *)
Lemma dropz_len : forall l n, 0 <= n -> len (dropz n l) = Z.max 0 (len l - n).
Proof.
  unfold len. induction l as [|x l IH]; intros n Hn; cbn [dropz length]; [lia|].
  destruct (n <=? 0) eqn:E; [cbn [length]; lia|]. rewrite IH by lia. lia.
Qed.
Lemma hdr_some l t : hdr l = Some t -> 8 <= len l.
Proof. unfold hdr, len. destruct l as [|a [|b [|c [|d [|e [|f [|g [|h r]]]]]]]]; try discriminate. intros _. cbn [length]. lia. Qed.
Lemma arsc_loop_fuel : forall fuel buf cur, 0 <= cur -> (Z.to_nat (len buf - cur) < fuel)%nat -> arsc_loop fuel buf cur <> Err OutOfFuel.
Proof.
  induction fuel as [|f IH]; intros buf cur Hc Hf; [lia|]. cbn [arsc_loop].
  destruct (hdr (dropz cur buf)) as [[[ty hs] sz]|] eqn:E; [|discriminate].
  apply hdr_some in E. rewrite dropz_len in E by exact Hc.
  match goal with |- (if ?c then _ else _) <> _ => destruct c end; [discriminate|]. apply IH; lia.
Qed.
Theorem arsc_header_ends buf start expected : 0 <= start -> arsc_header buf start expected <> Err OutOfFuel.
Proof.
  intros Hs. unfold arsc_header. destruct (len buf <? start + 8); [discriminate|].
  pose proof (arsc_loop_fuel (arsc_fuel buf start) buf start Hs) as N.
  destruct (arsc_loop (arsc_fuel buf start) buf start) as [[[[ty hs] sz] cur]|e]; cbn [bind].
  - repeat match goal with |- (if ?c then _ else _) <> _ => destruct c; [discriminate|] end. discriminate.
  - intros X. apply N; [unfold arsc_fuel; lia | congruence].
Qed.
(* a header that is accepted makes the chunk loop advance: the chunk ends at least eight bytes after its start *)
Theorem arsc_header_progress buf start expected ty hs sz st pos :
  arsc_header buf start expected = Ok [ty; hs; sz; st; pos] -> st = start /\ start + 8 <= st + sz.
Proof.
  unfold arsc_header. destruct (len buf <? start + 8); [discriminate|].
  destruct (arsc_loop (arsc_fuel buf start) buf start) as [[[[ty' hs'] sz'] cur]|e]; cbn [bind]; [|discriminate].
  destruct (negb (expected =? 0) && negb (ty' =? expected)); [discriminate|].
  destruct (hs' <? 8) eqn:E1; [discriminate|]. destruct (sz' <? 8) eqn:E2; [discriminate|]. destruct (sz' <? hs') eqn:E3; [discriminate|].
  intros H. assert (X : [ty'; hs'; sz'; start; cur + 8] = [ty; hs; sz; st; pos]) by congruence.
  assert (sz' = sz) by congruence. assert (start = st) by congruence. subst. split; [reflexivity | lia].
Qed.

(* ---------------------------------------------------------------- read_null_terminated_string *)
Theorem read_nts_ends rest pos : read_nts rest pos <> Err OutOfFuel.
Proof. rewrite read_nts_spec. unfold nts_spec. destruct (has0 rest); discriminate. Qed.
