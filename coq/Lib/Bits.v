(* Bit operations with constant masks and shifts, as arithmetic. *)
From Coq Require Import ZArith Lia Bool.
Require Import V.Lib.Sweep.
Open Scope Z_scope.
Ltac Zify.zify_post_hook ::= Z.to_euclidean_division_equations.

Lemma land_ones_mod x k : 0 <= k -> Z.land x (Z.ones k) = x mod 2 ^ k.
Proof. intros. apply Z.land_ones; lia. Qed.
Lemma land127 x : Z.land x 127 = x mod 128.
Proof. change 127 with (Z.ones 7). rewrite Z.land_ones by lia. reflexivity. Qed.
Lemma land15 x : Z.land x 15 = x mod 16.
Proof. change 15 with (Z.ones 4). rewrite Z.land_ones by lia. reflexivity. Qed.
Lemma land255 x : Z.land x 255 = x mod 256.
Proof. change 255 with (Z.ones 8). rewrite Z.land_ones by lia. reflexivity. Qed.
Lemma land_ffff x : Z.land x 65535 = x mod 65536.
Proof. change 65535 with (Z.ones 16). rewrite Z.land_ones by lia. reflexivity. Qed.
Lemma land_u32 x : Z.land x 4294967295 = x mod 4294967296.
Proof. change 4294967295 with (Z.ones 32). rewrite Z.land_ones by lia. reflexivity. Qed.
Lemma land_u31 x : Z.land 2147483647 x = x mod 2147483648.
Proof. rewrite Z.land_comm. change 2147483647 with (Z.ones 31). rewrite Z.land_ones by lia. reflexivity. Qed.
Lemma land128 x : 0 <= x < 256 -> Z.land x 128 = if x <? 128 then 0 else 128.
Proof.
  intros H.
  assert (A : all8 (fun x => Z.land x 128 =? (if x <? 128 then 0 else 128)) = true) by (vm_compute; reflexivity).
  apply Z.eqb_eq. exact (all8_spec _ A x H).
Qed.
Lemma shr_div x k : 0 <= k -> Z.shiftr x k = x / 2 ^ k.
Proof. intros. apply Z.shiftr_div_pow2; lia. Qed.
Lemma shl_mul x k : 0 <= k -> Z.shiftl x k = x * 2 ^ k.
Proof. intros. apply Z.shiftl_mul_pow2; lia. Qed.
Lemma shr7 x : Z.shiftr x 7 = x / 128.
Proof. rewrite Z.shiftr_div_pow2 by lia. reflexivity. Qed.

Lemma high_bits_zero a k n : 0 <= a < 2 ^ k -> k <= n -> Z.testbit a n = false.
Proof.
  intros [Ha Hk] Hn. destruct (Z.eq_dec a 0) as [->|Hnz]; [apply Z.bits_0|].
  apply Z.bits_above_log2; [lia|]. assert (Z.log2 a < k) by (apply Z.log2_lt_pow2; lia). lia.
Qed.
(* lor of disjoint bit fields is addition *)
Lemma lor_shl_add a b k : 0 <= k -> 0 <= a < 2 ^ k -> Z.lor a (Z.shiftl b k) = a + b * 2 ^ k.
Proof.
  intros Hk Ha. rewrite <- Z.shiftl_mul_pow2 by lia.
  assert (H0 : Z.land a (Z.shiftl b k) = 0).
  { apply Z.bits_inj'. intros n Hn. rewrite Z.land_spec, Z.bits_0. destruct (Z.ltb_spec n k).
    - rewrite Z.shiftl_spec_low by lia. apply andb_false_r.
    - rewrite (high_bits_zero a k n) by lia. reflexivity. }
  rewrite <- Z.lxor_lor by exact H0. symmetry. apply Z.add_nocarry_lxor. exact H0.
Qed.
Lemma lor_mul_add a b k : 0 <= k -> 0 <= a < 2 ^ k -> Z.lor a (b * 2 ^ k) = a + b * 2 ^ k.
Proof. intros. rewrite <- lor_shl_add by lia. rewrite Z.shiftl_mul_pow2 by lia. reflexivity. Qed.

(* the same with the power of two given as a literal, so that [lia] sees only constants *)
Lemma lor_shl_c a b k p : p = 2 ^ k -> 0 <= k -> 0 <= a < p -> Z.lor a (Z.shiftl b k) = a + b * p.
Proof. intros -> Hk Ha. apply lor_shl_add; assumption. Qed.
Lemma shl_c x k p : p = 2 ^ k -> 0 <= k -> Z.shiftl x k = x * p.
Proof. intros -> Hk. apply Z.shiftl_mul_pow2; lia. Qed.
Lemma shr_c x k p : p = 2 ^ k -> 0 <= k -> Z.shiftr x k = x / p.
Proof. intros -> Hk. apply Z.shiftr_div_pow2; lia. Qed.
Ltac lorc k p := rewrite (lor_shl_c _ _ k p eq_refl) by lia.
Ltac shlc k p := rewrite (shl_c _ k p eq_refl) by lia.
Ltac shrc k p := rewrite (shr_c _ k p eq_refl) by lia.
