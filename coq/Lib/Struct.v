(* Python's struct module for the little-endian integer formats B b H h I i L l Q q:
   unpack of a byte string of exactly the right size, pack with the range check that raises struct.error. *)
From Coq Require Import ZArith List Bool Lia.
Require Import V.Lib.Val V.Lib.Result.
Import ListNotations.
Open Scope Z_scope.
Ltac Zify.zify_post_hook ::= Z.to_euclidean_division_equations.

Inductive fspec := FU (n : nat) | FS (n : nat).        (* unsigned / signed field of n bytes *)
Definition fsize (s : fspec) : nat := match s with FU n | FS n => n end.

Fixpoint lu (l : list Z) : Z := match l with [] => 0 | b :: t => b + 256 * lu t end.
Definition width (n : nat) : Z := 8 * Z.of_nat n.
Definition ls (l : list Z) : Z :=
  if 2 ^ (width (length l) - 1) <=? lu l then lu l - 2 ^ width (length l) else lu l.
Fixpoint lbytes (n : nat) (x : Z) : list Z := match n with O => [] | S n' => x mod 256 :: lbytes n' (x / 256) end.

Definition unpack_field (s : fspec) (bs : list Z) : Z := match s with FU _ => lu bs | FS _ => ls bs end.
Fixpoint unpack_go (specs : list fspec) (bs : list Z) : result (list Z) :=
  match specs with
  | [] => match bs with [] => Ok [] | _ => Err StructError end
  | s :: r =>
      if (length bs <? fsize s)%nat then Err StructError
      else match unpack_go r (skipn (fsize s) bs) with
           | Ok vs => Ok (unpack_field s (firstn (fsize s) bs) :: vs)
           | Err e => Err e
           end
  end.
Definition unpack (specs : list fspec) (bs : list Z) : result (list Z) := unpack_go specs bs.

Definition in_range (s : fspec) (v : Z) : bool :=
  match s with
  | FU n => (0 <=? v) && (v <? 2 ^ width n)
  | FS n => (- 2 ^ (width n - 1) <=? v) && (v <? 2 ^ (width n - 1))
  end.
Definition pack_field (s : fspec) (v : Z) : result (list Z) :=
  if in_range s v then Ok (lbytes (fsize s) (v mod 2 ^ width (fsize s))) else Err StructError.
Fixpoint pack (specs : list fspec) (vs : list Z) : result (list Z) :=
  match specs, vs with
  | [], [] => Ok []
  | s :: r, v :: t =>
      match pack_field s v with
      | Err e => Err e
      | Ok b => match pack r t with Ok bs => Ok (b ++ bs) | Err e => Err e end
      end
  | _, _ => Err StructError
  end.

(* ---- facts ---- *)
Definition is_bytes (l : list Z) : Prop := Forall (fun b => 0 <= b < 256) l.
Lemma lu_range : forall l, is_bytes l -> 0 <= lu l < 2 ^ width (length l).
Proof.
  induction 1 as [|b l Hb Hl IH]; unfold width in *; cbn [lu length]; [simpl; lia|].
  replace (8 * Z.of_nat (S (length l))) with (8 + 8 * Z.of_nat (length l)) by lia.
  rewrite Z.pow_add_r by lia. change (2 ^ 8) with 256. lia.
Qed.
Lemma lbytes_ok : forall n x, is_bytes (lbytes n x) /\ length (lbytes n x) = n.
Proof. induction n as [|n IH]; intros x; cbn [lbytes]; [split; [constructor|reflexivity]|].
  destruct (IH (x / 256)) as [H1 H2]. split; [constructor; [lia|exact H1]|cbn [length]; now rewrite H2]. Qed.
Lemma lbytes_lu : forall l, is_bytes l -> lbytes (length l) (lu l) = l.
Proof.
  induction 1 as [|b l Hb Hl IH]; [reflexivity|]. cbn [length lbytes lu]. f_equal; [lia|].
  replace ((b + 256 * lu l) / 256) with (lu l) by lia. exact IH.
Qed.
Lemma lu_lbytes : forall n x, 0 <= x < 2 ^ width n -> lu (lbytes n x) = x.
Proof.
  induction n as [|n IH]; intros x Hx; cbn [lbytes lu]; [unfold width in Hx; simpl in Hx; lia|].
  rewrite IH; [lia|]. unfold width in *. replace (8 * Z.of_nat (S n)) with (8 + 8 * Z.of_nat n) in Hx by lia.
  rewrite Z.pow_add_r in Hx by lia. change (2 ^ 8) with 256 in Hx. lia.
Qed.
(* packing what was unpacked from a field of the same kind gives the bytes back *)
Lemma pack_unpack_field : forall s bs, is_bytes bs -> length bs = fsize s -> (0 < fsize s)%nat ->
  pack_field s (unpack_field s bs) = Ok bs.
Proof.
  intros s bs Hb Hl Hp. pose proof (lu_range bs Hb) as Hr. rewrite Hl in Hr. unfold pack_field.
  set (W := width (fsize s)) in *. assert (HW : 8 <= W) by (unfold W, width; lia).
  assert (Hp2 : 2 ^ W = 2 * 2 ^ (W - 1)) by (replace W with (1 + (W - 1)) at 1 by lia; rewrite Z.pow_add_r by lia; reflexivity).
  assert (Hpos : 0 < 2 ^ (W - 1)) by (apply Z.pow_pos_nonneg; lia).
  destruct s as [n|n]; cbn [fsize unpack_field in_range] in *; fold W.
  - replace ((0 <=? lu bs) && (lu bs <? 2 ^ W)) with true by (symmetry; apply andb_true_iff; split; [apply Z.leb_le|apply Z.ltb_lt]; lia).
    rewrite Z.mod_small by lia. rewrite <- Hl. now rewrite lbytes_lu.
  - unfold ls. rewrite Hl. fold W. destruct (2 ^ (W - 1) <=? lu bs) eqn:E.
    + apply Z.leb_le in E.
      replace ((- 2 ^ (W - 1) <=? lu bs - 2 ^ W) && (lu bs - 2 ^ W <? 2 ^ (W - 1))) with true
        by (symmetry; apply andb_true_iff; split; [apply Z.leb_le|apply Z.ltb_lt]; lia).
      replace ((lu bs - 2 ^ W) mod 2 ^ W) with (lu bs) by (apply (Z.mod_unique_pos _ _ (-1)); lia).
      rewrite <- Hl. now rewrite lbytes_lu.
    + apply Z.leb_gt in E.
      replace ((- 2 ^ (W - 1) <=? lu bs) && (lu bs <? 2 ^ (W - 1))) with true
        by (symmetry; apply andb_true_iff; split; [apply Z.leb_le|apply Z.ltb_lt]; lia).
      rewrite Z.mod_small by lia. rewrite <- Hl. now rewrite lbytes_lu.
Qed.
