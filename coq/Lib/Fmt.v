(* Decimal and hexadecimal rendering of integers ('%d', '%X', '%08X', '%f' of an exact fraction) with the
   parsing functions that say what a rendered text denotes, and the lemmas relating the two. *)
From Coq Require Import ZArith List Bool Lia.
Import ListNotations.
Open Scope Z_scope.
Ltac Zify.zify_post_hook ::= Z.to_euclidean_division_equations.

(* ---- digits in a base 2..16, most significant first ---- *)
Definition digit_char (upper : bool) (d : Z) : Z :=
  if d <? 10 then 48 + d else (if upper then 55 else 87) + d.
Fixpoint digits_aux (fuel : nat) (base k : Z) : list Z :=
  match fuel with
  | O => [k mod base]
  | S f => if k <? base then [k] else digits_aux f base (k / base) ++ [k mod base]
  end.
(* fuel log2 k is enough for every base >= 2 *)
Definition digits (base k : Z) : list Z := digits_aux (Z.to_nat (Z.log2 k)) base k.
Definition dvalue (base : Z) (l : list Z) : Z := fold_left (fun a d => a * base + d) l 0.

Definition dec (k : Z) : list Z := map (digit_char false) (digits 10 k).              (* '%d' % k, k >= 0 *)
Definition hexU (k : Z) : list Z := map (digit_char true) (digits 16 k).              (* '%X' % k *)
Definition pad0 (n : nat) (s : list Z) : list Z := repeat 48 (n - length s) ++ s.
Definition hex8 (k : Z) : list Z := pad0 8 (hexU k).                                   (* '%08X' % k *)
Definition hex2 (k : Z) : list Z := pad0 2 (hexU k).                                   (* '%02X' % k *)
Definition sdec (k : Z) : list Z := if k <? 0 then 45 :: dec (- k) else dec k.         (* '%d' % k *)

Lemma dvalue_snoc : forall b q d, dvalue b (q ++ [d]) = dvalue b q * b + d.
Proof. intros. unfold dvalue. rewrite fold_left_app. reflexivity. Qed.

Lemma digits_aux_val : forall b f k, 2 <= b -> 0 <= k < b ^ (Z.of_nat f + 1) -> dvalue b (digits_aux f b k) = k.
Proof.
  intros b. induction f as [|f IH]; intros k Hb Hk; cbn [digits_aux].
  - change (Z.of_nat 0 + 1) with 1 in Hk. rewrite Z.pow_1_r in Hk. unfold dvalue. cbn [fold_left]. rewrite Z.mod_small by lia. lia.
  - destruct (k <? b) eqn:E; [unfold dvalue; cbn [fold_left]; lia|].
    rewrite dvalue_snoc, IH; [rewrite Z.mul_comm; symmetry; apply Z.div_mod; lia|assumption|].
    replace (Z.of_nat (S f) + 1) with (Z.succ (Z.of_nat f + 1)) in Hk by lia.
    rewrite Z.pow_succ_r in Hk by lia. split; [apply Z.div_pos; lia|]. apply Z.div_lt_upper_bound; lia.
Qed.
Lemma digits_val : forall b k, 2 <= b -> 0 <= k -> dvalue b (digits b k) = k.
Proof.
  intros b k Hb Hk. unfold digits. apply digits_aux_val; [assumption|]. split; [assumption|].
  destruct (Z.eq_dec k 0) as [->|Hn]; [apply Z.pow_pos_nonneg; lia|].
  rewrite Z2Nat.id by apply Z.log2_nonneg.
  pose proof (Z.log2_spec k ltac:(lia)) as [_ H]. eapply Z.lt_le_trans; [exact H|].
  replace (Z.succ (Z.log2 k)) with (Z.log2 k + 1) by lia.
  apply Z.pow_le_mono_l. pose proof (Z.log2_nonneg k). lia.
Qed.
Lemma digits_aux_range : forall b f k, 2 <= b -> 0 <= k -> Forall (fun d => 0 <= d < b) (digits_aux f b k).
Proof.
  intros b. induction f as [|f IH]; intros k Hb Hk; cbn [digits_aux].
  - constructor; [|constructor]. apply Z.mod_pos_bound. lia.
  - destruct (k <? b) eqn:E; [constructor; [lia|constructor]|].
    apply Forall_app. split; [apply IH; [assumption|apply Z.div_pos; lia]|].
    constructor; [|constructor]. apply Z.mod_pos_bound. lia.
Qed.
Lemma digits_range : forall b k, 2 <= b -> 0 <= k -> Forall (fun d => 0 <= d < b) (digits b k).
Proof. intros. apply digits_aux_range; assumption. Qed.
Lemma digits_aux_len : forall b f k, (1 <= length (digits_aux f b k) <= S f)%nat.
Proof.
  intros b. induction f as [|f IH]; intros k; cbn [digits_aux]; [simpl; lia|].
  destruct (k <? b); [simpl; lia|]. rewrite app_length. specialize (IH (k / b)). simpl length. lia.
Qed.
(* a number below b^n has at most n digits *)
Lemma digits_aux_len_bound : forall b f k n, 2 <= b -> 0 <= k < b ^ Z.of_nat n -> (1 <= n)%nat ->
  (length (digits_aux f b k) <= n)%nat.
Proof.
  intros b. induction f as [|f IH]; intros k n Hb Hk Hn; cbn [digits_aux]; [simpl; lia|].
  destruct (k <? b) eqn:E; [simpl; lia|]. rewrite app_length. simpl length.
  destruct n as [|[|n]]; [lia| |].
  - change (Z.of_nat 1) with 1 in Hk. rewrite Z.pow_1_r in Hk. lia.
  - assert ((length (digits_aux f b (k / b)) <= S n)%nat); [|lia]. apply IH; [assumption| |lia].
    replace (Z.of_nat (S (S n))) with (Z.succ (Z.of_nat (S n))) in Hk by lia. rewrite Z.pow_succ_r in Hk by lia.
    split; [apply Z.div_pos; lia|]. apply Z.div_lt_upper_bound; lia.
Qed.

(* what a text of digit characters denotes *)
Definition char_digit (c : Z) : Z :=
  if (48 <=? c) && (c <=? 57) then c - 48 else if (65 <=? c) && (c <=? 70) then c - 55
  else if (97 <=? c) && (c <=? 102) then c - 87 else -1.
Definition text_value (base : Z) (s : list Z) : Z := dvalue base (map char_digit s).

Lemma char_digit_char : forall u d, 0 <= d < 16 -> char_digit (digit_char u d) = d.
Proof.
  intros u d Hd. unfold digit_char, char_digit. destruct (d <? 10) eqn:E.
  - replace ((48 <=? 48 + d) && (48 + d <=? 57)) with true by (symmetry; apply andb_true_iff; split; apply Z.leb_le; lia). lia.
  - destruct u.
    + replace ((48 <=? 55 + d) && (55 + d <=? 57)) with false by (symmetry; apply andb_false_iff; right; apply Z.leb_gt; lia).
      replace ((65 <=? 55 + d) && (55 + d <=? 70)) with true by (symmetry; apply andb_true_iff; split; apply Z.leb_le; lia). lia.
    + replace ((48 <=? 87 + d) && (87 + d <=? 57)) with false by (symmetry; apply andb_false_iff; right; apply Z.leb_gt; lia).
      replace ((65 <=? 87 + d) && (87 + d <=? 70)) with false by (symmetry; apply andb_false_iff; right; apply Z.leb_gt; lia).
      replace ((97 <=? 87 + d) && (87 + d <=? 102)) with true by (symmetry; apply andb_true_iff; split; apply Z.leb_le; lia). lia.
Qed.
Lemma map_char_digit : forall u b l, 2 <= b <= 16 -> Forall (fun d => 0 <= d < b) l ->
  map char_digit (map (digit_char u) l) = l.
Proof.
  intros u b l Hb H. induction H as [|d l Hd Hl IH]; simpl; [reflexivity|]. rewrite char_digit_char by lia. now rewrite IH.
Qed.
Lemma dvalue_zeros : forall b n l, dvalue b (repeat 0 n ++ l) = dvalue b l.
Proof.
  intros b n l. unfold dvalue. rewrite fold_left_app. f_equal. induction n as [|n IH]; simpl; [reflexivity|]. exact IH.
Qed.

Lemma map_repeat_ : forall (f : Z -> Z) x n, map f (repeat x n) = repeat (f x) n.
Proof. induction n as [|n IH]; simpl; [reflexivity|now rewrite IH]. Qed.

Theorem dec_value : forall k, 0 <= k -> text_value 10 (dec k) = k.
Proof.
  intros k Hk. unfold text_value, dec. rewrite (map_char_digit false 10) by (try lia; apply digits_range; lia).
  apply digits_val; lia.
Qed.
Theorem hex8_value : forall k, 0 <= k -> text_value 16 (hex8 k) = k.
Proof.
  intros k Hk. unfold text_value, hex8, pad0, hexU. rewrite map_app, map_repeat_. change (char_digit 48) with 0.
  rewrite dvalue_zeros. rewrite (map_char_digit true 16) by (try lia; apply digits_range; lia). apply digits_val; lia.
Qed.
Theorem hex8_length : forall k, 0 <= k < 2 ^ 32 -> length (hex8 k) = 8%nat.
Proof.
  intros k Hk. unfold hex8, pad0, hexU. rewrite app_length, repeat_length, map_length.
  assert ((length (digits 16 k) <= 8)%nat); [|lia]. unfold digits.
  apply digits_aux_len_bound; [lia| |lia]. change (16 ^ Z.of_nat 8) with (2 ^ 32). exact Hk.
Qed.
Theorem sdec_value : forall k, (if k <? 0 then match sdec k with 45 :: t => - text_value 10 t | _ => 0 end
                                else text_value 10 (sdec k)) = k.
Proof.
  intros k. unfold sdec. destruct (k <? 0) eqn:E; [rewrite dec_value by lia; lia|apply dec_value; lia].
Qed.
