(* Finite sweeps: decide a boolean predicate on every 8- or 16-bit value by computation and
   lift the result to a universally quantified statement.  Ranges are built as 256 x 256 so
   that no large [nat] literal is ever written. *)
From Coq Require Import ZArith List Bool Lia.
Import ListNotations.
Open Scope Z_scope.
Ltac Zify.zify_post_hook ::= Z.to_euclidean_division_equations.

Definition r256 : list Z := map Z.of_nat (seq 0 256).
Definition all8 (P : Z -> bool) : bool := forallb P r256.
Definition all16 (P : Z -> bool) : bool :=
  forallb (fun h => forallb (fun l => P (h * 256 + l)) r256) r256.

Lemma r256_in : forall x, 0 <= x < 256 -> In x r256.
Proof.
  intros x H. unfold r256. apply in_map_iff. exists (Z.to_nat x). split; [lia|].
  apply in_seq. lia.
Qed.

Lemma all8_spec : forall P, all8 P = true -> forall x, 0 <= x < 256 -> P x = true.
Proof.
  intros P H x Hx. unfold all8 in H. rewrite forallb_forall in H. apply H, r256_in, Hx.
Qed.

Lemma all16_spec : forall P, all16 P = true -> forall x, 0 <= x < 65536 -> P x = true.
Proof.
  intros P H x Hx. unfold all16 in H. rewrite forallb_forall in H.
  assert (Hh : In (x / 256) r256) by (apply r256_in; lia).
  specialize (H _ Hh). rewrite forallb_forall in H.
  assert (Hl : In (x mod 256) r256) by (apply r256_in; lia).
  specialize (H _ Hl). replace (x / 256 * 256 + x mod 256) with x in H by lia. exact H.
Qed.

(* two nested byte sweeps, for predicates of two independent bytes *)
Definition all8x8 (P : Z -> Z -> bool) : bool := forallb (fun a => forallb (fun b => P a b) r256) r256.
Lemma all8x8_spec : forall P, all8x8 P = true ->
  forall a b, 0 <= a < 256 -> 0 <= b < 256 -> P a b = true.
Proof.
  intros P H a b Ha Hb. unfold all8x8 in H. rewrite forallb_forall in H.
  specialize (H _ (r256_in _ Ha)). rewrite forallb_forall in H. apply H, r256_in, Hb.
Qed.
