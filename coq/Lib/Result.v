(* Error monad shared by all models.  The error enum mirrors the Python exception classes
   the harness canonicalises to (see Val.v for the numeric codes). *)
From Coq Require Import ZArith List.
Require Import V.Lib.Val.
Open Scope Z_scope.

Inductive err :=
| StructError | InvalidInstruction | ValueError | IndexError | KeyError | TypeError
| OutOfFuel | EOFError | ResParserError | FileNotPresent | RecursionError | NameError
| UnicodeError | AssertionError | OverflowError | OtherError.

Definition err_code (e : err) : Z :=
  match e with
  | StructError => E_StructError | InvalidInstruction => E_InvalidInstruction
  | ValueError => E_ValueError | IndexError => E_IndexError | KeyError => E_KeyError
  | TypeError => E_TypeError | OutOfFuel => E_OutOfFuel | EOFError => E_EOF
  | ResParserError => E_ResParserError | FileNotPresent => E_FileNotPresent
  | RecursionError => E_RecursionError | NameError => E_Other
  | UnicodeError => E_UnicodeError | AssertionError => E_AssertionError
  | OverflowError => E_OverflowError | OtherError => E_Other
  end.

Inductive result (A : Type) := Ok (a : A) | Err (e : err).
Arguments Ok {A}. Arguments Err {A}.

Definition bind {A B} (r : result A) (f : A -> result B) : result B :=
  match r with Ok a => f a | Err e => Err e end.
Notation "'do' x <- r ; k" := (bind r (fun x => k)) (at level 200, x name, right associativity).
Notation "'do' ' p <- r ; k" := (bind r (fun x => match x with p => k end))
  (at level 200, p pattern, right associativity).

Definition vres {A} (f : A -> val) (r : result A) : val :=
  match r with Ok a => f a | Err e => VErr (err_code e) end.

Definition is_ok {A} (r : result A) : bool := match r with Ok _ => true | Err _ => false end.
