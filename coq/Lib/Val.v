(* Universal observable type used by the correspondence check: the implementation's
   canonicalised observables are rendered as [val] terms by the harness, the model's
   observation functions return [val], and Coq itself computes which cases disagree. *)
From Coq Require Import ZArith List Bool.
Import ListNotations.
Open Scope Z_scope.

Inductive val :=
| VZ (z : Z)
| VB (b : bool)
| VNone
| VStr (s : list Z)          (* bytes or str, as byte values / code points *)
| VList (l : list val)       (* list or tuple *)
| VErr (e : Z).              (* exception class, see error codes below *)

(* error codes shared with tools/vlib/coqfmt.py *)
Definition E_Other := 0.
Definition E_StructError := 1.
Definition E_InvalidInstruction := 2.
Definition E_ValueError := 3.
Definition E_IndexError := 4.
Definition E_KeyError := 5.
Definition E_TypeError := 6.
Definition E_OutOfFuel := 7.
Definition E_EOF := 8.
Definition E_ResParserError := 9.
Definition E_FileNotPresent := 10.
Definition E_RecursionError := 11.
Definition E_Timeout := 12.
Definition E_UnicodeError := 13.
Definition E_AssertionError := 14.
Definition E_BrokenAPK := 15.
Definition E_OverflowError := 16.
Definition E_IntegrityError := 17.

Fixpoint list_eqb {A} (eqb : A -> A -> bool) (a b : list A) : bool :=
  match a, b with
  | [], [] => true
  | x :: a', y :: b' => eqb x y && list_eqb eqb a' b'
  | _, _ => false
  end.

Fixpoint val_eqb (a b : val) {struct a} : bool :=
  match a, b with
  | VZ x, VZ y => x =? y
  | VB x, VB y => Bool.eqb x y
  | VNone, VNone => true
  | VStr x, VStr y => list_eqb Z.eqb x y
  | VList x, VList y =>
      (fix go (x y : list val) {struct x} : bool :=
         match x, y with
         | [], [] => true
         | u :: x', v :: y' => val_eqb u v && go x' y'
         | _, _ => false
         end) x y
  | VErr x, VErr y => x =? y
  | _, _ => false
  end.

(* indices (from 0) of the cases on which [obs] differs from the expected value *)
Fixpoint mismatches_from {I} (obs : I -> val) (k : Z) (cases : list (I * val)) : list Z :=
  match cases with
  | [] => []
  | (i, e) :: t =>
      if val_eqb (obs i) e then mismatches_from obs (k + 1) t
      else k :: mismatches_from obs (k + 1) t
  end.
Definition mismatches {I} (obs : I -> val) (cases : list (I * val)) : list Z :=
  mismatches_from obs 0 cases.

Definition vpair (a b : val) : val := VList [a; b].
Definition vopt {A} (f : A -> val) (o : option A) : val :=
  match o with Some a => f a | None => VNone end.
Definition vlistZ (l : list Z) : val := VList (map VZ l).
