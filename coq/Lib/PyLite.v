(* PyLite: a deep embedding of the first-order Python subset that the byte-level helpers of
   androguard are written in, with a fuelled big-step interpreter.  tools/tr/pylite_tr.py only
   serialises Python syntax trees into [stmt] terms; their meaning is given here. *)
From Coq Require Import ZArith List String Bool Lia.
Require Import V.Lib.Result.
Import ListNotations.
Open Scope Z_scope.

Inductive value := VInt (z:Z) | VBool (b:bool) | VNone | VBytes (l:list Z) | VTuple (l:list value).
Inductive binop := Add | Sub | BAnd | BOr | Shl | Shr.
Inductive cmpop := CEq | CNe | CLt | CLe | CGt | CGe.
Inductive expr :=
 | EInt (z:Z) | EVar (x:string) | EBin (o:binop) (a b:expr) | ECmp (o:cmpop) (a b:expr)
 | ENot (a:expr) | EAnd (a b:expr) | EOr (a b:expr)
 | EGetByte (buf:string)            (* get_byte(cm, buf): pops one byte from the stream variable *)
 | EPackB (a:expr)                  (* cm.packer["B"].pack(a) *)
 | EMax (a b:expr) | ENewBytes | ETuple (l:list expr).
Inductive stmt :=
 | SAssign (x:string) (e:expr) | SAug (x:string) (o:binop) (e:expr)
 | SIf (c:expr) (t f:list stmt) | SWhile (c:expr) (b:list stmt) | SForRange (x:string) (lo hi:Z) (b:list stmt)
 | SReturn (e:expr) | SRaise (e:err) | SBreak | SPass.

Definition env := list (string * value).
Fixpoint lookup (x:string) (r:env) : result value :=
  match r with [] => Err NameError | (y,v)::t => if String.eqb x y then Ok v else lookup x t end.
Fixpoint update (x:string) (v:value) (r:env) : env :=
  match r with [] => [(x,v)] | (y,w)::t => if String.eqb x y then (y,v)::t else (y,w)::update x v t end.

Definition truthy (v:value) : bool :=
  match v with VInt z => negb (z =? 0) | VBool b => b | VNone => false | VBytes l => negb (Nat.eqb (List.length l) 0) | VTuple l => negb (Nat.eqb (List.length l) 0) end.
Definition as_int (v:value) : result Z := match v with VInt z => Ok z | VBool b => Ok (if b then 1 else 0) | _ => Err TypeError end.
Definition do_bin (o:binop) (a b:value) : result value :=
  match o, a, b with
  | Add, VBytes x, VBytes y => Ok (VBytes (x ++ y))
  | _, _, _ => do x <- as_int a; do y <- as_int b;
      match o with Add => Ok (VInt (x+y)) | Sub => Ok (VInt (x-y)) | BAnd => Ok (VInt (Z.land x y)) | BOr => Ok (VInt (Z.lor x y))
      | Shl => if y <? 0 then Err ValueError else Ok (VInt (Z.shiftl x y)) | Shr => if y <? 0 then Err ValueError else Ok (VInt (Z.shiftr x y)) end
  end.
Definition do_cmp (o:cmpop) (a b:value) : result value :=
  do x <- as_int a; do y <- as_int b;
  Ok (VBool match o with CEq => x =? y | CNe => negb (x =? y) | CLt => x <? y | CLe => x <=? y | CGt => x >? y | CGe => x >=? y end).

Fixpoint eval (e:expr) (r:env) : result (value * env) :=
  match e with
  | EInt z => Ok (VInt z, r)
  | EVar x => do v <- lookup x r; Ok (v, r)
  | EBin o a b => do '(va, r) <- eval a r; do '(vb, r) <- eval b r; do v <- do_bin o va vb; Ok (v, r)
  | ECmp o a b => do '(va, r) <- eval a r; do '(vb, r) <- eval b r; do v <- do_cmp o va vb; Ok (v, r)
  | ENot a => do '(va, r) <- eval a r; Ok (VBool (negb (truthy va)), r)
  | EAnd a b => do '(va, r) <- eval a r; if truthy va then eval b r else Ok (va, r)
  | EOr a b => do '(va, r) <- eval a r; if truthy va then Ok (va, r) else eval b r
  | EGetByte buf => do v <- lookup buf r;
       match v with VBytes (b :: t) => Ok (VInt b, update buf (VBytes t) r) | VBytes [] => Err StructError | _ => Err TypeError end
  | EPackB a => do '(va, r) <- eval a r; do x <- as_int va; if (0 <=? x) && (x <=? 255) then Ok (VBytes [x], r) else Err StructError
  | EMax a b => do '(va, r) <- eval a r; do '(vb, r) <- eval b r; do x <- as_int va; do y <- as_int vb; Ok (VInt (Z.max x y), r)
  | ENewBytes => Ok (VBytes [], r)
  | ETuple l => do '(vs, r) <- (fix go (l:list expr) (r:env) : result (list value * env) :=
                  match l with [] => Ok ([], r) | a :: t => do '(va, r) <- eval a r; do '(vs, r) <- go t r; Ok (va :: vs, r) end) l r;
                Ok (VTuple vs, r)
  end.

Inductive outcome := Normal | Returned (v:value) | Broke.
Fixpoint exec (fuel:nat) (ss:list stmt) (r:env) : result (outcome * env) :=
  match fuel with O => Err OutOfFuel | S f =>
  match ss with
  | [] => Ok (Normal, r)
  | s :: rest =>
    do '(o, r) <-
      match s with
      | SAssign x e => do '(v, r) <- eval e r; Ok (Normal, update x v r)
      | SAug x o e => do cur <- lookup x r; do '(v, r) <- eval e r; do nv <- do_bin o cur v; Ok (Normal, update x nv r)
      | SIf c t e => do '(vc, r) <- eval c r; if truthy vc then exec f t r else exec f e r
      | SWhile c b => do '(vc, r) <- eval c r;
          if truthy vc then
            do '(o, r) <- exec f b r;
            match o with Normal => exec f [SWhile c b] r | Broke => Ok (Normal, r) | Returned v => Ok (Returned v, r) end
          else Ok (Normal, r)
      | SForRange x lo hi b =>
          if lo <? hi then
            do '(o, r) <- exec f b (update x (VInt lo) r);
            match o with Normal => exec f [SForRange x (lo+1) hi b] r | Broke => Ok (Normal, r) | Returned v => Ok (Returned v, r) end
          else Ok (Normal, r)
      | SReturn e => do '(v, r) <- eval e r; Ok (Returned v, r)
      | SRaise e => Err e
      | SBreak => Ok (Broke, r)
      | SPass => Ok (Normal, r)
      end;
    match o with Normal => exec f rest r | _ => Ok (o, r) end
  end end.

Definition runf (fuel:nat) (body:list stmt) (r:env) : result (value * env) :=
  do '(o, r) <- exec fuel body r; match o with Returned v => Ok (v, r) | _ => Ok (VNone, r) end.
Definition run := runf 200.
