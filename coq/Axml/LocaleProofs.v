(* C30 - proofs about the locale model: finite sweeps over the 16-bit fields, a lemma about
   str.split("-r") on strings without '-', and the byte-field arithmetic of the 32-bit locale. *)
From Coq Require Import ZArith List Bool Lia.
Require Import V.Lib.Sweep V.Lib.Bits V.Lib.Val V.Axml.LocaleModel.
Import ListNotations.
Open Scope Z_scope.
Ltac Zify.zify_post_hook ::= Z.to_euclidean_division_equations.

(* ---- small sweeps ---- *)
Definition r32 : list Z := map Z.of_nat (seq 0 32).
Lemma r32_in : forall x, 0 <= x < 32 -> In x r32.
Proof.
  intros x H. unfold r32. apply in_map_iff. exists (Z.to_nat x). split; [lia|]. apply in_seq. lia.
Qed.
Definition all32x3 (P : Z -> Z -> Z -> bool) : bool :=
  forallb (fun a => forallb (fun b => forallb (fun c => P a b c) r32) r32) r32.
Lemma all32x3_spec : forall P, all32x3 P = true ->
  forall a b c, 0 <= a < 32 -> 0 <= b < 32 -> 0 <= c < 32 -> P a b c = true.
Proof.
  intros P H a b c Ha Hb Hc. unfold all32x3 in H. rewrite forallb_forall in H.
  specialize (H _ (r32_in _ Ha)). rewrite forallb_forall in H.
  specialize (H _ (r32_in _ Hb)). rewrite forallb_forall in H. apply H, r32_in, Hc.
Qed.

Definition leqb := list_eqb Z.eqb.
Lemma leqb_eq : forall a b, leqb a b = true -> a = b.
Proof.
  induction a as [|x a IH]; intros [|y b] H; simpl in H; try discriminate; [reflexivity|].
  apply andb_true_iff in H. destruct H as [H1 H2]. apply Z.eqb_eq in H1. subst. f_equal. apply IH, H2.
Qed.
Definition peqb (p q : Z * Z) : bool := (fst p =? fst q) && (snd p =? snd q).
Lemma peqb_eq : forall p q, peqb p q = true -> p = q.
Proof.
  intros [a b] [c d] H. unfold peqb in H. simpl in H. apply andb_true_iff in H. destruct H as [H1 H2].
  apply Z.eqb_eq in H1. apply Z.eqb_eq in H2. subst. reflexivity.
Qed.

Definition base_ok (base : Z) : Prop := base = 97 \/ base = 48.

(* ---- code -> field -> code ---- *)
Definition chk3 (base i j k : Z) : bool :=
  let s := [base + i; base + j; base + k] in
  leqb (unpack (fst (pack s base)) (snd (pack s base)) base) s
  && field_ok (fst (pack s base)) (snd (pack s base)).
Lemma sweep3_97 : all32x3 (chk3 97) = true. Proof. vm_compute. reflexivity. Qed.
Lemma sweep3_48 : all32x3 (chk3 48) = true. Proof. vm_compute. reflexivity. Qed.

Definition chk2 (base a b : Z) : bool :=
  if code2_ok [a; b] then leqb (unpack a b base) [a; b] else true.
Lemma sweep2_97 : all8x8 (chk2 97) = true. Proof. vm_compute. reflexivity. Qed.
Lemma sweep2_48 : all8x8 (chk2 48) = true. Proof. vm_compute. reflexivity. Qed.

Lemma in_rng_spec lo hi c : in_rng lo hi c = true <-> lo <= c <= hi.
Proof. unfold in_rng. rewrite andb_true_iff, !Z.leb_le. tauto. Qed.

Lemma code3_shape base s : code3_ok base s = true ->
  exists i j k, s = [base + i; base + j; base + k] /\ 0 <= i < 32 /\ 0 <= j < 32 /\ 0 <= k < 32.
Proof.
  destruct s as [|x [|y [|z [|w s]]]]; simpl; try discriminate. intros H.
  rewrite !andb_true_iff, !in_rng_spec in H. destruct H as [[Hx Hy] Hz].
  exists (x - base), (y - base), (z - base). split; [f_equal; [lia | f_equal; [lia | f_equal; lia]] | lia].
Qed.
Lemma code2_shape s : code2_ok s = true ->
  exists a b, s = [a; b] /\ 1 <= a <= 127 /\ 1 <= b <= 255 /\ a <> 45 /\ b <> 45.
Proof.
  destruct s as [|a [|b [|c s]]]; simpl; try discriminate. intros H.
  rewrite !andb_true_iff, !in_rng_spec, !negb_true_iff, !Z.eqb_neq in H.
  exists a, b. intuition.
Qed.

Lemma code_roundtrip base s : base_ok base -> code_ok base s = true ->
  unpack (fst (pack s base)) (snd (pack s base)) base = s /\
  field_ok (fst (pack s base)) (snd (pack s base)) = true.
Proof.
  intros Hb H. unfold code_ok in H. apply orb_true_iff in H. destruct H as [H|H].
  - pose proof H as H'. apply code2_shape in H'. destruct H' as (a & b & -> & Ha & Hb' & _).
    cbn [pack fst snd]. split.
    + apply leqb_eq.
      assert (S : chk2 base a b = true)
        by (destruct Hb as [->| ->]; [apply (all8x8_spec _ sweep2_97) | apply (all8x8_spec _ sweep2_48)]; lia).
      unfold chk2 in S. rewrite H in S. exact S.
    + unfold field_ok. rewrite H. apply orb_true_r.
  - apply code3_shape in H. destruct H as (i & j & k & -> & Hi & Hj & Hk).
    assert (S : chk3 base i j k = true)
      by (destruct Hb as [->| ->]; [apply (all32x3_spec _ sweep3_97) | apply (all32x3_spec _ sweep3_48)]; lia).
    unfold chk3 in S. apply andb_true_iff in S. destruct S as [S1 S2]. split; [apply leqb_eq, S1 | exact S2].
Qed.

(* ---- field -> code -> field ---- *)
Definition chkf (base a b : Z) : bool :=
  if field_ok a b then peqb (pack (unpack a b base) base) (a, b) && code_ok base (unpack a b base) else true.
Lemma sweepf_97 : all8x8 (chkf 97) = true. Proof. vm_compute. reflexivity. Qed.
Lemma sweepf_48 : all8x8 (chkf 48) = true. Proof. vm_compute. reflexivity. Qed.

Lemma field_bytes a b : field_ok a b = true -> 1 <= a < 256 /\ 0 <= b < 256.
Proof.
  unfold field_ok. rewrite orb_true_iff, andb_true_iff, !in_rng_spec. intros [H|H]; [lia|].
  apply code2_shape in H. destruct H as (a' & b' & E & H). injection E as <- <-. lia.
Qed.

Lemma field_roundtrip base a b : base_ok base -> field_ok a b = true ->
  pack (unpack a b base) base = (a, b) /\ code_ok base (unpack a b base) = true.
Proof.
  intros Hb H. pose proof (field_bytes _ _ H) as Hr.
  assert (S : chkf base a b = true)
    by (destruct Hb as [->| ->]; [apply (all8x8_spec _ sweepf_97) | apply (all8x8_spec _ sweepf_48)]; lia).
  unfold chkf in S. rewrite H in S. apply andb_true_iff in S. destruct S as [S1 S2].
  split; [apply peqb_eq, S1 | exact S2].
Qed.

(* ---- no '-' inside a code ---- *)
Lemma code_no45 base s : base_ok base -> code_ok base s = true -> ~ In 45 s /\ nonempty s = true.
Proof.
  intros Hb H. unfold code_ok in H. apply orb_true_iff in H. destruct H as [H|H].
  - apply code2_shape in H. destruct H as (a & b & -> & H). split; [simpl; lia | reflexivity].
  - apply code3_shape in H. destruct H as (i & j & k & -> & H). split; [|reflexivity].
    destruct Hb as [->| ->]; cbn [In]; lia.
Qed.

(* ---- str.split("-r") ---- *)
Lemma split_go_no45 : forall l, ~ In 45 l -> forall acc, split_go acc l = [rev acc ++ l].
Proof.
  induction l as [|c t IH]; intros H acc.
  - simpl. rewrite app_nil_r. reflexivity.
  - assert (Hc : c <> 45) by (intros ->; apply H; left; reflexivity).
    assert (Ht : ~ In 45 t) by (intros X; apply H; right; exact X).
    assert (E : split_go acc (c :: t) = split_go (c :: acc) t).
    { destruct t as [|d t']; [reflexivity|]. cbn [split_go].
      destruct (Z.eqb_spec c 45) as [->|_]; [contradiction|]. reflexivity. }
    rewrite E, IH by exact Ht. simpl. rewrite <- app_assoc. reflexivity.
Qed.
Lemma split_go_mid : forall l r, ~ In 45 l -> ~ In 45 r ->
  forall acc, split_go acc (l ++ 45 :: 114 :: r) = [rev acc ++ l; r].
Proof.
  induction l as [|c t IH]; intros r Hl Hr acc.
  - cbn [app split_go]. rewrite Z.eqb_refl, Z.eqb_refl. cbn [andb]. rewrite app_nil_r.
    rewrite split_go_no45 by exact Hr. reflexivity.
  - assert (Hc : c <> 45) by (intros ->; apply Hl; left; reflexivity).
    assert (Ht : ~ In 45 t) by (intros X; apply Hl; right; exact X).
    assert (E : split_go acc ((c :: t) ++ 45 :: 114 :: r) = split_go (c :: acc) (t ++ 45 :: 114 :: r)).
    { destruct t as [|d t']; cbn [app split_go];
        (destruct (Z.eqb_spec c 45) as [->|_]; [contradiction|]); reflexivity. }
    rewrite E, IH by assumption. simpl. rewrite <- app_assoc. reflexivity.
Qed.
Lemma split_plain l : ~ In 45 l -> split_r l = [l].
Proof. intros H. unfold split_r. rewrite split_go_no45 by exact H. reflexivity. Qed.
Lemma split_pair l r : ~ In 45 l -> ~ In 45 r -> split_r (l ++ [45; 114] ++ r) = [l; r].
Proof. intros Hl Hr. unfold split_r. cbn [app]. rewrite split_go_mid by assumption. reflexivity. Qed.

(* ---- the four byte fields of the locale ---- *)
Lemma lor_fields l0 l1 r0 r1 :
  0 <= l0 < 256 -> 0 <= l1 < 256 -> 0 <= r0 < 256 -> 0 <= r1 < 256 ->
  Z.lor (Z.lor (Z.lor l0 (Z.shiftl l1 8)) (Z.shiftl r0 16)) (Z.shiftl r1 24) = locale_of l0 l1 r0 r1.
Proof.
  intros H0 H1 H2 H3. unfold locale_of.
  lorc 8 256. lorc 16 65536. lorc 24 16777216. reflexivity.
Qed.
Lemma get_fields l0 l1 r0 r1 :
  0 <= l0 < 256 -> 0 <= l1 < 256 -> 0 <= r0 < 256 -> 0 <= r1 < 256 ->
  let L := locale_of l0 l1 r0 r1 in
  Z.land L 255 = l0 /\ Z.shiftr (Z.land L 65280) 8 = l1 /\
  Z.shiftr (Z.land L 16711680) 16 = r0 /\ Z.shiftr (Z.land L 4278190080) 24 = r1.
Proof.
  intros H0 H1 H2 H3 L. subst L. unfold locale_of. rewrite !Z.shiftr_land.
  change (Z.shiftr 65280 8) with 255. change (Z.shiftr 16711680 16) with 255.
  change (Z.shiftr 4278190080 24) with 255. rewrite !land255.
  shrc 8 256. shrc 16 65536. shrc 24 16777216. repeat split; lia.
Qed.

Lemma unpack_zero base : unpack 0 0 base = [].
Proof. reflexivity. Qed.

(* ---- set then get ---- *)
Lemma set_of_codes lang region : code_ok 97 lang = true -> region_ok region = true ->
  set_lr (render lang region) =
    locale_of (fst (pack lang 97)) (snd (pack lang 97))
      (match region with Some r => fst (pack r 48) | None => 0 end)
      (match region with Some r => snd (pack r 48) | None => 0 end).
Proof.
  intros Hl Hr. pose proof (code_no45 97 lang (or_introl eq_refl) Hl) as [Nl _].
  pose proof (code_roundtrip 97 lang (or_introl eq_refl) Hl) as [_ Fl]. apply field_bytes in Fl.
  unfold set_lr. destruct region as [r|]; cbn [render region_ok] in *.
  - pose proof (code_no45 48 r (or_intror eq_refl) Hr) as [Nr Er].
    pose proof (code_roundtrip 48 r (or_intror eq_refl) Hr) as [_ Fr]. apply field_bytes in Fr.
    rewrite split_pair by assumption. rewrite Er.
    destruct (pack lang 97) as [l0 l1]. destruct (pack r 48) as [r0 r1]. cbn [fst snd] in *.
    apply lor_fields; lia.
  - rewrite split_plain by assumption.
    destruct (pack lang 97) as [l0 l1]. cbn [fst snd] in *. apply lor_fields; lia.
Qed.

Lemma get_of_fields l0 l1 r0 r1 : field_ok l0 l1 = true ->
  (field_ok r0 r1 = true \/ (r0 = 0 /\ r1 = 0)) ->
  get_lr (locale_of l0 l1 r0 r1) =
    render (unpack l0 l1 97) (if field_ok r0 r1 then Some (unpack r0 r1 48) else None).
Proof.
  intros Fl Fr. pose proof (field_bytes _ _ Fl) as Bl.
  assert (Br : 0 <= r0 < 256 /\ 0 <= r1 < 256)
    by (destruct Fr as [Fr|[-> ->]]; [apply field_bytes in Fr|]; lia).
  unfold get_lr. destruct (Z.eqb_spec (locale_of l0 l1 r0 r1) 0) as [E|_]; [unfold locale_of in E; lia|].
  destruct (get_fields l0 l1 r0 r1) as (-> & -> & -> & ->); try lia.
  destruct Fr as [Fr|[-> ->]].
  - rewrite Fr. destruct (field_roundtrip 48 r0 r1 (or_intror eq_refl) Fr) as [_ C].
    apply (code_no45 48 _ (or_intror eq_refl)) in C. destruct C as [_ ->]. reflexivity.
  - reflexivity.
Qed.

Lemma get_set lang region : code_ok 97 lang = true -> region_ok region = true ->
  get_lr (set_lr (render lang region)) = render lang region.
Proof.
  intros Hl Hr. rewrite set_of_codes by assumption.
  destruct (code_roundtrip 97 lang (or_introl eq_refl) Hl) as [Ul Fl].
  destruct region as [r|]; cbn [region_ok] in Hr.
  - destruct (code_roundtrip 48 r (or_intror eq_refl) Hr) as [Ur Fr].
    rewrite get_of_fields by (try left; assumption). rewrite Fr, Ul, Ur. reflexivity.
  - rewrite get_of_fields by (try right; auto). rewrite Ul. reflexivity.
Qed.

Lemma set_get l0 l1 r0 r1 : field_ok l0 l1 = true ->
  (field_ok r0 r1 = true \/ (r0 = 0 /\ r1 = 0)) ->
  set_lr (get_lr (locale_of l0 l1 r0 r1)) = locale_of l0 l1 r0 r1.
Proof.
  intros Fl Fr. rewrite get_of_fields by assumption.
  destruct (field_roundtrip 97 l0 l1 (or_introl eq_refl) Fl) as [Pl Cl].
  destruct Fr as [Fr|[-> ->]].
  - destruct (field_roundtrip 48 r0 r1 (or_intror eq_refl) Fr) as [Pr Cr].
    rewrite Fr. rewrite set_of_codes by assumption. rewrite Pl, Pr. reflexivity.
  - change (field_ok 0 0) with false. cbv iota. rewrite set_of_codes by (auto). rewrite Pl. reflexivity.
Qed.

Lemma default_locale : get_lr 0 = [0; 0] /\ set_lr [0; 0] = 0.
Proof. split; reflexivity. Qed.
