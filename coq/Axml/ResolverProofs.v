(* C29 - lemmas about the resolver model. *)
From Coq Require Import ZArith List Bool Lia.
Require Import V.Lib.Val V.Lib.Result V.Axml.ResolverModel.
Import ListNotations.
Open Scope Z_scope.

Lemma memZ_In : forall x l, memZ x l = true <-> In x l.
Proof.
  intros x l. unfold memZ. rewrite existsb_exists. split.
  - intros [y [Hy E]]. apply Z.eqb_eq in E. subst. exact Hy.
  - intros H. exists x. split; [exact H|apply Z.eqb_refl].
Qed.
Lemma memZ_nIn : forall x l, memZ x l = false <-> ~ In x l.
Proof. intros x l. rewrite <- memZ_In. destruct (memZ x l); split; congruence. Qed.

Lemma filter_len_le (p q : Z -> bool) (l : list Z) :
  (forall x, In x l -> p x = true -> q x = true) -> (length (filter p l) <= length (filter q l))%nat.
Proof.
  induction l as [|a l IH]; intros H; [apply le_n|]. simpl.
  assert (IH' : (length (filter p l) <= length (filter q l))%nat) by (apply IH; intros x Hx; apply H; right; exact Hx).
  destruct (p a) eqn:Pa.
  - rewrite (H a (or_introl eq_refl) Pa). simpl. lia.
  - destruct (q a); simpl; lia.
Qed.
Lemma filter_len_lt (p q : Z -> bool) (l : list Z) a :
  (forall x, In x l -> p x = true -> q x = true) -> In a l -> p a = false -> q a = true ->
  (length (filter p l) < length (filter q l))%nat.
Proof.
  induction l as [|b l IH]; intros H Ha Pa Qa; [destruct Ha|]. simpl.
  assert (Hle : (length (filter p l) <= length (filter q l))%nat) by (apply filter_len_le; intros x Hx; apply H; right; exact Hx).
  destruct Ha as [->|Ha].
  - rewrite Pa, Qa. simpl. lia.
  - assert (IH' : (length (filter p l) < length (filter q l))%nat) by (apply IH; auto; intros x Hx; apply H; right; exact Hx).
    destruct (p b) eqn:Pb.
    + rewrite (H b (or_introl eq_refl) Pb). simpl. lia.
    + destruct (q b); simpl; lia.
Qed.
Lemma filter_len_all (p : Z -> bool) (l : list Z) : (length (filter p l) <= length l)%nat.
Proof. induction l as [|a l IH]; simpl; [lia|]. destruct (p a); simpl; lia. Qed.

(* ---- seqcat ---- *)
Definition values (l : list res) : list Z := flat_map flatten l.
Lemma values_app : forall a b, values (a ++ b) = values a ++ values b.
Proof. intros. unfold values. apply flat_map_app. Qed.

Lemma seqcat_ok : forall l, Forall (fun r => exists a, r = Ok a) l -> exists b, seqcat l = Ok b.
Proof.
  induction 1 as [|r t [a ->] Ht [b IH]]; simpl; [eexists; reflexivity|]. rewrite IH. eexists; reflexivity.
Qed.
Lemma seqcat_elem : forall l r, seqcat l = Ok r -> forall x, In x l ->
  exists a, x = Ok a /\ (forall v, In v (values a) -> In v (values r)).
Proof.
  induction l as [|y t IH]; intros r H x Hx; [destruct Hx|]. simpl in H.
  destruct y as [a|e]; [|discriminate]. destruct (seqcat t) as [b|e] eqn:Et; [|discriminate].
  inversion H; subst r. destruct Hx as [<-|Hx].
  - exists a. split; [reflexivity|]. intros v Hv. rewrite values_app. apply in_or_app. left. exact Hv.
  - destruct (IH b eq_refl x Hx) as [a' [-> Ha']]. exists a'. split; [reflexivity|].
    intros v Hv. rewrite values_app. apply in_or_app. right. apply Ha', Hv.
Qed.
Lemma seqcat_in : forall l r, seqcat l = Ok r -> forall v, In v (values r) ->
  exists a, In (Ok a) l /\ In v (values a).
Proof.
  induction l as [|y t IH]; intros r H v Hv; simpl in H; [inversion H; subst; destruct Hv|].
  destruct y as [a|e]; [|discriminate]. destruct (seqcat t) as [b|e] eqn:Et; [|discriminate].
  inversion H; subst r. rewrite values_app in Hv. apply in_app_or in Hv. destruct Hv as [Hv|Hv].
  - exists a. split; [left; reflexivity|exact Hv].
  - destruct (IH b eq_refl v Hv) as [a' [H1 H2]]. exists a'. split; [right; exact H1|exact H2].
Qed.

Section Proofs.
Variable tbl : table.
Variable wanted : option Z.
Notation U := (universe tbl).

Lemma resolve_unfold : forall f rs id, resolve_into tbl wanted (S f) rs id =
  if memZ id rs then Ok []
  else seqcat (map (put_ate (resolve_into tbl wanted f) (id :: rs) id) (lookup tbl wanted id)).
Proof. reflexivity. Qed.

(* ---- termination ---- *)
Definition count_out (rs : list Z) : nat := length (filter (fun x => negb (memZ x rs)) U).

Lemma count_out_push : forall id rs, In id U -> ~ In id rs -> (count_out (id :: rs) < count_out rs)%nat.
Proof.
  intros id rs Hu Hr. apply (filter_len_lt _ _ U id); auto.
  - intros x _ Hx. apply negb_true_iff in Hx. apply negb_true_iff. apply memZ_nIn in Hx. apply memZ_nIn.
    intros Hin. apply Hx. right. exact Hin.
  - apply negb_false_iff. apply memZ_In. left. reflexivity.
  - apply negb_true_iff. apply memZ_nIn. exact Hr.
Qed.

Lemma lookup_key_in_universe : forall id ce, In ce (lookup tbl wanted id) -> In id U.
Proof.
  intros id ce H. unfold lookup in H. destruct (find (fun p => fst p =? id) tbl) as [p|] eqn:E; [|destruct H].
  apply find_some in E. destruct E as [Hin Heq]. apply Z.eqb_eq in Heq. unfold universe.
  apply in_flat_map. exists p. split; [exact Hin|]. left. exact Heq.
Qed.

Lemma resolve_terminates : forall fuel rs id, (count_out rs < fuel)%nat ->
  exists l, resolve_into tbl wanted fuel rs id = Ok l.
Proof.
  induction fuel as [|f IH]; intros rs id Hc; [lia|]. rewrite resolve_unfold.
  destruct (memZ id rs) eqn:Hm; [eexists; reflexivity|]. apply memZ_nIn in Hm.
  apply seqcat_ok. apply Forall_forall. intros r Hr. apply in_map_iff in Hr. destruct Hr as [[cfg e] [<- Hin]].
  assert (Hrec : forall r0, exists l, resolve_into tbl wanted f (id :: rs) r0 = Ok l).
  { intros r0. apply IH. pose proof (count_out_push id rs (lookup_key_in_universe id _ Hin) Hm). lia. }
  assert (Hitem : forall cplx i, exists a, put_item (resolve_into tbl wanted f) (id :: rs) id cfg cplx i = Ok a).
  { intros cplx [r0|v]; simpl; [|eexists; reflexivity].
    destruct (r0 =? 0); [eexists; reflexivity|]. destruct (r0 =? id); [eexists; reflexivity|]. apply Hrec. }
  unfold put_ate. destruct e as [i|its|v].
  - apply Hitem.
  - destruct (seqcat_ok (map (put_item (resolve_into tbl wanted f) (id :: rs) id cfg true) its)) as [b ->]; [|eexists; reflexivity].
    apply Forall_forall. intros x Hx. apply in_map_iff in Hx. destruct Hx as [i [<- _]]. apply Hitem.
  - eexists; reflexivity.
Qed.

Theorem resolve_returns : forall id, id <> 0 ->
  exists l, resolve tbl wanted (S (length U)) id = Ok l.
Proof.
  intros id Hid. unfold resolve. destruct (id =? 0) eqn:E; [apply Z.eqb_eq in E; contradiction|].
  apply resolve_terminates. unfold count_out. pose proof (filter_len_all (fun x => negb (memZ x [])) U). lia.
Qed.

(* ---- what is returned ---- *)
Definition item_vals (i : item) : list Z := match i with IVal v => [v] | IRef _ => [] end.
Definition entry_vals (e : entry) : list Z :=
  match e with ESimple i => item_vals i | EComplex its => flat_map item_vals its | ECompact v => [v] end.

(* v is reachable from id: some entry returned for id holds v, or references a non-zero id from which v is reachable *)
Inductive reach : Z -> Z -> Prop :=
| reach_val : forall id cfg e v, In (cfg, e) (lookup tbl wanted id) -> In v (entry_vals e) -> reach id v
| reach_ref : forall id cfg e r v, In (cfg, e) (lookup tbl wanted id) -> In r (entry_refs e) -> r <> 0 ->
    reach r v -> reach id v.
(* ... along a reference path that repeats no id and avoids the ids in rs *)
Inductive spath : list Z -> Z -> Z -> Prop :=
| sp_val : forall rs id cfg e v, ~ In id rs -> In (cfg, e) (lookup tbl wanted id) -> In v (entry_vals e) -> spath rs id v
| sp_ref : forall rs id cfg e r v, ~ In id rs -> In (cfg, e) (lookup tbl wanted id) -> In r (entry_refs e) -> r <> 0 ->
    spath (id :: rs) r v -> spath rs id v.

Lemma put_item_sound : forall (rec : list Z -> Z -> result (list res)) rs id cfg cplx i a,
  (forall r l, rec rs r = Ok l -> forall v, In v (values l) -> reach r v) ->
  put_item rec rs id cfg cplx i = Ok a ->
  forall v, In v (values a) -> In v (item_vals i) \/ exists r, In r (item_refs i) /\ r <> 0 /\ reach r v.
Proof.
  intros rec rs id cfg cplx [r|w] a Hrec H v Hv; simpl in H.
  - destruct (r =? 0) eqn:E0; [inversion H; subst; destruct Hv|].
    destruct (r =? id); [inversion H; subst; destruct Hv|].
    right. exists r. split; [left; reflexivity|]. split; [apply Z.eqb_neq, E0|]. eapply Hrec; eassumption.
  - left. inversion H; subst a. destruct cplx; simpl in Hv; destruct Hv as [<-|[]]; left; reflexivity.
Qed.

Theorem resolve_sound : forall fuel rs id l, resolve_into tbl wanted fuel rs id = Ok l ->
  forall v, In v (values l) -> reach id v.
Proof.
  induction fuel as [|f IH]; intros rs id l H v Hv; [discriminate|]. rewrite resolve_unfold in H.
  destruct (memZ id rs); [inversion H; subst; destruct Hv|].
  destruct (seqcat_in _ _ H v Hv) as [a [Hin Hva]]. apply in_map_iff in Hin. destruct Hin as [[cfg e] [Hput Hce]].
  assert (Hrec : forall r l0, resolve_into tbl wanted f (id :: rs) r = Ok l0 -> forall v0, In v0 (values l0) -> reach r v0).
  { intros r l0 H0 v0 Hv0. eapply IH; eassumption. }
  unfold put_ate in Hput. destruct e as [i|its|w].
  - destruct (put_item_sound _ _ _ _ _ _ _ Hrec Hput v Hva) as [Hl|[r [Hr [Hr0 Hreach]]]].
    + eapply reach_val; [exact Hce|exact Hl].
    + eapply reach_ref; [exact Hce|exact Hr|exact Hr0|exact Hreach].
  - destruct (seqcat (map (put_item (resolve_into tbl wanted f) (id :: rs) id cfg true) its)) as [b|x] eqn:Es; [|discriminate].
    inversion Hput; subst a. unfold values in Hva. simpl in Hva. rewrite app_nil_r in Hva.
    destruct (seqcat_in _ _ Es v Hva) as [a' [Hin' Hva']]. apply in_map_iff in Hin'. destruct Hin' as [i [Hput' Hi]].
    destruct (put_item_sound _ _ _ _ _ _ _ Hrec Hput' v Hva') as [Hl|[r [Hr [Hr0 Hreach]]]].
    + eapply reach_val; [exact Hce|]. simpl. apply in_flat_map. exists i. split; assumption.
    + eapply reach_ref; [exact Hce| |exact Hr0|exact Hreach]. simpl. apply in_flat_map. exists i. split; assumption.
  - inversion Hput; subst a. simpl in Hva. destruct Hva as [<-|[]]. eapply reach_val; [exact Hce|left; reflexivity].
Qed.

Lemma put_item_complete_val : forall rec rs id cfg cplx i a v,
  put_item rec rs id cfg cplx i = Ok a -> In v (item_vals i) -> In v (values a).
Proof.
  intros rec rs id cfg cplx [r|w] a v H Hv; simpl in Hv; [destruct Hv|]. destruct Hv as [<-|[]].
  simpl in H. inversion H; subst. destruct cplx; left; reflexivity.
Qed.
Lemma put_item_complete_ref : forall (rec : list Z -> Z -> result (list res)) rs id cfg cplx i a r v,
  put_item rec rs id cfg cplx i = Ok a -> In r (item_refs i) -> r <> 0 -> r <> id ->
  (forall l, rec rs r = Ok l -> In v (values l)) -> In v (values a).
Proof.
  intros rec rs id cfg cplx [r0|w] a r v H Hr H0 Hid Hrec; simpl in Hr; [|destruct Hr]. destruct Hr as [<-|[]].
  simpl in H. apply Z.eqb_neq in H0, Hid. rewrite H0, Hid in H. apply Hrec, H.
Qed.

Theorem resolve_complete : forall rs id v, spath rs id v ->
  forall fuel l, resolve_into tbl wanted fuel rs id = Ok l -> In v (values l).
Proof.
  induction 1 as [rs id cfg e v Hn Hce Hv | rs id cfg e r v Hn Hce Hr Hr0 Hsp IH]; intros fuel l H.
  - destruct fuel as [|f]; [discriminate|]. rewrite resolve_unfold in H.
    apply memZ_nIn in Hn. rewrite Hn in H.
    destruct (seqcat_elem _ _ H (put_ate (resolve_into tbl wanted f) (id :: rs) id (cfg, e))) as [a [Ha Hsub]];
      [apply in_map, Hce|]. apply Hsub. unfold put_ate in Ha. destruct e as [i|its|w].
    + eapply put_item_complete_val; eassumption.
    + destruct (seqcat (map (put_item (resolve_into tbl wanted f) (id :: rs) id cfg true) its)) as [b|x] eqn:Es; [|discriminate].
      inversion Ha; subst a. unfold values. simpl. rewrite app_nil_r. simpl in Hv. apply in_flat_map in Hv.
      destruct Hv as [i [Hi Hvi]].
      destruct (seqcat_elem _ _ Es (put_item (resolve_into tbl wanted f) (id :: rs) id cfg true i)) as [a' [Ha' Hsub']];
        [apply in_map, Hi|]. apply Hsub'. eapply put_item_complete_val; eassumption.
    + inversion Ha; subst a. simpl in Hv. destruct Hv as [<-|[]]. left. reflexivity.
  - destruct fuel as [|f]; [discriminate|]. rewrite resolve_unfold in H.
    assert (Hrid : r <> id). { inversion Hsp; subst; intro; subst; match goal with H : ~ In _ (_ :: _) |- _ => apply H; left; reflexivity end. }
    apply memZ_nIn in Hn. rewrite Hn in H.
    destruct (seqcat_elem _ _ H (put_ate (resolve_into tbl wanted f) (id :: rs) id (cfg, e))) as [a [Ha Hsub]];
      [apply in_map, Hce|]. apply Hsub. unfold put_ate in Ha. destruct e as [i|its|w].
    + eapply put_item_complete_ref; try eassumption. intros l0 Hl0. eapply IH. exact Hl0.
    + destruct (seqcat (map (put_item (resolve_into tbl wanted f) (id :: rs) id cfg true) its)) as [b|x] eqn:Es; [|discriminate].
      inversion Ha; subst a. unfold values. simpl. rewrite app_nil_r. simpl in Hr. apply in_flat_map in Hr.
      destruct Hr as [i [Hi Hri]].
      destruct (seqcat_elem _ _ Es (put_item (resolve_into tbl wanted f) (id :: rs) id cfg true i)) as [a' [Ha' Hsub']];
        [apply in_map, Hi|]. apply Hsub'. eapply put_item_complete_ref; try eassumption.
      intros l0 Hl0. eapply IH. exact Hl0.
    + destruct Hr.
Qed.

(* ---- every reachable value is reachable along a path that repeats no id ---- *)
Definition edge (id r : Z) : Prop := exists cfg e, In (cfg, e) (lookup tbl wanted id) /\ In r (entry_refs e) /\ r <> 0.
Definition holds (id v : Z) : Prop := exists cfg e, In (cfg, e) (lookup tbl wanted id) /\ In v (entry_vals e).
Inductive walk : list Z -> Z -> Prop :=
| w_end : forall id v, holds id v -> walk [id] v
| w_step : forall id r rest v, edge id r -> walk (r :: rest) v -> walk (id :: r :: rest) v.

Lemma reach_walk : forall id v, reach id v -> exists w, walk (id :: w) v.
Proof.
  induction 1 as [id cfg e v H1 H2 | id cfg e r v H1 H2 H3 _ [w IH]].
  - exists []. apply w_end. exists cfg, e. tauto.
  - exists (r :: w). apply w_step; [exists cfg, e; tauto|exact IH].
Qed.

Lemma walk_suffix : forall a x b v, walk (a ++ x :: b) v -> walk (x :: b) v.
Proof.
  induction a as [|y a IH]; intros x b v H; [exact H|]. simpl in H. inversion H; subst.
  - destruct a; discriminate.
  - apply IH. match goal with E : _ :: _ = a ++ _ |- _ => rewrite <- E end. assumption.
Qed.

Lemma walk_shorten : forall w v, walk w v -> forall id w0, w = id :: w0 -> exists w', walk (id :: w') v /\ NoDup (id :: w').
Proof.
  induction 1 as [id v H | id r rest v He Hw IH]; intros id0 w0 E; inversion E; subst.
  - exists []. split; [apply w_end, H|constructor; [intros []|constructor]].
  - destruct (IH r rest eq_refl) as [w' [Hw' Hnd]].
    destruct (in_dec Z.eq_dec id0 (r :: w')) as [Hin|Hnin].
    + apply in_split in Hin. destruct Hin as [a [b Eab]]. exists b. rewrite Eab in Hw', Hnd. split.
      * eapply walk_suffix. exact Hw'.
      * clear - Hnd. induction a as [|y a IHa]; [exact Hnd|]. apply IHa. inversion Hnd; assumption.
    + exists (r :: w'). split; [apply w_step; assumption|constructor; assumption].
Qed.

Lemma walk_spath : forall w v, walk w v -> forall rs, NoDup w -> (forall x, In x w -> ~ In x rs) ->
  match w with id :: _ => spath rs id v | [] => False end.
Proof.
  induction 1 as [id v [cfg [e [H1 H2]]] | id r rest v [cfg [e [H1 [H2 H3]]]] Hw IH]; intros rs Hnd Hdis.
  - eapply sp_val; [apply Hdis; left; reflexivity|exact H1|exact H2].
  - eapply sp_ref; [apply Hdis; left; reflexivity|exact H1|exact H2|exact H3|].
    apply (IH (id :: rs)); [inversion Hnd; assumption|].
    intros x Hx [<-|Hin]; [inversion Hnd; subst; contradiction|]. apply (Hdis x); [right; exact Hx|exact Hin].
Qed.

Theorem reach_spath : forall id v, reach id v -> spath [] id v.
Proof.
  intros id v H. destruct (reach_walk id v H) as [w Hw].
  destruct (walk_shorten _ _ Hw id w eq_refl) as [w' [Hw' Hnd]].
  apply (walk_spath _ _ Hw' [] Hnd). intros x _ [].
Qed.

(* the values returned are exactly the values reachable through references *)
Theorem resolve_exact : forall fuel id l, resolve_into tbl wanted fuel [] id = Ok l ->
  forall v, In v (values l) <-> reach id v.
Proof.
  intros fuel id l H v. split.
  - eapply resolve_sound. exact H.
  - intros Hr. eapply resolve_complete; [apply reach_spath, Hr|exact H].
Qed.
End Proofs.
