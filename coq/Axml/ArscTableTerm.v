(* C35 / C28 - the walk of ARSCParser.__init__ over a resource table as modelled (table header, chunks of the table, package
   headers and their string pools, chunks of the packages, type chunks with their offset arrays and entries) ends on every
   byte string: parse_table never runs out of its fuel, which is linear in the length of the input for each loop *)
From Coq Require Import ZArith List Bool Lia ZifyBool.
Require Import V.Lib.Val V.Lib.Result V.Axml.PoolModel V.Axml.ArscTypeModel V.Axml.ArscTableModel V.Misc.TermModel V.Misc.TermProofs V.Axml.AxmlTerm.
Import ListNotations.
Open Scope Z_scope.
Ltac Zify.zify_post_hook ::= Z.to_euclidean_division_equations.

Lemma u8_noo l : noo (u8 l).  Proof. unfold u8. destruct l; [unfold noo; discriminate | apply noo_ok]. Qed.
Lemma res_value_noo l : noo (res_value l).
Proof. unfold res_value. apply noo_bind; [apply pu16_noo|]. intros [? ?]. apply noo_bind; [apply u8_noo|]. intros [? ?]. apply noo_bind; [apply u8_noo|]. intros [? ?].
  apply noo_bind; [apply pu32_noo|]. intros [? ?]. apply noo_ok. Qed.
Lemma read_items_noo : forall fuel n pos endp l, noo (read_items fuel n pos endp l).
Proof.
  induction fuel as [|f IH]; intros n pos endp l; cbn [read_items]; (destruct (n <=? 0); [apply noo_ok|]); [unfold noo; discriminate|].
  destruct (endp <? pos + 4); [apply noo_ok|]. apply noo_bind; [apply pu32_noo|]. intros [? ?]. apply noo_bind; [apply res_value_noo|]. intros [? ?].
  apply noo_bind; [apply IH|]. intros; apply noo_ok.
Qed.
Lemma parse_entry_noo buf pos endp rid : noo (parse_entry buf pos endp rid).
Proof.
  unfold parse_entry. apply noo_bind; [apply pu16_noo|]. intros [? ?]. apply noo_bind; [apply pu16_noo|]. intros [? ?]. apply noo_bind; [apply pu32_noo|]. intros [? ?].
  match goal with |- noo (if ?c then _ else _) => destruct c end.
  - apply noo_bind; [apply pu32_noo|]. intros [? ?]. apply noo_bind; [apply pu32_noo|]. intros [? ?]. apply noo_bind; [apply read_items_noo|]. intros; apply noo_ok.
  - match goal with |- noo (if ?c then _ else _) => destruct c end; [apply noo_ok|]. apply noo_bind; [apply res_value_noo|]. intros [? ?]. apply noo_ok.
Qed.
Lemma read_offsets_noo : forall fuel flags i count base l, noo (read_offsets fuel flags i count base l).
Proof.
  induction fuel as [|f IH]; intros flags i count base l; cbn [read_offsets]; (destruct (count <=? i); [apply noo_ok|]); [unfold noo; discriminate|].
  destruct (negb (Z.land flags 1 =? 0)); [|destruct (negb (Z.land flags 2 =? 0))].
  - apply noo_bind; [apply pu16_noo|]. intros [? ?]. apply noo_bind; [apply pu16_noo|]. intros [? ?]. apply noo_bind; [apply IH|]. intros; apply noo_ok.
  - apply noo_bind; [apply pu16_noo|]. intros [? ?]. apply noo_bind; [apply IH|]. intros; apply noo_ok.
  - apply noo_bind; [apply pu32_noo|]. intros [? ?]. apply noo_bind; [apply IH|]. intros; apply noo_ok.
Qed.
Lemma map_res_noo {A B} (f : A -> result B) : (forall x, noo (f x)) -> forall l, noo (map_res f l).
Proof. intros H. induction l as [|x l IH]; cbn [map_res]; [apply noo_ok|]. apply noo_bind; [apply H|]. intros y. apply noo_bind; [exact IH|]. intros; apply noo_ok. Qed.
Lemma strict_field_noo n st : noo st -> noo (strict_field n st).
Proof. intros H. unfold strict_field. apply noo_bind; [exact H|]. intros [c r]. destruct (r <? n); [unfold noo; discriminate | apply noo_ok]. Qed.
Lemma lenient_field_noo n st : noo st -> noo (lenient_field n st).
Proof. intros H. unfold lenient_field. apply noo_bind; [exact H|]. intros [c r]. apply noo_ok. Qed.
Lemma config_len_noo l : noo (config_len l).
Proof.
  unfold config_len. apply noo_bind; [apply pu32_noo|]. intros [size ?]. cbv zeta. apply noo_bind; [|intros [c r]; apply noo_ok].
  repeat match goal with
  | |- noo (if ?b then _ else _) => destruct b
  | |- noo (strict_field _ _) => apply strict_field_noo
  | |- noo (lenient_field _ _) => apply lenient_field_noo
  | |- noo (Ok _) => apply noo_ok
  end.
Qed.
Lemma parse_type_chunk_noo buf start pkg : noo (parse_type_chunk buf start pkg).
Proof.
  unfold parse_type_chunk. apply noo_bind; [apply pu16_noo|]. intros [? ?]. apply noo_bind; [apply pu16_noo|]. intros [? ?]. apply noo_bind; [apply pu32_noo|]. intros [? ?].
  apply noo_bind; [apply u8_noo|]. intros [? ?]. apply noo_bind; [apply u8_noo|]. intros [? ?]. apply noo_bind; [apply pu16_noo|]. intros [? ?].
  apply noo_bind; [apply pu32_noo|]. intros [? ?]. apply noo_bind; [apply pu32_noo|]. intros [? ?]. apply noo_bind; [apply config_len_noo|]. intros clen. apply noo_bind; [apply read_offsets_noo|]. intros offs.
  apply noo_bind; [apply map_res_noo; intros; apply parse_entry_noo|]. intros; apply noo_ok.
Qed.
Lemma pool_at_noo buf after size : noo (pool_at buf after size).  Proof. apply parse_pool_noo. Qed.

(* a chunk loop that goes on at start + size of an accepted header, from a position pos >= 0 *)
Lemma header_noo buf pos e : 0 <= pos -> noo (arsc_header buf pos e).
Proof. intros H. exact (arsc_header_ends buf pos e H). Qed.

Lemma package_chunks_noo buf tpool pend pkgid : forall fuel pos acc, 0 <= pos -> need buf pos <= Z.of_nat fuel -> noo (package_chunks fuel buf tpool pos pend pkgid acc).
Proof.
  induction fuel as [|f IH]; intros pos acc H0 Hn; [unfold need in Hn; lia|]. cbn [package_chunks]. destruct (pend - 8 <? pos); [apply noo_ok|].
  pose proof (header_noo buf pos 0 H0) as N. destruct (arsc_header buf pos 0) as [h|e] eqn:EH; cbn [bind]; [|unfold noo in *; intros X; apply N; injection X as ->; reflexivity].
  destruct h as [|ty [|hs [|sz [|start [|after [|? ?]]]]]]; try (unfold noo; discriminate).
  destruct (arsc_header_facts _ _ _ _ _ _ _ _ H0 EH) as (-> & F1 & F2 & F3).
  assert (Next : forall acc', noo (package_chunks f buf tpool (pos + sz) pend pkgid acc')) by (intros; apply IH; unfold need in *; lia).
  destruct (pend <? pos + sz); [apply noo_ok|]. destruct (ty =? RES_TABLE_TYPE_SPEC).
  - apply noo_bind; [apply u8_noo|]. intros [? ?]. apply noo_bind; [apply u8_noo|]. intros [? ?]. apply noo_bind; [apply pu16_noo|]. intros [? ?]. apply Next.
  - destruct (ty =? RES_TABLE_TYPE); [|apply Next]. apply noo_bind; [apply u8_noo|]. intros [tid ?]. apply noo_bind; [apply get_string_noo|]. intros _.
    apply noo_bind; [apply parse_type_chunk_noo|]. intros t. apply Next.
Qed.
Lemma noo_bind_eq {A B} (a : result A) (f : A -> result B) : noo a -> (forall x, a = Ok x -> noo (f x)) -> noo (bind a f).
Proof. unfold noo. destruct a as [x|e]; cbn [bind]; [intros _ H; now apply H | intros H _ X; apply H; congruence]. Qed.
Definition nonneg (l : list Z) : Prop := Forall (fun b => 0 <= b) l.
Lemma nonneg_dropz : forall l n, nonneg l -> nonneg (PoolModel.dropz n l).
Proof. induction l as [|x l IH]; intros n H; cbn [PoolModel.dropz]; [constructor|]. destruct (n <=? 0); [exact H|]. inversion H; subst. now apply IH. Qed.
Lemma nonneg_at buf p : nonneg buf -> nonneg (at_ buf p).
Proof. intros H. unfold at_. destruct (p <? 0); [constructor | now apply nonneg_dropz]. Qed.
Lemma u32_nonneg l v r : nonneg l -> PoolModel.u32 l = Ok (v, r) -> 0 <= v /\ nonneg r.
Proof.
  intros H E. destruct l as [|a [|b [|c [|d l]]]]; try discriminate.
  assert (Ev : v = a + 256 * b + 65536 * c + 16777216 * d /\ r = l) by (unfold PoolModel.u32 in E; split; congruence). destruct Ev as [-> ->].
  inversion H as [|? ? Ha H1]; subst. inversion H1 as [|? ? Hb H2]; subst. inversion H2 as [|? ? Hc H3]; subst. inversion H3 as [|? ? Hd H4]; subst. cbv beta in *. split; [lia | exact H4].
Qed.
Lemma arsc_header_sizes buf start e ty hs sz st after : arsc_header buf start e = Ok [ty; hs; sz; st; after] -> 8 <= hs /\ 8 <= sz.
Proof.
  unfold arsc_header. destruct (TermModel.len buf <? start + 8); [discriminate|].
  destruct (arsc_loop (arsc_fuel buf start) buf start) as [[[[ty' hs'] sz'] cur]|x]; cbn [bind]; [|discriminate].
  destruct (negb (e =? 0) && negb (ty' =? e)); [discriminate|]. destruct (hs' <? 8) eqn:E1; [discriminate|]. destruct (sz' <? 8) eqn:E2; [discriminate|].
  destruct (sz' <? hs'); [discriminate|]. intros H. injection H as _ <- <- _ _. lia.
Qed.

Lemma table_chunks_noo buf hend pkgcount : nonneg buf -> forall fuel pos seen acc, 0 <= pos -> need buf pos <= Z.of_nat fuel -> noo (table_chunks fuel buf pos hend pkgcount seen acc).
Proof.
  intros Hb. induction fuel as [|f IH]; intros pos seen acc H0 Hn; [unfold need in Hn; lia|]. cbn [table_chunks]. destruct (hend - 8 <? pos); [apply noo_ok|].
  pose proof (header_noo buf pos 0 H0) as N. destruct (arsc_header buf pos 0) as [h|e] eqn:EH; cbn [bind]; [|unfold noo in *; intros X; apply N; injection X as ->; reflexivity].
  destruct h as [|ty [|hs [|sz [|start [|after [|? ?]]]]]]; try (unfold noo; discriminate).
  destruct (arsc_header_facts _ _ _ _ _ _ _ _ H0 EH) as (-> & F1 & F2 & F3). destruct (arsc_header_sizes _ _ _ _ _ _ _ _ EH) as [Fh Fs].
  assert (Next : forall seen' acc', noo (table_chunks f buf (pos + sz) hend pkgcount seen' acc')) by (intros; apply IH; unfold need in *; lia).
  destruct (hend <? pos + sz); [apply noo_ok|]. destruct (ty =? RES_STRING_POOL).
  { destruct seen; [apply Next|]. apply noo_bind; [apply pool_at_noo|]. intros; apply Next. }
  destruct (ty =? RES_TABLE_PACKAGE); [|apply Next].
  destruct (pkgcount <? Z.of_nat (length acc)); [unfold noo; discriminate|].
  pose proof (nonneg_at buf after Hb) as Nb.
  apply noo_bind_eq; [apply pu32_noo|]. intros [pid b1] E1.
  destruct (u32_nonneg _ _ _ Nb E1) as [_ Nb1]. pose proof (nonneg_dropz b1 256 Nb1) as Nb1'.
  apply noo_bind_eq; [apply pu32_noo|]. intros [tstr b2] E2.
  destruct (u32_nonneg _ _ _ Nb1' E2) as [T0 Nb2].
  apply noo_bind_eq; [apply pu32_noo|]. intros [lpt b3] E3.
  destruct (u32_nonneg _ _ _ Nb2 E3) as [_ Nb3].
  apply noo_bind_eq; [apply pu32_noo|]. intros [kstr b4] E4.
  destruct (u32_nonneg _ _ _ Nb3 E4) as [K0 Nb4].
  apply noo_bind; [apply pu32_noo|]. intros [? ?].
  apply noo_bind_eq; [apply header_noo; lia|]. intros th ET.
  destruct th as [|? [|? [|tsz [|? [|tafter [|? ?]]]]]]; try (unfold noo; discriminate).
  destruct (arsc_header_sizes _ _ _ _ _ _ _ _ ET) as [_ Ft].
  apply noo_bind; [apply pool_at_noo|]. intros tpool.
  apply noo_bind_eq; [apply header_noo; lia|]. intros kh EK.
  destruct kh as [|? [|? [|ksz [|? [|kafter [|? ?]]]]]]; try (unfold noo; discriminate).
  destruct (arsc_header_sizes _ _ _ _ _ _ _ _ EK) as [_ Fk].
  apply noo_bind; [apply pool_at_noo|]. intros _.
  apply noo_bind; [apply package_chunks_noo; [lia | apply need_le_length; lia]|]. intros ts. apply Next.
Qed.
Theorem parse_table_ends buf : nonneg buf -> parse_table buf <> Err OutOfFuel.
Proof.
  intros Hb. change (noo (parse_table buf)). unfold parse_table. match goal with |- noo (if ?c then _ else _) => destruct c end; [unfold noo; discriminate|].
  pose proof (header_noo buf 0 RES_TABLE (Z.le_refl 0)) as N. destruct (arsc_header buf 0 RES_TABLE) as [h|e] eqn:EH; cbn [bind]; [|unfold noo in *; intros X; apply N; injection X as ->; reflexivity].
  destruct h as [|ty [|hs [|sz [|start [|after [|? ?]]]]]]; try (unfold noo; discriminate).
  destruct (arsc_header_facts _ _ _ _ _ _ _ _ (Z.le_refl 0) EH) as (-> & F1 & F2 & F3). destruct (arsc_header_sizes _ _ _ _ _ _ _ _ EH) as [Fh Fs].
  match goal with |- noo (if ?c then _ else _) => destruct c end; [unfold noo; discriminate|]. apply noo_bind; [apply pu32_noo|]. intros [pkgcount ?].
  apply table_chunks_noo; [exact Hb | lia | apply need_le_length; lia].
Qed.
