(* C27 - hand-written model of format_value and complexToFloat (androguard/core/axml/__init__.py).
   A str is a list of code points.  Floating point: every double that occurs is an exact dyadic
   rational here (a 24-bit mantissa times a power of two, times 100 for fractions; an IEEE single
   widened to double), so it is represented exactly as (negative?, numerator, denominator) and
   '%f' / '{:f}' is the correctly rounded (half to even) six-decimal rendering of that fraction.
   Tied to the source by tools/props/c27.py. *)
From Coq Require Import ZArith List Bool.
Require Import V.Lib.Val V.Lib.Result V.Lib.Fmt.
Import ListNotations.
Open Scope Z_scope.

Definition TYPE_NULL := 0.        Definition TYPE_REFERENCE := 1.   Definition TYPE_ATTRIBUTE := 2.
Definition TYPE_STRING := 3.      Definition TYPE_FLOAT := 4.       Definition TYPE_DIMENSION := 5.
Definition TYPE_FRACTION := 6.    Definition TYPE_FIRST_INT := 16.  Definition TYPE_INT_DEC := 16.
Definition TYPE_INT_HEX := 17.    Definition TYPE_INT_BOOLEAN := 18.
Definition TYPE_FIRST_COLOR_INT := 28.  Definition TYPE_LAST_COLOR_INT := 31.  Definition TYPE_LAST_INT := 31.

(* an exact value: (-1)^neg * num / den,  num >= 0, den > 0 *)
Record frac := { neg : bool; num : Z; den : Z }.

(* '%f' % x  for the double x = value of the fraction *)
Definition round_half_even (n d : Z) : Z :=
  let q := n / d in let r := n mod d in
  if d <? 2 * r then q + 1 else if 2 * r =? d then (if Z.even q then q else q + 1) else q.
Definition fmt_f (x : frac) : list Z :=
  let m := round_half_even (num x * 1000000) (den x) in
  (if neg x then [45] else []) ++ dec (m / 1000000) ++ [46] ++ pad0 6 (dec (m mod 1000000)).

(* complexToFloat(xcomplex) *)
Definition radix_den (r : Z) : Z :=
  if r =? 0 then 2 ^ 8 else if r =? 1 then 2 ^ 15 else if r =? 2 then 2 ^ 23 else 2 ^ 31.
Definition complex_to_float (x : Z) : frac :=
  let mantissa := Z.land x 4294967040 in                                   (* & 0xFFFFFF00 *)
  let mantissa := if Z.land mantissa 2147483648 =? 0 then mantissa else mantissa - 4294967296 in
  {| neg := mantissa <? 0; num := Z.abs mantissa; den := radix_den (Z.land (Z.shiftr x 4) 3) |}.

(* unpack("=f", pack("=L", data))[0] : None for NaN, the fraction otherwise (infinity as den = 0) *)
Definition float32 (bits : Z) : option frac :=
  let s := Z.shiftr bits 31 =? 1 in
  let e := Z.land (Z.shiftr bits 23) 255 in
  let f := Z.land bits 8388607 in
  if e =? 255 then (if f =? 0 then Some {| neg := s; num := 1; den := 0 |} else None)
  else if e =? 0 then Some {| neg := s; num := f; den := 2 ^ 149 |}
  else if 150 <=? e then Some {| neg := s; num := (8388608 + f) * 2 ^ (e - 150); den := 1 |}
  else Some {| neg := s; num := 8388608 + f; den := 2 ^ (150 - e) |}.

Definition S_android := [97; 110; 100; 114; 111; 105; 100; 58].      (* 'android:' *)
Definition fmt_package (x : Z) : list Z := if Z.shiftr x 24 =? 1 then S_android else [].
Definition fmt_int (x : Z) : Z := if 2147483647 <? x then Z.land 2147483647 x - 2147483648 else x.

Definition DIMENSION_UNITS : list (list Z) :=
  [[112; 120]; [100; 105; 112]; [115; 112]; [112; 116]; [105; 110]; [109; 109]].     (* px dip sp pt in mm *)
Definition FRACTION_UNITS : list (list Z) := [[37]; [37; 112]].                      (* % %p *)
Definition unit_of (units : list (list Z)) (data : Z) : result (list Z) :=
  match nth_error units (Z.to_nat (Z.land data 15)) with Some u => Ok u | None => Err IndexError end.

Definition format_value (lookup : Z -> list Z) (ty data : Z) : result (list Z) :=
  if ty =? TYPE_STRING then Ok (lookup data)
  else if ty =? TYPE_ATTRIBUTE then Ok ([63] ++ fmt_package data ++ hex8 data)
  else if ty =? TYPE_REFERENCE then Ok ([64] ++ fmt_package data ++ hex8 data)
  else if ty =? TYPE_FLOAT then
    Ok (match float32 data with
        | None => [110; 97; 110]                                                       (* nan *)
        | Some x => if den x =? 0 then (if neg x then [45] else []) ++ [105; 110; 102] (* inf *)
                    else fmt_f x
        end)
  else if ty =? TYPE_INT_HEX then Ok ([48; 120] ++ hex8 data)
  else if ty =? TYPE_INT_BOOLEAN then Ok (if data =? 0 then [102; 97; 108; 115; 101] else [116; 114; 117; 101])
  else if ty =? TYPE_DIMENSION then
    match unit_of DIMENSION_UNITS data with
    | Ok u => Ok (fmt_f (complex_to_float data) ++ u)
    | Err e => Err e
    end
  else if ty =? TYPE_FRACTION then
    match unit_of FRACTION_UNITS data with
    | Ok u => let x := complex_to_float data in
              Ok (fmt_f {| neg := neg x; num := num x * 100; den := den x |} ++ u)
    | Err e => Err e
    end
  else if (TYPE_FIRST_COLOR_INT <=? ty) && (ty <=? TYPE_LAST_COLOR_INT) then Ok ([35] ++ hex8 data)
  else if (TYPE_FIRST_INT <=? ty) && (ty <=? TYPE_LAST_INT) then Ok (sdec (fmt_int data))
  else Ok ([60; 48; 120] ++ hexU data ++ [44; 32; 116; 121; 112; 101; 32; 48; 120] ++ hex2 ty ++ [62]).

Definition S_string := [60; 115; 116; 114; 105; 110; 103; 62].      (* '<string>', the default lookup_string *)
Definition obs_format (i : Z * Z) : val := vres VStr (format_value (fun _ => S_string) (fst i) (snd i)).
