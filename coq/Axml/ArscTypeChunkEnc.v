(* C28 - the whole type chunk in each of the three encodings of the entry-offset array: 32-bit offsets, 16-bit offsets
   (FLAG_OFFSET16) and sparse (FLAG_SPARSE) *)
From Coq Require Import ZArith List Bool Lia ZifyBool.
Require Import V.Lib.Val V.Lib.Result V.Lib.Struct V.Axml.PoolModel V.Axml.ArscTypeModel V.Axml.ArscTypeProofs V.Axml.ArscComplex V.Axml.ArscTypeChunk.
Import ListNotations.
Open Scope Z_scope.
Ltac Zify.zify_post_hook ::= Z.to_euclidean_division_equations.

Definition type_chunk_bytes_gen (tid fl cnt : Z) (cfg oa : list Z) (slots : list (option erec)) : list Z :=
  let hs := 20 + len cfg in
  let estart := hs + len oa in
  b16 513 ++ b16 hs ++ b32 (estart + len (body_bytes slots)) ++ [tid; fl] ++ b16 0 ++ b32 cnt ++ b32 estart ++ cfg ++ oa ++ body_bytes slots.

(* whatever the encoding: if the offset array is read back as the offsets of the slots, the chunk is read back as its entries *)
Theorem type_chunk_exact_gen pre tid fl cnt S tail oa slots rest pkg :
  52 <= S < 65516 -> len tail = S - 4 -> Forall wf_slot slots -> 0 <= cnt < 4294967296 ->
  20 + S + len oa + len (body_bytes slots) < 4294967295 ->
  (forall fuel rest', len oa <= Z.of_nat fuel ->
     read_offsets fuel fl 0 cnt (pkg * 16777216 + tid * 65536) (oa ++ rest') = Ok (present (pkg * 16777216 + tid * 65536) 0 (slot_offsets 0 slots))) ->
  parse_type_chunk (pre ++ type_chunk_bytes_gen tid fl cnt (b32 S ++ tail) oa slots ++ rest) (len pre) pkg =
  Ok {| t_id := tid; t_flags := fl; t_count := cnt; t_entries := expected (pkg * 16777216 + tid * 65536) 0 slots |}.
Proof.
  intros HS Ht Hw Hc Hsz HOA. set (cfg := b32 S ++ tail) in *.
  assert (Lc : len cfg = S) by (unfold cfg; rewrite len_app; change (len (b32 S)) with 4; lia).
  pose proof (len_nonneg (body_bytes slots)) as Lb. pose proof (len_nonneg oa) as Lo.
  unfold parse_type_chunk. rewrite at_app. unfold type_chunk_bytes_gen. cbv zeta. rewrite Lc. rewrite <- !app_assoc.
  rewrite u16_b16 by lia. cbn [bind]. rewrite u16_b16 by lia. cbn [bind]. rewrite u32_b32 by lia. cbn [bind].
  cbn [app u8 bind]. rewrite u16_b16 by lia. cbn [bind]. rewrite u32_b32 by lia. cbn [bind]. rewrite u32_b32 by lia. cbn [bind].
  unfold cfg at 1. rewrite <- !app_assoc. rewrite config_len_exact by lia. cbn [bind].
  set (body := body_bytes slots) in *.
  set (hdr := b16 513 ++ b16 (20 + S) ++ b32 (20 + S + len oa + len body) ++ [tid; fl] ++ b16 0 ++ b32 cnt ++ b32 (20 + S + len oa)).
  assert (Lh : len hdr = 20) by reflexivity.
  assert (Ebuf : pre ++ b16 513 ++ b16 (20 + S) ++ b32 (20 + S + len oa + len body) ++ tid :: fl :: b16 0 ++ b32 cnt ++ b32 (20 + S + len oa) ++ cfg ++ oa ++ body ++ rest
                 = (pre ++ hdr ++ cfg) ++ oa ++ body ++ rest).
  { unfold hdr. rewrite <- !app_assoc. reflexivity. }
  rewrite Ebuf. replace (len pre + 20 + S) with (len (pre ++ hdr ++ cfg)) by (rewrite !len_app, Lh, Lc; lia).
  rewrite at_app. rewrite HOA.
  2:{ unfold len. rewrite !app_length. lia. }
  cbn [bind].
  pose proof (entries_at_offsets slots ((pre ++ hdr ++ cfg) ++ oa) [] rest
                (len pre + (20 + S + len oa + len body)) (pkg * 16777216 + tid * 65536) 0 Hw) as EA.
  change (len []) with 0 in EA. cbn [app] in EA. fold body in EA.
  rewrite !len_app, Lh, Lc in EA. rewrite <- !app_assoc in EA. rewrite <- !app_assoc.
  erewrite map_res_ext; [rewrite EA by lia; reflexivity|].
  intros p. cbv beta. f_equal. lia.
Qed.

(* ---------------------------------------------------------------- the three encodings *)
Lemma len_erec_mod4 r : len (erec_bytes r) mod 4 = 0 /\ 0 < len (erec_bytes r).
Proof.
  destruct r as [fl ix ty da|k ty da|sz fl ix pa items].
  - change (len (erec_bytes (RPlain fl ix ty da))) with 16. lia.
  - change (len (erec_bytes (RCompact k ty da))) with 8. lia.
  - rewrite len_erec_complex. lia.
Qed.
Lemma slot_offsets_ok16 : forall slots a, 0 <= a -> a mod 4 = 0 -> a + len (body_bytes slots) < 4 * 65535 -> Forall ok16 (slot_offsets a slots).
Proof.
  induction slots as [|[e|] r IH]; intros a Ha Hm Hb; cbn [slot_offsets]; [constructor| |].
  - unfold body_bytes in Hb. cbn [flat_map slot_bytes] in Hb. rewrite len_app in Hb. destruct (len_erec_mod4 e) as [M P]. pose proof (len_nonneg (flat_map slot_bytes r)).
    constructor; [cbn [ok16]; lia | apply IH; [lia | lia | unfold body_bytes; lia]].
  - constructor; [exact I | apply IH; assumption].
Qed.
Lemma len_enc16s l : len (flat_map enc16 l) = 2 * Z.of_nat (length l).
Proof. induction l as [|o l IH]; [reflexivity|]. cbn [flat_map length]. rewrite len_app, IH. change (len (enc16 o)) with 2. lia. Qed.

(* 32-bit offsets: the theorem of ArscTypeChunk.v again, as an instance *)
Theorem type_chunk_dense pre tid S tail slots rest pkg :
  52 <= S < 65516 -> len tail = S - 4 -> Forall wf_slot slots -> 20 + S + 4 * Z.of_nat (length slots) + len (body_bytes slots) < 4294967295 ->
  parse_type_chunk (pre ++ type_chunk_bytes_gen tid 0 (Z.of_nat (length slots)) (b32 S ++ tail) (flat_map enc32 (slot_offsets 0 slots)) slots ++ rest) (len pre) pkg =
  Ok {| t_id := tid; t_flags := 0; t_count := Z.of_nat (length slots); t_entries := expected (pkg * 16777216 + tid * 65536) 0 slots |}.
Proof.
  intros HS Ht Hw Hsz. pose proof (len_nonneg (body_bytes slots)) as Lb.
  apply type_chunk_exact_gen; try assumption; [lia | rewrite len_enc32s, slot_offsets_length; lia|].
  intros fuel rest' Hf. rewrite len_enc32s, slot_offsets_length in Hf.
  pose proof (dense_offsets_exact (slot_offsets 0 slots) fuel 0 (pkg * 16777216 + tid * 65536) rest') as D.
  rewrite slot_offsets_length in D. cbn [Z.add] in D. apply D; [apply slot_offsets_ok32; lia | lia].
Qed.
(* 16-bit offsets (FLAG_OFFSET16): offset / 4 in two bytes, 0xffff for a missing entry *)
Theorem type_chunk_offset16 pre tid S tail slots rest pkg :
  52 <= S < 65516 -> len tail = S - 4 -> Forall wf_slot slots -> len (body_bytes slots) < 4 * 65535 -> 20 + S + 2 * Z.of_nat (length slots) + len (body_bytes slots) < 4294967295 ->
  parse_type_chunk (pre ++ type_chunk_bytes_gen tid 2 (Z.of_nat (length slots)) (b32 S ++ tail) (flat_map enc16 (slot_offsets 0 slots)) slots ++ rest) (len pre) pkg =
  Ok {| t_id := tid; t_flags := 2; t_count := Z.of_nat (length slots); t_entries := expected (pkg * 16777216 + tid * 65536) 0 slots |}.
Proof.
  intros HS Ht Hw Hb Hn. pose proof (len_nonneg (body_bytes slots)) as Lb.
  apply type_chunk_exact_gen; try assumption; [lia | rewrite len_enc16s, slot_offsets_length; lia|].
  intros fuel rest' Hf. rewrite len_enc16s, slot_offsets_length in Hf.
  pose proof (offset16_offsets_exact (slot_offsets 0 slots) fuel 0 (pkg * 16777216 + tid * 65536) rest') as D.
  rewrite slot_offsets_length in D. cbn [Z.add] in D. apply D; [apply slot_offsets_ok16; lia | lia].
Qed.

(* sparse (FLAG_SPARSE): only the existing entries are listed, each as (index, offset / 4) *)
Fixpoint sparse_items (i at0 : Z) (slots : list (option erec)) : list (Z * Z) :=
  match slots with
  | [] => []
  | None :: r => sparse_items (i + 1) at0 r
  | Some e :: r => (i, at0) :: sparse_items (i + 1) (at0 + len (erec_bytes e)) r
  end.
Lemma sparse_items_present : forall slots base i a,
  map (fun p => (snd p, base + fst p)) (sparse_items i a slots) = present base i (slot_offsets a slots).
Proof. induction slots as [|[e|] r IH]; intros base i a; cbn [sparse_items slot_offsets present map fst snd]; [reflexivity | now rewrite IH | apply IH]. Qed.
Lemma sparse_items_ok : forall slots i a, 0 <= i -> i + Z.of_nat (length slots) <= 65536 -> 0 <= a -> a mod 4 = 0 -> a + len (body_bytes slots) < 4 * 65536 ->
  Forall ok_sparse (sparse_items i a slots).
Proof.
  induction slots as [|[e|] r IH]; intros i a Hi Hn Ha Hm Hb; cbn [sparse_items]; [constructor| |]; cbn [length] in Hn.
  - unfold body_bytes in Hb. cbn [flat_map slot_bytes] in Hb. rewrite len_app in Hb. destruct (len_erec_mod4 e) as [M P]. pose proof (len_nonneg (flat_map slot_bytes r)).
    constructor; [unfold ok_sparse; cbn [fst snd]; lia | apply IH; [lia | lia | lia | lia | unfold body_bytes; lia]].
  - apply IH; try lia. exact Hb.
Qed.
Lemma sparse_items_length : forall slots i a, (length (sparse_items i a slots) <= length slots)%nat.
Proof. induction slots as [|[e|] r IH]; intros i a; cbn [sparse_items length]; [lia | specialize (IH (i + 1) (a + len (erec_bytes e))); lia | specialize (IH (i + 1) a); lia]. Qed.
Lemma len_sparse l : len (flat_map enc_sparse l) = 4 * Z.of_nat (length l).
Proof. induction l as [|o l IH]; [reflexivity|]. cbn [flat_map length]. rewrite len_app, IH. change (len (enc_sparse o)) with 4. lia. Qed.
Theorem type_chunk_sparse pre tid S tail slots rest pkg :
  52 <= S < 65516 -> len tail = S - 4 -> Forall wf_slot slots -> len (body_bytes slots) < 4 * 65536 -> Z.of_nat (length slots) <= 65536 ->
  let items := sparse_items 0 0 slots in
  parse_type_chunk (pre ++ type_chunk_bytes_gen tid 1 (Z.of_nat (length items)) (b32 S ++ tail) (flat_map enc_sparse items) slots ++ rest) (len pre) pkg =
  Ok {| t_id := tid; t_flags := 1; t_count := Z.of_nat (length items); t_entries := expected (pkg * 16777216 + tid * 65536) 0 slots |}.
Proof.
  intros HS Ht Hw Hb Hn items. pose proof (len_nonneg (body_bytes slots)) as Lb. pose proof (sparse_items_length slots 0 0) as Ll. fold items in Ll.
  apply type_chunk_exact_gen; try assumption; [lia | rewrite len_sparse; lia|].
  intros fuel rest' Hf. rewrite len_sparse in Hf.
  pose proof (sparse_offsets_exact items fuel 0 (pkg * 16777216 + tid * 65536) rest') as D. cbn [Z.add] in D.
  rewrite D; [unfold items; now rewrite sparse_items_present | apply sparse_items_ok; lia | lia].
Qed.

(* a chunk with 16-bit offsets and a sparse chunk, evaluated *)
Example encodings_example :
  let slots := [Some (RPlain 0 7 3 42); None; Some (RCompact 9 16 1000)] in
  parse_type_chunk ([5] ++ type_chunk_bytes_gen 2 2 3 (b32 64 ++ repeat 0 60) (flat_map enc16 (slot_offsets 0 slots)) slots ++ [1]) 1 127 =
    Ok {| t_id := 2; t_flags := 2; t_count := 3; t_entries := expected (127 * 16777216 + 2 * 65536) 0 slots |} /\
  parse_type_chunk ([5] ++ type_chunk_bytes_gen 2 1 2 (b32 64 ++ repeat 0 60) (flat_map enc_sparse (sparse_items 0 0 slots)) slots ++ [1]) 1 127 =
    Ok {| t_id := 2; t_flags := 1; t_count := 2; t_entries := expected (127 * 16777216 + 2 * 65536) 0 slots |}.
Proof. split; vm_compute; reflexivity. Qed.
Print Assumptions type_chunk_sparse.
