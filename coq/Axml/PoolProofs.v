(* C26 / C28 / C31 - proofs about coq/Axml/PoolModel.v: every string stored in a string pool, UTF-16 or UTF-8, with a one-
   or a two-unit length prefix, is read back exactly by getString *)
From Coq Require Import ZArith List Bool Lia ZifyBool.
Require Import V.Lib.Val V.Lib.Result V.Axml.PoolModel.
Import ListNotations.
Open Scope Z_scope.
Ltac Zify.zify_post_hook ::= Z.to_euclidean_division_equations.

(* ---------------------------------------------------------------- lists *)
Lemma len_app (a b : list Z) : len (a ++ b) = len a + len b.
Proof. unfold len. rewrite app_length. lia. Qed.
Lemma len_nonneg (a : list Z) : 0 <= len a.  Proof. unfold len. lia. Qed.
Lemma dropz_app pre l : dropz (len pre) (pre ++ l) = l.
Proof.
  induction pre as [|x pre IH]; cbn [app].
  - destruct l; reflexivity.
  - cbn [dropz]. replace (len (x :: pre) <=? 0) with false by (unfold len; cbn [length]; lia).
    replace (len (x :: pre) - 1) with (len pre) by (unfold len; cbn [length]; lia). exact IH.
Qed.
Lemma dropz_app2 pre a l : dropz (len pre + len a) (pre ++ a ++ l) = l.
Proof. rewrite <- len_app, app_assoc. apply dropz_app. Qed.
Lemma takez_app a l : takez (len a) (a ++ l) = a.
Proof.
  induction a as [|x a IH]; cbn [app].
  - destruct l; [reflexivity|]. cbn [takez]. reflexivity.
  - cbn [takez]. replace (len (x :: a) <=? 0) with false by (unfold len; cbn [length]; lia).
    replace (len (x :: a) - 1) with (len a) by (unfold len; cbn [length]; lia). now rewrite IH.
Qed.
Lemma slice_mid pre a l : slice (pre ++ a ++ l) (len pre) (len a) = a.
Proof. unfold slice. rewrite dropz_app. apply takez_app. Qed.
Lemma slice_mid2 pre b a l : slice (pre ++ b ++ a ++ l) (len pre + len b) (len a) = a.
Proof. unfold slice. rewrite dropz_app2. apply takez_app. Qed.

(* ---------------------------------------------------------------- UTF-16 *)
Definition le2 (u : Z) : list Z := [u mod 256; u / 256].
Definition valid_cp (c : Z) : Prop := 0 <= c < 1114112 /\ ~ (55296 <= c < 57344).
Definition units_of_cp (c : Z) : list Z := if c <? 65536 then [c] else [55296 + (c - 65536) / 1024; 56320 + (c - 65536) mod 1024].
Definition units16 (s : str) : list Z := flat_map units_of_cp s.
Definition unit_ok (u : Z) : Prop := 0 <= u < 65536.
Lemma units16_ok s : Forall valid_cp s -> Forall unit_ok (units16 s).
Proof.
  induction 1 as [|c s [Hc Hs] _ IH]; [constructor|]. unfold units16. cbn [flat_map]. apply Forall_app. split; [|exact IH].
  unfold units_of_cp. destruct (c <? 65536) eqn:E; repeat constructor; unfold unit_ok; lia.
Qed.
Lemma units_of_bytes us : Forall unit_ok us -> units_of (flat_map le2 us) = us.
Proof. induction 1 as [|u us Hu _ IH]; [reflexivity|]. cbn [flat_map le2 app units_of]. rewrite IH. f_equal. unfold unit_ok in Hu. lia. Qed.
Lemma len_bytes us : len (flat_map le2 us) = 2 * len us.
Proof. induction us as [|u us IH]; [reflexivity|]. cbn [flat_map le2 app]. unfold len in *. cbn [length]. lia. Qed.
(* decoding the units of a string gives the string back: surrogate pairs are joined, nothing is replaced *)
Theorem utf16_points_units s : Forall valid_cp s -> utf16_points (units16 s) = s.
Proof.
  induction 1 as [|c s [Hc Hs] Hrest IH]; [reflexivity|]. unfold units16 in *. cbn [flat_map]. unfold units_of_cp at 1. destruct (c <? 65536) eqn:E.
  - assert (Nl : is_lo c = false) by (unfold is_lo; lia).
    assert (Nh : is_hi c = false) by (unfold is_hi; lia). remember (flat_map units_of_cp s) as r eqn:Er. cbn [app].
    destruct r as [|l t]; cbn [utf16_points]; rewrite ?Nh, ?Nl; cbn [andb orb]; rewrite <- IH; reflexivity.
  - cbn [app utf16_points]. replace (is_hi (55296 + (c - 65536) / 1024)) with true by (unfold is_hi; lia).
    replace (is_lo (56320 + (c - 65536) mod 1024)) with true by (unfold is_lo; lia). cbn [andb]. rewrite IH. f_equal. lia.
Qed.

(* the length prefix: one 16-bit unit below 0x8000, two units (high bit set on the first) from there on *)
Definition len16 (n : Z) : list Z := if n <? 32768 then le2 n else le2 (32768 + n / 65536) ++ le2 (n mod 65536).
Definition entry16 (s : str) : list Z := len16 (len (units16 s)) ++ flat_map le2 (units16 s) ++ [0; 0].
Lemma land_bit k x : 0 <= k -> 0 <= x < 2 ^ (k + 1) -> (Z.land x (2 ^ k) =? 0) = (x <? 2 ^ k).
Proof.
  intros Hk H. assert (P : 2 ^ (k + 1) = 2 * 2 ^ k) by (rewrite Z.pow_add_r by lia; change (2 ^ 1) with 2; lia). assert (Pk : 0 < 2 ^ k) by (apply Z.pow_pos_nonneg; lia). destruct (x <? 2 ^ k) eqn:E.
  - apply Z.eqb_eq. apply Z.bits_inj'. intros i Hi. rewrite Z.land_spec, Z.bits_0. destruct (Z.eq_dec i k) as [->|Hne].
    + destruct (Z.eq_dec x 0) as [->|]; [now rewrite Z.bits_0|]. rewrite (Z.bits_above_log2 x k); [reflexivity | lia |]. apply Z.log2_lt_pow2; lia.
    + rewrite Z.pow2_bits_false by lia. apply andb_false_r.
  - apply Z.eqb_neq. intros X. assert (T : Z.testbit (Z.land x (2 ^ k)) k = true).
    { rewrite Z.land_spec, Z.pow2_bits_true, andb_true_r by lia. rewrite Z.testbit_true by lia. assert (x / 2 ^ k = 1) by (symmetry; apply Z.div_unique with (x - 2 ^ k); lia). lia. }
    rewrite X in T. now rewrite Z.bits_0 in T.
Qed.
Lemma land_bit15 x : 0 <= x < 65536 -> (Z.land x 32768 =? 0) = (x <? 32768).
Proof. exact (land_bit 15 x ltac:(lia)). Qed.
Lemma land_bit7 x : 0 <= x < 256 -> (Z.land x 128 =? 0) = (x <? 128).
Proof. exact (land_bit 7 x ltac:(lia)). Qed.
Lemma land_low15 x : 0 <= x -> Z.land x 32767 = x mod 32768.
Proof. intros H. change 32767 with (Z.ones 15). rewrite Z.land_ones by lia. reflexivity. Qed.
Lemma land_low7 x : 0 <= x -> Z.land x 127 = x mod 128.
Proof. intros H. change 127 with (Z.ones 7). rewrite Z.land_ones by lia. reflexivity. Qed.
Lemma lor_shift k a b : 0 <= k -> 0 <= a -> 0 <= b < 2 ^ k -> Z.lor (Z.shiftl a k) b = a * 2 ^ k + b.
Proof.
  intros Hk Ha Hb. rewrite Z.shiftl_mul_pow2 by lia.
  assert (D : Z.land (a * 2 ^ k) b = 0).
  { apply Z.bits_inj'. intros i Hi. rewrite Z.land_spec, Z.bits_0. destruct (Z.ltb_spec i k).
    - rewrite Z.mul_pow2_bits_low by lia. reflexivity.
    - destruct (Z.eq_dec b 0) as [->|]; [rewrite Z.bits_0; apply andb_false_r|]. rewrite (Z.bits_above_log2 b i); [apply andb_false_r | lia |]. apply Z.lt_le_trans with k; [apply Z.log2_lt_pow2; lia | lia]. }
  rewrite <- (Z.lxor_lor _ _ D). symmetry. apply Z.add_nocarry_lxor, D.
Qed.
Lemma lor_shift16 a b : 0 <= a -> 0 <= b < 65536 -> Z.lor (Z.shiftl a 16) b = a * 65536 + b.
Proof. intros. exact (lor_shift 16 a b ltac:(lia) H H0). Qed.
Lemma lor_shift8 a b : 0 <= a -> 0 <= b < 256 -> Z.lor (Z.shiftl a 8) b = a * 256 + b.
Proof. intros. exact (lor_shift 8 a b ltac:(lia) H H0). Qed.
Lemma takez4 a b c d r : takez 4 (a :: b :: c :: d :: r) = [a; b; c; d].  Proof. destruct r; reflexivity. Qed.
Lemma decode_length16 pre n rest : 0 <= n < 2147483648 -> (2 <= len rest) ->
  decode_length (pre ++ len16 n ++ rest) (len pre) true = Ok (n, len (len16 n)).
Proof.
  intros Hn Hr. unfold decode_length, slice. rewrite dropz_app. unfold len16. destruct (n <? 32768) eqn:E.
  - destruct rest as [|c [|d rest]]; try (unfold len in Hr; cbn [length] in Hr; lia). cbn [le2 app]. rewrite takez4. cbv iota beta zeta.
    rewrite land_bit15 by lia. replace (n mod 256 + 256 * (n / 256) <? 32768) with true by lia. cbn [negb]. f_equal. f_equal. lia.
  - cbn [le2 app]. rewrite takez4. cbv iota beta zeta. set (l1 := (32768 + n / 65536) mod 256 + 256 * ((32768 + n / 65536) / 256)).
    assert (E1 : l1 = 32768 + n / 65536) by (unfold l1; lia). rewrite land_bit15 by lia. replace (l1 <? 32768) with false by lia. cbn [negb].
    rewrite land_low15 by lia. rewrite lor_shift16 by lia. f_equal. f_equal. lia.
Qed.
Theorem decode16_entry pre s post : Forall valid_cp s -> len (units16 s) < 2147483648 -> decode16 (pre ++ entry16 s ++ post) (len pre) = Ok s.
Proof.
  intros Hs Hn. unfold decode16, entry16. set (us := units16 s) in *. set (n := len us) in *.
  assert (N0 : 0 <= n) by apply len_nonneg.
  rewrite <- !app_assoc. rewrite decode_length16; [|lia|]. 2: { rewrite !len_app, len_bytes. pose proof (len_nonneg post). unfold len at 2. cbn [length]. lia. }
  cbn [bind]. set (L := len16 n).
  assert (Ec : len (pre ++ L ++ flat_map le2 us ++ [0; 0] ++ post) = len pre + len L + 2 * n + 2 + len post).
  { rewrite !len_app, len_bytes. unfold len at 4. cbn [length]. fold n. lia. }
  rewrite Ec. replace (len pre + len L + 2 * n + 2 + len post <? len pre + len L + 2 * n) with false by (pose proof (len_nonneg post); lia).
  replace (len pre + len L + 2 * n) with (len (pre ++ L ++ flat_map le2 us)) by (rewrite !len_app, len_bytes; fold n; lia).
  replace (pre ++ L ++ flat_map le2 us ++ [0; 0] ++ post) with ((pre ++ L ++ flat_map le2 us) ++ [0; 0] ++ post) by (rewrite <- !app_assoc; reflexivity).
  change 2 with (len [0; 0]) at 1. rewrite slice_mid.
  replace ((pre ++ L ++ flat_map le2 us) ++ [0; 0] ++ post) with (pre ++ L ++ flat_map le2 us ++ ([0; 0] ++ post)) by (rewrite <- !app_assoc; reflexivity).
  replace (2 * n) with (len (flat_map le2 us)) by (rewrite len_bytes; reflexivity). rewrite slice_mid2.
  rewrite units_of_bytes by (apply units16_ok; exact Hs). f_equal. now apply utf16_points_units.
Qed.

(* ---------------------------------------------------------------- UTF-8 *)
Definition utf8_of_cp (c : Z) : list Z :=
  if c <? 128 then [c] else if c <? 2048 then [192 + c / 64; 128 + c mod 64]
  else if c <? 65536 then [224 + c / 4096; 128 + (c / 64) mod 64; 128 + c mod 64]
  else [240 + c / 262144; 128 + (c / 4096) mod 64; 128 + (c / 64) mod 64; 128 + c mod 64].
Definition utf8 (s : str) : list Z := flat_map utf8_of_cp s.
Theorem utf8_points_utf8 : forall s fuel, Forall valid_cp s -> (length s <= fuel)%nat -> utf8_points fuel (utf8 s) = Ok s.
Proof.
  induction s as [|c s IH]; intros fuel Hs Hf; [destruct fuel; reflexivity|]. inversion Hs as [|? ? [Hc Hsur] Hs']; subst.
  destruct fuel as [|f]; [cbn [length] in Hf; lia|]. assert (Hf' : (length s <= f)%nat) by (cbn [length] in Hf; lia).
  unfold utf8. cbn [flat_map]. fold (utf8 s). unfold utf8_of_cp. destruct (c <? 128) eqn:E1; [|destruct (c <? 2048) eqn:E2; [|destruct (c <? 65536) eqn:E3]].
  - cbn [app utf8_points]. rewrite E1. rewrite IH by assumption. reflexivity.
  - cbn [app utf8_points]. replace (192 + c / 64 <? 128) with false by lia. replace ((194 <=? 192 + c / 64) && (192 + c / 64 <? 224)) with true by lia.
    replace (cont (128 + c mod 64)) with true by (unfold cont; lia). rewrite IH by assumption. cbn [bind]. f_equal. f_equal. lia.
  - cbn [app utf8_points]. replace (224 + c / 4096 <? 128) with false by lia. replace ((194 <=? 224 + c / 4096) && (224 + c / 4096 <? 224)) with false by lia.
    replace ((224 <=? 224 + c / 4096) && (224 + c / 4096 <? 240)) with true by lia.
    replace ((224 + c / 4096 - 224) * 4096 + (128 + (c / 64) mod 64 - 128) * 64 + (128 + c mod 64 - 128)) with c by lia.
    replace (cont (128 + (c / 64) mod 64)) with true by (unfold cont; lia). replace (cont (128 + c mod 64)) with true by (unfold cont; lia).
    replace (2048 <=? c) with true by lia. replace ((55296 <=? c) && (c <? 57344)) with false by lia. cbn [andb negb]. rewrite IH by assumption. reflexivity.
  - cbn [app utf8_points]. replace (240 + c / 262144 <? 128) with false by lia. replace ((194 <=? 240 + c / 262144) && (240 + c / 262144 <? 224)) with false by lia.
    replace ((224 <=? 240 + c / 262144) && (240 + c / 262144 <? 240)) with false by lia. replace ((240 <=? 240 + c / 262144) && (240 + c / 262144 <? 245)) with true by lia.
    replace ((240 + c / 262144 - 240) * 262144 + (128 + (c / 4096) mod 64 - 128) * 4096 + (128 + (c / 64) mod 64 - 128) * 64 + (128 + c mod 64 - 128)) with c by lia.
    replace (cont (128 + (c / 4096) mod 64)) with true by (unfold cont; lia). replace (cont (128 + (c / 64) mod 64)) with true by (unfold cont; lia).
    replace (cont (128 + c mod 64)) with true by (unfold cont; lia). replace (65536 <=? c) with true by lia. replace (c <? 1114112) with true by lia.
    cbn [andb]. rewrite IH by assumption. reflexivity.
Qed.
Lemma utf8_length_ge s : Forall valid_cp s -> Z.of_nat (length s) <= len (utf8 s).
Proof.
  induction 1 as [|c s _ _ IH]; [unfold len; cbn; lia|]. unfold utf8. cbn [flat_map]. fold (utf8 s). rewrite len_app. cbn [length].
  assert (1 <= len (utf8_of_cp c)) by (unfold utf8_of_cp; destruct (c <? 128), (c <? 2048), (c <? 65536); unfold len; cbn [length]; lia). lia.
Qed.

(* the length prefix of a UTF-8 pool: one byte below 0x80, two bytes (high bit set on the first) from there on *)
Definition len8 (n : Z) : list Z := if n <? 128 then [n] else [128 + n / 256; n mod 256].
Lemma takez2 a b r : takez 2 (a :: b :: r) = [a; b].  Proof. destruct r; reflexivity. Qed.
Lemma decode_length8 pre n rest : 0 <= n < 32768 -> 1 <= len rest -> decode_length (pre ++ len8 n ++ rest) (len pre) false = Ok (n, len (len8 n)).
Proof.
  intros Hn Hr. unfold decode_length, slice. rewrite dropz_app. unfold len8. destruct (n <? 128) eqn:E.
  - destruct rest as [|c rest]; [unfold len in Hr; cbn [length] in Hr; lia|]. cbn [app]. rewrite takez2. cbv iota beta.
    rewrite land_bit7 by lia. rewrite E. reflexivity.
  - cbn [app]. rewrite takez2. cbv iota beta. rewrite land_bit7 by lia. replace (128 + n / 256 <? 128) with false by lia. cbn [negb].
    rewrite land_low7 by lia. rewrite lor_shift8 by lia. f_equal. f_equal. lia.
Qed.
(* a UTF-8 pool entry: the length in UTF-16 units, the length in bytes, the bytes, a NUL *)
Definition entry8 (s : str) : list Z := len8 (len (units16 s)) ++ len8 (len (utf8 s)) ++ utf8 s ++ [0].
Theorem decode8_entry pre s post : Forall valid_cp s -> len (units16 s) < 32768 -> len (utf8 s) < 32768 -> decode8 (pre ++ entry8 s ++ post) (len pre) = Ok s.
Proof.
  intros Hs Hu Hb. unfold decode8, entry8. set (bs := utf8 s) in *. set (n := len bs) in *. set (u := len (units16 s)) in *.
  assert (N0 : 0 <= n) by apply len_nonneg. assert (U0 : 0 <= u) by apply len_nonneg. assert (P0 : 0 <= len post) by apply len_nonneg.
  assert (L2pos : 1 <= len (len8 n)) by (unfold len8; destruct (n <? 128); unfold len; cbn [length]; lia).
  rewrite <- !app_assoc. rewrite (decode_length8 pre u); [| lia | rewrite !len_app; change (len [0]) with 1; fold n; lia]. cbn [bind].
  replace (pre ++ len8 u ++ len8 n ++ bs ++ [0] ++ post) with ((pre ++ len8 u) ++ len8 n ++ bs ++ [0] ++ post) by (rewrite <- !app_assoc; reflexivity).
  replace (len pre + len (len8 u)) with (len (pre ++ len8 u)) by apply len_app.
  rewrite (decode_length8 (pre ++ len8 u) n); [| lia | rewrite !len_app; change (len [0]) with 1; lia]. cbn [bind].
  set (pre' := pre ++ len8 u). set (L2 := len8 n) in *.
  assert (Ec : len (pre' ++ L2 ++ bs ++ [0] ++ post) = len pre' + len L2 + n + 1 + len post).
  { rewrite !len_app. change (len [0]) with 1. fold n. lia. }
  rewrite Ec. replace (len pre' + len L2 + n + 1 + len post <? len pre' + len L2 + n) with false by lia.
  replace (len pre' + len L2 + n) with (len (pre' ++ L2 ++ bs)) by (rewrite !len_app; fold n; lia).
  replace (pre' ++ L2 ++ bs ++ [0] ++ post) with ((pre' ++ L2 ++ bs) ++ [0] ++ post) by (rewrite <- !app_assoc; reflexivity).
  change 1 with (len [0]) at 1. rewrite slice_mid.
  replace ((pre' ++ L2 ++ bs) ++ [0] ++ post) with (pre' ++ L2 ++ bs ++ ([0] ++ post)) by (rewrite <- !app_assoc; reflexivity).
  replace (len (pre' ++ L2 ++ bs)) with (len pre' + len L2 + n) by (rewrite !len_app; fold n; lia). unfold n at 2. rewrite slice_mid2.
  apply utf8_points_utf8; [exact Hs|]. pose proof (utf8_length_ge s Hs). fold bs in H. fold n in H. lia.
Qed.

(* ---------------------------------------------------------------- a whole pool *)
(* the character buffer of a pool and its offset table, for entries written one after the other *)
Fixpoint offsets_from (at_ : Z) (entries : list (list Z)) : list Z :=
  match entries with [] => [] | e :: r => at_ :: offsets_from (at_ + len e) r end.
Lemma nthz_offsets : forall entries at_ i e, nthz entries i = Some e ->
  exists pre post, concat entries = pre ++ e ++ post /\ nthz (offsets_from at_ entries) i = Some (at_ + len pre).
Proof.
  induction entries as [|e0 entries IH]; intros at_ i e H.
  - unfold nthz in H. destruct ((i <? 0) || (Z.of_nat (length (@nil (list Z))) <=? i)); [discriminate | destruct (Z.to_nat i); discriminate].
  - unfold nthz in H. destruct ((i <? 0) || (Z.of_nat (length (e0 :: entries)) <=? i)) eqn:E; [discriminate|].
    destruct (Z.eq_dec i 0) as [->|Hi].
    + cbn in H. injection H as <-. exists [], (concat entries). split; [reflexivity|]. unfold nthz. cbn [offsets_from length].
      replace ((0 <? 0) || (Z.of_nat (S (length (offsets_from (at_ + len e0) entries))) <=? 0)) with false by lia. cbn. f_equal. unfold len. cbn. lia.
    + assert (Hn : nthz entries (i - 1) = Some e).
      { unfold nthz. cbn [length] in E. replace ((i - 1 <? 0) || (Z.of_nat (length entries) <=? i - 1)) with false by lia.
        replace (Z.to_nat i) with (S (Z.to_nat (i - 1))) in H by lia. exact H. }
      destruct (IH (at_ + len e0) (i - 1) e Hn) as (pre & post & Ec & Eo). exists (e0 ++ pre), post. split; [cbn [concat]; rewrite Ec, <- app_assoc; reflexivity|].
      unfold nthz in *. cbn [offsets_from length]. cbn [length] in E.
      assert (Ln : length (offsets_from (at_ + len e0) entries) = length entries).
      { clear. generalize (at_ + len e0). induction entries as [|x l IHl]; intros a; cbn [offsets_from length]; [reflexivity | now rewrite IHl]. }
      rewrite Ln in *. replace ((i <? 0) || (Z.of_nat (S (length entries)) <=? i)) with false by lia.
      replace ((i - 1 <? 0) || (Z.of_nat (length entries) <=? i - 1)) with false in Eo by lia.
      replace (Z.to_nat i) with (S (Z.to_nat (i - 1))) by lia. cbn [nth_error]. rewrite Eo. f_equal. rewrite len_app. lia.
Qed.
Definition pool_of (utf8_flag : bool) (ss : list str) (padding : list Z) : pool :=
  let entries := map (if utf8_flag then entry8 else entry16) ss in
  {| p_utf8 := utf8_flag; p_count := Z.of_nat (length ss); p_offsets := offsets_from 0 entries; p_chars := concat entries ++ padding |}.
Definition fits (utf8_flag : bool) (s : str) : Prop :=
  Forall valid_cp s /\ if utf8_flag then len (units16 s) < 32768 /\ len (utf8 s) < 32768 else len (units16 s) < 2147483648.
Lemma nthz_map {A B} (f : A -> B) l i x : nthz l i = Some x -> nthz (map f l) i = Some (f x).
Proof.
  unfold nthz. rewrite map_length. destruct ((i <? 0) || (Z.of_nat (length l) <=? i)); [discriminate|]. intros H. rewrite nth_error_map, H. reflexivity.
Qed.
Lemma nthz_range {A} (l : list A) i x : nthz l i = Some x -> 0 <= i < Z.of_nat (length l).
Proof. unfold nthz. destruct ((i <? 0) || (Z.of_nat (length l) <=? i)) eqn:E; [discriminate | lia]. Qed.
(* every string of a pool - any number of strings, either encoding, one- and two-unit length prefixes, anything after the
   last entry - is what getString returns for its index *)
Theorem pool_strings_exact utf8_flag ss padding i s :
  Forall (fits utf8_flag) ss -> nthz ss i = Some s -> get_string (pool_of utf8_flag ss padding) i = Ok s.
Proof.
  intros Hall Hn. pose proof (nthz_range _ _ _ Hn) as Hr. unfold get_string, pool_of. cbn [p_count p_offsets p_utf8 p_chars].
  replace ((i <? 0) || (Z.of_nat (length ss) <=? i)) with false by lia.
  assert (Hs : fits utf8_flag s). { rewrite Forall_forall in Hall. apply Hall. unfold nthz in Hn. destruct ((i <? 0) || (Z.of_nat (length ss) <=? i)); [discriminate|]. now apply nth_error_In in Hn. }
  pose proof (nthz_map (if utf8_flag then entry8 else entry16) ss i s Hn) as He.
  destruct (nthz_offsets _ 0 i _ He) as (pre & post & Ec & Eo). rewrite Eo, Ec. cbn [Z.add]. rewrite <- !app_assoc.
  destruct Hs as [Hv Hb]. destruct utf8_flag; [apply decode8_entry; tauto | now apply decode16_entry].
Qed.
(* an index outside the pool gives the empty string *)
Theorem pool_index_outside p i : i < 0 \/ p_count p <= i -> get_string p i = Ok [].
Proof. intros H. unfold get_string. replace ((i <? 0) || (p_count p <=? i)) with true by lia. reflexivity. Qed.

(* ---------------------------------------------------------------- the chunk: header, offset table, characters *)
Definition b32 (n : Z) : list Z := [n mod 256; (n / 256) mod 256; (n / 65536) mod 256; n / 16777216].
Lemma u32_b32 n r : 0 <= n < 4294967296 -> u32 (b32 n ++ r) = Ok (n, r).
Proof. intros H. unfold b32. cbn [app u32]. f_equal. f_equal. lia. Qed.
Lemma u32s_b32 : forall xs fuel rest, Forall (fun x => 0 <= x < 4294967296) xs -> (length xs <= fuel)%nat ->
  u32s fuel (Z.of_nat (length xs)) (flat_map b32 xs ++ rest) = Ok (xs, rest).
Proof.
  induction xs as [|x xs IH]; intros fuel rest Hx Hf.
  - destruct fuel; reflexivity.
  - inversion Hx; subst. destruct fuel as [|f]; [cbn [length] in Hf; lia|]. cbn [u32s length flat_map].
    replace (Z.of_nat (S (length xs)) <=? 0) with false by lia. rewrite <- app_assoc, u32_b32 by assumption. cbn [bind].
    replace (Z.of_nat (S (length xs)) - 1) with (Z.of_nat (length xs)) by lia. rewrite IH by (auto; cbn [length] in Hf; lia). reflexivity.
Qed.
Lemma length_b32s xs : length (flat_map b32 xs) = (4 * length xs)%nat.
Proof. induction xs as [|x xs IH]; [reflexivity|]. cbn [flat_map b32 app length]. lia. Qed.
Lemma offsets_from_length : forall entries a, length (offsets_from a entries) = length entries.
Proof. induction entries as [|e l IH]; intros a; cbn [offsets_from length]; [reflexivity | now rewrite IH]. Qed.
Lemma offsets_from_bound : forall entries a, 0 <= a -> Forall (fun x => 0 <= x < a + len (concat entries) + 1) (offsets_from a entries).
Proof.
  induction entries as [|e l IH]; intros a Ha; cbn [offsets_from concat]; [constructor|]. pose proof (len_nonneg e). pose proof (len_nonneg (concat l)). constructor.
  - rewrite len_app. lia.
  - assert (Ha' : 0 <= a + len e) by lia. specialize (IH (a + len e) Ha'). rewrite len_app. eapply Forall_impl; [|exact IH]. cbv beta. intros x Hx. lia.
Qed.
(* the bytes after the 8-byte chunk header of a string pool without styles *)
Definition pool_bytes (utf8_flag : bool) (ss : list str) (padding : list Z) : list Z :=
  let entries := map (if utf8_flag then entry8 else entry16) ss in
  let count := Z.of_nat (length ss) in
  b32 count ++ b32 0 ++ b32 (if utf8_flag then 256 else 0) ++ b32 (28 + 4 * count) ++ b32 0 ++ flat_map b32 (offsets_from 0 entries) ++ concat entries ++ padding.
Definition pool_size (utf8_flag : bool) (ss : list str) (padding : list Z) : Z :=
  let entries := map (if utf8_flag then entry8 else entry16) ss in 28 + 4 * Z.of_nat (length ss) + len (concat entries ++ padding).
Theorem parse_pool_exact (utf8_flag : bool) ss padding after :
  28 + 4 * Z.of_nat (length ss) + len (concat (map (if utf8_flag then entry8 else entry16) ss)) < 4294967296 ->
  parse_pool (pool_bytes utf8_flag ss padding ++ after) (pool_size utf8_flag ss padding) = Ok (pool_of utf8_flag ss padding).
Proof.
  intros Hb. unfold parse_pool, pool_bytes, pool_size, pool_of. set (entries := map (if utf8_flag then entry8 else entry16) ss) in *.
  set (count := Z.of_nat (length ss)) in *. pose proof (len_nonneg (concat entries)) as Hc.
  rewrite <- !app_assoc. rewrite u32_b32 by lia. cbn [bind]. rewrite u32_b32 by lia. cbn [bind]. rewrite u32_b32 by (destruct utf8_flag; lia). cbn [bind].
  rewrite u32_b32 by lia. cbn [bind]. rewrite u32_b32 by lia. cbn [bind].
  replace (28 + 4 * count - (0 * 4 + 28)) with (4 * count) by lia. replace ((4 * count) mod 4 =? 0) with true by lia. replace (4 * count / 4 =? count) with true by lia. cbn [andb].
  assert (Ln : length (offsets_from 0 entries) = length ss) by (rewrite offsets_from_length; unfold entries; apply map_length).
  replace count with (Z.of_nat (length (offsets_from 0 entries))) at 1 by (rewrite Ln; reflexivity).
  rewrite u32s_b32.
  - cbn [bind]. assert (E0 : u32s (length ((concat entries ++ padding) ++ after)) 0 ((concat entries ++ padding) ++ after) = Ok ([], (concat entries ++ padding) ++ after)) by (destruct (length ((concat entries ++ padding) ++ after)); reflexivity).
    replace (concat entries ++ padding ++ after) with ((concat entries ++ padding) ++ after) by (rewrite <- app_assoc; reflexivity). rewrite E0. cbn [bind].
    change (negb (0 =? 0)) with false. cbn [andb].
    replace (28 + 4 * count + len (concat entries ++ padding) - (28 + 4 * count)) with (len (concat entries ++ padding)) by lia.
    pose proof (len_nonneg (concat entries ++ padding)). replace (len (concat entries ++ padding) <? 0) with false by lia. rewrite takez_app.
    f_equal. destruct utf8_flag; reflexivity.
  - eapply Forall_impl; [|apply (offsets_from_bound entries 0); lia]. cbv beta. intros x Hx. lia.
  - rewrite !app_length, length_b32s. lia.
Qed.
(* the two together: parse the chunk, ask for string i *)
Corollary string_of_parsed_pool (utf8_flag : bool) ss padding after i s :
  28 + 4 * Z.of_nat (length ss) + len (concat (map (if utf8_flag then entry8 else entry16) ss)) < 4294967296 ->
  Forall (fits utf8_flag) ss -> nthz ss i = Some s ->
  (do p <- parse_pool (pool_bytes utf8_flag ss padding ++ after) (pool_size utf8_flag ss padding); get_string p i) = Ok s.
Proof. intros Hb Hall Hn. rewrite parse_pool_exact by exact Hb. cbn [bind]. now apply pool_strings_exact. Qed.
