(* C26 - proofs about coq/Axml/AxmlModel.v *)
From Coq Require Import ZArith List Bool Lia.
Require Import V.Lib.Val V.Lib.Result V.Axml.PoolModel V.Axml.AxmlModel.
Import ListNotations.
Open Scope Z_scope.

(* ---------------------------------------------------------------- values and names *)
Theorem fix_value_is_xml v : forallb xml_char (fix_value v) = true.
Proof.
  unfold fix_value. induction (until_nul v) as [|c l IH]; [reflexivity|]. cbn [map forallb]. rewrite IH, andb_true_r.
  destruct (xml_char c) eqn:E; [exact E | reflexivity].
Qed.
Lemma until_nul_no_nul s : forallb (fun c => negb (c =? 0)) (until_nul s) = true.
Proof. induction s as [|c s IH]; [reflexivity|]. cbn [until_nul]. destruct (c =? 0) eqn:E; [reflexivity|]. cbn [forallb]. now rewrite E, IH. Qed.
Theorem fix_value_keeps_clean_values v : forallb xml_char v = true -> fix_value v = v.
Proof.
  unfold fix_value. induction v as [|c v IH]; [reflexivity|]. cbn [forallb]. intros H. apply andb_true_iff in H as [H1 H2].
  cbn [until_nul]. assert (E : c =? 0 = false) by (destruct (c =? 0) eqn:E; [apply Z.eqb_eq in E; subst; discriminate | reflexivity]).
  rewrite E. cbn [map]. now rewrite H1, IH.
Qed.
Theorem fix_name_is_a_name nsmap prefix name p n : fix_name nsmap prefix name = Ok (p, n) -> forallb name_char n = true.
Proof.
  unfold fix_name. destruct (negb (ascii name)); [discriminate|]. destruct name as [|c0 r]; [discriminate|].
  match goal with |- (let '(a, b) := ?x in _) = _ -> _ => destruct x as [p2 n2] end.
  intros H. injection H as _ <-. induction n2 as [|c l IH]; [reflexivity|]. cbn [map forallb]. rewrite IH, andb_true_r.
  destruct (name_char c) eqn:E; [exact E | reflexivity].
Qed.

(* ---------------------------------------------------------------- the tree *)
Definition tail_of (x : xml) : str := match x with El _ _ _ _ _ tl => tl end.
Definition strip_tail (x : xml) : xml := match x with El a b c d e _ => El a b c d e [] end.
(* the events of a tree in document order: the element opens, its text, then every child followed by its tail, it closes *)
Fixpoint flatten (x : xml) : list tevent :=
  match x with
  | El tag nsmap attrs text kids tl =>
      TStart tag nsmap attrs :: TText text :: flat_map (fun k => flatten k ++ [TText (tail_of k)]) kids ++ [TEnd]
  end.
Fixpoint run_events (es : list tevent) (t : tstate) : result tstate :=
  match es with [] => Ok t | e :: r => do t' <- tree_step e t; run_events r t' end.
Lemma run_events_app a b t : run_events (a ++ b) t = do t' <- run_events a t; run_events b t'.
Proof. revert t. induction a as [|e a IH]; intros t; cbn [app run_events bind]; [reflexivity|]. destruct (tree_step e t); cbn [bind]; [apply IH | reflexivity]. Qed.

(* induction over trees with the hypothesis for every child *)
Fixpoint xml_ind' (P : xml -> Prop)
  (H : forall tag nsmap attrs text kids tl, Forall P kids -> P (El tag nsmap attrs text kids tl)) (x : xml) : P x :=
  match x with
  | El tag nsmap attrs text kids tl =>
      H tag nsmap attrs text kids tl
        ((fix go (l : list xml) : Forall P l := match l with [] => Forall_nil P | k :: r => Forall_cons k (xml_ind' P H k) (go r) end) kids)
  end.

Definition placed (x : xml) (stk : list frame) (root : option xml) : tstate :=
  match stk with [] => ([], Some (strip_tail x)) | g :: rest => (add_kid g (strip_tail x) :: rest, root) end.
Lemma add_tail_strip x : add_tail (strip_tail x) (tail_of x) = x.
Proof. destruct x. reflexivity. Qed.

Lemma flatten_places : forall x stk root, (stk <> [] \/ root = None) -> run_events (flatten x) (stk, root) = Ok (placed x stk root).
Proof.
  intros x. pattern x. apply xml_ind'. clear x. intros tag nsmap attrs text kids tl IH stk root Hok.
  cbn [flatten run_events]. assert (S1 : tree_step (TStart tag nsmap attrs) (stk, root) =
    Ok ({| f_tag := tag; f_nsmap := nsmap; f_attrs := attrs; f_text := []; f_kids := [] |} :: stk, root)).
  { cbn [tree_step]. destruct stk as [|g r]; [|reflexivity]. destruct Hok as [X | ->]; [congruence | reflexivity]. }
  rewrite S1. cbn [bind tree_step add_text f_kids f_tag f_nsmap f_attrs f_text app].
  (* the children, one after the other *)
  assert (K : forall done todo, Forall (fun k => forall stk root, (stk <> [] \/ root = None) -> run_events (flatten k) (stk, root) = Ok (placed k stk root)) todo ->
     run_events (flat_map (fun k => flatten k ++ [TText (tail_of k)]) todo ++ [TEnd])
       ({| f_tag := tag; f_nsmap := nsmap; f_attrs := attrs; f_text := text; f_kids := done |} :: stk, root)
     = Ok (placed (El tag nsmap attrs text (rev done ++ todo) tl) stk root)).
  { intros done todo. revert done. induction todo as [|k todo IHt]; intros done Hf.
    - cbn [flat_map app run_events tree_step]. rewrite app_nil_r. destruct stk as [|g r]; reflexivity.
    - inversion Hf as [|? ? Hk Hf']; subst. cbn [flat_map]. rewrite <- !app_assoc. rewrite run_events_app.
      rewrite Hk by (left; discriminate). cbn [bind placed]. cbn [app run_events tree_step bind add_kid f_kids f_tag f_nsmap f_attrs f_text add_text].
      rewrite add_tail_strip. rewrite (IHt (k :: done) Hf'). cbn [rev]. now rewrite <- app_assoc. }
  rewrite (K [] kids IH). reflexivity.
Qed.
Theorem tree_is_rebuilt x : tail_of x = [] -> run_events (flatten x) ([], None) = Ok ([], Some x).
Proof. intros H. rewrite flatten_places by (right; reflexivity). cbn [placed]. destruct x. cbn [tail_of] in H. subst. reflexivity. Qed.
