(* C35 - the binary XML parser as modelled (AXMLParser's chunk loop, AXMLPrinter's event loop, the string pool) ends on
   every input: no byte string makes parse_axml run out of its fuel, which is linear in the length of the input *)
From Coq Require Import ZArith List Bool Lia ZifyBool.
Require Import V.Lib.Val V.Lib.Result V.Axml.PoolModel V.Axml.FormatValueModel V.Axml.AxmlModel V.Misc.TermModel V.Misc.TermProofs.
Import ListNotations.
Open Scope Z_scope.
Ltac Zify.zify_post_hook ::= Z.to_euclidean_division_equations.

Definition noo {A} (r : result A) : Prop := r <> Err OutOfFuel.
Lemma noo_ok {A} (x : A) : noo (Ok x).  Proof. discriminate. Qed.
Lemma noo_bind {A B} (a : result A) (f : A -> result B) : noo a -> (forall x, noo (f x)) -> noo (bind a f).
Proof. unfold noo. destruct a as [x|e]; cbn [bind]; [intros _ H; apply H | intros H _ X; apply H; congruence]. Qed.
(* a tactic for functions that have no fuel of their own *)
Ltac noo_step :=
  match goal with
  | |- noo (Ok _) => apply noo_ok
  | |- noo (Err ?e) => unfold noo; discriminate
  | |- noo (bind _ _) => apply noo_bind; [|intros ?]
  | |- noo (let '(_, _) := ?x in _) => destruct x
  | |- noo (if ?c then _ else _) => destruct c
  | |- noo (match ?x with _ => _ end) => destruct x
  end.

(* ---------------------------------------------------------------- the string pool *)
Lemma takez_short : forall l n, (length (PoolModel.takez n l) <= Z.to_nat n)%nat.
Proof. induction l as [|x l IH]; intros n; cbn [PoolModel.takez length]; [lia|]. destruct (n <=? 0) eqn:E; cbn [length]; [lia|]. specialize (IH (n - 1)). lia. Qed.
Lemma utf8_points_noo : forall fuel l, (length l < fuel)%nat -> noo (utf8_points fuel l).
Proof.
  induction fuel as [|f IH]; intros l H; [lia|]. destruct l as [|b1 t]; cbn [utf8_points]; [apply noo_ok|].
  assert (I0 : noo (utf8_points f t)) by (apply IH; cbn [length] in H; lia).
  destruct (b1 <? 128); [apply noo_bind; [exact I0 | intros; apply noo_ok]|].
  destruct ((194 <=? b1) && (b1 <? 224)).
  { destruct t as [|b2 t']; [unfold noo; discriminate|]. destruct (cont b2); [|unfold noo; discriminate]. apply noo_bind; [apply IH; cbn [length] in H; lia | intros; apply noo_ok]. }
  destruct ((224 <=? b1) && (b1 <? 240)).
  { destruct t as [|b2 [|b3 t']]; try (unfold noo; discriminate). match goal with |- noo (if ?c then _ else _) => destruct c end; [|unfold noo; discriminate].
    apply noo_bind; [apply IH; cbn [length] in H; lia | intros; apply noo_ok]. }
  destruct ((240 <=? b1) && (b1 <? 245)); [|unfold noo; discriminate].
  destruct t as [|b2 [|b3 [|b4 t']]]; try (unfold noo; discriminate). match goal with |- noo (if ?c then _ else _) => destruct c end; [|unfold noo; discriminate].
  apply noo_bind; [apply IH; cbn [length] in H; lia | intros; apply noo_ok].
Qed.
Lemma decode_length_noo chars off wide : noo (decode_length chars off wide).
Proof. unfold decode_length. repeat noo_step. Qed.
Lemma decode8_noo chars off : noo (decode8 chars off).
Proof.
  unfold decode8. apply noo_bind; [apply decode_length_noo|]. intros [a skip1]. apply noo_bind; [apply decode_length_noo|]. intros [n skip2].
  destruct (PoolModel.len chars <? off + skip1 + skip2 + n); [apply noo_ok|].
  destruct (PoolModel.slice chars (off + skip1 + skip2 + n) 1) as [|z [|? ?]]; try (unfold noo; discriminate); try (destruct z; unfold noo; discriminate).
  destruct z; [| apply noo_ok | apply noo_ok]. apply utf8_points_noo. unfold PoolModel.slice. pose proof (takez_short (PoolModel.dropz (off + skip1 + skip2) chars) n). lia.
Qed.
Lemma decode16_noo chars off : noo (decode16 chars off).
Proof. unfold decode16. apply noo_bind; [apply decode_length_noo|]. intros [n skip]. repeat noo_step. Qed.
Lemma get_string_noo p i : noo (get_string p i).
Proof. unfold get_string. destruct ((i <? 0) || (p_count p <=? i)); [apply noo_ok|]. destruct (PoolModel.nthz (p_offsets p) i); [|apply noo_ok]. destruct (p_utf8 p); [apply decode8_noo | apply decode16_noo]. Qed.
Lemma pu32_noo l : noo (PoolModel.u32 l).
Proof. unfold PoolModel.u32. repeat noo_step. Qed.
Lemma pu16_noo l : noo (PoolModel.u16 l).
Proof. unfold PoolModel.u16. repeat noo_step. Qed.
Lemma u32s_noo : forall fuel n l, noo (u32s fuel n l).
Proof.
  induction fuel as [|f IH]; intros n l; cbn [u32s]; (destruct (n <=? 0); [apply noo_ok|]); [unfold noo; discriminate|].
  apply noo_bind; [apply pu32_noo|]. intros [x r]. apply noo_bind; [apply IH|]. intros [xs r']. apply noo_ok.
Qed.
Lemma parse_pool_noo rest size : noo (parse_pool rest size).
Proof.
  unfold parse_pool. repeat (apply noo_bind; [apply pu32_noo|]; intros [? ?]). apply noo_bind; [apply u32s_noo|]. intros [? ?].
  apply noo_bind; [apply u32s_noo|]. intros [? ?]. repeat noo_step.
Qed.

(* ---------------------------------------------------------------- resolving one event *)
Lemma format_value_noo lk ty data : noo (format_value lk ty data).
Proof.
  assert (U : forall units, noo (unit_of units data)) by (intros; unfold unit_of; destruct (nth_error _ _); [apply noo_ok | unfold noo; discriminate]).
  unfold format_value. repeat match goal with |- noo (if ?c then _ else _) => destruct c; [try apply noo_ok|] end; try apply noo_ok.
  - specialize (U DIMENSION_UNITS). destruct (unit_of DIMENSION_UNITS data); [apply noo_ok | exact U].
  - specialize (U FRACTION_UNITS). destruct (unit_of FRACTION_UNITS data); [apply noo_ok | exact U].
Qed.
Lemma fix_name_noo nsmap prefix name : noo (fix_name nsmap prefix name).
Proof. unfold fix_name. destruct (negb (ascii name)); [unfold noo; discriminate|]. destruct name as [|c0 r]; [unfold noo; discriminate|]. 
  match goal with |- noo (let '(_, _) := ?x in _) => destruct x end. apply noo_ok. Qed.
Section P.
  Variables (p : pool) (sysattr : list (Z * str)).
  Lemma gs_noo i : noo (gs p i).  Proof. apply get_string_noo. Qed.
  Lemma build_nsmap_noo : forall l m, noo (build_nsmap p l m).
  Proof. induction l as [|[a b] l IH]; intros m; cbn [build_nsmap]; [apply noo_ok|]. apply noo_bind; [apply gs_noo|]. intros sp. apply noo_bind; [apply gs_noo|]. intros su. apply IH. Qed.
  Lemma attr_name_noo res a : noo (attr_name p sysattr res a).
  Proof. unfold attr_name. apply noo_bind; [apply gs_noo|]. intros s. repeat noo_step. Qed.
  Lemma attr_ns_noo a : noo (attr_ns p a).
  Proof. unfold attr_ns. destruct (a_ns a =? NONE); [apply noo_ok | apply gs_noo]. Qed.
  Lemma attr_value_noo a : noo (attr_value p a).
  Proof. unfold attr_value. apply noo_bind; [destruct (a_type a =? 3); [apply gs_noo | apply noo_ok]|]. intros raw. apply noo_bind; [apply format_value_noo|]. intros; apply noo_ok. Qed.
  Lemma build_attrs_noo res nsmap : forall l acc, noo (build_attrs p sysattr res nsmap l acc).
  Proof.
    induction l as [|a l IH]; intros acc; cbn [build_attrs]; [apply noo_ok|]. apply noo_bind; [apply attr_ns_noo|]. intros ns.
    apply noo_bind; [apply attr_name_noo|]. intros nm. apply noo_bind; [apply fix_name_noo|]. intros [u n]. apply noo_bind; [apply attr_value_noo|]. intros v. apply IH.
  Qed.
  Lemma resolve_noo res e b : noo (resolve p sysattr res e b).
  Proof.
    unfold resolve. destruct e as [ns name attrs comment nss | ns name | name].
    - apply noo_bind; [destruct (name =? NONE); [apply noo_ok | apply gs_noo]|]. intros nm. destruct nm; [apply noo_ok|].
      destruct (negb (comment =? NONE)); [unfold noo; discriminate|]. apply noo_bind; [destruct (ns =? NONE); [apply noo_ok | apply gs_noo]|]. intros nsu.
      apply noo_bind; [apply build_nsmap_noo|]. intros nsmap. apply noo_bind; [apply fix_name_noo|]. intros [u n]. apply noo_bind; [apply build_attrs_noo|]. intros; apply noo_ok.
    - destruct b; [unfold noo; discriminate|]. apply noo_bind; [destruct (name =? NONE); [apply noo_ok | apply gs_noo]|]. intros nm. destruct nm; apply noo_ok.
    - destruct b; [unfold noo; discriminate|]. apply noo_bind; [destruct (name =? NONE); [apply noo_ok | apply gs_noo]|]. intros; apply noo_ok.
  Qed.
  Lemma tree_step_noo e t : noo (tree_step e t).
  Proof. unfold tree_step. destruct t as [stack root]. repeat noo_step. Qed.
  Lemma on_event_noo res e t : noo (on_event p sysattr res e t).
  Proof. unfold on_event. apply noo_bind; [apply resolve_noo | intros; apply tree_step_noo]. Qed.
End P.

(* ---------------------------------------------------------------- the chunk loop *)
Lemma read_attrs_noo : forall fuel n at_size l, noo (read_attrs fuel n at_size l).
Proof.
  induction fuel as [|f IH]; intros n at_size l; cbn [read_attrs]; (destruct (n <=? 0); [apply noo_ok|]); [unfold noo; discriminate|].
  repeat (apply noo_bind; [apply pu32_noo|]; intros [? ?]). apply noo_bind; [apply IH|]. intros [? ?]. apply noo_ok.
Qed.
Lemma arsc_loop_ge : forall fuel buf cur ty hs sz c, arsc_loop fuel buf cur = Ok (ty, hs, sz, c) -> cur <= c.
Proof.
  induction fuel as [|f IH]; intros buf cur ty hs sz c H; cbn [arsc_loop] in H; [discriminate|].
  destruct (hdr (TermModel.dropz cur buf)) as [[[t h] s]|]; [|discriminate].
  match type of H with (if ?b then _ else _) = _ => destruct b end; [injection H as <- <- <- <-; lia | apply IH in H; lia].
Qed.
Lemma arsc_header_facts buf start e ty hs sz st after : 0 <= start -> arsc_header buf start e = Ok [ty; hs; sz; st; after] ->
  st = start /\ start + 8 <= start + sz /\ start + 8 <= after /\ start + 8 <= TermModel.len buf.
Proof.
  intros Hs H. destruct (arsc_header_progress _ _ _ _ _ _ _ _ H) as [-> Hp]. split; [reflexivity|]. split; [exact Hp|].
  unfold arsc_header in H. destruct (TermModel.len buf <? start + 8) eqn:El; [discriminate|].
  destruct (arsc_loop (arsc_fuel buf start) buf start) as [[[[ty' hs'] sz'] cur]|x] eqn:E; cbn [bind] in H; [|discriminate].
  apply arsc_loop_ge in E. repeat match type of H with (if ?b then _ else _) = _ => destruct b; [discriminate|] end. injection H as _ _ _ <-. lia.
Qed.
Definition need (buf : list Z) (pos : Z) : Z := Z.max 0 ((TermModel.len buf - pos) / 8) + 1.
Ltac dn_noo IH :=
  repeat match goal with
  | |- noo (Ok _) => apply noo_ok
  | |- noo (Err ?e) => unfold noo; discriminate
  | |- noo (do_next _ _ _ _) => apply IH; cbn [s_pos]; unfold need in *; try lia
  | |- noo (PoolModel.u32 _) => apply pu32_noo
  | |- noo (PoolModel.u16 _) => apply pu16_noo
  | |- noo (u32s _ _ _) => apply u32s_noo
  | |- noo (read_attrs _ _ _ _) => apply read_attrs_noo
  | |- noo (bind _ _) => apply noo_bind; [|intros ?]
  | |- noo (let '(_, _) := ?x in _) => destruct x
  | |- noo (if ?c then _ else _) => destruct c
  end.
Lemma do_next_noo : forall fuel buf fs st, 0 <= s_pos st -> need buf (s_pos st) <= Z.of_nat fuel -> noo (do_next fuel buf fs st).
Proof.
  induction fuel as [|f IH]; intros buf fs st H0 Hn; [unfold need in Hn; lia|]. cbn [do_next]. destruct (s_pos st =? fs); [apply noo_ok|].
  destruct (arsc_header buf (s_pos st) 0) as [h|e] eqn:EH; [|intros X; apply (arsc_header_ends buf (s_pos st) 0 H0); congruence].
  destruct h as [|ty [|hs [|sz [|start [|after [|? ?]]]]]]; try (unfold noo; discriminate).
  destruct (arsc_header_facts _ _ _ _ _ _ _ _ H0 EH) as (-> & F1 & F2 & F3).
  dn_noo IH.
Qed.
(* an event is delivered at least eight bytes further on *)
Ltac dn_adv IH H :=
  repeat match type of H with
  | Ok _ = Ok _ => injection H as <- <-; cbn [s_pos]; split; [lia | split; intros _; lia]
  | Ok (None, _) = Ok _ => injection H as <- <-
  | Err _ = Ok _ => discriminate H
  | do_next _ _ _ _ = Ok _ => apply IH in H; cbn [s_pos] in H; [destruct H as (H1 & H2 & _); split; [lia | split; intros X; [specialize (H2 X); lia | lia]] | cbn [s_pos]; lia]
  | bind ?a _ = Ok _ => let E := fresh "E" in destruct a as [[? ?]|?] eqn:E; cbn [bind] in H
  | (let '(_, _) := ?x in _) = Ok _ => destruct x
  | (if ?c then _ else _) = Ok _ => destruct c
  end.
Lemma do_next_advances : forall fuel buf fs st oe st', 0 <= s_pos st -> do_next fuel buf fs st = Ok (oe, st') ->
  s_pos st <= s_pos st' /\ (oe <> None -> s_pos st + 8 <= s_pos st') /\ (oe <> None -> s_pos st + 8 <= TermModel.len buf).
Proof.
  induction fuel as [|f IH]; intros buf fs st oe st' H0 H; [discriminate|]. cbn [do_next] in H. destruct (s_pos st =? fs).
  - injection H as <- <-. split; [lia | split; congruence].
  - destruct (arsc_header buf (s_pos st) 0) as [h|e] eqn:EH; [|discriminate].
    destruct h as [|ty [|hs [|sz [|start [|after [|? ?]]]]]]; try discriminate.
    destruct (arsc_header_facts _ _ _ _ _ _ _ _ H0 EH) as (-> & F1 & F2 & F3).
    dn_adv IH H.
Qed.

(* ---------------------------------------------------------------- the event loop and the whole document *)
Lemma need_le_length buf pos : 0 <= pos -> need buf pos <= Z.of_nat (S (length buf)).
Proof. intros H. unfold need, TermModel.len. lia. Qed.
Lemma run_doc_noo p sysattr buf fs : forall fuel st t, 0 <= s_pos st -> need buf (s_pos st) <= Z.of_nat fuel -> noo (run_doc fuel p sysattr buf fs st t).
Proof.
  induction fuel as [|f IH]; intros st t H0 Hn; [unfold need in Hn; lia|]. cbn [run_doc].
  pose proof (do_next_noo (S (length buf)) buf fs st H0 (need_le_length buf _ H0)) as N.
  destruct (do_next (S (length buf)) buf fs st) as [[oe st']|e] eqn:E; cbn [bind]; [|unfold noo in *; intros X; apply N; injection X as ->; reflexivity].
  destruct oe as [e|]; [|apply noo_ok]. apply noo_bind; [apply on_event_noo|]. intros t'.
  destruct (do_next_advances _ _ _ _ _ _ H0 E) as (A1 & A2 & A3). specialize (A2 ltac:(discriminate)). specialize (A3 ltac:(discriminate)).
  (* the header of the event's chunk was accepted, so the buffer reaches eight bytes further and the count drops by one *)
  apply IH; [lia|]. unfold need in *. lia.
Qed.
(* AXMLPrinter over any bytes: the chunk loop, the event loop and every string lookup end; the result is a tree, no tree, or
   an error other than "out of fuel" *)
Theorem parse_axml_ends sysattr buf : parse_axml sysattr buf <> Err OutOfFuel.
Proof.
  change (noo (parse_axml sysattr buf)). unfold parse_axml. destruct (PoolModel.len buf <? 8); [unfold noo; discriminate|].
  pose proof (arsc_header_ends buf 0 0 (Z.le_refl 0)) as N0.
  destruct (arsc_header buf 0 0) as [h|e] eqn:E0; cbn [bind]; [|unfold noo in *; intros X; apply N0; injection X as ->; reflexivity].
  destruct h as [|ty [|hs [|filesize [|s0 [|after [|? ?]]]]]]; try (unfold noo; discriminate).
  destruct (negb (hs =? 8)) eqn:Eh; [unfold noo; discriminate|]. destruct (PoolModel.len buf <? filesize); [unfold noo; discriminate|].
  destruct (arsc_header_facts buf 0 0 _ _ _ _ _ (Z.le_refl 0) E0) as (_ & F1 & F2 & F3).
  assert (Ha : 0 <= after) by lia. pose proof (arsc_header_ends buf after 1 Ha) as N1.
  destruct (arsc_header buf after 1) as [h2|e] eqn:E1; cbn [bind]; [|unfold noo in *; intros X; apply N1; injection X as ->; reflexivity].
  destruct h2 as [|t2 [|hs2 [|size2 [|s2 [|after2 [|? ?]]]]]]; try (unfold noo; discriminate).
  destruct (negb (hs2 =? 28)); [unfold noo; discriminate|].
  destruct (arsc_header_facts buf after 1 _ _ _ _ _ Ha E1) as (_ & G1 & G2 & G3).
  apply noo_bind; [apply parse_pool_noo|]. intros p. apply noo_bind.
  - apply run_doc_noo; cbn [s_pos]; [lia | apply need_le_length; lia].
  - intros [stack root]. destruct stack; apply noo_ok.
Qed.
