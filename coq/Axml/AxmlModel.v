(* C26 - hand-written model of AXMLParser (__init__, _do_next, the accessors) and AXMLPrinter (__init__, _fix_name,
   _fix_value, _get_attribute_value) of androguard/core/axml/__init__.py: binary XML bytes -> element tree.
   Layers: the file and string pool headers (ARSCHeader = coq/Misc/TermModel.v, StringBlock = coq/Axml/PoolModel.v), the
   chunk loop producing events, the tree construction.  The table public.SYSTEM_RESOURCES['attributes']['inverse'] is a
   parameter (the harness passes the entries for the resource ids that occur).  Names are modelled for ASCII
   (str.isalpha on other characters is outside the model).  Tied to the source by tools/props/c26.py. *)
From Coq Require Import ZArith List Bool.
Require Import V.Lib.Val V.Lib.Result V.Lib.Fmt V.Misc.TermModel V.Axml.PoolModel V.Axml.FormatValueModel.
Import ListNotations.
Open Scope Z_scope.

Definition NONE : Z := 4294967295.
Definition str_eqb (a b : str) : bool := list_eqb Z.eqb a b.

(* ---------------------------------------------------------------- events *)
Record attr := { a_ns : Z; a_name : Z; a_raw : Z; a_type : Z; a_data : Z }.
Inductive event :=
| EStart (ns name : Z) (attrs : list attr) (comment : Z) (namespaces : list (Z * Z))   (* the namespace list at that moment *)
| EEnd (ns name : Z)
| EText (name : Z).
Record pstate := { s_pos : Z; s_ns : list (Z * Z); s_res : list Z }.

Fixpoint read_attrs (fuel : nat) (n at_size : Z) (l : list Z) : result (list attr * list Z) :=
  if n <=? 0 then Ok ([], l) else
  match fuel with
  | O => Err StructError
  | S f =>
      do ' (a, r1) <- PoolModel.u32 l; do ' (b, r2) <- PoolModel.u32 r1; do ' (c, r3) <- PoolModel.u32 r2;
      do ' (d, r4) <- PoolModel.u32 r3; do ' (e, r5) <- PoolModel.u32 r4;
      let r6 := if at_size =? 20 then r5 else if at_size - 20 <? 0 then [] else PoolModel.dropz (at_size - 20) r5 in
      do ' (rest, r7) <- read_attrs f (n - 1) at_size r6;
      Ok ({| a_ns := a; a_name := b; a_raw := c; a_type := Z.shiftr d 24; a_data := e |} :: rest, r7)
  end.
Fixpoint remove_first (p : Z * Z) (l : list (Z * Z)) : list (Z * Z) :=
  match l with [] => [] | q :: r => if (fst q =? fst p) && (snd q =? snd p) then r else q :: remove_first p r end.

(* one call of _do_next: the next event, or None at the end of the document; chunks are read until one yields an event *)
Fixpoint do_next (fuel : nat) (buf : list Z) (filesize : Z) (st : pstate) : result (option event * pstate) :=
  match fuel with
  | O => Err OutOfFuel
  | S f =>
    if s_pos st =? filesize then Ok (None, st) else
    match arsc_header buf (s_pos st) 0 with
    | Err e => Err e                                             (* ResParserError: the document becomes invalid *)
    | Ok [ty; hs; sz; start; after] =>
      let endp := start + sz in
      let body := PoolModel.dropz after buf in
      if ty =? 384 then                                          (* RES_XML_RESOURCE_MAP_TYPE *)
        if (sz <? 8) || negb (sz mod 4 =? 0) then Err ResParserError else
        do ' (ids, _) <- u32s (length body) ((sz - hs) / 4) body;
        do_next f buf filesize {| s_pos := after + 4 * Z.max 0 ((sz - hs) / 4); s_ns := s_ns st; s_res := s_res st ++ ids |}
      else if (ty <? 256) || (383 <? ty) then do_next f buf filesize {| s_pos := endp; s_ns := s_ns st; s_res := s_res st |}
      else if negb (hs =? 16) then do_next f buf filesize {| s_pos := endp; s_ns := s_ns st; s_res := s_res st |}
      else
        do ' (_, b1) <- PoolModel.u32 body; do ' (comment, b2) <- PoolModel.u32 b1;
        if ty =? 256 then                                        (* START_NAMESPACE *)
          do ' (prefix, b3) <- PoolModel.u32 b2; do ' (uri, _) <- PoolModel.u32 b3;
          do_next f buf filesize {| s_pos := after + 16; s_ns := s_ns st ++ [(prefix, uri)]; s_res := s_res st |}
        else if ty =? 257 then                                   (* END_NAMESPACE *)
          do ' (prefix, b3) <- PoolModel.u32 b2; do ' (uri, _) <- PoolModel.u32 b3;
          do_next f buf filesize {| s_pos := after + 16; s_ns := remove_first (prefix, uri) (s_ns st); s_res := s_res st |}
        else if ty =? 258 then                                   (* START_ELEMENT *)
          do ' (ns, b3) <- PoolModel.u32 b2; do ' (name, b4) <- PoolModel.u32 b3;
          do ' (_, b5) <- u16 b4; do ' (at_size, b6) <- u16 b5;
          do ' (acount, b7) <- PoolModel.u32 b6; do ' (_, b8) <- PoolModel.u32 b7;
          do ' (attrs, _) <- read_attrs (length b8) (Z.land acount 65535) at_size b8;
          (* whatever was consumed, the position is moved to the end of the chunk *)
          Ok (Some (EStart ns name attrs comment (s_ns st)), {| s_pos := endp; s_ns := s_ns st; s_res := s_res st |})
        else if ty =? 259 then                                   (* END_ELEMENT *)
          do ' (ns, b3) <- PoolModel.u32 b2; do ' (name, _) <- PoolModel.u32 b3;
          Ok (Some (EEnd ns name), {| s_pos := endp; s_ns := s_ns st; s_res := s_res st |})
        else if ty =? 260 then                                   (* CDATA *)
          do ' (name, b3) <- PoolModel.u32 b2; do ' (_, b4) <- PoolModel.u32 b3; do ' (_, _) <- PoolModel.u32 b4;
          Ok (Some (EText name), {| s_pos := endp; s_ns := s_ns st; s_res := s_res st |})
        else do_next f buf filesize {| s_pos := endp; s_ns := s_ns st; s_res := s_res st |}
    | Ok _ => Err OtherError
    end
  end.

(* ---------------------------------------------------------------- names, values *)
Definition is_alpha (c : Z) : bool := ((65 <=? c) && (c <=? 90)) || ((97 <=? c) && (c <=? 122)).
Definition name_char (c : Z) : bool := is_alpha c || ((48 <=? c) && (c <=? 57)) || (c =? 46) || (c =? 95) || (c =? 45).
Definition ascii (s : str) : bool := forallb (fun c => (0 <=? c) && (c <? 128)) s.
Definition S_android_colon : str := [97; 110; 100; 114; 111; 105; 100; 58].
Definition S_android : str := [97; 110; 100; 114; 111; 105; 100].
Fixpoint starts_with (p s : str) : bool :=
  match p, s with [], _ => true | a :: p', b :: s' => (a =? b) && starts_with p' s' | _, [] => false end.
Fixpoint split_colon (s : str) : option (str * str) :=
  match s with [] => None | c :: r => if c =? 58 then Some ([], r) else
    match split_colon r with Some (a, b) => Some (c :: a, b) | None => None end end.
Definition print_ns (uri : str) : str := match uri with [] => [] | _ => [123] ++ uri ++ [125] end.
Fixpoint assoc_str (k : str) (m : list (str * str)) : option str :=
  match m with [] => None | (a, b) :: r => if str_eqb a k then Some b else assoc_str k r end.
(* _fix_name(prefix, name) with the current nsmap *)
Definition fix_name (nsmap : list (str * str)) (prefix name : str) : result (str * str) :=
  if negb (ascii name) then Err OtherError else
  match name with
  | [] => Err IndexError
  | c0 :: _ =>
      let name1 := if negb (is_alpha c0) && negb (c0 =? 95) then 95 :: name else name in
      let '(prefix2, name2) :=
        match prefix, assoc_str S_android nsmap with
        | [], Some uri => if starts_with S_android_colon name1 then (print_ns uri, PoolModel.dropz 8 name1) else
            match split_colon name1 with
            | Some (emb, rest) => match assoc_str emb nsmap with Some u => (print_ns u, rest) | None => (prefix, name1) end
            | None => (prefix, name1)
            end
        | [], None =>
            match split_colon name1 with
            | Some (emb, rest) => match assoc_str emb nsmap with Some u => (print_ns u, rest) | None => (prefix, name1) end
            | None => (prefix, name1)
            end
        | _, _ => (prefix, name1)
        end in
      Ok (prefix2, map (fun c => if name_char c then c else 95) name2)
  end.
(* XML Char: #x9 | #xA | #xD | #x20-#xD7FF | #xE000-#xFFFD | #x10000-#x10FFFF *)
Definition xml_char (c : Z) : bool :=
  (c =? 9) || (c =? 10) || (c =? 13) || ((32 <=? c) && (c <=? 55295)) || ((57344 <=? c) && (c <=? 65533)) || ((65536 <=? c) && (c <=? 1114111)).
Fixpoint until_nul (s : str) : str := match s with [] => [] | c :: r => if c =? 0 then [] else c :: until_nul r end.
Definition fix_value (v : str) : str := map (fun c => if xml_char c then c else 95) (until_nul v).

(* nsmap: prefix -> uri for the pairs whose prefix and uri are both non-empty; a later pair replaces an earlier one of
   the same prefix (the code iterates over a set: with two different uris for one prefix the winner is unspecified) *)
Definition is_space (c : Z) : bool := (c =? 32) || ((9 <=? c) && (c <=? 13)).
Fixpoint lstrip (s : str) : str := match s with c :: r => if is_space c then lstrip r else s | [] => [] end.
Definition strip (s : str) : str := rev (lstrip (rev (lstrip s))).
Fixpoint put (k v : str) (m : list (str * str)) : list (str * str) :=
  match m with [] => [(k, v)] | (a, b) :: r => if str_eqb a k then (a, v) :: r else (a, b) :: put k v r end.

Section WithPool.
Variable p : pool.
Variable sysattr : list (Z * str).            (* SYSTEM_RESOURCES['attributes']['inverse'], the entries needed *)

Definition gs (i : Z) : result str := get_string p i.
Fixpoint build_nsmap (l : list (Z * Z)) (m : list (str * str)) : result (list (str * str)) :=
  match l with
  | [] => Ok m
  | (a, b) :: r => do sp <- gs a; do su <- gs b;
                   build_nsmap r (match sp, su with [], _ | _, [] => m | _, _ => put sp (strip su) m end)
  end.
Fixpoint assoc_z (k : Z) (m : list (Z * str)) : option str :=
  match m with [] => None | (a, b) :: r => if a =? k then Some b else assoc_z k r end.
Definition S_unknown : str := [97;110;100;114;111;105;100;58;85;78;75;78;79;87;78;95;83;89;83;84;69;77;95;65;84;84;82;73;66;85;84;69;95].
(* getAttributeName *)
Definition attr_name (res : list Z) (a : attr) : result str :=
  do s <- gs (a_name a);
  let r := match PoolModel.nthz res (a_name a) with
           | Some id => match assoc_z id sysattr with Some nm => map (fun c => if c =? 95 then 58 else c) nm | None => s end
           | None => s
           end in
  match r with
  | [] | [58] => match PoolModel.nthz res (a_name a) with
                 | Some id => if id =? 0 then Err OtherError (* a random number is used *) else Ok (S_unknown ++ pad0 8 (map (digit_char false) (digits 16 id)))
                 | None => Err OtherError
                 end
  | _ => Ok r
  end.
Definition attr_ns (a : attr) : result str := if a_ns a =? NONE then Ok [] else gs (a_ns a).
Definition attr_value (a : attr) : result str :=
  do raw <- (if a_type a =? 3 then gs (a_raw a) else Ok []);
  do v <- format_value (fun _ => raw) (a_type a) (a_data a);
  Ok (fix_value v).

(* ---------------------------------------------------------------- the tree *)
Inductive xml := El (tag : str) (nsmap : list (str * str)) (attrs : list (str * str)) (text : str) (children : list xml) (tail : str).
(* an open element: what has been collected so far, children newest first *)
Record frame := { f_tag : str; f_nsmap : list (str * str); f_attrs : list (str * str); f_text : str; f_kids : list xml }.
Definition close (f : frame) : xml := El (f_tag f) (f_nsmap f) (f_attrs f) (f_text f) (rev (f_kids f)) [].
Definition add_tail (x : xml) (t : str) : xml := match x with El a b c d e tl => El a b c d e (tl ++ t) end.
Definition add_text (f : frame) (t : str) : frame :=
  match f_kids f with
  | [] => {| f_tag := f_tag f; f_nsmap := f_nsmap f; f_attrs := f_attrs f; f_text := f_text f ++ t; f_kids := [] |}
  | k :: r => {| f_tag := f_tag f; f_nsmap := f_nsmap f; f_attrs := f_attrs f; f_text := f_text f; f_kids := add_tail k t :: r |}
  end.
Definition add_kid (f : frame) (x : xml) : frame :=
  {| f_tag := f_tag f; f_nsmap := f_nsmap f; f_attrs := f_attrs f; f_text := f_text f; f_kids := x :: f_kids f |}.
Fixpoint set_attr (k v : str) (m : list (str * str)) : list (str * str) := put k v m.

Fixpoint build_attrs (res : list Z) (nsmap : list (str * str)) (l : list attr) (acc : list (str * str)) : result (list (str * str)) :=
  match l with
  | [] => Ok acc
  | a :: r => do ns <- attr_ns a; do nm <- attr_name res a; do ' (u, n) <- fix_name nsmap (print_ns ns) nm; do v <- attr_value a;
              build_attrs res nsmap r (set_attr (u ++ n) v acc)
  end.
(* the loop of AXMLPrinter.__init__: the stack of open elements (innermost first) and the finished root.
   First the strings of an event are resolved, then the stack machine makes its move. *)
Inductive tevent := TStart (tag : str) (nsmap : list (str * str)) (attrs : list (str * str)) | TEnd | TText (s : str) | TSkip.
Definition tstate := (list frame * option xml)%type.
Definition tree_step (e : tevent) (t : tstate) : result tstate :=
  let '(stack, root) := t in
  match e with
  | TSkip => Ok t
  | TStart tag nsmap ats =>
      match stack, root with
      | [], Some _ => Err OtherError                             (* a second root: "No more elements available", break *)
      | _, _ => Ok ({| f_tag := tag; f_nsmap := nsmap; f_attrs := ats; f_text := []; f_kids := [] |} :: stack, root)
      end
  | TEnd =>
      match stack with
      | [] => Err IndexError
      | f :: [] => Ok ([], Some (close f))
      | f :: g :: rest => Ok (add_kid g (close f) :: rest, root)
      end
  | TText s =>
      match stack with
      | [] => Err IndexError
      | f :: rest => Ok (add_text f s :: rest, root)
      end
  end.
Definition resolve (res : list Z) (e : event) (stack_empty : bool) : result tevent :=
  match e with
  | EStart ns name attrs comment nss =>
      do nm <- (if name =? NONE then Ok [] else gs name);
      match nm with
      | [] => Ok TSkip                                           (* empty tag name: skipped *)
      | _ =>
        if negb (comment =? NONE) then Err OtherError else       (* comments: outside the model *)
        do nsu <- (if ns =? NONE then Ok [] else gs ns);
        do nsmap <- build_nsmap nss [];
        do ' (u, n) <- fix_name nsmap (print_ns nsu) nm;
        do ats <- build_attrs res nsmap attrs [];
        Ok (TStart (u ++ n) nsmap ats)
      end
  | EEnd ns name =>
      if stack_empty then Err IndexError else
      do nm <- (if name =? NONE then Ok [] else gs name);
      match nm with [] => Ok TSkip | _ => Ok TEnd end
  | EText name =>
      if stack_empty then Err IndexError else
      do s <- (if name =? NONE then Ok [] else gs name); Ok (TText s)
  end.
Definition on_event (res : list Z) (e : event) (t : tstate) : result tstate :=
  do te <- resolve res e (match fst t with [] => true | _ => false end); tree_step te t.
End WithPool.

(* ---------------------------------------------------------------- the whole document *)
Fixpoint run_doc (fuel : nat) (p : pool) (sysattr : list (Z * str)) (buf : list Z) (filesize : Z) (st : pstate) (t : tstate) : result tstate :=
  match fuel with
  | O => Err OutOfFuel
  | S f =>
      do ' (ev, st') <- do_next (S (length buf)) buf filesize st;
      match ev with
      | None => Ok t
      | Some e => do t' <- on_event p sysattr (s_res st') e t; run_doc f p sysattr buf filesize st' t'
      end
  end.
Definition parse_axml (sysattr : list (Z * str)) (buf : list Z) : result (option xml) :=
  if PoolModel.len buf <? 8 then Err OtherError else
  do h <- arsc_header buf 0 0;
  match h with
  | [ty; hs; filesize; _; after] =>
      if negb (hs =? 8) then Err OtherError else
      if PoolModel.len buf <? filesize then Err OtherError else
      do h2 <- arsc_header buf after 1;
      match h2 with
      | [_; hs2; size2; _; after2] =>
          if negb (hs2 =? 28) then Err OtherError else
          do p <- parse_pool (PoolModel.dropz after2 buf) size2;
          do ' (stack, root) <- run_doc (S (length buf)) p sysattr buf filesize {| s_pos := hs + size2; s_ns := []; s_res := [] |} ([], None);
          match stack, root with
          | [], r => Ok r
          | f :: _, _ => Ok (Some (close (last stack f)))       (* unclosed elements: the root object is the outermost one *)
          end
      | _ => Err OtherError
      end
  | _ => Err OtherError
  end.

Fixpoint vxml (x : xml) : val :=
  match x with
  | El tag nsmap attrs text kids tl =>
      VList [vlistZ tag; VList (map (fun q => VList [vlistZ (fst q); vlistZ (snd q)]) attrs); vlistZ text; VList (map vxml kids); vlistZ tl]
  end.
Definition obs_axml (x : list (Z * str) * list Z) : val :=
  let '(sysattr, buf) := x in
  vres (fun r => match r with Some t => vxml t | None => VNone end) (parse_axml sysattr buf).
