(* C28 - a whole RES_TABLE_TYPE chunk: header, configuration, dense offset array, entry records of the three kinds laid
   out one after the other - written anywhere in a file - is read back as exactly its entries with their resource ids *)
From Coq Require Import ZArith List Bool Lia ZifyBool.
Require Import V.Lib.Val V.Lib.Result V.Lib.Struct V.Axml.PoolModel V.Axml.ArscTypeModel V.Axml.ArscTypeProofs V.Axml.ArscComplex.
Import ListNotations.
Open Scope Z_scope.
Ltac Zify.zify_post_hook ::= Z.to_euclidean_division_equations.

Lemma len_app (a b : list Z) : len (a ++ b) = len a + len b.  Proof. unfold len. rewrite app_length. lia. Qed.
Lemma len_nonneg (a : list Z) : 0 <= len a.  Proof. unfold len. lia. Qed.

(* ---------------------------------------------------------------- entry records *)
Inductive erec :=
| RPlain (flags index ty data : Z)
| RCompact (key ty data : Z)
| RComplex (size flags index parent : Z) (items : list item).
Definition erec_bytes (r : erec) : list Z :=
  match r with
  | RPlain flags index ty data => b16 8 ++ b16 flags ++ b32 index ++ value_bytes ty data
  | RCompact key ty data => b16 key ++ b16 (8 + 256 * ty) ++ b32 data
  | RComplex size flags index parent items => b16 size ++ b16 flags ++ b32 index ++ b32 parent ++ b32 (Z.of_nat (length items)) ++ flat_map item_bytes items
  end.
Definition erec_entry (r : erec) (rid : Z) : entry :=
  match r with
  | RPlain flags index ty data => {| e_id := rid; e_size := 8; e_flags := flags; e_index := index; e_payload := Plain ty data |}
  | RCompact key ty data => {| e_id := rid; e_size := key; e_flags := 8 + 256 * ty; e_index := data; e_payload := Compact key data ty |}
  | RComplex size flags index parent items =>
      {| e_id := rid; e_size := size; e_flags := flags; e_index := index; e_payload := Complex parent (Z.of_nat (length items)) items |}
  end.
Definition wf_erec (r : erec) : Prop :=
  match r with
  | RPlain flags index ty data => 0 <= flags < 65536 /\ Z.land flags 1 = 0 /\ Z.land flags 8 = 0 /\ 0 <= index < 4294967296 /\ 0 <= data < 4294967296
  | RCompact key ty data => 0 <= key < 65536 /\ 0 <= ty < 256 /\ 0 <= data < 4294967296
  | RComplex size flags index parent items =>
      0 <= size < 65536 /\ 0 <= flags < 65536 /\ Z.land flags 1 = 1 /\ 0 <= index < 4294967296 /\ 0 <= parent < 4294967296 /\
      Forall wf_item items /\ Z.of_nat (length items) < 4294967296
  end.
Lemma len_items items : len (flat_map item_bytes items) = 12 * Z.of_nat (length items).
Proof. induction items as [|i l IH]; [reflexivity|]. cbn [flat_map length]. rewrite len_app, len_item, IH. lia. Qed.
Lemma len_erec_complex size flags index parent items : len (erec_bytes (RComplex size flags index parent items)) = 16 + 12 * Z.of_nat (length items).
Proof. cbn [erec_bytes]. rewrite !len_app, len_items. change (len (b16 size)) with 2. change (len (b16 flags)) with 2. change (len (b32 index)) with 4.
  change (len (b32 parent)) with 4. change (len (b32 (Z.of_nat (length items)))) with 4. lia. Qed.
Theorem erec_exact pre r rest endp rid : wf_erec r -> len pre + len (erec_bytes r) <= endp ->
  parse_entry (pre ++ erec_bytes r ++ rest) (len pre) endp rid = Ok (erec_entry r rid).
Proof.
  destruct r as [flags index ty data|key ty data|size flags index parent items]; intros Hw He.
  - destruct Hw as (H1 & H2 & H3 & H4 & H5). cbn [erec_bytes erec_entry]. rewrite <- !app_assoc. now apply plain_entry_exact.
  - destruct Hw as (H1 & H2 & H3). cbn [erec_bytes erec_entry]. rewrite <- !app_assoc. now apply compact_entry_exact.
  - destruct Hw as (H1 & H2 & H3 & H4 & H5 & H6 & H7). rewrite len_erec_complex in He. cbn [erec_bytes erec_entry]. rewrite <- !app_assoc.
    apply complex_entry_exact; auto. lia.
Qed.

(* ---------------------------------------------------------------- the slots of a type chunk *)
(* per resource index: the record of the entry, or no entry in this configuration; the records lie one after the other *)
Definition slot_bytes (s : option erec) : list Z := match s with Some r => erec_bytes r | None => [] end.
Definition body_bytes (slots : list (option erec)) : list Z := flat_map slot_bytes slots.
Fixpoint slot_offsets (at0 : Z) (slots : list (option erec)) : list (option Z) :=
  match slots with
  | [] => []
  | None :: r => None :: slot_offsets at0 r
  | Some e :: r => Some at0 :: slot_offsets (at0 + len (erec_bytes e)) r
  end.
Fixpoint expected (base i : Z) (slots : list (option erec)) : list entry :=
  match slots with
  | [] => []
  | None :: r => expected base (i + 1) r
  | Some e :: r => erec_entry e (base + i) :: expected base (i + 1) r
  end.
Definition wf_slot (s : option erec) : Prop := match s with Some r => wf_erec r | None => True end.
Lemma slot_offsets_length : forall slots a, length (slot_offsets a slots) = length slots.
Proof. induction slots as [|[e|] r IH]; intros a; cbn [slot_offsets length]; [reflexivity | now rewrite IH | now rewrite IH]. Qed.
Lemma slot_offsets_ok32 : forall slots a, 0 <= a -> a + len (body_bytes slots) < 4294967295 -> Forall ok32 (slot_offsets a slots).
Proof.
  induction slots as [|[e|] r IH]; intros a Ha Hb; cbn [slot_offsets]; [constructor| |].
  - unfold body_bytes in Hb. cbn [flat_map slot_bytes] in Hb. rewrite len_app in Hb. pose proof (len_nonneg (erec_bytes e)). pose proof (len_nonneg (flat_map slot_bytes r)).
    constructor; [cbn [ok32]; lia | apply IH; [lia | unfold body_bytes; lia]].
  - constructor; [exact I | apply IH; [lia | exact Hb]].
Qed.

(* the entries are read at the offsets of the table: induction over the slots, the records read so far in front *)
Lemma entries_at_offsets : forall slots pre done rest endp base i,
  Forall wf_slot slots -> len pre + len done + len (body_bytes slots) <= endp ->
  map_res (fun p => parse_entry (pre ++ done ++ body_bytes slots ++ rest) (len pre + fst p) endp (snd p))
          (present base i (slot_offsets (len done) slots)) = Ok (expected base i slots).
Proof.
  induction slots as [|[e|] r IH]; intros pre done rest endp base i Hw He.
  - reflexivity.
  - apply Forall_cons_iff in Hw as [We Wr]. cbn [slot_offsets present expected map_res fst snd].
    unfold body_bytes in *. cbn [flat_map slot_bytes] in *. rewrite len_app in He. pose proof (len_nonneg (flat_map slot_bytes r)).
    assert (E1 : parse_entry (pre ++ done ++ (erec_bytes e ++ flat_map slot_bytes r) ++ rest) (len pre + len done) endp (base + i) = Ok (erec_entry e (base + i))).
    { replace (pre ++ done ++ (erec_bytes e ++ flat_map slot_bytes r) ++ rest) with ((pre ++ done) ++ erec_bytes e ++ (flat_map slot_bytes r ++ rest)) by (now rewrite <- !app_assoc).
      rewrite <- len_app. apply erec_exact; [exact We | rewrite len_app; lia]. }
    rewrite E1. cbn [bind].
    specialize (IH pre (done ++ erec_bytes e) rest endp base (i + 1) Wr). rewrite len_app in IH.
    replace (pre ++ (done ++ erec_bytes e) ++ flat_map slot_bytes r ++ rest) with (pre ++ done ++ (erec_bytes e ++ flat_map slot_bytes r) ++ rest) in IH by (now rewrite <- !app_assoc).
    rewrite IH by lia. reflexivity.
  - apply Forall_cons_iff in Hw as [_ Wr]. cbn [slot_offsets present expected]. unfold body_bytes in *. cbn [flat_map slot_bytes app] in *.
    apply IH; assumption.
Qed.

(* ---------------------------------------------------------------- the configuration *)
(* a ResTable_config of the current layout (52 bytes or more, as aapt2 writes: 64): its declared size is what is consumed *)
Lemma config_len_exact S tail rest : 52 <= S < 4294967296 -> len tail = S - 4 -> config_len (b32 S ++ tail ++ rest) = Ok S.
Proof.
  intros HS Ht. unfold config_len. rewrite u32_b32 by lia. cbn [bind]. cbv zeta.
  assert (HL : len (b32 S ++ tail ++ rest) = S + len rest) by (rewrite !len_app; change (len (b32 S)) with 4; lia).
  rewrite HL. pose proof (len_nonneg rest) as Hr. set (L := S + len rest) in *.
  unfold strict_field, lenient_field. cbn [bind].
  repeat match goal with
         | |- context [if ?c then _ else _] =>
             first [replace c with true by lia | replace c with false by lia]; cbv iota; cbn [bind]
         end.
  f_equal. subst L. match goal with |- (if ?c then _ else _) = _ => destruct c eqn:E end; lia.
Qed.

(* ---------------------------------------------------------------- the chunk *)
Definition type_chunk_bytes (tid : Z) (cfg : list Z) (slots : list (option erec)) : list Z :=
  let count := Z.of_nat (length slots) in
  let hs := 20 + len cfg in
  let estart := hs + 4 * count in
  b16 513 ++ b16 hs ++ b32 (estart + len (body_bytes slots)) ++ [tid; 0] ++ b16 0 ++ b32 count ++ b32 estart ++
  cfg ++ flat_map enc32 (slot_offsets 0 slots) ++ body_bytes slots.
Definition type_chunk_size (cfg : list Z) (slots : list (option erec)) : Z :=
  20 + len cfg + 4 * Z.of_nat (length slots) + len (body_bytes slots).
Lemma len_enc32s l : len (flat_map enc32 l) = 4 * Z.of_nat (length l).
Proof. induction l as [|o l IH]; [reflexivity|]. cbn [flat_map length]. rewrite len_app, IH. change (len (enc32 o)) with 4. lia. Qed.
Lemma len_type_chunk tid cfg slots : len (type_chunk_bytes tid cfg slots) = type_chunk_size cfg slots.
Proof.
  unfold type_chunk_bytes, type_chunk_size. cbv zeta. rewrite !len_app, len_enc32s, slot_offsets_length.
  change (len (b16 513)) with 2. change (len [tid; 0]) with 2. change (len (b16 0)) with 2.
  repeat match goal with |- context [len (b16 ?x)] => change (len (b16 x)) with 2 end.
  repeat match goal with |- context [len (b32 ?x)] => change (len (b32 x)) with 4 end. lia.
Qed.

Lemma map_res_ext {A B} (f g : A -> result B) l : (forall x, f x = g x) -> map_res f l = map_res g l.
Proof. intros H. induction l as [|x l IH]; [reflexivity|]. cbn [map_res]. now rewrite H, IH. Qed.

(* a type chunk anywhere in a file: read back as its id, count and exactly the entries of its slots, each with the resource id
   package << 24 | type << 16 | index *)
Theorem type_chunk_exact pre tid S tail slots rest pkg :
  52 <= S < 65516 -> len tail = S - 4 -> Forall wf_slot slots -> type_chunk_size (b32 S ++ tail) slots < 4294967295 ->
  parse_type_chunk (pre ++ type_chunk_bytes tid (b32 S ++ tail) slots ++ rest) (len pre) pkg =
  Ok {| t_id := tid; t_flags := 0; t_count := Z.of_nat (length slots); t_entries := expected (pkg * 16777216 + tid * 65536) 0 slots |}.
Proof.
  intros HS Ht Hw Hsz. set (cfg := b32 S ++ tail) in *.
  assert (Lc : len cfg = S) by (unfold cfg; rewrite len_app; change (len (b32 S)) with 4; lia).
  unfold type_chunk_size in Hsz. rewrite Lc in Hsz. pose proof (len_nonneg (body_bytes slots)) as Lb.
  set (count := Z.of_nat (length slots)) in *. assert (0 <= count) by (unfold count; lia).
  unfold parse_type_chunk. rewrite at_app. unfold type_chunk_bytes. cbv zeta. fold count. rewrite Lc. rewrite <- !app_assoc.
  rewrite u16_b16 by lia. cbn [bind]. rewrite u16_b16 by lia. cbn [bind]. rewrite u32_b32 by lia. cbn [bind].
  cbn [app u8 bind]. rewrite u16_b16 by lia. cbn [bind]. rewrite u32_b32 by lia. cbn [bind]. rewrite u32_b32 by lia. cbn [bind].
  unfold cfg at 1. rewrite <- !app_assoc. rewrite config_len_exact by lia. cbn [bind].
  (* the offset array *)
  set (offs := flat_map enc32 (slot_offsets 0 slots)). set (body := body_bytes slots).
  set (hdr := b16 513 ++ b16 (20 + S) ++ b32 (20 + S + 4 * count + len body) ++ [tid; 0] ++ b16 0 ++ b32 count ++ b32 (20 + S + 4 * count)).
  assert (Lh : len hdr = 20) by reflexivity.
  assert (Ebuf : pre ++ b16 513 ++ b16 (20 + S) ++ b32 (20 + S + 4 * count + len body) ++ tid :: 0 :: b16 0 ++ b32 count ++ b32 (20 + S + 4 * count) ++ cfg ++ offs ++ body ++ rest
                 = (pre ++ hdr ++ cfg) ++ offs ++ body ++ rest).
  { unfold hdr. rewrite <- !app_assoc. reflexivity. }
  rewrite Ebuf. replace (len pre + 20 + S) with (len (pre ++ hdr ++ cfg)) by (rewrite !len_app, Lh, Lc; lia).
  rewrite at_app. unfold offs.
  pose proof (dense_offsets_exact (slot_offsets 0 slots) (length ((pre ++ hdr ++ cfg) ++ flat_map enc32 (slot_offsets 0 slots) ++ body ++ rest)) 0
                (pkg * 16777216 + tid * 65536) (body ++ rest)) as DO.
  rewrite slot_offsets_length in DO. cbn [Z.add] in DO. fold count in DO. rewrite DO; clear DO.
  2:{ apply slot_offsets_ok32; [lia | subst body; lia]. }
  2:{ rewrite !app_length. pose proof (len_enc32s (slot_offsets 0 slots)) as Le. unfold len in Le. rewrite slot_offsets_length in Le. lia. }
  cbn [bind].
  (* the entries *)
  pose proof (entries_at_offsets slots ((pre ++ hdr ++ cfg) ++ flat_map enc32 (slot_offsets 0 slots)) [] rest
                (len pre + (20 + S + 4 * count + len body)) (pkg * 16777216 + tid * 65536) 0 Hw) as EA.
  change (len []) with 0 in EA. cbn [app] in EA. fold body in EA.
  rewrite !len_app, Lh, Lc, len_enc32s, slot_offsets_length in EA. fold count in EA.
  rewrite <- !app_assoc in EA. rewrite <- !app_assoc.
  erewrite map_res_ext; [rewrite EA by lia; reflexivity|].
  intros p. cbv beta. f_equal. lia.
Qed.

(* a chunk with a plain, a missing, a compact and a complex entry (one item), a 64-byte configuration, written after 3 bytes *)
Definition ex_slots : list (option erec) := [Some (RPlain 0 7 3 42); None; Some (RCompact 9 16 1000); Some (RComplex 16 1 11 0 [(16777216, (16, 5))])].
Definition ex_cfg_tail : list Z := repeat 0 60.
Example type_chunk_example :
  Forall wf_slot ex_slots /\
  parse_type_chunk ([1; 2; 3] ++ type_chunk_bytes 2 (b32 64 ++ ex_cfg_tail) ex_slots ++ [9; 9]) 3 127 =
  Ok {| t_id := 2; t_flags := 0; t_count := 4; t_entries := expected (127 * 16777216 + 2 * 65536) 0 ex_slots |} /\
  map e_id (expected (127 * 16777216 + 2 * 65536) 0 ex_slots) = [2130837504; 2130837506; 2130837507].
Proof.
  assert (W : Forall wf_slot ex_slots).
  { unfold ex_slots. repeat constructor; cbn; try lia. }
  split; [exact W|]. split; [|reflexivity].
  apply (type_chunk_exact [1; 2; 3] 2 64 ex_cfg_tail ex_slots [9; 9] 127); [lia | reflexivity | exact W | vm_compute; reflexivity].
Qed.
Print Assumptions type_chunk_exact.
