(* C28 - the walk over a resource table: a package's chunks (type specs and types) and the table itself, written by the
   encoders below, are read back as exactly the encoded packages, types and entries *)
From Coq Require Import ZArith List Bool Lia ZifyBool.
Require Import V.Lib.Val V.Lib.Result V.Lib.Struct V.Axml.PoolModel V.Axml.PoolProofs V.Axml.ArscTypeModel V.Axml.ArscTypeProofs V.Axml.ArscComplex
               V.Axml.ArscTypeChunk V.Axml.ArscTypeChunkEnc V.Axml.ArscTableModel V.Misc.TermModel.
Import ListNotations.
Open Scope Z_scope.
Ltac Zify.zify_post_hook ::= Z.to_euclidean_division_equations.

Notation b16 := ArscTypeProofs.b16.
Notation b32 := ArscTypeProofs.b32.
Notation len := PoolModel.len.
Notation len_app := ArscTypeChunk.len_app.
Notation len_nonneg := ArscTypeChunk.len_nonneg.

Lemma tlen_eq l : TermModel.len l = len l.  Proof. reflexivity. Qed.
Lemma tdropz_app pre l : TermModel.dropz (len pre) (pre ++ l) = l.
Proof. exact (PoolProofs.dropz_app pre l). Qed.

(* a chunk header with plausible sizes, standing anywhere, is accepted as it stands *)
Definition hdr8 (ty hs sz : Z) : list Z := b16 ty ++ b16 hs ++ b32 sz.
Lemma len_hdr8 ty hs sz : len (hdr8 ty hs sz) = 8.  Proof. reflexivity. Qed.
Lemma arsc_header_lb pre ty hs sz rest ex : 0 <= ty < 65536 -> 8 <= hs < 65536 -> hs <= sz < 4294967296 -> ex = 0 \/ ex = ty ->
  arsc_header (pre ++ hdr8 ty hs sz ++ rest) (len pre) ex = Ok [ty; hs; sz; len pre; len pre + 8].
Proof.
  intros Ht Hh Hs Hex. unfold arsc_header. rewrite tlen_eq, !len_app, len_hdr8. pose proof (len_nonneg pre). pose proof (len_nonneg rest).
  replace (len pre + (8 + len rest) <? len pre + 8) with false by lia.
  unfold arsc_fuel. cbn [arsc_loop]. rewrite tdropz_app. unfold hdr8, ArscTypeProofs.b16, ArscTypeProofs.b32. cbn [lbytes app hdr].
  replace (ty mod 256 + 256 * (ty / 256 mod 256)) with ty by lia. replace (hs mod 256 + 256 * (hs / 256 mod 256)) with hs by lia.
  replace (sz mod 256 + 256 * (sz / 256 mod 256) + 65536 * (sz / 256 / 256 mod 256) + 16777216 * (sz / 256 / 256 / 256 mod 256)) with sz by lia.
  replace (sz <? 8) with false by lia. cbn [andb]. replace ((8 <=? hs) && (hs <=? sz)) with true by lia. cbn [orb bind].
  replace (negb (ex =? 0) && negb (ty =? ex)) with false by lia. replace (hs <? 8) with false by lia. replace (sz <? 8) with false by lia. replace (sz <? hs) with false by lia. reflexivity.
Qed.

(* ---------------------------------------------------------------- the chunks of a package *)
Inductive pchunk :=
| PSpec (tid : Z) (flags : list Z)                                         (* a type spec: one flag word per entry *)
| PType (tid cz : Z) (tail : list Z) (slots : list (option erec))           (* a type: configuration of cz bytes, the slots; 32-bit offsets *)
| PTypeG (tid fl cnt cz : Z) (tail oa : list Z) (slots : list (option erec))    (* a type in any encoding of the offset array oa (flags fl, count cnt) *)
| POther (ty hs : Z) (body : list Z).                                            (* any other chunk (library, overlayable, ...): the rest of its header and its body *)
Definition spec_bytes (tid : Z) (flags : list Z) : list Z :=
  hdr8 514 16 (16 + 4 * Z.of_nat (length flags)) ++ [tid; 0] ++ b16 0 ++ b32 (Z.of_nat (length flags)) ++ flat_map b32 flags.
Definition pchunk_bytes (c : pchunk) : list Z :=
  match c with
  | PSpec tid fl => spec_bytes tid fl
  | PType tid cz tail slots => type_chunk_bytes tid (b32 cz ++ tail) slots
  | PTypeG tid fl cnt cz tail oa slots => type_chunk_bytes_gen tid fl cnt (b32 cz ++ tail) oa slots
  | POther ty hs body => hdr8 ty hs (8 + len body) ++ body
  end.
Definition chunks_bytes (cs : list pchunk) : list Z := flat_map pchunk_bytes cs.
Definition wf_pchunk (tpool : pool) (c : pchunk) : Prop :=
  match c with
  | PSpec tid fl => 16 + 4 * Z.of_nat (length fl) < 4294967296
  | PType tid cz tail slots => 52 <= cz < 65516 /\ len tail = cz - 4 /\ Forall wf_slot slots /\ type_chunk_size (b32 cz ++ tail) slots < 4294967295 /\
                              exists s, get_string tpool (tid - 1) = Ok s
  | PTypeG tid fl cnt cz tail oa slots =>
      52 <= cz < 65516 /\ len tail = cz - 4 /\ Forall wf_slot slots /\ 0 <= cnt < 4294967296 /\
      20 + cz + len oa + len (body_bytes slots) < 4294967295 /\
      (forall base fuel rest', len oa <= Z.of_nat fuel -> read_offsets fuel fl 0 cnt base (oa ++ rest') = Ok (present base 0 (slot_offsets 0 slots))) /\
      exists s, get_string tpool (tid - 1) = Ok s
  | POther ty hs body => 0 <= ty < 65536 /\ ty <> 513 /\ ty <> 514 /\ 8 <= hs < 65536 /\ hs <= 8 + len body /\ 8 + len body < 4294967296
  end.
Definition type_of (pkg : Z) (c : pchunk) : list type_chunk :=
  match c with
  | PSpec _ _ => []
  | PType tid cz tail slots => [{| t_id := tid; t_flags := 0; t_count := Z.of_nat (length slots); t_entries := expected (pkg * 16777216 + tid * 65536) 0 slots |}]
  | PTypeG tid fl cnt cz tail oa slots => [{| t_id := tid; t_flags := fl; t_count := cnt; t_entries := expected (pkg * 16777216 + tid * 65536) 0 slots |}]
  | POther _ _ _ => []
  end.
Definition types_of (pkg : Z) (cs : list pchunk) : list type_chunk := flat_map (type_of pkg) cs.

Lemma len_b32s' l : len (flat_map b32 l) = 4 * Z.of_nat (length l).
Proof. induction l as [|x l IH]; [reflexivity|]. cbn [flat_map length]. rewrite len_app, IH. change (len (b32 x)) with 4. lia. Qed.
Lemma len_spec tid fl : len (spec_bytes tid fl) = 16 + 4 * Z.of_nat (length fl).
Proof. unfold spec_bytes. rewrite !len_app, len_b32s', len_hdr8. change (len [tid; 0]) with 2. change (len (b16 0)) with 2. change (len (b32 (Z.of_nat (length fl)))) with 4. lia. Qed.
Lemma len_type_chunk_gen tid fl cnt cfg oa slots : len (type_chunk_bytes_gen tid fl cnt cfg oa slots) = 20 + len cfg + len oa + len (body_bytes slots).
Proof.
  unfold type_chunk_bytes_gen. cbv zeta. rewrite !len_app. change (len [tid; fl]) with 2.
  repeat match goal with |- context [len (b16 ?x)] => change (len (b16 x)) with 2 end.
  repeat match goal with |- context [len (b32 ?x)] => change (len (b32 x)) with 4 end. lia.
Qed.
Lemma len_pchunk_ge c : 8 <= len (pchunk_bytes c).
Proof.
  destruct c as [tid fl|tid cz tail slots|tid fl cnt cz tail oa slots|ty hs body]; cbn [pchunk_bytes].
  4:{ rewrite len_app, len_hdr8. pose proof (len_nonneg body). lia. }
  - rewrite len_spec. lia.
  - rewrite len_type_chunk. unfold type_chunk_size. pose proof (len_nonneg (b32 cz ++ tail)). pose proof (len_nonneg (body_bytes slots)). lia.
  - rewrite len_type_chunk_gen. pose proof (len_nonneg (b32 cz ++ tail)). pose proof (len_nonneg (body_bytes slots)). pose proof (len_nonneg oa). lia.
Qed.
Lemma at_app' pre l : at_ (pre ++ l) (len pre) = l.  Proof. exact (at_app pre l). Qed.

Theorem package_chunks_exact tpool pkg : forall cs pre rest acc fuel,
  Forall (wf_pchunk tpool) cs -> (length cs < fuel)%nat ->
  package_chunks fuel (pre ++ chunks_bytes cs ++ rest) tpool (len pre) (len pre + len (chunks_bytes cs)) pkg acc = Ok (acc ++ types_of pkg cs).
Proof.
  induction cs as [|c cs IH]; intros pre rest acc fuel Hw Hf.
  - destruct fuel as [|f]; [cbn [length] in Hf; lia|]. cbn [package_chunks chunks_bytes flat_map types_of]. change (len []) with 0.
    replace (len pre + 0 - 8 <? len pre) with true by lia. now rewrite app_nil_r.
  - destruct fuel as [|f]; [cbn [length] in Hf; lia|]. cbn [length] in Hf. apply Forall_cons_iff in Hw as [Wc Wr].
    unfold chunks_bytes in *. cbn [flat_map types_of]. fold (types_of pkg cs). rewrite len_app.
    pose proof (len_pchunk_ge c) as Lc. pose proof (len_nonneg (flat_map pchunk_bytes cs)) as Lr.
    cbn [package_chunks]. replace (len pre + (len (pchunk_bytes c) + len (flat_map pchunk_bytes cs)) - 8 <? len pre) with false by lia.
    rewrite <- app_assoc.
    (* the induction hypothesis at the next chunk *)
    assert (Next : forall acc', package_chunks f (pre ++ pchunk_bytes c ++ flat_map pchunk_bytes cs ++ rest) tpool (len pre + len (pchunk_bytes c))
                      (len pre + (len (pchunk_bytes c) + len (flat_map pchunk_bytes cs))) pkg acc' = Ok (acc' ++ types_of pkg cs)).
    { intros acc'. rewrite (app_assoc pre). rewrite <- len_app. replace (len pre + (len (pchunk_bytes c) + len (flat_map pchunk_bytes cs)))
        with (len (pre ++ pchunk_bytes c) + len (flat_map pchunk_bytes cs)) by (rewrite len_app; lia). apply IH; [exact Wr | lia]. }
    destruct c as [tid fl|tid cz tail slots|tid fl cnt cz tail oa slots|ty hs body]; cbn [pchunk_bytes wf_pchunk type_of] in *.
    + rewrite len_spec in *. unfold spec_bytes. rewrite <- !app_assoc.
      rewrite arsc_header_lb by lia. cbn [bind].
      replace (len pre + (16 + 4 * Z.of_nat (length fl) + len (flat_map pchunk_bytes cs)) <? len pre + (16 + 4 * Z.of_nat (length fl))) with false by lia.
      change (514 =? RES_TABLE_TYPE_SPEC) with true. cbv iota.
      replace (len pre + 8) with (len (pre ++ hdr8 514 16 (16 + 4 * Z.of_nat (length fl)))) by (rewrite len_app, len_hdr8; lia).
      rewrite (app_assoc pre), at_app'. cbn [app u8 bind]. rewrite u16_b16 by lia. cbn [bind]. rewrite <- app_assoc.
      pose proof (Next acc) as N. unfold spec_bytes in N. rewrite <- !app_assoc in N. cbn [app] in N. rewrite N. cbn [app]. reflexivity.
    + destruct Wc as (Hcz & Ht & Hws & Hsz & s & Hgs). rewrite len_type_chunk in *.
      assert (Esz : type_chunk_size (b32 cz ++ tail) slots = 20 + cz + 4 * Z.of_nat (length slots) + len (body_bytes slots)).
      { unfold type_chunk_size. rewrite len_app. change (len (b32 cz)) with 4. lia. }
      pose proof (len_nonneg (body_bytes slots)) as Lb.
      (* the header *)
      assert (Eh : type_chunk_bytes tid (b32 cz ++ tail) slots = hdr8 513 (20 + cz) (type_chunk_size (b32 cz ++ tail) slots) ++
                   [tid; 0] ++ b16 0 ++ b32 (Z.of_nat (length slots)) ++ b32 (20 + cz + 4 * Z.of_nat (length slots)) ++
                   (b32 cz ++ tail) ++ flat_map enc32 (slot_offsets 0 slots) ++ body_bytes slots).
      { unfold type_chunk_bytes, hdr8. cbv zeta. rewrite Esz. rewrite !len_app. change (len (b32 cz)) with 4. rewrite Ht.
        replace (20 + (4 + (cz - 4))) with (20 + cz) by lia. rewrite <- !app_assoc. reflexivity. }
      pose proof (type_chunk_exact pre tid cz tail slots (flat_map pchunk_bytes cs ++ rest) pkg Hcz Ht Hws Hsz) as TC.
      rewrite Eh in TC, Next |- *. rewrite <- !app_assoc. repeat rewrite <- app_assoc in TC.
      rewrite arsc_header_lb by lia. cbn [bind].
      replace (len pre + (type_chunk_size (b32 cz ++ tail) slots + len (flat_map pchunk_bytes cs)) <? len pre + type_chunk_size (b32 cz ++ tail) slots) with false by lia.
      change (513 =? RES_TABLE_TYPE_SPEC) with false. change (513 =? RES_TABLE_TYPE) with true. cbv iota.
      replace (len pre + 8) with (len (pre ++ hdr8 513 (20 + cz) (type_chunk_size (b32 cz ++ tail) slots))) by (rewrite len_app, len_hdr8; lia).
      rewrite (app_assoc pre), at_app'. cbn [app u8 bind]. rewrite Hgs. cbn [bind]. rewrite <- app_assoc.
      cbn [app] in TC. rewrite TC. cbn [bind].
      pose proof (Next (acc ++ [{| t_id := tid; t_flags := 0; t_count := Z.of_nat (length slots); t_entries := expected (pkg * 16777216 + tid * 65536) 0 slots |}])) as N.
      rewrite <- !app_assoc in N. cbn [app] in N. rewrite N. rewrite <- ?app_assoc. reflexivity.
    + destruct Wc as (Hcz & Ht & Hws & Hcnt & Hsz & HOA & s & Hgs). rewrite len_type_chunk_gen in *.
      assert (Lcf : len (b32 cz ++ tail) = cz) by (rewrite len_app; change (len (b32 cz)) with 4; lia). rewrite Lcf in *.
      pose proof (len_nonneg (body_bytes slots)) as Lb. pose proof (len_nonneg oa) as Lo.
      set (sz := 20 + cz + len oa + len (body_bytes slots)) in *.
      assert (Eh : type_chunk_bytes_gen tid fl cnt (b32 cz ++ tail) oa slots = hdr8 513 (20 + cz) sz ++
                   [tid; fl] ++ b16 0 ++ b32 cnt ++ b32 (20 + cz + len oa) ++ (b32 cz ++ tail) ++ oa ++ body_bytes slots).
      { unfold type_chunk_bytes_gen, hdr8. cbv zeta. rewrite Lcf. unfold sz. rewrite <- !app_assoc. reflexivity. }
      pose proof (type_chunk_exact_gen pre tid fl cnt cz tail oa slots (flat_map pchunk_bytes cs ++ rest) pkg Hcz Ht Hws Hcnt Hsz
                    (HOA (pkg * 16777216 + tid * 65536))) as TC.
      rewrite Eh in TC, Next |- *. rewrite <- !app_assoc. repeat rewrite <- app_assoc in TC.
      rewrite arsc_header_lb by (unfold sz; lia). cbn [bind].
      replace (len pre + (sz + len (flat_map pchunk_bytes cs)) <? len pre + sz) with false by lia.
      change (513 =? RES_TABLE_TYPE_SPEC) with false. change (513 =? RES_TABLE_TYPE) with true. cbv iota.
      replace (len pre + 8) with (len (pre ++ hdr8 513 (20 + cz) sz)) by (rewrite len_app, len_hdr8; lia).
      rewrite (app_assoc pre), at_app'. cbn [app u8 bind]. rewrite Hgs. cbn [bind]. rewrite <- app_assoc.
      cbn [app] in TC. rewrite TC. cbn [bind].
      pose proof (Next (acc ++ [{| t_id := tid; t_flags := fl; t_count := cnt; t_entries := expected (pkg * 16777216 + tid * 65536) 0 slots |}])) as N.
      rewrite <- !app_assoc in N. cbn [app] in N. rewrite N. rewrite <- ?app_assoc. reflexivity.
    + destruct Wc as (Hty & H513 & H514 & Hhs & Hle & Hsz). rewrite len_app, len_hdr8 in *. pose proof (len_nonneg body) as Lb.
      rewrite <- !app_assoc. rewrite arsc_header_lb by lia. cbn [bind].
      replace (len pre + (8 + len body + len (flat_map pchunk_bytes cs)) <? len pre + (8 + len body)) with false by lia.
      unfold RES_TABLE_TYPE_SPEC, RES_TABLE_TYPE. replace (ty =? 514) with false by lia. replace (ty =? 513) with false by lia. cbv iota.
      pose proof (Next acc) as N. rewrite <- !app_assoc in N. rewrite N. now rewrite ?app_nil_r.
Qed.

Lemma chunks_count_le cs : Z.of_nat (length cs) * 8 <= len (chunks_bytes cs).
Proof. unfold chunks_bytes. induction cs as [|c l IH]; [cbn; lia|]. cbn [flat_map length]. rewrite len_app. pose proof (len_pchunk_ge c). lia. Qed.

(* ---------------------------------------------------------------- the table *)
(* a string pool chunk: header and the bytes of PoolProofs.pool_bytes *)
Definition pool_chunk (u : bool) (ss : list str) (pad : list Z) : list Z := hdr8 1 28 (pool_size u ss pad) ++ pool_bytes u ss pad.
Definition pool_bound (u : bool) (ss : list str) : Prop :=
  28 + 4 * Z.of_nat (length ss) + len (concat (map (if u then entry8 else entry16) ss)) < 4294967296.
Lemma len_pool_bytes' u ss pad : len (pool_bytes u ss pad) = pool_size u ss pad - 8.
Proof.
  unfold pool_bytes, pool_size. cbv zeta. rewrite !PoolProofs.len_app.
  repeat match goal with |- context [len (PoolProofs.b32 ?x)] => change (len (PoolProofs.b32 x)) with 4 end.
  assert (E : len (flat_map PoolProofs.b32 (offsets_from 0 (map (if u then entry8 else entry16) ss))) = 4 * Z.of_nat (length ss)).
  { unfold len. rewrite PoolProofs.length_b32s, offsets_from_length, map_length. lia. }
  rewrite E. lia.
Qed.
Lemma len_pool_chunk u ss pad : len (pool_chunk u ss pad) = pool_size u ss pad.
Proof. unfold pool_chunk. rewrite len_app, len_hdr8, len_pool_bytes'. lia. Qed.
Lemma pool_size_ge u ss pad : 28 <= pool_size u ss pad.
Proof. unfold pool_size. cbv zeta. match goal with |- context [len ?z] => pose proof (len_nonneg z) end. lia. Qed.

Record pkg_desc := { d_id : Z; d_name : list Z; d_tu : bool; d_tss : list str; d_tpad : list Z; d_ku : bool; d_kss : list str; d_kpad : list Z;
                     d_last_type : Z; d_last_key : Z; d_chunks : list pchunk }.
Definition pkg_size (d : pkg_desc) : Z :=
  288 + pool_size (d_tu d) (d_tss d) (d_tpad d) + pool_size (d_ku d) (d_kss d) (d_kpad d) + len (chunks_bytes (d_chunks d)).
Definition pkg_bytes (d : pkg_desc) : list Z :=
  hdr8 512 288 (pkg_size d) ++ b32 (d_id d) ++ d_name d ++ b32 288 ++ b32 (d_last_type d) ++
  b32 (288 + pool_size (d_tu d) (d_tss d) (d_tpad d)) ++ b32 (d_last_key d) ++ b32 0 ++
  pool_chunk (d_tu d) (d_tss d) (d_tpad d) ++ pool_chunk (d_ku d) (d_kss d) (d_kpad d) ++ chunks_bytes (d_chunks d).
Definition table_bytes (mu : bool) (mss : list str) (mpad : list Z) (d : pkg_desc) : list Z :=
  hdr8 2 12 (12 + pool_size mu mss mpad + pkg_size d) ++ b32 1 ++ pool_chunk mu mss mpad ++ pkg_bytes d.
Definition wf_pkg (d : pkg_desc) : Prop :=
  0 <= d_id d < 4294967296 /\ len (d_name d) = 256 /\ 0 <= d_last_type d < 4294967296 /\ 0 <= d_last_key d < 4294967296 /\
  pool_bound (d_tu d) (d_tss d) /\ pool_bound (d_ku d) (d_kss d) /\
  Forall (wf_pchunk (pool_of (d_tu d) (d_tss d) (d_tpad d))) (d_chunks d).

Lemma takez_app' a l : PoolModel.takez (len a) (a ++ l) = a.  Proof. exact (PoolProofs.takez_app a l). Qed.
Lemma dropz_app' a l : PoolModel.dropz (len a) (a ++ l) = l.  Proof. exact (PoolProofs.dropz_app a l). Qed.

(* the whole table: header, package count, main string pool, one package (header, type and key string pools, type specs
   and types) - read back as that package with exactly the encoded types and entries *)
Theorem table_exact mu mss mpad d :
  wf_pkg d -> pool_bound mu mss -> 12 + pool_size mu mss mpad + pkg_size d < 4294967296 ->
  parse_table (table_bytes mu mss mpad d) =
  Ok [{| pk_id := d_id d; pk_name := name_units (d_name d); pk_types := types_of (d_id d mod 256) (d_chunks d) |}].
Proof.
  intros (Hid & Hname & Hlt & Hlk & Htb & Hkb & Hcs) Hmb Htot.
  set (msz := pool_size mu mss mpad) in *. set (tsz := pool_size (d_tu d) (d_tss d) (d_tpad d)) in *. set (ksz := pool_size (d_ku d) (d_kss d) (d_kpad d)) in *.
  set (CS := chunks_bytes (d_chunks d)) in *. set (psz := pkg_size d) in *.
  assert (Epsz : psz = 288 + tsz + ksz + len CS) by reflexivity.
  pose proof (pool_size_ge mu mss mpad) as M28. pose proof (pool_size_ge (d_tu d) (d_tss d) (d_tpad d)) as T28. pose proof (pool_size_ge (d_ku d) (d_kss d) (d_kpad d)) as K28.
  fold msz in M28. fold tsz in T28. fold ksz in K28. pose proof (len_nonneg CS) as LCS.
  set (T := 12 + msz + psz) in *.
  set (MPb := pool_bytes mu mss mpad). set (TPb := pool_bytes (d_tu d) (d_tss d) (d_tpad d)). set (KPb := pool_bytes (d_ku d) (d_kss d) (d_kpad d)).
  assert (LM : len MPb = msz - 8) by apply len_pool_bytes'. assert (LT : len TPb = tsz - 8) by apply len_pool_bytes'. assert (LK : len KPb = ksz - 8) by apply len_pool_bytes'.
  set (PKB := b32 (d_id d) ++ d_name d ++ b32 288 ++ b32 (d_last_type d) ++ b32 (288 + tsz) ++ b32 (d_last_key d) ++ b32 0).
  assert (LP : len PKB = 280). { unfold PKB. rewrite !len_app, Hname. reflexivity. }
  (* the file, segment by segment *)
  set (buf := table_bytes mu mss mpad d).
  assert (Ebuf : buf = hdr8 2 12 T ++ b32 1 ++ hdr8 1 28 msz ++ MPb ++ hdr8 512 288 psz ++ PKB ++ hdr8 1 28 tsz ++ TPb ++ hdr8 1 28 ksz ++ KPb ++ CS).
  { unfold buf, table_bytes, pkg_bytes, pool_chunk, PKB. fold msz tsz ksz psz CS MPb TPb KPb. fold T. rewrite <- !app_assoc. reflexivity. }
  assert (Lbuf : len buf = T).
  { rewrite Ebuf, !len_app, !len_hdr8, LM, LT, LK, LP. change (len (b32 1)) with 4. unfold T. lia. }
  unfold parse_table. rewrite !tlen_eq. rewrite Lbuf. replace ((T <? 8) || (4294967295 <? T)) with false by lia.
  (* the table header *)
  assert (H0 : arsc_header buf 0 RES_TABLE = Ok [2; 12; T; 0; 8]).
  { rewrite Ebuf. exact (arsc_header_lb [] 2 12 T _ RES_TABLE ltac:(lia) ltac:(lia) ltac:(lia) (or_intror eq_refl)). }
  rewrite H0. cbn [bind]. replace (T <? T) with false by lia.
  assert (A8 : at_ buf 8 = b32 1 ++ hdr8 1 28 msz ++ MPb ++ hdr8 512 288 psz ++ PKB ++ hdr8 1 28 tsz ++ TPb ++ hdr8 1 28 ksz ++ KPb ++ CS).
  { rewrite Ebuf. exact (at_app' (hdr8 2 12 T) _). }
  rewrite A8. rewrite u32_b32 by lia. cbn [bind]. change (0 + 12) with 12. change (0 + T) with T.
  (* first chunk: the main string pool *)
  assert (Fuel : (3 <= length buf)%nat). { pose proof Lbuf as Lb. unfold len in Lb. lia. }
  destruct (length buf) as [|[|[|n]]] eqn:EL; try lia. clear Fuel.
  cbn [table_chunks]. replace (T - 8 <? 12) with false by lia.
  set (pre1 := hdr8 2 12 T ++ b32 1).
  assert (H1 : arsc_header buf 12 0 = Ok [1; 28; msz; 12; 20]).
  { rewrite Ebuf. rewrite (app_assoc (hdr8 2 12 T)). fold pre1. exact (arsc_header_lb pre1 1 28 msz _ 0 ltac:(lia) ltac:(lia) ltac:(lia) (or_introl eq_refl)). }
  rewrite H1. cbn [bind]. replace (T <? 12 + msz) with false by lia. change (1 =? RES_STRING_POOL) with true. cbv iota.
  assert (P1 : pool_at buf 20 msz = Ok (pool_of mu mss mpad)).
  { unfold pool_at. rewrite Ebuf. replace (hdr8 2 12 T ++ b32 1 ++ hdr8 1 28 msz ++ MPb ++ hdr8 512 288 psz ++ PKB ++ hdr8 1 28 tsz ++ TPb ++ hdr8 1 28 ksz ++ KPb ++ CS)
      with ((pre1 ++ hdr8 1 28 msz) ++ MPb ++ (hdr8 512 288 psz ++ PKB ++ hdr8 1 28 tsz ++ TPb ++ hdr8 1 28 ksz ++ KPb ++ CS)) by (unfold pre1; now rewrite <- !app_assoc).
    change 20 with (len (pre1 ++ hdr8 1 28 msz)). rewrite at_app'. unfold MPb, msz. now apply parse_pool_exact. }
  rewrite P1. cbn [bind].
  (* second chunk: the package *)
  set (p1 := 12 + msz). cbn [table_chunks]. replace (T - 8 <? p1) with false by (unfold p1; lia).
  set (pre2 := pre1 ++ hdr8 1 28 msz ++ MPb).
  assert (L2 : len pre2 = p1). { unfold pre2, pre1. rewrite !len_app, !len_hdr8, LM. change (len (b32 1)) with 4. unfold p1. lia. }
  assert (E2 : buf = pre2 ++ hdr8 512 288 psz ++ PKB ++ hdr8 1 28 tsz ++ TPb ++ hdr8 1 28 ksz ++ KPb ++ CS).
  { rewrite Ebuf. unfold pre2, pre1. now rewrite <- !app_assoc. }
  assert (H2 : arsc_header buf p1 0 = Ok [512; 288; psz; p1; p1 + 8]).
  { rewrite E2, <- L2. exact (arsc_header_lb pre2 512 288 psz _ 0 ltac:(lia) ltac:(lia) ltac:(lia) (or_introl eq_refl)). }
  rewrite H2. cbn [bind]. replace (T <? p1 + psz) with false by (unfold p1, T; lia).
  change (512 =? RES_STRING_POOL) with false. change (512 =? RES_TABLE_PACKAGE) with true. cbv iota. cbn [length]. change (1 <? Z.of_nat 0) with false. cbv iota.
  assert (A2 : at_ buf (p1 + 8) = PKB ++ hdr8 1 28 tsz ++ TPb ++ hdr8 1 28 ksz ++ KPb ++ CS).
  { rewrite E2. rewrite (app_assoc pre2). replace (p1 + 8) with (len (pre2 ++ hdr8 512 288 psz)) by (rewrite len_app, L2, len_hdr8; lia). apply at_app'. }
  rewrite A2. unfold PKB at 1. rewrite <- !app_assoc. rewrite u32_b32 by lia. cbn [bind].
  assert (TK : forall l, PoolModel.takez 256 (d_name d ++ l) = d_name d) by (intros l; rewrite <- Hname; apply takez_app').
  assert (DK : forall l, PoolModel.dropz 256 (d_name d ++ l) = l) by (intros l; rewrite <- Hname; apply dropz_app').
  rewrite TK, DK.
  rewrite u32_b32 by lia. cbn [bind]. rewrite u32_b32 by lia. cbn [bind]. rewrite u32_b32 by lia. cbn [bind]. rewrite u32_b32 by lia. cbn [bind].
  (* the type string pool *)
  set (pre3 := pre2 ++ hdr8 512 288 psz ++ PKB).
  assert (L3 : len pre3 = p1 + 288). { unfold pre3. rewrite !len_app, L2, len_hdr8, LP. lia. }
  assert (E3 : buf = pre3 ++ hdr8 1 28 tsz ++ TPb ++ hdr8 1 28 ksz ++ KPb ++ CS). { rewrite E2. unfold pre3. now rewrite <- !app_assoc. }
  assert (H3 : arsc_header buf (p1 + 288) RES_STRING_POOL = Ok [1; 28; tsz; p1 + 288; p1 + 288 + 8]).
  { rewrite E3, <- L3. exact (arsc_header_lb pre3 1 28 tsz _ RES_STRING_POOL ltac:(lia) ltac:(lia) ltac:(lia) (or_intror eq_refl)). }
  rewrite H3. cbn [bind].
  assert (P3 : pool_at buf (p1 + 288 + 8) tsz = Ok (pool_of (d_tu d) (d_tss d) (d_tpad d))).
  { unfold pool_at. rewrite E3. rewrite (app_assoc pre3). replace (p1 + 288 + 8) with (len (pre3 ++ hdr8 1 28 tsz)) by (rewrite len_app, L3, len_hdr8; lia).
    rewrite at_app'. unfold TPb, tsz. now apply parse_pool_exact. }
  rewrite P3. cbn [bind].
  (* the key string pool *)
  set (pre4 := pre3 ++ hdr8 1 28 tsz ++ TPb).
  assert (L4 : len pre4 = p1 + (288 + tsz)). { unfold pre4. rewrite !len_app, L3, len_hdr8, LT. lia. }
  assert (E4 : buf = pre4 ++ hdr8 1 28 ksz ++ KPb ++ CS). { rewrite E3. unfold pre4. now rewrite <- !app_assoc. }
  assert (H4 : arsc_header buf (p1 + (288 + tsz)) RES_STRING_POOL = Ok [1; 28; ksz; p1 + (288 + tsz); p1 + (288 + tsz) + 8]).
  { rewrite E4, <- L4. exact (arsc_header_lb pre4 1 28 ksz _ RES_STRING_POOL ltac:(lia) ltac:(lia) ltac:(lia) (or_intror eq_refl)). }
  rewrite H4. cbn [bind].
  assert (P4 : pool_at buf (p1 + (288 + tsz) + 8) ksz = Ok (pool_of (d_ku d) (d_kss d) (d_kpad d))).
  { unfold pool_at. rewrite E4. rewrite (app_assoc pre4). replace (p1 + (288 + tsz) + 8) with (len (pre4 ++ hdr8 1 28 ksz)) by (rewrite len_app, L4, len_hdr8; lia).
    rewrite at_app'. unfold KPb, ksz. now apply parse_pool_exact. }
  rewrite P4. cbn [bind].
  (* the chunks of the package *)
  set (pre5 := pre4 ++ hdr8 1 28 ksz ++ KPb).
  assert (L5 : len pre5 = p1 + 288 + tsz + ksz). { unfold pre5. rewrite !len_app, L4, len_hdr8, LK. lia. }
  assert (E5 : buf = pre5 ++ chunks_bytes (d_chunks d) ++ []). { rewrite E4. unfold pre5. fold CS. now rewrite <- !app_assoc, app_nil_r. }
  assert (PC : package_chunks (S (length buf)) buf (pool_of (d_tu d) (d_tss d) (d_tpad d)) (p1 + 288 + tsz + ksz) (p1 + psz) (d_id d mod 256) [] =
               Ok (types_of (d_id d mod 256) (d_chunks d))).
  { replace (p1 + 288 + tsz + ksz) with (len pre5) by lia. replace (p1 + psz) with (len pre5 + len (chunks_bytes (d_chunks d))) by (fold CS; lia).
    assert (Hfuel : (length (d_chunks d) < S (length buf))%nat).
    { assert (ET : T = 12 + msz + psz) by reflexivity. pose proof (chunks_count_le (d_chunks d)) as HC. fold CS in HC.
      pose proof Lbuf as Lb'. unfold len in Lb'. lia. }
    rewrite E5 in Hfuel |- *. change (types_of (d_id d mod 256) (d_chunks d)) with ([] ++ types_of (d_id d mod 256) (d_chunks d)).
    apply package_chunks_exact; [exact Hcs | exact Hfuel]. }
  rewrite PC. cbn [bind add_package].
  (* behind the package: the end of the table *)
  cbn [table_chunks]. replace (T - 8 <? p1 + psz) with true by (unfold p1, T; lia). reflexivity.
Qed.
Print Assumptions table_exact.

(* a table: main pool ["hello"], package 127 "ab" with type strings ["string"], key strings ["k"], a type spec and one type
   chunk holding a string entry and a missing one *)
Definition ex_desc : pkg_desc :=
  {| d_id := 127; d_name := [97; 0; 98; 0] ++ repeat 0 252; d_tu := true; d_tss := [[115; 116; 114; 105; 110; 103]]; d_tpad := [0];
     d_ku := false; d_kss := [[107]]; d_kpad := []; d_last_type := 1; d_last_key := 1;
     d_chunks := [PSpec 1 [0; 0]; PType 1 64 (repeat 0 60) [Some (RPlain 0 0 3 0); None]] |}.
Example table_example :
  wf_pkg ex_desc /\
  parse_table (table_bytes true [[104; 101; 108; 108; 111]] [0; 0] ex_desc) =
  Ok [{| pk_id := 127; pk_name := [97; 98];
         pk_types := [{| t_id := 1; t_flags := 0; t_count := 2;
                         t_entries := [{| e_id := 2130771968; e_size := 8; e_flags := 0; e_index := 0; e_payload := Plain 3 0 |}] |}] |}].
Proof.
  assert (W : wf_pkg ex_desc).
  { unfold wf_pkg, ex_desc. cbn [d_id d_name d_tu d_tss d_tpad d_ku d_kss d_kpad d_last_type d_last_key d_chunks].
    split; [lia|]. split; [reflexivity|]. split; [lia|]. split; [lia|]. split; [vm_compute; reflexivity|]. split; [vm_compute; reflexivity|].
    constructor; [cbn; lia|]. constructor; [|constructor]. cbn [wf_pchunk]. split; [lia|]. split; [reflexivity|].
    split; [repeat constructor; cbn; lia|]. split; [vm_compute; reflexivity|]. eexists. vm_compute. reflexivity. }
  split; [exact W|]. rewrite (table_exact true [[104; 101; 108; 108; 111]] [0; 0] ex_desc W); [reflexivity | vm_compute; reflexivity | vm_compute; reflexivity].
Qed.
