(* C26 (and C28, C31) - hand-written model of StringBlock (androguard/core/axml/__init__.py): the ResStringPool chunk
   (counts, flags, offsets, the character buffer) and getString with _decode8 / _decode16 / _decode_length.
   A str is the list of its code points.  Python's 'replace' error handling is modelled for UTF-16 (a lone surrogate
   becomes U+FFFD); malformed UTF-8 is outside the model (Err OtherError).  Tied to the source by tools/props/c26.py. *)
From Coq Require Import ZArith List Bool.
Require Import V.Lib.Val V.Lib.Result.
Import ListNotations.
Open Scope Z_scope.

Definition str := list Z.
Fixpoint takez (n : Z) (l : list Z) : list Z := match l with [] => [] | x :: r => if n <=? 0 then [] else x :: takez (n - 1) r end.
Fixpoint dropz (n : Z) (l : list Z) : list Z := match l with [] => [] | x :: r => if n <=? 0 then l else dropz (n - 1) r end.
Definition len (l : list Z) : Z := Z.of_nat (length l).
Definition slice (l : list Z) (a n : Z) : list Z := takez n (dropz a l).
Definition u16 (l : list Z) : result (Z * list Z) := match l with a :: b :: r => Ok (a + 256 * b, r) | _ => Err StructError end.
Definition u32 (l : list Z) : result (Z * list Z) :=
  match l with a :: b :: c :: d :: r => Ok (a + 256 * b + 65536 * c + 16777216 * d, r) | _ => Err StructError end.
Fixpoint u32s (fuel : nat) (n : Z) (l : list Z) : result (list Z * list Z) :=
  if n <=? 0 then Ok ([], l) else
  match fuel with O => Err StructError | S f => do ' (x, r) <- u32 l; do ' (xs, r') <- u32s f (n - 1) r; Ok (x :: xs, r') end.

Record pool := { p_utf8 : bool; p_count : Z; p_offsets : list Z; p_chars : list Z }.
(* rest = the bytes after the 8-byte chunk header; size = the chunk size of the header *)
Definition parse_pool (rest : list Z) (size : Z) : result pool :=
  do ' (count0, r1) <- u32 rest; do ' (styles, r2) <- u32 r1; do ' (flags, r3) <- u32 r2;
  do ' (soff, r4) <- u32 r3; do ' (styoff, r5) <- u32 r4;
  (* (stringsOffset - (styleCount * 4 + 28)) / 4 != stringCount: float division, then int() *)
  let d := soff - (styles * 4 + 28) in
  let count := if (d mod 4 =? 0) && (d / 4 =? count0) then count0 else Z.quot d 4 in
  do ' (offs, r6) <- u32s (length r5) count r5;
  do ' (_, r7) <- u32s (length r6) styles r6;
  let sz := if negb (styoff =? 0) && negb (styles =? 0) then styoff - soff else size - soff in
  if sz <? 0 then Err OtherError else       (* read of a negative count: the rest of the file; outside the model *)
  Ok {| p_utf8 := negb (Z.land flags 256 =? 0); p_count := count; p_offsets := offs; p_chars := takez sz r7 |}.

(* _decode_length: one or two units of sizeof_char bytes; (length, bytes consumed) *)
Definition decode_length (chars : list Z) (off : Z) (wide : bool) : result (Z * Z) :=
  if wide then
    match slice chars off 4 with
    | [a; b; c; d] => let l1 := a + 256 * b in let l2 := c + 256 * d in
                      if negb (Z.land l1 32768 =? 0) then Ok (Z.lor (Z.shiftl (Z.land l1 32767) 16) l2, 4) else Ok (l1, 2)
    | _ => Err StructError
    end
  else
    match slice chars off 2 with
    | [l1; l2] => if negb (Z.land l1 128 =? 0) then Ok (Z.lor (Z.shiftl (Z.land l1 127) 8) l2, 2) else Ok (l1, 1)
    | _ => Err StructError
    end.

(* bytes.decode('utf-16-le', 'replace') on an even number of bytes *)
Fixpoint units_of (l : list Z) : list Z := match l with a :: b :: r => (a + 256 * b) :: units_of r | _ => [] end.
Definition is_hi (u : Z) : bool := (55296 <=? u) && (u <? 56320).
Definition is_lo (u : Z) : bool := (56320 <=? u) && (u <? 57344).
Fixpoint utf16_points (us : list Z) : str :=
  match us with
  | [] => []
  | h :: r => match r with
              | l :: t => if is_hi h && is_lo l then (65536 + (h - 55296) * 1024 + (l - 56320)) :: utf16_points t
                          else (if is_hi h || is_lo h then 65533 else h) :: utf16_points r
              | [] => [if is_hi h || is_lo h then 65533 else h]
              end
  end.
(* bytes.decode('utf-8') for well-formed input (shortest forms, no surrogates); anything else is outside the model *)
Definition cont (b : Z) : bool := (128 <=? b) && (b <? 192).
Fixpoint utf8_points (fuel : nat) (l : list Z) : result str :=
  match l with
  | [] => Ok []
  | b1 :: t =>
    match fuel with O => Err OutOfFuel | S f =>
    if b1 <? 128 then do r <- utf8_points f t; Ok (b1 :: r)
    else if (194 <=? b1) && (b1 <? 224) then
      match t with b2 :: t' => if cont b2 then do r <- utf8_points f t'; Ok ((b1 - 192) * 64 + (b2 - 128) :: r) else Err OtherError | _ => Err OtherError end
    else if (224 <=? b1) && (b1 <? 240) then
      match t with
      | b2 :: b3 :: t' =>
          let c := (b1 - 224) * 4096 + (b2 - 128) * 64 + (b3 - 128) in
          if cont b2 && cont b3 && (2048 <=? c) && negb ((55296 <=? c) && (c <? 57344)) then do r <- utf8_points f t'; Ok (c :: r) else Err OtherError
      | _ => Err OtherError
      end
    else if (240 <=? b1) && (b1 <? 245) then
      match t with
      | b2 :: b3 :: b4 :: t' =>
          let c := (b1 - 240) * 262144 + (b2 - 128) * 4096 + (b3 - 128) * 64 + (b4 - 128) in
          if cont b2 && cont b3 && cont b4 && (65536 <=? c) && (c <? 1114112) then do r <- utf8_points f t'; Ok (c :: r) else Err OtherError
      | _ => Err OtherError
      end
    else Err OtherError
    end
  end.

Definition decode16 (chars : list Z) (off : Z) : result str :=
  do ' (n, skip) <- decode_length chars off true;
  let o := off + skip in
  if len chars <? o + 2 * n then Ok [] else
  match slice chars (o + 2 * n) 2 with
  | [0; 0] => Ok (utf16_points (units_of (slice chars o (2 * n))))
  | _ => Err ResParserError
  end.
Definition decode8 (chars : list Z) (off : Z) : result str :=
  do ' (_, skip1) <- decode_length chars off false;
  do ' (n, skip2) <- decode_length chars (off + skip1) false;
  let o := off + skip1 + skip2 in
  if len chars <? o + n then Ok [] else
  match slice chars (o + n) 1 with
  | [0] => utf8_points (S (Z.to_nat n)) (slice chars o n)
  | [_] => Ok []
  | _ => Err IndexError
  end.
Definition nthz {A} (l : list A) (i : Z) : option A :=
  if (i <? 0) || (Z.of_nat (length l) <=? i) then None else nth_error l (Z.to_nat i).
(* StringBlock.getString: the empty string for an index outside the table *)
Definition get_string (p : pool) (idx : Z) : result str :=
  if (idx <? 0) || (p_count p <=? idx) then Ok [] else
  match nthz (p_offsets p) idx with
  | None => Ok []
  | Some off => if p_utf8 p then decode8 (p_chars p) off else decode16 (p_chars p) off
  end.
