(* C30 - hand-written model of ARSCResTableConfig._unpack_language_or_region,
   _pack_language_or_region, set_language_and_region and get_language_and_region
   (androguard/core/axml/__init__.py).  Strings are lists of code points, the locale is the
   unbounded integer Python computes.  Tied to the source by the correspondence streams of
   tools/props/c30.py. *)
From Coq Require Import ZArith List Bool.
Require Import V.Lib.Val.
Import ListNotations.
Open Scope Z_scope.

(* _unpack_language_or_region([b0, b1], base) *)
Definition unpack (b0 b1 base : Z) : list Z :=
  if negb (Z.land b0 128 =? 0) then
    let first := Z.land b1 31 in
    let second := Z.shiftr (Z.land b1 224) 5 + Z.shiftl (Z.land b0 3) 3 in
    let third := Z.shiftr (Z.land b0 124) 2 in
    [first + base; second + base; third + base]
  else (if b0 =? 0 then [] else [b0]) ++ (if b1 =? 0 then [] else [b1]).

(* _pack_language_or_region(s, base) *)
Definition pack (s : list Z) (base : Z) : Z * Z :=
  match s with
  | [c0; c1; c2] =>
      let first := Z.land (c0 - base) 127 in
      let second := Z.land (c1 - base) 127 in
      let third := Z.land (c2 - base) 127 in
      (Z.lor (Z.lor 128 (Z.shiftl third 2)) (Z.shiftr second 3),
       Z.land (Z.lor (Z.shiftl second 5) first) 255)
  | [c0; c1] => (c0, c1)
  | _ => (0, 0)
  end.

(* str.split("-r"): non-overlapping occurrences, left to right *)
Fixpoint split_go (acc s : list Z) : list (list Z) :=
  match s with
  | [] => [rev acc]
  | c :: t =>
      match t with
      | d :: t' => if (c =? 45) && (d =? 114) then rev acc :: split_go [] t'
                   else split_go (c :: acc) t
      | [] => split_go (c :: acc) t
      end
  end.
Definition split_r (s : list Z) : list (list Z) := split_go [] s.

Definition nonempty (s : list Z) : bool := match s with [] => false | _ => true end.

(* set_language_and_region(s): the new value of self.locale *)
Definition set_lr (s : list Z) : Z :=
  let '(lang, region) := match split_r s with
                         | [l; r] => (l, Some r)
                         | _ => (s, None)     (* ValueError of the tuple unpacking *)
                         end in
  let '(l0, l1) := pack lang 97 in
  let '(r0, r1) := match region with
                   | Some r => if nonempty r then pack r 48 else (0, 0)
                   | None => (0, 0)
                   end in
  Z.lor (Z.lor (Z.lor l0 (Z.shiftl l1 8)) (Z.shiftl r0 16)) (Z.shiftl r1 24).

(* get_language_and_region() as a function of self.locale *)
Definition get_lr (locale : Z) : list Z :=
  if locale =? 0 then [0; 0]
  else
    let l := unpack (Z.land locale 255) (Z.shiftr (Z.land locale 65280) 8) 97 in
    let r := unpack (Z.shiftr (Z.land locale 16711680) 16) (Z.shiftr (Z.land locale 4278190080) 24) 48 in
    if nonempty r then l ++ [45; 114] ++ r else l.

(* ---- the domain of the property ---- *)
Definition in_rng (lo hi c : Z) : bool := (lo <=? c) && (c <=? hi).
(* two characters stored as two bytes: ASCII first byte, no '-' *)
Definition code2_ok (s : list Z) : bool :=
  match s with
  | [c0; c1] => in_rng 1 127 c0 && in_rng 1 255 c1 && negb (c0 =? 45) && negb (c1 =? 45)
  | _ => false
  end.
(* three characters packed into 15 bits: each within 32 of the base *)
Definition code3_ok (base : Z) (s : list Z) : bool :=
  match s with
  | [x; y; z] => in_rng base (base + 31) x && in_rng base (base + 31) y && in_rng base (base + 31) z
  | _ => false
  end.
Definition code_ok (base : Z) (s : list Z) : bool := code2_ok s || code3_ok base s.
Definition render (lang : list Z) (region : option (list Z)) : list Z :=
  match region with None => lang | Some r => lang ++ [45; 114] ++ r end.
Definition region_ok (region : option (list Z)) : bool :=
  match region with None => true | Some r => code_ok 48 r end.

(* a 16-bit field of the configuration that holds a code: packed, or two plain bytes *)
Definition field_ok (b0 b1 : Z) : bool :=
  in_rng 128 255 b0 && in_rng 0 255 b1 || code2_ok [b0; b1].
Definition locale_of (l0 l1 r0 r1 : Z) : Z := l0 + l1 * 256 + r0 * 65536 + r1 * 16777216.

(* ---- observations for the correspondence check ---- *)
Definition r256z : list Z := map Z.of_nat (seq 0 256).
Definition obs_unpack (c : Z * Z) : val :=
  let '(b0, base) := c in VList (map (fun b1 => VStr (unpack b0 b1 base)) r256z).
Definition obs_pack (c : list Z * Z) : val :=
  let '(s, base) := c in let '(a, b) := pack s base in VList [VZ a; VZ b].
Definition obs_locale (c : Z * Z * list Z) : val :=
  let '(kind, loc, s) := c in
  if kind =? 0 then VList [VZ (set_lr s); VStr (get_lr (set_lr s))]
  else VList [VStr (get_lr loc); VZ (set_lr (get_lr loc))].
