(* C27 - lemmas about the format_value model. *)
From Coq Require Import ZArith List Bool Lia.
Require Import V.Lib.Val V.Lib.Result V.Lib.Fmt V.Lib.Bits V.Axml.FormatValueModel.
Import ListNotations.
Open Scope Z_scope.
Ltac Zify.zify_post_hook ::= Z.to_euclidean_division_equations.

(* x & (m << k) = ((x >> k) & m) << k *)
Lemma land_shl_mask : forall x m k, 0 <= k -> Z.land x (Z.shiftl m k) = Z.shiftl (Z.land (Z.shiftr x k) m) k.
Proof.
  intros x m k Hk. apply Z.bits_inj'. intros i Hi. rewrite Z.land_spec. destruct (Z.ltb_spec i k).
  - rewrite !Z.shiftl_spec_low by lia. apply andb_false_r.
  - rewrite !Z.shiftl_spec by lia. rewrite Z.land_spec, Z.shiftr_spec by lia. replace (i - k + k) with i by lia. reflexivity.
Qed.

Lemma land_mantissa : forall x, 0 <= x -> Z.land x 4294967040 = ((x / 256) mod 16777216) * 256.
Proof.
  intros x Hx. change 4294967040 with (Z.shiftl (Z.ones 24) 8). rewrite land_shl_mask by lia.
  rewrite Z.land_ones by lia. rewrite Z.shiftl_mul_pow2, Z.shiftr_div_pow2 by lia. reflexivity.
Qed.
Lemma land_signbit : forall m, 0 <= m < 4294967296 -> (Z.land m 2147483648 =? 0) = (m <? 2147483648).
Proof.
  intros m Hm. change 2147483648 with (Z.shiftl (Z.ones 1) 31) at 1. rewrite land_shl_mask by lia.
  rewrite Z.land_ones by lia. rewrite Z.shiftl_mul_pow2, Z.shiftr_div_pow2 by lia.
  change (2 ^ 31) with 2147483648. change (2 ^ 1) with 2.
  destruct (m <? 2147483648) eqn:E; [apply Z.eqb_eq|apply Z.eqb_neq]; lia.
Qed.

(* ---- AOSP complex_to_float: signed 24-bit mantissa, radix 23p0 / 16p7 / 8p15 / 0p23 ---- *)
Definition aosp_mantissa (x : Z) : Z :=
  let m := (x / 256) mod 16777216 in if m <? 8388608 then m else m - 16777216.
Definition aosp_den (r : Z) : Z := if r =? 0 then 1 else if r =? 1 then 2 ^ 7 else if r =? 2 then 2 ^ 15 else 2 ^ 23.
Definition radix_of (x : Z) : Z := (x / 16) mod 4.

Lemma radix_land : forall x, Z.land (Z.shiftr x 4) 3 = radix_of x.
Proof. intros x. change 3 with (Z.ones 2). rewrite Z.land_ones by lia. rewrite Z.shiftr_div_pow2 by lia. reflexivity. Qed.

Theorem complex_is_aosp : forall x, 0 <= x < 4294967296 ->
  let c := complex_to_float x in
  neg c = (aosp_mantissa x <? 0) /\ num c = Z.abs (aosp_mantissa x) * 256 /\ den c = 256 * aosp_den (radix_of x) /\
  0 < den c.
Proof.
  intros x Hx. unfold complex_to_float. cbn [neg num den]. rewrite radix_land, land_mantissa by lia.
  set (m := (x / 256) mod 16777216). assert (Hm : 0 <= m < 16777216) by (unfold m; lia).
  rewrite land_signbit by lia. unfold aosp_mantissa. fold m.
  assert (Hd : radix_den (radix_of x) = 256 * aosp_den (radix_of x) /\ 0 < radix_den (radix_of x)).
  { unfold radix_den, aosp_den. destruct (radix_of x =? 0); [split; reflexivity|].
    destruct (radix_of x =? 1); [split; reflexivity|]. destruct (radix_of x =? 2); split; reflexivity. }
  destruct Hd as [Hd1 Hd2].
  destruct (m * 256 <? 2147483648) eqn:E1; destruct (m <? 8388608) eqn:E2; lia.
Qed.

(* ---- '%f': correct rounding to six decimals ---- *)
Lemma round_half_even_nearest : forall n d, 0 <= n -> 0 < d ->
  let m := round_half_even n d in 0 <= m /\ 2 * Z.abs (m * d - n) <= d.
Proof.
  intros n d Hn Hd. unfold round_half_even.
  pose proof (Z.div_mod n d ltac:(lia)) as E. pose proof (Z.mod_pos_bound n d Hd) as Hr.
  assert (Hq : 0 <= n / d) by (apply Z.div_pos; lia).
  set (q := n / d) in *. set (r := n mod d) in *.
  destruct (d <? 2 * r) eqn:E1; [|destruct (2 * r =? d) eqn:E2; [destruct (Z.even q)|]]; cbn zeta; split; nia.
Qed.

Theorem fmt_f_rounds : forall x, 0 <= num x -> 0 < den x ->
  exists m, 0 <= m /\ 2 * Z.abs (m * den x - num x * 1000000) <= den x /\
    fmt_f x = (if neg x then [45] else []) ++ dec (m / 1000000) ++ [46] ++ pad0 6 (dec (m mod 1000000)).
Proof.
  intros x Hn Hd. exists (round_half_even (num x * 1000000) (den x)).
  destruct (round_half_even_nearest (num x * 1000000) (den x) ltac:(lia) Hd) as [H1 H2].
  split; [exact H1|]. split; [exact H2|]. reflexivity.
Qed.

(* the six digits after the point denote m mod 10^6 *)
Lemma dec_length6 : forall k, 0 <= k < 1000000 -> (length (dec k) <= 6)%nat.
Proof.
  intros k Hk. unfold dec, digits. rewrite map_length. apply digits_aux_len_bound; [lia| |lia].
  change (10 ^ Z.of_nat 6) with 1000000. exact Hk.
Qed.
Theorem six_digits : forall k, 0 <= k < 1000000 ->
  length (pad0 6 (dec k)) = 6%nat /\ text_value 10 (pad0 6 (dec k)) = k.
Proof.
  intros k Hk. pose proof (dec_length6 k Hk). split.
  - unfold pad0. rewrite app_length, repeat_length. lia.
  - unfold text_value, pad0. rewrite map_app, map_repeat_. change (char_digit 48) with 0. rewrite dvalue_zeros.
    apply (dec_value k). lia.
Qed.

(* ---- integers, references ---- *)
Theorem fmt_int_signed : forall x, 0 <= x < 4294967296 ->
  fmt_int x = if x <? 2147483648 then x else x - 4294967296.
Proof.
  intros x Hx. unfold fmt_int. rewrite land_u31. destruct (2147483647 <? x) eqn:E1; destruct (x <? 2147483648) eqn:E2; lia.
Qed.
Theorem fmt_package_android : forall x, 0 <= x ->
  fmt_package x = if (16777216 <=? x) && (x <? 33554432) then S_android else [].
Proof.
  intros x Hx. unfold fmt_package. rewrite Z.shiftr_div_pow2 by lia. change (2 ^ 24) with 16777216.
  destruct (x / 16777216 =? 1) eqn:E; destruct (16777216 <=? x) eqn:E1; destruct (x <? 33554432) eqn:E2; cbn [andb]; try reflexivity; lia.
Qed.

(* ---- format_value, branch by branch ---- *)
Lemma fv_dimension : forall lk data u, nth_error DIMENSION_UNITS (Z.to_nat (Z.land data 15)) = Some u ->
  format_value lk TYPE_DIMENSION data = Ok (fmt_f (complex_to_float data) ++ u).
Proof. intros lk data u H. unfold format_value, unit_of. cbn. rewrite H. reflexivity. Qed.

Lemma fv_fraction : forall lk data u, nth_error FRACTION_UNITS (Z.to_nat (Z.land data 15)) = Some u ->
  format_value lk TYPE_FRACTION data =
  Ok (fmt_f {| neg := neg (complex_to_float data); num := num (complex_to_float data) * 100;
               den := den (complex_to_float data) |} ++ u).
Proof. intros lk data u H. unfold format_value, unit_of. cbn. rewrite H. reflexivity. Qed.

Lemma fv_int_dec : forall lk ty data, 0 <= data < 4294967296 ->
  16 <= ty <= 27 -> ty <> 17 -> ty <> 18 ->
  format_value lk ty data = Ok (sdec (if data <? 2147483648 then data else data - 4294967296)).
Proof.
  intros lk ty data Hd Ht H17 H18. unfold format_value.
  repeat match goal with |- context [?a =? ?b] => let E := fresh in destruct (a =? b) eqn:E; [apply Z.eqb_eq in E; unfold TYPE_STRING, TYPE_ATTRIBUTE, TYPE_REFERENCE, TYPE_FLOAT, TYPE_INT_HEX, TYPE_INT_BOOLEAN, TYPE_DIMENSION, TYPE_FRACTION in E; lia|clear E] end.
  unfold TYPE_FIRST_COLOR_INT, TYPE_LAST_COLOR_INT, TYPE_FIRST_INT, TYPE_LAST_INT.
  destruct ((28 <=? ty) && (ty <=? 31)) eqn:E1; [apply andb_prop in E1; destruct E1 as [E1 _]; apply Z.leb_le in E1; lia|].
  replace ((16 <=? ty) && (ty <=? 31)) with true by (symmetry; apply andb_true_intro; split; apply Z.leb_le; lia).
  rewrite fmt_int_signed by exact Hd. reflexivity.
Qed.

Lemma fv_hex_and_colour : forall lk ty data, (ty = 17 \/ 28 <= ty <= 31) ->
  format_value lk ty data = Ok ((if ty =? 17 then [48; 120] else [35]) ++ hex8 data).
Proof.
  intros lk ty data [->|Ht]; [reflexivity|]. unfold format_value.
  repeat match goal with |- context [?a =? ?b] => let E := fresh in destruct (a =? b) eqn:E; [apply Z.eqb_eq in E; unfold TYPE_STRING, TYPE_ATTRIBUTE, TYPE_REFERENCE, TYPE_FLOAT, TYPE_INT_HEX, TYPE_INT_BOOLEAN, TYPE_DIMENSION, TYPE_FRACTION in E; lia|clear E] end.
  unfold TYPE_FIRST_COLOR_INT, TYPE_LAST_COLOR_INT.
  replace ((28 <=? ty) && (ty <=? 31)) with true by (symmetry; apply andb_true_intro; split; apply Z.leb_le; lia).
  reflexivity.
Qed.

Lemma fv_hex_digits_denote : forall k, 0 <= k < 2 ^ 32 -> length (hex8 k) = 8%nat /\ text_value 16 (hex8 k) = k.
Proof. intros k Hk. split; [apply hex8_length, Hk|apply hex8_value; lia]. Qed.

Lemma fv_reference_and_attribute : forall lk data, 0 <= data ->
  format_value lk TYPE_REFERENCE data =
    Ok ([64] ++ (if (16777216 <=? data) && (data <? 33554432) then S_android else []) ++ hex8 data) /\
  format_value lk TYPE_ATTRIBUTE data =
    Ok ([63] ++ (if (16777216 <=? data) && (data <? 33554432) then S_android else []) ++ hex8 data).
Proof. intros lk data Hd. unfold format_value. cbn. rewrite fmt_package_android by exact Hd. split; reflexivity. Qed.
