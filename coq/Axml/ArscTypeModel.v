(* C28 - hand-written model of the parsing of one RES_TABLE_TYPE chunk in ARSCParser.__init__ (the entry-offset array in
   its three encodings: 32-bit offsets, 16-bit offsets (FLAG_OFFSET16), sparse (FLAG_SPARSE)) and of ARSCResTableEntry /
   ARSCComplex / ARSCResStringPoolRef (plain, complex and compact entries), androguard/core/axml/__init__.py.
   The walk over the enclosing chunks (table header, string pools, package header, type specs) is not modelled here: the
   harness locates the type chunks in the file itself.  Tied to the source by tools/props/c28.py. *)
From Coq Require Import ZArith List Bool.
Require Import V.Lib.Val V.Lib.Result V.Axml.PoolModel.
Import ListNotations.
Open Scope Z_scope.

Definition u8 (l : list Z) : result (Z * list Z) := match l with a :: r => Ok (a, r) | [] => Err StructError end.
Definition at_ (buf : list Z) (pos : Z) : list Z := if pos <? 0 then [] else dropz pos buf.

(* the offset array: entryCount items; (offset, resource id) for the entries that exist *)
Fixpoint read_offsets (fuel : nat) (flags : Z) (i count : Z) (resbase : Z) (l : list Z) : result (list (Z * Z)) :=
  if count <=? i then Ok [] else
  match fuel with
  | O => Err StructError
  | S f =>
      if negb (Z.land flags 1 =? 0) then                        (* FLAG_SPARSE: (index, offset / 4) *)
        do ' (idx, r1) <- u16 l; do ' (off, r2) <- u16 r1;
        do rest <- read_offsets f flags (i + 1) count resbase r2;
        Ok ((off * 4, resbase + idx) :: rest)
      else if negb (Z.land flags 2 =? 0) then                   (* FLAG_OFFSET16: offset / 4, 0xffff = no entry *)
        do ' (o16, r1) <- u16 l;
        do rest <- read_offsets f flags (i + 1) count resbase r1;
        Ok (if o16 =? 65535 then rest else (o16 * 4, resbase + i) :: rest)
      else
        do ' (o32, r1) <- u32 l;
        do rest <- read_offsets f flags (i + 1) count resbase r1;
        Ok (if o32 =? 4294967295 then rest else (o32, resbase + i) :: rest)
  end.

(* Res_value: size u16, res0 u8, dataType u8, data u32 *)
Definition res_value (l : list Z) : result ((Z * Z) * list Z) :=
  do ' (_, r1) <- u16 l; do ' (_, r2) <- u8 r1; do ' (ty, r3) <- u8 r2; do ' (data, r4) <- u32 r3; Ok ((ty, data), r4).
Inductive payload := Plain (ty data : Z) | Compact (key data ty : Z) | Complex (parent count : Z) (items : list (Z * (Z * Z))).
Record entry := { e_id : Z; e_size : Z; e_flags : Z; e_index : Z; e_payload : payload }.
(* for i in range(count): if tell + 4 > expected_end: break; name u32, Res_value *)
Fixpoint read_items (fuel : nat) (n : Z) (pos endp : Z) (l : list Z) : result (list (Z * (Z * Z))) :=
  if n <=? 0 then Ok [] else
  match fuel with
  | O => Err StructError
  | S f => if endp <? pos + 4 then Ok [] else
           do ' (name, r1) <- u32 l; do ' (v, r2) <- res_value r1; do rest <- read_items f (n - 1) (pos + 12) endp r2; Ok ((name, v) :: rest)
  end.
Definition parse_entry (buf : list Z) (pos endp resid : Z) : result entry :=
  let l := at_ buf pos in
  do ' (size, r1) <- u16 l; do ' (flags, r2) <- u16 r1; do ' (index, r3) <- u32 r2;
  if negb (Z.land flags 1 =? 0) then
    do ' (parent, r4) <- u32 r3; do ' (count, r5) <- u32 r4;
    do items <- read_items (length r5) count (pos + 16) endp r5;
    Ok {| e_id := resid; e_size := size; e_flags := flags; e_index := index; e_payload := Complex parent count items |}
  else if negb (Z.land flags 8 =? 0) then
    Ok {| e_id := resid; e_size := size; e_flags := flags; e_index := index; e_payload := Compact size index (Z.land (Z.shiftr flags 8) 255) |}
  else
    do ' (v, _) <- res_value r3;
    Ok {| e_id := resid; e_size := size; e_flags := flags; e_index := index; e_payload := Plain (fst v) (snd v) |}.
Fixpoint map_res {A B} (f : A -> result B) (l : list A) : result (list B) :=
  match l with [] => Ok [] | x :: r => do y <- f x; do ys <- map_res f r; Ok (y :: ys) end.

(* the chunk at `start` of the file; pkg = the package id (high byte of the resource ids) *)
Record type_chunk := { t_id : Z; t_flags : Z; t_count : Z; t_entries : list entry }.
(* ARSCResTableConfig(buff): how many bytes the constructor consumes.  size, imsi, locale, screenType are always unpacked;
   the further 32-bit fields when size reaches them (unpack: struct.error on a short read); localeScript and localeVariant
   are plain read(4) / read(8) (a short read is accepted) - note that a size of 44..51 makes it read 8 bytes for the
   variant, beyond the declared size; what is left of the declared size is skipped *)
Definition strict_field (n : Z) (st : result (Z * Z)) : result (Z * Z) :=          (* (consumed, remaining) *)
  do ' (c, r) <- st; if r <? n then Err StructError else Ok (c + n, r - n).
Definition lenient_field (n : Z) (st : result (Z * Z)) : result (Z * Z) :=
  do ' (c, r) <- st; let k := Z.min n r in Ok (c + k, r - k).
Definition config_len (l : list Z) : result Z :=
  do ' (size, _) <- u32 l;
  let when (b : bool) (f : result (Z * Z) -> result (Z * Z)) (st : result (Z * Z)) := if b then f st else st in
  let st0 : result (Z * Z) := Ok (0, len l) in
  let st := strict_field 4 (strict_field 4 (strict_field 4 (strict_field 4 st0))) in
  let st := when (20 <=? size) (strict_field 4) st in let st := when (24 <=? size) (strict_field 4) st in
  let st := when (28 <=? size) (strict_field 4) st in let st := when (32 <=? size) (strict_field 4) st in
  let st := when (36 <=? size) (strict_field 4) st in let st := when (40 <=? size) (lenient_field 4) st in
  let st := when (44 <=? size) (lenient_field 8) st in let st := when (52 <=? size) (strict_field 4) st in
  do ' (c, r) <- st;
  Ok (if 0 <? size - c then c + Z.min (size - c) r else c).
Definition parse_type_chunk (buf : list Z) (start pkg : Z) : result type_chunk :=
  let h := at_ buf start in
  do ' (_, h1) <- u16 h; do ' (hs, h2) <- u16 h1; do ' (size, h3) <- u32 h2;
  do ' (tid, h4) <- u8 h3; do ' (flags, h5) <- u8 h4; do ' (_, h6) <- u16 h5; do ' (count, h7) <- u32 h6; do ' (estart, h8) <- u32 h7;
  let resbase := pkg * 16777216 + tid * 65536 in
  do clen <- config_len h8;
  (* the offset array is read where the configuration ended - for a well-formed chunk that is start + header size *)
  do offs <- read_offsets (length buf) flags 0 count resbase (at_ buf (start + 20 + clen));
  do es <- map_res (fun p => parse_entry buf (start + estart + fst p) (start + size) (snd p)) offs;
  Ok {| t_id := tid; t_flags := flags; t_count := count; t_entries := es |}.

Definition vpayload (p : payload) : val :=
  match p with
  | Plain ty data => VList [VZ 0; VZ ty; VZ data]
  | Compact k d ty => VList [VZ 1; VZ k; VZ d; VZ ty]
  | Complex par cnt items => VList [VZ 2; VZ par; VZ cnt; VList (map (fun i => VList [VZ (fst i); VZ (fst (snd i)); VZ (snd (snd i))]) items)]
  end.
Definition ventry (e : entry) : val := VList [VZ (e_id e); VZ (e_size e); VZ (e_flags e); VZ (e_index e); vpayload (e_payload e)].
Definition obs_types (x : list Z * (Z * list Z)) : val :=
  let '(buf, (pkg, starts)) := x in
  VList (map (fun st => vres (fun t => VList [VZ (t_id t); VZ (t_flags t); VZ (t_count t); VList (map ventry (t_entries t))]) (parse_type_chunk buf st pkg)) starts).
