(* C26 - documents with attributes and namespaces, end to end: every element tree whose names are XML names as they stand,
   with any attributes (any namespace, any typed value) and any namespace declarations around the root, written as header,
   string pool and chunks, is parsed to exactly that tree *)
From Coq Require Import ZArith List Bool Lia ZifyBool.
Require Import V.Lib.Val V.Lib.Result V.Axml.PoolModel V.Axml.PoolProofs V.Axml.FormatValueModel V.Axml.AxmlModel V.Axml.AxmlProofs V.Axml.AxmlChunks
               V.Axml.AxmlDocument V.Misc.TermModel.
Import ListNotations.
Open Scope Z_scope.
Ltac Zify.zify_post_hook ::= Z.to_euclidean_division_equations.

(* an element: namespace (string index or NONE), name, attribute records, text, tail, children *)
Inductive atree := ANode (ns name : Z) (attrs : list attr) (text tail : Z) (kids : list atree).
Definition atail (t : atree) : Z := match t with ANode _ _ _ _ tl _ => tl end.
Fixpoint aitems (t : atree) : list item :=
  match t with
  | ANode ns n ats tx _ kids =>
      IStart 0 NONE ns n ats :: IText 0 NONE tx 0 0 :: flat_map (fun k => aitems k ++ [IText 0 NONE (atail k) 0 0]) kids ++ [IEnd 0 NONE ns n]
  end.
Fixpoint atree_ind' (P : atree -> Prop) (H : forall ns n ats tx tl kids, Forall P kids -> P (ANode ns n ats tx tl kids)) (t : atree) : P t :=
  match t with
  | ANode ns n ats tx tl kids =>
      H ns n ats tx tl kids ((fix go (l : list atree) : Forall P l := match l with [] => Forall_nil P | k :: r => Forall_cons k (atree_ind' P H k) (go r) end) kids)
  end.

Section Attrs.
Variables (utf8_flag : bool) (ss : list str) (padding : list Z) (sysattr : list (Z * str)).
Hypothesis Hfits : Forall (fits utf8_flag) ss.
Hypothesis Hcount : Z.of_nat (length ss) < NONE.
Variable res : list Z.                        (* the resource map: resource ids of the first strings of the pool *)
Let p := pool_of utf8_flag ss padding.
Notation sat := (str_at ss).

(* with every string of the pool decodable, getString is total: the string of the index, or nothing *)
Lemma gs_total i : gs p i = Ok (sat i).
Proof.
  destruct (Z_lt_dec i 0) as [Hn|Hn]; [|destruct (Z_lt_dec i (Z.of_nat (length ss))) as [Hi|Hi]].
  - unfold gs. rewrite pool_index_outside by (left; exact Hn). unfold str_at, PoolModel.nthz. now replace ((i <? 0) || (Z.of_nat (length ss) <=? i)) with true by lia.
  - apply (gs_at utf8_flag ss padding Hfits). lia.
  - unfold gs. rewrite pool_index_outside by (right; unfold p, pool_of; cbn [p_count]; lia).
    unfold str_at, PoolModel.nthz. now replace ((i <? 0) || (Z.of_nat (length ss) <=? i)) with true by lia.
Qed.
Lemma sat_none : sat NONE = [].
Proof. exact (str_at_none ss Hcount). Qed.
Lemma gs_opt i : (if i =? NONE then Ok [] else gs p i) = Ok (sat i).
Proof. destruct (i =? NONE) eqn:E; [apply Z.eqb_eq in E; subst; now rewrite sat_none | apply gs_total]. Qed.

(* the namespace map of a list of declarations *)
Fixpoint nsmap_of (l : list (Z * Z)) (m : list (str * str)) : list (str * str) :=
  match l with
  | [] => m
  | (a, b) :: r => nsmap_of r (match sat a, sat b with [], _ | _, [] => m | _, _ => put (sat a) (strip (sat b)) m end)
  end.
Lemma build_nsmap_total : forall l m, build_nsmap p l m = Ok (nsmap_of l m).
Proof. induction l as [|[a b] r IH]; intros m; cbn [build_nsmap nsmap_of]; [reflexivity|]. rewrite !gs_total. cbn [bind]. apply IH. Qed.

(* names *)
Lemma starts_with_android_colon s : forallb name_char s = true -> starts_with S_android_colon s = false.
Proof.
  intros H. unfold S_android_colon.
  repeat (destruct s as [|? s]; [reflexivity|]; cbn [starts_with forallb] in *; apply andb_true_iff in H as [? H];
          match goal with |- (?a =? ?b) && _ = false => destruct (a =? b) eqn:?; [cbn [andb] | reflexivity] end).
  match goal with E : (58 =? ?c) = true |- _ => apply Z.eqb_eq in E; subst c end. discriminate.
Qed.
Lemma fix_name_plain_any nsmap pre s : plain_name s -> fix_name nsmap pre s = Ok (pre, s).
Proof.
  destruct s as [|c r]; [contradiction|]. intros (H1 & H2 & H3). unfold fix_name. rewrite H3. cbn [negb].
  replace (negb (is_alpha c) && negb (c =? 95)) with false by (destruct (is_alpha c), (c =? 95); cbn in *; congruence).
  rewrite (split_colon_none _ H2), (starts_with_android_colon _ H2).
  destruct pre as [|p0 pr]; [destruct (assoc_str S_android nsmap)|]; cbv iota beta; rewrite (map_name_char_id _ H2); reflexivity.
Qed.

(* attributes: the key is {namespace}name, the value the formatted value of its type and data (C27; strings through the
   pool) with characters XML cannot hold replaced *)
Definition attr_text (a : attr) : result str :=
  do v <- format_value (fun _ => if a_type a =? 3 then sat (a_raw a) else []) (a_type a) (a_data a); Ok (fix_value v).
Definition attr_text_or (a : attr) : str := match attr_text a with Ok v => v | Err _ => [] end.
(* the name: the system attribute name of the resource id when the resource map covers the name and the table knows the id
   (its underscores as colons), else the string of the pool *)
Definition name_of (a : attr) : str :=
  match PoolModel.nthz res (a_name a) with
  | Some id => match assoc_z id sysattr with Some nm => map (fun c => if c =? 95 then 58 else c) nm | None => sat (a_name a) end
  | None => sat (a_name a)
  end.
Definition attr_key (a : attr) : str := print_ns (sat (a_ns a)) ++ name_of a.
Definition wf_pattr (a : attr) : Prop := wf_attr a /\ plain_name (name_of a) /\ exists v, attr_text a = Ok v.
Definition attrs_of (l : list attr) (acc : list (str * str)) : list (str * str) :=
  fold_left (fun m a => put (attr_key a) (attr_text_or a) m) l acc.

Lemma attr_value_total a : attr_value p a = attr_text a.
Proof. unfold attr_value, attr_text. destruct (a_type a =? 3); [rewrite gs_total|]; reflexivity. Qed.
Lemma set_attr_put k v m : set_attr k v m = put k v m.
Proof. destruct k; reflexivity. Qed.
Lemma nthz_nil {A} i : @PoolModel.nthz A [] i = None.
Proof. unfold PoolModel.nthz. cbn [length]. now replace ((i <? 0) || (Z.of_nat 0 <=? i)) with true by lia. Qed.
Lemma name_match (r : str) (X : result str) : plain_name r -> match r with [] | [58] => X | _ => Ok r end = Ok r.
Proof.
  destruct r as [|c r]; [contradiction|]. intros (H1 & _ & _).
  destruct c as [|q|q]; try reflexivity. do 6 (destruct q as [q|q|]; try reflexivity). discriminate H1.
Qed.
Lemma attr_name_res a : plain_name (name_of a) -> attr_name p sysattr res a = Ok (name_of a).
Proof.
  intros Hp. unfold attr_name. rewrite gs_total. cbn [bind]. unfold name_of in *.
  destruct (PoolModel.nthz res (a_name a)) as [id|]; [destruct (assoc_z id sysattr) as [nm|]|]; apply name_match; exact Hp.
Qed.

Lemma build_attrs_total nsmap : forall l acc, Forall wf_pattr l -> build_attrs p sysattr res nsmap l acc = Ok (attrs_of l acc).
Proof.
  induction l as [|a l IH]; intros acc Hw; [reflexivity|]. apply Forall_cons_iff in Hw as [(Wa & Hp & v & Hv) Wl].
  cbn [build_attrs]. unfold attr_ns. rewrite gs_opt. cbn [bind]. rewrite (attr_name_res a Hp). cbn [bind].
  rewrite (fix_name_plain_any nsmap (print_ns (sat (a_ns a))) _ Hp). cbn [bind]. rewrite attr_value_total, Hv. cbn [bind].
  rewrite set_attr_put, (IH _ Wl). unfold attrs_of. cbn [fold_left]. unfold attr_key, attr_text_or. now rewrite Hv.
Qed.

Variable nss : list (Z * Z).                  (* the namespaces declared around the root element *)
Fixpoint atree_of (t : atree) : xml :=
  match t with
  | ANode ns n ats tx tl kids => El (print_ns (sat ns) ++ sat n) (nsmap_of nss []) (attrs_of ats []) (sat tx) (map atree_of kids) (sat tl)
  end.
Fixpoint wf_atree (t : atree) : Prop :=
  match t with
  | ANode ns n ats tx tl kids =>
      fits32 ns /\ 0 <= n < Z.of_nat (length ss) /\ plain_name (sat n) /\ Forall wf_pattr ats /\ Z.of_nat (length ats) < 65536 /\
      16 + PoolModel.len (start_body ns n ats) < 4294967296 /\ text_index ss tx /\ text_index ss tl /\
      (fix all (l : list atree) : Prop := match l with [] => True | k :: r => wf_atree k /\ all r end) kids
  end.

Lemma resolve_start_attrs ns n ats : 0 <= n < Z.of_nat (length ss) -> plain_name (sat n) -> Forall wf_pattr ats ->
  resolve p sysattr res (EStart ns n ats NONE nss) false = Ok (TStart (print_ns (sat ns) ++ sat n) (nsmap_of nss []) (attrs_of ats [])).
Proof.
  intros Hn Hp Ha. cbn [resolve]. rewrite gs_opt. cbn [bind]. destruct (sat n) as [|c r] eqn:E; [contradiction|].
  rewrite Z.eqb_refl. cbn [negb]. rewrite gs_opt. cbn [bind]. rewrite build_nsmap_total. cbn [bind].
  rewrite (fix_name_plain_any _ _ (c :: r) Hp). cbn [bind]. rewrite (build_attrs_total _ ats [] Ha). reflexivity.
Qed.
Lemma atail_of t : tail_of (atree_of t) = sat (atail t).  Proof. destruct t. reflexivity. Qed.
Lemma ev_only_aitems t : ev_only (aitems t).
Proof.
  pattern t. apply atree_ind'. clear t. intros ns n ats tx tl kids IH. cbn [aitems]. constructor; [exact I|]. constructor; [exact I|].
  apply Forall_app. split; [|repeat constructor]. induction kids as [|k kids IHk]; [constructor|]. apply Forall_cons_iff in IH as [Hk Hr].
  cbn [flat_map]. apply Forall_app. split; [|exact (IHk Hr)]. apply Forall_app. split; [exact Hk | repeat constructor].
Qed.

Lemma attrs_resolved : forall t, wf_atree t ->
  Forall2 (fun er te => resolve p sysattr (snd er) (fst er) false = Ok te) (events (aitems t) nss res) (flatten (atree_of t)).
Proof.
  intros t. pattern t. apply atree_ind'. clear t. intros ns n ats tx tl kids IH Hw. cbn [wf_atree] in Hw.
  destruct Hw as (Hns & Hn & Hp & Ha & _ & _ & Htx & Htl & Hk). cbn [aitems events atree_of flatten].
  constructor; [exact (resolve_start_attrs ns n ats Hn Hp Ha)|].
  constructor; [exact (resolve_text_index utf8_flag ss padding sysattr Hfits Hcount res tx Htx)|].
  induction kids as [|k kids IHk].
  - cbn [flat_map map app events]. constructor; [|constructor]. cbn [fst snd]. apply (resolve_end_plain utf8_flag ss padding sysattr Hfits Hcount); assumption.
  - apply Forall_cons_iff in IH as [Pk Pr]. destruct Hk as [Wk Wr]. cbn [flat_map map]. rewrite <- !app_assoc.
    rewrite (events_app_ev _ _ _ _ (ev_only_aitems k)). apply Forall2_app; [exact (Pk Wk)|].
    cbn [app events]. constructor; [|exact (IHk Pr Wr)].
    cbn [fst snd]. rewrite atail_of. destruct k as [kns kn kats ktx ktl kk]. cbn [wf_atree atail] in *.
    apply (resolve_text_index utf8_flag ss padding sysattr Hfits Hcount). tauto.
Qed.
Lemma wf_aitems : forall t, wf_atree t -> Forall wf_item (aitems t).
Proof.
  intros t. pattern t. apply atree_ind'. clear t. intros ns n ats tx tl kids IH Hw. cbn [wf_atree] in Hw.
  destruct Hw as (Hns & Hn & Hp & Ha & Hc & Hb & Htx & Htl & Hk).
  assert (F0 : fits32 0) by (unfold fits32; lia). assert (FN : fits32 NONE) by (unfold fits32, NONE; lia).
  assert (Fn : fits32 n) by (unfold fits32, NONE in *; lia).
  assert (Wats : Forall wf_attr ats). { eapply Forall_impl; [|exact Ha]. intros a (W & _). exact W. }
  cbn [aitems]. constructor. { cbn [wf_item]. tauto. }
  constructor. { cbn [wf_item]. pose proof (fits32_index ss Hcount tx Htx). tauto. }
  apply Forall_app. split; [|constructor; [cbn [wf_item]; tauto | constructor]].
  induction kids as [|k kids IHk]; [constructor|]. apply Forall_cons_iff in IH as [Pk Pr]. destruct Hk as [Wk Wr]. cbn [flat_map].
  apply Forall_app. split; [|exact (IHk Pr Wr)]. apply Forall_app. split; [exact (Pk Wk)|]. constructor; [|constructor].
  cbn [wf_item]. destruct k as [kns kn kats ktx ktl kk]. cbn [wf_atree atail] in *. assert (fits32 ktl) by (apply (fits32_index ss Hcount); tauto). tauto.
Qed.
End Attrs.

(* ---------------------------------------------------------------- the document *)
Definition ns_starts (decls : list (Z * Z)) : list item := map (fun d => INsStart 0 NONE (fst d) (snd d)) decls.
Definition ns_ends (decls : list (Z * Z)) : list item := map (fun d => INsEnd 0 NONE (fst d) (snd d)) (rev decls).
Definition adoc_items (decls : list (Z * Z)) (t : atree) : list item := ns_starts decls ++ aitems t ++ ns_ends decls.
Lemma events_ns_starts : forall decls X ns res, events (ns_starts decls ++ X) ns res = events X (ns ++ decls) res.
Proof.
  induction decls as [|[a b] r IH]; intros X ns res; cbn [ns_starts map app events fst snd]; [now rewrite app_nil_r|].
  fold (ns_starts r). rewrite IH. now rewrite <- app_assoc.
Qed.
Lemma events_ns_ends_nil : forall l ns res, events (map (fun d => INsEnd 0 NONE (fst d) (snd d)) l) ns res = [].
Proof. induction l as [|[a b] r IH]; intros ns res; cbn [map events fst snd]; [reflexivity | apply IH]. Qed.
Definition wf_decl (d : Z * Z) : Prop := fits32 (fst d) /\ fits32 (snd d).

Definition wf_res (ids : list Z) : Prop := Forall (fun x => 0 <= x < 4294967296) ids /\ 8 + 4 * Z.of_nat (length ids) < 4294967296.

(* with a resource map in front (as aapt writes manifests): the names of the attributes it covers come from the system
   attribute table *)
Theorem manifest_document_round_trip (utf8_flag : bool) ss padding sysattr ids decls t :
  Forall (fits utf8_flag) ss -> Z.of_nat (length ss) < NONE -> wf_res ids -> Forall wf_decl decls ->
  wf_atree ss sysattr ids t -> atail t = NONE ->
  28 + 4 * Z.of_nat (length ss) + PoolModel.len (concat (map (if utf8_flag then entry8 else entry16) ss)) < 4294967296 ->
  PoolModel.len (doc_bytes utf8_flag ss padding (IResMap ids :: adoc_items decls t)) < 4294967296 ->
  parse_axml sysattr (doc_bytes utf8_flag ss padding (IResMap ids :: adoc_items decls t)) = Ok (Some (atree_of ss sysattr ids decls t)).
Proof.
  intros Hf Hc Hr Hd Hw Ht Hp Hl.
  assert (F0 : fits32 0) by (unfold fits32; lia). assert (FN : fits32 NONE) by (unfold fits32, NONE; lia).
  apply (document_is_parsed utf8_flag ss padding (IResMap ids :: adoc_items decls t) sysattr (atree_of ss sysattr ids decls t)).
  - constructor; [exact Hr|]. unfold adoc_items. apply Forall_app. split; [|apply Forall_app; split].
    + unfold ns_starts. apply Forall_map. eapply Forall_impl; [|exact Hd]. intros d [H1 H2]. cbn [wf_item]. tauto.
    + eapply wf_aitems; eassumption.
    + unfold ns_ends. apply Forall_map. apply Forall_rev. eapply Forall_impl; [|exact Hd]. intros d [H1 H2]. cbn [wf_item]. tauto.
  - exact Hp.
  - exact Hl.
  - rewrite atail_of, Ht. exact (str_at_none ss Hc).
  - cbn [events app]. unfold adoc_items. rewrite events_ns_starts. cbn [app]. rewrite (events_app_ev _ _ _ _ (ev_only_aitems t)).
    unfold ns_ends. rewrite events_ns_ends_nil, app_nil_r. eapply attrs_resolved; eassumption.
Qed.
Print Assumptions manifest_document_round_trip.

(* without a resource map *)
Theorem attribute_document_round_trip (utf8_flag : bool) ss padding sysattr decls t :
  Forall (fits utf8_flag) ss -> Z.of_nat (length ss) < NONE -> Forall wf_decl decls ->
  wf_atree ss sysattr [] t -> atail t = NONE ->
  28 + 4 * Z.of_nat (length ss) + PoolModel.len (concat (map (if utf8_flag then entry8 else entry16) ss)) < 4294967296 ->
  PoolModel.len (doc_bytes utf8_flag ss padding (adoc_items decls t)) < 4294967296 ->
  parse_axml sysattr (doc_bytes utf8_flag ss padding (adoc_items decls t)) = Ok (Some (atree_of ss sysattr [] decls t)).
Proof.
  intros Hf Hc Hd Hw Ht Hp Hl.
  assert (F0 : fits32 0) by (unfold fits32; lia). assert (FN : fits32 NONE) by (unfold fits32, NONE; lia).
  apply (document_is_parsed utf8_flag ss padding (adoc_items decls t) sysattr (atree_of ss sysattr [] decls t)).
  - unfold adoc_items. apply Forall_app. split; [|apply Forall_app; split].
    + unfold ns_starts. apply Forall_map. eapply Forall_impl; [|exact Hd]. intros d [H1 H2]. cbn [wf_item]. tauto.
    + eapply wf_aitems; eassumption.
    + unfold ns_ends. apply Forall_map. apply Forall_rev. eapply Forall_impl; [|exact Hd]. intros d [H1 H2]. cbn [wf_item]. tauto.
  - exact Hp.
  - exact Hl.
  - rewrite atail_of, Ht. exact (str_at_none ss Hc).
  - unfold adoc_items. rewrite events_ns_starts. cbn [app]. rewrite (events_app_ev _ _ _ _ (ev_only_aitems t)).
    unfold ns_ends. rewrite events_ns_ends_nil, app_nil_r. eapply attrs_resolved; eassumption.
Qed.
Print Assumptions attribute_document_round_trip.

(* <manifest xmlns:android="http://a/res" package="com.x" android:versionCode="7"><application android:name="com.x"/></manifest>
   with a resource map for the first two strings; the name string of versionCode is empty in the pool (stripped), the
   name comes from the system attribute table *)
Definition ax_ss : list str := [[]; [110; 97; 109; 101]; [97; 110; 100; 114; 111; 105; 100]; [104; 116; 116; 112; 58; 47; 47; 97; 47; 114; 101; 115]; [109; 97; 110; 105; 102; 101; 115; 116]; [112; 97; 99; 107; 97; 103; 101]; [99; 111; 109; 46; 120]; [97; 112; 112; 108; 105; 99; 97; 116; 105; 111; 110]].
Definition ax_ids : list Z := [16843291; 16842755].
Definition ax_sys : list (Z * str) := [(16843291, [118; 101; 114; 115; 105; 111; 110; 67; 111; 100; 101]); (16842755, [110; 97; 109; 101])].
Definition ax_tree : atree :=
  ANode NONE 4 [{| a_ns := NONE; a_name := 5; a_raw := 6; a_type := 3; a_data := 6 |};
                {| a_ns := 3; a_name := 0; a_raw := NONE; a_type := 16; a_data := 7 |}] NONE NONE
    [ANode NONE 7 [{| a_ns := 3; a_name := 1; a_raw := 6; a_type := 3; a_data := 6 |}] NONE NONE []].
Definition ax_xml : xml :=
  El [109; 97; 110; 105; 102; 101; 115; 116] [([97; 110; 100; 114; 111; 105; 100], [104; 116; 116; 112; 58; 47; 47; 97; 47; 114; 101; 115])] [([112; 97; 99; 107; 97; 103; 101], [99; 111; 109; 46; 120]); ([123; 104; 116; 116; 112; 58; 47; 47; 97; 47; 114; 101; 115; 125; 118; 101; 114; 115; 105; 111; 110; 67; 111; 100; 101], [55])] []
     [El [97; 112; 112; 108; 105; 99; 97; 116; 105; 111; 110] [([97; 110; 100; 114; 111; 105; 100], [104; 116; 116; 112; 58; 47; 47; 97; 47; 114; 101; 115])] [([123; 104; 116; 116; 112; 58; 47; 47; 97; 47; 114; 101; 115; 125; 110; 97; 109; 101], [99; 111; 109; 46; 120])] [] [] []] [].
Example manifest_example :
  wf_atree ax_ss ax_sys ax_ids ax_tree /\ atree_of ax_ss ax_sys ax_ids [(2, 3)] ax_tree = ax_xml /\
  parse_axml ax_sys (doc_bytes true ax_ss [] (IResMap ax_ids :: adoc_items [(2, 3)] ax_tree)) = Ok (Some ax_xml).
Proof.
  assert (F : Forall (fits true) ax_ss).
  { unfold ax_ss. repeat constructor; unfold valid_cp; try lia; vm_compute; reflexivity. }
  assert (W : wf_atree ax_ss ax_sys ax_ids ax_tree).
  { cbn [wf_atree ax_tree]. unfold wf_pattr, wf_attr, fits32, text_index, plain_name, NONE. cbn [a_ns a_name a_raw a_type a_data].
    repeat match goal with
           | |- _ /\ _ => split
           | |- Forall _ _ => constructor
           | |- exists v, _ = Ok v => eexists; vm_compute; reflexivity
           | |- True => exact I
           | |- _ \/ _ => left; reflexivity
           end; try lia; try (vm_compute; reflexivity); try (vm_compute; lia); try (vm_compute; intuition congruence). }
  assert (E : atree_of ax_ss ax_sys ax_ids [(2, 3)] ax_tree = ax_xml) by (vm_compute; reflexivity).
  split; [exact W|]. split; [exact E|]. rewrite <- E.
  apply manifest_document_round_trip; [exact F | vm_compute; reflexivity | split; [repeat constructor; lia | cbn; lia] | repeat constructor; unfold fits32; cbn; lia
                                     | exact W | reflexivity | vm_compute; reflexivity | vm_compute; reflexivity].
Qed.
