(* C28 - tables with any number of packages: one step of the walk consumes one package, wherever it stands *)
From Coq Require Import ZArith List Bool Lia ZifyBool.
Require Import V.Lib.Val V.Lib.Result V.Lib.Struct V.Axml.PoolModel V.Axml.PoolProofs V.Axml.ArscTypeModel V.Axml.ArscTypeProofs V.Axml.ArscComplex
               V.Axml.ArscTypeChunk V.Axml.ArscTypeChunkEnc V.Axml.ArscTableModel V.Axml.ArscTableProofs V.Misc.TermModel.
Import ListNotations.
Open Scope Z_scope.
Ltac Zify.zify_post_hook ::= Z.to_euclidean_division_equations.

Notation b16 := ArscTypeProofs.b16.
Notation b32 := ArscTypeProofs.b32.
Notation len := PoolModel.len.
Notation len_app := ArscTypeChunk.len_app.
Notation len_nonneg := ArscTypeChunk.len_nonneg.

Definition pkg_of (d : pkg_desc) : tpackage := {| pk_id := d_id d; pk_name := name_units (d_name d); pk_types := types_of (d_id d mod 256) (d_chunks d) |}.
Lemma len_pkg_bytes d : len (d_name d) = 256 -> len (pkg_bytes d) = pkg_size d.
Proof.
  intros Hn. unfold pkg_bytes, pkg_size. rewrite !len_app, !len_pool_chunk, len_hdr8, Hn.
  repeat match goal with |- context [len (b32 ?x)] => change (len (b32 x)) with 4 end. lia.
Qed.

Lemma package_step d pre rest fuel hend pkgcount seen acc :
  wf_pkg d -> len pre + pkg_size d <= hend -> hend < 4294967296 -> Z.of_nat (length acc) <= pkgcount ->
  table_chunks (S fuel) (pre ++ pkg_bytes d ++ rest) (len pre) hend pkgcount seen acc =
  table_chunks fuel (pre ++ pkg_bytes d ++ rest) (len pre + pkg_size d) hend pkgcount seen (add_package (pkg_of d) acc).
Proof.
  intros (Hid & Hname & Hlt & Hlk & Htb & Hkb & Hcs) Hend Hh Hacc.
  set (tsz := pool_size (d_tu d) (d_tss d) (d_tpad d)) in *. set (ksz := pool_size (d_ku d) (d_kss d) (d_kpad d)) in *.
  set (CS := chunks_bytes (d_chunks d)) in *. set (psz := pkg_size d) in *.
  assert (Epsz : psz = 288 + tsz + ksz + len CS) by reflexivity.
  pose proof (pool_size_ge (d_tu d) (d_tss d) (d_tpad d)) as T28. pose proof (pool_size_ge (d_ku d) (d_kss d) (d_kpad d)) as K28.
  fold tsz in T28. fold ksz in K28. pose proof (len_nonneg CS) as LCS. pose proof (len_nonneg pre) as Lpre.
  set (TPb := pool_bytes (d_tu d) (d_tss d) (d_tpad d)). set (KPb := pool_bytes (d_ku d) (d_kss d) (d_kpad d)).
  assert (LT : len TPb = tsz - 8) by apply len_pool_bytes'. assert (LK : len KPb = ksz - 8) by apply len_pool_bytes'.
  set (PKB := b32 (d_id d) ++ d_name d ++ b32 288 ++ b32 (d_last_type d) ++ b32 (288 + tsz) ++ b32 (d_last_key d) ++ b32 0).
  assert (LP : len PKB = 280). { unfold PKB. rewrite !len_app, Hname. reflexivity. }
  set (p1 := len pre) in *.
  set (buf := pre ++ pkg_bytes d ++ rest).
  assert (E2 : buf = pre ++ hdr8 512 288 psz ++ PKB ++ hdr8 1 28 tsz ++ TPb ++ hdr8 1 28 ksz ++ KPb ++ CS ++ rest).
  { unfold buf, pkg_bytes, pool_chunk, PKB. fold tsz ksz psz CS TPb KPb. rewrite <- !app_assoc. reflexivity. }
  assert (Lbuf : p1 + psz <= len buf).
  { rewrite E2, !len_app, !len_hdr8, LT, LK, LP. pose proof (len_nonneg rest). fold p1. lia. }
  cbn [table_chunks]. replace (hend - 8 <? p1) with false by lia.
  assert (H2 : arsc_header buf p1 0 = Ok [512; 288; psz; p1; p1 + 8]).
  { rewrite E2. exact (arsc_header_lb pre 512 288 psz _ 0 ltac:(lia) ltac:(lia) ltac:(lia) (or_introl eq_refl)). }
  rewrite H2. cbn [bind]. replace (hend <? p1 + psz) with false by lia.
  change (512 =? RES_STRING_POOL) with false. change (512 =? RES_TABLE_PACKAGE) with true. cbv iota.
  replace (pkgcount <? Z.of_nat (length acc)) with false by lia. cbv iota.
  assert (A2 : at_ buf (p1 + 8) = PKB ++ hdr8 1 28 tsz ++ TPb ++ hdr8 1 28 ksz ++ KPb ++ CS ++ rest).
  { rewrite E2. rewrite (app_assoc pre). replace (p1 + 8) with (len (pre ++ hdr8 512 288 psz)) by (rewrite len_app, len_hdr8; fold p1; lia). apply at_app'. }
  rewrite A2. unfold PKB at 1. rewrite <- !app_assoc. rewrite u32_b32 by lia. cbn [bind].
  assert (TK : forall l, PoolModel.takez 256 (d_name d ++ l) = d_name d) by (intros l; rewrite <- Hname; apply takez_app').
  assert (DK : forall l, PoolModel.dropz 256 (d_name d ++ l) = l) by (intros l; rewrite <- Hname; apply dropz_app').
  rewrite TK, DK.
  rewrite u32_b32 by lia. cbn [bind]. rewrite u32_b32 by lia. cbn [bind]. rewrite u32_b32 by lia. cbn [bind]. rewrite u32_b32 by lia. cbn [bind].
  set (pre3 := pre ++ hdr8 512 288 psz ++ PKB).
  assert (L3 : len pre3 = p1 + 288). { unfold pre3. rewrite !len_app, len_hdr8, LP. fold p1. lia. }
  assert (E3 : buf = pre3 ++ hdr8 1 28 tsz ++ TPb ++ hdr8 1 28 ksz ++ KPb ++ CS ++ rest). { rewrite E2. unfold pre3. now rewrite <- !app_assoc. }
  assert (H3 : arsc_header buf (p1 + 288) RES_STRING_POOL = Ok [1; 28; tsz; p1 + 288; p1 + 288 + 8]).
  { rewrite E3, <- L3. exact (arsc_header_lb pre3 1 28 tsz _ RES_STRING_POOL ltac:(lia) ltac:(lia) ltac:(lia) (or_intror eq_refl)). }
  rewrite H3. cbn [bind].
  assert (P3 : pool_at buf (p1 + 288 + 8) tsz = Ok (pool_of (d_tu d) (d_tss d) (d_tpad d))).
  { unfold pool_at. rewrite E3. rewrite (app_assoc pre3). replace (p1 + 288 + 8) with (len (pre3 ++ hdr8 1 28 tsz)) by (rewrite len_app, L3, len_hdr8; lia).
    rewrite at_app'. unfold TPb, tsz. now apply parse_pool_exact. }
  rewrite P3. cbn [bind].
  set (pre4 := pre3 ++ hdr8 1 28 tsz ++ TPb).
  assert (L4 : len pre4 = p1 + (288 + tsz)). { unfold pre4. rewrite !len_app, L3, len_hdr8, LT. lia. }
  assert (E4 : buf = pre4 ++ hdr8 1 28 ksz ++ KPb ++ CS ++ rest). { rewrite E3. unfold pre4. now rewrite <- !app_assoc. }
  assert (H4 : arsc_header buf (p1 + (288 + tsz)) RES_STRING_POOL = Ok [1; 28; ksz; p1 + (288 + tsz); p1 + (288 + tsz) + 8]).
  { rewrite E4, <- L4. exact (arsc_header_lb pre4 1 28 ksz _ RES_STRING_POOL ltac:(lia) ltac:(lia) ltac:(lia) (or_intror eq_refl)). }
  rewrite H4. cbn [bind].
  assert (P4 : pool_at buf (p1 + (288 + tsz) + 8) ksz = Ok (pool_of (d_ku d) (d_kss d) (d_kpad d))).
  { unfold pool_at. rewrite E4. rewrite (app_assoc pre4). replace (p1 + (288 + tsz) + 8) with (len (pre4 ++ hdr8 1 28 ksz)) by (rewrite len_app, L4, len_hdr8; lia).
    rewrite at_app'. unfold KPb, ksz. now apply parse_pool_exact. }
  rewrite P4. cbn [bind].
  set (pre5 := pre4 ++ hdr8 1 28 ksz ++ KPb).
  assert (L5 : len pre5 = p1 + 288 + tsz + ksz). { unfold pre5. rewrite !len_app, L4, len_hdr8, LK. lia. }
  assert (E5 : buf = pre5 ++ chunks_bytes (d_chunks d) ++ rest). { rewrite E4. unfold pre5. fold CS. now rewrite <- !app_assoc. }
  assert (PC : package_chunks (S (length buf)) buf (pool_of (d_tu d) (d_tss d) (d_tpad d)) (p1 + 288 + tsz + ksz) (p1 + psz) (d_id d mod 256) [] =
               Ok (types_of (d_id d mod 256) (d_chunks d))).
  { replace (p1 + 288 + tsz + ksz) with (len pre5) by lia. replace (p1 + psz) with (len pre5 + len (chunks_bytes (d_chunks d))) by (fold CS; lia).
    assert (Hfuel : (length (d_chunks d) < S (length buf))%nat).
    { pose proof (chunks_count_le (d_chunks d)) as HC. fold CS in HC. unfold len in Lbuf. unfold len in *. lia. }
    rewrite E5 in Hfuel |- *. change (types_of (d_id d mod 256) (d_chunks d)) with ([] ++ types_of (d_id d mod 256) (d_chunks d)).
    apply package_chunks_exact; [exact Hcs | exact Hfuel]. }
  rewrite PC. cbn [bind]. reflexivity.
Qed.

Lemma add_package_length p acc : (length (add_package p acc) <= S (length acc))%nat.
Proof. induction acc as [|q r IH]; cbn [add_package length]; [lia|]. destruct (name_eqb (pk_name q) (pk_name p)); cbn [length]; lia. Qed.
Definition pkgs_bytes (ds : list pkg_desc) : list Z := flat_map pkg_bytes ds.
Definition collect (ds : list pkg_desc) (acc : list tpackage) : list tpackage := fold_left (fun a d => add_package (pkg_of d) a) ds acc.

(* the walk over any number of packages, one after the other; packages of one name are merged, as the code does *)
Lemma packages_walk : forall ds pre rest fuel pkgcount seen acc,
  Forall wf_pkg ds -> (length ds < fuel)%nat -> len pre + len (pkgs_bytes ds) < 4294967296 ->
  Z.of_nat (length acc) + Z.of_nat (length ds) <= pkgcount + 1 ->
  table_chunks fuel (pre ++ pkgs_bytes ds ++ rest) (len pre) (len pre + len (pkgs_bytes ds)) pkgcount seen acc = Ok (collect ds acc).
Proof.
  induction ds as [|d ds IH]; intros pre rest fuel pkgcount seen acc Hw Hf Hb Hc.
  - destruct fuel as [|f]; [cbn [length] in Hf; lia|]. cbn [table_chunks pkgs_bytes flat_map collect fold_left]. change (len []) with 0.
    replace (len pre + 0 - 8 <? len pre) with true by lia. reflexivity.
  - destruct fuel as [|f]; [cbn [length] in Hf; lia|]. cbn [length] in Hf, Hc. apply Forall_cons_iff in Hw as [Wd Wr].
    unfold pkgs_bytes in *. cbn [flat_map collect fold_left]. rewrite len_app in *. rewrite <- app_assoc.
    pose proof Wd as (_ & Hname & _). cbn [flat_map] in Hb. rewrite len_app in Hb. rewrite (len_pkg_bytes d Hname) in *. pose proof (len_nonneg (flat_map pkg_bytes ds)) as Lr.
    rewrite (package_step d pre (flat_map pkg_bytes ds ++ rest) f (len pre + (pkg_size d + len (flat_map pkg_bytes ds))) pkgcount seen acc Wd); [|lia|lia|lia].
    rewrite (app_assoc pre). rewrite <- (len_pkg_bytes d Hname) at 1 2. rewrite <- len_app.
    replace (len pre + (len (pkg_bytes d) + len (flat_map pkg_bytes ds))) with (len (pre ++ pkg_bytes d) + len (flat_map pkg_bytes ds)) by (rewrite len_app; lia).
    apply IH; [exact Wr | lia | rewrite len_app, (len_pkg_bytes d Hname); lia|].
    pose proof (add_package_length (pkg_of d) acc). lia.
Qed.

Lemma pkgs_count_le ds : Forall wf_pkg ds -> Z.of_nat (length ds) * 288 <= len (pkgs_bytes ds).
Proof.
  unfold pkgs_bytes. induction ds as [|d l IH]; intros Hw; [cbn; lia|]. apply Forall_cons_iff in Hw as [(_ & Hname & _) Wl]. cbn [flat_map length]. rewrite len_app, (len_pkg_bytes d Hname).
  specialize (IH Wl). unfold pkg_size. pose proof (pool_size_ge (d_tu d) (d_tss d) (d_tpad d)). pose proof (pool_size_ge (d_ku d) (d_kss d) (d_kpad d)).
  pose proof (len_nonneg (chunks_bytes (d_chunks d))). lia.
Qed.

Definition table_bytes_multi (mu : bool) (mss : list str) (mpad : list Z) (ds : list pkg_desc) : list Z :=
  hdr8 2 12 (12 + pool_size mu mss mpad + len (pkgs_bytes ds)) ++ b32 (Z.of_nat (length ds)) ++ pool_chunk mu mss mpad ++ pkgs_bytes ds.

(* the whole file with any number of packages *)
Theorem tables_exact mu mss mpad ds :
  Forall wf_pkg ds -> pool_bound mu mss -> 12 + pool_size mu mss mpad + len (pkgs_bytes ds) < 4294967296 ->
  parse_table (table_bytes_multi mu mss mpad ds) = Ok (collect ds []).
Proof.
  intros Hw Hmb Htot.
  set (msz := pool_size mu mss mpad) in *. pose proof (pool_size_ge mu mss mpad) as M28. fold msz in M28.
  set (PS := pkgs_bytes ds) in *. pose proof (len_nonneg PS) as LPS. set (T := 12 + msz + len PS) in *.
  assert (ET : T = 12 + msz + len PS) by reflexivity.
  set (MPb := pool_bytes mu mss mpad). assert (LM : len MPb = msz - 8) by apply len_pool_bytes'.
  set (n := Z.of_nat (length ds)).
  assert (Hn : 0 <= n < 4294967296).
  { unfold n. pose proof (pkgs_count_le ds Hw) as PC. fold PS in PC. lia. }
  set (buf := table_bytes_multi mu mss mpad ds).
  assert (Ebuf : buf = hdr8 2 12 T ++ b32 n ++ hdr8 1 28 msz ++ MPb ++ PS).
  { unfold buf, table_bytes_multi, pool_chunk. fold msz PS MPb. fold T. fold n. rewrite <- !app_assoc. reflexivity. }
  assert (Lbuf : len buf = T). { rewrite Ebuf, !len_app, !len_hdr8, LM. change (len (b32 n)) with 4. lia. }
  unfold parse_table. rewrite !tlen_eq. rewrite Lbuf. replace ((T <? 8) || (4294967295 <? T)) with false by lia.
  assert (H0 : arsc_header buf 0 RES_TABLE = Ok [2; 12; T; 0; 8]).
  { rewrite Ebuf. exact (arsc_header_lb [] 2 12 T _ RES_TABLE ltac:(lia) ltac:(lia) ltac:(lia) (or_intror eq_refl)). }
  rewrite H0. cbn [bind]. replace (T <? T) with false by lia.
  assert (A8 : at_ buf 8 = b32 n ++ hdr8 1 28 msz ++ MPb ++ PS). { rewrite Ebuf. exact (at_app' (hdr8 2 12 T) _). }
  rewrite A8. rewrite u32_b32 by lia. cbn [bind]. change (0 + 12) with 12. change (0 + T) with T.
  cbn [table_chunks]. replace (T - 8 <? 12) with false by lia.
  set (pre1 := hdr8 2 12 T ++ b32 n).
  assert (H1 : arsc_header buf 12 0 = Ok [1; 28; msz; 12; 20]).
  { rewrite Ebuf. rewrite (app_assoc (hdr8 2 12 T)). fold pre1. exact (arsc_header_lb pre1 1 28 msz _ 0 ltac:(lia) ltac:(lia) ltac:(lia) (or_introl eq_refl)). }
  rewrite H1. cbn [bind]. replace (T <? 12 + msz) with false by lia. change (1 =? RES_STRING_POOL) with true. cbv iota.
  assert (P1 : pool_at buf 20 msz = Ok (pool_of mu mss mpad)).
  { unfold pool_at. rewrite Ebuf. replace (hdr8 2 12 T ++ b32 n ++ hdr8 1 28 msz ++ MPb ++ PS) with ((pre1 ++ hdr8 1 28 msz) ++ MPb ++ PS) by (unfold pre1; now rewrite <- !app_assoc).
    change 20 with (len (pre1 ++ hdr8 1 28 msz)). rewrite at_app'. unfold MPb, msz. now apply parse_pool_exact. }
  rewrite P1. cbn [bind].
  set (pre2 := pre1 ++ hdr8 1 28 msz ++ MPb).
  assert (L2 : len pre2 = 12 + msz). { unfold pre2, pre1. rewrite !len_app, !len_hdr8, LM. change (len (b32 n)) with 4. lia. }
  assert (E2 : buf = pre2 ++ pkgs_bytes ds ++ []). { rewrite Ebuf. unfold pre2, pre1. fold PS. now rewrite <- !app_assoc, app_nil_r. }
  rewrite E2. rewrite <- L2. replace T with (len pre2 + len (pkgs_bytes ds)) by (fold PS; lia).
  apply packages_walk; [exact Hw | | fold PS; lia | cbn [length]; fold n; lia].
  pose proof (pkgs_count_le ds Hw) as PC. fold PS in PC.
  rewrite <- E2. pose proof Lbuf as Lb. unfold len in Lb. unfold len in *. lia.
Qed.
Print Assumptions tables_exact.

(* two packages of different names, and the same package twice (merged under one name) *)
Example tables_example :
  let d2 := {| d_id := 2; d_name := [99; 0] ++ repeat 0 254; d_tu := false; d_tss := [[116]]; d_tpad := []; d_ku := false; d_kss := []; d_kpad := [];
               d_last_type := 0; d_last_key := 0; d_chunks := [PType 1 64 (repeat 0 60) [Some (RCompact 0 16 5)]] |} in
  parse_table (table_bytes_multi true [] [] [ex_desc; d2]) = Ok [pkg_of ex_desc; pkg_of d2] /\
  map (fun p => length (pk_types p)) (collect [ex_desc; ex_desc] []) = [2%nat].
Proof. split; vm_compute; reflexivity. Qed.

(* type chunks with 16-bit offsets and sparse type chunks are chunks the walk reads back *)
Lemma wf_ptype_offset16 tpool tid cz tail slots :
  52 <= cz < 65516 -> len tail = cz - 4 -> Forall wf_slot slots -> len (body_bytes slots) < 4 * 65535 ->
  20 + cz + 2 * Z.of_nat (length slots) + len (body_bytes slots) < 4294967295 -> (exists s, get_string tpool (tid - 1) = Ok s) ->
  wf_pchunk tpool (PTypeG tid 2 (Z.of_nat (length slots)) cz tail (flat_map enc16 (slot_offsets 0 slots)) slots).
Proof.
  intros H1 H2 H3 H4 H5 H6. cbn [wf_pchunk]. pose proof (len_nonneg (body_bytes slots)).
  split; [exact H1|]. split; [exact H2|]. split; [exact H3|]. split; [lia|]. split; [rewrite ArscTypeChunkEnc.len_enc16s, slot_offsets_length; lia|]. split; [|exact H6].
  intros base fuel rest' Hf. rewrite ArscTypeChunkEnc.len_enc16s, slot_offsets_length in Hf.
  pose proof (offset16_offsets_exact (slot_offsets 0 slots) fuel 0 base rest') as D. rewrite slot_offsets_length in D. cbn [Z.add] in D.
  apply D; [apply ArscTypeChunkEnc.slot_offsets_ok16; lia | lia].
Qed.
Lemma wf_ptype_sparse tpool tid cz tail slots :
  52 <= cz < 65516 -> len tail = cz - 4 -> Forall wf_slot slots -> len (body_bytes slots) < 4 * 65536 -> Z.of_nat (length slots) <= 65536 ->
  (exists s, get_string tpool (tid - 1) = Ok s) ->
  wf_pchunk tpool (PTypeG tid 1 (Z.of_nat (length (sparse_items 0 0 slots))) cz tail (flat_map enc_sparse (sparse_items 0 0 slots)) slots).
Proof.
  intros H1 H2 H3 H4 H5 H6. cbn [wf_pchunk]. pose proof (len_nonneg (body_bytes slots)). pose proof (sparse_items_length slots 0 0) as Ll.
  split; [exact H1|]. split; [exact H2|]. split; [exact H3|]. split; [lia|]. split; [rewrite len_sparse; lia|]. split; [|exact H6].
  intros base fuel rest' Hf. rewrite len_sparse in Hf.
  pose proof (sparse_offsets_exact (sparse_items 0 0 slots) fuel 0 base rest') as D. cbn [Z.add] in D.
  rewrite D; [now rewrite sparse_items_present | apply sparse_items_ok; lia | lia].
Qed.

(* one package holding the same slots in the three encodings *)
Example encodings_table_example :
  let slots := [Some (RPlain 0 0 3 0); None; Some (RCompact 1 16 9)] in
  let d := {| d_id := 127; d_name := [97; 0] ++ repeat 0 254; d_tu := false; d_tss := [[116]]; d_tpad := []; d_ku := false; d_kss := [[107]; [108]]; d_kpad := [];
              d_last_type := 1; d_last_key := 2;
              d_chunks := [PSpec 1 [0; 0; 0]; PType 1 64 (repeat 0 60) slots;
                           PTypeG 1 2 3 64 (repeat 1 60) (flat_map enc16 (slot_offsets 0 slots)) slots;
                           PTypeG 1 1 2 64 (repeat 2 60) (flat_map enc_sparse (sparse_items 0 0 slots)) slots] |} in
  parse_table (table_bytes_multi false [] [] [d]) = Ok [pkg_of d] /\
  map (fun t => (t_flags t, map e_id (t_entries t))) (pk_types (pkg_of d)) =
    [(0, [2130771968; 2130771970]); (2, [2130771968; 2130771970]); (1, [2130771968; 2130771970])].
Proof. split; vm_compute; reflexivity. Qed.
