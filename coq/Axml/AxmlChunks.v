(* C26 - the chunk decoders of AXMLParser: every node chunk (namespace start/end, element start with its attribute records,
   element end, text) and the resource map, written at any position of any buffer, is decoded to exactly its event *)
From Coq Require Import ZArith List Bool Lia ZifyBool.
Require Import V.Lib.Val V.Lib.Result V.Axml.PoolModel V.Axml.PoolProofs V.Axml.AxmlModel V.Misc.TermModel.
Import ListNotations.
Open Scope Z_scope.
Ltac Zify.zify_post_hook ::= Z.to_euclidean_division_equations.

Definition b16 (n : Z) : list Z := [n mod 256; n / 256].
Definition chunk_header (ty hs sz : Z) : list Z := b16 ty ++ b16 hs ++ b32 sz.
Lemma len_b32 n : PoolModel.len (b32 n) = 4.  Proof. reflexivity. Qed.
Lemma len_b16 n : PoolModel.len (b16 n) = 2.  Proof. reflexivity. Qed.
Lemma len_header ty hs sz : PoolModel.len (chunk_header ty hs sz) = 8.  Proof. reflexivity. Qed.
Lemma u16_b16 n r : 0 <= n < 65536 -> PoolModel.u16 (b16 n ++ r) = Ok (n, r).
Proof. intros H. unfold b16. cbn [app PoolModel.u16]. f_equal. f_equal. lia. Qed.
Lemma tdropz_app pre l : TermModel.dropz (PoolModel.len pre) (pre ++ l) = l.
Proof. exact (dropz_app pre l). Qed.
Lemma tlen_eq l : TermModel.len l = PoolModel.len l.  Proof. reflexivity. Qed.

(* the header of a chunk at position len pre is accepted as it stands *)
Lemma arsc_header_at pre ty hs sz rest : 0 <= ty < 65536 -> 8 <= hs < 65536 -> hs <= sz < 4294967296 ->
  arsc_header (pre ++ chunk_header ty hs sz ++ rest) (PoolModel.len pre) 0 = Ok [ty; hs; sz; PoolModel.len pre; PoolModel.len pre + 8].
Proof.
  intros Ht Hh Hs. unfold arsc_header. rewrite tlen_eq, !len_app, len_header. pose proof (len_nonneg pre). pose proof (len_nonneg rest).
  replace (PoolModel.len pre + (8 + PoolModel.len rest) <? PoolModel.len pre + 8) with false by lia.
  unfold arsc_fuel. cbn [arsc_loop]. rewrite tdropz_app. unfold chunk_header, b16, b32. cbn [app hdr].
  replace (ty mod 256 + 256 * (ty / 256)) with ty by lia. replace (hs mod 256 + 256 * (hs / 256)) with hs by lia.
  replace (sz mod 256 + 256 * ((sz / 256) mod 256) + 65536 * ((sz / 65536) mod 256) + 16777216 * (sz / 16777216)) with sz by lia.
  replace (sz <? 8) with false by lia. cbn [andb]. replace ((8 <=? hs) && (hs <=? sz)) with true by lia. cbn [orb bind].
  change (negb (0 =? 0)) with false. cbn [andb]. replace (hs <? 8) with false by lia. replace (sz <? 8) with false by lia. replace (sz <? hs) with false by lia. reflexivity.
Qed.

Definition fits32 (n : Z) : Prop := 0 <= n < 4294967296.
Definition node_chunk (ty line comment : Z) (body : list Z) : list Z :=
  chunk_header ty 16 (16 + PoolModel.len body) ++ b32 line ++ b32 comment ++ body.
Lemma pdropz_header pre ty hs sz l : PoolModel.dropz (PoolModel.len pre + 8) (pre ++ chunk_header ty hs sz ++ l) = l.
Proof. replace (PoolModel.len pre + 8) with (PoolModel.len (pre ++ chunk_header ty hs sz)) by (rewrite len_app, len_header; lia). rewrite app_assoc. apply dropz_app. Qed.

Section Node.
  Variables (pre rest : list Z) (fs : Z) (st : pstate) (f : nat).
  Hypothesis Hpos : s_pos st = PoolModel.len pre.
  Hypothesis Hfs : PoolModel.len pre <> fs.

  (* what every node chunk has in common: header accepted, line number and comment read *)
  Ltac open_node ty :=
    cbn [do_next]; rewrite Hpos; replace (PoolModel.len pre =? fs) with false by lia;
    unfold node_chunk; rewrite <- !app_assoc; rewrite arsc_header_at by (try lia; rewrite ?len_app, ?len_b32, ?len_b16; lia);
    rewrite pdropz_header.

  Theorem start_namespace_chunk line comment prefix uri : fits32 line -> fits32 comment -> fits32 prefix -> fits32 uri ->
    do_next (S f) (pre ++ node_chunk 256 line comment (b32 prefix ++ b32 uri) ++ rest) fs st =
    do_next f (pre ++ node_chunk 256 line comment (b32 prefix ++ b32 uri) ++ rest) fs
      {| s_pos := PoolModel.len pre + 24; s_ns := s_ns st ++ [(prefix, uri)]; s_res := s_res st |}.
  Proof.
    unfold fits32. intros H1 H2 H3 H4. open_node 256. change (PoolModel.len (b32 prefix ++ b32 uri)) with 8.
    change (256 =? 384) with false. change ((256 <? 256) || (383 <? 256)) with false. change (negb (16 =? 16)) with false. cbv iota.
    rewrite <- ?app_assoc. rewrite u32_b32 by lia. cbn [bind]. rewrite u32_b32 by lia. cbn [bind].
    change (256 =? 256) with true. cbv iota. rewrite u32_b32 by lia. cbn [bind]. rewrite u32_b32 by lia. cbn [bind].
    replace (PoolModel.len pre + 8 + 16) with (PoolModel.len pre + 24) by lia. reflexivity.
  Qed.

  Theorem end_namespace_chunk line comment prefix uri : fits32 line -> fits32 comment -> fits32 prefix -> fits32 uri ->
    do_next (S f) (pre ++ node_chunk 257 line comment (b32 prefix ++ b32 uri) ++ rest) fs st =
    do_next f (pre ++ node_chunk 257 line comment (b32 prefix ++ b32 uri) ++ rest) fs
      {| s_pos := PoolModel.len pre + 24; s_ns := remove_first (prefix, uri) (s_ns st); s_res := s_res st |}.
  Proof.
    unfold fits32. intros H1 H2 H3 H4. open_node 257. change (PoolModel.len (b32 prefix ++ b32 uri)) with 8.
    change (257 =? 384) with false. change ((257 <? 256) || (383 <? 257)) with false. change (negb (16 =? 16)) with false. cbv iota.
    rewrite <- ?app_assoc. rewrite u32_b32 by lia. cbn [bind]. rewrite u32_b32 by lia. cbn [bind].
    change (257 =? 256) with false. change (257 =? 257) with true. cbv iota. rewrite u32_b32 by lia. cbn [bind]. rewrite u32_b32 by lia. cbn [bind].
    replace (PoolModel.len pre + 8 + 16) with (PoolModel.len pre + 24) by lia. reflexivity.
  Qed.
  Theorem end_element_chunk line comment ns name : fits32 line -> fits32 comment -> fits32 ns -> fits32 name ->
    do_next (S f) (pre ++ node_chunk 259 line comment (b32 ns ++ b32 name) ++ rest) fs st =
    Ok (Some (EEnd ns name), {| s_pos := PoolModel.len pre + 24; s_ns := s_ns st; s_res := s_res st |}).
  Proof.
    unfold fits32. intros H1 H2 H3 H4. open_node 259. change (PoolModel.len (b32 ns ++ b32 name)) with 8.
    change (259 =? 384) with false. change ((259 <? 256) || (383 <? 259)) with false. change (negb (16 =? 16)) with false. cbv iota.
    rewrite <- ?app_assoc. rewrite u32_b32 by lia. cbn [bind]. rewrite u32_b32 by lia. cbn [bind].
    change (259 =? 256) with false. change (259 =? 257) with false. change (259 =? 258) with false. change (259 =? 259) with true. cbv iota.
    rewrite u32_b32 by lia. cbn [bind]. rewrite u32_b32 by lia. cbn [bind]. repeat f_equal; lia.
  Qed.
  Theorem text_chunk line comment name x y : fits32 line -> fits32 comment -> fits32 name -> fits32 x -> fits32 y ->
    do_next (S f) (pre ++ node_chunk 260 line comment (b32 name ++ b32 x ++ b32 y) ++ rest) fs st =
    Ok (Some (EText name), {| s_pos := PoolModel.len pre + 28; s_ns := s_ns st; s_res := s_res st |}).
  Proof.
    unfold fits32. intros H1 H2 H3 H4 H5. open_node 260. change (PoolModel.len (b32 name ++ b32 x ++ b32 y)) with 12.
    change (260 =? 384) with false. change ((260 <? 256) || (383 <? 260)) with false. change (negb (16 =? 16)) with false. cbv iota.
    rewrite <- ?app_assoc. rewrite u32_b32 by lia. cbn [bind]. rewrite u32_b32 by lia. cbn [bind].
    change (260 =? 256) with false. change (260 =? 257) with false. change (260 =? 258) with false. change (260 =? 259) with false. change (260 =? 260) with true. cbv iota.
    rewrite u32_b32 by lia. cbn [bind]. rewrite u32_b32 by lia. cbn [bind]. rewrite u32_b32 by lia. cbn [bind]. repeat f_equal; lia.
  Qed.

  (* an attribute record: namespace, name, raw value, (size 8, 0, type), data *)
  Definition attr_bytes (a : attr) : list Z := b32 (a_ns a) ++ b32 (a_name a) ++ b32 (a_raw a) ++ b32 (8 + 16777216 * a_type a) ++ b32 (a_data a).
  Definition wf_attr (a : attr) : Prop := fits32 (a_ns a) /\ fits32 (a_name a) /\ fits32 (a_raw a) /\ 0 <= a_type a < 256 /\ fits32 (a_data a).
  Lemma read_attrs_exact : forall attrs fuel l, Forall wf_attr attrs -> (length attrs <= fuel)%nat ->
    read_attrs fuel (Z.of_nat (length attrs)) 20 (flat_map attr_bytes attrs ++ l) = Ok (attrs, l).
  Proof.
    induction attrs as [|a attrs IH]; intros fuel l Hw Hf.
    - destruct fuel; reflexivity.
    - inversion Hw as [|? ? (W1 & W2 & W3 & W4 & W5) Hw']; subst. destruct fuel as [|fu]; [cbn [length] in Hf; lia|]. cbn [read_attrs length flat_map].
      replace (Z.of_nat (S (length attrs)) <=? 0) with false by lia. unfold attr_bytes at 1. unfold fits32 in *. rewrite <- !app_assoc.
      rewrite u32_b32 by lia. cbn [bind]. rewrite u32_b32 by lia. cbn [bind]. rewrite u32_b32 by lia. cbn [bind]. rewrite u32_b32 by lia. cbn [bind]. rewrite u32_b32 by lia. cbn [bind].
      change (20 =? 20) with true. cbv iota. replace (Z.of_nat (S (length attrs)) - 1) with (Z.of_nat (length attrs)) by lia.
      rewrite IH by (auto; cbn [length] in Hf; lia). cbn [bind]. f_equal. f_equal. f_equal. destruct a as [an am ar at_ ad]. cbn [a_ns a_name a_raw a_type a_data] in *. f_equal.
      rewrite Z.shiftr_div_pow2 by lia. change (2 ^ 24) with 16777216. lia.
  Qed.
  Theorem start_element_chunk line comment ns name attrs : fits32 line -> fits32 comment -> fits32 ns -> fits32 name ->
    Forall wf_attr attrs -> Z.of_nat (length attrs) < 65536 ->
    let body := b32 ns ++ b32 name ++ b16 20 ++ b16 20 ++ b32 (Z.of_nat (length attrs)) ++ b32 0 ++ flat_map attr_bytes attrs in
    16 + PoolModel.len body < 4294967296 ->
    do_next (S f) (pre ++ node_chunk 258 line comment body ++ rest) fs st =
    Ok (Some (EStart ns name attrs comment (s_ns st)), {| s_pos := PoolModel.len pre + 16 + PoolModel.len body; s_ns := s_ns st; s_res := s_res st |}).
  Proof.
    intros H1 H2 H3 H4 Hw Hn body Hb. unfold fits32 in H1, H2, H3, H4. pose proof (len_nonneg body) as Lb. open_node 258. fold body.
    change (258 =? 384) with false. change ((258 <? 256) || (383 <? 258)) with false. change (negb (16 =? 16)) with false. cbv iota.
    rewrite u32_b32 by lia. cbn [bind]. rewrite u32_b32 by lia. cbn [bind].
    change (258 =? 256) with false. change (258 =? 257) with false. change (258 =? 258) with true. cbv iota.
    remember (PoolModel.len body) as L eqn:EL. unfold body. rewrite <- !app_assoc. rewrite u32_b32 by lia. cbn [bind]. rewrite u32_b32 by lia. cbn [bind].
    rewrite u16_b16 by lia. cbn [bind]. rewrite u16_b16 by lia. cbn [bind]. rewrite u32_b32 by lia. cbn [bind]. rewrite u32_b32 by lia. cbn [bind].
    replace (Z.land (Z.of_nat (length attrs)) 65535) with (Z.of_nat (length attrs)) by (change 65535 with (Z.ones 16); rewrite Z.land_ones by lia; change (2 ^ 16) with 65536; lia).
    rewrite read_attrs_exact; [|exact Hw | rewrite app_length; assert (length attrs <= length (flat_map attr_bytes attrs))%nat; [|lia]].
    - cbn [bind]. replace (PoolModel.len pre + (16 + L)) with (PoolModel.len pre + 16 + L) by lia. reflexivity.
    - clear. induction attrs as [|a l IH]; cbn [flat_map length]; [lia|]. rewrite app_length. set (n := length (flat_map attr_bytes l)) in *. unfold attr_bytes. rewrite !app_length. cbn [b32 length]. lia.
  Qed.

  (* the resource map: the ids are appended to the map, the position moves behind the chunk *)
  Theorem resource_map_chunk ids : Forall (fun x => 0 <= x < 4294967296) ids -> 8 + 4 * Z.of_nat (length ids) < 4294967296 ->
    let chunk := chunk_header 384 8 (8 + 4 * Z.of_nat (length ids)) ++ flat_map b32 ids in
    do_next (S f) (pre ++ chunk ++ rest) fs st =
    do_next f (pre ++ chunk ++ rest) fs {| s_pos := PoolModel.len pre + 8 + 4 * Z.of_nat (length ids); s_ns := s_ns st; s_res := s_res st ++ ids |}.
  Proof.
    intros Hi Hb chunk. unfold chunk. cbn [do_next]. rewrite Hpos. replace (PoolModel.len pre =? fs) with false by lia.
    rewrite <- !app_assoc. rewrite arsc_header_at by lia. rewrite pdropz_header. change (384 =? 384) with true. cbv iota.
    replace ((8 + 4 * Z.of_nat (length ids) <? 8) || negb ((8 + 4 * Z.of_nat (length ids)) mod 4 =? 0)) with false by lia.
    replace ((8 + 4 * Z.of_nat (length ids) - 8) / 4) with (Z.of_nat (length ids)) by lia.
    rewrite u32s_b32; [|exact Hi | rewrite app_length, length_b32s; lia]. cbn [bind]. replace (Z.max 0 (Z.of_nat (length ids))) with (Z.of_nat (length ids)) by lia. reflexivity.
  Qed.
End Node.
