(* C29 - hand-written model of ARSCParser.ResourceResolver (androguard/core/axml/__init__.py):
   resolve / _resolve_into_result (with the _resolving stack) / put_ate_value / put_item_value, and of
   ARSCParser.get_res_configs as the table lookup.  Resource ids and configurations are integers
   (configuration 0 is the default configuration), a formatted value is identified by a number.
   Recursion runs on fuel.  Tied to the source by tools/props/c29.py. *)
From Coq Require Import ZArith List Bool.
Require Import V.Lib.Val V.Lib.Result.
Import ListNotations.
Open Scope Z_scope.

Inductive item := IRef (id : Z) | IVal (v : Z).
Inductive entry := ESimple (i : item) | EComplex (items : list item) | ECompact (v : Z).
Definition table := list (Z * list (Z * entry)).          (* id -> [(config, entry)], in file order *)

(* what resolve() returns: (config, value) pairs, (config, [...]) for complex entries, bare values inside those *)
Inductive res := RVal (v : Z) | RPair (cfg v : Z) | RCplx (cfg : Z) (l : list res).

Definition memZ (x : Z) (l : list Z) : bool := existsb (Z.eqb x) l.

(* get_res_configs(rid, config): all configurations, or the wanted one / the fallback *)
Definition select (wanted : option Z) (opts : list (Z * entry)) : list (Z * entry) :=
  match wanted with
  | Some c =>
      if (1 <? Z.of_nat (length opts)) then
        match find (fun p => fst p =? c) opts with
        | Some p => [p]
        | None => if c =? 0 then firstn 1 opts else []
        end
      else opts
  | None => opts
  end.
Definition lookup (tbl : table) (wanted : option Z) (id : Z) : list (Z * entry) :=
  match find (fun p => fst p =? id) tbl with Some p => select wanted (snd p) | None => [] end.

Fixpoint seqcat (l : list (result (list res))) : result (list res) :=
  match l with
  | [] => Ok []
  | r :: t => match r with Err e => Err e | Ok a => match seqcat t with Err e => Err e | Ok b => Ok (a ++ b) end end
  end.

Section Resolver.
Variable tbl : table.
Variable wanted : option Z.

(* put_item_value for an ARSCResStringPoolRef item of the entry [parent] *)
Definition put_item (rec : list Z -> Z -> result (list res)) (resolving : list Z) (parent cfg : Z) (cplx : bool)
  (i : item) : result (list res) :=
  match i with
  | IRef r => if r =? 0 then Ok [] else if r =? parent then Ok [] else rec resolving r
  | IVal v => Ok (if cplx then [RVal v] else [RPair cfg v])
  end.

Definition put_ate (rec : list Z -> Z -> result (list res)) (resolving : list Z) (id : Z) (ce : Z * entry)
  : result (list res) :=
  let '(cfg, e) := ce in
  match e with
  | ESimple i => put_item rec resolving id cfg false i
  | EComplex its =>
      match seqcat (map (put_item rec resolving id cfg true) its) with
      | Ok l => Ok [RCplx cfg l]
      | Err x => Err x
      end
  | ECompact v => Ok [RPair cfg v]
  end.

(* _resolve_into_result *)
Fixpoint resolve_into (fuel : nat) (resolving : list Z) (id : Z) : result (list res) :=
  match fuel with
  | O => Err OutOfFuel
  | S f =>
      if memZ id resolving then Ok []
      else seqcat (map (put_ate (resolve_into f) (id :: resolving) id) (lookup tbl wanted id))
  end.

(* resolve(res_id): get_res_configs refuses the id 0 *)
Definition resolve (fuel : nat) (id : Z) : result (list res) :=
  if id =? 0 then Err ValueError else resolve_into fuel [] id.
End Resolver.

(* every id that occurs in the table: keys and reference targets *)
Definition item_refs (i : item) : list Z := match i with IRef r => [r] | IVal _ => [] end.
Definition entry_refs (e : entry) : list Z :=
  match e with ESimple i => item_refs i | EComplex its => flat_map item_refs its | ECompact _ => [] end.
Definition universe (tbl : table) : list Z :=
  flat_map (fun p => fst p :: flat_map (fun ce => entry_refs (snd ce)) (snd p)) tbl.

(* the values in a result, in order *)
Fixpoint flatten (r : res) : list Z :=
  match r with
  | RVal v => [v]
  | RPair _ v => [v]
  | RCplx _ l => flat_map flatten l
  end.

(* ---- observation ---- *)
Fixpoint vres_ (r : res) : val :=
  match r with
  | RVal v => VZ v
  | RPair c v => VList [VZ c; VZ v]
  | RCplx c l => VList [VZ c; VList (map vres_ l)]
  end.
Definition obs_resolve (i : (table * option Z) * Z) : val :=
  let '((tbl, wanted), id) := i in
  vres (fun l => VList (map vres_ l)) (resolve tbl wanted (S (length (universe tbl))) id).
(* several resolutions on one table *)
Definition obs_resolve_all (i : (table * option Z) * list Z) : val :=
  let '((tbl, wanted), qs) := i in VList (map (fun q => obs_resolve ((tbl, wanted), q)) qs).
