(* C28 - a complex entry (a bag: parent, count, then count pairs of a name and a Res_value) at any position of any file is
   read back with its parent, its count and exactly its items *)
From Coq Require Import ZArith List Bool Lia ZifyBool.
Require Import V.Lib.Val V.Lib.Result V.Lib.Struct V.Axml.PoolModel V.Axml.ArscTypeModel V.Axml.ArscTypeProofs.
Import ListNotations.
Open Scope Z_scope.
Ltac Zify.zify_post_hook ::= Z.to_euclidean_division_equations.

Definition item := (Z * (Z * Z))%type.                                   (* name, (data type, data) *)
Definition item_bytes (i : item) : list Z := b32 (fst i) ++ value_bytes (fst (snd i)) (snd (snd i)).
Definition wf_item (i : item) : Prop := 0 <= fst i < 4294967296 /\ 0 <= snd (snd i) < 4294967296.
Lemma len_item i : len (item_bytes i) = 12.
Proof. unfold item_bytes, value_bytes, b32, b16. unfold len. rewrite !app_length. cbn [lbytes length]. lia. Qed.
Lemma read_items_exact : forall items fuel pos endp rest, Forall wf_item items -> (length items <= fuel)%nat ->
  pos + 12 * Z.of_nat (length items) <= endp ->
  read_items fuel (Z.of_nat (length items)) pos endp (flat_map item_bytes items ++ rest) = Ok items.
Proof.
  induction items as [|i items IH]; intros fuel pos endp rest Hw Hf He.
  - destruct fuel; reflexivity.
  - inversion Hw as [|? ? [W1 W2] Hw']; subst. destruct fuel as [|f]; [cbn [length] in Hf; lia|]. cbn [read_items length flat_map].
    replace (Z.of_nat (S (length items)) <=? 0) with false by lia. replace (endp <? pos + 4) with false by (cbn [length] in He; lia).
    unfold item_bytes at 1. rewrite <- !app_assoc. rewrite u32_b32 by lia. cbn [bind]. rewrite res_value_enc by lia. cbn [bind].
    replace (Z.of_nat (S (length items)) - 1) with (Z.of_nat (length items)) by lia.
    rewrite IH by (auto; cbn [length] in *; lia). cbn [bind]. destruct i as [n [t d]]. reflexivity.
Qed.
Theorem complex_entry_exact pre size flags index parent items rest endp rid :
  0 <= size < 65536 -> 0 <= flags < 65536 -> Z.land flags 1 = 1 -> 0 <= index < 4294967296 -> 0 <= parent < 4294967296 ->
  Forall wf_item items -> Z.of_nat (length items) < 4294967296 -> len pre + 16 + 12 * Z.of_nat (length items) <= endp ->
  parse_entry (pre ++ b16 size ++ b16 flags ++ b32 index ++ b32 parent ++ b32 (Z.of_nat (length items)) ++ flat_map item_bytes items ++ rest) (len pre) endp rid =
  Ok {| e_id := rid; e_size := size; e_flags := flags; e_index := index; e_payload := Complex parent (Z.of_nat (length items)) items |}.
Proof.
  intros Hs Hf H1 Hi Hp Hw Hn He. unfold parse_entry. rewrite at_app. rewrite u16_b16 by lia. cbn [bind]. rewrite u16_b16 by lia. cbn [bind].
  rewrite u32_b32 by lia. cbn [bind]. rewrite H1. change (negb (1 =? 0)) with true. cbv iota.
  rewrite u32_b32 by lia. cbn [bind]. rewrite u32_b32 by lia. cbn [bind].
  rewrite read_items_exact; [reflexivity | exact Hw | | lia].
  rewrite app_length. assert (length items <= length (flat_map item_bytes items))%nat; [|lia].
  clear. induction items as [|i l IH]; cbn [flat_map length]; [lia|]. rewrite app_length. pose proof (len_item i) as L. unfold len in L. lia.
Qed.
