(* C28 - hand-written model of the walk of ARSCParser.__init__ over a resource table: the table header, the chunks of the
   table (main string pool, packages, others), the package header with its two string pools, and the chunks of a package
   (type specs, types, others).  The type chunks themselves are coq/Axml/ArscTypeModel.v, the chunk headers
   coq/Misc/TermModel.v (ARSCHeader with its resynchronisation), the string pools coq/Axml/PoolModel.v.
   Positions are absolute.  Tied to the source by tools/props/c28.py. *)
From Coq Require Import ZArith List Bool.
Require Import V.Lib.Val V.Lib.Result V.Axml.PoolModel V.Axml.ArscTypeModel V.Misc.TermModel.
Import ListNotations.
Open Scope Z_scope.

Definition RES_STRING_POOL : Z := 1.
Definition RES_TABLE : Z := 2.
Definition RES_TABLE_PACKAGE : Z := 512.
Definition RES_TABLE_TYPE : Z := 513.
Definition RES_TABLE_TYPE_SPEC : Z := 514.

(* StringBlock(buff, header) at an accepted header: only success or failure matters for the walk *)
Definition pool_at (buf : list Z) (after size : Z) : result pool := parse_pool (at_ buf after) size.

(* the chunks of one package: while tell() <= end - 8 *)
Fixpoint package_chunks (fuel : nat) (buf : list Z) (tpool : pool) (pos pend pkgid : Z) (acc : list type_chunk) : result (list type_chunk) :=
  match fuel with
  | O => Err OutOfFuel
  | S f =>
      if pend - 8 <? pos then Ok acc else
      do h <- arsc_header buf pos 0;
      match h with
      | [ty; hs; sz; start; after] =>
          if pend <? start + sz then Ok acc else                   (* larger than the package: break *)
          if ty =? RES_TABLE_TYPE_SPEC then
            (* ARSCResTypeSpec: id, res0, res1 are read outside the try block *)
            do ' (_, r1) <- u8 (at_ buf after); do ' (_, r2) <- u8 r1; do ' (_, _) <- u16 r2;
            package_chunks f buf tpool (start + sz) pend pkgid acc
          else if ty =? RES_TABLE_TYPE then
            (* ARSCResType.__init__ formats a debug message with repr(self), which looks the type name up in the type string pool:
               a damaged name makes the whole parse fail *)
            do ' (tid, _) <- u8 (at_ buf after);
            do _ <- get_string tpool (tid - 1);
            do t <- parse_type_chunk buf start pkgid;
            package_chunks f buf tpool (start + sz) pend pkgid (acc ++ [t])
          else package_chunks f buf tpool (start + sz) pend pkgid acc
      | _ => Err OtherError
      end
  end.

Record tpackage := { pk_id : Z; pk_name : list Z; pk_types : list type_chunk }.
Definition name_eqb (a b : list Z) : bool := list_eqb Z.eqb a b.
Fixpoint add_package (p : tpackage) (l : list tpackage) : list tpackage :=
  match l with
  | [] => [p]
  | q :: r => if name_eqb (pk_name q) (pk_name p)                  (* self.packages[name] is one list per name *)
              then {| pk_id := pk_id q; pk_name := pk_name q; pk_types := pk_types q ++ pk_types p |} :: r
              else q :: add_package p r
  end.
(* the 256 name bytes up to the first 16-bit zero *)
Fixpoint name_units (l : list Z) : list Z :=
  match l with a :: b :: r => if (a =? 0) && (b =? 0) then [] else (a + 256 * b) :: name_units r | _ => [] end.

(* the chunks of the table: while tell() <= header.end - 8 *)
Fixpoint table_chunks (fuel : nat) (buf : list Z) (pos hend pkgcount : Z) (main_seen : bool) (acc : list tpackage) : result (list tpackage) :=
  match fuel with
  | O => Err OutOfFuel
  | S f =>
      if hend - 8 <? pos then Ok acc else
      do h <- arsc_header buf pos 0;
      match h with
      | [ty; hs; sz; start; after] =>
          if hend <? start + sz then Ok acc else
          if ty =? RES_STRING_POOL then
            if main_seen then table_chunks f buf (start + sz) hend pkgcount true acc
            else do _ <- pool_at buf after sz; table_chunks f buf (start + sz) hend pkgcount true acc
          else if ty =? RES_TABLE_PACKAGE then
            if pkgcount <? Z.of_nat (length acc) then Err ResParserError else
            let b := at_ buf after in
            do ' (pid, b1) <- u32 b;
            let name := takez 256 b1 in
            do ' (type_strings, b2) <- u32 (dropz 256 b1); do ' (_, b3) <- u32 b2; do ' (key_strings, b4) <- u32 b3; do ' (_, _) <- u32 b4;
            do th <- arsc_header buf (start + type_strings) RES_STRING_POOL;
            match th with
            | [_; _; tsz; _; tafter] =>
                do tpool <- pool_at buf tafter tsz;
                do kh <- arsc_header buf (start + key_strings) RES_STRING_POOL;
                match kh with
                | [_; _; ksz; _; kafter] =>
                    do _ <- pool_at buf kafter ksz;
                    do ts <- package_chunks (S (length buf)) buf tpool (start + hs + tsz + ksz) (start + sz) (pid mod 256) [];
                    table_chunks f buf (start + sz) hend pkgcount main_seen (add_package {| pk_id := pid; pk_name := name_units name; pk_types := ts |} acc)
                | _ => Err OtherError
                end
            | _ => Err OtherError
            end
          else table_chunks f buf (start + sz) hend pkgcount main_seen acc
      | _ => Err OtherError
      end
  end.

Definition parse_table (buf : list Z) : result (list tpackage) :=
  if (len buf <? 8) || (4294967295 <? len buf) then Err ResParserError else
  do h <- arsc_header buf 0 RES_TABLE;
  match h with
  | [_; hs; sz; start; after] =>
      if len buf <? sz then Err ResParserError else
      do ' (pkgcount, _) <- u32 (at_ buf after);
      table_chunks (S (length buf)) buf (start + hs) (start + sz) pkgcount false []
  | _ => Err OtherError
  end.

Definition vtype (t : type_chunk) : val := VList [VZ (t_id t); VZ (t_flags t); VZ (t_count t); VList (map ventry (t_entries t))].
Definition obs_table (buf : list Z) : val :=
  vres (fun ps => VList (map (fun p => VList [VZ (pk_id p); vlistZ (pk_name p); VList (map vtype (pk_types p))]) ps)) (parse_table buf).
(* for damaged tables only success or failure is compared, not the kind of the exception *)
Definition obs_table_loose (buf : list Z) : val :=
  match parse_table buf with
  | Ok ps => VList (map (fun p => VList [VZ (pk_id p); vlistZ (pk_name p); VList (map vtype (pk_types p))]) ps)
  | Err _ => VErr 0
  end.
