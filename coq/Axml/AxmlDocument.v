(* C26 - whole documents: the chunk decoders of AxmlChunks.v composed over ANY sequence of chunks, the loop of
   AXMLPrinter.__init__ as a fold over the decoded events, and the complete parser on the bytes of a document *)
From Coq Require Import ZArith List Bool Lia ZifyBool.
Require Import V.Lib.Val V.Lib.Result V.Axml.PoolModel V.Axml.PoolProofs V.Axml.AxmlModel V.Axml.AxmlProofs V.Axml.AxmlChunks V.Misc.TermModel.
Import ListNotations.
Open Scope Z_scope.
Ltac Zify.zify_post_hook ::= Z.to_euclidean_division_equations.

(* ---------------------------------------------------------------- the chunks of a document body *)
Inductive item :=
| INsStart (line comment prefix uri : Z)
| INsEnd (line comment prefix uri : Z)
| IStart (line comment ns name : Z) (attrs : list attr)
| IEnd (line comment ns name : Z)
| IText (line comment name x y : Z)
| IResMap (ids : list Z).

Definition start_body (ns name : Z) (attrs : list attr) : list Z :=
  b32 ns ++ b32 name ++ b16 20 ++ b16 20 ++ b32 (Z.of_nat (length attrs)) ++ b32 0 ++ flat_map attr_bytes attrs.
Definition encode_item (i : item) : list Z :=
  match i with
  | INsStart l c p u => node_chunk 256 l c (b32 p ++ b32 u)
  | INsEnd l c p u => node_chunk 257 l c (b32 p ++ b32 u)
  | IStart l c ns name attrs => node_chunk 258 l c (start_body ns name attrs)
  | IEnd l c ns name => node_chunk 259 l c (b32 ns ++ b32 name)
  | IText l c name x y => node_chunk 260 l c (b32 name ++ b32 x ++ b32 y)
  | IResMap ids => chunk_header 384 8 (8 + 4 * Z.of_nat (length ids)) ++ flat_map b32 ids
  end.
Definition encode_items (l : list item) : list Z := flat_map encode_item l.
Definition wf_item (i : item) : Prop :=
  match i with
  | INsStart l c p u | INsEnd l c p u | IEnd l c p u => fits32 l /\ fits32 c /\ fits32 p /\ fits32 u
  | IStart l c ns name attrs => fits32 l /\ fits32 c /\ fits32 ns /\ fits32 name /\ Forall wf_attr attrs /\ Z.of_nat (length attrs) < 65536 /\
                                16 + PoolModel.len (start_body ns name attrs) < 4294967296
  | IText l c name x y => fits32 l /\ fits32 c /\ fits32 name /\ fits32 x /\ fits32 y
  | IResMap ids => Forall (fun x => 0 <= x < 4294967296) ids /\ 8 + 4 * Z.of_nat (length ids) < 4294967296
  end.

(* what the chunks mean: the events in the order of the file, each with the resource map as it is when the event is
   delivered; namespace chunks and resource maps only change the state *)
Fixpoint events (l : list item) (ns : list (Z * Z)) (res : list Z) : list (event * list Z) :=
  match l with
  | [] => []
  | INsStart _ _ p u :: r => events r (ns ++ [(p, u)]) res
  | INsEnd _ _ p u :: r => events r (remove_first (p, u) ns) res
  | IResMap ids :: r => events r ns (res ++ ids)
  | IStart _ c n nm attrs :: r => (EStart n nm attrs c ns, res) :: events r ns res
  | IEnd _ _ n nm :: r => (EEnd n nm, res) :: events r ns res
  | IText _ _ nm _ _ :: r => (EText nm, res) :: events r ns res
  end.
(* the state behind the last chunk *)
Fixpoint final (l : list item) (ns : list (Z * Z)) (res : list Z) : list (Z * Z) * list Z :=
  match l with
  | [] => (ns, res)
  | INsStart _ _ p u :: r => final r (ns ++ [(p, u)]) res
  | INsEnd _ _ p u :: r => final r (remove_first (p, u) ns) res
  | IResMap ids :: r => final r ns (res ++ ids)
  | _ :: r => final r ns res
  end.
(* one call of _do_next: the chunks it passes over, the event it stops at, the chunks left *)
Fixpoint next_event (l : list item) (ns : list (Z * Z)) (res : list Z) : option (event * list item * list (Z * Z) * list Z) :=
  match l with
  | [] => None
  | INsStart _ _ p u :: r => next_event r (ns ++ [(p, u)]) res
  | INsEnd _ _ p u :: r => next_event r (remove_first (p, u) ns) res
  | IResMap ids :: r => next_event r ns (res ++ ids)
  | IStart _ c n nm attrs :: r => Some (EStart n nm attrs c ns, r, ns, res)
  | IEnd _ _ n nm :: r => Some (EEnd n nm, r, ns, res)
  | IText _ _ nm _ _ :: r => Some (EText nm, r, ns, res)
  end.

Lemma len_encode_item_pos i : 8 <= PoolModel.len (encode_item i).
Proof.
  destruct i as [l c p u|l c p u|l c n nm attrs|l c n nm|l c nm x y|ids]; cbn [encode_item]; unfold node_chunk; rewrite len_app, len_header;
    match goal with |- 8 <= 8 + PoolModel.len ?y => pose proof (len_nonneg y); lia end.
Qed.
Lemma encode_items_cons i l : encode_items (i :: l) = encode_item i ++ encode_items l.  Proof. reflexivity. Qed.
Lemma encode_items_app a b : encode_items (a ++ b) = encode_items a ++ encode_items b.
Proof. unfold encode_items. apply flat_map_app. Qed.
Lemma length_items_le l : Z.of_nat (length l) <= PoolModel.len (encode_items l).
Proof.
  induction l as [|i l IH]; [unfold PoolModel.len; cbn; lia|]. rewrite encode_items_cons, len_app. pose proof (len_encode_item_pos i). cbn [length]. lia.
Qed.

(* ---------------------------------------------------------------- _do_next over a sequence of chunks *)
Definition st_at (pos : Z) (ns : list (Z * Z)) (res : list Z) : pstate := {| s_pos := pos; s_ns := ns; s_res := res |}.

Lemma len_node_chunk ty l c body : PoolModel.len (node_chunk ty l c body) = 16 + PoolModel.len body.
Proof. unfold node_chunk. rewrite !len_app, len_header, !len_b32. lia. Qed.
Lemma len_b32s ids : PoolModel.len (flat_map b32 ids) = 4 * Z.of_nat (length ids).
Proof. unfold PoolModel.len. rewrite length_b32s. lia. Qed.

Theorem do_next_items : forall items pre rest ns res fuel fs,
  Forall wf_item items -> (length items < fuel)%nat -> fs = PoolModel.len pre + PoolModel.len (encode_items items) ->
  do_next fuel (pre ++ encode_items items ++ rest) fs (st_at (PoolModel.len pre) ns res) =
  match next_event items ns res with
  | Some (e, rem, ns', res') => Ok (Some e, st_at (fs - PoolModel.len (encode_items rem)) ns' res')
  | None => Ok (None, st_at fs (fst (final items ns res)) (snd (final items ns res)))
  end.
Proof.
  induction items as [|i r IH]; intros pre rest ns res fuel fs Hw Hf Efs.
  - destruct fuel as [|f]; [cbn [length] in Hf; lia|]. cbn [next_event final fst snd do_next st_at s_pos].
    change (encode_items []) with (@nil Z) in Efs. change (PoolModel.len []) with 0 in Efs. rewrite Z.add_0_r in Efs. subst fs.
    rewrite Z.eqb_refl. reflexivity.
  - destruct fuel as [|f]; [cbn [length] in Hf; lia|]. cbn [length] in Hf. apply Forall_cons_iff in Hw; destruct Hw as [Wi Wr].
    rewrite encode_items_cons in *. rewrite len_app in Efs. pose proof (len_encode_item_pos i) as Li. pose proof (len_nonneg (encode_items r)) as Lr.
    assert (Hfs : PoolModel.len pre <> fs) by lia.
    assert (Hpos : s_pos (st_at (PoolModel.len pre) ns res) = PoolModel.len pre) by reflexivity.
    rewrite <- app_assoc.
    (* after a chunk that yields no event: the induction hypothesis at the next chunk *)
    assert (Next : forall ns' res', PoolModel.len pre + PoolModel.len (encode_item i) = PoolModel.len (pre ++ encode_item i) ->
              do_next f (pre ++ encode_item i ++ encode_items r ++ rest) fs (st_at (PoolModel.len (pre ++ encode_item i)) ns' res') =
              match next_event r ns' res' with
              | Some (e, rem, ns'', res'') => Ok (Some e, st_at (fs - PoolModel.len (encode_items rem)) ns'' res'')
              | None => Ok (None, st_at fs (fst (final r ns' res')) (snd (final r ns' res')))
              end).
    { intros ns' res' E. rewrite (app_assoc pre). apply IH; [exact Wr | lia | rewrite len_app; lia]. }
    assert (Ei : PoolModel.len pre + PoolModel.len (encode_item i) = PoolModel.len (pre ++ encode_item i)) by (rewrite len_app; lia).
    destruct i as [l c p u|l c p u|l c n nm attrs|l c n nm|l c nm x y|ids]; cbn [encode_item next_event final] in *.
    + destruct Wi as (W1 & W2 & W3 & W4).
      rewrite (start_namespace_chunk pre (encode_items r ++ rest) fs _ f Hpos Hfs l c p u W1 W2 W3 W4). cbn [st_at s_ns s_res].
      rewrite <- (Next (ns ++ [(p, u)]) res Ei). unfold st_at. do 2 f_equal. rewrite <- Ei, len_node_chunk. reflexivity.
    + destruct Wi as (W1 & W2 & W3 & W4).
      rewrite (end_namespace_chunk pre (encode_items r ++ rest) fs _ f Hpos Hfs l c p u W1 W2 W3 W4). cbn [st_at s_ns s_res].
      rewrite <- (Next (remove_first (p, u) ns) res Ei). unfold st_at. do 2 f_equal. rewrite <- Ei, len_node_chunk. reflexivity.
    + destruct Wi as (W1 & W2 & W3 & W4 & W5 & W6 & W7). unfold start_body in *.
      rewrite (start_element_chunk pre (encode_items r ++ rest) fs _ f Hpos Hfs l c n nm attrs W1 W2 W3 W4 W5 W6 W7). cbn [st_at s_ns s_res].
      unfold st_at. do 3 f_equal. rewrite len_node_chunk in Efs. lia.
    + destruct Wi as (W1 & W2 & W3 & W4).
      rewrite (end_element_chunk pre (encode_items r ++ rest) fs _ f Hpos Hfs l c n nm W1 W2 W3 W4). cbn [st_at s_ns s_res].
      unfold st_at. do 3 f_equal. rewrite len_node_chunk in Efs. change (PoolModel.len (b32 n ++ b32 nm)) with 8 in Efs. lia.
    + destruct Wi as (W1 & W2 & W3 & W4 & W5).
      rewrite (text_chunk pre (encode_items r ++ rest) fs _ f Hpos Hfs l c nm x y W1 W2 W3 W4 W5). cbn [st_at s_ns s_res].
      unfold st_at. do 3 f_equal. rewrite len_node_chunk in Efs. change (PoolModel.len (b32 nm ++ b32 x ++ b32 y)) with 12 in Efs. lia.
    + destruct Wi as (W1 & W2).
      rewrite (resource_map_chunk pre (encode_items r ++ rest) fs _ f Hpos Hfs ids W1 W2). cbn [st_at s_ns s_res].
      rewrite <- (Next ns (res ++ ids) Ei). unfold st_at. do 2 f_equal. rewrite <- Ei, len_app, len_header, len_b32s. lia.
Qed.

Lemma next_event_spec : forall items ns res,
  match next_event items ns res with
  | Some (e, rem, ns', res') => events items ns res = (e, res') :: events rem ns' res' /\ exists done, items = done ++ rem
  | None => events items ns res = []
  end.
Proof.
  induction items as [|i r IH]; intros ns res; [reflexivity|].
  destruct i as [l c p u|l c p u|l c n nm attrs|l c n nm|l c nm x y|ids]; cbn [next_event events].
  - specialize (IH (ns ++ [(p, u)]) res). destruct (next_event r (ns ++ [(p, u)]) res) as [[[[e rem] ns'] res']|]; [|exact IH].
    destruct IH as (E & dn & Ed). split; [exact E|]. exists (INsStart l c p u :: dn). now rewrite Ed.
  - specialize (IH (remove_first (p, u) ns) res). destruct (next_event r (remove_first (p, u) ns) res) as [[[[e rem] ns'] res']|]; [|exact IH].
    destruct IH as (E & dn & Ed). split; [exact E|]. exists (INsEnd l c p u :: dn). now rewrite Ed.
  - split; [reflexivity|]. now exists [IStart l c n nm attrs].
  - split; [reflexivity|]. now exists [IEnd l c n nm].
  - split; [reflexivity|]. now exists [IText l c nm x y].
  - specialize (IH ns (res ++ ids)). destruct (next_event r ns (res ++ ids)) as [[[[e rem] ns'] res']|]; [|exact IH].
    destruct IH as (E & dn & Ed). split; [exact E|]. exists (IResMap ids :: dn). now rewrite Ed.
Qed.

(* ---------------------------------------------------------------- the loop of AXMLPrinter.__init__ *)
Section Doc.
Variables (p : pool) (sysattr : list (Z * str)).
Fixpoint fold_on (evs : list (event * list Z)) (t : tstate) : result tstate :=
  match evs with [] => Ok t | (e, res) :: r => do t' <- on_event p sysattr res e t; fold_on r t' end.

Lemma length_len (l : list Z) : Z.of_nat (length l) = PoolModel.len l.  Proof. reflexivity. Qed.

(* the loop over a document body: the fold of on_event over the events the chunks stand for *)
Theorem run_doc_items : forall fuel items pre rest ns res t fs,
  Forall wf_item items -> fs = PoolModel.len pre + PoolModel.len (encode_items items) -> (length (events items ns res) < fuel)%nat ->
  run_doc fuel p sysattr (pre ++ encode_items items ++ rest) fs (st_at (PoolModel.len pre) ns res) t = fold_on (events items ns res) t.
Proof.
  induction fuel as [|f IH]; intros items pre rest ns res t fs Hw Efs Hf; [lia|].
  cbn [run_doc]. rewrite (do_next_items items pre rest ns res _ fs Hw); [| |exact Efs].
  2:{ pose proof (length_items_le items). rewrite !app_length. pose proof (length_len (encode_items items)). lia. }
  pose proof (next_event_spec items ns res) as Sp. destruct (next_event items ns res) as [[[[e rem] ns'] res']|].
  - destruct Sp as (Ev & dn & Ed). rewrite Ev in *. cbn [bind st_at s_res fold_on]. destruct (on_event p sysattr res' e t) as [t'|err]; cbn [bind]; [|reflexivity].
    subst items. rewrite encode_items_app in *. apply Forall_app in Hw as [_ Wr]. rewrite len_app in Efs.
    replace (fs - PoolModel.len (encode_items rem)) with (PoolModel.len (pre ++ encode_items dn)) by (rewrite len_app; lia).
    rewrite <- (app_assoc (encode_items dn)). rewrite (app_assoc pre). apply IH; [exact Wr | rewrite len_app; lia | cbn [length] in Hf; lia].
  - rewrite Sp. reflexivity.
Qed.

(* when the strings of an event resolve (to something other than "skip"), the move of the loop is the move of the stack machine *)
Lemma on_event_resolved res e te t : resolve p sysattr res e false = Ok te -> te <> TSkip -> on_event p sysattr res e t = tree_step te t.
Proof.
  intros R Hs. unfold on_event. destruct t as [stack root]. cbn [fst]. destruct stack as [|g stk]; [|rewrite R; reflexivity].
  destruct e as [ns name attrs comment nss|ns name|name].
  - change (resolve p sysattr res (EStart ns name attrs comment nss) true) with (resolve p sysattr res (EStart ns name attrs comment nss) false). rewrite R. reflexivity.
  - cbn [resolve bind] in *. destruct (if name =? NONE then Ok [] else gs p name) as [nm|err]; cbn [bind] in R; [|discriminate].
    destruct nm; injection R as <-; [congruence | reflexivity].
  - cbn [resolve bind] in *. destruct (if name =? NONE then Ok [] else gs p name) as [s|err]; cbn [bind] in R; [|discriminate].
    injection R as <-. reflexivity.
Qed.
Lemma fold_on_resolved : forall evs tes t,
  Forall2 (fun er te => resolve p sysattr (snd er) (fst er) false = Ok te /\ te <> TSkip) evs tes -> fold_on evs t = run_events tes t.
Proof.
  intros evs tes t H. revert t. induction H as [|[e res] te evs tes [R Hs] _ IH]; intros t; [reflexivity|].
  cbn [fold_on run_events fst snd] in *. rewrite (on_event_resolved res e te t R Hs). destruct (tree_step te t); cbn [bind]; [apply IH | reflexivity].
Qed.
End Doc.

Lemma flatten_no_skip x : Forall (fun te => te <> TSkip) (flatten x).
Proof.
  pattern x. apply xml_ind'. clear x. intros tag nsmap attrs text kids tl IH. cbn [flatten].
  constructor; [discriminate|]. constructor; [discriminate|]. apply Forall_app. split; [|constructor; [discriminate | constructor]].
  induction kids as [|k kids IHk]; [constructor|]. apply Forall_cons_iff in IH as [Hk Hr]. cbn [flat_map]. apply Forall_app. split; [|exact (IHk Hr)].
  apply Forall_app. split; [exact Hk | constructor; [discriminate | constructor]].
Qed.

(* ---------------------------------------------------------------- the bytes of a whole document *)
Definition doc_bytes (utf8_flag : bool) (ss : list str) (padding : list Z) (items : list item) : list Z :=
  let body := chunk_header 1 28 (pool_size utf8_flag ss padding) ++ pool_bytes utf8_flag ss padding ++ encode_items items in
  chunk_header 3 8 (8 + PoolModel.len body) ++ body.

Lemma arsc_header_at_exp pre ty hs sz rest ex : 0 <= ty < 65536 -> 8 <= hs < 65536 -> hs <= sz < 4294967296 -> ex = 0 \/ ex = ty ->
  arsc_header (pre ++ chunk_header ty hs sz ++ rest) (PoolModel.len pre) ex = Ok [ty; hs; sz; PoolModel.len pre; PoolModel.len pre + 8].
Proof.
  intros Ht Hh Hs Hex. unfold arsc_header. rewrite tlen_eq, !len_app, len_header. pose proof (len_nonneg pre). pose proof (len_nonneg rest).
  replace (PoolModel.len pre + (8 + PoolModel.len rest) <? PoolModel.len pre + 8) with false by lia.
  unfold arsc_fuel. cbn [arsc_loop]. rewrite tdropz_app. unfold chunk_header, b16, b32. cbn [app hdr].
  replace (ty mod 256 + 256 * (ty / 256)) with ty by lia. replace (hs mod 256 + 256 * (hs / 256)) with hs by lia.
  replace (sz mod 256 + 256 * ((sz / 256) mod 256) + 65536 * ((sz / 65536) mod 256) + 16777216 * (sz / 16777216)) with sz by lia.
  replace (sz <? 8) with false by lia. cbn [andb]. replace ((8 <=? hs) && (hs <=? sz)) with true by lia. cbn [orb bind].
  replace (negb (ex =? 0) && negb (ty =? ex)) with false by lia. replace (hs <? 8) with false by lia. replace (sz <? 8) with false by lia. replace (sz <? hs) with false by lia. reflexivity.
Qed.
Lemma len_pool_bytes utf8_flag ss padding : PoolModel.len (pool_bytes utf8_flag ss padding) = pool_size utf8_flag ss padding - 8.
Proof.
  unfold pool_bytes, pool_size. cbv zeta. rewrite !len_app, !len_b32, len_b32s, offsets_from_length, map_length. lia.
Qed.
Lemma length_events : forall items ns res, (length (events items ns res) <= length items)%nat.
Proof.
  induction items as [|i r IH]; intros ns res; [cbn; lia|].
  destruct i as [l c p u|l c p u|l c n nm attrs|l c n nm|l c nm x y|ids]; cbn [events length];
    match goal with |- context [events r ?a ?b] => specialize (IH a b) end; lia.
Qed.

Lemma forall2_and {A B} (R : A -> B -> Prop) (Q : B -> Prop) l1 l2 : Forall2 R l1 l2 -> Forall Q l2 -> Forall2 (fun a b => R a b /\ Q b) l1 l2.
Proof. induction 1 as [|a b l1 l2 Hab _ IH]; intros Hq; [constructor|]. apply Forall_cons_iff in Hq as [Q1 Q2]. constructor; [split; assumption | exact (IH Q2)]. Qed.

(* the complete parser on the bytes of a document: header, string pool (either encoding, any strings), any sequence of
   well-formed chunks whose events - strings resolved through that pool, the namespace list and the resource map as
   they are at that chunk - are the document-order events of the tree x: the parser returns exactly x *)
Theorem document_is_parsed (utf8_flag : bool) ss padding items sysattr x :
  Forall wf_item items ->
  28 + 4 * Z.of_nat (length ss) + PoolModel.len (concat (map (if utf8_flag return (str -> list Z) then entry8 else entry16) ss)) < 4294967296 ->
  PoolModel.len (doc_bytes utf8_flag ss padding items) < 4294967296 ->
  tail_of x = [] ->
  Forall2 (fun er te => resolve (pool_of utf8_flag ss padding) sysattr (snd er) (fst er) false = Ok te) (events items [] []) (flatten x) ->
  parse_axml sysattr (doc_bytes utf8_flag ss padding items) = Ok (Some x).
Proof.
  intros Hw Hp Hl Hx Hr. unfold parse_axml. unfold doc_bytes in *.
  set (P := pool_size utf8_flag ss padding) in *. set (pb := pool_bytes utf8_flag ss padding) in *. set (E := encode_items items) in *.
  assert (LP : PoolModel.len pb = P - 8) by apply len_pool_bytes.
  assert (P28 : 28 <= P). { unfold P, pool_size. match goal with |- context [PoolModel.len ?z] => pose proof (len_nonneg z) end. lia. }
  pose proof (len_nonneg E) as LE.
  set (body := chunk_header 1 28 P ++ pb ++ E) in *.
  assert (LB : PoolModel.len body = P + PoolModel.len E). { unfold body. rewrite !len_app, len_header. lia. }
  set (T := 8 + PoolModel.len body) in *.
  assert (LT : PoolModel.len (chunk_header 3 8 T ++ body) = T). { rewrite len_app, len_header. reflexivity. }
  rewrite LT in *. replace (T <? 8) with false by lia.
  pose proof (arsc_header_at_exp [] 3 8 T body 0) as H1. change (PoolModel.len []) with 0 in H1. cbn [app] in H1.
  rewrite H1 by lia. cbn [bind]. change (negb (8 =? 8)) with false. cbv iota. replace (T <? T) with false by lia.
  pose proof (arsc_header_at_exp (chunk_header 3 8 T) 1 28 P (pb ++ E) 1) as H2. rewrite len_header in H2. change (0 + 8) with 8.
  unfold body. rewrite H2 by lia. cbn [bind]. change (negb (28 =? 28)) with false. cbv iota. change (8 + 8) with 16.
  replace (PoolModel.dropz 16 (chunk_header 3 8 T ++ chunk_header 1 28 P ++ pb ++ E)) with (pb ++ E).
  2:{ symmetry. rewrite (app_assoc (chunk_header 3 8 T)). apply (dropz_app (chunk_header 3 8 T ++ chunk_header 1 28 P)). }
  unfold pb, P. rewrite parse_pool_exact by exact Hp. cbn [bind]. fold pb. fold P.
  (* the loop *)
  pose proof (run_doc_items (pool_of utf8_flag ss padding) sysattr (S (length (chunk_header 3 8 T ++ chunk_header 1 28 P ++ pb ++ E)))
                items (chunk_header 3 8 T ++ chunk_header 1 28 P ++ pb) [] [] [] ([], None) T Hw) as RD.
  rewrite !len_app, !len_header, LP in RD. fold E in RD. rewrite app_nil_r in RD. rewrite <- !app_assoc in RD.
  unfold st_at in RD. replace (8 + (8 + (P - 8))) with (8 + P) in RD by lia.
  rewrite RD; [|unfold T; lia|].
  2:{ pose proof (length_events items [] []). pose proof (length_items_le items). fold E in H0. rewrite !app_length. pose proof (length_len E). lia. }
  rewrite (fold_on_resolved _ _ _ (flatten x)).
  - rewrite tree_is_rebuilt by exact Hx. reflexivity.
  - apply forall2_and; [exact Hr | apply flatten_no_skip].
Qed.

(* two of the three kinds of events resolve through the pool alone *)
Lemma resolve_text utf8_flag ss padding sysattr res name s : Forall (fits utf8_flag) ss -> PoolModel.nthz ss name = Some s -> name <> NONE ->
  resolve (pool_of utf8_flag ss padding) sysattr res (EText name) false = Ok (TText s).
Proof.
  intros Hf Hn Hne. cbn [resolve]. replace (name =? NONE) with false by lia. unfold gs. rewrite (pool_strings_exact utf8_flag ss padding name s Hf Hn). reflexivity.
Qed.
Lemma resolve_end utf8_flag ss padding sysattr res ns name c s : Forall (fits utf8_flag) ss -> PoolModel.nthz ss name = Some (c :: s) -> name <> NONE ->
  resolve (pool_of utf8_flag ss padding) sysattr res (EEnd ns name) false = Ok TEnd.
Proof.
  intros Hf Hn Hne. cbn [resolve]. replace (name =? NONE) with false by lia. unfold gs. rewrite (pool_strings_exact utf8_flag ss padding name (c :: s) Hf Hn). reflexivity.
Qed.

(* a concrete document meets the hypotheses: <a>foo</a>, UTF-16 pool ["a"; "foo"] *)
Definition ex_items : list item := [IStart 1 NONE NONE 0 []; IText 1 NONE 1 0 0; IEnd 1 NONE NONE 0].
Definition ex_tree : xml := El [97] [] [] [102; 111; 111] [] [].
Example document_example :
  Forall wf_item ex_items /\
  Forall2 (fun er te => resolve (pool_of false [[97]; [102; 111; 111]] []) [] (snd er) (fst er) false = Ok te) (events ex_items [] []) (flatten ex_tree) /\
  parse_axml [] (doc_bytes false [[97]; [102; 111; 111]] [] ex_items) = Ok (Some ex_tree).
Proof.
  assert (W : Forall wf_item ex_items).
  { unfold ex_items, NONE. repeat constructor; unfold fits32; cbn; lia. }
  assert (R : Forall2 (fun er te => resolve (pool_of false [[97]; [102; 111; 111]] []) [] (snd er) (fst er) false = Ok te) (events ex_items [] []) (flatten ex_tree)).
  { cbn [events ex_items flatten ex_tree flat_map app]. repeat constructor; vm_compute; reflexivity. }
  split; [exact W|]. split; [exact R|]. apply document_is_parsed; [exact W | vm_compute; reflexivity | vm_compute; reflexivity | reflexivity | exact R].
Qed.

(* ---------------------------------------------------------------- a class of documents, end to end *)
(* element trees without attributes and namespaces, every string an index into the pool (NONE for "no string"):
   name, text, tail, children *)
Inductive ptree := PNode (name text tail : Z) (kids : list ptree).
Definition ptail (t : ptree) : Z := match t with PNode _ _ tl _ => tl end.
Fixpoint items_of (t : ptree) : list item :=
  match t with
  | PNode n tx _ kids =>
      IStart 0 NONE NONE n [] :: IText 0 NONE tx 0 0 :: flat_map (fun k => items_of k ++ [IText 0 NONE (ptail k) 0 0]) kids ++ [IEnd 0 NONE NONE n]
  end.
Section Plain.
Variable ss : list str.
Definition str_at (i : Z) : str := match PoolModel.nthz ss i with Some s => s | None => [] end.
Fixpoint tree_of (t : ptree) : xml :=
  match t with PNode n tx tl kids => El (str_at n) [] [] (str_at tx) (map tree_of kids) (str_at tl) end.
(* a name the printer leaves as it is: ASCII letters, digits, '.', '_', '-', starting with a letter or '_' *)
Definition plain_name (s : str) : Prop :=
  match s with [] => False | c :: _ => (is_alpha c || (c =? 95)) = true /\ forallb name_char s = true /\ ascii s = true end.
Definition text_index (i : Z) : Prop := i = NONE \/ (0 <= i < Z.of_nat (length ss)).
Fixpoint wf_ptree (t : ptree) : Prop :=
  match t with
  | PNode n tx tl kids =>
      0 <= n < Z.of_nat (length ss) /\ plain_name (str_at n) /\ text_index tx /\ text_index tl /\
      (fix all (l : list ptree) : Prop := match l with [] => True | k :: r => wf_ptree k /\ all r end) kids
  end.

Fixpoint ptree_ind' (P : ptree -> Prop) (H : forall n tx tl kids, Forall P kids -> P (PNode n tx tl kids)) (t : ptree) : P t :=
  match t with
  | PNode n tx tl kids =>
      H n tx tl kids ((fix go (l : list ptree) : Forall P l := match l with [] => Forall_nil P | k :: r => Forall_cons k (ptree_ind' P H k) (go r) end) kids)
  end.
End Plain.

Lemma split_colon_none s : forallb name_char s = true -> split_colon s = None.
Proof.
  induction s as [|c r IH]; [reflexivity|]. cbn [forallb split_colon]. intros H. apply andb_true_iff in H as [Hc Hr].
  destruct (c =? 58) eqn:E; [apply Z.eqb_eq in E; subst c; discriminate Hc|]. now rewrite (IH Hr).
Qed.
Lemma map_name_char_id s : forallb name_char s = true -> map (fun c => if name_char c then c else 95) s = s.
Proof. induction s as [|c r IH]; [reflexivity|]. cbn [forallb map]. intros H. apply andb_true_iff in H as [Hc Hr]. now rewrite Hc, (IH Hr). Qed.
Lemma fix_name_plain s : plain_name s -> fix_name [] [] s = Ok ([], s).
Proof.
  destruct s as [|c r]; [contradiction|]. intros (H1 & H2 & H3). unfold fix_name. rewrite H3. cbn [negb].
  replace (negb (is_alpha c) && negb (c =? 95)) with false by (destruct (is_alpha c), (c =? 95); cbn in *; congruence).
  cbn [assoc_str]. rewrite (split_colon_none _ H2). now rewrite (map_name_char_id _ H2).
Qed.

Definition ev_only (l : list item) : Prop := Forall (fun i => match i with IStart _ _ _ _ _ | IEnd _ _ _ _ | IText _ _ _ _ _ => True | _ => False end) l.
Lemma events_app_ev a b ns res : ev_only a -> events (a ++ b) ns res = events a ns res ++ events b ns res.
Proof.
  induction a as [|i a IH]; intros H; [reflexivity|]. apply Forall_cons_iff in H as [Hi Ha].
  destruct i; try contradiction; cbn [app events]; now rewrite (IH Ha).
Qed.
Lemma ev_only_items_of t : ev_only (items_of t).
Proof.
  pattern t. apply ptree_ind'. clear t. intros n tx tl kids IH. cbn [items_of]. constructor; [exact I|]. constructor; [exact I|].
  apply Forall_app. split; [|repeat constructor]. induction kids as [|k kids IHk]; [constructor|]. apply Forall_cons_iff in IH as [Hk Hr].
  cbn [flat_map]. apply Forall_app. split; [|exact (IHk Hr)]. apply Forall_app. split; [exact Hk | repeat constructor].
Qed.

Section PlainProofs.
Variables (utf8_flag : bool) (ss : list str) (padding : list Z) (sysattr : list (Z * str)).
Hypothesis Hfits : Forall (fits utf8_flag) ss.
Hypothesis Hcount : Z.of_nat (length ss) < NONE.
Let p := pool_of utf8_flag ss padding.

Lemma gs_at i : 0 <= i < Z.of_nat (length ss) -> gs p i = Ok (str_at ss i).
Proof.
  intros Hi. unfold gs, str_at. destruct (PoolModel.nthz ss i) as [s|] eqn:E.
  - exact (pool_strings_exact utf8_flag ss padding i s Hfits E).
  - unfold PoolModel.nthz in E. replace ((i <? 0) || (Z.of_nat (length ss) <=? i)) with false in E by lia.
    apply nth_error_None in E. lia.
Qed.
Lemma str_at_none : str_at ss NONE = [].
Proof. unfold str_at, PoolModel.nthz. replace ((NONE <? 0) || (Z.of_nat (length ss) <=? NONE)) with true by (unfold NONE in *; lia). reflexivity. Qed.
Lemma resolve_text_index res i : text_index ss i -> resolve p sysattr res (EText i) false = Ok (TText (str_at ss i)).
Proof.
  intros [->|Hi]; cbn [resolve].
  - rewrite Z.eqb_refl, str_at_none. reflexivity.
  - replace (i =? NONE) with false by (unfold NONE in *; lia). rewrite (gs_at i Hi). reflexivity.
Qed.
Lemma resolve_end_plain res ns n : 0 <= n < Z.of_nat (length ss) -> plain_name (str_at ss n) -> resolve p sysattr res (EEnd ns n) false = Ok TEnd.
Proof.
  intros Hn Hp. cbn [resolve]. replace (n =? NONE) with false by (unfold NONE in *; lia). rewrite (gs_at n Hn). cbn [bind].
  destruct (str_at ss n); [contradiction | reflexivity].
Qed.
Lemma resolve_start_plain res n : 0 <= n < Z.of_nat (length ss) -> plain_name (str_at ss n) ->
  resolve p sysattr res (EStart NONE n [] NONE []) false = Ok (TStart (str_at ss n) [] []).
Proof.
  intros Hn Hp. cbn [resolve]. replace (n =? NONE) with false by (unfold NONE in *; lia). rewrite (gs_at n Hn). cbn [bind].
  destruct (str_at ss n) as [|c r] eqn:E; [contradiction|]. rewrite Z.eqb_refl. cbn [negb bind build_nsmap print_ns build_attrs].
  rewrite (fix_name_plain (c :: r) Hp). reflexivity.
Qed.

Lemma tail_of_tree_of t : tail_of (tree_of ss t) = str_at ss (ptail t).
Proof. destruct t. reflexivity. Qed.
Lemma fits32_index i : text_index ss i -> fits32 i.
Proof. unfold text_index, fits32, NONE in *. lia. Qed.

Lemma plain_resolved : forall t res, wf_ptree ss t ->
  Forall2 (fun er te => resolve p sysattr (snd er) (fst er) false = Ok te) (events (items_of t) [] res) (flatten (tree_of ss t)).
Proof.
  intros t. pattern t. apply ptree_ind'. clear t. intros n tx tl kids IH res Hw. cbn [wf_ptree] in Hw. destruct Hw as (Hn & Hp & Htx & Htl & Hk).
  cbn [items_of events tree_of flatten].
  constructor; [exact (resolve_start_plain res n Hn Hp)|]. constructor; [exact (resolve_text_index res tx Htx)|].
  induction kids as [|k kids IHk].
  - cbn [flat_map map app events]. constructor; [exact (resolve_end_plain res NONE n Hn Hp) | constructor].
  - apply Forall_cons_iff in IH as [Pk Pr]. destruct Hk as [Wk Wr]. cbn [flat_map map]. rewrite <- !app_assoc.
    rewrite (events_app_ev _ _ _ _ (ev_only_items_of k)). apply Forall2_app; [exact (Pk res Wk)|].
    cbn [app events]. constructor; [|exact (IHk Pr Wr)].
    cbn [fst snd]. rewrite tail_of_tree_of. destruct k as [kn ktx ktl kk]. cbn [wf_ptree ptail] in *. apply resolve_text_index. tauto.
Qed.

Lemma wf_items_of : forall t, wf_ptree ss t -> Forall wf_item (items_of t).
Proof.
  intros t. pattern t. apply ptree_ind'. clear t. intros n tx tl kids IH Hw. cbn [wf_ptree] in Hw. destruct Hw as (Hn & Hp & Htx & Htl & Hk).
  assert (F0 : fits32 0) by (unfold fits32; lia). assert (FN : fits32 NONE) by (unfold fits32, NONE; lia).
  assert (Fn : fits32 n) by (unfold fits32, NONE in *; lia).
  cbn [items_of]. constructor.
  { cbn [wf_item]. split; [exact F0|]. split; [exact FN|]. split; [exact FN|]. split; [exact Fn|]. split; [constructor|]. split; [cbn; lia|].
    change (PoolModel.len (start_body NONE n [])) with 20. lia. }
  constructor. { cbn [wf_item]. pose proof (fits32_index tx Htx). tauto. }
  apply Forall_app. split; [|constructor; [cbn [wf_item]; tauto | constructor]].
  induction kids as [|k kids IHk]; [constructor|]. apply Forall_cons_iff in IH as [Pk Pr]. destruct Hk as [Wk Wr]. cbn [flat_map].
  apply Forall_app. split; [|exact (IHk Pr Wr)]. apply Forall_app. split; [exact (Pk Wk)|]. constructor; [|constructor].
  cbn [wf_item]. destruct k as [kn ktx ktl kk]. cbn [wf_ptree ptail] in *. assert (fits32 ktl) by (apply fits32_index; tauto). tauto.
Qed.

(* every such tree - any shape, any depth, any texts and tails, either pool encoding - is what the parser returns for the
   bytes of its document *)
Theorem plain_document_round_trip t : wf_ptree ss t -> ptail t = NONE ->
  28 + 4 * Z.of_nat (length ss) + PoolModel.len (concat (map (if utf8_flag then entry8 else entry16) ss)) < 4294967296 ->
  PoolModel.len (doc_bytes utf8_flag ss padding (items_of t)) < 4294967296 ->
  parse_axml sysattr (doc_bytes utf8_flag ss padding (items_of t)) = Ok (Some (tree_of ss t)).
Proof.
  intros Hw Ht Hp Hl. apply (document_is_parsed utf8_flag ss padding (items_of t) sysattr (tree_of ss t) (wf_items_of t Hw) Hp Hl).
  - rewrite tail_of_tree_of, Ht. apply str_at_none.
  - exact (plain_resolved t [] Hw).
Qed.
End PlainProofs.

(* <a>foo<b/>bar</a> with the pool ["a"; "b"; "foo"; "bar"], UTF-8 *)
Definition ex_ss : list str := [[97]; [98]; [102; 111; 111]; [98; 97; 114]].
Definition ex_ptree : ptree := PNode 0 2 NONE [PNode 1 NONE 3 []].
Example plain_example :
  wf_ptree ex_ss ex_ptree /\ Forall (fits true) ex_ss /\
  tree_of ex_ss ex_ptree = El [97] [] [] [102; 111; 111] [El [98] [] [] [] [] [98; 97; 114]] [] /\
  parse_axml [] (doc_bytes true ex_ss [0; 0] (items_of ex_ptree)) = Ok (Some (tree_of ex_ss ex_ptree)).
Proof.
  assert (W : wf_ptree ex_ss ex_ptree).
  { cbn [wf_ptree ex_ptree ex_ss length]. unfold text_index, NONE, plain_name, str_at. cbn.
    repeat split; try lia; try reflexivity; try (right; lia); try (left; reflexivity); try discriminate. }
  assert (F : Forall (fits true) ex_ss).
  { unfold ex_ss. repeat constructor; unfold valid_cp; try lia; vm_compute; reflexivity. }
  split; [exact W|]. split; [exact F|]. split; [reflexivity|].
  apply plain_document_round_trip; [exact F | vm_compute; reflexivity | exact W | reflexivity | vm_compute; reflexivity | vm_compute; reflexivity].
Qed.
