(* C28 - proofs about coq/Axml/ArscTypeModel.v: the three encodings of the entry-offset array and the entry records *)
From Coq Require Import ZArith List Bool Lia ZifyBool.
Require Import V.Lib.Val V.Lib.Result V.Lib.Struct V.Axml.PoolModel V.Axml.ArscTypeModel.
Import ListNotations.
Open Scope Z_scope.
Ltac Zify.zify_post_hook ::= Z.to_euclidean_division_equations.

Definition b16 (n : Z) : list Z := lbytes 2 n.
Definition b32 (n : Z) : list Z := lbytes 4 n.
Lemma u16_b16 n r : 0 <= n < 65536 -> u16 (b16 n ++ r) = Ok (n, r).
Proof. intros H. unfold b16. cbn [lbytes app u16]. f_equal. f_equal. lia. Qed.
Lemma u32_b32 n r : 0 <= n < 4294967296 -> u32 (b32 n ++ r) = Ok (n, r).
Proof. intros H. unfold b32. cbn [lbytes app u32]. f_equal. f_equal. lia. Qed.
Lemma u8_byte n r : u8 (n :: r) = Ok (n, r).
Proof. reflexivity. Qed.

(* what the table says: for the indices i, i+1, ... the offset of the entry, or None when the configuration has no such entry *)
Fixpoint present (base i : Z) (slots : list (option Z)) : list (Z * Z) :=
  match slots with
  | [] => []
  | Some off :: r => (off, base + i) :: present base (i + 1) r
  | None :: r => present base (i + 1) r
  end.
Definition ok32 (o : option Z) : Prop := match o with Some x => 0 <= x < 4294967295 | None => True end.
Definition ok16 (o : option Z) : Prop := match o with Some x => 0 <= x < 4 * 65535 /\ x mod 4 = 0 | None => True end.
Definition enc32 (o : option Z) : list Z := b32 (match o with Some x => x | None => 4294967295 end).
Definition enc16 (o : option Z) : list Z := b16 (match o with Some x => x / 4 | None => 65535 end).

Theorem dense_offsets_exact : forall slots fuel i base rest, Forall ok32 slots -> (length slots <= fuel)%nat ->
  read_offsets fuel 0 i (i + Z.of_nat (length slots)) base (flat_map enc32 slots ++ rest) = Ok (present base i slots).
Proof.
  induction slots as [|o slots IH]; intros fuel i base rest Hok Hf.
  - cbn [length]. replace (i + Z.of_nat 0 <=? i) with true by lia. destruct fuel; cbn [read_offsets]; replace (i + Z.of_nat 0 <=? i) with true by lia; reflexivity.
  - inversion Hok as [|? ? Ho Hok']; subst. destruct fuel as [|f]; [cbn [length] in Hf; lia|].
    cbn [read_offsets length flat_map]. replace (i + Z.of_nat (S (length slots)) <=? i) with false by lia.
    change (Z.land 0 1 =? 0) with true. change (Z.land 0 2 =? 0) with true. cbn [negb].
    unfold enc32 at 1. rewrite <- app_assoc. rewrite u32_b32 by (destruct o; cbn in Ho; lia). cbn [bind].
    replace (i + Z.of_nat (S (length slots))) with ((i + 1) + Z.of_nat (length slots)) by lia.
    rewrite IH by (auto; cbn [length] in Hf; lia). cbn [bind]. destruct o as [x|]; cbn [present].
    + cbn in Ho. replace (x =? 4294967295) with false by lia. reflexivity.
    + reflexivity.
Qed.
Theorem offset16_offsets_exact : forall slots fuel i base rest, Forall ok16 slots -> (length slots <= fuel)%nat ->
  read_offsets fuel 2 i (i + Z.of_nat (length slots)) base (flat_map enc16 slots ++ rest) = Ok (present base i slots).
Proof.
  induction slots as [|o slots IH]; intros fuel i base rest Hok Hf.
  - cbn [length]. destruct fuel; cbn [read_offsets]; replace (i + Z.of_nat 0 <=? i) with true by lia; reflexivity.
  - inversion Hok as [|? ? Ho Hok']; subst. destruct fuel as [|f]; [cbn [length] in Hf; lia|].
    cbn [read_offsets length flat_map]. replace (i + Z.of_nat (S (length slots)) <=? i) with false by lia.
    change (Z.land 2 1 =? 0) with true. change (Z.land 2 2 =? 0) with false. cbn [negb].
    unfold enc16 at 1. rewrite <- app_assoc. rewrite u16_b16 by (destruct o; cbn in Ho; lia). cbn [bind].
    replace (i + Z.of_nat (S (length slots))) with ((i + 1) + Z.of_nat (length slots)) by lia.
    rewrite IH by (auto; cbn [length] in Hf; lia). cbn [bind]. destruct o as [x|]; cbn [present].
    + cbn in Ho. replace (x / 4 =? 65535) with false by lia. replace (x / 4 * 4) with x by lia. reflexivity.
    + reflexivity.
Qed.
(* sparse: only the existing entries are listed, each with its index *)
Definition ok_sparse (p : Z * Z) : Prop := 0 <= fst p < 65536 /\ 0 <= snd p < 4 * 65536 /\ snd p mod 4 = 0.
Definition enc_sparse (p : Z * Z) : list Z := b16 (fst p) ++ b16 (snd p / 4).
Theorem sparse_offsets_exact : forall items fuel i base rest, Forall ok_sparse items -> (length items <= fuel)%nat ->
  read_offsets fuel 1 i (i + Z.of_nat (length items)) base (flat_map enc_sparse items ++ rest) = Ok (map (fun p => (snd p, base + fst p)) items).
Proof.
  induction items as [|p items IH]; intros fuel i base rest Hok Hf.
  - cbn [length]. destruct fuel; cbn [read_offsets]; replace (i + Z.of_nat 0 <=? i) with true by lia; reflexivity.
  - inversion Hok as [|? ? (H1 & H2 & H3) Hok']; subst. destruct fuel as [|f]; [cbn [length] in Hf; lia|].
    cbn [read_offsets length flat_map map]. replace (i + Z.of_nat (S (length items)) <=? i) with false by lia.
    change (Z.land 1 1 =? 0) with false. cbn [negb].
    unfold enc_sparse at 1. rewrite <- !app_assoc. rewrite u16_b16 by lia. cbn [bind]. rewrite u16_b16 by lia. cbn [bind].
    replace (i + Z.of_nat (S (length items))) with ((i + 1) + Z.of_nat (length items)) by lia.
    rewrite IH by (auto; cbn [length] in Hf; lia). cbn [bind]. replace (snd p / 4 * 4) with (snd p) by lia. reflexivity.
Qed.

(* ---------------------------------------------------------------- entries *)
Definition value_bytes (ty data : Z) : list Z := b16 8 ++ [0; ty] ++ b32 data.
Lemma res_value_enc ty data r : 0 <= data < 4294967296 -> res_value (value_bytes ty data ++ r) = Ok ((ty, data), r).
Proof.
  intros H. unfold res_value, value_bytes. rewrite <- !app_assoc. rewrite u16_b16 by lia. cbn [bind app u8]. rewrite u32_b32 by exact H. reflexivity.
Qed.
Lemma at_app pre l : at_ (pre ++ l) (len pre) = l.
Proof.
  unfold at_, len. replace (Z.of_nat (length pre) <? 0) with false by lia.
  induction pre as [|x pre IH]; cbn [app length]; [destruct l; reflexivity|].
  cbn [dropz]. replace (Z.of_nat (S (length pre)) <=? 0) with false by lia.
  replace (Z.of_nat (S (length pre)) - 1) with (Z.of_nat (length pre)) by lia. exact IH.
Qed.
(* a plain entry: size 8, flags without COMPLEX and COMPACT, key index, Res_value *)
Theorem plain_entry_exact pre flags index ty data rest endp rid :
  0 <= flags < 65536 -> Z.land flags 1 = 0 -> Z.land flags 8 = 0 -> 0 <= index < 4294967296 -> 0 <= data < 4294967296 ->
  parse_entry (pre ++ b16 8 ++ b16 flags ++ b32 index ++ value_bytes ty data ++ rest) (len pre) endp rid =
  Ok {| e_id := rid; e_size := 8; e_flags := flags; e_index := index; e_payload := Plain ty data |}.
Proof.
  intros Hf H1 H8 Hi Hd. unfold parse_entry. rewrite at_app. rewrite u16_b16 by lia. cbn [bind]. rewrite u16_b16 by lia. cbn [bind].
  rewrite u32_b32 by lia. cbn [bind]. rewrite H1, H8. change (0 =? 0) with true. cbn [negb].
  rewrite res_value_enc by lia. reflexivity.
Qed.
(* a compact entry: the key index sits in the size field, the data type in the high byte of the flags, the data in the index field *)
Theorem compact_entry_exact pre key ty data rest endp rid :
  0 <= key < 65536 -> 0 <= ty < 256 -> 0 <= data < 4294967296 ->
  parse_entry (pre ++ b16 key ++ b16 (8 + 256 * ty) ++ b32 data ++ rest) (len pre) endp rid =
  Ok {| e_id := rid; e_size := key; e_flags := 8 + 256 * ty; e_index := data; e_payload := Compact key data ty |}.
Proof.
  intros Hk Ht Hd. unfold parse_entry. rewrite at_app. rewrite u16_b16 by lia. cbn [bind]. rewrite u16_b16 by lia. cbn [bind].
  rewrite u32_b32 by lia. cbn [bind].
  assert (E1 : Z.land (8 + 256 * ty) 1 = 0).
  { change 1 with (Z.ones 1). rewrite Z.land_ones by lia. change (2 ^ 1) with 2. lia. }
  assert (E8 : negb (Z.land (8 + 256 * ty) 8 =? 0) = true).
  { apply negb_true_iff, Z.eqb_neq. intros X. assert (T : Z.testbit (Z.land (8 + 256 * ty) 8) 3 = true).
    { rewrite Z.land_spec. change (Z.testbit 8 3) with true. rewrite andb_true_r. rewrite Z.testbit_odd, Z.shiftr_div_pow2 by lia.
      change (2 ^ 3) with 8. replace ((8 + 256 * ty) / 8) with (1 + 2 * (16 * ty)) by lia. now rewrite Z.odd_add_mul_2. }
    rewrite X in T. discriminate. }
  assert (E2 : Z.land (Z.shiftr (8 + 256 * ty) 8) 255 = ty).
  { rewrite Z.shiftr_div_pow2 by lia. change (2 ^ 8) with 256. change 255 with (Z.ones 8). rewrite Z.land_ones by lia. change (2 ^ 8) with 256. lia. }
  rewrite E1. change (0 =? 0) with true. cbn [negb]. rewrite E8, E2. reflexivity.
Qed.
