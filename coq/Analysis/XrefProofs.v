(* C13 C14 C15 C16 - proofs about coq/Analysis/XrefModel.v *)
From Coq Require Import ZArith List Bool Lia Permutation.
Require Import V.Lib.Val V.Lib.Result V.Analysis.XrefModel.
Import ListNotations.
Open Scope Z_scope.

(* ---------------------------------------------------------------- generic list lemmas *)
Lemma flat_map_map_ {A B C} (f : B -> list C) (g : A -> B) l : flat_map f (map g l) = flat_map (fun x => f (g x)) l.
Proof. induction l as [|x l IH]; cbn [map flat_map]; [reflexivity | now rewrite IH]. Qed.
Lemma flat_map_ext_in_ {A B} (f g : A -> list B) l : (forall x, In x l -> f x = g x) -> flat_map f l = flat_map g l.
Proof.
  induction l as [|x l IH]; intros H; cbn [flat_map]; [reflexivity|].
  rewrite (H x (or_introl eq_refl)), IH; [reflexivity | intros y Hy; apply H; now right].
Qed.
Lemma map_flat_map_ {A B C} (f : A -> list B) (g : B -> C) l : map g (flat_map f l) = flat_map (fun x => map g (f x)) l.
Proof. induction l as [|x l IH]; cbn [map flat_map]; [reflexivity | now rewrite map_app, IH]. Qed.
Lemma flat_map_flat_map_ {A B C} (f : A -> list B) (g : B -> list C) l :
  flat_map g (flat_map f l) = flat_map (fun x => flat_map g (f x)) l.
Proof. induction l as [|x l IH]; cbn [flat_map]; [reflexivity | now rewrite flat_map_app, IH]. Qed.
Lemma flat_map_concat_ {A B} (f : A -> list B) ll : flat_map f (concat ll) = flat_map (flat_map f) ll.
Proof. induction ll as [|l ll IH]; cbn [concat flat_map]; [reflexivity | now rewrite flat_map_app, IH]. Qed.
Lemma existsb_iff_eq {A} (f g : A -> bool) l l' :
  ((exists x, In x l /\ f x = true) <-> (exists x, In x l' /\ g x = true)) -> existsb f l = existsb g l'.
Proof.
  intros H. destruct (existsb f l) eqn:E1, (existsb g l') eqn:E2; try reflexivity.
  - apply existsb_exists in E1. apply H in E1. apply existsb_exists in E1. congruence.
  - apply existsb_exists in E2. apply H in E2. apply existsb_exists in E2. congruence.
Qed.

Lemma mkey_eqb_eq a b : mkey_eqb a b = true <-> a = b.
Proof.
  destruct a as [[a1 a2] a3], b as [[b1 b2] b3]; unfold mkey_eqb. rewrite !andb_true_iff, !Z.eqb_eq.
  split; [intros [[-> ->] ->]; reflexivity | intros E; injection E as -> -> ->; auto].
Qed.
Lemma row_eqb_eq a b : row_eqb a b = true <-> a = b.
Proof.
  unfold row_eqb. revert b; induction a as [|x a IH]; intros [|y b]; cbn [list_eqb]; try (split; [discriminate|discriminate]); [tauto|].
  rewrite andb_true_iff, Z.eqb_eq, IH. split; [intros [-> ->]; reflexivity | intros E; injection E as -> ->; auto].
Qed.
Lemma not_in_by_existsb r l : existsb (row_eqb r) l = false -> ~ In r l.
Proof.
  intros E H. assert (X : existsb (row_eqb r) l = true) by (apply existsb_exists; exists r; split; [exact H | now apply row_eqb_eq]).
  congruence.
Qed.

(* ---------------------------------------------------------------- sites *)
Lemma in_sites p d k m oi :
  In (d, (k, (m, oi))) (sites p) <-> In d p /\ In k d /\ In m (c_methods k) /\ In oi (m_code m).
Proof.
  unfold sites. rewrite in_flat_map. split.
  - intros (d' & Hd & H). apply in_flat_map in H as (k' & Hk & H). apply in_flat_map in H as (m' & Hm & H).
    apply in_map_iff in H as (oi' & E & Hoi). injection E as <- <- <- <-. auto.
  - intros (Hd & Hk & Hm & Hoi). exists d; split; [exact Hd|]. apply in_flat_map; exists k; split; [exact Hk|].
    apply in_flat_map; exists m; split; [exact Hm|]. apply in_map_iff; exists oi; auto.
Qed.

Definition retag (D : xdex) (s : site) : site := (D, snd s).
Lemma sites_merged p : sites [concat p] = map (retag (concat p)) (sites p).
Proof.
  unfold sites. cbn [flat_map]. rewrite app_nil_r. generalize (concat p) at 1 3 as D. intros D.
  rewrite flat_map_concat_, map_flat_map_. apply flat_map_ext. intros d.
  rewrite map_flat_map_. apply flat_map_ext. intros k. rewrite map_flat_map_. apply flat_map_ext. intros m.
  rewrite map_map. reflexivity.
Qed.
Lemma sites_perm p p' : Permutation p p' -> Permutation (sites p) (sites p').
Proof. intros H. unfold sites. now apply Permutation_flat_map. Qed.

Lemma all_classes_merged p : all_classes [concat p] = all_classes p.
Proof. unfold all_classes. cbn [concat]. apply app_nil_r. Qed.
Lemma in_all_classes p k : In k (all_classes p) <-> exists d, In d p /\ In k d.
Proof. unfold all_classes. rewrite in_concat. split; intros (d & H1 & H2); exists d; auto. Qed.

Lemma internal_class_spec p c : internal_class p c = true <-> exists d k, In d p /\ In k d /\ c_name k = c.
Proof.
  unfold internal_class. rewrite existsb_exists. split.
  - intros (k & Hk & E). apply in_all_classes in Hk as (d & Hd & Hk). apply Z.eqb_eq in E. eauto.
  - intros (d & k & Hd & Hk & E). exists k. split; [apply in_all_classes; eauto | now apply Z.eqb_eq].
Qed.
Lemma in_internal_methods p key :
  In key (internal_methods p) <-> exists d k m, In d p /\ In k d /\ In m (c_methods k) /\ key = (c_name k, m_name m, m_desc m).
Proof.
  unfold internal_methods. rewrite in_flat_map. split.
  - intros (k & Hk & H). apply in_map_iff in H as (m & E & Hm). apply in_all_classes in Hk as (d & Hd & Hk). exists d, k, m. auto.
  - intros (d & k & m & Hd & Hk & Hm & ->). exists k. split; [apply in_all_classes; eauto|]. apply in_map_iff. eauto.
Qed.
Lemma internal_method_spec p c n ds :
  internal_method p (c, n, ds) = true <->
  exists d k m, In d p /\ In k d /\ In m (c_methods k) /\ c_name k = c /\ m_name m = n /\ m_desc m = ds.
Proof.
  unfold internal_method. rewrite existsb_exists. split.
  - intros (key & Hk & E). apply mkey_eqb_eq in E. subst key. apply in_internal_methods in Hk as (d & k & m & Hd & Hk & Hm & E).
    injection E as -> -> ->. exists d, k, m. repeat split; auto.
  - intros (d & k & m & Hd & Hk & Hm & <- & <- & <-). exists (c_name k, m_name m, m_desc m). split; [|now apply mkey_eqb_eq].
    apply in_internal_methods. exists d, k, m. auto.
Qed.
Lemma internal_class_perm p p' c : Permutation p p' -> internal_class p c = internal_class p' c.
Proof.
  intros H. destruct (internal_class p c) eqn:E1, (internal_class p' c) eqn:E2; try reflexivity.
  - apply internal_class_spec in E1 as (d & k & Hd & R). assert (X : internal_class p' c = true) by
      (apply internal_class_spec; exists d, k; split; [eapply Permutation_in; eauto | exact R]). congruence.
  - apply internal_class_spec in E2 as (d & k & Hd & R). assert (X : internal_class p c = true) by
      (apply internal_class_spec; exists d, k; split; [eapply Permutation_in; [apply Permutation_sym|]; eauto | exact R]). congruence.
Qed.
Lemma internal_method_perm p p' key : Permutation p p' -> internal_method p key = internal_method p' key.
Proof.
  intros H. destruct key as [[c n] ds]. destruct (internal_method p (c, n, ds)) eqn:E1, (internal_method p' (c, n, ds)) eqn:E2; try reflexivity.
  - apply internal_method_spec in E1 as (d & k & m & Hd & R). assert (X : internal_method p' (c, n, ds) = true) by
      (apply internal_method_spec; exists d, k, m; split; [eapply Permutation_in; eauto | exact R]). congruence.
  - apply internal_method_spec in E2 as (d & k & m & Hd & R). assert (X : internal_method p (c, n, ds) = true) by
      (apply internal_method_spec; exists d, k, m; split; [eapply Permutation_in; [apply Permutation_sym|]; eauto | exact R]). congruence.
Qed.
Lemma internal_method_merged p key : internal_method [concat p] key = internal_method p key.
Proof. unfold internal_method, internal_methods. now rewrite all_classes_merged. Qed.
Lemma internal_class_merged p c : internal_class [concat p] c = internal_class p c.
Proof. unfold internal_class. now rewrite all_classes_merged. Qed.

(* ---------------------------------------------------------------- C13: calls *)
Lemma in_calls p r :
  In r (calls p) <->
  exists d k m off op dims base name desc,
    In d p /\ In k d /\ In m (c_methods k) /\ In (off, XInvoke op dims base name desc) (m_code m) /\ 0 <= base /\
    r = [c_name k; m_name m; m_desc m; base; name; desc; off; if internal_method p (base, name, desc) then 0 else 1].
Proof.
  unfold calls. rewrite in_flat_map. split.
  - intros (s & Hs & H). destruct s as (d & k & m & off & i). apply in_sites in Hs as (Hd & Hk & Hm & Hi).
    destruct i as [op dims base name desc| | | | |]; cbn [call_rows] in H; try contradiction.
    destruct (base <? 0) eqn:E; [contradiction|]. apply Z.ltb_ge in E. destruct H as [<-|[]].
    exists d, k, m, off, op, dims, base, name, desc. auto 10.
  - intros (d & k & m & off & op & dims & base & name & desc & Hd & Hk & Hm & Hi & Hb & ->).
    exists (d, (k, (m, (off, XInvoke op dims base name desc)))). split; [apply in_sites; auto|].
    cbn [call_rows]. destruct (base <? 0) eqn:E; [apply Z.ltb_lt in E; lia|]. left; reflexivity.
Qed.

Lemma calls_mirror p a b c d e f off x :
  In [a; b; c; d; e; f; off; x] (callees_of p (a, b, c)) <-> In [a; b; c; d; e; f; off; x] (callers_of p (d, e, f)).
Proof.
  unfold callees_of, callers_of. rewrite !filter_In.
  assert (E1 : mkey_eqb (a, b, c) (a, b, c) = true) by now apply mkey_eqb_eq.
  assert (E2 : mkey_eqb (d, e, f) (d, e, f) = true) by now apply mkey_eqb_eq.
  rewrite E1, E2. tauto.
Qed.
Lemma callees_of_sound p key r : In r (callees_of p key) -> In r (calls p).
Proof. unfold callees_of. rewrite filter_In. tauto. Qed.
Lemma callers_of_sound p key r : In r (callers_of p key) -> In r (calls p).
Proof. unfold callers_of. rewrite filter_In. tauto. Qed.

Lemma in_call_edges p a b c d e f :
  In [a; b; c; d; e; f] (call_edges p) <-> exists off x, In [a; b; c; d; e; f; off; x] (calls p).
Proof.
  unfold call_edges. rewrite in_flat_map. split.
  - intros (r & Hr & H). pose proof Hr as Hr'. apply in_calls in Hr' as (d0 & k & m & off & op & dims & base & name & desc & _ & _ & _ & _ & _ & E).
    subst r. cbn in H. destruct H as [E|[]]. injection E as <- <- <- <- <- <-. eauto.
  - intros (off & x & H). exists [a; b; c; d; e; f; off; x]. split; [exact H | left; reflexivity].
Qed.
Lemma call_edges_shape p r : In r (call_edges p) -> exists a b c d e f, r = [a; b; c; d; e; f].
Proof.
  unfold call_edges. rewrite in_flat_map. intros (r0 & Hr & H).
  apply in_calls in Hr as (d0 & k & m & off & op & dims & base & name & desc & _ & _ & _ & _ & _ & E). subst r0.
  cbn in H. destruct H as [<-|[]]. eauto 10.
Qed.

(* ---------------------------------------------------------------- C15: strings and class usage *)
Lemma in_string_refs p r :
  In r (string_refs p) <->
  exists d k m off str, In d p /\ In k d /\ In m (c_methods k) /\ In (off, XConstString str) (m_code m) /\
    r = [str; c_name k; m_name m; m_desc m; off].
Proof.
  unfold string_refs. rewrite in_flat_map. split.
  - intros (s & Hs & H). destruct s as (d & k & m & off & i). apply in_sites in Hs as (Hd & Hk & Hm & Hi).
    destruct i as [| str | | | |]; cbn [string_rows] in H; try contradiction. destruct H as [<-|[]].
    exists d, k, m, off, str. auto.
  - intros (d & k & m & off & str & Hd & Hk & Hm & Hi & ->). exists (d, (k, (m, (off, XConstString str)))).
    split; [apply in_sites; auto | left; reflexivity].
Qed.
Lemma in_class_refs p r :
  In r (class_refs p) <->
  exists d k m off kind dims base, In d p /\ In k d /\ In m (c_methods k) /\
    ((kind = 34 /\ In (off, XNew dims base) (m_code m)) \/ (kind = 28 /\ In (off, XConstClass dims base) (m_code m))) /\
    0 <= base /\ base <> c_name k /\ r = [kind; base; c_name k; m_name m; m_desc m; off].
Proof.
  unfold class_refs. rewrite in_flat_map. split.
  - intros (s & Hs & H). destruct s as (d & k & m & off & i). apply in_sites in Hs as (Hd & Hk & Hm & Hi).
    destruct i as [| | dims base | dims base | |]; cbn [class_rows] in H; try contradiction;
      (destruct ((base <? 0) || (base =? c_name k)) eqn:E; [contradiction|]; apply orb_false_iff in E as [E1 E2];
       apply Z.ltb_ge in E1; apply Z.eqb_neq in E2; destruct H as [<-|[]]).
    + exists d, k, m, off, 34, dims, base. auto 10.
    + exists d, k, m, off, 28, dims, base. auto 10.
  - intros (d & k & m & off & kind & dims & base & Hd & Hk & Hm & Hi & Hb & Hn & ->).
    assert (E : (base <? 0) || (base =? c_name k) = false)
      by (apply orb_false_iff; split; [apply Z.ltb_ge; lia | now apply Z.eqb_neq]).
    destruct Hi as [[-> Hi]|[-> Hi]].
    + exists (d, (k, (m, (off, XNew dims base)))). split; [apply in_sites; auto|]. cbn [class_rows]. rewrite E. left; reflexivity.
    + exists (d, (k, (m, (off, XConstClass dims base)))). split; [apply in_sites; auto|]. cbn [class_rows]. rewrite E. left; reflexivity.
Qed.

(* ---------------------------------------------------------------- C14: fields *)
Lemma in_field_refs p r :
  In r (field_refs p) <->
  exists d k m off op cls name typ, In d p /\ In k d /\ In m (c_methods k) /\ In (off, XField op cls name typ) (m_code m) /\
    field_defined d cls name typ = true /\
    r = [if is_read op then 0 else 1; c_name k; cls; name; typ; m_name m; m_desc m; off].
Proof.
  unfold field_refs. rewrite in_flat_map. split.
  - intros (s & Hs & H). destruct s as (d & k & m & off & i). apply in_sites in Hs as (Hd & Hk & Hm & Hi).
    destruct i as [| | | | op cls name typ |]; cbn [field_rows] in H; try contradiction.
    destruct (field_defined d cls name typ) eqn:E; [|contradiction]. destruct H as [<-|[]].
    exists d, k, m, off, op, cls, name, typ. auto 10.
  - intros (d & k & m & off & op & cls & name & typ & Hd & Hk & Hm & Hi & E & ->).
    exists (d, (k, (m, (off, XField op cls name typ)))). split; [apply in_sites; auto|]. cbn [field_rows]. rewrite E. left; reflexivity.
Qed.
Lemma field_defined_spec d cls name typ :
  field_defined d cls name typ = true <-> exists k, In k d /\ c_name k = cls /\ In (name, typ) (c_fields k).
Proof.
  unfold field_defined. rewrite existsb_exists. split.
  - intros (k & Hk & E). apply andb_true_iff in E as [E1 E2]. apply Z.eqb_eq in E1. apply existsb_exists in E2 as ([n t] & Hf & E).
    cbn [fst snd] in E. apply andb_true_iff in E as [En Et]. apply Z.eqb_eq in En, Et. subst. eauto.
  - intros (k & Hk & <- & Hf). exists k. split; [exact Hk|]. rewrite Z.eqb_refl. cbn [andb]. apply existsb_exists.
    exists (name, typ). cbn [fst snd]. now rewrite !Z.eqb_refl.
Qed.
(* the part of the statement that holds: accesses from inside the class that defines the field *)
Lemma own_class_access_listed p d k m off op name typ :
  In d p -> In k d -> In m (c_methods k) -> In (off, XField op (c_name k) name typ) (m_code m) -> In (name, typ) (c_fields k) ->
  In [if is_read op then 0 else 1; c_name k; c_name k; name; typ; m_name m; m_desc m; off] (field_refs p).
Proof.
  intros Hd Hk Hm Hi Hf. apply in_field_refs. exists d, k, m, off, op, (c_name k), name, typ. repeat split; auto.
  apply field_defined_spec. eauto.
Qed.
Lemma in_field_objects p r :
  In r (field_objects p) <->
  (exists d k name typ, In d p /\ In k d /\ In (name, typ) (c_fields k) /\ r = [c_name k; c_name k; name; typ]) \/
  (exists rw holder cls name typ mn md off, In [rw; holder; cls; name; typ; mn; md; off] (field_refs p) /\ r = [holder; cls; name; typ]).
Proof.
  unfold field_objects. rewrite in_app_iff, !in_flat_map. split; intros [H|H]; [left|right|left|right].
  - destruct H as (k & Hk & H). apply in_all_classes in Hk as (d & Hd & Hk). apply in_map_iff in H as ([n t] & <- & Hf). exists d, k, n, t. auto.
  - destruct H as (r0 & Hr & H). pose proof Hr as Hr'.
    apply in_field_refs in Hr' as (d & k & m & off & op & cls & name & typ & _ & _ & _ & _ & _ & E). subst r0.
    cbn in H. destruct H as [<-|[]]. eauto 12.
  - destruct H as (d & k & name & typ & Hd & Hk & Hf & ->). exists k. split; [apply in_all_classes; eauto|].
    apply in_map_iff. exists (name, typ). auto.
  - destruct H as (rw & holder & cls & name & typ & mn & md & off & H & ->). exists [rw; holder; cls; name; typ; mn; md; off].
    split; [exact H | left; reflexivity].
Qed.
(* if every access to a defined field comes from the defining class, every FieldAnalysis sits on the field's own class *)
Lemma one_object_per_field_partial p :
  (forall d k m off op cls name typ, In d p -> In k d -> In m (c_methods k) -> In (off, XField op cls name typ) (m_code m) ->
     field_defined d cls name typ = true -> cls = c_name k) ->
  forall holder cls name typ, In [holder; cls; name; typ] (field_objects p) -> holder = cls.
Proof.
  intros H holder cls name typ Hin. apply in_field_objects in Hin as [(d & k & n & t & _ & _ & _ & E)|(rw & h & c & n & t & mn & md & off & Hr & E)].
  - injection E as -> -> _ _. reflexivity.
  - injection E as -> -> -> ->. apply in_field_refs in Hr as (d & k & m & off' & op & cls' & name' & typ' & Hd & Hk & Hm & Hi & Hdef & E).
    injection E as _ -> -> _ _ _ _ _. symmetry. eapply H; eauto.
Qed.

(* the full statement of C14, and its refutation in the model *)
Definition field_xrefs_on_owner (p : program) : Prop :=
  forall d k m off op cls name typ,
    In d p -> In k d -> In m (c_methods k) -> In (off, XField op cls name typ) (m_code m) ->
    field_defined (concat p) cls name typ = true ->
    In [if is_read op then 0 else 1; cls; cls; name; typ; m_name m; m_desc m; off] (field_refs p).
Definition one_object_per_field (p : program) : Prop :=
  forall holder cls name typ, In [holder; cls; name; typ] (field_objects p) -> holder = cls.

Definition w_m : xmethod := {| m_name := 7; m_desc := 8; m_code := [(0, XField 82 1 5 6)] |}.
Definition w_A : xclass := {| c_name := 1; c_methods := []; c_fields := [(5, 6)] |}.
Definition w_B : xclass := {| c_name := 2; c_methods := [w_m]; c_fields := [] |}.
Definition w_same_dex : program := [[w_A; w_B]].
Definition w_two_dex : program := [[w_A]; [w_B]].

Lemma field_xrefs_on_owner_refuted : ~ field_xrefs_on_owner w_same_dex.
Proof.
  intros H. specialize (H [w_A; w_B] w_B w_m 0 82 1 5 6).
  apply (not_in_by_existsb [0; 1; 1; 5; 6; 7; 8; 0] (field_refs w_same_dex)); [vm_compute; reflexivity|].
  apply H; cbn; auto.
Qed.
Lemma one_object_per_field_refuted : ~ one_object_per_field w_same_dex.
Proof.
  intros H. specialize (H 2 1 5 6). assert (X : 2 = 1); [|discriminate]. apply H. vm_compute. auto.
Qed.
Lemma cross_dex_access_dropped : field_refs w_two_dex = [] /\ field_defined (concat w_two_dex) 1 5 6 = true.
Proof. split; vm_compute; reflexivity. Qed.

(* ---------------------------------------------------------------- C16: order and split *)
Lemma call_rows_ext im im' s : (forall key, im key = im' key) -> call_rows im s = call_rows im' s.
Proof. intros H. destruct s as (d & k & m & off & i). destruct i; cbn [call_rows]; try reflexivity. now rewrite H. Qed.
Lemma call_rows_retag im D s : call_rows im (retag D s) = call_rows im s.
Proof. destruct s as (d & k & m & off & i). reflexivity. Qed.
Lemma string_rows_retag D s : string_rows (retag D s) = string_rows s.
Proof. destruct s as (d & k & m & off & i). reflexivity. Qed.
Lemma class_rows_retag D s : class_rows (retag D s) = class_rows s.
Proof. destruct s as (d & k & m & off & i). reflexivity. Qed.

Lemma calls_perm p p' : Permutation p p' -> Permutation (calls p) (calls p').
Proof.
  intros H. unfold calls.
  rewrite (flat_map_ext _ _ (fun s => call_rows_ext _ _ s (fun key => internal_method_perm p p' key H))).
  apply Permutation_flat_map, sites_perm, H.
Qed.
Lemma calls_merged p : calls [concat p] = calls p.
Proof.
  unfold calls. rewrite sites_merged, flat_map_map_. apply flat_map_ext. intros s. rewrite call_rows_retag.
  apply call_rows_ext. intros key. apply internal_method_merged.
Qed.
Lemma string_refs_perm p p' : Permutation p p' -> Permutation (string_refs p) (string_refs p').
Proof. intros H. apply Permutation_flat_map, sites_perm, H. Qed.
Lemma string_refs_merged p : string_refs [concat p] = string_refs p.
Proof. unfold string_refs. rewrite sites_merged, flat_map_map_. apply flat_map_ext. intros s. apply string_rows_retag. Qed.
Lemma class_refs_perm p p' : Permutation p p' -> Permutation (class_refs p) (class_refs p').
Proof. intros H. apply Permutation_flat_map, sites_perm, H. Qed.
Lemma class_refs_merged p : class_refs [concat p] = class_refs p.
Proof. unfold class_refs. rewrite sites_merged, flat_map_map_. apply flat_map_ext. intros s. apply class_rows_retag. Qed.
Lemma field_refs_perm p p' : Permutation p p' -> Permutation (field_refs p) (field_refs p').
Proof. intros H. apply Permutation_flat_map, sites_perm, H. Qed.

(* no access crosses a DEX boundary: the accessed field is defined in the DEX of the instruction or in none *)
Definition fields_local (p : program) : Prop :=
  forall d k m off op cls name typ, In d p -> In k d -> In m (c_methods k) -> In (off, XField op cls name typ) (m_code m) ->
    field_defined (concat p) cls name typ = field_defined d cls name typ.
Lemma field_refs_merged_local p : fields_local p -> field_refs [concat p] = field_refs p.
Proof.
  intros Hloc. unfold field_refs. rewrite sites_merged, flat_map_map_. apply flat_map_ext_in_.
  intros (d & k & m & off & i) Hs. apply in_sites in Hs as (Hd & Hk & Hm & Hi).
  destruct i as [| | | | op cls name typ |]; try reflexivity. unfold retag. cbn [snd field_rows].
  now rewrite (Hloc d k m off op cls name typ Hd Hk Hm Hi).
Qed.
Lemma field_refs_merged_refuted : field_refs [concat w_two_dex] <> field_refs w_two_dex.
Proof. vm_compute. discriminate. Qed.

Lemma external_classes_perm p p' : Permutation p p' -> Permutation (external_classes p) (external_classes p').
Proof.
  intros H. unfold external_classes. apply Permutation_app.
  - rewrite (flat_map_ext _ (fun r => match r with [_; base; _; _; _; _] => if internal_class p' base then [] else [base] | _ => [] end)).
    + apply Permutation_flat_map, class_refs_perm, H.
    + intros r. repeat (destruct r as [|? r]; try reflexivity). now rewrite (internal_class_perm p p' _ H).
  - rewrite (flat_map_ext _ (fun r => match r with [_; _; _; base; _; _; _; _] => if internal_class p' base then [] else [base] | _ => [] end)).
    + apply Permutation_flat_map, calls_perm, H.
    + intros r. repeat (destruct r as [|? r]; try reflexivity). now rewrite (internal_class_perm p p' _ H).
Qed.
Lemma external_classes_merged p : external_classes [concat p] = external_classes p.
Proof.
  unfold external_classes. rewrite class_refs_merged, calls_merged. f_equal; apply flat_map_ext; intros r;
    repeat (destruct r as [|? r]; try reflexivity); now rewrite internal_class_merged.
Qed.
Lemma concat_perm {A} (l l' : list (list A)) : Permutation l l' -> Permutation (concat l) (concat l').
Proof.
  induction 1 as [|x l l' H IH|x y l|l l' l'' H1 IH1 H2 IH2]; cbn [concat].
  - constructor.
  - now apply Permutation_app_head.
  - rewrite !app_assoc. apply Permutation_app_tail, Permutation_app_comm.
  - now transitivity (concat l').
Qed.
Lemma internal_methods_perm p p' : Permutation p p' -> Permutation (internal_methods p) (internal_methods p').
Proof.
  intros H. unfold internal_methods, all_classes. apply Permutation_flat_map, concat_perm, H.
Qed.
Lemma all_methods_perm p p' : Permutation p p' -> Permutation (all_methods p) (all_methods p').
Proof.
  intros H. unfold all_methods. apply Permutation_app.
  - apply Permutation_map, internal_methods_perm, H.
  - apply Permutation_flat_map, calls_perm, H.
Qed.
Lemma all_methods_merged p : all_methods [concat p] = all_methods p.
Proof. unfold all_methods, internal_methods. now rewrite calls_merged, all_classes_merged. Qed.
Lemma call_edges_perm p p' : Permutation p p' -> Permutation (call_edges p) (call_edges p').
Proof. intros H. apply Permutation_flat_map, calls_perm, H. Qed.
Lemma call_edges_merged p : call_edges [concat p] = call_edges p.
Proof. unfold call_edges. now rewrite calls_merged. Qed.
Lemma field_objects_perm p p' : Permutation p p' -> Permutation (field_objects p) (field_objects p').
Proof.
  intros H. unfold field_objects. apply Permutation_app.
  - apply Permutation_flat_map. unfold all_classes. apply concat_perm, H.
  - apply Permutation_flat_map, field_refs_perm, H.
Qed.
Lemma field_objects_merged_local p : fields_local p -> field_objects [concat p] = field_objects p.
Proof. intros H. unfold field_objects. now rewrite field_refs_merged_local, all_classes_merged. Qed.
