(* C13 C14 C15 C16 - hand-written model of Analysis.add / create_xref (_create_xref steps 1-4,
   _resolve_method) of androguard/core/analysis/analysis.py.
   Names (class descriptors without array prefix, method names, descriptors, field names, strings) are
   integers assigned by the harness; a type is (array dimensions, base) where base >= 0 is a class
   (L...;) and base < 0 a primitive.  All DEX files are added first, then the cross-references are
   created once (Analysis.create_xref), so the tables of analysed classes and methods are complete
   before any instruction is looked at: the model is a description of the resulting relations.
   Tied to the source by tools/vlib/xref_common.py. *)
From Coq Require Import ZArith List Bool.
Require Import V.Lib.Val V.Lib.Result.
Import ListNotations.
Open Scope Z_scope.

Inductive xins :=
| XInvoke (op dims base name desc : Z)     (* 0x6e..0x72, 0x74..0x78 on method (type, name, descriptor) *)
| XConstString (s : Z)                     (* 0x1a, 0x1b *)
| XNew (dims base : Z)                     (* 0x22 *)
| XConstClass (dims base : Z)              (* 0x1c *)
| XField (op cls name typ : Z)             (* 0x52..0x6d on field (class, name, type) *)
| XOther.
Record xmethod := { m_name : Z; m_desc : Z; m_code : list (Z * xins) }.             (* (offset, instruction) *)
Record xclass := { c_name : Z; c_methods : list xmethod; c_fields : list (Z * Z) }. (* fields: (name, type) *)
Definition xdex := list xclass.
Definition program := list xdex.

Definition mkey := (Z * Z * Z)%type.       (* class, name, descriptor *)
Definition mkey_eqb (a b : mkey) : bool :=
  let '(a1, a2, a3) := a in let '(b1, b2, b3) := b in (a1 =? b1) && (a2 =? b2) && (a3 =? b3).

Definition all_classes (p : program) : list xclass := concat p.
Definition internal_class (p : program) (c : Z) : bool := existsb (fun k => c_name k =? c) (all_classes p).
Definition internal_methods (p : program) : list mkey :=
  flat_map (fun k => map (fun m => (c_name k, m_name m, m_desc m)) (c_methods k)) (all_classes p).
Definition internal_method (p : program) (k : mkey) : bool := existsb (mkey_eqb k) (internal_methods p).

(* every (dex, class, method, (offset, instruction)) in processing order; the DEX the instruction sits in is kept
   for the field lookup of step 4 (instruction.cm.vm is that DEX) *)
Definition site := (xdex * (xclass * (xmethod * (Z * xins))))%type.
Definition sites (p : program) : list site :=
  flat_map (fun d => flat_map (fun k => flat_map (fun m => map (fun oi => (d, (k, (m, oi)))) (m_code m)) (c_methods k)) d) p.

(* step 2: (caller class, caller name, caller desc, callee class, callee name, callee desc, offset, callee external?) *)
Definition call_rows (im : mkey -> bool) (s : site) : list (list Z) :=
  let '(_, (k, (m, (off, i)))) := s in
  match i with
  | XInvoke op dims base name desc =>
      if base <? 0 then [] else [[c_name k; m_name m; m_desc m; base; name; desc; off; if im (base, name, desc) then 0 else 1]]
  | _ => []
  end.
Definition calls (p : program) : list (list Z) := flat_map (call_rows (internal_method p)) (sites p).
(* Analysis.get_call_graph: an edge per reported callee (caller key, callee key) *)
Definition call_edges (p : program) : list (list Z) :=
  flat_map (fun r => match r with [a; b; c; d; e; f; _; _] => [[a; b; c; d; e; f]] | _ => [] end) (calls p).
(* the two sides on which a call is stored: xref_to of the caller, xref_from of the callee *)
Definition callees_of (p : program) (caller : mkey) : list (list Z) :=
  filter (fun r => match r with [a; b; c; _; _; _; _; _] => mkey_eqb (a, b, c) caller | _ => false end) (calls p).
Definition callers_of (p : program) (callee : mkey) : list (list Z) :=
  filter (fun r => match r with [_; _; _; d; e; f; _; _] => mkey_eqb (d, e, f) callee | _ => false end) (calls p).
(* step 3: (string, class, method name, method desc, offset) *)
Definition string_rows (s : site) : list (list Z) :=
  let '(_, (k, (m, (off, i)))) := s in
  match i with XConstString str => [[str; c_name k; m_name m; m_desc m; off]] | _ => [] end.
Definition string_refs (p : program) : list (list Z) := flat_map string_rows (sites p).
(* step 1: (kind 0x22 / 0x1c, target class, class, method name, method desc, offset) *)
Definition class_rows (s : site) : list (list Z) :=
  let '(_, (k, (m, (off, i)))) := s in
  match i with
  | XNew dims base => if (base <? 0) || (base =? c_name k) then [] else [[34; base; c_name k; m_name m; m_desc m; off]]
  | XConstClass dims base => if (base <? 0) || (base =? c_name k) then [] else [[28; base; c_name k; m_name m; m_desc m; off]]
  | _ => []
  end.
Definition class_refs (p : program) : list (list Z) := flat_map class_rows (sites p).
(* step 4: the field is looked up in the DEX of the instruction only; the access is filed under the ACCESSING class:
   (read 0 / write 1, holder class = accessing class, field class, field name, field type, method name, method desc, offset) *)
Definition field_defined (d : xdex) (cls name typ : Z) : bool :=
  existsb (fun k => (c_name k =? cls) && existsb (fun f => (fst f =? name) && (snd f =? typ)) (c_fields k)) d.
Definition is_read (op : Z) : bool := ((82 <=? op) && (op <=? 88)) || ((96 <=? op) && (op <=? 102)).
Definition field_rows (s : site) : list (list Z) :=
  let '(d, (k, (m, (off, i)))) := s in
  match i with
  | XField op cls name typ =>
      if field_defined d cls name typ
      then [[if is_read op then 0 else 1; c_name k; cls; name; typ; m_name m; m_desc m; off]] else []
  | _ => []
  end.
Definition field_refs (p : program) : list (list Z) := flat_map field_rows (sites p).
(* classes known after create_xref: analysed ones, then external ones created by steps 1 and 2 *)
Definition external_classes (p : program) : list Z :=
  flat_map (fun r => match r with [_; base; _; _; _; _] => if internal_class p base then [] else [base] | _ => [] end) (class_refs p) ++
  flat_map (fun r => match r with [_; _; _; base; _; _; _; _] => if internal_class p base then [] else [base] | _ => [] end) (calls p).

(* methods known after create_xref: (class, name, descriptor, external?) *)
Definition all_methods (p : program) : list (list Z) :=
  map (fun k => let '(c, n, d) := k in [c; n; d; 0]) (internal_methods p) ++
  flat_map (fun r => match r with [_; _; _; base; name; desc; _; 1] => [[base; name; desc; 1]] | _ => [] end) (calls p).
(* FieldAnalysis objects: one per defined field under its own class (ClassAnalysis.__init__), and one under every
   class that accesses it (add_field_xref_read/write on the accessing class): (holder, field class, name, type) *)
Definition field_objects (p : program) : list (list Z) :=
  flat_map (fun k => map (fun f => [c_name k; c_name k; fst f; snd f]) (c_fields k)) (all_classes p) ++
  flat_map (fun r => match r with [_; holder; cls; name; typ; _; _; _] => [[holder; cls; name; typ]] | _ => [] end) (field_refs p).

(* ---- canonical order for the comparison: rows sorted lexicographically, duplicates removed (the code uses sets) ---- *)
Fixpoint row_leb (a b : list Z) : bool :=
  match a, b with
  | [], _ => true
  | _ :: _, [] => false
  | x :: a', y :: b' => if x <? y then true else if y <? x then false else row_leb a' b'
  end.
Definition row_eqb (a b : list Z) : bool := list_eqb Z.eqb a b.
Fixpoint insert_row (r : list Z) (l : list (list Z)) : list (list Z) :=
  match l with
  | [] => [r]
  | x :: t => if row_eqb r x then l else if row_leb r x then r :: l else x :: insert_row r t
  end.
Definition canon_rows (l : list (list Z)) : list (list Z) := fold_right insert_row [] l.
Definition vrows (l : list (list Z)) : val := VList (map vlistZ (canon_rows l)).

Definition obs_xref (p : program) : val :=
  VList [vrows (calls p); vrows (string_refs p); vrows (class_refs p); vrows (field_refs p);
         vrows (map (fun c => [c]) (external_classes p)); vrows (all_methods p); vrows (field_objects p); vrows (call_edges p)].
