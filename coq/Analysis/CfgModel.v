(* C10 C11 C12 C40 - hand-written model of basic-block construction:
   androguard/core/dex/__init__.py determineNext, determineException (grouping and order),
   DCode.get_ins_off; androguard/core/analysis/analysis.py MethodAnalysis._create_basic_block,
   DEXBasicBlock.push / set_childs / set_fathers, BasicBlocks.get_basic_block,
   Exceptions.add / get_exception.
   A method is the list of its instructions as the linear sweep yields them: byte length and kind
   (offsets in 16-bit units relative to the instruction, as encoded).  Offsets of the model are bytes.
   Tied to the source by tools/props/c10.py (shared by C11 C12 C40). *)
From Coq Require Import ZArith List Bool.
Require Import V.Lib.Val V.Lib.Result.
Import ListNotations.
Open Scope Z_scope.

Inductive kind :=
| KPlain                         (* anything that is not listed below *)
| KExit                          (* return*, throw: 0x0e..0x11, 0x27 *)
| KGoto (off : Z)                (* 0x28..0x2a *)
| KIf (off : Z)                  (* 0x32..0x3d *)
| KSwitch (off : Z)              (* 0x2b 0x2c: offset of the payload *)
| KFill (off : Z)                (* 0x26 fill-array-data: offset of the payload *)
| KSwitchPayload (targets : list Z)   (* packed-switch-payload / sparse-switch-payload *)
| KFillPayload.                  (* fill-array-data-payload *)
Record ins := { ilen : Z; ikind : kind }.

(* get_instructions_idx *)
Fixpoint with_off (start : Z) (l : list ins) : list (Z * ins) :=
  match l with [] => [] | i :: t => (start, i) :: with_off (start + ilen i) t end.
(* DCode.get_ins_off(off) *)
Definition get_ins_off (code : list (Z * ins)) (off : Z) : option ins :=
  option_map snd (find (fun p => fst p =? off) code).

Definition memZ (x : Z) (l : list Z) : bool := existsb (Z.eqb x) l.
Definition is_branch (k : kind) : bool :=           (* op_value in BasicOPCODES *)
  match k with KExit | KGoto _ | KIf _ | KSwitch _ => true | _ => false end.

(* determineNext(i, cur_idx, m) *)
Definition determine_next (code : list (Z * ins)) (idx : Z) (i : ins) : list Z :=
  match ikind i with
  | KExit => [-1]
  | KGoto off => [off * 2 + idx]
  | KIf off => [idx + ilen i; off * 2 + idx]
  | KSwitch off =>
      let remaining := (off * 2 + idx) mod 4 in
      let padding := if remaining =? 0 then 0 else 4 - remaining in
      (idx + ilen i) ::
      match get_ins_off code (off * 2 + idx + padding) with
      | Some {| ikind := KSwitchPayload targets |} => map (fun t => t * 2 + idx) targets
      | _ => []
      end
  | _ => []
  end.

(* ---- determineException: try items grouped by handler offset (dict insertion order), then flattened ---- *)
Record try_item := { t_start : Z; t_count : Z; t_hoff : Z }.            (* start_addr, insn_count (units), handler_off *)
Record handler := { h_off : Z; h_typed : list (Z * Z); h_catch_all : option Z }.   (* (type, addr) ..., catch_all_addr: units *)
Definition TY_THROWABLE := -1.                                          (* stands for Ljava/lang/Throwable; *)
Record exc := { e_start : Z; e_end : Z; e_handlers : list (Z * Z) }.    (* bytes; (type, handler address in bytes) *)

Fixpoint group_add (g : list (Z * list try_item)) (k : Z) (t : try_item) : list (Z * list try_item) :=
  match g with
  | [] => [(k, [t])]
  | (k', ts) :: r => if k' =? k then (k', ts ++ [t]) :: r else (k', ts) :: group_add r k t
  end.
Definition group_tries (tries : list try_item) : list (Z * list try_item) :=
  fold_left (fun g t => group_add g (t_hoff t) t) tries [].
(* the first handler with that offset is used (every matching handler is appended to the group entry, value[1] is read) -
   offsets are distinct in a well-formed list; a try item whose offset matches no handler raises IndexError in the code *)
Definition exc_step (handlers : list handler) (kt : Z * try_item) (acc : result (list exc)) : result (list exc) :=
  match acc with Err e => Err e | Ok acc =>
    match find (fun h => h_off h =? fst kt) handlers with
    | None => Err IndexError
    | Some h =>
        let t := snd kt in
        Ok ({| e_start := t_start t * 2; e_end := t_start t * 2 + t_count t * 2 - 1;
               e_handlers := map (fun p => (fst p, snd p * 2)) (h_typed h) ++
                             match h_catch_all h with Some a => [(TY_THROWABLE, a * 2)] | None => [] end |} :: acc)
    end
  end.
Definition determine_exception (tries : list try_item) (handlers : list handler) : result (list exc) :=
  fold_right (exc_step handlers) (Ok []) (flat_map (fun g => map (fun t => (fst g, t)) (snd g)) (group_tries tries)).

(* ---- _create_basic_block ---- *)
Record block := { b_start : Z; b_ins : list (Z * ins) }.               (* instructions with their offsets *)
Definition b_end (b : block) : Z := b_start b + fold_left (fun a p => a + ilen (snd p)) (b_ins b) 0.
Definition b_last (b : block) : option (Z * ins) := last (map Some (b_ins b)) None.

Definition branch_map (code : list (Z * ins)) : list (Z * list Z) :=     (* h *)
  flat_map (fun p => if is_branch (ikind (snd p)) then [(fst p, determine_next code (fst p) (snd p))] else []) code.
Definition leaders (code : list (Z * ins)) (excs : list exc) : list Z := (* l *)
  flat_map snd (branch_map code) ++ flat_map (fun e => e_start e :: map snd (e_handlers e)) excs.

(* the loop that creates the blocks: cur is the current block (instructions in reverse), done the finished ones (reverse) *)
Fixpoint build (l hk : list Z) (code : list (Z * ins)) (cur_start : Z) (cur : list (Z * ins)) (done : list block)
  : list block :=
  match code with
  | [] => rev (match cur with [] => done | _ => {| b_start := cur_start; b_ins := rev cur |} :: done end)
  | (idx, i) :: rest =>
      let '(cur_start, cur, done) :=
        if memZ idx l && negb (match cur with [] => true | _ => false end)
        then (idx, [], {| b_start := cur_start; b_ins := rev cur |} :: done) else (cur_start, cur, done) in
      let cur := (idx, i) :: cur in
      if memZ idx hk
      then build l hk rest (idx + ilen i) [] ({| b_start := cur_start; b_ins := rev cur |} :: done)
      else build l hk rest cur_start cur done
  end.
Definition blocks_of (code : list (Z * ins)) (excs : list exc) : list block :=
  build (leaders code excs) (map fst (branch_map code)) code 0 [] [].

(* BasicBlocks.get_basic_block(idx) *)
Definition get_basic_block (bs : list block) (idx : Z) : option block :=
  find (fun b => (b_start b <=? idx) && (idx <? b_end b)) bs.

(* set_childs: (offset of the last instruction, target, start of the child block) *)
Definition childs (code : list (Z * ins)) (bs : list block) (b : block) : list (Z * Z * Z) :=
  match b_last b with
  | None => []
  | Some (lidx, li) =>
      let values := if is_branch (ikind li) then determine_next code lidx li else [] in
      match values with
      | [] => match get_basic_block bs (b_end b + 1) with Some c => [(lidx, b_end b, b_start c)] | None => [] end
      | _ => flat_map (fun v => if v =? -1 then [] else
                                 match get_basic_block bs v with Some c => [(lidx, v, b_start c)] | None => [] end) values
      end
  end.
(* set_fathers, in the order the blocks are processed: (target, offset of the branching instruction, start of the father) *)
Definition fathers (code : list (Z * ins)) (bs : list block) (b : block) : list (Z * Z * Z) :=
  flat_map (fun f => flat_map (fun c => let '(src, tgt, cs) := c in
                                         if cs =? b_start b then [(tgt, src, b_start f)] else []) (childs code bs f)) bs.

(* Exceptions.get_exception(block.start, block.end - 1) *)
Definition block_exception (excs : list exc) (b : block) : option exc :=
  find (fun e => (e_start e <=? b_end b - 1) && (b_start b <=? e_end e)) excs.

(* DEXBasicBlock.push: special_ins[idx] = get_ins_off(idx + ref_off * 2) for fill-array-data and the switches *)
Definition special_ins (code : list (Z * ins)) (b : block) : list (Z * option Z) :=
  flat_map (fun p => match ikind (snd p) with
                     | KSwitch off | KFill off =>
                         [(fst p, option_map fst (find (fun q => fst q =? fst p + off * 2) code))]
                     | _ => []
                     end) (b_ins b).

(* ---- observation ---- *)
Definition vtriple (t : Z * Z * Z) : val := let '(a, b, c) := t in VList [VZ a; VZ b; VZ c].
Definition vexc (bs : list block) (e : exc) : val :=
  VList [VZ (e_start e); VZ (e_end e);
         VList (map (fun h => VList [VZ (fst h); VZ (snd h); vopt (fun b => VZ (b_start b)) (get_basic_block bs (snd h))])
                    (e_handlers e))].
Definition obs_method (m : list ins * (list try_item * list handler)) : val :=
  let '(insl, (tries, hs)) := m in
  let code := with_off 0 insl in
  match determine_exception tries hs with
  | Err e => VErr (err_code e)
  | Ok excs =>
      let bs := blocks_of code excs in
      VList (map (fun b => VList [VZ (b_start b); VZ (b_end b); VZ (Z.of_nat (length (b_ins b)));
                                  VList (map vtriple (childs code bs b)); VList (map vtriple (fathers code bs b));
                                  vopt (vexc bs) (block_exception excs b);
                                  VList (map (fun s => VList [VZ (fst s); vopt VZ (snd s)]) (special_ins code b))]) bs)
  end.
